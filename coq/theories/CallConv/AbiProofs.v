(* C06 — proofs that the model of FuncDetail::init computes the ABI answer (Abi.v) for every signature, under the guards. *)
From Coq Require Import ZArith List Bool Lia.
Import ListNotations.
From Verif Require Import CallConv.FuncDetailModel CallConv.Abi CallConv.AbiLink.
Local Open Scope Z_scope.

(* ------------------------------------------------------------------ generic facts *)
Lemma count_cls_app q va k pre c :
  count_cls q va k (pre ++ [c]) = count_cls q va k pre + (if acls_eqb (q_cls q va c) k then 1 else 0).
Proof.
  unfold count_cls. rewrite filter_app, app_length. cbn [filter].
  destruct (acls_eqb (q_cls q va c) k); cbn [length]; lia.
Qed.

Lemma count_cls_nonneg q va k pre : 0 <= count_cls q va k pre.
Proof. unfold count_cls. lia. Qed.

Lemma order_at_spec l i : 0 <= i -> (length l <= 16)%nat ->
  order_at l i = match nth_error l (Z.to_nat i) with Some r => r | None => 255 end.
Proof.
  intros Hi Hl. unfold order_at. destruct (Z.ltb_spec i 16).
  - destruct (nth_error l (Z.to_nat i)) eqn:E.
    + apply nth_error_nth. exact E.
    + apply nth_overflow. apply nth_error_None. exact E.
  - assert (nth_error l (Z.to_nat i) = None) as ->. { apply nth_error_None. lia. }
    reflexivity.
Qed.

Lemma reg_lookup regs k g : (length regs <= 16)%nat -> Forall (fun r => r <> 255) regs -> 0 <= k ->
  g = Z.min k (Z.of_nat (length regs)) ->
  match nth_error regs (Z.to_nat k) with
  | Some r => order_at regs g = r /\ r <> 255 /\ g + 1 = Z.min (k + 1) (Z.of_nat (length regs))
  | None => order_at regs g = 255 /\ g = Z.min (k + 1) (Z.of_nat (length regs)) /\ Z.of_nat (length regs) <= k
  end.
Proof.
  intros Hl Hf Hk ->. destruct (nth_error regs (Z.to_nat k)) eqn:E.
  - assert (Z.to_nat k < length regs)%nat by (apply nth_error_Some; congruence).
    assert (Hm : Z.min k (Z.of_nat (length regs)) = k) by lia. rewrite Hm.
    rewrite order_at_spec by lia. rewrite E. split; [reflexivity|]. split.
    + rewrite Forall_forall in Hf. apply Hf. eapply nth_error_In. exact E.
    + lia.
  - apply nth_error_None in E.
    assert (Hm : Z.min k (Z.of_nat (length regs)) = Z.of_nat (length regs)) by lia. rewrite Hm.
    rewrite order_at_spec by lia. rewrite Nat2Z.id.
    assert (nth_error regs (length regs) = None) as -> by (apply nth_error_None; lia).
    split; [reflexivity | lia].
Qed.

Lemma acls_eqb_refl k : acls_eqb k k = true.
Proof. destruct k; reflexivity. Qed.

Lemma in_range256 t : inr_ t 0 255 = true -> In t (range 0 256).
Proof.
  unfold inr_, range. intros H. apply andb_prop in H. destruct H as [H1 H2].
  apply Z.leb_le in H1. apply Z.leb_le in H2.
  replace t with (Z.of_nat (Z.to_nat t)) by lia. apply in_map. apply in_seq. lia.
Qed.

(* ------------------------------------------------------------------ x86, default strategy *)
Definition sse_pass (cc : callconv) (va : bool) (t : Z) : bool :=
  if ty_is_float t then has_flag (cc_flags cc) F_FloatsByVec else negb (va && has_flag (cc_flags cc) F_VecStackIfVA).

(* what has to hold of one component for the model's step to follow the ABI class of the component (checked by computation
   for every type of the universe of each convention) *)
Definition agree_comp (a : abi_id) (cc : callconv) (q : seqabi) (va : bool) (c : comp) : bool :=
  let t := c_ty c in
  negb (t =? 0) && implb (c_lo c) (c_half c) &&
  match q_cls q va c with
  | KInt => ty_is_int t && (q_int_rt q t =? (if t <=? 39 then RT_Gp32 else RT_Gp64))
            && (own_size a c =? Z.max (size_of t) (reg_size (cc_arch cc)))
  | KSse => negb (ty_is_int t) && (ty_is_float t || ty_is_vec t) && sse_pass cc va t && (q_vec_rt q t =? x86_vec_regtype t)
            && (own_size a c =? size_of t)
  | KMem => if ty_is_int t
            then (own_size a c =? Z.max (size_of t) (reg_size (cc_arch cc))) && (c_half c || (Z.of_nat (length (q_int_regs q)) =? 0))
            else (ty_is_float t || ty_is_vec t) && negb (sse_pass cc va t) && (own_size a c =? size_of t)
  end.

Record xrel (cc : callconv) (q : seqabi) : Prop := mkXrel {
  xr_gp : cc_ogp cc = q_int_regs q;
  xr_vec : cc_ovec cc = q_vec_regs q;
  xr_gplen : (length (q_int_regs q) <= 16)%nat;
  xr_veclen : (length (q_vec_regs q) <= 16)%nat;
  xr_gpok : Forall (fun r => r <> 255) (q_int_regs q);
  xr_vecok : Forall (fun r => r <> 255) (q_vec_regs q) }.

Definition xinv (q : seqabi) (va : bool) (pre : list comp) (nsaa : Z) (s : xst) : Prop :=
  x_gp s = Z.min (count_cls q va KInt pre) (Z.of_nat (length (q_int_regs q))) /\
  x_vec s = Z.min (count_cls q va KSse pre) (Z.of_nat (length (q_vec_regs q))) /\
  x_off s = nsaa.

Lemma xval_int cc va s t : ty_is_int t = true ->
  x86_default_value cc va s t =
  (let r := order_at (cc_ogp cc) (x_gp s) in
   if negb (r =? 255) then (fv_reg t (if t <=? 39 then RT_Gp32 else RT_Gp64) r, mkXst (x_gp s + 1) (x_vec s) (x_off s))
   else (fv_stack t (x_off s), mkXst (x_gp s) (x_vec s) (x_off s + Z.max (size_of t) (reg_size (cc_arch cc))))).
Proof. intros H. unfold x86_default_value. rewrite H. reflexivity. Qed.

Lemma xval_sse cc va s t : ty_is_int t = false -> (ty_is_float t || ty_is_vec t) = true ->
  x86_default_value cc va s t =
  (let r := if sse_pass cc va t then order_at (cc_ovec cc) (x_vec s) else 255 in
   if negb (r =? 255) then (fv_reg t (x86_vec_regtype t) r, mkXst (x_gp s) (x_vec s + 1) (x_off s))
   else (fv_stack t (x_off s), mkXst (x_gp s) (x_vec s) (x_off s + size_of t))).
Proof.
  intros H1 H2. unfold x86_default_value, sse_pass. rewrite H1, H2.
  destruct (ty_is_float t); destruct (has_flag (cc_flags cc) F_FloatsByVec); destruct va;
    destruct (has_flag (cc_flags cc) F_VecStackIfVA); reflexivity.
Qed.

(* the step of the specification on one component *)
Definition spec_step (q : seqabi) (va : bool) (pre : list comp) (nsaa : Z) (c : comp) : aloc * Z :=
  match seq_reg q va pre c with
  | Some (rt, id) => (L_reg rt id, nsaa)
  | None => (L_stack (round_up nsaa (q_align q c)), round_up nsaa (q_align q c) + q_slot q c)
  end.

Lemma x86_value_sim a cc q va c pre nsaa s :
  xrel cc q -> agree_comp a cc q va c = true -> xinv q va pre nsaa s -> guard_comp a q va pre nsaa c = true ->
  let '(v, s') := x86_default_value cc va s (c_ty c) in
  let '(l, n') := spec_step q va pre nsaa c in
  loc_of v = l /\ xinv q va (pre ++ [c]) n' s'.
Proof.
  intros R A I G. destruct R as [Rgp Rvec Lgp Lvec Fgp Fvec]. destruct I as (Ig & Iv & Io).
  unfold agree_comp in A. apply andb_prop in A. destruct A as [A0 A]. apply andb_prop in A0. destruct A0 as [_ Alo].
  unfold guard_comp in G. unfold spec_step, seq_reg in *. unfold xinv. rewrite !count_cls_app.
  destruct (q_cls q va c) eqn:K; cbn [acls_eqb].
  - (* INTEGER class *)
    apply andb_prop in A. destruct A as [A A3]. apply andb_prop in A. destruct A as [A1 A2].
    apply Z.eqb_eq in A2. apply Z.eqb_eq in A3.
    rewrite (xval_int _ _ _ _ A1). cbv zeta. rewrite Rgp.
    pose proof (reg_lookup (q_int_regs q) (count_cls q va KInt pre) (x_gp s) Lgp Fgp (count_cls_nonneg _ _ _ _) Ig) as L.
    destruct (c_lo c && negb (count_cls q va KInt pre + 2 <=? Z.of_nat (length (q_int_regs q)))) eqn:LO.
    + (* the low word of a 64-bit integer that does not fit as a pair: the ABI says stack; the guard says the registers are used up *)
      apply andb_prop in LO. destruct LO as [LO1 _]. rewrite LO1 in Alo. cbn [implb] in Alo.
      apply andb_prop in G. destruct G as [G G3]. apply andb_prop in G. destruct G as [G1 G2].
      apply Z.eqb_eq in G1. apply Z.eqb_eq in G2. rewrite Alo in G3. apply Z.leb_le in G3.
      assert (E : nth_error (q_int_regs q) (Z.to_nat (count_cls q va KInt pre)) = None) by (apply nth_error_None; lia).
      rewrite E in L. destruct L as (L1 & L2 & L3). rewrite L1. cbn [Z.eqb negb].
      split.
      * unfold loc_of, fv_stack, L_stack. cbn. rewrite G1, Io. reflexivity.
      * cbn [x_gp x_vec x_off]. split; [lia|]. split; [lia|]. rewrite G1, G2, A3, Io. reflexivity.
    + destruct (nth_error (q_int_regs q) (Z.to_nat (count_cls q va KInt pre))) as [r|] eqn:E.
      * destruct L as (L1 & L2 & L3). rewrite L1.
        assert ((r =? 255) = false) as -> by (apply Z.eqb_neq; exact L2). cbn [negb].
        split.
        -- unfold loc_of, fv_reg, L_reg. cbn. rewrite A2. reflexivity.
        -- cbn [x_gp x_vec x_off]. split; [lia|]. split; [lia | exact Io].
      * destruct L as (L1 & L2 & L3). rewrite L1. cbn [Z.eqb negb].
        apply andb_prop in G. destruct G as [G G3]. apply andb_prop in G. destruct G as [G1 G2].
        apply Z.eqb_eq in G1. apply Z.eqb_eq in G2.
        split.
        -- unfold loc_of, fv_stack, L_stack. cbn. rewrite G1, Io. reflexivity.
        -- cbn [x_gp x_vec x_off]. split; [lia|]. split; [lia|]. rewrite G1, G2, A3, Io. reflexivity.
  - (* SSE class *)
    apply andb_prop in A. destruct A as [A A5]. apply andb_prop in A. destruct A as [A A4].
    apply andb_prop in A. destruct A as [A A3]. apply andb_prop in A. destruct A as [A1 A2].
    apply negb_true_iff in A1. apply Z.eqb_eq in A4. apply Z.eqb_eq in A5.
    rewrite (xval_sse _ _ _ _ A1 A2). cbv zeta. rewrite A3, Rvec.
    pose proof (reg_lookup (q_vec_regs q) (count_cls q va KSse pre) (x_vec s) Lvec Fvec (count_cls_nonneg _ _ _ _) Iv) as L.
    destruct (nth_error (q_vec_regs q) (Z.to_nat (count_cls q va KSse pre))) as [r|] eqn:E.
    + destruct L as (L1 & L2 & L3). rewrite L1.
      assert ((r =? 255) = false) as -> by (apply Z.eqb_neq; exact L2). cbn [negb].
      split.
      * unfold loc_of, fv_reg, L_reg. cbn. rewrite A4. reflexivity.
      * cbn [x_gp x_vec x_off]. split; [lia|]. split; [lia | exact Io].
    + destruct L as (L1 & L2 & L3). rewrite L1. cbn [Z.eqb negb].
      apply andb_prop in G. destruct G as [G G3]. apply andb_prop in G. destruct G as [G1 G2].
      apply Z.eqb_eq in G1. apply Z.eqb_eq in G2.
      split.
      * unfold loc_of, fv_stack, L_stack. cbn. rewrite G1, Io. reflexivity.
      * cbn [x_gp x_vec x_off]. split; [lia|]. split; [lia|]. rewrite G1, G2, A5, Io. reflexivity.
  - (* MEMORY *)
    apply andb_prop in G. destruct G as [G G3]. apply andb_prop in G. destruct G as [G1 G2].
    apply Z.eqb_eq in G1. apply Z.eqb_eq in G2.
    destruct (ty_is_int (c_ty c)) eqn:TI.
    + apply andb_prop in A. destruct A as [A1 A2]. apply Z.eqb_eq in A1.
      rewrite (xval_int _ _ _ _ TI). cbv zeta. rewrite Rgp.
      assert (Hfull : x_gp s = Z.of_nat (length (q_int_regs q))).
      { pose proof (count_cls_nonneg q va KInt pre).
        destruct (c_half c) eqn:HH.
        - apply Z.leb_le in G3. lia.
        - cbn [orb] in A2. apply Z.eqb_eq in A2. lia. }
      assert (order_at (q_int_regs q) (x_gp s) = 255) as ->.
      { rewrite order_at_spec by lia. rewrite Hfull, Nat2Z.id.
        assert (nth_error (q_int_regs q) (length (q_int_regs q)) = None) as -> by (apply nth_error_None; lia). reflexivity. }
      cbn [Z.eqb negb]. split.
      * unfold loc_of, fv_stack, L_stack. cbn. rewrite G1, Io. reflexivity.
      * cbn [x_gp x_vec x_off]. split; [lia|]. split; [lia|]. rewrite G1, G2, A1, Io. reflexivity.
    + apply andb_prop in A. destruct A as [A A3]. apply andb_prop in A. destruct A as [A1 A2].
      apply negb_true_iff in A2. apply Z.eqb_eq in A3.
      rewrite (xval_sse _ _ _ _ TI A1). cbv zeta. rewrite A2. cbn [Z.eqb negb]. split.
      * unfold loc_of, fv_stack, L_stack. cbn. rewrite G1, Io. reflexivity.
      * cbn [x_gp x_vec x_off]. split; [lia|]. split; [lia|]. rewrite G1, G2, A3, Io. reflexivity.
Qed.

Lemma list_eqb_eq {A} (f : A -> A -> bool) (Hf : forall x y, f x y = true -> x = y) :
  forall x y, list_eqb f x y = true -> x = y.
Proof.
  induction x as [|a r IH]; destruct y as [|b s]; cbn; intros H; try discriminate; [reflexivity|].
  apply andb_prop in H. destruct H as [H1 H2]. f_equal; [apply Hf; exact H1 | apply IH; exact H2].
Qed.

Lemma zlist_eqb_eq x y : zlist_eqb x y = true -> x = y.
Proof. apply list_eqb_eq. intros a b H. apply Z.eqb_eq. exact H. Qed.

Lemma aloc_eqb_eq x y : aloc_eqb x y = true -> x = y.
Proof.
  destruct x as [[[[k1 t1] i1] o1] r1]. destruct y as [[[[k2 t2] i2] o2] r2]. unfold aloc_eqb. intros H.
  repeat (apply andb_prop in H; let H2 := fresh "E" in destruct H as [H H2]).
  apply Z.eqb_eq in H. apply Z.eqb_eq in E2. apply Z.eqb_eq in E1. apply Z.eqb_eq in E0. apply eqb_prop in E.
  subst. reflexivity.
Qed.

Lemma x86_pack_sim a cc q va : xrel cc q -> forall cs pre nsaa s,
  forallb (agree_comp a cc q va) cs = true -> xinv q va pre nsaa s -> guard_comps a q va pre nsaa cs = true ->
  let '(vs, s') := x86_default_pack cc va s (map c_ty cs) in
  let '(ls, p, n) := seq_comps q va pre nsaa cs in
  map loc_of vs = ls /\ xinv q va p n s'.
Proof.
  intros R. induction cs as [|c r IH]; intros pre nsaa s A I G.
  - cbn. split; [reflexivity | exact I].
  - cbn [forallb] in A. apply andb_prop in A. destruct A as [A1 A2].
    cbn [guard_comps] in G. apply andb_prop in G. destruct G as [G1 G2].
    pose proof (x86_value_sim a cc q va c pre nsaa s R A1 I G1) as S.
    cbn [map x86_default_pack seq_comps].
    assert ((c_ty c =? 0) = false) as ->.
    { unfold agree_comp in A1. apply andb_prop in A1. destruct A1 as [A1 _]. apply andb_prop in A1. destruct A1 as [A1 _].
      apply negb_true_iff in A1. exact A1. }
    destruct (x86_default_value cc va s (c_ty c)) as [v s1].
    unfold spec_step in S.
    destruct (seq_reg q va pre c) as [[rt id]|].
    + destruct S as [S1 S2]. specialize (IH (pre ++ [c]) nsaa s1 A2 S2 G2).
      destruct (x86_default_pack cc va s1 (map c_ty r)) as [vs s2].
      destruct (seq_comps q va (pre ++ [c]) nsaa r) as [[ls p] n].
      destruct IH as [IH1 IH2]. split; [cbn [map]; rewrite S1, IH1; reflexivity | exact IH2].
    + destruct S as [S1 S2].
      specialize (IH (pre ++ [c]) (round_up nsaa (q_align q c) + q_slot q c) s1 A2 S2 G2).
      destruct (x86_default_pack cc va s1 (map c_ty r)) as [vs s2].
      destruct (seq_comps q va (pre ++ [c]) (round_up nsaa (q_align q c) + q_slot q c) r) as [[ls p] n].
      destruct IH as [IH1 IH2]. split; [cbn [map]; rewrite S1, IH1; reflexivity | exact IH2].
Qed.

(* per-type table entry: the decomposition of the type is the model's unpack_values and every component agrees *)
Definition x86_type_ok (a : abi_id) (cc : callconv) (q : seqabi) (va : bool) (t : Z) : bool :=
  forallb (agree_comp a cc q va) (q_expand q t) && zlist_eqb (x86_unpack (cc_arch cc) t) (map c_ty (q_expand q t)).

Lemma x86_args_sim a cc q va : xrel cc q -> forall ts pre nsaa s,
  forallb (x86_type_ok a cc q va) ts = true -> xinv q va pre nsaa s -> guard_args a q va pre nsaa ts = true ->
  let '(ps, s') := x86_default_args cc va s ts in
  let '(ls, n) := seq_args q va pre nsaa ts in
  map (map loc_of) ps = ls /\ x_off s' = n.
Proof.
  intros R. induction ts as [|t r IH]; intros pre nsaa s A I G.
  - cbn. split; [reflexivity | apply I].
  - cbn [forallb] in A. apply andb_prop in A. destruct A as [A1 A2].
    unfold x86_type_ok in A1. apply andb_prop in A1. destruct A1 as [A11 A12]. apply zlist_eqb_eq in A12.
    cbn [guard_args] in G. apply andb_prop in G. destruct G as [G1 G2].
    cbn [x86_default_args seq_args]. rewrite A12.
    pose proof (x86_pack_sim a cc q va R (q_expand q t) pre nsaa s A11 I G1) as S.
    destruct (x86_default_pack cc va s (map c_ty (q_expand q t))) as [p s1].
    destruct (seq_comps q va pre nsaa (q_expand q t)) as [[ls pr] n].
    destruct S as [S1 S2]. specialize (IH pr n s1 A2 S2 G2).
    destruct (x86_default_args cc va s1 r) as [ps s2].
    destruct (seq_args q va pr n r) as [lss n2].
    destruct IH as [IH1 IH2]. split; [cbn [map]; rewrite S1, IH1; reflexivity | exact IH2].
Qed.

(* ------------------------------------------------------------------ AArch64 *)
Lemma align_noop x al : 0 < al -> al mod 8 = 0 -> round_up x al = x -> align_up x 8 = x.
Proof.
  intros Hal Hm Hr. unfold round_up in Hr. unfold align_up.
  set (k := (x + al - 1) / al) in *.
  assert (Hal8 : al = 8 * (al / 8)) by (apply Z_div_exact_full_2; lia).
  set (m := al / 8) in *.
  replace (x + 8 - 1) with (7 + (k * m) * 8) by nia.
  rewrite Z.div_add by lia. rewrite (Z.div_small 7 8) by lia. nia.
Qed.

Definition a64_agree (a : abi_id) (q : seqabi) (va : bool) (m : Z) (c : comp) : bool :=
  let t := c_ty c in
  negb (c_lo c) && negb (t =? 0) && (0 <? q_align q c) && (negb (8 <=? Z.max (size_of t) m) || (q_align q c mod 8 =? 0)) &&
  (own_size a c =? Z.max (size_of t) m) &&
  match q_cls q va c with
  | KInt => ty_is_int t && (q_int_rt q t =? (if t <=? 39 then RT_Gp32 else RT_Gp64))
  | KSse => negb (ty_is_int t) && (ty_is_float t || ty_is_vec t) && negb (a64_vec_regtype t =? 0) && (q_vec_rt q t =? a64_vec_regtype t)
  | KMem => false
  end.

Lemma a64_agree_facts a q va m c : a64_agree a q va m c = true -> c_lo c = false /\ (c_ty c =? 0) = false.
Proof.
  unfold a64_agree. intros H. destruct (c_lo c); destruct (c_ty c =? 0); cbn [negb andb] in H; try discriminate H.
  split; reflexivity.
Qed.

Lemma a64_stack_sim a q va m c nsaa s :
  a64_agree a q va m c = true -> x_off s = nsaa ->
  (round_up nsaa (q_align q c) =? nsaa) && (q_slot q c =? own_size a c) = true ->
  a64_stack m s (c_ty c) = (fv_stack (c_ty c) (round_up nsaa (q_align q c)),
                           mkXst (x_gp s) (x_vec s) (round_up nsaa (q_align q c) + q_slot q c)).
Proof.
  intros A Io G. unfold a64_agree in A.
  apply andb_prop in A. destruct A as [A _]. apply andb_prop in A. destruct A as [A A4].
  apply andb_prop in A. destruct A as [A A3]. apply andb_prop in A. destruct A as [_ A2].
  apply Z.ltb_lt in A2. apply Z.eqb_eq in A4.
  apply andb_prop in G. destruct G as [G1 G2]. apply Z.eqb_eq in G1. apply Z.eqb_eq in G2.
  unfold a64_stack. rewrite Io. rewrite G1, G2, A4.
  destruct (8 <=? Z.max (size_of (c_ty c)) m) eqn:E.
  - cbn [negb orb] in A3. apply Z.eqb_eq in A3. rewrite (align_noop nsaa (q_align q c) A2 A3 G1). reflexivity.
  - reflexivity.
Qed.

Lemma a64_value_sim a cc q va m c pre nsaa s :
  xrel cc q -> a64_agree a q va m c = true -> xinv q va pre nsaa s -> guard_comp a q va pre nsaa c = true ->
  exists v s', a64_value cc m s (c_ty c) = inl (v, s') /\
    let '(l, n') := spec_step q va pre nsaa c in loc_of v = l /\ xinv q va (pre ++ [c]) n' s'.
Proof.
  intros R A I G. destruct R as [Rgp Rvec Lgp Lvec Fgp Fvec]. destruct I as (Ig & Iv & Io).
  pose proof A as A0. destruct (a64_agree_facts _ _ _ _ _ A) as [Alo _].
  unfold a64_agree in A. apply andb_prop in A. destruct A as [_ A].
  unfold guard_comp in G. unfold spec_step, seq_reg in *. rewrite Alo in *. cbn [andb] in *. unfold xinv. rewrite !count_cls_app.
  destruct (q_cls q va c) eqn:K; cbn [acls_eqb]; [| |discriminate].
  - apply andb_prop in A. destruct A as [A1 A2]. apply Z.eqb_eq in A2.
    unfold a64_value. rewrite A1, Rgp.
    pose proof (reg_lookup (q_int_regs q) (count_cls q va KInt pre) (x_gp s) Lgp Fgp (count_cls_nonneg _ _ _ _) Ig) as L.
    destruct (nth_error (q_int_regs q) (Z.to_nat (count_cls q va KInt pre))) as [r|] eqn:E.
    + destruct L as (L1 & L2 & L3). rewrite L1.
      assert ((r =? 255) = false) as -> by (apply Z.eqb_neq; exact L2). cbn [negb].
      eexists. eexists. split; [reflexivity|]. split.
      * unfold loc_of, fv_reg, L_reg. cbn. rewrite A2. reflexivity.
      * cbn [x_gp x_vec x_off]. split; [lia|]. split; [lia | exact Io].
    + destruct L as (L1 & L2 & L3). rewrite L1. cbn [Z.eqb negb].
      apply andb_prop in G. destruct G as [G _].
      rewrite (a64_stack_sim a q va m c nsaa s A0 Io G).
      eexists. eexists. split; [reflexivity|]. split.
      * reflexivity.
      * cbn [x_gp x_vec x_off]. split; [lia|]. split; [lia | reflexivity].
  - apply andb_prop in A. destruct A as [A A4]. apply andb_prop in A. destruct A as [A A3].
    apply andb_prop in A. destruct A as [A1 A2]. apply negb_true_iff in A1. apply negb_true_iff in A3. apply Z.eqb_eq in A4.
    unfold a64_value. rewrite A1, A2, Rvec.
    pose proof (reg_lookup (q_vec_regs q) (count_cls q va KSse pre) (x_vec s) Lvec Fvec (count_cls_nonneg _ _ _ _) Iv) as L.
    destruct (nth_error (q_vec_regs q) (Z.to_nat (count_cls q va KSse pre))) as [r|] eqn:E.
    + destruct L as (L1 & L2 & L3). rewrite L1.
      assert ((r =? 255) = false) as -> by (apply Z.eqb_neq; exact L2). cbn [negb]. rewrite A3.
      eexists. eexists. split; [reflexivity|]. split.
      * unfold loc_of, fv_reg, L_reg. cbn. rewrite A4. reflexivity.
      * cbn [x_gp x_vec x_off]. split; [lia|]. split; [lia | exact Io].
    + destruct L as (L1 & L2 & L3). rewrite L1. cbn [Z.eqb negb].
      apply andb_prop in G. destruct G as [G _].
      rewrite (a64_stack_sim a q va m c nsaa s A0 Io G).
      eexists. eexists. split; [reflexivity|]. split.
      * reflexivity.
      * cbn [x_gp x_vec x_off]. split; [lia|]. split; [lia | reflexivity].
Qed.

Definition a64_type_ok (a : abi_id) (q : seqabi) (va : bool) (m : Z) (t : Z) : bool :=
  a64_agree a q va m (mkComp t false false) && match q_expand q t with [c] => (c_ty c =? t) && negb (c_half c) && negb (c_lo c) | _ => false end.

Lemma a64_args_sim a cc q va m : xrel cc q -> forall ts pre nsaa s,
  forallb (a64_type_ok a q va m) ts = true -> xinv q va pre nsaa s -> guard_args a q va pre nsaa ts = true ->
  exists ps s', a64_args cc m s ts = inl (ps, s') /\
  let '(ls, n) := seq_args q va pre nsaa ts in map (map loc_of) ps = ls /\ x_off s' = n.
Proof.
  intros R. induction ts as [|t r IH]; intros pre nsaa s A I G.
  - cbn. eexists. eexists. split; [reflexivity|]. split; [reflexivity | apply I].
  - cbn [forallb] in A. apply andb_prop in A. destruct A as [A1 A2].
    unfold a64_type_ok in A1. apply andb_prop in A1. destruct A1 as [A11 A12].
    cbn [guard_args] in G. apply andb_prop in G. destruct G as [G1 G2].
    cbn [a64_args seq_args].
    destruct (q_expand q t) as [|c [|c2 cr]] eqn:EX; try discriminate.
    apply andb_prop in A12. destruct A12 as [A12 A123]. apply andb_prop in A12. destruct A12 as [A121 A122].
    apply Z.eqb_eq in A121. apply negb_true_iff in A122. apply negb_true_iff in A123.
    assert (c = mkComp t false false) as -> by (destruct c; cbn in *; subst; reflexivity).
    cbn [guard_comps] in G1. apply andb_prop in G1. destruct G1 as [G11 _].
    destruct (a64_value_sim a cc q va m (mkComp t false false) pre nsaa s R A11 I G11) as (v & s1 & E1 & S).
    cbn [c_ty] in E1. rewrite E1. cbn [seq_comps] in *. unfold spec_step in S.
    assert ((t =? 0) = false) as Ht by (exact (proj2 (a64_agree_facts _ _ _ _ _ A11))).
    rewrite Ht.
    destruct (seq_reg q va pre (mkComp t false false)) as [[rt id]|].
    + destruct S as [S1 S2]. destruct (IH _ _ _ A2 S2 G2) as (ps & s2 & E2 & S3). rewrite E2.
      destruct (seq_args q va (pre ++ [mkComp t false false]) nsaa r) as [lss n2].
      eexists. eexists. split; [reflexivity|]. destruct S3 as [S31 S32].
      split; [cbn [map]; rewrite S1, S31; reflexivity | exact S32].
    + destruct S as [S1 S2]. destruct (IH _ _ _ A2 S2 G2) as (ps & s2 & E2 & S3). rewrite E2.
      destruct (seq_args q va (pre ++ [mkComp t false false]) (round_up nsaa (q_align q (mkComp t false false)) + q_slot q (mkComp t false false)) r) as [lss n2].
      eexists. eexists. split; [reflexivity|]. destruct S3 as [S31 S32].
      split; [cbn [map]; rewrite S1, S31; reflexivity | exact S32].
Qed.

(* ------------------------------------------------------------------ Win64 / vectorcall (positional) *)
Lemma order_at_win_gp i : 0 <= i -> order_at [1; 2; 8; 9] i = if i <? 4 then nth (Z.to_nat i) win_gp 0 else 255.
Proof.
  intros Hi. destruct (Z.ltb_spec i 4).
  - assert (i = 0 \/ i = 1 \/ i = 2 \/ i = 3) as [-> | [-> | [-> | ->]]] by lia; reflexivity.
  - rewrite order_at_spec by (cbn; lia).
    assert (nth_error [1; 2; 8; 9] (Z.to_nat i) = None) as -> by (apply nth_error_None; cbn; lia). reflexivity.
Qed.

Definition win_vec_order (vc : bool) : list Z := if vc then [0; 1; 2; 3; 4; 5] else [0; 1; 2; 3].

Lemma order_at_win_vec vc i : 0 <= i -> order_at (win_vec_order vc) i = if i <? win_nvec vc then i else 255.
Proof.
  intros Hi. destruct vc; cbn [win_vec_order win_nvec].
  - destruct (Z.ltb_spec i 6).
    + assert (i = 0 \/ i = 1 \/ i = 2 \/ i = 3 \/ i = 4 \/ i = 5) as [-> | [-> | [-> | [-> | [-> | ->]]]]] by lia; reflexivity.
    + rewrite order_at_spec by (cbn; lia).
      assert (nth_error [0; 1; 2; 3; 4; 5] (Z.to_nat i) = None) as -> by (apply nth_error_None; cbn; lia). reflexivity.
  - destruct (Z.ltb_spec i 4).
    + assert (i = 0 \/ i = 1 \/ i = 2 \/ i = 3) as [-> | [-> | [-> | ->]]] by lia; reflexivity.
    + rewrite order_at_spec by (cbn; lia).
      assert (nth_error [0; 1; 2; 3] (Z.to_nat i) = None) as -> by (apply nth_error_None; cbn; lia). reflexivity.
Qed.

Lemma win_gp_not255 i : 0 <= i < 4 -> (nth (Z.to_nat i) win_gp 0 =? 255) = false.
Proof. intros H. assert (i = 0 \/ i = 1 \/ i = 2 \/ i = 3) as [-> | [-> | [-> | ->]]] by lia; reflexivity. Qed.

Definition win_type_ok (t : Z) : bool :=
  negb (t =? 0) &&
  if t_int t || t_mask t || t_m64 t
  then (ty_is_int t || ty_is_mmx t) && Bool.eqb ((size_of t <=? 4) && negb (ty_is_mmx t)) ((abi_bytes t <=? 4) && negb (t_m64 t))
  else if t_f32 t || t_f64 t
  then negb (ty_is_int t || ty_is_mmx t) && (ty_is_float t || ty_is_vec t) && (ty_is_float t && (size_of t <=? 8)) && (x86_vec_regtype t =? Xmm)
  else negb (ty_is_int t || ty_is_mmx t) && (ty_is_float t || ty_is_vec t) && negb (ty_is_float t)
       && (x86_vec_rt t =? x86_vec_regtype t).

Lemma win_value_sim cc vc i t :
  cc_ogp cc = [1; 2; 8; 9] -> cc_ovec cc = win_vec_order vc -> cc_strategy cc = (if vc then 2 else 1) ->
  0 <= i -> win_type_ok t = true -> loc_of (win64_value cc i t) = win_arg vc i t.
Proof.
  intros Hg Hv Hs Hi T. unfold win_type_ok in T. apply andb_prop in T. destruct T as [_ T].
  unfold win64_value, win_arg. rewrite Hg, Hv, Hs.
  rewrite order_at_win_gp, order_at_win_vec by exact Hi.
  assert (Hvc : ((if vc then 2 else 1) =? 2) = vc) by (destruct vc; reflexivity). rewrite Hvc.
  destruct (t_int t || t_mask t || t_m64 t) eqn:C1.
  - apply andb_prop in T. destruct T as [T1 T2]. apply eqb_prop in T2. rewrite T1.
    destruct (Z.ltb_spec i 4).
    + rewrite win_gp_not255 by lia. cbn [negb]. rewrite T2. reflexivity.
    + reflexivity.
  - destruct (t_f32 t || t_f64 t) eqn:C2.
    + apply andb_prop in T. destruct T as [T T4]. apply andb_prop in T. destruct T as [T T3]. apply andb_prop in T. destruct T as [T1 T2].
      apply negb_true_iff in T1. apply Z.eqb_eq in T4. rewrite T1, T2, T3.
      destruct (Z.ltb_spec i (win_nvec vc)).
      * assert ((i =? 255) = false) as -> by (apply Z.eqb_neq; destruct vc; cbn [win_nvec] in *; lia). cbn [negb andb orb].
        unfold loc_of, fv_reg, L_reg. cbn [fv_kind fv_rtype fv_rid fv_off fv_ind]. rewrite T4. reflexivity.
      * reflexivity.
    + apply andb_prop in T. destruct T as [T T4]. apply andb_prop in T. destruct T as [T T3].
      apply andb_prop in T. destruct T as [T1 T2]. apply negb_true_iff in T1. apply negb_true_iff in T3. apply Z.eqb_eq in T4.
      rewrite T1, T2, T3. cbn [orb].
      destruct vc; cbn [win_nvec andb].
      * destruct (Z.ltb_spec i 6).
        -- assert ((i =? 255) = false) as -> by (apply Z.eqb_neq; lia). cbn [negb andb].
           unfold loc_of, fv_reg, L_reg. cbn [fv_kind fv_rtype fv_rid fv_off fv_ind]. rewrite T4. reflexivity.
        -- cbn [Z.eqb negb andb]. destruct (Z.ltb_spec i 4); [lia | reflexivity].
      * rewrite andb_false_r.
        destruct (Z.ltb_spec i 4).
        -- rewrite win_gp_not255 by lia. reflexivity.
        -- reflexivity.
Qed.

Lemma win_args_sim cc vc : cc_ogp cc = [1; 2; 8; 9] -> cc_ovec cc = win_vec_order vc -> cc_strategy cc = (if vc then 2 else 1) ->
  forall ts i, 0 <= i -> forallb win_type_ok ts = true -> map (map loc_of) (win64_args cc i ts) = win_args vc i ts.
Proof.
  intros Hg Hv Hs. induction ts as [|t r IH]; intros i Hi A.
  - reflexivity.
  - cbn [forallb] in A. apply andb_prop in A. destruct A as [A1 A2].
    cbn [win64_args win_args].
    assert ((t =? 0) = false) as ->.
    { unfold win_type_ok in A1. apply andb_prop in A1. destruct A1 as [A1 _]. apply negb_true_iff in A1. exact A1. }
    cbn [map]. rewrite (win_value_sim cc vc i t Hg Hv Hs Hi A1), (IH (i + 1) ltac:(lia) A2). reflexivity.
Qed.

(* ------------------------------------------------------------------ finite tables (checked by computation) *)
Lemma table256 (P Q : Z -> bool) :
  forallb (fun t => implb (inr_ t 0 255 && P t) (Q t)) (range 0 256) = true ->
  forall t, inr_ t 0 255 = true -> P t = true -> Q t = true.
Proof.
  intros H t Hr Hp. rewrite forallb_forall in H. specialize (H t (in_range256 t Hr)).
  rewrite Hr, Hp in H. exact H.
Qed.

Definition canon_env (a : abi_id) : env * Z :=
  match a with
  | SysV64 => (mkEnv X64 0 0, 32) | Win64 => (mkEnv X64 1 1, 33) | Vectorcall64 => (mkEnv X64 1 1, 3)
  | Cdecl32 => (mkEnv X86 0 0, 0) | Stdcall32 => (mkEnv X86 0 0, 1) | Fastcall32 => (mkEnv X86 0 0, 2)
  | Thiscall32 => (mkEnv X86 1 1, 4)
  | Regparm32 n => (mkEnv X86 0 0, 4 + Z.of_nat n)
  | Aapcs64 => (mkEnv A64 0 0, 0) | Apple64 => (mkEnv A64 2 2, 0)
  end.
Definition canon_cc (a : abi_id) : callconv :=
  match init_call_conv (fst (canon_env a)) (snd (canon_env a)) with inl c => c | inr _ => cc0 X86 end.

Lemma init_cc_canon e ccid a : abi_of_env e ccid = Some a -> init_call_conv e ccid = inl (canon_cc a).
Proof.
  unfold abi_of_env, abi_of, init_call_conv. destruct e as [ar pl ab]. cbn [e_arch].
  unfold x86_init_call_conv, a64_init_call_conv, e_win, e_darwin. cbn [e_arch e_plat e_abi].
  set (w := (pl =? 1) || (ab =? 1)). set (dw := ab =? 2).
  destruct ar; cbn [arch_code Z.eqb is_32bit]; intros H.
  - destruct (Z.eqb_spec ccid 0) as [->|N0]; [inversion H; reflexivity|].
    destruct (Z.eqb_spec ccid 1) as [->|N1]; [inversion H; reflexivity|].
    destruct (Z.eqb_spec ccid 2) as [->|N2]; [inversion H; reflexivity|].
    destruct (Z.eqb_spec ccid 4) as [->|N4]; [destruct w; inversion H; reflexivity|].
    destruct (Z.eqb_spec ccid 5) as [->|N5]; [inversion H; reflexivity|].
    destruct (Z.eqb_spec ccid 6) as [->|N6]; [inversion H; reflexivity|].
    destruct (Z.eqb_spec ccid 7) as [->|N7]; [inversion H; reflexivity|]. discriminate.
  - destruct (Z.eqb_spec ccid 32) as [->|N32]; [inversion H; reflexivity|].
    destruct (Z.eqb_spec ccid 33) as [->|N33]; [inversion H; reflexivity|].
    destruct (Z.eqb_spec ccid 3) as [->|N3]; [inversion H; reflexivity|].
    destruct (Z.eqb_spec ccid 0) as [->|N0]; [destruct w; inversion H; reflexivity|].
    destruct (Z.eqb_spec ccid 1) as [->|N1]; [destruct w; inversion H; reflexivity|].
    destruct (Z.eqb_spec ccid 2) as [->|N2]; [destruct w; inversion H; reflexivity|].
    destruct (Z.eqb_spec ccid 4) as [->|N4]; [destruct w; inversion H; reflexivity|]. discriminate.
  - destruct (inr_ ccid 0 2 || (ccid =? 4)) eqn:C; [|discriminate].
    assert (should_treat_as_cdecl_a64 ccid = true) as ->.
    { unfold should_treat_as_cdecl_a64, between. unfold inr_ in C. apply orb_prop in C. destruct C as [C|C].
      - apply andb_prop in C. destruct C as [C1 C2]. apply Z.leb_le in C1. apply Z.leb_le in C2.
        apply andb_true_intro. split; apply Z.leb_le; lia.
      - apply Z.eqb_eq in C. subst. reflexivity. }
    destruct dw; inversion H; reflexivity.
Qed.

Lemma abi_of_regparm e ccid n : abi_of_env e ccid = Some (Regparm32 n) -> (1 <= n <= 3)%nat.
Proof.
  unfold abi_of_env, abi_of. destruct e as [ar pl ab]. cbn [e_arch]. unfold e_win, e_darwin. cbn [e_arch e_plat e_abi].
  destruct ((pl =? 1) || (ab =? 1)); destruct (ab =? 2); destruct ar; cbn [arch_code Z.eqb]; intros H;
    repeat match type of H with
           | (if ?b then _ else _) = _ => destruct b
           end; try discriminate H; inversion H; subst; lia.
Qed.

(* ------------------------------------------------------------------ putting the strategies together *)
Definition agrees (d : fdetail) (an : abi_answer) (a : abi_id) : Prop :=
  map (map loc_of) (fd_args d) = an_args an /\ map loc_of (fd_rets d) = an_rets an /\ fd_stack d = an_stack an /\
  consts_of (fd_cc d) = abi_consts a.

Definition arg_guard (a : abi_id) (t : Z) : bool := univ_of a t && guard_type a t.
Definition ret_guard (a : abi_id) (t : Z) : bool := ret_univ a t && guard_type a t.

Lemma args_table a (Q : Z -> bool) (d : Z -> Z) :
  (forall t, inr_ t 0 255 = true -> arg_guard a t = true -> Q t = true /\ d t = t) ->
  forall args, forallb (fun t => inr_ t 0 255 && univ_of a t && guard_type a t) args = true ->
  forallb Q args = true /\ map d args = args.
Proof.
  intros T. induction args as [|t r IH]; intros H.
  - split; reflexivity.
  - cbn [forallb] in H. apply andb_prop in H. destruct H as [H1 H2].
    apply andb_prop in H1. destruct H1 as [H1 H13]. apply andb_prop in H1. destruct H1 as [H11 H12].
    destruct (T t H11) as [Tq Td]. { unfold arg_guard. rewrite H12, H13. reflexivity. }
    destruct (IH H2) as [I1 I2]. split; [cbn [forallb]; rewrite Tq, I1; reflexivity | cbn [map]; rewrite Td, I2; reflexivity].
Qed.

Lemma round_up_1 n : round_up n 1 = n.
Proof. unfold round_up. rewrite Z.div_1_r. lia. Qed.

Definition x86_tab (a : abi_id) (cc : callconv) (q : seqabi) (va : bool) : bool :=
  forallb (fun t => implb (inr_ t 0 255 && arg_guard a t) (x86_type_ok a cc q va t && (deabstract (cc_arch cc) t =? t))) (range 0 256).
Definition ret_ok (f : Z -> list fval + Z) (ar : arch) (a : abi_id) (t : Z) : bool :=
  (deabstract ar t =? t) &&
  match (if t =? 0 then inl [] else f t) with
  | inl rets => list_eqb aloc_eqb (map loc_of rets) (abi_ret a t)
  | inr _ => false
  end.
Definition ret_tab (f : Z -> list fval + Z) (ar : arch) (a : abi_id) : bool :=
  forallb (fun t => implb (inr_ t 0 255 && ret_guard a t) (ret_ok f ar a t)) (range 0 256).

Lemma split_guard a va ret args :
  abi_guard a va ret args = true ->
  forallb (fun t => inr_ t 0 255 && univ_of a t && guard_type a t) args = true /\ inr_ ret 0 255 = true /\ ret_guard a ret = true /\
  guard_va a va = true /\
  match seq_of a with Some q => guard_args a q va [] 0 args | None => true end = true.
Proof.
  unfold abi_guard, ret_guard. intros H.
  apply andb_prop in H. destruct H as [H H5]. apply andb_prop in H. destruct H as [H H4].
  apply andb_prop in H. destruct H as [H H3]. apply andb_prop in H. destruct H as [H H2].
  apply andb_prop in H. destruct H as [H0 H1].
  repeat split; try assumption. rewrite H2, H3. reflexivity.
Qed.

Lemma x86_top a q s ret args :
  seq_of a = Some q -> xrel (canon_cc a) q -> cc_strategy (canon_cc a) = 0 -> cc_spill (canon_cc a) = 0 -> q_round q = 1 ->
  x86_tab a (canon_cc a) q (sig_has_va s) = true ->
  ret_tab (fun t => rets_loop (x86_ret_one (canon_cc a)) 0 (x86_unpack (cc_arch (canon_cc a)) t)) (cc_arch (canon_cc a)) a = true ->
  abi_guard a (sig_has_va s) ret args = true ->
  exists d, x86_init_func_detail (canon_cc a) s (deabstract (cc_arch (canon_cc a)) ret) (map (deabstract (cc_arch (canon_cc a))) args) = R_ok d /\
    fd_cc d = canon_cc a /\
    map (map loc_of) (fd_args d) = an_args (abi_spec a (sig_has_va s) ret args) /\
    map loc_of (fd_rets d) = an_rets (abi_spec a (sig_has_va s) ret args) /\
    fd_stack d = an_stack (abi_spec a (sig_has_va s) ret args).
Proof.
  intros Hq R Hst Hsp Hrd Tab RTab G.
  set (cc := canon_cc a) in *. set (va := sig_has_va s) in *.
  destruct (split_guard _ _ _ _ G) as (Ga & Gr & Grg & Gva & Gg). rewrite Hq in Gg.
  destruct (args_table a (x86_type_ok a cc q va) (deabstract (cc_arch cc))) with (args := args) as [Ht Hd]; [|exact Ga|].
  { intros t Hr Hg. pose proof (table256 (arg_guard a) (fun t => x86_type_ok a cc q va t && (deabstract (cc_arch cc) t =? t)) Tab t Hr Hg) as X.
    cbv beta in X. apply andb_prop in X. destruct X as [X1 X2].
    apply Z.eqb_eq in X2. split; assumption. }
  pose proof (table256 (ret_guard a) (ret_ok (fun t => rets_loop (x86_ret_one cc) 0 (x86_unpack (cc_arch cc) t)) (cc_arch cc) a) RTab ret Gr Grg) as Rk.
  unfold ret_ok in Rk. apply andb_prop in Rk. destruct Rk as [Rk1 Rk2].
  apply Z.eqb_eq in Rk1. rewrite Hd, Rk1.
  unfold x86_init_func_detail.
  destruct (if ret =? 0 then inl [] else rets_loop (x86_ret_one cc) 0 (x86_unpack (cc_arch cc) ret)) as [rets|] eqn:ER; [|discriminate].
  apply (list_eqb_eq aloc_eqb aloc_eqb_eq) in Rk2.
  rewrite Hst. cbn [Z.eqb orb]. rewrite Hsp.
  assert (I0 : xinv q va [] 0 (mkXst 0 0 0)).
  { unfold xinv, count_cls. cbn. repeat split; lia. }
  pose proof (x86_args_sim a cc q va R args [] 0 (mkXst 0 0 0) Ht I0 Gg) as S.
  fold va. destruct (x86_default_args cc va (mkXst 0 0 0) args) as [ps st].
  unfold abi_spec. rewrite Hq. destruct (seq_args q va [] 0 args) as [ls n]. destruct S as [S1 S2].
  eexists. split; [reflexivity|]. cbn [fd_cc fd_args fd_rets fd_stack an_args an_rets an_stack].
  rewrite Hrd, round_up_1. repeat split; assumption.
Qed.

Definition a64_tab (a : abi_id) (q : seqabi) (va : bool) (m : Z) : bool :=
  forallb (fun t => implb (inr_ t 0 255 && arg_guard a t) (a64_type_ok a q va m t && (deabstract A64 t =? t))) (range 0 256).

Lemma a64_top a q s ret args m :
  seq_of a = Some q -> xrel (canon_cc a) q -> cc_arch (canon_cc a) = A64 ->
  (cc_strategy (canon_cc a) = 0 /\ m = 8 \/ cc_strategy (canon_cc a) = 3 /\ m = 4) -> q_round q = 8 ->
  a64_tab a q (sig_has_va s) m = true ->
  ret_tab (fun t => rets_loop a64_ret_one 0 [t]) A64 a = true ->
  abi_guard a (sig_has_va s) ret args = true ->
  exists d, a64_init_func_detail (canon_cc a) (deabstract A64 ret) (map (deabstract A64) args) = R_ok d /\
    fd_cc d = canon_cc a /\
    map (map loc_of) (fd_args d) = an_args (abi_spec a (sig_has_va s) ret args) /\
    map loc_of (fd_rets d) = an_rets (abi_spec a (sig_has_va s) ret args) /\
    fd_stack d = an_stack (abi_spec a (sig_has_va s) ret args).
Proof.
  intros Hq R Har Hst Hrd Tab RTab G.
  set (cc := canon_cc a) in *. set (va := sig_has_va s) in *.
  destruct (split_guard _ _ _ _ G) as (Ga & Gr & Grg & Gva & Gg). rewrite Hq in Gg.
  destruct (args_table a (a64_type_ok a q va m) (deabstract A64)) with (args := args) as [Ht Hd]; [|exact Ga|].
  { intros t Hr Hg. pose proof (table256 (arg_guard a) (fun t => a64_type_ok a q va m t && (deabstract A64 t =? t)) Tab t Hr Hg) as X.
    cbv beta in X. apply andb_prop in X. destruct X as [X1 X2].
    apply Z.eqb_eq in X2. split; assumption. }
  pose proof (table256 (ret_guard a) (ret_ok (fun t => rets_loop a64_ret_one 0 [t]) A64 a) RTab ret Gr Grg) as Rk.
  unfold ret_ok in Rk. apply andb_prop in Rk. destruct Rk as [Rk1 Rk2].
  apply Z.eqb_eq in Rk1. rewrite Hd, Rk1.
  unfold a64_init_func_detail.
  destruct (if ret =? 0 then inl [] else rets_loop a64_ret_one 0 [ret]) as [rets|] eqn:ER; [|discriminate].
  apply (list_eqb_eq aloc_eqb aloc_eqb_eq) in Rk2.
  assert (I0 : xinv q va [] 0 (mkXst 0 0 0)).
  { unfold xinv, count_cls. cbn. repeat split; lia. }
  assert (Hm : (if cc_strategy cc =? 3 then 4 else 8) = m /\ ((cc_strategy cc =? 0) || (cc_strategy cc =? 3)) = true).
  { destruct Hst as [[H1 H2] | [H1 H2]]; rewrite H1, H2; split; reflexivity. }
  destruct Hm as [Hm1 Hm2]. rewrite Hm1, Hm2.
  destruct (a64_args_sim a cc q va m R args [] 0 (mkXst 0 0 0) Ht I0 Gg) as (ps & st & E & S). rewrite E.
  unfold abi_spec. rewrite Hq. destruct (seq_args q va [] 0 args) as [ls n]. destruct S as [S1 S2].
  eexists. split; [reflexivity|]. cbn [fd_cc fd_args fd_rets fd_stack an_args an_rets an_stack].
  rewrite Hrd, S2. repeat split; assumption.
Qed.

Definition win_tab (a : abi_id) (cc : callconv) : bool :=
  forallb (fun t => implb (inr_ t 0 255 && arg_guard a t) (win_type_ok t && (deabstract (cc_arch cc) t =? t))) (range 0 256).

Lemma win_top a vc s ret args :
  seq_of a = None -> vc = (match a with Vectorcall64 => true | _ => false end) ->
  cc_arch (canon_cc a) = X64 -> cc_ogp (canon_cc a) = [1; 2; 8; 9] -> cc_ovec (canon_cc a) = win_vec_order vc ->
  cc_strategy (canon_cc a) = (if vc then 2 else 1) ->
  win_tab a (canon_cc a) = true ->
  ret_tab (fun t => rets_loop (x86_ret_one (canon_cc a)) 0 (x86_unpack X64 t)) X64 a = true ->
  abi_guard a (sig_has_va s) ret args = true ->
  exists d, x86_init_func_detail (canon_cc a) s (deabstract X64 ret) (map (deabstract X64) args) = R_ok d /\
    fd_cc d = canon_cc a /\
    map (map loc_of) (fd_args d) = an_args (abi_spec a (sig_has_va s) ret args) /\
    map loc_of (fd_rets d) = an_rets (abi_spec a (sig_has_va s) ret args) /\
    fd_stack d = an_stack (abi_spec a (sig_has_va s) ret args).
Proof.
  intros Hq Hvc Har Hg Hv Hs Tab RTab G. set (cc := canon_cc a) in *.
  destruct (split_guard _ _ _ _ G) as (Ga & Gr & Grg & Gva & _).
  destruct (args_table a win_type_ok (deabstract X64)) with (args := args) as [Ht Hd]; [|exact Ga|].
  { intros t Hr Hgd. pose proof (table256 (arg_guard a) (fun t => win_type_ok t && (deabstract (cc_arch cc) t =? t)) Tab t Hr Hgd) as X.
    cbv beta in X. apply andb_prop in X. destruct X as [X1 X2]. rewrite Har in X2.
    apply Z.eqb_eq in X2. split; assumption. }
  pose proof (table256 (ret_guard a) (ret_ok (fun t => rets_loop (x86_ret_one cc) 0 (x86_unpack X64 t)) X64 a) RTab ret Gr Grg) as Rk.
  unfold ret_ok in Rk. apply andb_prop in Rk. destruct Rk as [Rk1 Rk2].
  apply Z.eqb_eq in Rk1. rewrite Hd, Rk1.
  unfold x86_init_func_detail. rewrite Har.
  destruct (if ret =? 0 then inl [] else rets_loop (x86_ret_one cc) 0 (x86_unpack X64 ret)) as [rets|] eqn:ER; [|discriminate].
  apply (list_eqb_eq aloc_eqb aloc_eqb_eq) in Rk2.
  assert (Hst : ((cc_strategy cc =? 1) || (cc_strategy cc =? 2)) = true) by (rewrite Hs; destruct vc; reflexivity).
  rewrite Hst.
  pose proof (win_args_sim cc vc Hg Hv Hs args 0 ltac:(lia) Ht) as S.
  eexists. split; [reflexivity|]. unfold abi_spec. rewrite Hq. rewrite <- Hvc.
  cbn [fd_cc fd_args fd_rets fd_stack an_args an_rets an_stack].
  repeat split; try assumption.
Qed.

Ltac solve_xrel := constructor; [reflexivity | reflexivity | cbn; lia | cbn; lia | repeat (constructor; try lia) | repeat (constructor; try lia)].

Lemma consts_canon a : (forall n, a = Regparm32 n -> (1 <= n <= 3)%nat) -> consts_of (canon_cc a) = abi_consts a.
Proof.
  destruct a; intros H;
    try (lazymatch goal with |- context [Regparm32] => fail | _ => idtac end; vm_compute; reflexivity).
  specialize (H n eq_refl). destruct n as [|[|[|[|n]]]]; try lia; vm_compute; reflexivity.
Qed.

Theorem assign_matches_abi : forall e s a,
  abi_of_env e (s_cc s) = Some a -> (length (s_args s) <= 32)%nat ->
  abi_guard a (sig_has_va s) (s_ret s) (s_args s) = true ->
  exists d, func_detail_init e s = R_ok d /\ agrees d (abi_spec a (sig_has_va s) (s_ret s) (s_args s)) a.
Proof.
  intros e s a Ha Hl G. unfold func_detail_init.
  assert ((32 <? Z.of_nat (length (s_args s))) = false) as -> by (apply Z.ltb_ge; lia).
  rewrite (init_cc_canon _ _ _ Ha). unfold agrees.
  assert (Hrp : forall n, a = Regparm32 n -> (1 <= n <= 3)%nat) by (intros n ->; exact (abi_of_regparm _ _ _ Ha)).
  pose proof (consts_canon a Hrp) as CC. clear Hrp.
  destruct a.
  - (* System V AMD64 *)
    assert (EA : cc_arch (canon_cc SysV64) = X64) by reflexivity. rewrite EA.
    destruct (x86_top SysV64 q_sysv s (s_ret s) (s_args s)) as (d & E & Ecc & E1 & E2 & E3);
      [reflexivity | solve_xrel | reflexivity | reflexivity | reflexivity
       | destruct (sig_has_va s); vm_compute; reflexivity | vm_compute; reflexivity | exact G |].
    rewrite EA in E. exists d. split; [exact E|]. rewrite Ecc. repeat split; assumption.
  - (* Win64 *)
    assert (EA : cc_arch (canon_cc Win64) = X64) by reflexivity. rewrite EA.
    destruct (win_top Win64 false s (s_ret s) (s_args s)) as (d & E & Ecc & E1 & E2 & E3);
      [reflexivity | reflexivity | reflexivity | reflexivity | reflexivity | reflexivity
       | vm_compute; reflexivity | vm_compute; reflexivity | exact G |].
    exists d. split; [exact E|]. rewrite Ecc. repeat split; assumption.
  - (* x64 vectorcall *)
    assert (EA : cc_arch (canon_cc Vectorcall64) = X64) by reflexivity. rewrite EA.
    destruct (win_top Vectorcall64 true s (s_ret s) (s_args s)) as (d & E & Ecc & E1 & E2 & E3);
      [reflexivity | reflexivity | reflexivity | reflexivity | reflexivity | reflexivity
       | vm_compute; reflexivity | vm_compute; reflexivity | exact G |].
    exists d. split; [exact E|]. rewrite Ecc. repeat split; assumption.
  - (* cdecl, 32-bit *)
    assert (EA : cc_arch (canon_cc Cdecl32) = X86) by reflexivity. rewrite EA.
    destruct (x86_top Cdecl32 (q_i386 []) s (s_ret s) (s_args s)) as (d & E & Ecc & E1 & E2 & E3);
      [reflexivity | solve_xrel | reflexivity | reflexivity | reflexivity
       | destruct (sig_has_va s); vm_compute; reflexivity | vm_compute; reflexivity | exact G |].
    rewrite EA in E. exists d. split; [exact E|]. rewrite Ecc. repeat split; assumption.
  - (* stdcall *)
    assert (EA : cc_arch (canon_cc Stdcall32) = X86) by reflexivity. rewrite EA.
    destruct (x86_top Stdcall32 (q_i386 []) s (s_ret s) (s_args s)) as (d & E & Ecc & E1 & E2 & E3);
      [reflexivity | solve_xrel | reflexivity | reflexivity | reflexivity
       | destruct (sig_has_va s); vm_compute; reflexivity | vm_compute; reflexivity | exact G |].
    rewrite EA in E. exists d. split; [exact E|]. rewrite Ecc. repeat split; assumption.
  - (* fastcall *)
    assert (EA : cc_arch (canon_cc Fastcall32) = X86) by reflexivity. rewrite EA.
    assert (Hva : sig_has_va s = false).
    { destruct (split_guard _ _ _ _ G) as (_ & _ & _ & Gva & _). cbn in Gva. apply negb_true_iff in Gva. exact Gva. }
    destruct (x86_top Fastcall32 (q_i386 [1; 2]) s (s_ret s) (s_args s)) as (d & E & Ecc & E1 & E2 & E3);
      [reflexivity | solve_xrel | reflexivity | reflexivity | reflexivity
       | rewrite Hva; vm_compute; reflexivity | vm_compute; reflexivity | exact G |].
    rewrite EA in E. exists d. split; [exact E|]. rewrite Ecc. repeat split; assumption.
  - (* thiscall (Microsoft) *)
    assert (EA : cc_arch (canon_cc Thiscall32) = X86) by reflexivity. rewrite EA.
    assert (Hva : sig_has_va s = false).
    { destruct (split_guard _ _ _ _ G) as (_ & _ & _ & Gva & _). cbn in Gva. apply negb_true_iff in Gva. exact Gva. }
    destruct (x86_top Thiscall32 (q_i386 [1]) s (s_ret s) (s_args s)) as (d & E & Ecc & E1 & E2 & E3);
      [reflexivity | solve_xrel | reflexivity | reflexivity | reflexivity
       | rewrite Hva; vm_compute; reflexivity | vm_compute; reflexivity | exact G |].
    rewrite EA in E. exists d. split; [exact E|]. rewrite Ecc. repeat split; assumption.
  - (* GNU regparm(1..3) *)
    pose proof (abi_of_regparm _ _ _ Ha) as Hn.
    assert (Hva : sig_has_va s = false).
    { destruct (split_guard _ _ _ _ G) as (_ & _ & _ & Gva & _). cbn in Gva. apply negb_true_iff in Gva. exact Gva. }
    destruct n as [|[|[|[|n]]]]; try lia.
    + assert (EA : cc_arch (canon_cc (Regparm32 1)) = X86) by reflexivity. rewrite EA.
      destruct (x86_top (Regparm32 1) (q_regparm 1) s (s_ret s) (s_args s)) as (d & E & Ecc & E1 & E2 & E3);
        [reflexivity | solve_xrel | reflexivity | reflexivity | reflexivity
         | rewrite Hva; vm_compute; reflexivity | vm_compute; reflexivity | exact G |].
      rewrite EA in E. exists d. split; [exact E|]. rewrite Ecc. repeat split; assumption.
    + assert (EA : cc_arch (canon_cc (Regparm32 2)) = X86) by reflexivity. rewrite EA.
      destruct (x86_top (Regparm32 2) (q_regparm 2) s (s_ret s) (s_args s)) as (d & E & Ecc & E1 & E2 & E3);
        [reflexivity | solve_xrel | reflexivity | reflexivity | reflexivity
         | rewrite Hva; vm_compute; reflexivity | vm_compute; reflexivity | exact G |].
      rewrite EA in E. exists d. split; [exact E|]. rewrite Ecc. repeat split; assumption.
    + assert (EA : cc_arch (canon_cc (Regparm32 3)) = X86) by reflexivity. rewrite EA.
      destruct (x86_top (Regparm32 3) (q_regparm 3) s (s_ret s) (s_args s)) as (d & E & Ecc & E1 & E2 & E3);
        [reflexivity | solve_xrel | reflexivity | reflexivity | reflexivity
         | rewrite Hva; vm_compute; reflexivity | vm_compute; reflexivity | exact G |].
      rewrite EA in E. exists d. split; [exact E|]. rewrite Ecc. repeat split; assumption.
  - (* AAPCS64 *)
    assert (EA : cc_arch (canon_cc Aapcs64) = A64) by reflexivity. rewrite EA.
    destruct (a64_top Aapcs64 q_aapcs64 s (s_ret s) (s_args s) 8) as (d & E & Ecc & E1 & E2 & E3);
      [reflexivity | solve_xrel | reflexivity | left; split; reflexivity | reflexivity
       | destruct (sig_has_va s); vm_compute; reflexivity | vm_compute; reflexivity | exact G |].
    exists d. split; [exact E|]. rewrite Ecc. repeat split; assumption.
  - (* Apple arm64 *)
    assert (EA : cc_arch (canon_cc Apple64) = A64) by reflexivity. rewrite EA.
    assert (Hva : sig_has_va s = false).
    { destruct (split_guard _ _ _ _ G) as (_ & _ & _ & Gva & _). cbn in Gva. apply negb_true_iff in Gva. exact Gva. }
    destruct (a64_top Apple64 q_apple64 s (s_ret s) (s_args s) 4) as (d & E & Ecc & E1 & E2 & E3);
      [reflexivity | solve_xrel | reflexivity | right; split; reflexivity | reflexivity
       | rewrite Hva; vm_compute; reflexivity | vm_compute; reflexivity | exact G |].
    exists d. split; [exact E|]. rewrite Ecc. repeat split; assumption.
Qed.

(* ------------------------------------------------------------------ constants of every (target, CallConvId) pair with an ABI *)
Theorem callconv_constants : forall e ccid a, abi_of_env e ccid = Some a ->
  exists c, init_call_conv e ccid = inl c /\ consts_of c = abi_consts a.
Proof.
  intros e ccid a H. exists (canon_cc a). split; [apply init_cc_canon; exact H | apply consts_canon].
  intros n ->. exact (abi_of_regparm _ _ _ H).
Qed.

(* ------------------------------------------------------------------ arguments 16..31 of the positional conventions never get a register
   (the statement the unguarded look-up of DESIGN 7.4 violated: it read the Vec order array and returned GP ids 0..3) *)
Lemma order_at_high l i : 16 <= i -> order_at l i = 255.
Proof. intros H. unfold order_at. destruct (Z.ltb_spec i 16); [lia | reflexivity]. Qed.

Lemma win64_value_high c i t : 16 <= i -> fv_kind (win64_value c i t) <> 1.
Proof.
  intros H. unfold win64_value. rewrite !order_at_high by exact H. cbn [Z.eqb negb andb].
  destruct (ty_is_int t || ty_is_mmx t); [cbn; lia|].
  destruct (ty_is_float t || ty_is_vec t); [|cbn; lia].
  destruct (ty_is_float t && (size_of t <=? 8)); cbn; lia.
Qed.

Theorem win64_no_reg_beyond_16 : forall c ts i, 16 <= i ->
  Forall (fun v => fv_kind v <> 1) (concat (win64_args c i ts)).
Proof.
  intros c. induction ts as [|t r IH]; intros i H.
  - cbn. constructor.
  - cbn [win64_args concat]. specialize (IH (i + 1) ltac:(lia)). destruct (t =? 0).
    + cbn [app]. exact IH.
    + cbn [app]. constructor; [apply win64_value_high; exact H | exact IH].
Qed.

(* ------------------------------------------------------------------ the hypotheses of assign_matches_abi are satisfiable *)
Example guard_satisfiable_sysv :
  abi_of_env (mkEnv X64 0 0) 0 = Some SysV64 /\
  abi_guard SysV64 false 38 [38; 43; 75; 40; 34; 35; 36; 37; 41; 43; 43; 43; 43; 43; 43; 43; 43; 40; 43; 40; 79; 38] = true.
Proof. split; vm_compute; reflexivity. Qed.
Example guard_satisfiable_win64 :
  abi_of_env (mkEnv X64 1 1) 0 = Some Win64 /\ abi_guard Win64 true 43 [38; 43; 40; 42; 75; 50; 34; 43; 85] = true /\
  abi_of_env (mkEnv X64 0 0) 3 = Some Vectorcall64 /\ abi_guard Vectorcall64 false 79 [38; 43; 38; 79; 38; 85; 38; 79; 43; 99] = true.
Proof. repeat split; vm_compute; reflexivity. Qed.
Example guard_satisfiable_i386 :
  abi_of_env (mkEnv X86 0 0) 2 = Some Fastcall32 /\ abi_guard Fastcall32 false 40 [38; 34; 40; 43; 42; 75; 75; 75; 38] = true /\
  abi_guard Cdecl32 true 43 [38; 40; 43; 41; 36] = true.
Proof. repeat split; vm_compute; reflexivity. Qed.
Example guard_satisfiable_a64 :
  abi_of_env (mkEnv A64 2 2) 0 = Some Apple64 /\
  abi_guard Apple64 false 42 [38; 38; 38; 38; 38; 38; 38; 38; 38; 39; 40; 42; 43; 75; 66] = true /\
  abi_guard Aapcs64 true 75 [34; 38; 38; 38; 38; 38; 38; 38; 38; 34; 40; 40; 42; 43; 75; 66; 75; 75; 75; 75; 75; 75; 75] = true.
Proof. repeat split; vm_compute; reflexivity. Qed.

(* ------------------------------------------------------------------ deviations of the pinned implementation (the model mirrors them):
   each is a witness signature on which the guard is false and the model's answer differs from the ABI answer *)
Definition deviates (e : env) (s : sig) (a : abi_id) : Prop :=
  abi_of_env e (s_cc s) = Some a /\
  exists d, func_detail_init e s = R_ok d /\
    (map (map loc_of) (fd_args d) <> an_args (abi_spec a (sig_has_va s) (s_ret s) (s_args s)) \/
     fd_stack d <> an_stack (abi_spec a (sig_has_va s) (s_ret s) (s_args s)) \/
     map loc_of (fd_rets d) <> an_rets (abi_spec a (sig_has_va s) (s_ret s) (s_args s))).
Ltac witness := split; [vm_compute; reflexivity | eexists; split; [vm_compute; reflexivity | vm_compute; intuition discriminate]].

(* 7.5  SysV: a float on the stack advances the offset by 4 (ABI: 8): f(double x8, float, float) *)
Theorem sysv_stack_float_refuted : deviates (mkEnv X64 0 0) (mkSig 0 255 0 [43;43;43;43;43;43;43;43;42;42]) SysV64.
Proof. witness. Qed.
(* 7.5  SysV: a 16-byte vector on the stack is not 16-aligned: f(long x7, __m128 x9) *)
Theorem sysv_stack_vector_unaligned_refuted :
  deviates (mkEnv X64 0 0) (mkSig 0 255 0 [40;40;40;40;40;40;40;75;75;75;75;75;75;75;75;75]) SysV64.
Proof. witness. Qed.
(* SysV: __m64, __mmask and long double arguments: no location / SSE register instead of memory *)
Theorem sysv_mmx_mask_f80_refuted :
  deviates (mkEnv X64 0 0) (mkSig 0 255 0 [50]) SysV64 /\ deviates (mkEnv X64 0 0) (mkSig 0 255 0 [46]) SysV64 /\
  deviates (mkEnv X64 0 0) (mkSig 0 255 0 [44]) SysV64.
Proof. split; [witness | split; witness]. Qed.
(* 7.5  AAPCS64 / Apple: a 16-byte vector on the stack is aligned to 8: f(long x9, int8x16 x9) *)
Theorem a64_stack_vector_unaligned_refuted :
  deviates (mkEnv A64 0 0) (mkSig 0 255 0 [40;40;40;40;40;40;40;40;40;75;75;75;75;75;75;75;75;75]) Aapcs64 /\
  deviates (mkEnv A64 2 2) (mkSig 0 255 0 [40;40;40;40;40;40;40;40;40;75;75;75;75;75;75;75;75;75]) Apple64.
Proof. split; witness. Qed.
(* 7.5  Apple: 1- and 2-byte stack arguments take 4 bytes (ABI: natural size): f(long x8, char, char) *)
Theorem apple_stack_subword_refuted : deviates (mkEnv A64 2 2) (mkSig 0 255 0 [40;40;40;40;40;40;40;40;34;34]) Apple64.
Proof. witness. Qed.
(* Win64: __mmask arguments get no location *)
Theorem win64_mask_refuted : deviates (mkEnv X64 1 1) (mkSig 0 255 0 [46]) Win64.
Proof. witness. Qed.
(* 7.30 fastcall: a 64-bit integer is split into ECX:EDX (ABI: stack) *)
Theorem fastcall_int64_split_refuted :
  deviates (mkEnv X86 1 1) (mkSig 2 255 0 [40]) Fastcall32 /\ deviates (mkEnv X86 1 1) (mkSig 2 255 0 [34; 40]) Fastcall32.
Proof. split; witness. Qed.
(* i386: long double occupies 10 bytes on the stack (ABI: 12): f(long double, int) *)
Theorem i386_long_double_slot_refuted : deviates (mkEnv X86 0 0) (mkSig 0 255 0 [44; 38]) Cdecl32.
Proof. witness. Qed.
(* i386: a 16-byte vector on the stack is not aligned: f(int, __m128 x4) *)
Theorem i386_stack_vector_unaligned_refuted : deviates (mkEnv X86 0 0) (mkSig 0 255 0 [38; 75; 75; 75; 75]) Cdecl32.
Proof. witness. Qed.
(* __mmask return values travel in XMM0 on SysV (ABI: integer in RAX) *)
Theorem sysv_mask_return_refuted : deviates (mkEnv X64 0 0) (mkSig 0 255 46 []) SysV64.
Proof. witness. Qed.


(* GNU regparm(3): the hypotheses are satisfiable with a 64-bit integer in a register pair (EDX:ECX) ... *)
Example guard_satisfiable_regparm :
  abi_of_env (mkEnv X86 0 0) 7 = Some (Regparm32 3) /\ abi_guard (Regparm32 3) false 40 [38; 40; 38; 75; 43] = true /\
  abi_guard (Regparm32 2) false 38 [40; 38; 40] = true /\ abi_guard (Regparm32 1) false 0 [36; 40; 38] = true.
Proof. repeat split; vm_compute; reflexivity. Qed.
(* ... and the pinned code deviates when exactly one register is left: f(int, int, long long) puts the low word in ECX and the high
   word on the stack (GCC / clang: the whole value on the stack, ECX stays unused) *)
Theorem regparm_int64_split_refuted :
  deviates (mkEnv X86 0 0) (mkSig 7 255 0 [38; 38; 40]) (Regparm32 3) /\ deviates (mkEnv X86 0 0) (mkSig 5 255 0 [40]) (Regparm32 1).
Proof. split; witness. Qed.

(* C06 — variadic calls on AArch64.
   AAPCS64: variadic arguments are passed exactly like named ones (Abi.q_aapcs64 ignores the flag: nothing to add).
   Apple arm64 ("Writing ARM64 code for Apple platforms", section "Update code that passes arguments to variadic functions"): the NAMED
   arguments are passed normally; every VARIADIC argument is passed on the stack, in an 8-byte slot (16 bytes, 16-aligned for 16-byte
   types), starting at the next stacked argument address of the named part rounded up to 8.  (clang -target arm64-apple-darwin:
   f(1, 2, 3L, 4L) with `void f(int, int, ...)` stores 3 and 4 at [sp] and [sp, #8], 1 and 2 travel in w0 and w1.)
   The pinned implementation ignores the var-arg index on AArch64 (finding C06/abi/va-ignored): witness below. *)
From Coq Require Import ZArith List Bool.
Import ListNotations.
From Verif Require Import CallConv.FuncDetailModel CallConv.Abi CallConv.AbiLink.
Local Open Scope Z_scope.

Fixpoint apple_va_tail (nsaa : Z) (ts : list Z) : list (list aloc) * Z :=
  match ts with
  | [] => ([], nsaa)
  | t :: r =>
      let al := if t_v128 t then 16 else 8 in
      let o := round_up nsaa al in
      let '(ls, n) := apple_va_tail (o + round_up (abi_bytes t) 8) r in ([L_stack o] :: ls, n)
  end.

(* k = index of the first variadic argument *)
Definition apple_variadic_spec (k : nat) (args : list Z) : list (list aloc) * Z :=
  let '(named, n) := seq_args q_apple64 false [] 0 (firstn k args) in
  let '(tail, n') := apple_va_tail (round_up n 8) (skipn k args) in
  (named ++ tail, round_up n' 8).

(* void f(int, int, ...) called with two longs: named in w0 / w1, variadic at +0 and +8, 16 bytes of stack *)
Example apple_variadic_example :
  apple_variadic_spec 2 [38; 38; 40; 40] = ([[L_reg Gp32 0]; [L_reg Gp32 1]; [L_stack 0]; [L_stack 8]], 16).
Proof. vm_compute. reflexivity. Qed.

(* the model (= the pinned code) passes the variadic longs in x2 / x3 and reports no stack arguments *)
Theorem apple_variadic_refuted :
  exists d, func_detail_init (mkEnv A64 2 2) (mkSig 0 2 0 [38; 38; 40; 40]) = R_ok d /\
    map (map loc_of) (fd_args d) <> fst (apple_variadic_spec 2 [38; 38; 40; 40]) /\ fd_stack d <> snd (apple_variadic_spec 2 [38; 38; 40; 40]).
Proof. eexists. split; [vm_compute; reflexivity|]. vm_compute. split; discriminate. Qed.

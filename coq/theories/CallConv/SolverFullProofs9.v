(* C06 — the lift to BYTE-level semantics: the byte-level validator validate_bytes accepts every sequence the solver model emits, hence (by
   validate_bytes_sound) every successful run is correct under the machine semantics with byte-addressed little-endian stack areas
   (ShuffleBytesModel.bexec), for every initial byte state: each destination slot / register holds its argument read from its incoming slot /
   register and converted as the types require. *)
From Coq Require Import ZArith List Bool Lia.
Import ListNotations.
From Verif Require Import CallConv.ShuffleModel CallConv.ShuffleProofs CallConv.ShuffleBytesModel CallConv.ShuffleBytesProofs
  CallConv.SolverModel CallConv.SolverFullModel CallConv.SolverFullProofs CallConv.SolverFullProofs2 CallConv.SolverFullProofs4 CallConv.SolverFullProofs8.
Local Open Scope Z_scope.

(* the accesses implied by the required moves themselves lie in the same slots *)
Lemma move_acc_in a wgp wvec vs0 v0 : In v0 vs0 -> v0_ok a wgp wvec v0 ->
  Forall (acc_in vs0) (loc_access (m_src (fmove_of v0)) (m_sbits (fmove_of v0)) ++ loc_access (m_dst (fmove_of v0)) (m_dbits (fmove_of v0))).
Proof.
  intros Hin [Hty [Hlc [Hlo _]]]. destruct (ty_ok_range _ _ _ _ _ _ Hty) as [R1 R2].
  unfold fmove_of. cbn [m_src m_dst m_sbits m_dbits]. apply Forall_app. split.
  - destruct (f_cur v0) as [g r | ar o] eqn:Ec; cbn [loc_access]; constructor; [| constructor].
    unfold locp in Hlc. subst ar. cbn [acc_in]. split; [lia|]. split; [rewrite Z.mul_comm; apply Z.mod_mul; lia|].
    exists v0. split; [assumption|]. right. repeat split; [assumption | lia].
  - destruct (f_out v0) as [g r | ar o] eqn:Eo; cbn [loc_access]; constructor; [| constructor].
    unfold locp in Hlo. subst ar. cbn [acc_in]. split; [lia|]. split; [rewrite Z.mul_comm; apply Z.mod_mul; lia|].
    exists v0. split; [assumption|]. left. repeat split; assumption.
Qed.

Lemma acc_in_512 a wgp wvec vs0 x : (forall i v0, nth_error vs0 i = Some v0 -> v0_ok a wgp wvec v0) -> acc_in vs0 x ->
  (let '(_, _, b) := x in b <=? 512) = true.
Proof.
  destruct x as [[ar o] b]. intros Hok [_ [_ [v0 [Hin S]]]]. apply In_nth_error in Hin. destruct Hin as [k Hk].
  destruct (Hok k v0 Hk) as [Hty _]. destruct (ty_ok_range _ _ _ _ _ _ Hty) as [R1 R2]. apply Z.leb_le.
  destruct S as [[_ [_ E]] | [_ [_ E]]]; lia.
Qed.

Theorem fsolve_validates_bytes : forall a wgp wvec vs0 ms, fwf_inputb wgp wvec vs0 = true -> farch_okb a vs0 = true -> a <> FX86 ->
  slots_okb vs0 = true -> fsolve a wgp wvec vs0 = SOk ms ->
  validate_bytes (map fmove_of vs0) (fallowed_locs wgp wvec) ms = true.
Proof.
  intros a wgp wvec vs0 ms Hwf Har Hx Hok Hs. unfold validate_bytes.
  rewrite (fsolve_validates a wgp wvec vs0 ms Hwf Har Hx Hok Hs). cbn [andb].
  pose proof Hok as Hok'. apply andb_prop in Hok'. destruct Hok' as [Hd Hi].
  apply slots_disjointb_sound in Hd. apply in_slots_disjointb_sound in Hi.
  pose proof (fsolve_stores_exact a wgp wvec vs0 ms Hwf Har Hs) as Hst.
  pose proof (fsolve_reads a wgp wvec vs0 ms Hwf Har Hs) as Hrd.
  apply (fwf_inputb_sound a) in Hwf; [| exact Har]. destruct Hwf as [Hv0 _].
  destruct (accesses_acc_in a wgp wvec vs0 Hv0 Hx ms) as [xs [Ex Fx]]; [intros i Hin; split; [apply Hst | apply Hrd]; assumption|].
  rewrite Ex.
  assert (Fm : Forall (acc_in vs0) (move_accesses (map fmove_of vs0))).
  { unfold move_accesses. rewrite flat_map_concat_map, map_map. apply Forall_concat. apply Forall_map. apply Forall_forall.
    intros v0 Hin. pose proof Hin as Hin'. apply In_nth_error in Hin'. destruct Hin' as [k Hk].
    exact (move_acc_in a wgp wvec vs0 v0 Hin (Hv0 k v0 Hk)). }
  assert (Fall : Forall (acc_in vs0) (move_accesses (map fmove_of vs0) ++ xs)) by (apply Forall_app; split; assumption).
  rewrite Forall_forall in Fall. apply andb_true_intro. split.
  - unfold accesses_ok. apply andb_true_intro. split.
    + apply forallb_forall. intros x Hin. eapply acc_in_aligned. apply Fall. assumption.
    + apply accesses_compat_pairwise. intros x y Hp Hq. apply (acc_in_compat vs0); try assumption; apply Fall; assumption.
  - apply forallb_forall. intros x Hin. exact (acc_in_512 a wgp wvec vs0 x Hv0 (Fall x Hin)).
Qed.

(* byte-level correctness of the function, from every initial byte state *)
Theorem fsolve_correct_bytes : forall a wgp wvec vs0 ms, fwf_inputb wgp wvec vs0 = true -> farch_okb a vs0 = true -> a <> FX86 ->
  slots_okb vs0 = true -> fsolve a wgp wvec vs0 = SOk ms ->
  forall (b0 : bstate) v0, In v0 vs0 ->
  dst_ok (fmove_of v0) (bread b0 (f_cur v0) (8 * f_csz v0)) (bread (bexec ms b0) (f_out v0) (8 * f_osz v0)).
Proof.
  intros a wgp wvec vs0 ms Hwf Har Hx Hok Hs b0 v0 Hin.
  exact (validate_bytes_sound _ _ _ (fsolve_validates_bytes a wgp wvec vs0 ms Hwf Har Hx Hok Hs) b0 (fmove_of v0) (in_map fmove_of vs0 v0 Hin)).
Qed.

(* byte-level frame for memory: a byte outside every stored range keeps its value *)
Theorem fsolve_frame_bytes : forall a wgp wvec vs0 ms, fwf_inputb wgp wvec vs0 = true -> farch_okb a vs0 = true -> a <> FX86 ->
  slots_okb vs0 = true -> fsolve a wgp wvec vs0 = SOk ms ->
  forall b0 ar x, (forall o bits, In (ar, o, bits) (store_accesses ms) -> ~ (o <= x < o + bits / 8)) ->
  b_mem (bexec ms b0) ar x = b_mem b0 ar x.
Proof.
  intros a wgp wvec vs0 ms Hwf Har Hx Hok Hs.
  exact (validate_bytes_frame_mem _ _ _ (fsolve_validates_bytes a wgp wvec vs0 ms Hwf Har Hx Hok Hs)).
Qed.

(* non-vacuity: the mixed example on x86-64 and AArch64, from the theorems *)
Example ex_mixed_correct_bytes : forall a, a = FX64 \/ a = FA64 -> forall ms, fsolve a ex_wgp ex_wvec ex_mixed = SOk ms ->
  validate_bytes (map fmove_of ex_mixed) (fallowed_locs ex_wgp ex_wvec) ms = true /\
  forall (b0 : bstate) v0, In v0 ex_mixed ->
    dst_ok (fmove_of v0) (bread b0 (f_cur v0) (8 * f_csz v0)) (bread (bexec ms b0) (f_out v0) (8 * f_osz v0)).
Proof.
  intros a Ha ms Hs.
  assert (Har : farch_okb a ex_mixed = true) by (destruct Ha; subst; vm_compute; reflexivity).
  assert (Hx : a <> FX86) by (destruct Ha; subst; discriminate).
  assert (Hok : slots_okb ex_mixed = true) by (vm_compute; reflexivity).
  split.
  - exact (fsolve_validates_bytes a ex_wgp ex_wvec ex_mixed ms ex_mixed_wf Har Hx Hok Hs).
  - exact (fsolve_correct_bytes a ex_wgp ex_wvec ex_mixed ms ex_mixed_wf Har Hx Hok Hs).
Qed.

(* C06 - proofs about the parallel-move solver model of SolverModel.v: semantic correctness of the emitted sequence from every
   initial machine state, frame, progress and termination. *)
From Coq Require Import ZArith Lia List Bool.
From Verif Require Import Base.ZBits CallConv.ShuffleModel CallConv.ShuffleProofs CallConv.ShuffleBytesModel CallConv.SolverModel.
Import ListNotations.
Local Open Scope Z_scope.

(* ---------------------------------------------------------------------------------------------- *)
(* lists *)

Lemma set_nth_length vs : forall i x, length (set_nth vs i x) = length vs.
Proof. induction vs as [| a r IH]; intros [| k] x; cbn [set_nth length]; auto. Qed.

Lemma nth_set_nth_eq vs : forall i x, (i < length vs)%nat -> nth_error (set_nth vs i x) i = Some x.
Proof.
  induction vs as [| a r IH]; intros [| k] x H; cbn [set_nth length nth_error] in *; try lia; [reflexivity|].
  apply IH. lia.
Qed.

Lemma nth_set_nth_ne vs : forall i j x, i <> j -> nth_error (set_nth vs i x) j = nth_error vs j.
Proof.
  induction vs as [| a r IH]; intros [| k] [| j] x H; cbn [set_nth nth_error]; try reflexivity; try congruence.
  apply IH. congruence.
Qed.

Lemma nth_error_lt {A} (l : list A) i x : nth_error l i = Some x -> (i < length l)%nat.
Proof. intros H. apply nth_error_Some. congruence. Qed.

(* ---------------------------------------------------------------------------------------------- *)
(* assigned / find_at / zmin_list *)

Lemma assigned_true vs r : assigned vs r = true <-> exists k v, nth_error vs k = Some v /\ v_cur v = r.
Proof.
  unfold assigned. rewrite existsb_exists. split.
  - intros [v [Hin He]]. apply In_nth_error in Hin. destruct Hin as [k Hk]. exists k, v. split; [assumption|].
    apply Z.eqb_eq. assumption.
  - intros [k [v [Hk He]]]. exists v. split; [eapply nth_error_In; eassumption | apply Z.eqb_eq; assumption].
Qed.

Lemma assigned_false vs r k v : assigned vs r = false -> nth_error vs k = Some v -> v_cur v <> r.
Proof.
  intros Ha Hk He. assert (assigned vs r = true) by (apply assigned_true; eauto). congruence.
Qed.

Lemma find_at_some vs r : forall k j, find_at vs r k = Some j ->
  exists j', j = (k + j')%nat /\ exists alt, nth_error vs j' = Some alt /\ v_cur alt = r.
Proof.
  induction vs as [| a rest IH]; intros k j H; cbn [find_at] in H; [discriminate|].
  destruct (Z.eqb_spec (v_cur a) r) as [E | E].
  - inversion H. exists O. split; [lia|]. exists a. split; [reflexivity | exact E].
  - apply IH in H. destruct H as [j' [Hj [alt [Hn Hc]]]]. exists (S j'). split; [lia|]. exists alt. split; [exact Hn | exact Hc].
Qed.

Lemma find_at_none vs r : forall k, find_at vs r k = None -> assigned vs r = false.
Proof.
  induction vs as [| a rest IH]; intros k H; cbn [find_at] in H; [reflexivity|].
  unfold assigned. cbn [existsb]. destruct (Z.eqb_spec (v_cur a) r); [discriminate|]. cbn [orb]. eapply IH; eassumption.
Qed.

Lemma fold_min_in r : forall a, fold_left Z.min r a = a \/ In (fold_left Z.min r a) r.
Proof.
  induction r as [| b r IH]; intros a; cbn [fold_left In]; [left; reflexivity|].
  destruct (IH (Z.min a b)) as [E | E].
  - rewrite E. destruct (Z.min_dec a b) as [M | M]; rewrite M; [left; reflexivity | right; left; reflexivity].
  - right; right; assumption.
Qed.

Lemma zmin_list_in l m : zmin_list l = Some m -> In m l.
Proof.
  destruct l as [| a r]; cbn [zmin_list]; [discriminate|]. intros H. inversion H; subst.
  destruct (fold_min_in r a) as [E | E]; [rewrite E; left; reflexivity | right; assumption].
Qed.

Lemma zmin_list_none l : zmin_list l = None -> l = [].
Proof. destruct l; cbn [zmin_list]; [reflexivity | discriminate]. Qed.

(* ---------------------------------------------------------------------------------------------- *)
(* one step of the solver: the possible outcomes *)

Section Step.
Variable t : starget.
Variable work : list Z.

Definition scratch_choice (vs : list svar) : option Z :=
  let avail := filter (fun r => negb (assigned vs r)) work in
  let pref := filter (fun r => negb (existsb (fun u => v_out u =? r) vs)) avail in
  zmin_list (match pref with [] => avail | _ => pref end).

Lemma scratch_choice_some vs sc : scratch_choice vs = Some sc -> In sc work /\ assigned vs sc = false.
Proof.
  unfold scratch_choice. intros H. apply zmin_list_in in H.
  assert (Ha : In sc (filter (fun r => negb (assigned vs r)) work)).
  { destruct (filter (fun r => negb (existsb (fun u => v_out u =? r) vs)) (filter (fun r => negb (assigned vs r)) work)) eqn:E.
    - assumption.
    - rewrite <- E in H. apply filter_In in H. tauto. }
  apply filter_In in Ha. destruct Ha as [H1 H2]. split; [assumption|]. destruct (assigned vs sc); [discriminate | reflexivity].
Qed.

Lemma scratch_choice_none vs r : scratch_choice vs = None -> In r work -> assigned vs r = true.
Proof.
  unfold scratch_choice. intros H Hr.
  destruct (filter (fun r => negb (existsb (fun u => v_out u =? r) vs)) (filter (fun r => negb (assigned vs r)) work)) eqn:E.
  - apply zmin_list_none in H. destruct (assigned vs r) eqn:Ea; [reflexivity|].
    assert (In r (filter (fun r => negb (assigned vs r)) work)) by (apply filter_In; rewrite Ea; tauto).
    rewrite H in *. contradiction.
  - apply zmin_list_none in H. discriminate.
Qed.

Inductive step_spec (s : sstate) (i : nat) : sstate -> Prop :=
| SS_none : nth_error (s_vars s) i = None -> step_spec s i s
| SS_done v : nth_error (s_vars s) i = Some v -> v_done v = true -> step_spec s i s
| SS_move v : nth_error (s_vars s) i = Some v -> v_done v = false ->
    negb (assigned (s_vars s) (v_out v)) || (v_cur v =? v_out v) = true ->
    step_spec s i (mkS (set_nth (s_vars s) i (moved v (v_out v) true))
                       (s_emit s ++ [conv_move t (v_out v) (v_cur v) (v_csz v) (v_csg v) (v_osz v) (v_osg v)]) true true (s_postponed s))
| SS_xchg v j alt : nth_error (s_vars s) i = Some v -> v_done v = false ->
    assigned (s_vars s) (v_out v) = true -> v_cur v <> v_out v ->
    find_at (s_vars s) (v_out v) O = Some j -> nth_error (s_vars s) j = Some alt -> v_cur alt = v_out v ->
    (v_out alt =? v_cur v) || (s_postponed s && negb (v_done alt)) = true -> has_swap t = true ->
    step_spec s i
      (let mutual := v_out alt =? v_cur v in
       let stuck := s_postponed s && negb (v_done alt) in
       let alt_done := mutual && negb (needs_ext alt) in
       mkS (set_nth (set_nth (s_vars s) i (upd_cur v (v_out v) (negb (needs_ext v)))) j (upd_cur alt (v_cur v) alt_done))
           (s_emit s ++ [IXchg (greg (v_out v)) (greg (v_cur v)) (if Z.max (v_csz v) (v_csz alt) <=? 4 then 32 else 64) 64]) true
           (s_pending s || needs_ext v || negb alt_done) (if stuck && negb mutual then false else s_postponed s))
| SS_scr v j alt sc : nth_error (s_vars s) i = Some v -> v_done v = false ->
    assigned (s_vars s) (v_out v) = true -> v_cur v <> v_out v ->
    find_at (s_vars s) (v_out v) O = Some j -> nth_error (s_vars s) j = Some alt -> v_cur alt = v_out v ->
    (v_out alt =? v_cur v) || (s_postponed s && negb (v_done alt)) = true -> has_swap t = false ->
    scratch_choice (s_vars s) = Some sc ->
    step_spec s i
      (let mutual := v_out alt =? v_cur v in
       let stuck := s_postponed s && negb (v_done alt) in
       mkS (set_nth (s_vars s) i (moved v sc false))
           (s_emit s ++ [conv_move t sc (v_cur v) (v_csz v) (v_csg v) (v_osz v) (v_osg v)]) true true
           (if stuck && negb mutual then false else s_postponed s))
| SS_noscr v j alt : nth_error (s_vars s) i = Some v -> v_done v = false ->
    assigned (s_vars s) (v_out v) = true -> v_cur v <> v_out v ->
    find_at (s_vars s) (v_out v) O = Some j -> nth_error (s_vars s) j = Some alt -> v_cur alt = v_out v ->
    (v_out alt =? v_cur v) || (s_postponed s && negb (v_done alt)) = true -> has_swap t = false ->
    scratch_choice (s_vars s) = None ->
    step_spec s i (mkS (s_vars s) (s_emit s) (s_did s) true (s_postponed s))
| SS_wait v j alt : nth_error (s_vars s) i = Some v -> v_done v = false ->
    assigned (s_vars s) (v_out v) = true -> v_cur v <> v_out v ->
    find_at (s_vars s) (v_out v) O = Some j -> nth_error (s_vars s) j = Some alt -> v_cur alt = v_out v ->
    (v_out alt =? v_cur v) || (s_postponed s && negb (v_done alt)) = false ->
    step_spec s i (mkS (s_vars s) (s_emit s) (s_did s) true (s_postponed s)).

Lemma step_var_spec s i : step_spec s i (step_var t work s i).
Proof.
  unfold step_var.
  destruct (nth_error (s_vars s) i) as [v |] eqn:Hv; [| apply SS_none; assumption].
  destruct (v_done v) eqn:Hd; [eapply SS_done; eassumption|].
  destruct (negb (assigned (s_vars s) (v_out v)) || (v_cur v =? v_out v)) eqn:Hc.
  - apply SS_move; assumption.
  - apply orb_false_elim in Hc. destruct Hc as [Hc1 Hc2]. apply negb_false_iff in Hc1. apply Z.eqb_neq in Hc2.
    destruct (find_at (s_vars s) (v_out v) 0) as [j |] eqn:Hf.
    + destruct (find_at_some _ _ _ _ Hf) as [j' [Hj [alt [Hn Hca]]]]. cbn in Hj. subst j'.
      rewrite Hn.
      destruct ((v_out alt =? v_cur v) || (s_postponed s && negb (v_done alt))) eqn:Hm.
      * destruct (has_swap t) eqn:Hs.
        -- eapply (SS_xchg s i v j alt); eassumption.
        -- fold (scratch_choice (s_vars s)). destruct (scratch_choice (s_vars s)) as [sc |] eqn:Hsc.
           ++ eapply (SS_scr s i v j alt sc); eassumption.
           ++ eapply (SS_noscr s i v j alt); eassumption.
      * eapply (SS_wait s i v j alt); eassumption.
    + apply find_at_none in Hf. congruence.
Qed.

End Step.

(* ---------------------------------------------------------------------------------------------- *)
(* arithmetic of the emitted instructions *)

Definition sz_ok (z : Z) : Prop := z = 1 \/ z = 2 \/ z = 4 \/ z = 8.
Definition sz_okb (z : Z) : bool := (z =? 1) || (z =? 2) || (z =? 4) || (z =? 8).

Lemma sz_okb_spec z : sz_okb z = true <-> sz_ok z.
Proof.
  unfold sz_okb, sz_ok. rewrite !orb_true_iff, !Z.eqb_eq. tauto.
Qed.

Lemma sz_ok_range z : sz_ok z -> 1 <= z <= 8.
Proof. unfold sz_ok. lia. Qed.

Lemma low_of_put q y m wz : 0 <= m <= wz -> (q * 2 ^ wz + y) mod 2 ^ m = y mod 2 ^ m.
Proof.
  intros H. rewrite (pow2_split m wz) by lia.
  replace (q * (2 ^ m * 2 ^ (wz - m)) + y) with (y + (q * 2 ^ (wz - m)) * 2 ^ m) by ring.
  apply Z.mod_add. pose proof (pow2_pos m ltac:(lia)). lia.
Qed.

(* the requirement of move_of depends on the types only *)
Definition mk_mv (csz : Z) (csg : bool) (osz : Z) (osg : bool) : move :=
  {| m_src := greg 0; m_dst := greg 0; m_sbits := 8 * csz; m_ssigned := csg && osg; m_dbits := 8 * osz;
     m_int := negb (csg && negb osg && (csz <? osz)) |}.

Lemma dst_ok_move_of v0 x c : dst_ok (move_of v0) x c <-> dst_ok (mk_mv (v_csz v0) (v_csg v0) (v_osz v0) (v_osg v0)) x c.
Proof. unfold dst_ok, move_of, mk_mv. cbn [m_int m_sbits m_dbits m_ssigned]. tauto. Qed.

(* dst_ok looks at the low m_dbits bits only *)
Lemma dst_ok_low mv x c c' : 0 <= m_sbits mv -> 0 <= m_dbits mv ->
  c mod 2 ^ (m_dbits mv) = c' mod 2 ^ (m_dbits mv) -> dst_ok mv x c -> dst_ok mv x c'.
Proof.
  intros Hs Hd E. unfold dst_ok. destruct (m_int mv && (m_sbits mv <? m_dbits mv)).
  - rewrite <- E. tauto.
  - intros H. rewrite <- (mod_mod_pow2 c' _ (m_dbits mv)) by lia. rewrite <- E. rewrite mod_mod_pow2 by lia. assumption.
Qed.

(* a read of n <= m_sbits bits, extended: judged by the validator's check_move *)
Lemma ext_ok_read mv e n w wz q c x :
  c mod 2 ^ (m_sbits mv) = x mod 2 ^ (m_sbits mv) -> n <= m_sbits mv ->
  check_move mv (AExt (m_src mv) n e w wz) = true -> 0 < n -> n <= w -> w <= wz ->
  dst_ok mv x (q * 2 ^ wz + extv e n w c).
Proof.
  intros E Hn Hck H1 H2 H3. pose (st0' := fun _ : loc => x).
  change (dst_ok mv (st0' (m_src mv)) (q * 2 ^ wz + extv e n w c)).
  apply (check_move_sound st0' mv (AExt (m_src mv) n e w wz)); [assumption|].
  cbn [arel]. split; [lia|]. rewrite written_mod by lia. apply extv_cong. unfold st0'.
  rewrite <- (mod_mod_pow2 c n (m_sbits mv)) by lia. rewrite E. apply mod_mod_pow2; lia.
Qed.

(* a plain copy of n bits, at least as many as required *)
Lemma ext_ok_copy mv n wz q c x :
  c mod 2 ^ (m_sbits mv) = x mod 2 ^ (m_sbits mv) -> m_int mv && (m_sbits mv <? m_dbits mv) = false ->
  Z.min (m_sbits mv) (m_dbits mv) <= n -> n <= wz -> 0 <= m_sbits mv -> 0 <= m_dbits mv ->
  dst_ok mv x (q * 2 ^ wz + extv EZ n n c).
Proof.
  intros E Hc Hm Hn Hs Hd. unfold dst_ok. rewrite Hc. rewrite low_of_put by lia. cbn [extv].
  rewrite mod_mod_pow2 by lia.
  rewrite <- (mod_mod_pow2 c _ (m_sbits mv)) by lia. rewrite E. apply mod_mod_pow2; lia.
Qed.

Definition cm_params (t : starget) (csz : Z) (csg : bool) (osz : Z) (osg : bool) : ext * Z * Z * Z :=
  match conv_move t 0 0 csz csg osz osg with IExt _ _ e n w wz => (e, n, w, wz) | IXchg _ _ _ _ => (EZ, 0, 0, 0) end.

Lemma conv_move_eq t d s csz csg osz osg :
  conv_move t d s csz csg osz osg = let '(e, n, w, wz) := cm_params t csz csg osz osg in IExt (greg d) (greg s) e n w wz.
Proof.
  unfold cm_params, conv_move. destruct t; cbv zeta;
    repeat match goal with |- context [if ?b then _ else _] => destruct b end; reflexivity.
Qed.

Definition is_ez (e : ext) : bool := match e with EZ => true | ES => false end.

Definition param_check (p : ext * Z * Z * Z) (csz : Z) (csg : bool) (osz : Z) (osg : bool) : bool :=
  let '(e, n, w, wz) := p in
  let mv := mk_mv csz csg osz osg in
  (0 <? n) && (n <=? w) && (w <=? wz) &&
  (((n <=? 8 * csz) && check_move mv (AExt (greg 0) n e w wz)) ||
   (is_ez e && (n =? w) && negb (m_int mv && (8 * csz <? 8 * osz)) && (Z.min (8 * csz) (8 * osz) <=? n))) &&
  (negb (csz =? osz) || (8 * osz <=? n)).

(* the finite case analysis: 2 targets x 16 size pairs x 4 signedness pairs *)
Lemma cm_params_ok t csz csg osz osg : sz_ok csz -> sz_ok osz ->
  param_check (cm_params t csz csg osz osg) csz csg osz osg = true.
Proof.
  intros [H1 | [H1 | [H1 | H1]]] [H2 | [H2 | [H2 | H2]]]; subst; destruct t, csg, osg; vm_compute; reflexivity.
Qed.

(* ONE lemma about the converting move: it writes the destination register only; the value written satisfies the requirement
   when the source holds the not-yet-converted value, and keeps the low destination-size bits when the types are equal *)
Lemma conv_move_sound t d s csz csg osz osg st : sz_ok csz -> sz_ok osz ->
  exists V, exec_inst st (conv_move t d s csz csg osz osg) = upd st (greg d) V /\
    (forall x, st (greg s) mod 2 ^ (8 * csz) = x mod 2 ^ (8 * csz) -> dst_ok (mk_mv csz csg osz osg) x V) /\
    (csz = osz -> V mod 2 ^ (8 * osz) = st (greg s) mod 2 ^ (8 * osz)).
Proof.
  intros Hc Ho. pose proof (cm_params_ok t csz csg osz osg Hc Ho) as Hp.
  assert (Hc0 : 0 < csz) by (unfold sz_ok in Hc; lia). assert (Ho0 : 0 < osz) by (unfold sz_ok in Ho; lia).
  rewrite conv_move_eq. destruct (cm_params t csz csg osz osg) as [[[e n] w] wz]. cbn [exec_inst].
  eexists. split; [reflexivity|].
  unfold param_check in Hp.
  apply andb_prop in Hp. destruct Hp as [Hp H5]. apply andb_prop in Hp. destruct Hp as [Hp H4].
  apply andb_prop in Hp. destruct Hp as [Hp H3]. apply andb_prop in Hp. destruct Hp as [H1 H2].
  apply Z.ltb_lt in H1. apply Z.leb_le in H2. apply Z.leb_le in H3.
  split.
  - intros x E. apply orb_prop in H4. destruct H4 as [H4 | H4].
    + apply andb_prop in H4. destruct H4 as [Hn Hck]. apply Z.leb_le in Hn.
      apply ext_ok_read; try assumption.
    + apply andb_prop in H4. destruct H4 as [H4 Hm]. apply andb_prop in H4. destruct H4 as [H4 Hcond].
      apply andb_prop in H4. destruct H4 as [He Hnw]. apply Z.eqb_eq in Hnw. apply Z.leb_le in Hm.
      apply negb_true_iff in Hcond. destruct e; [| discriminate]. subst w.
      apply ext_ok_copy; cbn [mk_mv m_sbits m_dbits m_int] in *; try assumption; lia.
  - intros Eq. apply orb_prop in H5. destruct H5 as [H5 | H5].
    + apply negb_true_iff in H5. apply Z.eqb_neq in H5. contradiction.
    + apply Z.leb_le in H5. rewrite low_of_put by lia. apply extv_low; lia.
Qed.

Lemma xchg_low q y m w wz : 0 <= m <= w -> w <= wz -> (q * 2 ^ wz + y mod 2 ^ w) mod 2 ^ m = y mod 2 ^ m.
Proof. intros H1 H2. rewrite low_of_put by lia. apply mod_mod_pow2; lia. Qed.

Lemma greg_inj a b : greg a = greg b -> a = b.
Proof. unfold greg. intros H. inversion H. reflexivity. Qed.

Lemma upd_same st l V : upd st l V l = V.
Proof. unfold upd. rewrite loc_eqb_refl. reflexivity. Qed.

Lemma upd_other st l V l' : l' <> l -> upd st l V l' = st l'.
Proof. unfold upd. intros H. destruct (loc_eqb_spec l' l); [contradiction | reflexivity]. Qed.

Lemma upd_greg_ne st r V r' : r' <> r -> upd st (greg r) V (greg r') = st (greg r').
Proof. intros H. apply upd_other. intros E. apply greg_inj in E. contradiction. Qed.

Lemma exec_snoc ms i st : exec (ms ++ [i]) st = exec_inst (exec ms st) i.
Proof. rewrite exec_app. reflexivity. Qed.

(* ---------------------------------------------------------------------------------------------- *)
(* the invariant of the solver state w.r.t. the original variables and the initial machine state *)

Definition cur_inj (vs : list svar) : Prop :=
  forall i j vi vj, nth_error vs i = Some vi -> nth_error vs j = Some vj -> v_cur vi = v_cur vj -> i = j.
Definition out_inj (vs : list svar) : Prop :=
  forall i j vi vj, nth_error vs i = Some vi -> nth_error vs j = Some vj -> v_out vi = v_out vj -> i = j.

Lemma cur_inj_set vs i v x :
  cur_inj vs -> nth_error vs i = Some v ->
  (forall k u, k <> i -> nth_error vs k = Some u -> v_cur u <> v_cur x) -> cur_inj (set_nth vs i x).
Proof.
  intros Hinj Hv Hfree a b va vb Ha Hb E.
  pose proof (nth_error_lt _ _ _ Hv) as Hi.
  destruct (Nat.eq_dec a i) as [Ea | Ea]; destruct (Nat.eq_dec b i) as [Eb | Eb]; subst; try reflexivity.
  - rewrite nth_set_nth_eq in Ha by assumption. rewrite nth_set_nth_ne in Hb by congruence.
    inversion Ha; subst. exfalso. eapply Hfree; [| eassumption |]; [congruence | congruence].
  - rewrite nth_set_nth_eq in Hb by assumption. rewrite nth_set_nth_ne in Ha by congruence.
    inversion Hb; subst. exfalso. eapply Hfree; [| eassumption |]; [congruence | congruence].
  - rewrite nth_set_nth_ne in Ha by congruence. rewrite nth_set_nth_ne in Hb by congruence. eapply Hinj; eassumption.
Qed.

Lemma nth_set2 vs i j x y k : (i < length vs)%nat -> (j < length vs)%nat -> i <> j ->
  nth_error (set_nth (set_nth vs i x) j y) k =
  if Nat.eq_dec k j then Some y else if Nat.eq_dec k i then Some x else nth_error vs k.
Proof.
  intros Hi Hj Hij. destruct (Nat.eq_dec k j) as [E | E].
  - subst. apply nth_set_nth_eq. rewrite set_nth_length. assumption.
  - rewrite nth_set_nth_ne by congruence. destruct (Nat.eq_dec k i) as [E2 | E2].
    + subst. apply nth_set_nth_eq. assumption.
    + apply nth_set_nth_ne. congruence.
Qed.

Lemma cur_inj_swap vs i j v alt x y :
  cur_inj vs -> nth_error vs i = Some v -> nth_error vs j = Some alt -> i <> j ->
  v_cur x = v_cur alt -> v_cur y = v_cur v -> cur_inj (set_nth (set_nth vs i x) j y).
Proof.
  intros Hinj Hv Ha Hij Ex Ey a b va vb Hva Hvb E.
  pose proof (nth_error_lt _ _ _ Hv) as Hi. pose proof (nth_error_lt _ _ _ Ha) as Hj.
  rewrite nth_set2 in Hva, Hvb by assumption.
  destruct (Nat.eq_dec a j) as [Eaj | Eaj]; destruct (Nat.eq_dec b j) as [Ebj | Ebj]; subst; try reflexivity.
  - inversion Hva; subst va. destruct (Nat.eq_dec b i) as [Ebi | Ebi].
    + inversion Hvb; subst vb. exfalso. apply Hij. apply (Hinj i j v alt Hv Ha). congruence.
    + exfalso. apply Ebi. apply (Hinj b i vb v Hvb Hv). congruence.
  - inversion Hvb; subst vb. destruct (Nat.eq_dec a i) as [Eai | Eai].
    + inversion Hva; subst va. exfalso. apply Hij. apply (Hinj i j v alt Hv Ha). congruence.
    + exfalso. apply Eai. apply (Hinj a i va v Hva Hv). congruence.
  - destruct (Nat.eq_dec a i) as [Eai | Eai]; destruct (Nat.eq_dec b i) as [Ebi | Ebi]; subst; try reflexivity.
    + inversion Hva; subst va. exfalso. apply Ebj. apply (Hinj b j vb alt Hvb Ha). congruence.
    + inversion Hvb; subst vb. exfalso. apply Eaj. apply (Hinj a j va alt Hva Ha). congruence.
    + eapply Hinj; eassumption.
Qed.

Section Inv.
Variable t : starget.
Variable work : list Z.
Variable vs0 : list svar.
Variable st0 : state.
Hypothesis Hsz0 : forall i v0, nth_error vs0 i = Some v0 -> sz_ok (v_csz v0) /\ sz_ok (v_osz v0).

(* content c of the current register of v: not yet converted / converted *)
Definition val_rel (v0 v : svar) (c : Z) : Prop :=
  let x := st0 (greg (v_cur v0)) in
  (v_csz v = v_csz v0 /\ v_csg v = v_csg v0 /\ c mod 2 ^ (8 * v_csz v0) = x mod 2 ^ (8 * v_csz v0)) \/
  (v_csz v = v_osz v0 /\ v_csg v = v_osg v0 /\ dst_ok (move_of v0) x c).

Definition vrel (st : state) (v0 v : svar) : Prop :=
  v_out v = v_out v0 /\ v_osz v = v_osz v0 /\ v_osg v = v_osg v0 /\
  (v_done v = true -> v_cur v = v_out v /\ v_osz v <= v_csz v) /\
  val_rel v0 v (st (greg (v_cur v))).

Definition inv (vars : list svar) (emit : list minst) : Prop :=
  length vars = length vs0 /\ cur_inj vars /\
  forall i v0 v, nth_error vs0 i = Some v0 -> nth_error vars i = Some v -> vrel (exec emit st0) v0 v.

Lemma vrel_ext st st' v0 v : st' (greg (v_cur v)) = st (greg (v_cur v)) -> vrel st v0 v -> vrel st' v0 v.
Proof. unfold vrel. intros E. rewrite E. tauto. Qed.

Lemma val_rel_sz v0 v c : sz_ok (v_csz v0) -> sz_ok (v_osz v0) -> val_rel v0 v c -> sz_ok (v_csz v).
Proof. intros H1 H2 [[E _] | [E _]]; rewrite E; assumption. Qed.

(* val_rel looks at the low (current size) bits only *)
Lemma val_rel_low v0 v v' c c' : sz_ok (v_csz v0) -> sz_ok (v_osz v0) ->
  v_csz v' = v_csz v -> v_csg v' = v_csg v ->
  c' mod 2 ^ (8 * v_csz v) = c mod 2 ^ (8 * v_csz v) -> val_rel v0 v c -> val_rel v0 v' c'.
Proof.
  intros S1 S2 Ez Eg E [[E1 [E2 E3]] | [E1 [E2 E3]]]; [left | right]; (split; [congruence|]); (split; [congruence|]).
  - rewrite <- E1. rewrite E. rewrite E1. assumption.
  - apply (dst_ok_low (move_of v0) _ c c'); unfold move_of; cbn [m_sbits m_dbits];
      try (pose proof (sz_ok_range _ S1); pose proof (sz_ok_range _ S2); lia); try assumption.
    rewrite <- E1. symmetry. assumption.
Qed.

(* the converting move *)
Lemma val_rel_conv v0 v r d st V : sz_ok (v_csz v0) -> sz_ok (v_osz v0) ->
  v_osz v = v_osz v0 -> v_osg v = v_osg v0 ->
  val_rel v0 v (st (greg (v_cur v))) ->
  (forall x, st (greg (v_cur v)) mod 2 ^ (8 * v_csz v) = x mod 2 ^ (8 * v_csz v) ->
             dst_ok (mk_mv (v_csz v) (v_csg v) (v_osz v) (v_osg v)) x V) ->
  (v_csz v = v_osz v -> V mod 2 ^ (8 * v_osz v) = st (greg (v_cur v)) mod 2 ^ (8 * v_osz v)) ->
  val_rel v0 (moved v r d) V.
Proof.
  intros S1 S2 Ez Eg Hv P1 P2. right. cbn [moved v_csz v_csg]. split; [assumption|]. split; [assumption|].
  destruct Hv as [[E1 [E2 E3]] | [E1 [E2 E3]]].
  - apply dst_ok_move_of. rewrite <- E1, <- E2, <- Ez, <- Eg. apply P1. rewrite E1. assumption.
  - apply (dst_ok_low (move_of v0) _ (st (greg (v_cur v))) V); unfold move_of; cbn [m_sbits m_dbits];
      try (pose proof (sz_ok_range _ S1); pose proof (sz_ok_range _ S2); lia); try assumption.
    rewrite <- Ez. symmetry. apply P2. congruence.
Qed.

Lemma inv_conv_move vars emit i v r d :
  inv vars emit -> nth_error vars i = Some v ->
  (forall k u, k <> i -> nth_error vars k = Some u -> v_cur u <> r) -> (d = true -> r = v_out v) ->
  inv (set_nth vars i (moved v r d)) (emit ++ [conv_move t r (v_cur v) (v_csz v) (v_csg v) (v_osz v) (v_osg v)]).
Proof.
  intros [Hlen [Hinj Hrel]] Hv Hfree Hd.
  pose proof (nth_error_lt _ _ _ Hv) as Hi.
  destruct (nth_error vs0 i) as [v0 |] eqn:Hv0; [| apply nth_error_None in Hv0; lia].
  destruct (Hrel i v0 v Hv0 Hv) as [Ro [Rz [Rg [Rd Rv]]]].
  destruct (Hsz0 i v0 Hv0) as [Sc So].
  assert (Scv : sz_ok (v_csz v)) by (eapply val_rel_sz; eassumption).
  assert (Sov : sz_ok (v_osz v)) by (rewrite Rz; assumption).
  destruct (conv_move_sound t r (v_cur v) (v_csz v) (v_csg v) (v_osz v) (v_osg v) (exec emit st0) Scv Sov) as [V [HV [P1 P2]]].
  split; [rewrite set_nth_length; assumption|]. split.
  - eapply cur_inj_set; [eassumption | eassumption |]. cbn [moved v_cur]. assumption.
  - intros k u0 u Hu0 Hu. rewrite exec_snoc, HV.
    destruct (Nat.eq_dec k i) as [E | E].
    + subst k. rewrite nth_set_nth_eq in Hu by assumption. inversion Hu; subst u. clear Hu.
      assert (u0 = v0) by congruence. subst u0.
      unfold vrel. cbn [moved v_out v_osz v_osg v_done v_cur v_csz]. rewrite upd_same.
      split; [assumption|]. split; [assumption|]. split; [assumption|]. split.
      * intros Hdt. split; [apply Hd; assumption | lia].
      * eapply val_rel_conv; eassumption.
    + rewrite nth_set_nth_ne in Hu by congruence.
      apply (vrel_ext (exec emit st0)); [| apply Hrel with k; assumption].
      apply upd_greg_ne. eapply Hfree; eassumption.
Qed.

Lemma inv_xchg vars emit i j v alt dv da :
  inv vars emit -> nth_error vars i = Some v -> nth_error vars j = Some alt ->
  v_cur alt = v_out v -> v_cur v <> v_out v ->
  (dv = true -> v_osz v <= v_csz v) -> (da = true -> v_out alt = v_cur v /\ v_osz alt <= v_csz alt) ->
  inv (set_nth (set_nth vars i (upd_cur v (v_out v) dv)) j (upd_cur alt (v_cur v) da))
      (emit ++ [IXchg (greg (v_out v)) (greg (v_cur v)) (if Z.max (v_csz v) (v_csz alt) <=? 4 then 32 else 64) 64]).
Proof.
  intros [Hlen [Hinj Hrel]] Hv Ha Eca Hne Hdv Hda.
  pose proof (nth_error_lt _ _ _ Hv) as Hi. pose proof (nth_error_lt _ _ _ Ha) as Hj.
  assert (Hij : i <> j). { intros E. subst j. assert (alt = v) by congruence. subst alt. contradiction. }
  destruct (nth_error vs0 i) as [v0 |] eqn:Hv0; [| apply nth_error_None in Hv0; lia].
  destruct (nth_error vs0 j) as [a0 |] eqn:Ha0; [| apply nth_error_None in Ha0; lia].
  destruct (Hrel i v0 v Hv0 Hv) as [Ro [Rz [Rg [Rd Rv]]]].
  destruct (Hrel j a0 alt Ha0 Ha) as [Ao [Az [Ag [Ad Av]]]].
  destruct (Hsz0 i v0 Hv0) as [Sc So]. destruct (Hsz0 j a0 Ha0) as [Tc To].
  assert (Scv : sz_ok (v_csz v)) by exact (val_rel_sz v0 v _ Sc So Rv).
  assert (Sca : sz_ok (v_csz alt)) by exact (val_rel_sz a0 alt _ Tc To Av).
  set (w := if Z.max (v_csz v) (v_csz alt) <=? 4 then 32 else 64).
  assert (Hw : 8 * v_csz v <= w /\ 8 * v_csz alt <= w /\ w <= 64).
  { pose proof (sz_ok_range _ Scv). pose proof (sz_ok_range _ Sca).
    unfold w. destruct (Z.leb_spec (Z.max (v_csz v) (v_csz alt)) 4); lia. }
  assert (Hgne : greg (v_cur v) <> greg (v_out v)). { intros E. apply greg_inj in E. contradiction. }
  split; [rewrite !set_nth_length; assumption|]. split.
  - eapply cur_inj_swap; try eassumption; cbn [upd_cur v_cur]; congruence.
  - intros k u0 u Hu0 Hu. rewrite exec_snoc. cbn [exec_inst]. set (st := exec emit st0) in *.
    rewrite nth_set2 in Hu by assumption.
    destruct (Nat.eq_dec k j) as [Ekj | Ekj]; [| destruct (Nat.eq_dec k i) as [Eki | Eki]].
    + (* alt, now in the old register of v *)
      subst k. inversion Hu; subst u. clear Hu. assert (u0 = a0) by congruence. subst u0.
      unfold vrel. cbn [upd_cur v_out v_osz v_osg v_done v_cur v_csz v_csg]. rewrite upd_same.
      split; [assumption|]. split; [assumption|]. split; [assumption|]. split.
      * intros Hdt. destruct (Hda Hdt) as [H1 H2]. split; [congruence | assumption].
      * apply (val_rel_low a0 alt _ (st (greg (v_cur alt)))); try assumption; try reflexivity.
        rewrite Eca. pose proof (sz_ok_range _ Sca). apply xchg_low; lia.
    + (* v, now in its destination register *)
      subst k. inversion Hu; subst u. clear Hu. assert (u0 = v0) by congruence. subst u0.
      unfold vrel. cbn [upd_cur v_out v_osz v_osg v_done v_cur v_csz v_csg].
      rewrite upd_other by (intros E; apply Hgne; symmetry; exact E). rewrite upd_same.
      split; [assumption|]. split; [assumption|]. split; [assumption|]. split.
      * intros Hdt. split; [reflexivity | apply Hdv; assumption].
      * apply (val_rel_low v0 v _ (st (greg (v_cur v)))); try assumption; try reflexivity.
        pose proof (sz_ok_range _ Scv). apply xchg_low; lia.
    + apply (vrel_ext st); [| apply Hrel with k; assumption].
      rewrite !upd_greg_ne; [reflexivity | |].
      * intros E. apply Ekj. apply (Hinj k j u alt Hu Ha). congruence.
      * intros E. apply Eki. apply (Hinj k i u v Hu Hv). congruence.
Qed.

Lemma step_inv s i s' : step_spec t work s i s' -> inv (s_vars s) (s_emit s) -> inv (s_vars s') (s_emit s').
Proof.
  intros Hs Hinv. destruct Hs as [Hn | v Hv Hd | v Hv Hd Hc | v j alt Hv Hd Has Hne Hf Ha Eca Hm Hsw
    | v j alt sc Hv Hd Has Hne Hf Ha Eca Hm Hsw Hsc | v j alt Hv Hd Has Hne Hf Ha Eca Hm Hsw Hsc | v j alt Hv Hd Has Hne Hf Ha Eca Hm];
    cbn [s_vars s_emit]; try assumption.
  - apply inv_conv_move; try assumption; [| reflexivity].
    intros k u Hk Hu E. apply orb_prop in Hc. destruct Hc as [Hc | Hc].
    + apply negb_true_iff in Hc. exact (assigned_false _ _ _ _ Hc Hu E).
    + apply Z.eqb_eq in Hc. apply Hk. destruct Hinv as [_ [Hinj _]]. apply (Hinj k i u v Hu Hv). congruence.
  - apply inv_xchg; try assumption.
    + unfold needs_ext. intros H. apply negb_true_iff in H. apply Z.ltb_ge in H. assumption.
    + unfold needs_ext. intros H. apply andb_prop in H. destruct H as [H1 H2]. apply Z.eqb_eq in H1.
      apply negb_true_iff in H2. apply Z.ltb_ge in H2. split; assumption.
  - apply inv_conv_move; try assumption; [| discriminate].
    intros k u Hk Hu. apply scratch_choice_some in Hsc. destruct Hsc as [_ Hsc]. exact (assigned_false _ _ _ _ Hsc Hu).
Qed.

End Inv.

(* ---------------------------------------------------------------------------------------------- *)
(* well-formed input *)

Definition var_ok (v : svar) : Prop :=
  sz_ok (v_csz v) /\ sz_ok (v_osz v) /\ v_done v = (v_cur v =? v_out v) && (v_osz v <=? v_csz v).
Definition var_okb (v : svar) : bool :=
  sz_okb (v_csz v) && sz_okb (v_osz v) && Bool.eqb (v_done v) ((v_cur v =? v_out v) && (v_osz v <=? v_csz v)).

Fixpoint nodupb (l : list Z) : bool :=
  match l with [] => true | a :: r => negb (existsb (Z.eqb a) r) && nodupb r end.

(* every size in {1,2,4,8}; the done flags as set by init_var; current registers pairwise distinct; destination registers
   pairwise distinct.  (Nothing is required of the scratch candidates [work].) *)
Definition wf_input (work : list Z) (vs : list svar) : Prop :=
  Forall var_ok vs /\ NoDup (map v_cur vs) /\ NoDup (map v_out vs).
Definition wf_inputb (work : list Z) (vs : list svar) : bool :=
  forallb var_okb vs && nodupb (map v_cur vs) && nodupb (map v_out vs).

Lemma var_okb_spec v : var_okb v = true <-> var_ok v.
Proof.
  unfold var_okb, var_ok. rewrite !andb_true_iff, !sz_okb_spec, Bool.eqb_true_iff. tauto.
Qed.

Lemma nodupb_spec l : nodupb l = true <-> NoDup l.
Proof.
  induction l as [| a r IH]; cbn [nodupb].
  - split; [constructor | reflexivity].
  - rewrite andb_true_iff, negb_true_iff, IH. split.
    + intros [H1 H2]. constructor; [| assumption]. intros Hin.
      assert (existsb (Z.eqb a) r = true) by (apply existsb_exists; exists a; split; [assumption | apply Z.eqb_refl]). congruence.
    + intros H. inversion H; subst. split; [| assumption].
      destruct (existsb (Z.eqb a) r) eqn:E; [| reflexivity]. apply existsb_exists in E. destruct E as [x [Hx E]].
      apply Z.eqb_eq in E. subst x. contradiction.
Qed.

Lemma wf_inputb_spec work vs : wf_inputb work vs = true <-> wf_input work vs.
Proof.
  unfold wf_inputb, wf_input. rewrite !andb_true_iff, !nodupb_spec, forallb_forall, Forall_forall.
  split.
  - intros [[H1 H2] H3]. split; [| tauto]. intros v Hv. apply var_okb_spec. auto.
  - intros [H1 [H2 H3]]. split; [split |]; try assumption. intros v Hv. apply var_okb_spec. auto.
Qed.

Lemma NoDup_map_inj (f : svar -> Z) vs : NoDup (map f vs) ->
  forall i j vi vj, nth_error vs i = Some vi -> nth_error vs j = Some vj -> f vi = f vj -> i = j.
Proof.
  intros Hnd i j vi vj Hi Hj E. rewrite NoDup_nth_error in Hnd. apply Hnd.
  - rewrite map_length. eapply nth_error_lt; eassumption.
  - rewrite (map_nth_error f _ _ Hi), (map_nth_error f _ _ Hj). congruence.
Qed.

Lemma wf_sizes work vs : wf_input work vs -> forall i v0, nth_error vs i = Some v0 -> sz_ok (v_csz v0) /\ sz_ok (v_osz v0).
Proof.
  intros [H _] i v0 Hi. rewrite Forall_forall in H. apply nth_error_In in Hi. destruct (H v0 Hi) as [H1 [H2 _]]. tauto.
Qed.

Lemma wf_inv work vs st0 : wf_input work vs -> inv vs st0 vs [].
Proof.
  intros [Hok [Hc Ho]]. split; [reflexivity|]. split; [exact (NoDup_map_inj v_cur vs Hc)|].
  intros i v0 v H0 Hv. assert (v = v0) by congruence. subst v. unfold vrel.
  repeat (split; [reflexivity|]). split.
  - rewrite Forall_forall in Hok. destruct (Hok v0 (nth_error_In _ _ Hv)) as [_ [_ Hd]]. rewrite Hd. intros H.
    apply andb_prop in H. destruct H as [H1 H2]. apply Z.eqb_eq in H1. apply Z.leb_le in H2. tauto.
  - left. repeat split; reflexivity.
Qed.

(* ---------------------------------------------------------------------------------------------- *)
(* passes and the outer loop *)

Section Loop.
Variable t : starget.
Variable work : list Z.

Lemma fold_step_inv (P : sstate -> Prop) :
  (forall s i, P s -> P (step_var t work s i)) -> forall l s, P s -> P (fold_left (step_var t work) l s).
Proof. intros H l. induction l as [| i r IH]; intros s Hs; cbn [fold_left]; [assumption | apply IH, H, Hs]. Qed.

Definition done_at (s : sstate) (k : nat) : Prop := forall v, nth_error (s_vars s) k = Some v -> v_done v = true.

Lemma step_pending s i s' : step_spec t work s i s' -> s_pending s' = false ->
  s_pending s = false /\ (forall k, done_at s k -> done_at s' k) /\ done_at s' i.
Proof.
  intros Hs Hp. destruct Hs as [Hn | v Hv Hd | v Hv Hd Hc | v j alt Hv Hd Has Hne Hf Ha Eca Hm Hsw
    | v j alt sc Hv Hd Has Hne Hf Ha Eca Hm Hsw Hsc | v j alt Hv Hd Has Hne Hf Ha Eca Hm Hsw Hsc | v j alt Hv Hd Has Hne Hf Ha Eca Hm];
    cbn [s_pending] in Hp; try discriminate.
  - split; [assumption|]. split; [tauto|]. intros v Hv. congruence.
  - split; [assumption|]. split; [tauto|]. intros v' Hv'. congruence.
  - cbv zeta in Hp. apply orb_false_elim in Hp. destruct Hp as [Hp H3]. apply orb_false_elim in Hp. destruct Hp as [H1 H2].
    apply negb_false_iff in H3.
    pose proof (nth_error_lt _ _ _ Hv) as Hi. pose proof (nth_error_lt _ _ _ Ha) as Hj.
    assert (Hij : i <> j). { intros E. subst j. assert (alt = v) by congruence. subst alt. congruence. }
    split; [assumption|]. unfold done_at. cbn [s_vars]. split.
    + intros k Hk u Hu. rewrite nth_set2 in Hu by assumption.
      destruct (Nat.eq_dec k j); [| destruct (Nat.eq_dec k i)].
      * inversion Hu; subst u. cbn [upd_cur v_done]. assumption.
      * inversion Hu; subst u. cbn [upd_cur v_done]. rewrite H2. reflexivity.
      * apply Hk. assumption.
    + intros u Hu. rewrite nth_set2 in Hu by assumption.
      destruct (Nat.eq_dec i j); [contradiction|]. destruct (Nat.eq_dec i i); [| contradiction].
      inversion Hu; subst u. cbn [upd_cur v_done]. rewrite H2. reflexivity.
Qed.

Lemma fold_pending l : forall s, s_pending (fold_left (step_var t work) l s) = false ->
  s_pending s = false /\ (forall k, done_at s k -> done_at (fold_left (step_var t work) l s) k) /\
  forall i, In i l -> done_at (fold_left (step_var t work) l s) i.
Proof.
  induction l as [| i r IH]; intros s Hp; cbn [fold_left] in *.
  - split; [assumption|]. split; [tauto|]. intros i [].
  - destruct (IH _ Hp) as [H1 [H2 H3]].
    destruct (step_pending s i _ (step_var_spec t work s i) H1) as [G1 [G2 G3]].
    split; [assumption|]. split; [intros k Hk; apply H2, G2, Hk|].
    intros k [E | Hin]; [subst k; apply H2, G3 | apply H3, Hin].
Qed.

Lemma pass_pending s : s_pending (pass t work s) = false -> forall k, done_at (pass t work s) k.
Proof.
  intros Hp k. unfold pass in *. destruct (fold_pending _ _ Hp) as [_ [H2 H3]].
  destruct (Nat.lt_ge_cases k (length (s_vars s))) as [Hk | Hk].
  - apply H3. apply in_seq. lia.
  - apply H2. intros v Hv. apply nth_error_lt in Hv. lia.
Qed.

Variable vs0 : list svar.
Variable st0 : state.
Hypothesis Hsz0 : forall i v0, nth_error vs0 i = Some v0 -> sz_ok (v_csz v0) /\ sz_ok (v_osz v0).

Lemma pass_inv s : inv vs0 st0 (s_vars s) (s_emit s) -> inv vs0 st0 (s_vars (pass t work s)) (s_emit (pass t work s)).
Proof.
  unfold pass. apply (fold_step_inv (fun s => inv vs0 st0 (s_vars s) (s_emit s))).
  intros s1 i H. eapply step_inv; [exact Hsz0 | apply step_var_spec | assumption].
Qed.

Lemma vrel_done_ok st i v0 v : nth_error vs0 i = Some v0 -> vrel st0 st v0 v -> v_done v = true ->
  dst_ok (move_of v0) (st0 (greg (v_cur v0))) (st (greg (v_out v0))).
Proof.
  intros H0 [Ro [Rz [Rg [Rd Rv]]]] Hd. destruct (Rd Hd) as [Ec Hle]. rewrite <- Ro, <- Ec.
  destruct (Hsz0 i v0 H0) as [Sc So]. pose proof (sz_ok_range _ Sc). pose proof (sz_ok_range _ So).
  destruct Rv as [[E1 [E2 E3]] | [E1 [E2 E3]]]; [| assumption].
  unfold dst_ok, move_of. cbn [m_int m_sbits m_dbits m_ssigned].
  destruct (Z.ltb_spec (8 * v_csz v0) (8 * v_osz v0)); [lia|]. rewrite andb_false_r.
  rewrite Z.min_r by lia.
  rewrite <- (mod_mod_pow2 (st (greg (v_cur v))) (8 * v_osz v0) (8 * v_csz v0)) by lia. rewrite E3.
  apply mod_mod_pow2; lia.
Qed.

Lemma solve_loop_ok fuel : forall vs emit p ms, inv vs0 st0 vs emit -> solve_loop t work fuel vs emit p = SOk ms ->
  exists vars, inv vs0 st0 vars ms /\ forall k v, nth_error vars k = Some v -> v_done v = true.
Proof.
  induction fuel as [| f IH]; intros vs emit p ms Hinv H; cbn [solve_loop] in H; [discriminate|].
  set (s := pass t work (mkS vs emit false false p)) in *.
  assert (Hs : inv vs0 st0 (s_vars s) (s_emit s)) by (apply pass_inv; assumption).
  destruct (negb (s_pending s)) eqn:Hp.
  - inversion H; subst ms. exists (s_vars s). split; [assumption|]. apply negb_true_iff in Hp.
    intros k v Hv. exact (pass_pending _ Hp k v Hv).
  - destruct (negb (s_did s) && s_postponed s); [discriminate|]. eapply IH; eassumption.
Qed.

End Loop.

(* ---------------------------------------------------------------------------------------------- *)
(* 1. semantic correctness *)

Theorem solve_correct : forall t work vs0 ms, wf_input work vs0 -> solve t work vs0 = SOk ms ->
  forall st0 v0, In v0 vs0 -> dst_ok (move_of v0) (st0 (greg (v_cur v0))) (exec ms st0 (greg (v_out v0))).
Proof.
  intros t work vs0 ms Hwf Hs st0 v0 Hin. unfold solve in Hs.
  pose proof (wf_sizes work vs0 Hwf) as Hsz.
  destruct (solve_loop_ok t work vs0 st0 Hsz _ _ _ _ _ (wf_inv work vs0 st0 Hwf) Hs) as [vars [[Hlen [_ Hrel]] Hdone]].
  apply In_nth_error in Hin. destruct Hin as [i Hi].
  destruct (nth_error vars i) as [v |] eqn:Hv.
  - exact (vrel_done_ok vs0 st0 Hsz (exec ms st0) i v0 v Hi (Hrel i v0 v Hi Hv) (Hdone i v Hv)).
  - apply nth_error_None in Hv. apply nth_error_lt in Hi. lia.
Qed.

(* ---------------------------------------------------------------------------------------------- *)
(* blocked states (what a pass that did nothing leaves behind), the pigeonhole argument, frame *)

Lemma inj_NoDup (f : svar -> Z) vs :
  (forall i j vi vj, nth_error vs i = Some vi -> nth_error vs j = Some vj -> f vi = f vj -> i = j) -> NoDup (map f vs).
Proof.
  intros H. apply NoDup_nth_error. intros i j Hi E. rewrite map_length in Hi. rewrite !nth_error_map in E.
  destruct (nth_error vs i) as [vi |] eqn:Ei; [| apply nth_error_None in Ei; lia].
  destruct (nth_error vs j) as [vj |] eqn:Ej; cbn [option_map] in E; [| discriminate].
  inversion E. eapply H; eassumption.
Qed.

Lemma NoDup_map_filter (f : svar -> Z) g vs : NoDup (map f vs) -> NoDup (map f (filter g vs)).
Proof.
  induction vs as [| a r IH]; cbn [map filter]; [auto|]. intros H. inversion H; subst.
  destruct (g a); cbn [map]; [constructor |]; auto.
  intros Hin. apply H2. apply in_map_iff in Hin. destruct Hin as [x [E Hx]]. apply filter_In in Hx.
  apply in_map_iff. exists x. tauto.
Qed.

Section Blocked.
Variable t : starget.
Variable work : list Z.
Variable vs0 : list svar.
Variable st0 : state.
Hypothesis Hsz0 : forall i v0, nth_error vs0 i = Some v0 -> sz_ok (v_csz v0) /\ sz_ok (v_osz v0).
Hypothesis Hout0 : out_inj vs0.

Lemma inv_orig vars emit i v : inv vs0 st0 vars emit -> nth_error vars i = Some v ->
  exists v0, nth_error vs0 i = Some v0 /\ vrel st0 (exec emit st0) v0 v.
Proof.
  intros [Hlen [_ Hrel]] Hv. pose proof (nth_error_lt _ _ _ Hv) as Hi.
  destruct (nth_error vs0 i) as [v0 |] eqn:Hv0; [| apply nth_error_None in Hv0; lia].
  exists v0. split; [reflexivity | apply Hrel with i; assumption].
Qed.

Lemma inv_out_inj vars emit : inv vs0 st0 vars emit -> out_inj vars.
Proof.
  intros Hinv i j vi vj Hi Hj E.
  destruct (inv_orig _ _ _ _ Hinv Hi) as [a [Ha [Ea _]]]. destruct (inv_orig _ _ _ _ Hinv Hj) as [b [Hb [Eb _]]].
  apply (Hout0 i j a b Ha Hb). congruence.
Qed.

Lemma inv_done_cur vars emit i v : inv vs0 st0 vars emit -> nth_error vars i = Some v -> v_done v = true -> v_cur v = v_out v.
Proof.
  intros Hinv Hv Hd. destruct (inv_orig _ _ _ _ Hinv Hv) as [a [_ [_ [_ [_ [H _]]]]]]. apply H. assumption.
Qed.

(* the variable sitting in the destination of a not-yet-placed variable is itself not done *)
Lemma alt_not_done vars emit i j v alt : inv vs0 st0 vars emit ->
  nth_error vars i = Some v -> nth_error vars j = Some alt -> v_cur alt = v_out v -> v_cur v <> v_out v -> v_done alt = false.
Proof.
  intros Hinv Hv Ha Eca Hne. destruct (v_done alt) eqn:Hd; [| reflexivity]. exfalso.
  pose proof (inv_done_cur _ _ _ _ Hinv Ha Hd) as E.
  assert (j = i) by (apply (inv_out_inj _ _ Hinv j i alt v Ha Hv); congruence). subst j.
  assert (alt = v) by congruence. subst alt. congruence.
Qed.

Definition all_blocked (vs : list svar) : Prop :=
  forall i v, nth_error vs i = Some v -> v_done v = false ->
    assigned vs (v_out v) = true /\ v_cur v <> v_out v /\
    (forall j alt, find_at vs (v_out v) O = Some j -> nth_error vs j = Some alt ->
       (v_out alt =? v_cur v) = false \/ (has_swap t = false /\ scratch_choice work vs = None)).

(* pigeonhole: in a blocked state the register of every unfinished variable is the destination of an unfinished variable *)
Lemma blocked_cur_is_out vars emit : inv vs0 st0 vars emit -> all_blocked vars ->
  forall i v, nth_error vars i = Some v -> v_done v = false ->
  exists k u, nth_error vars k = Some u /\ v_done u = false /\ v_out u = v_cur v.
Proof.
  intros Hinv Hb i v Hv Hd.
  set (nd := filter (fun v => negb (v_done v)) vars).
  assert (Hnd : NoDup (map v_out nd)).
  { apply NoDup_map_filter. apply inj_NoDup. exact (inv_out_inj _ _ Hinv). }
  assert (Hincl : incl (map v_out nd) (map v_cur nd)).
  { intros x Hx. apply in_map_iff in Hx. destruct Hx as [u [Eu Hu]]. apply filter_In in Hu. destruct Hu as [Hu Hud].
    apply negb_true_iff in Hud. apply In_nth_error in Hu. destruct Hu as [k Hk].
    destruct (Hb k u Hk Hud) as [Has [Hne _]]. apply assigned_true in Has. destruct Has as [j [alt [Hj Eca]]].
    pose proof (alt_not_done _ _ _ _ _ _ Hinv Hk Hj Eca Hne) as Had.
    apply in_map_iff. exists alt. split; [congruence|]. apply filter_In. split; [eapply nth_error_In; eassumption|].
    rewrite Had. reflexivity. }
  assert (Hincl2 : incl (map v_cur nd) (map v_out nd)).
  { apply NoDup_length_incl; [assumption | rewrite !map_length; lia | assumption]. }
  assert (Hin : In (v_cur v) (map v_cur nd)).
  { apply in_map. apply filter_In. split; [eapply nth_error_In; eassumption | rewrite Hd; reflexivity]. }
  apply Hincl2 in Hin. apply in_map_iff in Hin. destruct Hin as [u [Eu Hu]]. apply filter_In in Hu. destruct Hu as [Hu Hud].
  apply negb_true_iff in Hud. apply In_nth_error in Hu. destruct Hu as [k Hk]. exists k, u. tauto.
Qed.

(* frame *)
Definition allowed (l : loc) : Prop := In l (map (fun v => greg (v_out v)) vs0) \/ In l (map greg work).
Definition wr_ok (i : minst) : Prop := forall l, In l (inst_writes i) -> allowed l.

Lemma conv_move_writes d s csz csg osz osg : inst_writes (conv_move t d s csz csg osz osg) = [greg d].
Proof. rewrite conv_move_eq. destruct (cm_params t csz csg osz osg) as [[[e n] w] wz]. reflexivity. Qed.

Lemma out_allowed vars emit i v : inv vs0 st0 vars emit -> nth_error vars i = Some v -> allowed (greg (v_out v)).
Proof.
  intros Hinv Hv. destruct (inv_orig _ _ _ _ Hinv Hv) as [a [Ha [Ea _]]]. left. rewrite Ea.
  apply (in_map (fun v => greg (v_out v))). eapply nth_error_In; eassumption.
Qed.

Definition pinv (s : sstate) : Prop :=
  inv vs0 st0 (s_vars s) (s_emit s) /\
  (s_postponed s = true -> all_blocked (s_vars s)) /\
  Forall wr_ok (s_emit s).

Lemma step_pinv s i s' : step_spec t work s i s' -> pinv s -> pinv s'.
Proof.
  intros Hs [Hinv [Hblk Hfr]].
  assert (Hinv' : inv vs0 st0 (s_vars s') (s_emit s')) by (eapply step_inv; eassumption).
  split; [assumption|]. clear Hinv'.
  destruct Hs as [Hn | v Hv Hd | v Hv Hd Hc | v j alt Hv Hd Has Hne Hf Ha Eca Hm Hsw
    | v j alt sc Hv Hd Has Hne Hf Ha Eca Hm Hsw Hsc | v j alt Hv Hd Has Hne Hf Ha Eca Hm Hsw Hsc | v j alt Hv Hd Has Hne Hf Ha Eca Hm];
    cbn [s_vars s_emit s_postponed]; try (split; assumption).
  - (* move *) split.
    + intros Hp. exfalso. destruct (Hblk Hp i v Hv Hd) as [B1 [B2 _]]. rewrite B1 in Hc. cbn [negb orb] in Hc.
      apply Z.eqb_eq in Hc. contradiction.
    + apply Forall_app. split; [assumption|]. constructor; [| constructor]. intros l Hl. rewrite conv_move_writes in Hl.
      destruct Hl as [E | []]. subst l. eapply out_allowed; eassumption.
  - (* exchange *) cbv zeta. split.
    + intros Hp. exfalso. destruct (s_postponed s) eqn:Hps.
      * destruct (Hblk eq_refl i v Hv Hd) as [_ [_ B3]]. destruct (B3 j alt Hf Ha) as [B3' | [B3' _]]; [| congruence].
        rewrite B3' in Hm, Hp. cbn [orb] in Hm. rewrite Hm in Hp. cbn in Hp. discriminate.
      * cbn in Hp. discriminate.
    + apply Forall_app. split; [assumption|]. constructor; [| constructor]. intros l Hl. cbn [inst_writes In] in Hl.
      destruct Hl as [E | [E | []]]; subst l; [eapply out_allowed; eassumption|].
      destruct (Z.eqb_spec (v_out alt) (v_cur v)) as [Em | Em].
      * rewrite <- Em. eapply out_allowed; eassumption.
      * cbn [orb] in Hm. apply andb_prop in Hm. destruct Hm as [Hp _].
        destruct (blocked_cur_is_out _ _ Hinv (Hblk Hp) i v Hv Hd) as [k [u [Hk [_ Eu]]]].
        rewrite <- Eu. eapply out_allowed; eassumption.
  - (* scratch *) cbv zeta. split.
    + intros Hp. exfalso. destruct (s_postponed s) eqn:Hps.
      * destruct (Hblk eq_refl i v Hv Hd) as [_ [_ B3]]. destruct (B3 j alt Hf Ha) as [B3' | [_ B3']]; [| congruence].
        rewrite B3' in Hm, Hp. cbn [orb] in Hm. rewrite Hm in Hp. cbn in Hp. discriminate.
      * cbn in Hp. discriminate.
    + apply Forall_app. split; [assumption|]. constructor; [| constructor]. intros l Hl. rewrite conv_move_writes in Hl.
      destruct Hl as [E | []]. subst l. right. apply in_map. apply (scratch_choice_some work _ _ Hsc).
Qed.

Lemma pass_pinv s : pinv s -> pinv (pass t work s).
Proof.
  unfold pass. apply (fold_step_inv t work pinv). intros s1 i H. eapply step_pinv; [apply step_var_spec | assumption].
Qed.

End Blocked.

(* ---------------------------------------------------------------------------------------------- *)
(* passes that do nothing; the loop invariant *)

Lemma forallb_false {A} (f : A -> bool) l : forallb f l = false -> exists x, In x l /\ f x = false.
Proof.
  induction l as [| a r IH]; cbn [forallb]; [discriminate|]. destruct (f a) eqn:E.
  - cbn [andb]. intros H. destruct (IH H) as [x [H1 H2]]. exists x. split; [right; assumption | assumption].
  - intros _. exists a. split; [left; reflexivity | assumption].
Qed.

Section LoopInv.
Variable t : starget.
Variable work : list Z.
Variable vs0 : list svar.
Variable st0 : state.
Hypothesis Hsz0 : forall i v0, nth_error vs0 i = Some v0 -> sz_ok (v_csz v0) /\ sz_ok (v_osz v0).
Hypothesis Hout0 : out_inj vs0.

Definition blocked_at (vs : list svar) (p : bool) (i : nat) : Prop :=
  forall v, nth_error vs i = Some v -> v_done v = false ->
    assigned vs (v_out v) = true /\ v_cur v <> v_out v /\
    exists j alt, find_at vs (v_out v) O = Some j /\ nth_error vs j = Some alt /\ v_cur alt = v_out v /\
      (((v_out alt =? v_cur v) || (p && negb (v_done alt)) = false) \/ (has_swap t = false /\ scratch_choice work vs = None)).

Lemma step_noact s i s' : step_spec t work s i s' -> s_did s' = false ->
  s_vars s' = s_vars s /\ s_emit s' = s_emit s /\ s_postponed s' = s_postponed s /\ s_did s = false /\
  blocked_at (s_vars s) (s_postponed s) i.
Proof.
  intros Hs Hdid. destruct Hs as [Hn | v Hv Hd | v Hv Hd Hc | v j alt Hv Hd Has Hne Hf Ha Eca Hm Hsw
    | v j alt sc Hv Hd Has Hne Hf Ha Eca Hm Hsw Hsc | v j alt Hv Hd Has Hne Hf Ha Eca Hm Hsw Hsc | v j alt Hv Hd Has Hne Hf Ha Eca Hm];
    cbn [s_did s_vars s_emit s_postponed] in *; try discriminate; repeat (split; [reflexivity || assumption|]).
  - intros v Hv. congruence.
  - intros v' Hv' Hd'. congruence.
  - intros v' Hv' _. assert (v' = v) by congruence. subst v'. split; [assumption|]. split; [assumption|].
    exists j, alt. repeat (split; [assumption|]). right. split; assumption.
  - intros v' Hv' _. assert (v' = v) by congruence. subst v'. split; [assumption|]. split; [assumption|].
    exists j, alt. repeat (split; [assumption|]). left. assumption.
Qed.

Lemma fold_noact l : forall s, s_did (fold_left (step_var t work) l s) = false ->
  s_vars (fold_left (step_var t work) l s) = s_vars s /\ s_emit (fold_left (step_var t work) l s) = s_emit s /\
  s_postponed (fold_left (step_var t work) l s) = s_postponed s /\ s_did s = false /\
  forall i, In i l -> blocked_at (s_vars s) (s_postponed s) i.
Proof.
  induction l as [| i r IH]; intros s H; cbn [fold_left] in *.
  - repeat (split; [reflexivity || assumption|]). intros i [].
  - destruct (IH _ H) as [H1 [H2 [H3 [H4 H5]]]].
    destruct (step_noact s i _ (step_var_spec t work s i) H4) as [G1 [G2 [G3 [G4 G5]]]].
    rewrite H1, H2, H3, G1, G2, G3. repeat (split; [reflexivity || assumption|]).
    intros k [E | Hin]; [subst k; assumption|]. rewrite <- G1, <- G3. apply H5. assumption.
Qed.

Lemma pass_noact s : s_did (pass t work s) = false ->
  s_vars (pass t work s) = s_vars s /\ s_emit (pass t work s) = s_emit s /\
  s_postponed (pass t work s) = s_postponed s /\ forall i, blocked_at (s_vars s) (s_postponed s) i.
Proof.
  unfold pass. intros H. destruct (fold_noact _ _ H) as [H1 [H2 [H3 [_ H5]]]]. repeat (split; [assumption|]).
  intros i. destruct (Nat.lt_ge_cases i (length (s_vars s))) as [Hi | Hi].
  - apply H5. apply in_seq. lia.
  - intros v Hv. apply nth_error_lt in Hv. lia.
Qed.

Lemma step_all_done s i : (forall k, done_at s k) -> step_var t work s i = s.
Proof.
  intros H. unfold step_var. destruct (nth_error (s_vars s) i) as [v |] eqn:Hv; [| reflexivity].
  rewrite (H i v Hv). reflexivity.
Qed.

Lemma pass_all_done s : (forall k, done_at s k) -> pass t work s = s.
Proof.
  unfold pass. generalize (seq 0 (length (s_vars s))). intros l H. induction l as [| i r IH]; cbn [fold_left]; [reflexivity|].
  rewrite step_all_done by assumption. assumption.
Qed.

Lemma pending_not_all_done vs emit p :
  s_pending (pass t work (mkS vs emit false false p)) = true -> exists i v, nth_error vs i = Some v /\ v_done v = false.
Proof.
  intros H. destruct (forallb v_done vs) eqn:E.
  - rewrite pass_all_done in H; [discriminate|]. intros k v Hv. cbn [s_vars] in Hv.
    rewrite forallb_forall in E. apply E. eapply nth_error_In; eassumption.
  - apply forallb_false in E. destruct E as [v [Hin Hd]]. apply In_nth_error in Hin. destruct Hin as [i Hi]. exists i, v. tauto.
Qed.

Definition linv (vs : list svar) (emit : list minst) (p : bool) : Prop :=
  inv vs0 st0 vs emit /\ (p = true -> all_blocked t work vs) /\ Forall (wr_ok work vs0) emit.

Lemma blocked_at_all vs p : (forall i, blocked_at vs p i) -> all_blocked t work vs.
Proof.
  intros H i v Hv Hd. destruct (H i v Hv Hd) as [H1 [H2 [j [alt [Hf [Ha [Eca Hor]]]]]]].
  split; [assumption|]. split; [assumption|]. intros j' alt' Hf' Ha'.
  assert (j' = j) by congruence. subst j'. assert (alt' = alt) by congruence. subst alt'.
  destruct Hor as [Hor | Hor]; [left | right; assumption]. apply orb_false_elim in Hor. tauto.
Qed.

Lemma pass_linv vs emit p : linv vs emit p ->
  linv (s_vars (pass t work (mkS vs emit false false p))) (s_emit (pass t work (mkS vs emit false false p)))
       (negb (s_did (pass t work (mkS vs emit false false p)))).
Proof.
  intros [Hinv [Hb Hfr]].
  assert (Hp : pinv t work vs0 st0 (mkS vs emit false false p)).
  { split; [assumption|]. split; [| assumption]. cbn [s_postponed s_vars]. intros Hp. apply Hb. assumption. }
  apply (pass_pinv t work vs0 st0 Hsz0 Hout0) in Hp. destruct Hp as [H1 [_ H3]].
  split; [assumption|]. split; [| assumption].
  intros Hd. apply negb_true_iff in Hd. destruct (pass_noact _ Hd) as [G1 [_ [_ G4]]]. cbn [s_vars s_postponed] in *.
  rewrite G1. eapply blocked_at_all. eassumption.
Qed.

(* frame, along the loop *)
Lemma solve_loop_frame fuel : forall vs emit p ms, linv vs emit p -> solve_loop t work fuel vs emit p = SOk ms ->
  Forall (wr_ok work vs0) ms.
Proof.
  induction fuel as [| f IH]; intros vs emit p ms Hl H; cbn [solve_loop] in H; [discriminate|].
  pose proof (pass_linv vs emit p Hl) as Hl'.
  set (s := pass t work (mkS vs emit false false p)) in *.
  destruct (negb (s_pending s)).
  - inversion H; subst ms. destruct Hl' as [_ [_ Hfr]]. assumption.
  - destruct (negb (s_did s) && s_postponed s); [discriminate|]. eapply IH; eassumption.
Qed.

(* progress with a swap instruction: the pass after a pass that did nothing does something *)
Lemma solve_loop_noerr fuel : has_swap t = true -> forall vs emit p, linv vs emit p -> solve_loop t work fuel vs emit p <> SErr.
Proof.
  intros Hsw. induction fuel as [| f IH]; intros vs emit p Hl; cbn [solve_loop]; [discriminate|].
  pose proof (pass_linv vs emit p Hl) as Hl'.
  destruct (negb (s_pending (pass t work (mkS vs emit false false p)))) eqn:Hpe; [discriminate|].
  destruct (negb (s_did (pass t work (mkS vs emit false false p))) && s_postponed (pass t work (mkS vs emit false false p))) eqn:Hc.
  - exfalso. apply andb_prop in Hc. destruct Hc as [Hd Hp]. apply negb_true_iff in Hd. apply negb_false_iff in Hpe.
    destruct (pass_noact _ Hd) as [_ [_ [G3 G4]]]. cbn [s_vars s_postponed] in *. rewrite G3 in Hp. subst p.
    destruct (pending_not_all_done _ _ _ Hpe) as [i [v [Hv Hnd]]].
    destruct (G4 i v Hv Hnd) as [_ [Hne [j [alt [Hf [Ha [Eca Hor]]]]]]].
    destruct Hl as [Hinv _].
    pose proof (alt_not_done vs0 st0 Hout0 _ _ _ _ _ _ Hinv Hv Ha Eca Hne) as Had.
    destruct Hor as [Hor | [Hor _]]; [| congruence]. rewrite Had in Hor. cbn in Hor. rewrite orb_true_r in Hor. discriminate.
  - apply IH. assumption.
Qed.

End LoopInv.

Lemma wf_out_inj work vs : wf_input work vs -> out_inj vs.
Proof. intros [_ [_ Ho]]. exact (NoDup_map_inj v_out vs Ho). Qed.

Lemma wf_linv t work vs st0 : wf_input work vs -> linv t work vs st0 vs [] false.
Proof. intros H. split; [apply wf_inv with work; assumption|]. split; [discriminate | constructor]. Qed.

(* ---------------------------------------------------------------------------------------------- *)
(* 2. frame *)

Theorem solve_writes : forall t work vs0 ms, wf_input work vs0 -> solve t work vs0 = SOk ms ->
  forall l, In l (writes ms) -> In l (map (fun v => greg (v_out v)) vs0) \/ In l (map greg work).
Proof.
  intros t work vs0 ms Hwf Hs l Hl. unfold solve in Hs.
  pose proof (solve_loop_frame t work vs0 (fun _ => 0) (wf_sizes work vs0 Hwf) (wf_out_inj work vs0 Hwf) _ _ _ _ _
                (wf_linv t work vs0 _ Hwf) Hs) as Hfr.
  unfold writes in Hl. apply in_flat_map in Hl. destruct Hl as [i [Hi Hw]].
  rewrite Forall_forall in Hfr. exact (Hfr i Hi l Hw).
Qed.

Theorem solve_frame : forall t work vs0 ms, wf_input work vs0 -> solve t work vs0 = SOk ms ->
  forall st0 l, (forall v0, In v0 vs0 -> l <> greg (v_out v0)) -> (forall r, In r work -> l <> greg r) -> exec ms st0 l = st0 l.
Proof.
  intros t work vs0 ms Hwf Hs st0 l H1 H2. apply exec_frame. intros Hin.
  destruct (solve_writes t work vs0 ms Hwf Hs l Hin) as [H | H]; apply in_map_iff in H; destruct H as [x [E Hx]].
  - exact (H1 x Hx (eq_sym E)).
  - exact (H2 x Hx (eq_sym E)).
Qed.

(* ---------------------------------------------------------------------------------------------- *)
(* 4. progress for x86-64: with a swap instruction every assignment is solved *)

Theorem solve_x64_no_error : forall work vs0, wf_input work vs0 -> solve TX64 work vs0 <> SErr.
Proof.
  intros work vs0 Hwf. unfold solve.
  apply (solve_loop_noerr TX64 work vs0 (fun _ => 0) (wf_sizes work vs0 Hwf) (wf_out_inj work vs0 Hwf) _ eq_refl).
  apply wf_linv. assumption.
Qed.

(* ---------------------------------------------------------------------------------------------- *)
(* 3. termination.  A pass that did nothing is followed by a pass that does something or ends the loop; every pass that does
   something strictly decreases a measure bounded by 2 * n:
   - x86-64: the weight W (2 for a variable that is not in its destination register, 1 for one that is but still has to be
     extended, 0 when done);
   - AArch64: (number of unfinished variables) + (number of unfinished variables that are not "free-ending", i.e. whose chain
     destination -> occupant -> its destination ... does not reach a free register): a move into the destination finishes a
     variable and keeps the others free-ending, a move into a scratch register opens a cycle. *)

Fixpoint wsum (g : svar -> nat) (vs : list svar) : nat := match vs with [] => 0 | v :: r => g v + wsum g r end.

Lemma wsum_set_nth g vs : forall i v x, nth_error vs i = Some v -> (wsum g (set_nth vs i x) + g v = wsum g vs + g x)%nat.
Proof.
  induction vs as [| a r IH]; intros [| k] v x H; cbn [nth_error set_nth wsum] in *; try discriminate.
  - inversion H; subst. lia.
  - specialize (IH k v x H). lia.
Qed.

Lemma wsum_le g c vs : (forall v, g v <= c)%nat -> (wsum g vs <= c * length vs)%nat.
Proof. intros H. induction vs as [| a r IH]; cbn [wsum length]; [lia|]. specialize (H a). lia. Qed.

Definition wt (v : svar) : nat := if v_done v then 0 else if v_cur v =? v_out v then 1 else 2.
Definition W (vs : list svar) : nat := wsum wt vs.
Definition nd (v : svar) : nat := if v_done v then 0 else 1.

Lemma wt_le v : (wt v <= 2)%nat.
Proof. unfold wt. destruct (v_done v); [lia|]. destruct (v_cur v =? v_out v); lia. Qed.

Lemma nd_le v : (nd v <= 1)%nat.
Proof. unfold nd. destruct (v_done v); lia. Qed.

Section Termination.
Variable t : starget.
Variable work : list Z.
Variable vs0 : list svar.
Variable st0 : state.
Hypothesis Hsz0 : forall i v0, nth_error vs0 i = Some v0 -> sz_ok (v_csz v0) /\ sz_ok (v_osz v0).
Hypothesis Hout0 : out_inj vs0.

(* generic part: any measure [bounded vs m] that every acting step decreases *)
Variable bounded : list svar -> nat -> Prop.
Hypothesis step_bounded : forall s i s' m, step_spec t work s i s' -> pinv t work vs0 st0 s -> bounded (s_vars s) m ->
  exists m', bounded (s_vars s') m' /\ (m' <= m)%nat /\ (s_did s = false -> s_did s' = true -> (m' < m)%nat).

Lemma fold_bounded l : forall s m, pinv t work vs0 st0 s -> bounded (s_vars s) m ->
  exists m', bounded (s_vars (fold_left (step_var t work) l s)) m' /\ (m' <= m)%nat /\
             (s_did s = false -> s_did (fold_left (step_var t work) l s) = true -> (m' < m)%nat).
Proof.
  induction l as [| i r IH]; intros s m Hp Hb; cbn [fold_left].
  - exists m. split; [assumption|]. split; [lia | congruence].
  - pose proof (step_var_spec t work s i) as Hs.
    destruct (step_bounded s i _ m Hs Hp Hb) as [m1 [B1 [L1 S1]]].
    destruct (IH _ m1 (step_pinv t work vs0 st0 Hsz0 Hout0 s i _ Hs Hp) B1) as [m' [B' [L' S']]].
    exists m'. split; [assumption|]. split; [lia|].
    intros Hd Hd'. destruct (s_did (step_var t work s i)) eqn:E.
    + specialize (S1 Hd eq_refl). lia.
    + specialize (S' eq_refl Hd'). lia.
Qed.

Lemma linv_pinv vs emit p : linv t work vs0 st0 vs emit p -> pinv t work vs0 st0 (mkS vs emit false false p).
Proof. intros [Hinv [Hb Hfr]]. split; [assumption|]. split; [| assumption]. cbn [s_postponed s_vars]. assumption. Qed.

Lemma solve_loop_fuel fuel : forall vs emit p m, linv t work vs0 st0 vs emit p -> bounded vs m ->
  (2 * m + (if p then 1 else 2) <= fuel)%nat -> solve_loop t work fuel vs emit p <> SFuel.
Proof.
  induction fuel as [| f IH]; intros vs emit p m Hl Hb Hf; [destruct p; lia|]. cbn [solve_loop].
  pose proof (pass_linv t work vs0 st0 Hsz0 Hout0 vs emit p Hl) as Hl'.
  destruct (negb (s_pending (pass t work (mkS vs emit false false p)))); [discriminate|].
  destruct (negb (s_did (pass t work (mkS vs emit false false p))) && s_postponed (pass t work (mkS vs emit false false p))) eqn:Hc;
    [discriminate|].
  destruct (fold_bounded (seq 0 (length vs)) (mkS vs emit false false p) m (linv_pinv _ _ _ Hl) Hb) as [m' [B' [L' S']]].
  change (fold_left (step_var t work) (seq 0 (length vs)) (mkS vs emit false false p)) with (pass t work (mkS vs emit false false p)) in *.
  cbn [s_did] in S'.
  destruct (s_did (pass t work (mkS vs emit false false p))) eqn:Hd; cbn [negb] in *.
  - specialize (S' eq_refl eq_refl). apply (IH _ _ _ m'); [assumption | assumption | destruct p; lia].
  - destruct (pass_noact t work _ Hd) as [G1 [_ [G3 _]]]. cbn [s_vars s_postponed] in *. rewrite G1 in *.
    rewrite G3 in Hc. destruct p; [discriminate|]. apply (IH _ _ _ m); [assumption | assumption | lia].
Qed.

End Termination.

(* x86-64 *)
Section TerminationX64.
Variable t : starget.
Variable work : list Z.
Variable vs0 : list svar.
Variable st0 : state.
Hypothesis Hsz0 : forall i v0, nth_error vs0 i = Some v0 -> sz_ok (v_csz v0) /\ sz_ok (v_osz v0).
Hypothesis Hout0 : out_inj vs0.
Hypothesis Hsw : has_swap t = true.

Lemma step_W s i s' : step_spec t work s i s' -> inv vs0 st0 (s_vars s) (s_emit s) ->
  (W (s_vars s') <= W (s_vars s))%nat /\ (s_did s = false -> s_did s' = true -> (W (s_vars s') < W (s_vars s))%nat).
Proof.
  intros Hs Hinv. destruct Hs as [Hn | v Hv Hd | v Hv Hd Hc | v j alt Hv Hd Has Hne Hf Ha Eca Hm Hsw'
    | v j alt sc Hv Hd Has Hne Hf Ha Eca Hm Hsw' Hsc | v j alt Hv Hd Has Hne Hf Ha Eca Hm Hsw' Hsc | v j alt Hv Hd Has Hne Hf Ha Eca Hm];
    cbn [s_did s_vars]; try congruence; try (split; [lia | congruence]).
  - pose proof (wsum_set_nth wt _ i v (moved v (v_out v) true) Hv) as E. fold (W (s_vars s)) in E.
    assert (wt (moved v (v_out v) true) = 0%nat) by reflexivity.
    assert (1 <= wt v)%nat by (unfold wt; rewrite Hd; destruct (v_cur v =? v_out v); lia).
    unfold W at 1 3. split; [lia | intros; lia].
  - cbv zeta.
    assert (Hij : i <> j). { intros E. subst j. assert (alt = v) by congruence. subst alt. congruence. }
    set (v' := upd_cur v (v_out v) (negb (needs_ext v))).
    set (alt' := upd_cur alt (v_cur v) ((v_out alt =? v_cur v) && negb (needs_ext alt))).
    pose proof (wsum_set_nth wt _ i v v' Hv) as E1.
    assert (Ha' : nth_error (set_nth (s_vars s) i v') j = Some alt) by (rewrite nth_set_nth_ne by assumption; assumption).
    pose proof (wsum_set_nth wt _ j alt alt' Ha') as E2.
    assert (wt v = 2%nat). { unfold wt. rewrite Hd. destruct (Z.eqb_spec (v_cur v) (v_out v)); [contradiction | reflexivity]. }
    assert (wt v' <= 1)%nat.
    { unfold wt, v'. cbn [upd_cur v_done v_cur v_out]. rewrite Z.eqb_refl. destruct (negb (needs_ext v)); lia. }
    assert (wt alt = 2%nat).
    { unfold wt. rewrite (alt_not_done vs0 st0 Hout0 _ _ _ _ _ _ Hinv Hv Ha Eca Hne).
      destruct (Z.eqb_spec (v_cur alt) (v_out alt)) as [E | E]; [| reflexivity]. exfalso. apply Hij.
      apply (inv_out_inj vs0 st0 Hout0 _ _ Hinv i j v alt Hv Ha). congruence. }
    pose proof (wt_le alt'). unfold W. split; [lia | intros; lia].
Qed.

Lemma step_bounded_W s i s' m : step_spec t work s i s' -> pinv t work vs0 st0 s -> (W (s_vars s) <= m)%nat ->
  exists m', (W (s_vars s') <= m')%nat /\ (m' <= m)%nat /\ (s_did s = false -> s_did s' = true -> (m' < m)%nat).
Proof.
  intros Hs [Hinv _] Hb. destruct (step_W s i s' Hs Hinv) as [A1 A2]. exists (W (s_vars s')).
  split; [lia|]. split; [lia|]. intros H1 H2. specialize (A2 H1 H2). lia.
Qed.

End TerminationX64.

(* AArch64 *)
Inductive FE (vs : list svar) : nat -> Prop :=
| FE_free i v : nth_error vs i = Some v -> v_done v = false -> assigned vs (v_out v) = false -> FE vs i
| FE_next i v j alt : nth_error vs i = Some v -> v_done v = false -> nth_error vs j = Some alt -> v_cur alt = v_out v ->
    FE vs j -> FE vs i.

Definition bounded_fe (vs : list svar) (m : nat) : Prop :=
  exists L : list nat, (forall i v, nth_error vs i = Some v -> v_done v = false -> ~ FE vs i -> In i L) /\
                       (wsum nd vs + length L <= m)%nat.

Lemma assigned_set_false vs i v x r : nth_error vs i = Some v ->
  (forall k u, k <> i -> nth_error vs k = Some u -> v_cur u <> r) -> v_cur x <> r -> assigned (set_nth vs i x) r = false.
Proof.
  intros Hv Hoth Hx. destruct (assigned (set_nth vs i x) r) eqn:E; [| reflexivity]. exfalso.
  apply assigned_true in E. destruct E as [k [u [Hk Eu]]]. pose proof (nth_error_lt _ _ _ Hv) as Hi.
  destruct (Nat.eq_dec k i) as [Eki | Eki].
  - subst k. rewrite nth_set_nth_eq in Hk by assumption. inversion Hk; subst u. contradiction.
  - rewrite nth_set_nth_ne in Hk by congruence. exact (Hoth k u Eki Hk Eu).
Qed.

(* a move into the destination register keeps the other variables free-ending *)
Lemma FE_move_pres vars i v : cur_inj vars -> out_inj vars -> nth_error vars i = Some v ->
  forall k, FE vars k -> k <> i -> FE (set_nth vars i (moved v (v_out v) true)) k.
Proof.
  intros Hci Hoi Hv k HFE. induction HFE as [k u Hu Hud Hfree | k u j alt Hu Hud Hj Eca HFj IH]; intros Hki.
  - apply FE_free with u; [rewrite nth_set_nth_ne by congruence; assumption | assumption |].
    apply assigned_set_false with v; [assumption | |].
    + intros k' u' _ Hu'. exact (assigned_false _ _ _ _ Hfree Hu').
    + cbn [moved v_cur]. intros E. apply Hki. apply (Hoi k i u v Hu Hv). congruence.
  - destruct (Nat.eq_dec j i) as [Eji | Eji].
    + subst j. assert (alt = v) by congruence. subst alt.
      apply FE_free with u; [rewrite nth_set_nth_ne by congruence; assumption | assumption |].
      apply assigned_set_false with v; [assumption | |].
      * intros k' u' Hk' Hu' E. apply Hk'. apply (Hci k' i u' v Hu' Hv). congruence.
      * cbn [moved v_cur]. intros E. apply Hki. apply (Hoi k i u v Hu Hv). congruence.
    + apply FE_next with u j alt; [rewrite nth_set_nth_ne by congruence; assumption | assumption
                                  | rewrite nth_set_nth_ne by congruence; assumption | assumption | apply IH; assumption].
Qed.

Section Scratch.
Variable vars : list svar.
Variables i j : nat.
Variables v alt : svar.
Variable sc : Z.
Hypothesis Hci : cur_inj vars.
Hypothesis Hv : nth_error vars i = Some v.
Hypothesis Hd : v_done v = false.
Hypothesis Ha : nth_error vars j = Some alt.
Hypothesis Had : v_done alt = false.
Hypothesis Eca : v_cur alt = v_out v.
Hypothesis Hne : v_cur v <> v_out v.
Hypothesis Hsc : assigned vars sc = false.

Let vars' := set_nth vars i (moved v sc false).

Lemma scr_ij : i <> j.
Proof. intros E. subst j. assert (alt = v) by congruence. subst alt. congruence. Qed.

Lemma scr_old_free : assigned vars' (v_cur v) = false.
Proof.
  apply assigned_set_false with v; [assumption | |].
  - intros k u Hk Hu E. apply Hk. apply (Hci k i u v Hu Hv). assumption.
  - cbn [moved v_cur]. intros E. exact (assigned_false _ _ _ _ Hsc Hv (eq_sym E)).
Qed.

Lemma mutual_not_FE : v_out alt = v_cur v -> forall k, FE vars k -> k <> i /\ k <> j.
Proof.
  intros Em k HFE. induction HFE as [k u Hu Hud Hfree | k u j' alt' Hu Hud Hj Eca' HFj IH].
  - split; intros E; subst k.
    + assert (u = v) by congruence. subst u. exact (assigned_false _ _ _ _ Hfree Ha Eca).
    + assert (u = alt) by congruence. subst u. exact (assigned_false _ _ _ _ Hfree Hv (eq_sym Em)).
  - destruct IH as [I1 I2]. split; intros E; subst k.
    + assert (u = v) by congruence. subst u. apply I2. apply (Hci j' j alt' alt Hj Ha). congruence.
    + assert (u = alt) by congruence. subst u. apply I1. apply (Hci j' i alt' v Hj Hv). congruence.
Qed.

Lemma FE_scr_self : v_out alt = v_cur v -> FE vars' i.
Proof.
  intros Em. pose proof scr_ij as Hij. pose proof (nth_error_lt _ _ _ Hv) as Hi.
  apply FE_next with (moved v sc false) j alt.
  - apply nth_set_nth_eq. assumption.
  - reflexivity.
  - unfold vars'. rewrite nth_set_nth_ne by assumption. assumption.
  - assumption.
  - apply FE_free with alt; [unfold vars'; rewrite nth_set_nth_ne by assumption; assumption | assumption |].
    rewrite Em. apply scr_old_free.
Qed.

Lemma FE_scr_pres : FE vars' i -> (forall k, FE vars k -> k <> i) -> forall k, FE vars k -> FE vars' k.
Proof.
  intros Hself Hnot k HFE. pose proof (nth_error_lt _ _ _ Hv) as Hi.
  induction HFE as [k u Hu Hud Hfree | k u j' alt' Hu Hud Hj Eca' HFj IH].
  - assert (Hki : k <> i) by (apply Hnot; eapply FE_free; eassumption).
    destruct (Z.eq_dec (v_out u) sc) as [E | E].
    + apply FE_next with u i (moved v sc false);
        [unfold vars'; rewrite nth_set_nth_ne by congruence; assumption | assumption
        | apply nth_set_nth_eq; assumption | cbn [moved v_cur]; congruence | assumption].
    + apply FE_free with u; [unfold vars'; rewrite nth_set_nth_ne by congruence; assumption | assumption |].
      apply assigned_set_false with v; [assumption | |].
      * intros k' u' _ Hu'. exact (assigned_false _ _ _ _ Hfree Hu').
      * cbn [moved v_cur]. congruence.
  - assert (Hki : k <> i) by (apply Hnot; eapply FE_next; eassumption).
    assert (Hji : j' <> i) by (apply Hnot; assumption).
    apply FE_next with u j' alt';
      [unfold vars'; rewrite nth_set_nth_ne by congruence; assumption | assumption
      | unfold vars'; rewrite nth_set_nth_ne by congruence; assumption | assumption | assumption].
Qed.

End Scratch.

Section TerminationA64.
Variable t : starget.
Variable work : list Z.
Variable vs0 : list svar.
Variable st0 : state.
Hypothesis Hsz0 : forall i v0, nth_error vs0 i = Some v0 -> sz_ok (v_csz v0) /\ sz_ok (v_osz v0).
Hypothesis Hout0 : out_inj vs0.
Hypothesis Hsw : has_swap t = false.

Lemma blocked_no_FE vs : all_blocked t work vs -> forall k, FE vs k -> False.
Proof.
  intros Hb k HFE. induction HFE as [k u Hu Hud Hfree | k u j alt Hu Hud Hj Eca HFj IH]; [| assumption].
  destruct (Hb k u Hu Hud) as [B1 _]. congruence.
Qed.

Lemma step_bounded_fe s i s' m : step_spec t work s i s' -> pinv t work vs0 st0 s -> bounded_fe (s_vars s) m ->
  exists m', bounded_fe (s_vars s') m' /\ (m' <= m)%nat /\ (s_did s = false -> s_did s' = true -> (m' < m)%nat).
Proof.
  intros Hs [Hinv [Hblk _]] Hb.
  pose proof (inv_out_inj vs0 st0 Hout0 _ _ Hinv) as Hoi. destruct Hinv as [Hlen [Hci Hrel]].
  assert (Hinv : inv vs0 st0 (s_vars s) (s_emit s)) by (split; [assumption | split; assumption]).
  destruct Hs as [Hn | v Hv Hd | v Hv Hd Hc | v j alt Hv Hd Has Hne Hf Ha Eca Hm Hsw'
    | v j alt sc Hv Hd Has Hne Hf Ha Eca Hm Hsw' Hsc | v j alt Hv Hd Has Hne Hf Ha Eca Hm Hsw' Hsc | v j alt Hv Hd Has Hne Hf Ha Eca Hm];
    cbn [s_did s_vars]; try congruence;
    try (exists m; split; [assumption|]; split; [lia | congruence]).
  - (* move into the destination *)
    destruct Hb as [L [HL Hm]].
    pose proof (wsum_set_nth nd _ i v (moved v (v_out v) true) Hv) as E.
    assert (nd (moved v (v_out v) true) = 0%nat) by reflexivity.
    assert (nd v = 1%nat) by (unfold nd; rewrite Hd; reflexivity).
    pose proof (nth_error_lt _ _ _ Hv) as Hi.
    exists (m - 1)%nat. split; [| split; [lia | intros; lia]].
    exists L. split; [| lia].
    intros k u Hu Hud Hnfe. destruct (Nat.eq_dec k i) as [Eki | Eki].
    + subst k. rewrite nth_set_nth_eq in Hu by assumption. inversion Hu; subst u. discriminate.
    + rewrite nth_set_nth_ne in Hu by congruence. apply (HL k u Hu Hud). intros HFE. apply Hnfe.
      apply FE_move_pres; assumption.
  - (* move into a scratch register *)
    cbv zeta. destruct Hb as [L [HL Hm']].
    apply scratch_choice_some in Hsc. destruct Hsc as [_ Hsc].
    pose proof (alt_not_done vs0 st0 Hout0 _ _ _ _ _ _ Hinv Hv Ha Eca Hne) as Had.
    pose proof (wsum_set_nth nd _ i v (moved v sc false) Hv) as E.
    assert (nd (moved v sc false) = 1%nat) by reflexivity.
    assert (nd v = 1%nat) by (unfold nd; rewrite Hd; reflexivity).
    pose proof (nth_error_lt _ _ _ Hv) as Hi.
    destruct (Z.eqb_spec (v_out alt) (v_cur v)) as [Em | Em].
    + (* a 2-cycle is opened: the moved variable becomes free-ending *)
      pose proof (mutual_not_FE _ _ _ _ _ Hci Hv Ha Eca Em) as Hnot.
      pose proof (FE_scr_self _ _ _ _ _ sc Hci Hv Ha Had Eca Hne Hsc Em) as Hself.
      assert (HiL : In i L). { apply (HL i v Hv Hd). intros HFE. destruct (Hnot i HFE) as [H1 _]. congruence. }
      pose proof (remove_length_lt Nat.eq_dec L i HiL) as Hlt.
      exists (m - 1)%nat. split; [| split; [lia | intros; lia]].
      exists (remove Nat.eq_dec i L). split; [| lia].
      intros k u Hu Hud Hnfe. destruct (Nat.eq_dec k i) as [Eki | Eki]; [subst k; contradiction|].
      apply in_in_remove; [assumption|]. rewrite nth_set_nth_ne in Hu by congruence. apply (HL k u Hu Hud).
      intros HFE. apply Hnfe. apply (FE_scr_pres _ _ _ sc Hv Hself); [| assumption]. intros k' H'. apply (Hnot k' H').
    + (* a stuck state: nothing was free-ending; the variable bound for the vacated register becomes so *)
      cbn [orb] in Hm. apply andb_prop in Hm. destruct Hm as [Hp _].
      pose proof (Hblk Hp) as Hab.
      destruct (blocked_cur_is_out t work vs0 st0 Hout0 _ _ Hinv Hab i v Hv Hd) as [k [u [Hk [Hkd Eu]]]].
      assert (Hki : k <> i). { intros E'. subst k. assert (u = v) by congruence. subst u. congruence. }
      assert (HFk : FE (set_nth (s_vars s) i (moved v sc false)) k).
      { apply FE_free with u; [rewrite nth_set_nth_ne by congruence; assumption | assumption |]. rewrite Eu.
        apply (scr_old_free _ _ _ sc Hci Hv Hsc). }
      assert (HkL : In k L). { apply (HL k u Hk Hkd). intros HFE. exact (blocked_no_FE _ Hab k HFE). }
      pose proof (remove_length_lt Nat.eq_dec L k HkL) as Hlt.
      exists (m - 1)%nat. split; [| split; [lia | intros; lia]].
      exists (remove Nat.eq_dec k L). split; [| lia].
      intros k' u' Hu' Hud' Hnfe. destruct (Nat.eq_dec k' k) as [Ekk | Ekk]; [subst k'; contradiction|].
      apply in_in_remove; [assumption|]. destruct (Nat.eq_dec k' i) as [Eki | Eki].
      * subst k'. apply (HL i v Hv Hd). intros HFE. exact (blocked_no_FE _ Hab i HFE).
      * rewrite nth_set_nth_ne in Hu' by congruence. apply (HL k' u' Hu' Hud'). intros HFE. exact (blocked_no_FE _ Hab k' HFE).
Qed.

End TerminationA64.

Lemma bounded_fe_init vs : bounded_fe vs (2 * length vs).
Proof.
  exists (seq 0 (length vs)). split.
  - intros i v Hv _ _. apply in_seq. apply nth_error_lt in Hv. lia.
  - rewrite seq_length. pose proof (wsum_le nd 1 vs nd_le). lia.
Qed.

Theorem solve_terminates : forall t work vs0, wf_input work vs0 -> solve t work vs0 <> SFuel.
Proof.
  intros t work vs0 Hwf. unfold solve.
  pose proof (wf_sizes work vs0 Hwf) as Hsz. pose proof (wf_out_inj work vs0 Hwf) as Hout.
  destruct t.
  - apply (solve_loop_fuel TX64 work vs0 (fun _ => 0) Hsz Hout (fun vs m => (W vs <= m)%nat)
             (step_bounded_W TX64 work vs0 (fun _ => 0) Hout eq_refl) _ _ _ _ (2 * length vs0)%nat).
    + apply wf_linv. assumption.
    + apply (wsum_le wt 2 vs0 wt_le).
    + lia.
  - apply (solve_loop_fuel TA64 work vs0 (fun _ => 0) Hsz Hout bounded_fe
             (step_bounded_fe TA64 work vs0 (fun _ => 0) Hout eq_refl) _ _ _ _ (2 * length vs0)%nat).
    + apply wf_linv. assumption.
    + apply bounded_fe_init.
    + lia.
Qed.

(* ---------------------------------------------------------------------------------------------- *)
(* 4'. progress without a swap instruction: the solver fails only when it finds no free scratch register; a candidate in [work]
   that is not the destination of any variable is free whenever a cycle has to be broken *)

Section ProgressScratch.
Variable t : starget.
Variable work : list Z.
Variable vs0 : list svar.
Variable st0 : state.
Hypothesis Hsz0 : forall i v0, nth_error vs0 i = Some v0 -> sz_ok (v_csz v0) /\ sz_ok (v_osz v0).
Hypothesis Hout0 : out_inj vs0.
Variable spare : Z.
Hypothesis Hspare : In spare work.
Hypothesis Hspare_out : forall v0, In v0 vs0 -> v_out v0 <> spare.

Lemma out_not_spare vs emit k u : inv vs0 st0 vs emit -> nth_error vs k = Some u -> v_out u <> spare.
Proof.
  intros Hinv Hk. destruct (inv_orig vs0 st0 _ _ _ _ Hinv Hk) as [u0 [H0 [E _]]]. rewrite E.
  apply Hspare_out. eapply nth_error_In; eassumption.
Qed.

Lemma solve_loop_noerr_scr fuel : forall vs emit p, linv t work vs0 st0 vs emit p -> solve_loop t work fuel vs emit p <> SErr.
Proof.
  induction fuel as [| f IH]; intros vs emit p Hl; cbn [solve_loop]; [discriminate|].
  pose proof (pass_linv t work vs0 st0 Hsz0 Hout0 vs emit p Hl) as Hl'.
  destruct (negb (s_pending (pass t work (mkS vs emit false false p)))) eqn:Hpe; [discriminate|].
  destruct (negb (s_did (pass t work (mkS vs emit false false p))) && s_postponed (pass t work (mkS vs emit false false p))) eqn:Hc.
  - exfalso. apply andb_prop in Hc. destruct Hc as [Hd Hp]. apply negb_true_iff in Hd. apply negb_false_iff in Hpe.
    destruct (pass_noact t work _ Hd) as [_ [_ [G3 G4]]]. cbn [s_vars s_postponed] in *. rewrite G3 in Hp. subst p.
    destruct (pending_not_all_done t work _ _ _ Hpe) as [i [v [Hv Hnd]]].
    destruct (G4 i v Hv Hnd) as [_ [Hne [j [alt [Hf [Ha [Eca Hor]]]]]]].
    destruct Hl as [Hinv [Hb _]].
    pose proof (alt_not_done vs0 st0 Hout0 _ _ _ _ _ _ Hinv Hv Ha Eca Hne) as Had.
    destruct Hor as [Hor | [_ Hnone]].
    + rewrite Had in Hor. cbn in Hor. rewrite orb_true_r in Hor. discriminate.
    + pose proof (scratch_choice_none work vs spare Hnone Hspare) as Has. apply assigned_true in Has.
      destruct Has as [k [u [Hk Eu]]]. destruct (v_done u) eqn:Hud.
      * apply (out_not_spare _ _ _ _ Hinv Hk). rewrite <- (inv_done_cur vs0 st0 _ _ _ _ Hinv Hk Hud). assumption.
      * destruct (blocked_cur_is_out t work vs0 st0 Hout0 _ _ Hinv (Hb eq_refl) k u Hk Hud) as [k' [u' [Hk' [_ Eu']]]].
        apply (out_not_spare _ _ _ _ Hinv Hk'). congruence.
  - apply IH. assumption.
Qed.

End ProgressScratch.

Theorem solve_no_error_with_spare_scratch : forall t work vs0, wf_input work vs0 ->
  (exists r, In r work /\ ~ In r (map v_out vs0)) -> solve t work vs0 <> SErr.
Proof.
  intros t work vs0 Hwf [r [Hr Hn]]. unfold solve.
  apply (solve_loop_noerr_scr t work vs0 (fun _ => 0) (wf_sizes work vs0 Hwf) (wf_out_inj work vs0 Hwf) r Hr).
  - intros v0 Hin E. apply Hn. rewrite <- E. apply in_map. assumption.
  - apply wf_linv. assumption.
Qed.

(* with a swap instruction, or with a spare scratch register, every well-formed assignment is solved *)
Corollary solve_x64_ok : forall work vs0, wf_input work vs0 -> exists ms, solve TX64 work vs0 = SOk ms.
Proof.
  intros work vs0 Hwf. pose proof (solve_x64_no_error work vs0 Hwf). pose proof (solve_terminates TX64 work vs0 Hwf).
  destruct (solve TX64 work vs0) as [ms | |]; [exists ms; reflexivity | congruence | congruence].
Qed.

Corollary solve_a64_ok : forall work vs0, wf_input work vs0 -> (exists r, In r work /\ ~ In r (map v_out vs0)) ->
  exists ms, solve TA64 work vs0 = SOk ms.
Proof.
  intros work vs0 Hwf Hex. pose proof (solve_no_error_with_spare_scratch TA64 work vs0 Hwf Hex).
  pose proof (solve_terminates TA64 work vs0 Hwf).
  destruct (solve TA64 work vs0) as [ms | |]; [exists ms; reflexivity | congruence | congruence].
Qed.

(* ---------------------------------------------------------------------------------------------- *)
(* the fuel only matters for SFuel: more fuel never changes an SOk / SErr result (so raising the fuel of SolverModel.solve from
   2 * n + 2 to 4 * n + 4 kept every result that was not SFuel) *)

Lemma solve_loop_fuel_mono t work f : forall vs emit p r, solve_loop t work f vs emit p = r -> r <> SFuel ->
  forall f', (f <= f')%nat -> solve_loop t work f' vs emit p = r.
Proof.
  induction f as [| f IH]; intros vs emit p r H Hr f' Hle; cbn [solve_loop] in H; [congruence|].
  destruct f' as [| f']; [lia|]. cbn [solve_loop].
  destruct (negb (s_pending (pass t work (mkS vs emit false false p)))); [assumption|].
  destruct (negb (s_did (pass t work (mkS vs emit false false p))) && s_postponed (pass t work (mkS vs emit false false p)));
    [assumption|].
  apply IH; [assumption | assumption | lia].
Qed.

Theorem solve_old_fuel_agrees : forall t work vs r,
  solve_loop t work (2 * length vs + 2) vs [] false = r -> r <> SFuel -> solve t work vs = r.
Proof.
  intros t work vs r H Hr. unfold solve. apply (solve_loop_fuel_mono t work _ _ _ _ _ H Hr). lia.
Qed.

(* ---------------------------------------------------------------------------------------------- *)
(* examples *)

(* the 3-cycle rdi -> rsi -> rdx -> rdi on x86-64: two exchanges *)
Definition ex_cycle3 : list svar := [init_var 7 8 true 6 8 true; init_var 6 8 true 2 8 true; init_var 2 8 true 7 8 true].
Example ex_cycle3_wf : wf_inputb [] ex_cycle3 = true.
Proof. vm_compute. reflexivity. Qed.
Example ex_cycle3_x64 :
  solve TX64 [] ex_cycle3 = SOk [IXchg (greg 6) (greg 7) 64 64; IXchg (greg 2) (greg 7) 64 64].
Proof. vm_compute. reflexivity. Qed.
Example ex_cycle3_valid :
  validate_bytes (map move_of ex_cycle3) (map greg []) [IXchg (greg 6) (greg 7) 64 64; IXchg (greg 2) (greg 7) 64 64] = true.
Proof. vm_compute. reflexivity. Qed.

(* a 2-cycle with an int8 -> int32 widening: exchange, then movsx in place *)
Definition ex_widen : list svar := [init_var 7 1 true 6 4 true; init_var 6 4 true 7 4 true].
Example ex_widen_wf : wf_inputb [] ex_widen = true.
Proof. vm_compute. reflexivity. Qed.
Example ex_widen_x64 :
  solve TX64 [] ex_widen = SOk [IXchg (greg 6) (greg 7) 32 64; IExt (greg 6) (greg 6) ES 8 32 64].
Proof. vm_compute. reflexivity. Qed.
Example ex_widen_valid :
  validate_bytes (map move_of ex_widen) (map greg []) [IXchg (greg 6) (greg 7) 32 64; IExt (greg 6) (greg 6) ES 8 32 64] = true.
Proof. vm_compute. reflexivity. Qed.

(* a 2-cycle on AArch64: through the scratch register x9 taken from [work] *)
Definition ex_a64 : list svar := [init_var 0 8 true 1 8 true; init_var 1 8 true 0 8 true].
Example ex_a64_wf : wf_inputb [9; 10] ex_a64 = true.
Proof. vm_compute. reflexivity. Qed.
Example ex_a64_scratch :
  solve TA64 [9; 10] ex_a64 =
  SOk [IExt (greg 9) (greg 0) EZ 64 64 64; IExt (greg 0) (greg 1) EZ 64 64 64; IExt (greg 1) (greg 9) EZ 64 64 64].
Proof. vm_compute. reflexivity. Qed.
Example ex_a64_valid :
  validate_bytes (map move_of ex_a64) (map greg [9; 10])
    [IExt (greg 9) (greg 0) EZ 64 64 64; IExt (greg 0) (greg 1) EZ 64 64 64; IExt (greg 1) (greg 9) EZ 64 64 64] = true.
Proof. vm_compute. reflexivity. Qed.
(* ... without a scratch register the solver gives up *)
Example ex_a64_no_scratch : solve TA64 [] ex_a64 = SErr.
Proof. vm_compute. reflexivity. Qed.

(* a 3-cycle with conversions on AArch64 (uint32 -> uint64, int64, int8 -> int64) *)
Definition ex_a64_conv : list svar := [init_var 0 4 false 1 8 false; init_var 1 8 true 2 8 true; init_var 2 1 true 0 8 true].
Example ex_a64_conv_run :
  solve TA64 [9; 10] ex_a64_conv =
  SOk [IExt (greg 9) (greg 0) EZ 32 32 64; IExt (greg 0) (greg 2) ES 8 64 64; IExt (greg 2) (greg 1) EZ 64 64 64;
       IExt (greg 1) (greg 9) EZ 64 64 64].
Proof. vm_compute. reflexivity. Qed.
Example ex_a64_conv_valid :
  match solve TA64 [9; 10] ex_a64_conv with
  | SOk ms => validate_bytes (map move_of ex_a64_conv) (map greg [9; 10]) ms
  | _ => false
  end = true.
Proof. vm_compute. reflexivity. Qed.

(* the cycle of 8 widening variables that needs more than 2 * n + 2 passes (hence the fuel 4 * n + 4 in SolverModel.solve) *)
Definition ex_cycle8 : list svar :=
  map (fun i => init_var i 1 true (if i =? 7 then 0 else i + 1) 4 true) [0; 1; 2; 3; 4; 5; 6; 7].
Example ex_cycle8_old_fuel : solve_loop TX64 [] (2 * length ex_cycle8 + 2) ex_cycle8 [] false = SFuel.
Proof. vm_compute. reflexivity. Qed.
Example ex_cycle8_ok :
  match solve TX64 [] ex_cycle8 with SOk ms => validate_bytes (map move_of ex_cycle8) [] ms | _ => false end = true.
Proof. vm_compute. reflexivity. Qed.

(* the theorems instantiated on an example and executed on a concrete machine state *)
Example ex_widen_exec :
  let st0 := fun l => if loc_eqb l (greg 7) then 0x1234F0 else if loc_eqb l (greg 6) then 0xAAAABBBBCCCCDDDD else 5 in
  let st := exec [IXchg (greg 6) (greg 7) 32 64; IExt (greg 6) (greg 6) ES 8 32 64] st0 in
  (st (greg 6), st (greg 7), st (greg 3)) = (0xFFFFFFF0, 0xCCCCDDDD, 5).
Proof. vm_compute. reflexivity. Qed.

Print Assumptions solve_correct.
Print Assumptions solve_writes.
Print Assumptions solve_frame.
Print Assumptions solve_terminates.
Print Assumptions solve_x64_no_error.
Print Assumptions solve_no_error_with_spare_scratch.
Print Assumptions solve_x64_ok.
Print Assumptions solve_a64_ok.
Print Assumptions wf_inputb_spec.
Print Assumptions solve_old_fuel_agrees.

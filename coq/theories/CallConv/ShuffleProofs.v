(* C06 - soundness of the parallel-move validator of ShuffleModel.v. *)
From Coq Require Import ZArith Lia List Bool Znumtheory.
From Verif Require Import Base.ZBits CallConv.ShuffleModel.
Import ListNotations.
Local Open Scope Z_scope.

(* ---------------------------------------------------------------------------------------------- *)
(* locations *)

Lemma loc_eqb_spec a b : reflect (a = b) (loc_eqb a b).
Proof.
  destruct a as [g1 i1 | a1 o1], b as [g2 i2 | a2 o2]; cbn [loc_eqb]; try (constructor; discriminate).
  - destruct (Z.eqb_spec g1 g2), (Z.eqb_spec i1 i2); cbn [andb]; constructor; congruence.
  - destruct (Z.eqb_spec a1 a2), (Z.eqb_spec o1 o2); cbn [andb]; constructor; congruence.
Qed.

Lemma loc_eqb_refl a : loc_eqb a a = true.
Proof. destruct (loc_eqb_spec a a); congruence. Qed.

Lemma mem_loc_In l ls : mem_loc l ls = true <-> In l ls.
Proof.
  unfold mem_loc. rewrite existsb_exists. split.
  - intros [x [Hi He]]. destruct (loc_eqb_spec l x); congruence.
  - intros Hi. exists l. split; [assumption | apply loc_eqb_refl].
Qed.

(* ---------------------------------------------------------------------------------------------- *)
(* arithmetic *)

Lemma put_mod q v wz : 0 <= wz -> 0 <= v < 2 ^ wz -> (q * 2 ^ wz + v) mod 2 ^ wz = v.
Proof.
  intros Hwz Hv. pose proof (pow2_pos wz Hwz).
  rewrite Z.add_comm, Z.mod_add by lia. apply Z.mod_small; lia.
Qed.

Lemma extv_range e n w x : 0 < n <= w -> 0 <= extv e n w x < 2 ^ w.
Proof.
  intros H. destruct e; cbn [extv].
  - pose proof (Z.mod_pos_bound x (2 ^ n) (pow2_pos n ltac:(lia))).
    pose proof (pow2_le n w ltac:(lia)). lia.
  - apply Z.mod_pos_bound. apply pow2_pos; lia.
Qed.

Lemma sextz_cong n x y : x mod 2 ^ n = y mod 2 ^ n -> sextz n x = sextz n y.
Proof. intros E. unfold sextz. rewrite E. reflexivity. Qed.

Lemma extv_cong e n w x y : x mod 2 ^ n = y mod 2 ^ n -> extv e n w x = extv e n w y.
Proof.
  intros E. destruct e; cbn [extv]; [assumption|]. rewrite (sextz_cong n x y E). reflexivity.
Qed.

(* the low k <= n bits of an extension are the original ones *)
Lemma extv_low e n w x k : 0 <= k <= n -> 0 < n <= w -> (extv e n w x) mod 2 ^ k = x mod 2 ^ k.
Proof.
  intros Hk Hn. destruct e; cbn [extv].
  - apply mod_mod_pow2; lia.
  - rewrite mod_mod_pow2 by lia.
    rewrite <- (mod_mod_pow2 (sextz n x) k n) by lia.
    rewrite sextz_mod_id by lia. apply mod_mod_pow2; lia.
Qed.

Lemma sextz_small n v : 0 < n -> 0 <= v < 2 ^ (n - 1) -> sextz n v = v.
Proof.
  intros Hn Hv. pose proof (pow2_double n Hn). unfold sextz.
  rewrite Z.mod_small by lia. destruct (Z.ltb_spec v (2 ^ (n - 1))); lia.
Qed.

(* re-extending (any way) a value that is already small gives it back *)
Lemma extv_small e n w v m : 0 < n <= w -> 0 <= m < n -> 0 <= v < 2 ^ m -> extv e n w v = v.
Proof.
  intros Hn Hm Hv. pose proof (pow2_le m (n - 1) ltac:(lia)). pose proof (pow2_le n w ltac:(lia)).
  pose proof (pow2_double n ltac:(lia)). pose proof (pow2_pos (n - 1) ltac:(lia)).
  destruct e; cbn [extv].
  - apply Z.mod_small; lia.
  - rewrite sextz_small by lia. apply Z.mod_small; lia.
Qed.

Lemma sextz_sextz n n1 x : 0 < n1 <= n -> sextz n ((sextz n1 x) mod 2 ^ n) = sextz n1 x.
Proof.
  intros H. apply sextz_of_mod; [lia|].
  pose proof (sextz_range n1 x ltac:(lia)). pose proof (pow2_le (n1 - 1) (n - 1) ltac:(lia)). lia.
Qed.

(* ---------------------------------------------------------------------------------------------- *)
(* concretisation *)

Definition arel (st0 : state) (a : aval) (c : Z) : Prop :=
  match a with
  | AId l => c = st0 l
  | AExt l n e w wz => (0 < n /\ n <= w /\ w <= wz) /\ c mod 2 ^ wz = extv e n w (st0 l)
  | AUnknown => True
  end.

(* c' is the content written by an instruction reading (n, e, w, wz) from a location with content c *)
Lemma read_aval_sound st0 a c e n w wz c' :
  arel st0 a c -> 0 < n -> n <= w -> w <= wz ->
  c' mod 2 ^ wz = extv e n w c ->
  arel st0 (read_aval a e n w wz) c'.
Proof.
  intros Ha Hn Hnw Hwz Hc'. destruct a as [l | l n1 e1 w1 wz1 | ]; cbn [read_aval arel] in *.
  - subst c. split; [lia | assumption].
  - destruct Ha as [[H1 [H2 H3]] Hc].
    destruct (Z.leb_spec n n1) as [Hle | Hgt].
    + (* n <= n1 *)
      cbn [arel]. split; [lia|]. rewrite Hc'. apply extv_cong.
      rewrite <- (mod_mod_pow2 c n wz1) by lia. rewrite Hc. apply extv_low; lia.
    + destruct (Z.leb_spec n wz1) as [Hle2 | Hgt2]; [| exact I].
      (* n1 < n <= wz1 : the n bits read are those of V = extv e1 n1 w1 (st0 l) *)
      assert (HV : extv e n w c = extv e n w (extv e1 n1 w1 (st0 l))).
      { apply extv_cong. rewrite <- (mod_mod_pow2 c n wz1) by lia. rewrite Hc. reflexivity. }
      rewrite HV in Hc'. clear HV.
      destruct e1.
      * (* zero extended *)
        cbn [arel]. split; [lia|]. rewrite Hc'.
        change (extv EZ n1 w1 (st0 l)) with (st0 l mod 2 ^ n1). change (extv EZ n1 w (st0 l)) with (st0 l mod 2 ^ n1).
        apply (extv_small e n w _ n1); [lia | lia |].
        apply Z.mod_pos_bound. apply pow2_pos; lia.
      * destruct (Z.leb_spec n w1) as [Hle3 | Hgt3].
        -- destruct e; cbn [arel]; (split; [lia|]); rewrite Hc'; cbn [extv].
           ++ apply mod_mod_pow2; lia.
           ++ f_equal. transitivity (sextz n (sextz n1 (st0 l) mod 2 ^ n)); [| apply sextz_sextz; lia].
              apply sextz_cong. rewrite mod_mod_pow2 by lia. symmetry. apply Z.mod_mod.
              pose proof (pow2_pos n ltac:(lia)). lia.
        -- cbn [arel]. split; [lia|]. rewrite Hc'.
           apply (extv_small e n w _ w1); [lia | lia |].
           cbn [extv]. apply Z.mod_pos_bound. apply pow2_pos; lia.
  - exact I.
Qed.

(* ---------------------------------------------------------------------------------------------- *)
(* symbolic state *)

Lemma alookup_aset sg l a l' : alookup (aset sg l a) l' = if loc_eqb l' l then a else alookup sg l'.
Proof. reflexivity. Qed.

Definition ainv (st0 : state) (sg : astate) (st : state) : Prop :=
  forall l, arel st0 (alookup sg l) (st l).

Lemma ainv_init st0 : ainv st0 [] st0.
Proof. intros l. reflexivity. Qed.

Lemma ainv_upd st0 sg st l a v : ainv st0 sg st -> arel st0 a v -> ainv st0 (aset sg l a) (upd st l v).
Proof.
  intros Hi Ha l'. rewrite alookup_aset. unfold upd. destruct (loc_eqb l' l); [assumption | apply Hi].
Qed.

Lemma written_mod q e n w wz x : 0 < n -> n <= w -> w <= wz -> (q * 2 ^ wz + extv e n w x) mod 2 ^ wz = extv e n w x.
Proof.
  intros. apply put_mod; [lia|]. pose proof (extv_range e n w x ltac:(lia)).
  pose proof (pow2_le w wz ltac:(lia)). lia.
Qed.

Lemma transfer_sound st0 sg st i :
  wf_inst i = true -> ainv st0 sg st -> ainv st0 (transfer sg i) (exec_inst st i).
Proof.
  intros Hwf Hi. destruct i as [d s e n w wz | a b w wz]; cbn [wf_inst transfer exec_inst] in *.
  - apply andb_prop in Hwf. destruct Hwf as [Hwf H3]. apply andb_prop in Hwf. destruct Hwf as [H1 H2].
    apply Z.ltb_lt in H1. apply Z.leb_le in H2. apply Z.leb_le in H3.
    apply ainv_upd; [assumption|].
    apply (read_aval_sound st0 _ (st s)); [apply Hi | lia | lia | lia |].
    apply written_mod; lia.
  - apply andb_prop in Hwf. destruct Hwf as [Hwf H3]. apply andb_prop in Hwf. destruct Hwf as [H1 H2].
    apply Z.ltb_lt in H1. apply Z.leb_le in H2.
    apply ainv_upd; [apply ainv_upd; [assumption|] |].
    + apply (read_aval_sound st0 _ (st b)); [apply Hi | lia | lia | lia |].
      change (st b mod 2 ^ w) with (extv EZ w w (st b)). apply written_mod; lia.
    + apply (read_aval_sound st0 _ (st a)); [apply Hi | lia | lia | lia |].
      change (st a mod 2 ^ w) with (extv EZ w w (st a)). apply written_mod; lia.
Qed.

Lemma exec_app ms1 ms2 st : exec (ms1 ++ ms2) st = exec ms2 (exec ms1 st).
Proof. unfold exec. apply fold_left_app. Qed.

Lemma sym_exec_sound st0 ms : forall sg st,
  forallb wf_inst ms = true -> ainv st0 sg st -> ainv st0 (sym_exec ms sg) (exec ms st).
Proof.
  induction ms as [| i ms IH]; intros sg st Hwf Hi; [assumption|].
  cbn [forallb] in Hwf. apply andb_prop in Hwf. destruct Hwf as [Hw1 Hw2].
  cbn [sym_exec exec fold_left]. apply IH; [assumption|]. apply transfer_sound; assumption.
Qed.

(* ---------------------------------------------------------------------------------------------- *)
(* final check *)

Lemma check_move_sound st0 mv a c :
  check_move mv a = true -> arel st0 a c -> dst_ok mv (st0 (m_src mv)) c.
Proof.
  unfold check_move, dst_ok, needs_ext. intros Hc Ha.
  apply andb_prop in Hc. destruct Hc as [Hc Hb]. apply andb_prop in Hc. destruct Hc as [Hs Hd].
  apply Z.ltb_lt in Hs. apply Z.ltb_lt in Hd.
  destruct a as [l | l n e w wz | ]; [ | | discriminate].
  - apply andb_prop in Hb. destruct Hb as [Hl Hne].
    destruct (loc_eqb_spec l (m_src mv)); [subst l | discriminate].
    destruct (m_int mv && (m_sbits mv <? m_dbits mv)); [discriminate|].
    cbn [arel] in Ha. rewrite Ha. reflexivity.
  - apply andb_prop in Hb. destruct Hb as [Hl Hb].
    destruct (loc_eqb_spec l (m_src mv)); [subst l | discriminate].
    cbn [arel] in Ha. destruct Ha as [[H1 [H2 H3]] Ha].
    destruct (m_int mv && (m_sbits mv <? m_dbits mv)) eqn:Hx.
    + apply andb_prop in Hx. destruct Hx as [_ Hlt]. apply Z.ltb_lt in Hlt.
      apply andb_prop in Hb. destruct Hb as [Hb He]. apply andb_prop in Hb. destruct Hb as [Hn Hdz].
      apply Z.eqb_eq in Hn. apply Z.leb_le in Hdz. subst n.
      rewrite <- (mod_mod_pow2 c (m_dbits mv) wz) by lia. rewrite Ha.
      destruct e.
      * destruct (m_ssigned mv); [discriminate|]. cbn [extv].
        apply Z.mod_small. pose proof (Z.mod_pos_bound (st0 (m_src mv)) (2 ^ m_sbits mv) (pow2_pos (m_sbits mv) ltac:(lia))).
        pose proof (pow2_le (m_sbits mv) (m_dbits mv) ltac:(lia)). lia.
      * apply andb_prop in He. destruct He as [Hsg Hdw]. rewrite Hsg. apply Z.leb_le in Hdw.
        cbn [extv]. apply mod_mod_pow2; lia.
    + apply Z.leb_le in Hb.
      rewrite <- (mod_mod_pow2 c (Z.min (m_sbits mv) (m_dbits mv)) wz) by lia. rewrite Ha.
      apply extv_low; lia.
Qed.

(* ---------------------------------------------------------------------------------------------- *)
(* frame *)

Lemma exec_inst_frame st i l : ~ In l (inst_writes i) -> exec_inst st i l = st l.
Proof.
  intros Hn. destruct i as [d s e n w wz | a b w wz]; cbn [exec_inst inst_writes In] in *; unfold upd.
  - destruct (loc_eqb_spec l d); [subst; tauto | reflexivity].
  - destruct (loc_eqb_spec l b); [subst; tauto |].
    destruct (loc_eqb_spec l a); [subst; tauto | reflexivity].
Qed.

Lemma exec_frame ms : forall st l, ~ In l (writes ms) -> exec ms st l = st l.
Proof.
  induction ms as [| i ms IH]; intros st l Hn; [reflexivity|].
  cbn [exec fold_left]. unfold writes in Hn. cbn [flat_map] in Hn. rewrite in_app_iff in Hn.
  change (exec ms (exec_inst st i) l = st l).
  rewrite IH by (unfold writes; tauto). apply exec_inst_frame. tauto.
Qed.

(* ---------------------------------------------------------------------------------------------- *)
(* main theorems *)

Theorem validate_sound : forall mvs allowed ms, validate mvs allowed ms = true ->
  forall st0, (forall l, 0 <= st0 l) ->
  forall mv, In mv mvs -> dst_ok mv (st0 (m_src mv)) (exec ms st0 (m_dst mv)).
Proof.
  intros mvs allowed ms Hv st0 _ mv Hin. unfold validate in Hv.
  apply andb_prop in Hv. destruct Hv as [Hv _]. apply andb_prop in Hv. destruct Hv as [Hv Hck].
  apply andb_prop in Hv. destruct Hv as [Hv _]. apply andb_prop in Hv. destruct Hv as [Hwf _].
  cbv zeta in Hck. rewrite forallb_forall in Hck. specialize (Hck mv Hin).
  apply (check_move_sound st0 mv _ _ Hck).
  apply (sym_exec_sound st0 ms [] st0 Hwf (ainv_init st0)).
Qed.

Theorem validate_frame : forall mvs allowed ms, validate mvs allowed ms = true ->
  forall st0 l, ~ In l allowed -> (forall mv, In mv mvs -> m_dst mv <> l) -> exec ms st0 l = st0 l.
Proof.
  intros mvs allowed ms Hv st0 l Hna Hnd. unfold validate in Hv.
  apply andb_prop in Hv. destruct Hv as [Hv _]. apply andb_prop in Hv. destruct Hv as [Hv _].
  apply andb_prop in Hv. destruct Hv as [Hv _]. apply andb_prop in Hv. destruct Hv as [_ Hw].
  rewrite forallb_forall in Hw. apply exec_frame. intros Hin. specialize (Hw l Hin).
  apply orb_prop in Hw. destruct Hw as [Hw | Hw]; apply mem_loc_In in Hw.
  - tauto.
  - apply in_map_iff in Hw. destruct Hw as [mv [He Hm]]. exact (Hnd mv Hm He).
Qed.

(* ---------------------------------------------------------------------------------------------- *)
(* non-vacuity *)

Definition rdi := Reg 0 7.
Definition rsi := Reg 0 6.
Definition rdx := Reg 0 2.
Definition rax := Reg 0 0.
Definition mv64 (s d : loc) : move :=
  {| m_src := s; m_dst := d; m_sbits := 64; m_ssigned := false; m_dbits := 64; m_int := true |}.
Definition mov64 (d s : loc) : minst := IExt d s EZ 64 64 64.

(* 1. a 2-cycle done with one xchg r64 *)
Example ex1_xchg64 : validate [mv64 rdi rsi; mv64 rsi rdi] [] [IXchg rdi rsi 64 64] = true.
Proof. vm_compute. reflexivity. Qed.

(* 2. xchg r32 does not extend an int8 to an int32 *)
Definition mvs_ext : list move :=
  [ {| m_src := rdi; m_dst := rsi; m_sbits := 8; m_ssigned := true; m_dbits := 32; m_int := true |};
    {| m_src := rsi; m_dst := rdi; m_sbits := 32; m_ssigned := true; m_dbits := 32; m_int := true |} ].
Example ex2_missing_ext : validate mvs_ext [] [IXchg rdi rsi 32 64] = false.
Proof. vm_compute. reflexivity. Qed.

(* 3. ... followed by movsx esi, sil it is accepted *)
Example ex3_xchg_then_ext : validate mvs_ext [] [IXchg rdi rsi 32 64; IExt rsi rsi ES 8 32 64] = true.
Proof. vm_compute. reflexivity. Qed.

(* 4. a 3-cycle rdi -> rsi -> rdx -> rdi through the scratch register rax *)
Example ex4_cycle3 :
  validate [mv64 rdi rsi; mv64 rsi rdx; mv64 rdx rdi] [rax]
           [mov64 rax rdx; mov64 rdx rsi; mov64 rsi rdi; mov64 rdi rax] = true.
Proof. vm_compute. reflexivity. Qed.

(* ... the scratch register must be allowed *)
Example ex4_scratch_not_allowed :
  validate [mv64 rdi rsi; mv64 rsi rdx; mv64 rdx rdi] []
           [mov64 rax rdx; mov64 rdx rsi; mov64 rsi rdi; mov64 rdi rax] = false.
Proof. vm_compute. reflexivity. Qed.

(* 5. a source overwritten before it is read *)
Example ex5_clobber : validate [mv64 rdi rsi; mv64 rsi rdi] [] [mov64 rsi rdi; mov64 rdi rsi] = false.
Proof. vm_compute. reflexivity. Qed.

(* 6. stack load with sign extension: movsx rax, word [args + 8] *)
Example ex6_load_sext :
  validate [ {| m_src := Mem 0 8; m_dst := rax; m_sbits := 16; m_ssigned := true; m_dbits := 64; m_int := true |} ] []
           [IExt rax (Mem 0 8) ES 16 64 64] = true.
Proof. vm_compute. reflexivity. Qed.

(* ... the zero-extending load is not accepted for a signed source *)
Example ex6_load_zext_rejected :
  validate [ {| m_src := Mem 0 8; m_dst := rax; m_sbits := 16; m_ssigned := true; m_dbits := 64; m_int := true |} ] []
           [IExt rax (Mem 0 8) EZ 16 32 64] = false.
Proof. vm_compute. reflexivity. Qed.

(* 7. register -> scratch -> stack store *)
Example ex7_reg_scratch_store :
  validate [mv64 rdi (Mem 1 0)] [rax] [mov64 rax rdi; IExt (Mem 1 0) rax EZ 64 64 64] = true.
Proof. vm_compute. reflexivity. Qed.

(* 8. stack -> scratch -> stack with widening: movzx eax, byte [args+16]; mov [out+8], eax *)
Example ex8_load_store :
  validate [ {| m_src := Mem 0 16; m_dst := Mem 1 8; m_sbits := 8; m_ssigned := false; m_dbits := 32; m_int := true |} ] [rax]
           [IExt rax (Mem 0 16) EZ 8 32 64; IExt (Mem 1 8) rax EZ 32 32 32] = true.
Proof. vm_compute. reflexivity. Qed.

(* 9. mov then movsx on the same register; movsx r16 then movsx r32 *)
Example ex9_mov_movsx :
  validate [ {| m_src := rdi; m_dst := rsi; m_sbits := 8; m_ssigned := true; m_dbits := 64; m_int := true |} ] []
           [IExt rsi rdi EZ 32 32 64; IExt rsi rsi ES 8 64 64] = true.
Proof. vm_compute. reflexivity. Qed.

Example ex9_movsx_chain :
  validate [ {| m_src := rdi; m_dst := rsi; m_sbits := 8; m_ssigned := true; m_dbits := 32; m_int := true |} ] []
           [IExt rsi rdi ES 8 16 16; IExt rsi rsi ES 16 32 64] = true.
Proof. vm_compute. reflexivity. Qed.

(* 10. vector copy and movd *)
Example ex10_vec :
  validate [ {| m_src := Reg 1 1; m_dst := Reg 1 0; m_sbits := 128; m_ssigned := false; m_dbits := 128; m_int := false |};
             {| m_src := rdi; m_dst := Reg 1 2; m_sbits := 32; m_ssigned := false; m_dbits := 32; m_int := false |} ] []
           [IExt (Reg 1 0) (Reg 1 1) EZ 128 128 512; IExt (Reg 1 2) rdi EZ 32 32 128] = true.
Proof. vm_compute. reflexivity. Qed.

(* 11. overlapping stack cells / xchg with memory are rejected *)
Example ex11_overlap :
  validate [mv64 rdi (Mem 1 0); mv64 rsi (Mem 1 4)] []
           [IExt (Mem 1 0) rdi EZ 64 64 64; IExt (Mem 1 4) rsi EZ 64 64 64] = false.
Proof. vm_compute. reflexivity. Qed.

Example ex11_disjoint :
  validate [mv64 rdi (Mem 1 0); mv64 rsi (Mem 1 8)] []
           [IExt (Mem 1 0) rdi EZ 64 64 64; IExt (Mem 1 8) rsi EZ 64 64 64] = true.
Proof. vm_compute. reflexivity. Qed.

(* the soundness theorem instantiated on example 1, executed on a concrete state *)
Example ex1_exec :
  let st0 := fun l => if loc_eqb l rdi then 11 else if loc_eqb l rsi then 22 else 0 in
  let st := exec [IXchg rdi rsi 64 64] st0 in (st rdi, st rsi) = (22, 11).
Proof. vm_compute. reflexivity. Qed.

Print Assumptions validate_sound.
Print Assumptions validate_frame.

(* C06 - the vector / mask / MMX forms of the instruction whitelist DecodeModel.v execute (ShuffleModel.exec_inst) exactly as the
   reference semantics DecodeSpecVec.v (Intel SDM / Arm ARM) says; each theorem comes with its frame part (no other location changes):
     1. decode_vec_reg_sem    x86, vector register destination (whole-register moves, movd/movq, movss/movsd from memory, movq2dq),
     2. decode_vec_to_gp_sem  x86, general-purpose / mask / MMX register destination (movd/movq, kmov*, movdq2q),
     3. decode_vec_store_sem  x86, memory destination (exactly n bits of the cell are replaced),
     4. decode_a64_vec_sem    AArch64 fmov / mov / ldr / ldur to and str / stur from SIMD&FP registers,
     5. the new register content stays below 2^512 / 2^128 (the only place where the operand widths are needed for VEX / AArch64),
     6. the merging register form of movss / movsd is refused,  7. coverage of the tables,  8. non-vacuity,
     9. witnesses that the side conditions cannot be dropped (all on operand views no disassembler prints).
   No disagreement between DecodeModel.v and the manuals was found on printable operands. *)
From Coq Require Import ZArith Lia List Bool String.
From Verif Require Import Base.ZBits CallConv.ShuffleModel CallConv.ShuffleProofs CallConv.DecodeModel CallConv.DecodeSpec
  CallConv.DecodeProofs CallConv.DecodeSpecVec.
Import ListNotations.
Local Open Scope Z_scope.

Lemma high_zero old k : 0 <= old < 2 ^ k -> old / 2 ^ k = 0.
Proof. intros H. apply Z.div_small. exact H. Qed.

Ltac frame_tac := intros ? ?; cbn [exec_inst]; apply upd_other; assumption.

(* ---------------------------------------------------------------------------------------------- *)
(* 1. x86, vector register destination *)

Theorem decode_vec_reg_sem : forall F sa m rd dw s i sl vex f st,
  decode_inst F sa m (OReg 1 rd dw) s = Some i ->
  d_a64 F = false ->
  assoc isa_x86_vec_value m = Some (vex, f) ->
  src_loc F sa s = Some sl ->
  In dw [128; 256; 512] -> (vex = false -> dw = 128) ->
  0 <= st (Reg 1 rd) < 2 ^ 512 ->
  exec_inst st i (Reg 1 rd) = x86_vec_write vex (st (Reg 1 rd)) dw (f dw (opw s) (st sl)) /\
  (forall l, l <> Reg 1 rd -> exec_inst st i l = st l).
Proof.
  intros F sa m rd dw s i sl vex f st HD Ha HV HS Hdw Hleg Hold.
  apply assoc_In in HV. unfold decode_inst in HD. rewrite Ha in HD.
  unfold isa_x86_vec_value in HV. cbn [In] in HV.
  repeat (destruct HV as [HV | HV]; [injection HV as <- <- <-|]); try contradiction; lookup_compute HD;
    unfold decode_class in HD; rewrite Ha in HD; cbn [dst_loc is_oreg is_omem ogrp opw andb negb Z.eqb Pos.eqb] in HD;
    dmatch HD; try discriminate HD; injection HD as <-; same_src; (split; [|frame_tac]);
    cbn [exec_inst]; rewrite upd_same; unfold x86_vec_write; try (specialize (Hleg eq_refl); subst dw).
  all: try (rewrite (high_zero _ 512 Hold)); reflexivity.
Qed.

(* ---------------------------------------------------------------------------------------------- *)
(* 2. x86, general-purpose (g = 0) / mask (g = 2) / MMX (g = 3) register destination *)

Theorem decode_vec_to_gp_sem : forall F sa m g rd dw s i sl f st,
  decode_inst F sa m (OReg g rd dw) s = Some i ->
  d_a64 F = false ->
  assoc isa_x86_vec_to_gp m = Some f ->
  src_loc F sa s = Some sl ->
  In g [0; 2; 3] -> (g = 0 -> In dw [32; 64]) ->
  0 <= st (Reg g rd) < 2 ^ 64 ->
  exec_inst st i (Reg g rd) = x86_reg64_write g (st (Reg g rd)) dw (f dw (opw s) (st sl)) /\
  (forall l, l <> Reg g rd -> exec_inst st i l = st l).
Proof.
  intros F sa m g rd dw s i sl f st HD Ha HV HS Hg Hdw Hold.
  apply assoc_In in HV. unfold decode_inst in HD. rewrite Ha in HD.
  assert (E : forall v, x86_reg64_write g (st (Reg g rd)) dw v = v).
  { intros v. unfold x86_reg64_write, x86_gp_write. cbn [In] in Hg, Hdw.
    destruct Hg as [<- | [<- | [<- | []]]]; [|reflexivity|reflexivity].
    destruct (Hdw eq_refl) as [<- | [<- | []]]; reflexivity. }
  rewrite E. clear E Hdw.
  unfold isa_x86_vec_to_gp in HV. cbn [In] in HV, Hg.
  destruct Hg as [<- | [<- | [<- | []]]].
  all: repeat (destruct HV as [HV | HV]; [injection HV as <- <-|]); try contradiction; lookup_compute HD;
    unfold decode_class in HD; rewrite Ha in HD; cbn [dst_loc is_oreg is_omem ogrp opw andb orb negb Z.eqb Pos.eqb] in HD;
    dmatch HD; try discriminate HD; injection HD as <-; same_src; (split; [|frame_tac]);
    cbn [exec_inst]; rewrite upd_same, (high_zero _ 64 Hold); reflexivity.
Qed.

(* ---------------------------------------------------------------------------------------------- *)
(* 3. x86, memory destination *)

Theorem decode_vec_store_sem : forall F sa m b base off g r rw i ml nb st,
  decode_inst F sa m (OMem b base off) (OReg g r rw) = Some i ->
  d_a64 F = false ->
  assoc isa_x86_vec_store m = Some nb ->
  dst_loc F (OMem b base off) = Some ml ->
  exec_inst st i ml = cell_write (st ml) (nb rw) (zx (nb rw) (st (Reg g r))) /\
  (forall l, l <> ml -> exec_inst st i l = st l).
Proof.
  intros F sa m b base off g r rw i ml nb st HD Ha HV Hml.
  apply assoc_In in HV. unfold decode_inst in HD. rewrite Ha in HD.
  unfold isa_x86_vec_store in HV. cbn [In] in HV.
  repeat (destruct HV as [HV | HV]; [injection HV as <- <-|]); try contradiction; lookup_compute HD;
    unfold decode_class in HD; rewrite Ha, Hml in HD; cbn [src_loc is_oreg is_omem ogrp opw andb orb negb Z.eqb Pos.eqb] in HD;
    dmatch HD; try discriminate HD; injection HD as <-; (split; [|frame_tac]);
    cbn [exec_inst]; rewrite upd_same; reflexivity.
Qed.

(* ---------------------------------------------------------------------------------------------- *)
(* 4. AArch64: fmov / mov between SIMD&FP registers, ldr / ldur to a B/H/S/D/Q register, str / stur from one *)

Lemma decode_a64_vec_reg_sem : forall F sa m rd dw s i sl f st,
  decode_inst F sa m (OReg 1 rd dw) s = Some i ->
  d_a64 F = true ->
  assoc isa_a64_vec_value m = Some f ->
  src_loc F sa s = Some sl ->
  0 <= st (Reg 1 rd) < 2 ^ 128 ->
  exec_inst st i (Reg 1 rd) = a64_vec_write (st (Reg 1 rd)) dw (f dw (opw s) (st sl)) /\
  (forall l, l <> Reg 1 rd -> exec_inst st i l = st l).
Proof.
  intros F sa m rd dw s i sl f st HD Ha HV HS Hold.
  apply assoc_In in HV. unfold decode_inst in HD. rewrite Ha in HD.
  unfold isa_a64_vec_value in HV. cbn [In] in HV.
  repeat (destruct HV as [HV | HV]; [injection HV as <- <-|]); try contradiction; lookup_compute HD;
    unfold decode_class in HD; rewrite Ha in HD; cbn [dst_loc is_oreg is_omem ogrp opw andb orb negb Z.eqb Pos.eqb] in HD;
    dmatch HD; try discriminate HD; injection HD as <-; same_src; (split; [|frame_tac]);
    cbn [exec_inst]; rewrite upd_same, (high_zero _ 128 Hold); unfold a64_vec_write; try rewrite Z.max_id; reflexivity.
Qed.

Lemma decode_a64_vec_store_sem : forall F sa m rt rw b base off i ml nb st,
  decode_inst F sa m (OReg 1 rt rw) (OMem b base off) = Some i ->
  d_a64 F = true ->
  assoc isa_a64_vec_store m = Some nb ->
  dst_loc F (OMem b base off) = Some ml ->
  exec_inst st i ml = cell_write (st ml) (nb rw) (zx (nb rw) (st (Reg 1 rt))) /\
  (forall l, l <> ml -> exec_inst st i l = st l).
Proof.
  intros F sa m rt rw b base off i ml nb st HD Ha HV Hml.
  apply assoc_In in HV. unfold decode_inst in HD. rewrite Ha in HD.
  unfold isa_a64_vec_store in HV. cbn [In] in HV.
  repeat (destruct HV as [HV | HV]; [injection HV as <- <-|]); try contradiction; lookup_compute HD;
    unfold decode_class in HD; rewrite Ha, Hml in HD; cbn [src_loc is_oreg is_omem ogrp opw andb orb negb Z.eqb Pos.eqb] in HD;
    dmatch HD; try discriminate HD; injection HD as <-; (split; [|frame_tac]);
    cbn [exec_inst]; rewrite upd_same; reflexivity.
Qed.

(* str / stur of a SIMD&FP register is also an instance of DecodeProofs.decode_store_sem (any register group) *)
Theorem decode_a64_vec_sem : forall F sa m d s i st,
  decode_inst F sa m d s = Some i ->
  d_a64 F = true ->
  (* register destination: fmov / mov / ldr / ldur *)
  (forall rd dw sl f, d = OReg 1 rd dw -> assoc isa_a64_vec_value m = Some f -> src_loc F sa s = Some sl ->
     0 <= st (Reg 1 rd) < 2 ^ 128 ->
     exec_inst st i (Reg 1 rd) = a64_vec_write (st (Reg 1 rd)) dw (f dw (opw s) (st sl)) /\
     (forall l, l <> Reg 1 rd -> exec_inst st i l = st l)) /\
  (* store: the FIRST printed operand is the register *)
  (forall rt rw b base off ml nb, d = OReg 1 rt rw -> s = OMem b base off -> assoc isa_a64_vec_store m = Some nb ->
     dst_loc F s = Some ml ->
     exec_inst st i ml = cell_write (st ml) (nb rw) (zx (nb rw) (st (Reg 1 rt))) /\
     (forall l, l <> ml -> exec_inst st i l = st l)).
Proof.
  intros F sa m d s i st HD Ha. split.
  - intros rd dw sl f -> HV HS Hold. eapply decode_a64_vec_reg_sem; eauto.
  - intros rt rw b base off ml nb -> -> HV Hml. eapply decode_a64_vec_store_sem; eauto.
Qed.

(* ---------------------------------------------------------------------------------------------- *)
(* 5. the new register content stays inside the register model (this is where the operand widths matter) *)

Lemma write_range B old w v : 0 <= w <= B -> 0 <= old < 2 ^ B -> 0 <= v < 2 ^ w -> 0 <= (old / 2 ^ w) * 2 ^ w + v < 2 ^ B.
Proof.
  intros Hw Ho Hv.
  pose proof (pow2_pos w ltac:(lia)) as P. pose proof (pow2_pos (B - w) ltac:(lia)) as P'.
  pose proof (pow2_split w B ltac:(lia)) as E.
  assert (Hq0 : 0 <= old / 2 ^ w) by (apply Z.div_pos; lia).
  assert (Hq : old / 2 ^ w < 2 ^ (B - w)) by (apply Z.div_lt_upper_bound; lia).
  rewrite E. nia.
Qed.

Lemma x86_vec_write_range vex old w v : 0 <= old < 2 ^ 512 -> 0 <= w <= 512 -> 0 <= v < 2 ^ w ->
  0 <= x86_vec_write vex old w v < 2 ^ 512.
Proof.
  intros Ho Hw Hv. unfold x86_vec_write. destruct vex.
  - pose proof (pow2_le w 512 ltac:(lia)). lia.
  - apply write_range; assumption.
Qed.

Lemma low_range n dw sw x : 0 <= n <= dw -> 0 <= low n dw sw x < 2 ^ dw.
Proof.
  intros H. unfold low, zx. pose proof (Z.mod_pos_bound x (2 ^ n) (pow2_pos n ltac:(lia))). pose proof (pow2_le n dw H). lia.
Qed.

Lemma whole_range dw sw x : 0 <= dw -> 0 <= whole dw sw x < 2 ^ dw.
Proof. intros H. unfold whole, zx. apply Z.mod_pos_bound. apply pow2_pos. exact H. Qed.

Lemma x86_vec_value_range m vex f dw sw x : assoc isa_x86_vec_value m = Some (vex, f) -> 128 <= dw -> 0 <= f dw sw x < 2 ^ dw.
Proof.
  intros HV Hdw. apply assoc_In in HV. unfold isa_x86_vec_value in HV. cbn [In] in HV.
  repeat (destruct HV as [HV | HV]; [injection HV as <- <- <-|]); try contradiction.
  all: first [apply whole_range; lia | apply low_range; lia].
Qed.

Theorem decode_vec_reg_range : forall F sa m rd dw s i sl vex f st,
  decode_inst F sa m (OReg 1 rd dw) s = Some i ->
  d_a64 F = false ->
  assoc isa_x86_vec_value m = Some (vex, f) ->
  src_loc F sa s = Some sl ->
  In dw [128; 256; 512] -> (vex = false -> dw = 128) ->
  0 <= st (Reg 1 rd) < 2 ^ 512 ->
  0 <= exec_inst st i (Reg 1 rd) < 2 ^ 512.
Proof.
  intros F sa m rd dw s i sl vex f st HD Ha HV HS Hdw Hleg Hold.
  destruct (decode_vec_reg_sem _ _ _ _ _ _ _ _ _ _ st HD Ha HV HS Hdw Hleg Hold) as [-> _].
  assert (H : 128 <= dw <= 512) by (cbn [In] in Hdw; lia).
  apply x86_vec_write_range; [exact Hold | lia |]. eapply x86_vec_value_range; [exact HV | lia].
Qed.

Theorem decode_a64_vec_reg_range : forall F sa m rd dw s i sl f st,
  decode_inst F sa m (OReg 1 rd dw) s = Some i ->
  d_a64 F = true ->
  assoc isa_a64_vec_value m = Some f ->
  src_loc F sa s = Some sl ->
  In dw [8; 16; 32; 64; 128] ->
  0 <= st (Reg 1 rd) < 2 ^ 128 ->
  0 <= exec_inst st i (Reg 1 rd) < 2 ^ 128.
Proof.
  intros F sa m rd dw s i sl f st HD Ha HV HS Hdw Hold.
  destruct (decode_a64_vec_reg_sem _ _ _ _ _ _ _ _ _ st HD Ha HV HS Hold) as [-> _]. unfold a64_vec_write.
  assert (H : 0 <= dw <= 128) by (cbn [In] in Hdw; lia).
  assert (R : 0 <= f dw (opw s) (st sl) < 2 ^ dw).
  { apply assoc_In in HV. unfold isa_a64_vec_value in HV. cbn [In] in HV.
    repeat (destruct HV as [HV | HV]; [injection HV as <- <-|]); try contradiction; apply whole_range; lia. }
  pose proof (pow2_le dw 128 H). lia.
Qed.

(* ---------------------------------------------------------------------------------------------- *)
(* 6. the register form of movss / movsd (a merge, DecodeSpecVec.x86_movs_reg_merge) is refused *)

Theorem movs_reg_form_refused F sa m n vex d s : d_a64 F = false -> lookup x86_table m = Some (K_movs n vex) ->
  is_omem d = false -> is_omem s = false -> decode_inst F sa m d s = None.
Proof.
  intros Ha Hm Hd Hs. unfold decode_inst. rewrite Ha, Hm. unfold decode_class. rewrite Ha, Hd, Hs. cbn [negb].
  destruct (dst_loc F d); [destruct (src_loc F sa s)|]; reflexivity.
Qed.

(* ---------------------------------------------------------------------------------------------- *)
(* 7. every vector / mask / MMX mnemonic of the two tables has its entries in the reference semantics *)

Definition has {A : Type} (t : list (string * A)) (m : string) : bool := match assoc t m with Some _ => true | None => false end.

Definition vec_class_covered (mk : string * mclass) : bool :=
  let m := fst mk in
  match snd mk with
  | K_vecfull _ | K_movs _ _ => has isa_x86_vec_value m && has isa_x86_vec_store m
  | K_movdq _ _ => has isa_x86_vec_value m && has isa_x86_vec_to_gp m && has isa_x86_vec_store m
  | K_kmov _ => has isa_x86_vec_to_gp m && has isa_x86_vec_store m
  | K_movq2dq => has isa_x86_vec_value m
  | K_movdq2q => has isa_x86_vec_to_gp m
  | A_fmov | A_mov | A_load _ 0 => has isa_a64_vec_value m
  | A_store 0 => has isa_a64_vec_store m
  | _ => true
  end.

Lemma isa_vec_covers_table : forallb vec_class_covered x86_table = true /\ forallb vec_class_covered a64_table = true.
Proof. split; vm_compute; reflexivity. Qed.

(* ---------------------------------------------------------------------------------------------- *)
(* 8. the hypotheses of 1.-4. are satisfiable: the forms they talk about are accepted (Fx: rsp = 4, Fa: sp = 31) ... *)

Example accepts_vec_reg :
  decode_inst Fx [] "vmovaps" (OReg 1 3 256) (OReg 1 5 256) = Some (IExt (Reg 1 3) (Reg 1 5) EZ 256 256 512) /\
  decode_inst Fx [] "movdqu" (OReg 1 3 128) (OMem 128 4 24) = Some (IExt (Reg 1 3) (Mem 0 24) EZ 128 128 128) /\
  decode_inst Fx [] "vmovdqu64" (OReg 1 3 512) (OMem 512 4 24) = Some (IExt (Reg 1 3) (Mem 0 24) EZ 512 512 512) /\
  decode_inst Fx [] "movd" (OReg 1 3 128) (OReg 0 5 32) = Some (IExt (Reg 1 3) (Reg 0 5) EZ 32 32 128) /\
  decode_inst Fx [] "vmovq" (OReg 1 3 128) (OReg 1 5 128) = Some (IExt (Reg 1 3) (Reg 1 5) EZ 64 64 512) /\
  decode_inst Fx [] "movss" (OReg 1 3 128) (OMem 32 4 24) = Some (IExt (Reg 1 3) (Mem 0 24) EZ 32 32 128) /\
  decode_inst Fx [] "vmovsd" (OReg 1 3 128) (OMem 64 4 24) = Some (IExt (Reg 1 3) (Mem 0 24) EZ 64 64 512) /\
  decode_inst Fx [] "movq2dq" (OReg 1 3 128) (OReg 3 5 64) = Some (IExt (Reg 1 3) (Reg 3 5) EZ 64 64 128).
Proof. repeat split; vm_compute; reflexivity. Qed.

Example accepts_vec_to_gp :
  decode_inst Fx [] "movd" (OReg 0 3 32) (OReg 1 5 128) = Some (IExt (Reg 0 3) (Reg 1 5) EZ 32 32 64) /\
  decode_inst Fx [] "vmovq" (OReg 0 3 64) (OReg 1 5 128) = Some (IExt (Reg 0 3) (Reg 1 5) EZ 64 64 64) /\
  decode_inst Fx [] "movq" (OReg 3 3 64) (OReg 0 5 64) = Some (IExt (Reg 3 3) (Reg 0 5) EZ 64 64 64) /\
  decode_inst Fx [] "kmovw" (OReg 2 3 64) (OReg 0 5 32) = Some (IExt (Reg 2 3) (Reg 0 5) EZ 16 16 64) /\
  decode_inst Fx [] "kmovb" (OReg 0 3 32) (OReg 2 5 64) = Some (IExt (Reg 0 3) (Reg 2 5) EZ 8 8 64) /\
  decode_inst Fx [] "kmovq" (OReg 2 3 64) (OMem 64 4 24) = Some (IExt (Reg 2 3) (Mem 0 24) EZ 64 64 64) /\
  decode_inst Fx [] "movdq2q" (OReg 3 3 64) (OReg 1 5 128) = Some (IExt (Reg 3 3) (Reg 1 5) EZ 64 64 64).
Proof. repeat split; vm_compute; reflexivity. Qed.

Example accepts_vec_store :
  decode_inst Fx [] "vmovups" (OMem 256 4 24) (OReg 1 5 256) = Some (IExt (Mem 1 24) (Reg 1 5) EZ 256 256 256) /\
  decode_inst Fx [] "movaps" (OMem 128 4 24) (OReg 1 5 128) = Some (IExt (Mem 1 24) (Reg 1 5) EZ 128 128 128) /\
  decode_inst Fx [] "movq" (OMem 64 4 24) (OReg 1 5 128) = Some (IExt (Mem 1 24) (Reg 1 5) EZ 64 64 64) /\
  decode_inst Fx [] "movd" (OMem 32 4 24) (OReg 3 5 64) = Some (IExt (Mem 1 24) (Reg 3 5) EZ 32 32 32) /\
  decode_inst Fx [] "vmovss" (OMem 32 4 24) (OReg 1 5 128) = Some (IExt (Mem 1 24) (Reg 1 5) EZ 32 32 32) /\
  decode_inst Fx [] "kmovw" (OMem 16 4 24) (OReg 2 5 64) = Some (IExt (Mem 1 24) (Reg 2 5) EZ 16 16 16).
Proof. repeat split; vm_compute; reflexivity. Qed.

Example accepts_a64_vec :
  decode_inst Fa [] "fmov" (OReg 1 3 64) (OReg 1 5 64) = Some (IExt (Reg 1 3) (Reg 1 5) EZ 64 64 128) /\
  decode_inst Fa [] "mov" (OReg 1 3 128) (OReg 1 5 128) = Some (IExt (Reg 1 3) (Reg 1 5) EZ 128 128 128) /\
  decode_inst Fa [] "mov" (OReg 1 3 64) (OReg 1 5 64) = Some (IExt (Reg 1 3) (Reg 1 5) EZ 64 64 128) /\
  decode_inst Fa [] "ldr" (OReg 1 3 128) (OMem 0 31 24) = Some (IExt (Reg 1 3) (Mem 0 24) EZ 128 128 128) /\
  decode_inst Fa [] "ldur" (OReg 1 3 32) (OMem 0 31 24) = Some (IExt (Reg 1 3) (Mem 0 24) EZ 32 32 128) /\
  decode_inst Fa [] "ldr" (OReg 1 3 8) (OMem 0 31 24) = Some (IExt (Reg 1 3) (Mem 0 24) EZ 8 8 128) /\
  decode_inst Fa [] "str" (OReg 1 5 128) (OMem 0 31 24) = Some (IExt (Mem 1 24) (Reg 1 5) EZ 128 128 128) /\
  decode_inst Fa [] "stur" (OReg 1 5 16) (OMem 0 31 24) = Some (IExt (Mem 1 24) (Reg 1 5) EZ 16 16 16).
Proof. repeat split; vm_compute; reflexivity. Qed.

(* ... and the theorems apply to them (all hypotheses discharged on a concrete instruction, arbitrary state) *)

Example vec_reg_sem_applies : forall st, 0 <= st (Reg 1 3) < 2 ^ 512 ->
  exec_inst st (IExt (Reg 1 3) (Reg 1 5) EZ 256 256 512) (Reg 1 3) = st (Reg 1 5) mod 2 ^ 256 /\
  exec_inst st (IExt (Reg 1 3) (Reg 0 5) EZ 32 32 128) (Reg 1 3) = st (Reg 1 3) / 2 ^ 128 * 2 ^ 128 + st (Reg 0 5) mod 2 ^ 32.
Proof.
  intros st H. split.
  - refine (proj1 (decode_vec_reg_sem Fx [] "vmovaps" 3 256 (OReg 1 5 256) _ (Reg 1 5) true whole st _ _ _ _ _ _ H));
      try reflexivity; [cbn; tauto | discriminate].
  - refine (proj1 (decode_vec_reg_sem Fx [] "movd" 3 128 (OReg 0 5 32) _ (Reg 0 5) false (low 32) st _ _ _ _ _ _ H));
      try reflexivity. cbn; tauto.
Qed.

Example vec_to_gp_sem_applies : forall st, 0 <= st (Reg 0 3) < 2 ^ 64 ->
  exec_inst st (IExt (Reg 0 3) (Reg 1 5) EZ 32 32 64) (Reg 0 3) = st (Reg 1 5) mod 2 ^ 32.
Proof.
  intros st H.
  refine (proj1 (decode_vec_to_gp_sem Fx [] "movd" 0 3 32 (OReg 1 5 128) _ (Reg 1 5) (low 32) st _ _ _ _ _ _ H));
    try reflexivity; cbn; tauto.
Qed.

Example vec_store_sem_applies : forall st,
  exec_inst st (IExt (Mem 1 24) (Reg 1 5) EZ 256 256 256) (Mem 1 24) = st (Mem 1 24) / 2 ^ 256 * 2 ^ 256 + st (Reg 1 5) mod 2 ^ 256.
Proof.
  intros st.
  refine (proj1 (decode_vec_store_sem Fx [] "vmovups" 256 4 24 1 5 256 _ (Mem 1 24) (fun rw => rw) st _ _ _ _)); reflexivity.
Qed.

Example a64_vec_sem_applies : forall st, 0 <= st (Reg 1 3) < 2 ^ 128 ->
  exec_inst st (IExt (Reg 1 3) (Mem 0 24) EZ 32 32 128) (Reg 1 3) = st (Mem 0 24) mod 2 ^ 32 /\
  exec_inst st (IExt (Mem 1 24) (Reg 1 5) EZ 128 128 128) (Mem 1 24) = st (Mem 1 24) / 2 ^ 128 * 2 ^ 128 + st (Reg 1 5) mod 2 ^ 128.
Proof.
  intros st H. split.
  - refine (proj1 (proj1 (decode_a64_vec_sem Fa [] "ldur" (OReg 1 3 32) (OMem 0 31 24) _ st _ _) 3 32 (Mem 0 24) whole _ _ _ H));
      reflexivity.
  - refine (proj1 (proj2 (decode_a64_vec_sem Fa [] "str" (OReg 1 5 128) (OMem 0 31 24) _ st _ _) 5 128 0 31 24 (Mem 1 24)
                     (fun rw => rw) _ _ _ _)); reflexivity.
Qed.

(* ---------------------------------------------------------------------------------------------- *)
(* 9. the side conditions are needed: decode_class does not look at the width / group of these operands, and on views that no
   disassembler prints the model and the manuals differ.
     a. legacy form with a 256-bit destination view (`movd ymm3, ebp`): the model keeps bits 511:128, DecodeSpecVec bits 511:256;
     b. 16-bit general-purpose destination (`movd bx, xmm5`): the model zero-fills to 64 bits, a 16-bit write keeps bits 63:16;
     c. mask move to a vector register (`kmovw xmm3, k5`): the model zero-fills to bit 64 only (excluded by g in {0,2,3});
     d. register content outside the register model (VEX form, bit 512 set): the model keeps it. *)
Example side_conditions_needed :
  let ones : state := fun _ => 2 ^ 512 - 1 in
  let ones64 : state := fun l => match l with Reg 0 _ => 2 ^ 64 - 1 | _ => 0 end in
  (exists i, decode_inst Fx [] "movd" (OReg 1 3 256) (OReg 0 5 32) = Some i /\
     exec_inst ones i (Reg 1 3) = 2 ^ 512 - 2 ^ 128 + 2 ^ 32 - 1 /\
     x86_vec_write false (ones (Reg 1 3)) 256 (low 32 256 32 (ones (Reg 0 5))) = 2 ^ 512 - 2 ^ 256 + 2 ^ 32 - 1) /\
  (exists i, decode_inst Fx [] "movd" (OReg 0 3 16) (OReg 1 5 128) = Some i /\
     exec_inst ones64 i (Reg 0 3) = 0 /\
     x86_reg64_write 0 (ones64 (Reg 0 3)) 16 (low 32 16 128 (ones64 (Reg 1 5))) = 2 ^ 64 - 2 ^ 16) /\
  (exists i, decode_inst Fx [] "kmovw" (OReg 1 3 128) (OReg 2 5 64) = Some i /\
     exec_inst ones i (Reg 1 3) = 2 ^ 512 - 2 ^ 64 + 2 ^ 16 - 1) /\
  (exists i, decode_inst Fx [] "vmovd" (OReg 1 3 128) (OReg 0 5 32) = Some i /\
     exec_inst (fun _ => 2 ^ 512) i (Reg 1 3) = 2 ^ 512 /\
     x86_vec_write true (2 ^ 512) 128 (low 32 128 32 (2 ^ 512)) = 0).
Proof. cbv zeta. repeat split; eexists; repeat split; vm_compute; reflexivity. Qed.

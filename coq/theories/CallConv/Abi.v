(* C06 — the calling conventions as the platform documents state them (System V AMD64 psABI 1.0, i386 psABI 1.1 /
   Microsoft x86 conventions, Microsoft x64 calling convention, AAPCS64 2023Q3, Apple "Writing ARM64 code for Apple
   platforms").  This file is the SPECIFICATION: it does not mention AsmJit's counters, passed-order arrays, flags or
   strategies.  Register assignment is a closed formula over the PREFIX of the signature (how many earlier arguments
   are of the same class); stack arguments are laid out at the "next stacked argument address" (NSAA) rounded up to the
   argument's alignment, exactly as the AAPCS64 / psABI texts put it.  Definitions only.

   Vocabulary shared with the model: TypeId numbers (core/type.h), RegType numbers, register ids (x86: ax=0 cx=1 dx=2 bx=3
   sp=4 bp=5 si=6 di=7 r8..r15; AArch64: x0..x30, v0..v31). *)
From Coq Require Import ZArith List Bool.
Import ListNotations.
Local Open Scope Z_scope.

Inductive abi_id := SysV64 | Win64 | Vectorcall64 | Cdecl32 | Stdcall32 | Fastcall32 | Thiscall32 | Regparm32 (n : nat) | Aapcs64 | Apple64.

(* ------------------------------------------------------------------ C types behind the TypeIds *)
Definition inr_ (x a b : Z) : bool := (a <=? x) && (x <=? b).
Definition t_int (t : Z) := inr_ t 34 41.          (* (u)int8..(u)int64 *)
Definition t_f32 (t : Z) := t =? 42.
Definition t_f64 (t : Z) := t =? 43.
Definition t_f80 (t : Z) := t =? 44.              (* x87 long double *)
Definition t_mask (t : Z) := inr_ t 45 48.         (* __mmask8..64: unsigned integers of 1,2,4,8 bytes *)
Definition t_m64 (t : Z) := inr_ t 49 50.          (* __m64 *)
Definition t_v32 (t : Z) := inr_ t 51 60.
Definition t_v64 (t : Z) := inr_ t 61 70.
Definition t_v128 (t : Z) := inr_ t 71 80.         (* __m128 / int8x16_t ... *)
Definition t_v256 (t : Z) := inr_ t 81 90.         (* __m256 *)
Definition t_v512 (t : Z) := inr_ t 91 100.        (* __m512 *)

(* sizeof *)
Definition abi_bytes (t : Z) : Z :=
  if inr_ t 34 35 then 1 else if inr_ t 36 37 then 2 else if inr_ t 38 39 then 4 else if inr_ t 40 41 then 8
  else if t_f32 t then 4 else if t_f64 t then 8 else if t_f80 t then 10
  else if t =? 45 then 1 else if t =? 46 then 2 else if t =? 47 then 4 else if t =? 48 then 8
  else if t =? 49 then 4 else if t_m64 t then 8
  else if t_v32 t then 4 else if t_v64 t then 8 else if t_v128 t then 16 else if t_v256 t then 32 else if t_v512 t then 64 else 0.

Definition round_up (x a : Z) : Z := ((x + a - 1) / a) * a.

(* an argument as the ABI sees it after decomposition: on 32-bit targets a 64-bit integer is two 32-bit words, low first *)
(* c_half: one of the two 32-bit words of a 64-bit integer; c_lo: the low word (it comes first) *)
Record comp := mkComp { c_ty : Z; c_half : bool; c_lo : bool }.
Inductive acls := KInt | KSse | KMem.
Definition acls_eqb (a b : acls) : bool :=
  match a, b with KInt, KInt => true | KSse, KSse => true | KMem, KMem => true | _, _ => false end.

(* a location: kind (1 register, 2 stack), register type, register id, stack offset, passed by reference *)
Definition aloc := (Z * Z * Z * Z * bool)%type.
Definition L_reg (rt id : Z) : aloc := (1, rt, id, 0, false).
Definition L_stack (off : Z) : aloc := (2, 0, 0, off, false).
Definition L_reg_ref (rt id : Z) : aloc := (1, rt, id, 0, true).
Definition L_stack_ref (off : Z) : aloc := (2, 0, 0, off, true).

(* register types *)
Definition Gp32 := 5. Definition Gp64 := 6. Definition VecS := 9. Definition VecD := 10. Definition Xmm := 11. Definition Ymm := 12.
Definition Zmm := 13. Definition MmReg := 28. Definition StReg := 29.

(* ------------------------------------------------------------------ sequential conventions (everything but Win64) *)
Record seqabi := mkSeq {
  q_word : Z;                          (* stack word: 4 or 8 *)
  q_int_regs : list Z;                 (* INTEGER class argument registers in order *)
  q_vec_regs : list Z;                 (* SSE / SIMD&FP argument registers in order *)
  q_cls : bool -> comp -> acls;        (* class of a component; the flag says "the function is variadic" *)
  q_slot : comp -> Z;                  (* bytes the component occupies on the stack *)
  q_align : comp -> Z;                 (* alignment of its stack slot *)
  q_int_rt : Z -> Z;                   (* register width used for an integer of this type *)
  q_vec_rt : Z -> Z;
  q_expand : Z -> list comp;           (* decomposition of an argument *)
  q_univ : Z -> bool;                  (* the C types this ABI defines argument passing for (and the theorem speaks about) *)
  q_round : Z                          (* the argument area size is reported rounded up to this *)
}.

Definition count_cls (q : seqabi) (va : bool) (k : acls) (pre : list comp) : Z :=
  Z.of_nat (length (filter (fun c => acls_eqb (q_cls q va c) k) pre)).

(* the register of a component: the n-th component of its class gets the n-th register of the class, if there is one *)
Definition seq_reg (q : seqabi) (va : bool) (pre : list comp) (c : comp) : option (Z * Z) :=
  match q_cls q va c with
  | KInt => (* a 64-bit integer is never split between a register and the stack: its low word takes a register only if the
               high word gets the next one *)
            if c_lo c && negb (count_cls q va KInt pre + 2 <=? Z.of_nat (length (q_int_regs q))) then None else
            match nth_error (q_int_regs q) (Z.to_nat (count_cls q va KInt pre)) with
            | Some r => Some (q_int_rt q (c_ty c), r) | None => None end
  | KSse => match nth_error (q_vec_regs q) (Z.to_nat (count_cls q va KSse pre)) with
            | Some r => Some (q_vec_rt q (c_ty c), r) | None => None end
  | KMem => None
  end.

Fixpoint seq_comps (q : seqabi) (va : bool) (pre : list comp) (nsaa : Z) (cs : list comp) : list aloc * list comp * Z :=
  match cs with
  | [] => ([], pre, nsaa)
  | c :: r =>
      match seq_reg q va pre c with
      | Some (rt, id) => let '(ls, p, n) := seq_comps q va (pre ++ [c]) nsaa r in (L_reg rt id :: ls, p, n)
      | None => let o := round_up nsaa (q_align q c) in
                let '(ls, p, n) := seq_comps q va (pre ++ [c]) (o + q_slot q c) r in (L_stack o :: ls, p, n)
      end
  end.

Fixpoint seq_args (q : seqabi) (va : bool) (pre : list comp) (nsaa : Z) (ts : list Z) : list (list aloc) * Z :=
  match ts with
  | [] => ([], nsaa)
  | t :: r => let '(ls, p, n) := seq_comps q va pre nsaa (q_expand q t) in
              let '(ps, n') := seq_args q va p n r in (ls :: ps, n')
  end.

(* ---- System V AMD64 *)
Definition sysv_cls (_ : bool) (c : comp) : acls :=
  let t := c_ty c in
  if t_int t || t_mask t then KInt
  else if t_f80 t then KMem                                    (* class X87: memory *)
  else KSse.                                                   (* float, double, __m64, __m128/256/512 *)
Definition sysv_slot (c : comp) : Z := round_up (abi_bytes (c_ty c)) 8.
Definition sysv_align (c : comp) : Z :=
  let t := c_ty c in if t_f80 t then 16 else if t_v128 t then 16 else if t_v256 t then 32 else if t_v512 t then 64 else 8.
Definition x86_int_rt (t : Z) : Z := if abi_bytes t <=? 4 then Gp32 else Gp64.
Definition x86_vec_rt (t : Z) : Z := if t_v256 t then Ymm else if t_v512 t then Zmm else Xmm.
Definition whole (t : Z) : list comp := [mkComp t false false].
Definition sysv_univ (t : Z) : bool :=
  t_int t || t_f32 t || t_f64 t || t_f80 t || t_mask t || t_m64 t || t_v32 t || t_v64 t || t_v128 t || t_v256 t || t_v512 t.
Definition q_sysv : seqabi :=
  mkSeq 8 [7; 6; 2; 1; 8; 9] [0; 1; 2; 3; 4; 5; 6; 7] sysv_cls sysv_slot sysv_align x86_int_rt x86_vec_rt whole sysv_univ 1.

(* ---- i386: cdecl / stdcall / fastcall (GNU i386 psABI for vectors; the Microsoft conventions for the integer registers) *)
Definition i386_expand (t : Z) : list comp :=
  if inr_ t 40 41 then [mkComp 39 true true; mkComp (t - 2) true false] else [mkComp t false false].
Definition i386_cls (regs : bool) (va : bool) (c : comp) : acls :=
  let t := c_ty c in
  if t_int t then (if c_half c || va || negb regs then KMem else KInt)    (* 64-bit integers never travel in ECX/EDX *)
  else if t_v128 t || t_v256 t || t_v512 t then (if va then KMem else KSse)
  else KMem.                                                                (* float, double, long double: stack *)
Definition i386_slot (c : comp) : Z := round_up (abi_bytes (c_ty c)) 4.
Definition i386_align (c : comp) : Z :=
  let t := c_ty c in if t_v128 t then 16 else if t_v256 t then 32 else if t_v512 t then 64 else 4.
Definition i386_univ (t : Z) : bool := t_int t || t_f32 t || t_f64 t || t_f80 t || t_v128 t || t_v256 t || t_v512 t.
(* GNU regparm(n): the first n of EAX, EDX, ECX carry integer arguments; a 64-bit integer takes two consecutive ones or goes to the
   stack as a whole (after which no register is used any more: the words still count); nothing travels in registers when variadic *)
Definition regparm_cls (va : bool) (c : comp) : acls :=
  let t := c_ty c in
  if t_int t then (if va then KMem else KInt)
  else if t_v128 t || t_v256 t || t_v512 t then (if va then KMem else KSse)
  else KMem.
Definition q_i386 (int_regs : list Z) : seqabi :=
  mkSeq 4 int_regs [0; 1; 2] (i386_cls (negb (Nat.eqb (length int_regs) 0))) i386_slot i386_align x86_int_rt x86_vec_rt
        i386_expand i386_univ 1.

(* ---- AAPCS64 and Apple's variant *)
Definition a64_cls (_ : bool) (c : comp) : acls := if t_int (c_ty c) then KInt else KSse.
Definition a64_int_rt (t : Z) : Z := if abi_bytes t <=? 4 then Gp32 else Gp64.
Definition a64_vec_rt (t : Z) : Z := if t_f32 t then VecS else if t_f64 t || t_v64 t then VecD else Xmm.
Definition a64_univ (t : Z) : bool := t_int t || t_f32 t || t_f64 t || t_v64 t || t_v128 t.
Definition aapcs_slot (c : comp) : Z := round_up (abi_bytes (c_ty c)) 8.
Definition aapcs_align (c : comp) : Z := if t_v128 (c_ty c) then 16 else 8.
Definition q_aapcs64 : seqabi :=
  mkSeq 8 [0;1;2;3;4;5;6;7] [0;1;2;3;4;5;6;7] a64_cls aapcs_slot aapcs_align a64_int_rt a64_vec_rt whole a64_univ 8.
(* Apple: stack arguments take their natural size and alignment (no widening to 8 bytes) *)
Definition apple_slot (c : comp) : Z := abi_bytes (c_ty c).
Definition apple_align (c : comp) : Z := abi_bytes (c_ty c).
Definition q_apple64 : seqabi :=
  mkSeq 8 [0;1;2;3;4;5;6;7] [0;1;2;3;4;5;6;7] a64_cls apple_slot apple_align a64_int_rt a64_vec_rt whole a64_univ 8.

Definition q_regparm (n : nat) : seqabi :=
  mkSeq 4 (firstn n [0; 2; 1]) [0; 1; 2] regparm_cls i386_slot i386_align x86_int_rt x86_vec_rt i386_expand i386_univ 1.

Definition seq_of (a : abi_id) : option seqabi :=
  match a with
  | SysV64 => Some q_sysv | Cdecl32 => Some (q_i386 []) | Stdcall32 => Some (q_i386 []) | Fastcall32 => Some (q_i386 [1; 2])
  | Thiscall32 => Some (q_i386 [1])
  | Regparm32 n => Some (q_regparm n)                      (* Microsoft: `this` (the first integer argument) in ECX *)
  | Aapcs64 => Some q_aapcs64 | Apple64 => Some q_apple64 | Win64 | Vectorcall64 => None
  end.

(* ------------------------------------------------------------------ Microsoft x64: positional *)
Definition win_univ (t : Z) : bool := t_int t || t_f32 t || t_f64 t || t_mask t || t_m64 t || t_v128 t || t_v256 t || t_v512 t.
Definition win_gp : list Z := [1; 2; 8; 9].        (* rcx rdx r8 r9 *)
(* argument number i (0-based) owns the i-th register of its kind and the home slot 8*i.  __vectorcall (vc): six vector registers,
   and vector types travel by value in XMM/YMM/ZMM<i> when i < 6 (homogeneous vector aggregates do not exist among the TypeIds) *)
Definition win_nvec (vc : bool) : Z := if vc then 6 else 4.
Definition win_arg (vc : bool) (i : Z) (t : Z) : aloc :=
  if t_int t || t_mask t || t_m64 t then                      (* integers; __m64 travels as a 64-bit integer *)
    (if i <? 4 then L_reg (if (abi_bytes t <=? 4) && negb (t_m64 t) then Gp32 else Gp64) (nth (Z.to_nat i) win_gp 0) else L_stack (8 * i))
  else if t_f32 t || t_f64 t then
    (if i <? win_nvec vc then L_reg Xmm i else L_stack (8 * i))
  else if vc && (i <? 6) then L_reg (x86_vec_rt t) i          (* __vectorcall: __m128 / __m256 / __m512 by value *)
  else                                                          (* __m128 and wider: by reference, the pointer is an integer *)
    (if i <? 4 then L_reg_ref Gp64 (nth (Z.to_nat i) win_gp 0) else L_stack_ref (8 * i)).
Fixpoint win_args (vc : bool) (i : Z) (ts : list Z) : list (list aloc) :=
  match ts with [] => [] | t :: r => [win_arg vc i t] :: win_args vc (i + 1) r end.
Definition win_stack_size (n : Z) : Z := 8 * Z.max n 4.   (* the caller always provides the 32-byte home area *)

(* ------------------------------------------------------------------ return values (one scalar / vector value) *)
Definition abi_ret (a : abi_id) (t : Z) : list aloc :=
  if t =? 0 then [] else
  match a with
  | SysV64 | Win64 | Vectorcall64 =>
      if t_int t || t_mask t then [L_reg (if abi_bytes t <=? 4 then Gp32 else Gp64) 0]
      else if t_f80 t then [L_reg StReg 0]
      else if t_m64 t then (match a with SysV64 => [L_reg Xmm 0] | _ => [L_reg Gp64 0] end)
      else [L_reg (x86_vec_rt t) 0]
  | Cdecl32 | Stdcall32 | Fastcall32 | Thiscall32 | Regparm32 _ =>
      if inr_ t 40 41 then [L_reg Gp32 0; L_reg Gp32 2]        (* EDX:EAX *)
      else if t_int t then [L_reg Gp32 0]
      else if t_f32 t || t_f64 t || t_f80 t then [L_reg StReg 0]
      else if t_m64 t then [L_reg MmReg 0]
      else [L_reg (x86_vec_rt t) 0]
  | Aapcs64 | Apple64 =>
      if t_int t then [L_reg (a64_int_rt t) 0] else [L_reg (a64_vec_rt t) 0]
  end.
Definition ret_univ (a : abi_id) (t : Z) : bool :=
  (t =? 0) ||
  match a with
  | SysV64 => sysv_univ t | Win64 | Vectorcall64 => win_univ t || t_f80 t
  | Cdecl32 | Stdcall32 | Fastcall32 | Thiscall32 | Regparm32 _ => i386_univ t || t_m64 t
  | Aapcs64 | Apple64 => a64_univ t
  end.

(* ------------------------------------------------------------------ per-convention constants *)
Record aconsts := mkAC {
  ac_red : Z; ac_shadow : Z; ac_align : Z; ac_callee_pops : bool;
  ac_pres_gp : list Z; ac_pres_vec : list Z; ac_int_regs : list Z; ac_vec_regs : list Z }.
Definition abi_consts (a : abi_id) : aconsts :=
  match a with
  | SysV64 => mkAC 128 0 16 false [3; 4; 5; 12; 13; 14; 15] [] [7; 6; 2; 1; 8; 9] [0; 1; 2; 3; 4; 5; 6; 7]
  | Win64 => mkAC 0 32 16 false [3; 4; 5; 6; 7; 12; 13; 14; 15] [6; 7; 8; 9; 10; 11; 12; 13; 14; 15] [1; 2; 8; 9] [0; 1; 2; 3]
  | Vectorcall64 => mkAC 0 32 16 false [3; 4; 5; 6; 7; 12; 13; 14; 15] [6; 7; 8; 9; 10; 11; 12; 13; 14; 15] [1; 2; 8; 9] [0; 1; 2; 3; 4; 5]
  | Cdecl32 => mkAC 0 0 4 false [3; 4; 5; 6; 7] [] [] [0; 1; 2]
  | Stdcall32 => mkAC 0 0 4 true [3; 4; 5; 6; 7] [] [] [0; 1; 2]
  | Fastcall32 => mkAC 0 0 4 true [3; 4; 5; 6; 7] [] [1; 2] [0; 1; 2]
  | Thiscall32 => mkAC 0 0 4 true [3; 4; 5; 6; 7] [] [1] [0; 1; 2]
  | Regparm32 n => mkAC 0 0 4 false [3; 4; 5; 6; 7] [] (firstn n [0; 2; 1]) [0; 1; 2]
  (* x18 is the platform register (reserved), x19..x28 callee-saved, x29 frame pointer, x30 link register; v8..v15 (low halves) *)
  | Aapcs64 | Apple64 => mkAC 0 0 16 false [18; 19; 20; 21; 22; 23; 24; 25; 26; 27; 28; 29; 30] [8; 9; 10; 11; 12; 13; 14; 15]
                               [0;1;2;3;4;5;6;7] [0;1;2;3;4;5;6;7]
  end.

(* which convention a (target, CallConvId) pair denotes: arch 0 x86 / 1 x86-64 / 2 AArch64; win = Windows platform or MSVC ABI *)
Definition abi_of (arch : Z) (win darwin : bool) (ccid : Z) : option abi_id :=
  if arch =? 0 then
    (if ccid =? 0 then Some Cdecl32 else if ccid =? 1 then Some Stdcall32 else if ccid =? 2 then Some Fastcall32
     else if ccid =? 4 then Some (if win then Thiscall32 else Cdecl32)      (* GNU targets treat __thiscall like cdecl *)
     else if ccid =? 5 then Some (Regparm32 1) else if ccid =? 6 then Some (Regparm32 2) else if ccid =? 7 then Some (Regparm32 3)
     else None)
  else if arch =? 1 then
    (if ccid =? 32 then Some SysV64 else if ccid =? 33 then Some Win64 else if ccid =? 3 then Some Vectorcall64
     else if (ccid =? 0) || (ccid =? 1) || (ccid =? 2) || (ccid =? 4) then Some (if win then Win64 else SysV64)
     else None)
  else if arch =? 2 then
    (if inr_ ccid 0 2 || (ccid =? 4) then Some (if darwin then Apple64 else Aapcs64) else None)
  else None.

(* ------------------------------------------------------------------ the whole answer *)
Record abi_answer := mkAns { an_args : list (list aloc); an_rets : list aloc; an_stack : Z }.
Definition abi_spec (a : abi_id) (va : bool) (ret : Z) (args : list Z) : abi_answer :=
  match seq_of a with
  | Some q => let '(ls, n) := seq_args q va [] 0 args in mkAns ls (abi_ret a ret) (round_up n (q_round q))
  | None => mkAns (win_args (match a with Vectorcall64 => true | _ => false end) 0 args) (abi_ret a ret) (win_stack_size (Z.of_nat (length args)))
  end.

(* ------------------------------------------------------------------ guards: where the pinned implementation is known to deviate.
   Each clause is stated in ABI vocabulary and names the DESIGN section-7 item / known-findings key it carves out. *)
(* G-type: types the implementation gives no location at all (mask and __m64 outside Win64), x87 long double in SSE registers *)
Definition guard_type (a : abi_id) (t : Z) : bool :=
  match a with
  | SysV64 => negb (t_mask t || t_m64 t || t_f80 t)
  | Win64 | Vectorcall64 => negb (t_mask t)
  | _ => true
  end.
(* G-slot: the stack slot of the component equals its own size, integers widened to a word (7.5: a float on the stack takes 4
   bytes on SysV, long double 10 on i386; Apple: sub-word arguments take 4) ; G-pad: no alignment padding is needed in front of it
   (7.5: 16-byte vectors are not aligned) ; G-half (7.30): a 64-bit integer on a 32-bit target arrives when the integer registers
   are used up *)
Definition own_size (a : abi_id) (c : comp) : Z :=
  let b := abi_bytes (c_ty c) in
  match a with
  | SysV64 => if t_int (c_ty c) then Z.max b 8 else b
  | Cdecl32 | Stdcall32 | Fastcall32 | Thiscall32 | Regparm32 _ => if t_int (c_ty c) then Z.max b 4 else b
  | Aapcs64 => Z.max b 8
  | Apple64 => Z.max b 4
  | Win64 | Vectorcall64 => 8
  end.
Definition guard_comp (a : abi_id) (q : seqabi) (va : bool) (pre : list comp) (nsaa : Z) (c : comp) : bool :=
  match seq_reg q va pre c with
  | Some _ => true
  | None => (round_up nsaa (q_align q c) =? nsaa) && (q_slot q c =? own_size a c)
            && (if c_half c then Z.of_nat (length (q_int_regs q)) <=? count_cls q va KInt pre else true)
  end.
Fixpoint guard_comps (a : abi_id) (q : seqabi) (va : bool) (pre : list comp) (nsaa : Z) (cs : list comp) : bool :=
  match cs with
  | [] => true
  | c :: r =>
      guard_comp a q va pre nsaa c &&
      match seq_reg q va pre c with
      | Some _ => guard_comps a q va (pre ++ [c]) nsaa r
      | None => guard_comps a q va (pre ++ [c]) (round_up nsaa (q_align q c) + q_slot q c) r
      end
  end.
Fixpoint guard_args (a : abi_id) (q : seqabi) (va : bool) (pre : list comp) (nsaa : Z) (ts : list Z) : bool :=
  match ts with
  | [] => true
  | t :: r => guard_comps a q va pre nsaa (q_expand q t) &&
              (let '(_, p, n) := seq_comps q va pre nsaa (q_expand q t) in guard_args a q va p n r)
  end.
(* G-va: variadic functions whose convention changes for variadic calls and the implementation ignores it (Apple: variadic
   arguments on the stack; fastcall: no register arguments) *)
Definition guard_va (a : abi_id) (va : bool) : bool := match a with Apple64 | Fastcall32 | Thiscall32 | Regparm32 _ => negb va | _ => true end.
Definition univ_of (a : abi_id) (t : Z) : bool :=
  match seq_of a with Some q => q_univ q t | None => win_univ t end.

Definition abi_guard (a : abi_id) (va : bool) (ret : Z) (args : list Z) : bool :=
  forallb (fun t => inr_ t 0 255 && univ_of a t && guard_type a t) args && inr_ ret 0 255 && ret_univ a ret && guard_type a ret && guard_va a va &&
  match seq_of a with
  | Some q => guard_args a q va [] 0 args
  | None => true
  end.

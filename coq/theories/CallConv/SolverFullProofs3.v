(* C06 - the model of the whole function (SolverFullModel.v) agrees with the register-to-register model of one group
   (SolverModel.v) on the latter's fragment: integer variables in GP registers bound for GP registers. *)
From Coq Require Import ZArith Lia List Bool.
From Verif Require Import Base.ZBits CallConv.ShuffleModel CallConv.ShuffleProofs CallConv.SolverModel CallConv.SolverProofs
  CallConv.SolverFullModel CallConv.SolverFullProofs.
Import ListNotations.
Local Open Scope Z_scope.

Definition arch_of (t : starget) : farch := match t with TX64 => FX64 | TA64 => FA64 end.

Definition emb (v : svar) : fvar :=
  mkFV (Reg 0 (v_cur v)) (v_csz v) (v_csg v) (Reg 0 (v_out v)) (v_osz v) (v_osg v) true (v_done v).

Definition emb_state (s : sstate) : fstate :=
  mkFS (map emb (s_vars s)) (s_emit s) (s_did s) (s_pending s) (s_postponed s).

Lemma loc_eqb_reg0 x y : loc_eqb (Reg 0 x) (Reg 0 y) = (x =? y).
Proof. reflexivity. Qed.

Lemma fassigned_emb vs r : fassigned (map emb vs) (Reg 0 r) = assigned vs r.
Proof. unfold fassigned, assigned. induction vs as [| v rest IH]; cbn [map existsb]; [reflexivity|]. rewrite IH. reflexivity. Qed.

Lemma ffind_emb vs r : forall k, ffind (map emb vs) (Reg 0 r) k = find_at vs r k.
Proof. induction vs as [| v rest IH]; intros k; cbn [map ffind find_at]; [reflexivity|]. rewrite IH. reflexivity. Qed.

Lemma fset_emb vs : forall i x, fset (map emb vs) i (emb x) = map emb (set_nth vs i x).
Proof. induction vs as [| v rest IH]; intros [| k] x; cbn [map fset set_nth]; try reflexivity. rewrite IH. reflexivity. Qed.

Lemma fout_exists_emb vs r :
  existsb (fun u => loc_eqb (f_out u) (Reg 0 r)) (map emb vs) = existsb (fun u => v_out u =? r) vs.
Proof. induction vs as [| v rest IH]; cbn [map existsb]; [reflexivity|]. rewrite IH. reflexivity. Qed.

Lemma fconv_emb t d s csz csg osz osg :
  fconv (arch_of t) (Reg 0 d) (Reg 0 s) true csz csg osz osg = conv_move t d s csz csg osz osg.
Proof. destruct t; reflexivity. Qed.

Lemma favail_emb wgp wvec vs : favail wgp wvec (map emb vs) 0 = filter (fun r => negb (assigned vs r)) wgp.
Proof. unfold favail. cbn [work_of Z.eqb]. apply filter_ext. intros r. rewrite fassigned_emb. reflexivity. Qed.

Lemma grp_swap_emb t : grp_swap (arch_of t) 0 = has_swap t.
Proof. destruct t; reflexivity. Qed.

Lemma fstep_emb t wgp wvec s i : fstep (arch_of t) wgp wvec (emb_state s) i = emb_state (step_var t wgp s i).
Proof.
  unfold fstep, step_var. cbn [emb_state fs_vars fs_emit fs_did fs_pending fs_postponed].
  rewrite nth_error_map. destruct (nth_error (s_vars s) i) as [v |] eqn:Hv; cbn [option_map]; [| reflexivity].
  cbn [emb f_done f_cur f_out f_int f_csz f_csg f_osz f_osg]. destruct (v_done v); [reflexivity|].
  rewrite Z.eqb_refl. cbn [negb].
  rewrite fassigned_emb.
  destruct (negb (assigned (s_vars s) (v_out v)) || (v_cur v =? v_out v)).
  - unfold emb_state. cbn [s_vars s_emit s_did s_pending s_postponed].
    rewrite fconv_emb. f_equal. rewrite <- fset_emb. reflexivity.
  - rewrite ffind_emb. destruct (find_at (s_vars s) (v_out v) 0) as [j |]; [| reflexivity].
    rewrite nth_error_map. destruct (nth_error (s_vars s) j) as [alt |] eqn:Ha; cbn [option_map]; [| reflexivity].
    cbn [emb f_done f_cur f_out f_int f_csz f_csg f_osz f_osg]. rewrite loc_eqb_reg0.
    destruct ((v_out alt =? v_cur v) || (s_postponed s && negb (v_done alt))); [| reflexivity].
    rewrite grp_swap_emb. destruct (has_swap t).
    + unfold emb_state. cbn [s_vars s_emit s_did s_pending s_postponed]. f_equal.
      rewrite <- !fset_emb. reflexivity.
    + rewrite favail_emb.
      assert (E : filter (fun r => negb (existsb (fun u => loc_eqb (f_out u) (Reg 0 r)) (map emb (s_vars s))))
                    (filter (fun r => negb (assigned (s_vars s) r)) wgp) =
                  filter (fun r => negb (existsb (fun u => v_out u =? r) (s_vars s)))
                    (filter (fun r => negb (assigned (s_vars s) r)) wgp)).
      { apply filter_ext. intros r. rewrite fout_exists_emb. reflexivity. }
      rewrite E.
      destruct (zmin_list _) as [sc |]; [| reflexivity].
      unfold emb_state. cbn [s_vars s_emit s_did s_pending s_postponed].
      rewrite fconv_emb. f_equal. rewrite <- fset_emb. reflexivity.
Qed.

Lemma ffold_emb t wgp wvec l : forall s,
  fold_left (fstep (arch_of t) wgp wvec) l (emb_state s) = emb_state (fold_left (step_var t wgp) l s).
Proof. induction l as [| i r IH]; intros s; cbn [fold_left]; [reflexivity|]. rewrite fstep_emb. apply IH. Qed.

Lemma fpass_emb t wgp wvec s : fpass (arch_of t) wgp wvec (emb_state s) = emb_state (pass t wgp s).
Proof. unfold fpass, pass. cbn [emb_state fs_vars]. rewrite map_length. apply ffold_emb. Qed.

Lemma floop_emb t wgp wvec fuel : forall vs emit p,
  match floop (arch_of t) wgp wvec fuel (map emb vs) emit p with
  | FOk vs2 ms => (exists vs2', vs2 = map emb vs2') /\ solve_loop t wgp fuel vs emit p = SOk ms
  | FErr => solve_loop t wgp fuel vs emit p = SErr
  | FFuel => solve_loop t wgp fuel vs emit p = SFuel
  end.
Proof.
  induction fuel as [| f IH]; intros vs emit p; cbn [floop solve_loop]; [reflexivity|].
  change (mkFS (map emb vs) emit false false p) with (emb_state (mkS vs emit false false p)).
  rewrite fpass_emb. cbn [emb_state fs_pending fs_did fs_postponed fs_vars fs_emit].
  destruct (negb (s_pending (pass t wgp (mkS vs emit false false p)))).
  - split; [eexists; reflexivity | reflexivity].
  - destruct (negb (s_did (pass t wgp (mkS vs emit false false p))) && s_postponed (pass t wgp (mkS vs emit false false p)));
      [reflexivity|]. apply IH.
Qed.

(* nothing to do in phases 1 and 3 *)
Lemma stk_fold_emb a wgp wvec vs l :
  fold_left (stk_step a wgp wvec) l (Some (map emb vs, [])) = Some (map emb vs, []).
Proof.
  induction l as [| i r IH]; cbn [fold_left]; [reflexivity|].
  assert (E : stk_step a wgp wvec (Some (map emb vs, [])) i = Some (map emb vs, [])).
  { unfold stk_step. rewrite nth_error_map. destruct (nth_error vs i); cbn [option_map]; reflexivity. }
  rewrite E. assumption.
Qed.

Lemma load_fold_emb a vs em l : fold_left (load_step a) l (map emb vs, em) = (map emb vs, em).
Proof.
  induction l as [| i r IH]; cbn [fold_left]; [reflexivity|].
  assert (E : load_step a (map emb vs, em) i = (map emb vs, em)).
  { unfold load_step. rewrite nth_error_map. destruct (nth_error vs i) as [x |]; cbn [option_map]; [| reflexivity].
    cbn [emb f_cur is_regl]. rewrite orb_true_r. reflexivity. }
  rewrite E. assumption.
Qed.

(* 5. on register-to-register integer variables of the GP group the model of the whole function IS the one-group model *)
Theorem fsolve_agrees : forall t wgp wvec vs, fsolve (arch_of t) wgp wvec (map emb vs) = solve t wgp vs.
Proof.
  intros t wgp wvec vs. unfold fsolve, solve, stk_phase. rewrite stk_fold_emb, map_length.
  pose proof (floop_emb t wgp wvec (4 * length vs + 4) vs [] false) as H.
  destruct (floop (arch_of t) wgp wvec (4 * length vs + 4) (map emb vs) [] false) as [vs2 ms | |].
  - destruct H as [[vs2' E] H]. subst vs2. unfold load_phase. rewrite load_fold_emb. cbn [snd]. symmetry. assumption.
  - symmetry. assumption.
  - symmetry. assumption.
Qed.

(* the requirement on a variable is the same in both models *)
Lemma fmove_of_emb v : fmove_of (emb v) = move_of v.
Proof. reflexivity. Qed.

Lemma nodup_emb (f : svar -> Z) (g : fvar -> loc) vs : (forall v, g (emb v) = Reg 0 (f v)) ->
  nodupb (map f vs) = true -> nodup_locs (map g (map emb vs)) = true.
Proof.
  intros Hfg. induction vs as [| x r IH]; cbn [map nodupb nodup_locs]; [reflexivity|].
  intros Hx. apply andb_prop in Hx. destruct Hx as [Hx1 Hx2]. rewrite (IH Hx2).
  rewrite andb_true_r. apply negb_true_iff. apply negb_true_iff in Hx1.
  destruct (mem_loc (g (emb x)) (map g (map emb r))) eqn:E; [| reflexivity]. exfalso.
  apply mem_loc_In in E. apply in_map_iff in E. destruct E as [y [Ey Hy]]. apply in_map_iff in Hy. destruct Hy as [z [Ez Hz]].
  subst y. rewrite !Hfg in Ey. inversion Ey as [Ef].
  assert (existsb (Z.eqb (f x)) (map f r) = true).
  { apply existsb_exists. exists (f z). split; [apply in_map; assumption | apply Z.eqb_eq; congruence]. }
  congruence.
Qed.

(* well-formedness transfers: a well-formed input of the one-group model whose registers are work registers below 32 is a
   well-formed input of the full model *)
Lemma fwf_inputb_emb wgp wvec vs : wf_inputb wgp vs = true ->
  forallb (fun v => (0 <=? v_cur v) && (v_cur v <? 32) && existsb (Z.eqb (v_cur v)) wgp &&
                    (0 <=? v_out v) && (v_out v <? 32) && existsb (Z.eqb (v_out v)) wgp) vs = true ->
  fwf_inputb wgp wvec (map emb vs) = true.
Proof.
  unfold wf_inputb, fwf_inputb. intros H Hr. apply andb_prop in H. destruct H as [H H3]. apply andb_prop in H. destruct H as [H1 H2].
  rewrite forallb_forall in H1, Hr.
  rewrite (nodup_emb v_cur f_cur vs (fun _ => eq_refl) H2), (nodup_emb v_out f_out vs (fun _ => eq_refl) H3). rewrite !andb_true_r.
  apply andb_true_intro. split.
  - apply forallb_forall. intros y Hy. apply in_map_iff in Hy. destruct Hy as [v [E Hv]]. subst y.
    specialize (H1 v Hv). specialize (Hr v Hv). unfold var_okb in H1.
    apply andb_prop in H1. destruct H1 as [H1 _]. apply andb_prop in H1. destruct H1 as [S1 S2].
    repeat (apply andb_prop in Hr; destruct Hr as [Hr ?]).
    unfold fvar_ok. cbn [emb f_cur f_out f_int f_csz f_osz f_csg f_osg loc_ok work_of Z.eqb orb andb].
    unfold int_size. unfold sz_okb in S1, S2. rewrite S1, S2, Hr. repeat match goal with H : _ = true |- _ => rewrite H end.
    reflexivity.
  - apply forallb_forall. intros y Hy. apply in_map_iff in Hy. destruct Hy as [v [E Hv]]. subst y.
    specialize (H1 v Hv). unfold var_okb in H1. apply andb_prop in H1. destruct H1 as [_ H1]. apply Bool.eqb_prop in H1.
    cbn [emb finit f_done f_cur f_out f_int f_csz f_osz f_csg f_osg is_regl negb orb andb]. rewrite loc_eqb_reg0, H1.
    apply Bool.eqb_reflx.
Qed.

(* C06 — executable model of the parallel-move solver of BaseEmitHelper::emit_args_assignment (core/emithelper.cpp as
   repaired by ab6e9b0), register-to-register fragment of ONE register group: every argument sits in a register of the group
   and is bound for a register of the same group (integers of 1/2/4/8 bytes in GP registers, possibly wider / narrower
   destination types).  The model follows the code: passes over the variables in index order, a plain move when the
   destination register is free (or is the variable's own register: extension in place), an exchange for a mutual swap, and -
   once a whole pass made no progress - one exchange (groups with a swap instruction) or one move into a scratch register
   (groups without) per pass to break a longer cycle; a swapped value that still needs extension stays pending.
   Output: the emitted instructions in the validator's language (ShuffleModel.minst).  Definitions only. *)
From Coq Require Import ZArith List Bool.
Import ListNotations.
From Verif Require Import CallConv.ShuffleModel.
Local Open Scope Z_scope.

(* a variable: current register id and integer type (size in bytes, signedness), destination register id and type, done flag *)
Record svar := mkVar { v_cur : Z; v_csz : Z; v_csg : bool; v_out : Z; v_osz : Z; v_osg : bool; v_done : bool }.

(* target: x86-64 GP group (has xchg) / AArch64 GP group (no swap instruction: scratch register) *)
Inductive starget := TX64 | TA64.
Definition has_swap (t : starget) : bool := match t with TX64 => true | TA64 => false end.

Definition greg (id : Z) : loc := Reg 0 id.

(* emit_arg_move for integers, register to register: the instruction that brings a value of type (csz, csg) in `src` to `dst`
   typed (osz, osg) *)
Definition conv_move (t : starget) (dst src : Z) (csz : Z) (csg : bool) (osz : Z) (osg : bool) : minst :=
  match t with
  | TX64 =>
      if csg && osg && (csz <? osz) then IExt (greg dst) (greg src) ES (8 * csz) (8 * osz) (if 4 <=? osz then 64 else 8 * osz)   (* movsx / movsxd *)
      else let m := Z.min csz osz in
           if m <? 4 then IExt (greg dst) (greg src) EZ (8 * m) 32 64                      (* movzx r32, r8/r16 *)
           else if m =? 4 then IExt (greg dst) (greg src) EZ 32 32 64                      (* mov r32, r32 *)
           else IExt (greg dst) (greg src) EZ 64 64 64                                     (* mov r64, r64 *)
  | TA64 =>
      let w := if osz =? 8 then 64 else 32 in
      if csz <? osz then
        (if csg then IExt (greg dst) (greg src) ES (8 * csz) w 64                          (* sxtb / sxth / sxtw *)
         else IExt (greg dst) (greg src) EZ (8 * csz) 32 64)                               (* uxtb / uxth / mov w *)
      else IExt (greg dst) (greg src) EZ w w 64                                            (* mov x / mov w *)
  end.

Definition needs_ext (v : svar) : bool := v_csz v <? v_osz v.

(* init_work_data: a variable already in its destination register is done unless the destination type is wider *)
Definition init_var (cur csz : Z) (csg : bool) (out osz : Z) (osg : bool) : svar :=
  mkVar cur csz csg out osz osg ((cur =? out) && (osz <=? csz)).

Record sstate := mkS { s_vars : list svar; s_emit : list minst (* in emission order *);
                       s_did : bool; s_pending : bool; s_postponed : bool }.

Definition assigned (vs : list svar) (r : Z) : bool := existsb (fun v => v_cur v =? r) vs.
Fixpoint find_at (vs : list svar) (r : Z) (i : nat) : option nat :=
  match vs with [] => None | v :: rest => if v_cur v =? r then Some i else find_at rest r (S i) end.
Fixpoint set_nth (vs : list svar) (i : nat) (x : svar) : list svar :=
  match vs, i with
  | [], _ => []
  | _ :: r, O => x :: r
  | v :: r, S k => v :: set_nth r k x
  end.
Definition zmin_list (l : list Z) : option Z :=
  match l with [] => None | a :: r => Some (fold_left Z.min r a) end.

Definition upd_cur (v : svar) (r : Z) (done : bool) : svar := mkVar r (v_csz v) (v_csg v) (v_out v) (v_osz v) (v_osg v) done.
Definition moved (v : svar) (r : Z) (done : bool) : svar := mkVar r (v_osz v) (v_osg v) (v_out v) (v_osz v) (v_osg v) done.

(* one variable of one pass *)
Definition step_var (t : starget) (work : list Z) (s : sstate) (i : nat) : sstate :=
  match nth_error (s_vars s) i with
  | None => s
  | Some v =>
    if v_done v then s else
    let vs := s_vars s in
    if negb (assigned vs (v_out v)) || (v_cur v =? v_out v) then
      (* EmitMove to the destination register *)
      mkS (set_nth vs i (moved v (v_out v) true))
          (s_emit s ++ [conv_move t (v_out v) (v_cur v) (v_csz v) (v_csg v) (v_osz v) (v_osg v)]) true true (s_postponed s)
    else
      match find_at vs (v_out v) O with
      | None => s
      | Some j =>
        match nth_error vs j with
        | None => s
        | Some alt =>
          let mutual := v_out alt =? v_cur v in
          let stuck := s_postponed s && negb (v_done alt) in
          if mutual || stuck then
            let postponed' := if stuck && negb mutual then false else s_postponed s in
            if has_swap t then
              let w := if Z.max (v_csz v) (v_csz alt) <=? 4 then 32 else 64 in
              let v' := upd_cur v (v_out v) (negb (needs_ext v)) in
              let alt_done := mutual && negb (needs_ext alt) in
              let alt' := upd_cur alt (v_cur v) alt_done in
              mkS (set_nth (set_nth vs i v') j alt')
                  (s_emit s ++ [IXchg (greg (v_out v)) (greg (v_cur v)) w 64]) true
                  (s_pending s || needs_ext v || negb alt_done) postponed'
            else
              let avail := filter (fun r => negb (assigned vs r)) work in
              let pref := filter (fun r => negb (existsb (fun u => v_out u =? r) vs)) avail in
              match zmin_list (match pref with [] => avail | _ => pref end) with
              | None => mkS vs (s_emit s) (s_did s) true (s_postponed s)    (* no scratch register: nothing emitted, flag kept *)
              | Some sc =>
                  mkS (set_nth vs i (moved v sc false))
                      (s_emit s ++ [conv_move t sc (v_cur v) (v_csz v) (v_csg v) (v_osz v) (v_osg v)]) true true postponed'
              end
          else mkS vs (s_emit s) (s_did s) true (s_postponed s)
        end
      end
  end.

Definition pass (t : starget) (work : list Z) (s : sstate) : sstate :=
  fold_left (step_var t work) (seq 0 (length (s_vars s))) s.

(* the outer loop.  SErr = kInvalidState ("did nothing twice"); SFuel = the model ran out of fuel (proved impossible) *)
Inductive sres := SOk (ms : list minst) | SErr | SFuel.
Fixpoint solve_loop (t : starget) (work : list Z) (fuel : nat) (vs : list svar) (emit : list minst) (postponed : bool) : sres :=
  match fuel with
  | O => SFuel
  | S f =>
      let s := pass t work (mkS vs emit false false postponed) in
      if negb (s_pending s) then SOk (s_emit s)
      else if negb (s_did s) && s_postponed s then SErr      (* (flags & (DidSome | Postponed)) == Postponed *)
      else solve_loop t work f (s_vars s) (s_emit s) (negb (s_did s))
  end.

(* the Postponed flag is cleared only together with an emission (fixes/C06-stuck-cycle-flag.patch), so "did nothing" and "still
   postponed" coincide at the end of a pass that started postponed *)
(* fuel: 4 * n + 4 passes are proved sufficient in SolverProofs.v (the former bound 2 * n + 2 is NOT: a cycle of 8 variables that
   all need widening takes 3 passes per variable on x86-64).  The fuel has no influence on the emitted list of an SOk result. *)
Definition solve (t : starget) (work : list Z) (vs : list svar) : sres :=
  solve_loop t work (4 * length vs + 4) vs [] false.

(* the moves the sequence has to realise (for the validator): source / destination register, widths, extension kind as in
   tools/c06_shuffle.py: sign extension when both types are signed, no requirement for signed -> wider unsigned *)
Definition move_of (v0 : svar) : move :=
  {| m_src := greg (v_cur v0); m_dst := greg (v_out v0); m_sbits := 8 * v_csz v0;
     m_ssigned := v_csg v0 && v_osg v0; m_dbits := 8 * v_osz v0;
     m_int := negb (v_csg v0 && negb (v_osg v0) && (v_csz v0 <? v_osz v0)) |}.

(* C06 — reference semantics of the general-purpose move instructions, written from the architecture manuals INDEPENDENTLY of the
   whitelist table in DecodeModel.v (no widths table here: each mnemonic is described by what the manual says it computes).
     Intel SDM vol. 1, 3.4.1.1: in 64-bit mode a 32-bit result is zero-extended to 64 bits, 8- and 16-bit results leave the
       other bits of the destination register unchanged.  MOV copies, MOVZX zero-extends, MOVSX / MOVSXD sign-extend the source
       to the destination operand size; XCHG exchanges the two operands.
     Arm ARM C6.2: a write to a W register zeroes bits 63:32.  SXTB/SXTH/SXTW sign-extend, UXTB/UXTH zero-extend the low 8/16/32
       bits of the source; LDRB/LDRH zero-extend, LDRSB/LDRSH/LDRSW sign-extend the loaded byte/halfword/word to the destination
       register width; LDR/STR transfer the register width; STRB/STRH store the low 8/16 bits.
   A memory operand is one cell of the validator's state (ShuffleModel.state: a non-negative integer per location); an access of n
   bits reads / replaces the low n bits of its cell.  DecodeProofs.v proves that what DecodeModel.decode_inst returns executes
   (ShuffleModel.exec_inst) exactly as described here. *)
From Coq Require Import ZArith List Bool String.
Import ListNotations.
Local Open Scope Z_scope.

(* zero / sign extension of the low n bits of x to a w-bit two's complement pattern (n <= w) *)
Definition zx (n x : Z) : Z := x mod 2 ^ n.
Definition sx (n w x : Z) : Z := let v := x mod 2 ^ n in if v <? 2 ^ (n - 1) then v else 2 ^ w - 2 ^ n + v.

(* new content of a 64-bit general-purpose register when the w-bit view is written with v (0 <= v < 2^w) *)
Definition x86_gp_write (old w v : Z) : Z := if (w =? 32) || (w =? 64) then v else (old / 2 ^ w) * 2 ^ w + v.
Definition a64_gp_write (old w v : Z) : Z := v.
Definition gp_write (a64 : bool) (old w v : Z) : Z := if a64 then a64_gp_write old w v else x86_gp_write old w v.

(* new content of a memory cell when its low n bits are replaced by v (0 <= v < 2^n) *)
Definition cell_write (old n v : Z) : Z := (old / 2 ^ n) * 2 ^ n + v.

(* the value an instruction writes to its register destination of width dw, given the source operand's width sw (0 when the
   printed memory operand carries no size) and content x *)
Definition isa_x86_value : list (string * (Z -> Z -> Z -> Z)) :=
  [ ("mov", fun dw sw x => zx dw x); ("movzx", fun dw sw x => zx sw x);
    ("movsx", fun dw sw x => sx sw dw x); ("movsxd", fun dw sw x => sx sw dw x) ]%string.
Definition isa_a64_value : list (string * (Z -> Z -> Z -> Z)) :=
  [ ("mov", fun dw sw x => zx dw x);
    ("sxtb", fun dw sw x => sx 8 dw x); ("sxth", fun dw sw x => sx 16 dw x); ("sxtw", fun dw sw x => sx 32 dw x);
    ("uxtb", fun dw sw x => zx 8 x); ("uxth", fun dw sw x => zx 16 x);
    ("ldr", fun dw sw x => zx dw x); ("ldur", fun dw sw x => zx dw x);
    ("ldrb", fun dw sw x => zx 8 x); ("ldrh", fun dw sw x => zx 16 x);
    ("ldrsb", fun dw sw x => sx 8 dw x); ("ldrsh", fun dw sw x => sx 16 dw x); ("ldrsw", fun dw sw x => sx 32 dw x) ]%string.
(* the number of bits a store writes, given the width rw of the register operand *)
Definition isa_x86_store : list (string * (Z -> Z)) := [ ("mov", fun rw => rw) ]%string.
Definition isa_a64_store : list (string * (Z -> Z)) :=
  [ ("str", fun rw => rw); ("stur", fun rw => rw); ("strb", fun rw => 8); ("strh", fun rw => 16) ]%string.

Fixpoint assoc {A : Type} (t : list (string * A)) (m : string) : option A :=
  match t with
  | [] => None
  | (k, c) :: r => if String.eqb k m then Some c else assoc r m
  end.

Definition isa_value (a64 : bool) := assoc (if a64 then isa_a64_value else isa_x86_value).
Definition isa_store (a64 : bool) := assoc (if a64 then isa_a64_store else isa_x86_store).

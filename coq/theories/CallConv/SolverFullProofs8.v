(* C06 - proofs about the model of the whole of emit_args_assignment (SolverFullModel.v), eighth part: COMPLETENESS of the translation
   validator (ShuffleModel.validate) on the outputs of the solver model: every sequence a successful run emits is accepted. *)
From Coq Require Import ZArith Lia List Bool.
From Verif Require Import Base.ZBits CallConv.ShuffleModel CallConv.ShuffleProofs CallConv.SolverModel CallConv.SolverProofs
  CallConv.SolverFullModel CallConv.SolverFullProofs CallConv.SolverFullProofs2 CallConv.SolverFullProofs4.
Import ListNotations.
Local Open Scope Z_scope.

Definition fallowed_locs (wgp wvec : list Z) : list loc := map (Reg 0) wgp ++ map (Reg 1) wvec.

Lemma map_dst_fmove vs : map m_dst (map fmove_of vs) = map f_out vs.
Proof. rewrite map_map. apply map_ext. intros v. reflexivity. Qed.

(* ---------------------------------------------------------------------------------------------- *)
(* the four conjuncts that follow from earlier theorems *)

Lemma fsolve_validate_wf : forall a wgp wvec vs0 ms, fwf_inputb wgp wvec vs0 = true -> farch_okb a vs0 = true ->
  fsolve a wgp wvec vs0 = SOk ms -> forallb wf_inst ms = true.
Proof. exact fsolve_wf. Qed.

Lemma fsolve_validate_writes : forall a wgp wvec vs0 ms, fwf_inputb wgp wvec vs0 = true -> farch_okb a vs0 = true ->
  fsolve a wgp wvec vs0 = SOk ms ->
  forallb (fun l => mem_loc l (fallowed_locs wgp wvec) || mem_loc l (map m_dst (map fmove_of vs0))) (writes ms) = true.
Proof.
  intros a wgp wvec vs0 ms Hwf Har Hs. apply forallb_forall. intros l Hl. rewrite map_dst_fmove. apply orb_true_iff.
  destruct (fsolve_writes a wgp wvec vs0 ms Hwf Har Hs l Hl) as [H | [H | H]].
  - right. apply mem_loc_In. assumption.
  - left. apply mem_loc_In. unfold fallowed_locs. apply in_or_app. left. assumption.
  - left. apply mem_loc_In. unfold fallowed_locs. apply in_or_app. right. assumption.
Qed.

Lemma fsolve_validate_nodup : forall wgp wvec vs0, fwf_inputb wgp wvec vs0 = true -> nodup_locs (map m_dst (map fmove_of vs0)) = true.
Proof.
  intros wgp wvec vs0 H. rewrite map_dst_fmove. unfold fwf_inputb in H.
  apply andb_prop in H. destruct H as [H _]. apply andb_prop in H. destruct H as [_ H]. exact H.
Qed.

Lemma fsolve_validate_ranges : forall a wgp wvec vs0 ms, fwf_inputb wgp wvec vs0 = true -> farch_okb a vs0 = true -> a <> FX86 ->
  slots_okb vs0 = true -> fsolve a wgp wvec vs0 = SOk ms -> mem_ranges_ok ms = true.
Proof. intros a wgp wvec vs0 ms Hwf Har Hx Hok Hs. exact (fsolve_mem_ranges_ok a wgp wvec vs0 ms Hwf Har Hx Hs Hok). Qed.

(* ---------------------------------------------------------------------------------------------- *)
(* abstract values: the location they refer to is an argument *)

Definition reloc (l : loc) (A : aval) : aval :=
  match A with AId _ => AId l | AExt _ n e w wz => AExt l n e w wz | AUnknown => AUnknown end.
Definition r0 : loc := Reg 0 0.

Lemma read_aval_reloc l A e n w wz : read_aval (reloc l A) e n w wz = reloc l (read_aval A e n w wz).
Proof.
  destruct A as [l1 | l1 n1 e1 w1 wz1 |]; cbn [reloc read_aval]; try reflexivity.
  destruct (n <=? n1); [reflexivity|]. destruct (n <=? wz1); [| reflexivity]. destruct e1; [reflexivity|].
  destruct (n <=? w1); [destruct e |]; reflexivity.
Qed.

Lemma check_move_reloc v0 A :
  check_move (fmove_of v0) (reloc (f_cur v0) A) =
  check_move (fmk_mv (f_int v0) (f_csz v0) (f_csg v0) (f_osz v0) (f_osg v0)) (reloc r0 A).
Proof.
  destruct A; unfold check_move, fmove_of, fmk_mv, ShuffleModel.needs_ext, reloc, r0; cbn [m_src m_sbits m_dbits m_int m_ssigned];
    rewrite ?loc_eqb_refl; reflexivity.
Qed.

(* a value not yet converted: untouched, or passed through exchanges (32 / 64 bits wide, x86 GP registers) *)
Definition ushapes (l : loc) (int : bool) (csz : Z) : list aval :=
  AId l :: (if int then (if csz <=? 4 then [AExt l 32 EZ 32 64; AExt l 32 EZ 64 64] else []) ++ [AExt l 64 EZ 64 64] else []).

Lemma ushapes_reloc l int csz A : In A (ushapes l int csz) -> exists B, In B (ushapes r0 int csz) /\ A = reloc l B.
Proof.
  assert (E : ushapes l int csz = map (reloc l) (ushapes r0 int csz)).
  { unfold ushapes. destruct int; [destruct (csz <=? 4) |]; reflexivity. }
  rewrite E. intros H. apply in_map_iff in H. destruct H as [B [H1 H2]]. exists B. split; [assumption | symmetry; assumption].
Qed.

Lemma ushapes_xchg l csz w A : In A (ushapes l true csz) -> (w = 32 /\ csz <= 4) \/ (w = 64) ->
  In (read_aval A EZ w w 64) (ushapes l true csz).
Proof.
  unfold ushapes. intros H Hw. destruct (Z.leb_spec csz 4) as [Hc | Hc]; cbn [app In] in H |- *.
  - destruct Hw as [[E _] | E]; subst w; repeat (destruct H as [H | H]; [subst A; cbn; tauto|]); destruct H.
  - destruct Hw as [[E Hc'] | E]; [lia|]. subst w. repeat (destruct H as [H | H]; [subst A; cbn; tauto|]); destruct H.
Qed.

(* width of the registers of a group without exchange instruction (what a copy through a scratch register defines) *)
Definition regw (a : farch) (int : bool) : Z := if int then 64 else match a with FX64A => 512 | _ => 128 end.
Definition rdable (a : farch) (int : bool) (A : aval) : bool :=
  match A with AExt _ _ _ _ wz => regw a int <=? wz | _ => false end.
Definition grp_of (int : bool) : Z := if int then 0 else 1.

Lemma rdable_reloc a int l A : rdable a int (reloc l A) = rdable a int A.
Proof. destruct A; reflexivity. Qed.

(* the converting move / load applied to a not yet converted value *)
Definition k_conv (a : farch) (reg int : bool) (csz : Z) (csg : bool) (osz : Z) (osg : bool) : bool :=
  let '(e, n, w, wz) := fc_params a reg int csz csg osz osg in
  forallb (fun B => let R := reloc r0 (read_aval B e n w wz) in
                    check_move (fmk_mv int csz csg osz osg) R && (grp_swap a (grp_of int) || rdable a int R))
          (ushapes r0 int csz).

Lemma k_conv_ok a reg int csz csg osz osg : ty_ok a int csz csg osz osg -> k_conv a reg int csz csg osz osg = true.
Proof.
  unfold ty_ok. destruct int.
  - intros [[H1 | [H1 | [H1 | H1]]] [H2 | [H2 | [H2 | H2]]]]; subst; destruct a, reg, csg, osg; vm_compute; reflexivity.
  - intros [[H1 | [H1 | [H1 | [Ha [H1 | H1]]]]] [H2 [H3 H4]]]; subst; try (destruct a); destruct reg; vm_compute; reflexivity.
Qed.

(* phase 1: (conversion,) store of the destination type's bits *)
Definition k_p1 (a : farch) (doconv reg int : bool) (csz : Z) (csg : bool) (osz : Z) (osg : bool) : bool :=
  let '(e, n, w, wz) := fc_params a reg int csz csg osz osg in
  let R := if doconv then read_aval (AId r0) e n w wz else AId r0 in
  forallb (fun ns => check_move (fmk_mv int csz csg osz osg) (reloc r0 (read_aval R EZ ns ns ns)))
          (8 * osz :: match a with FX86 => if osz =? 1 then [32] else [] | _ => [] end).

Lemma k_p1_ok a doconv reg int csz csg osz osg : ty_ok a int csz csg osz osg -> (doconv = false -> osz <= csz) ->
  k_p1 a doconv reg int csz csg osz osg = true.
Proof.
  unfold ty_ok. destruct int.
  - intros [[H1 | [H1 | [H1 | H1]]] [H2 | [H2 | [H2 | H2]]]] Hd; subst; destruct doconv; try (specialize (Hd eq_refl));
      first [ exfalso; lia | destruct a, reg, csg, osg; vm_compute; reflexivity ].
  - intros [[H1 | [H1 | [H1 | [Ha [H1 | H1]]]]] [H2 [H3 H4]]] Hd; subst; try (destruct a); destruct doconv, reg; vm_compute; reflexivity.
Qed.

(* the copy of an already converted value through a scratch register (groups without exchange) *)
Definition k_copy (a : farch) (int : bool) (osz : Z) (osg : bool) : bool :=
  let '(e, n, w, wz) := fc_params a true int osz osg osz osg in
  grp_swap a (grp_of int) || (is_ez e && (8 * osz <=? n) && (n <=? regw a int) && (regw a int <=? wz) && (n <=? w) && (w <=? wz)).

Lemma k_copy_ok a int csz csg osz osg : ty_ok a int csz csg osz osg -> k_copy a int osz osg = true.
Proof.
  unfold ty_ok. destruct int.
  - intros [_ [H2 | [H2 | [H2 | H2]]]]; subst; destruct a, osg; vm_compute; reflexivity.
  - intros [[H1 | [H1 | [H1 | [Ha [H1 | H1]]]]] [H2 [H3 H4]]]; subst; try (destruct a); vm_compute; reflexivity.
Qed.

(* a not yet converted value whose destination type is not wider is acceptable as it is *)
Definition k_narrow (int : bool) (csz : Z) (csg : bool) (osz : Z) (osg : bool) : bool :=
  forallb (fun B => check_move (fmk_mv int csz csg osz osg) (reloc r0 B)) (ushapes r0 int csz).

Lemma k_narrow_ok a int csz csg osz osg : ty_ok a int csz csg osz osg -> osz <= csz -> k_narrow int csz csg osz osg = true.
Proof.
  unfold ty_ok. destruct int.
  - intros [[H1 | [H1 | [H1 | H1]]] [H2 | [H2 | [H2 | H2]]]] Hd; subst;
      first [ exfalso; lia | destruct csg, osg; vm_compute; reflexivity ].
  - intros [[H1 | [H1 | [H1 | [Ha [H1 | H1]]]]] [H2 [H3 H4]]] Hd; subst; vm_compute; reflexivity.
Qed.

(* a value check_move accepts stays acceptable when at least the destination type's bits are copied (zero extension) and no more
   bits are read than the value defines *)
Lemma check_copy mv A n w wz : check_move mv A = true -> m_dbits mv <= n -> n <= w -> w <= wz ->
  match A with AExt _ _ _ _ wz1 => n <= wz1 | _ => True end -> check_move mv (read_aval A EZ n w wz) = true.
Proof.
  unfold check_move. intros H Hn Hw Hz Hr. apply andb_prop in H. destruct H as [H0 H]. rewrite H0. cbn [andb].
  pose proof H0 as H0'. apply andb_prop in H0'. destruct H0' as [Hs Hd]. apply Z.ltb_lt in Hs. apply Z.ltb_lt in Hd.
  destruct A as [l | l n1 e1 w1 wz1 |]; [| | discriminate].
  - apply andb_prop in H. destruct H as [Hl Hx]. apply negb_true_iff in Hx. cbn [read_aval]. rewrite Hl, Hx. cbn [andb].
    apply Z.leb_le. lia.
  - apply andb_prop in H. destruct H as [Hl H]. cbn [read_aval].
    destruct (Z.leb_spec n n1) as [L1 | L1].
    + rewrite Hl. cbn [andb]. destruct (ShuffleModel.needs_ext mv) eqn:Hx.
      * exfalso. unfold ShuffleModel.needs_ext in Hx. apply andb_prop in Hx. destruct Hx as [_ Hx]. apply Z.ltb_lt in Hx.
        apply andb_prop in H. destruct H as [H _]. apply andb_prop in H. destruct H as [H _]. apply Z.eqb_eq in H. lia.
      * apply Z.leb_le. lia.
    + destruct (Z.leb_spec n wz1) as [L2 | L2]; [| lia].
      destruct e1.
      * rewrite Hl. cbn [andb]. destruct (ShuffleModel.needs_ext mv); [| exact H].
        apply andb_prop in H. destruct H as [H H3]. apply andb_prop in H. destruct H as [H1 H2]. rewrite H1, H3. cbn [andb].
        rewrite andb_true_r. apply Z.leb_le. lia.
      * destruct (Z.leb_spec n w1) as [L3 | L3]; rewrite Hl; cbn [andb]; (destruct (ShuffleModel.needs_ext mv); [| exact H]);
          apply andb_prop in H; destruct H as [H H3]; apply andb_prop in H; destruct H as [H1 H2]; rewrite H1; cbn [andb];
          apply andb_prop in H3; destruct H3 as [H3 H4]; rewrite H3; cbn [andb].
        -- apply andb_true_intro. split; apply Z.leb_le; lia.
        -- rewrite H4, andb_true_r. apply Z.leb_le. lia.
Qed.

Lemma read_aval_rdable a int mv A e n w wz : check_move mv (read_aval A e n w wz) = true -> regw a int <= wz ->
  rdable a int (read_aval A e n w wz) = true.
Proof.
  intros H Hz.
  assert (G : read_aval A e n w wz = AUnknown \/ exists l n' e' w', read_aval A e n w wz = AExt l n' e' w' wz).
  { destruct A as [l | l n1 e1 w1 wz1 |]; cbn [read_aval]; [right; eauto | | left; reflexivity].
    destruct (n <=? n1); [right; eauto|]. destruct (n <=? wz1); [| left; reflexivity]. destruct e1; [right; eauto|].
    destruct (n <=? w1); [destruct e |]; right; eauto. }
  destruct G as [G | [l [n' [e' [w' G]]]]]; rewrite G in H |- *.
  - unfold check_move in H. rewrite andb_false_r in H. discriminate.
  - cbn [rdable]. apply Z.leb_le. assumption.
Qed.

Lemma sym_exec_snoc em i : sym_exec (em ++ [i]) [] = transfer (sym_exec em []) i.
Proof. unfold sym_exec. rewrite fold_left_app. reflexivity. Qed.

Lemma alookup_snoc_other em i l : ~ In l (inst_writes i) -> alookup (sym_exec (em ++ [i]) []) l = alookup (sym_exec em []) l.
Proof.
  intros H. rewrite sym_exec_snoc. destruct i as [d s e n w wz | x y w wz]; cbn [transfer inst_writes In] in *.
  - rewrite alookup_aset. destruct (loc_eqb_spec l d); [exfalso; apply H; left; congruence | reflexivity].
  - rewrite !alookup_aset. destruct (loc_eqb_spec l y); [exfalso; apply H; right; left; congruence|].
    destruct (loc_eqb_spec l x); [exfalso; apply H; left; congruence | reflexivity].
Qed.

Lemma alookup_snoc_ext em d s e n w wz :
  alookup (sym_exec (em ++ [IExt d s e n w wz]) []) d = read_aval (alookup (sym_exec em []) s) e n w wz.
Proof. rewrite sym_exec_snoc. cbn [transfer]. rewrite alookup_aset, loc_eqb_refl. reflexivity. Qed.

(* ---------------------------------------------------------------------------------------------- *)
(* the abstract twin of the invariant of SolverFullProofs.v *)

Section Sym.
Variable a : farch.
Variables wgp wvec : list Z.
Variable vs0 : list fvar.
Hypothesis Hv0 : forall i v0, nth_error vs0 i = Some v0 -> v0_ok a wgp wvec v0.
Hypothesis Hout0 : fout_inj vs0.

Definition st00 : state := fun _ => 0.
Local Notation finv' := (finv a wgp wvec vs0 st00).

(* converted: acceptable; while it still travels (scratch copies, groups without exchange) it is a full register *)
Definition cstate (v0 v : fvar) (A : aval) : Prop :=
  check_move (fmove_of v0) A = true /\
  (f_done v = false -> is_regl (f_cur v) = true /\ grp_swap a (vgrp v0) = false /\ rdable a (f_int v0) A = true).
Definition srel (v0 v : fvar) (A : aval) : Prop :=
  (f_csz v = f_csz v0 /\ f_csg v = f_csg v0 /\ In A (ushapes (f_cur v0) (f_int v0) (f_csz v0))) \/
  (f_csz v = f_osz v0 /\ f_csg v = f_osg v0 /\ cstate v0 v A).
Definition sinv (vars : list fvar) (emit : list minst) : Prop :=
  forall i v0 v, nth_error vs0 i = Some v0 -> nth_error vars i = Some v -> srel v0 v (alookup (sym_exec emit []) (f_cur v)).

Lemma vgrp_grp_of v : vgrp v = grp_of (f_int v).
Proof. reflexivity. Qed.

(* the converting move / load of a variable that is not done *)
Lemma conv_check v0 v A e n w wz : v0_ok a wgp wvec v0 ->
  f_osz v = f_osz v0 -> f_osg v = f_osg v0 -> f_int v = f_int v0 -> f_done v = false -> srel v0 v A ->
  fc_params a (is_regl (f_cur v)) (f_int v) (f_csz v) (f_csg v) (f_osz v) (f_osg v) = (e, n, w, wz) ->
  check_move (fmove_of v0) (read_aval A e n w wz) = true /\
  (grp_swap a (vgrp v0) = false -> rdable a (f_int v0) (read_aval A e n w wz) = true).
Proof.
  intros [Hty0 _] Rz Rg Ri Hd Hs Ep. rewrite Rz, Rg, Ri in Ep.
  destruct Hs as [[E1 [E2 Hu]] | [E1 [E2 [Hc Hn]]]]; rewrite E1, E2 in Ep.
  - destruct (ushapes_reloc _ _ _ _ Hu) as [B [HB EA]]. subst A.
    pose proof (k_conv_ok a (is_regl (f_cur v)) _ _ _ _ _ Hty0) as Hk. unfold k_conv in Hk. rewrite Ep in Hk.
    rewrite forallb_forall in Hk. specialize (Hk B HB). cbv zeta in Hk. apply andb_prop in Hk. destruct Hk as [K1 K2].
    rewrite rdable_reloc in K2. rewrite read_aval_reloc, check_move_reloc, rdable_reloc. split; [assumption|].
    intros Hg. rewrite vgrp_grp_of in Hg. rewrite Hg in K2. exact K2.
  - destruct (Hn Hd) as [Hreg [Hg Hr]]. rewrite Hreg in Ep.
    pose proof (k_copy_ok a _ _ _ _ _ Hty0) as Hk. unfold k_copy in Hk. rewrite Ep in Hk.
    rewrite vgrp_grp_of in Hg. rewrite Hg in Hk. cbn [orb] in Hk.
    apply andb_prop in Hk. destruct Hk as [Hk K6]. apply andb_prop in Hk. destruct Hk as [Hk K5].
    apply andb_prop in Hk. destruct Hk as [Hk K4]. apply andb_prop in Hk. destruct Hk as [Hk K3].
    apply andb_prop in Hk. destruct Hk as [K1 K2]. destruct e; [| discriminate].
    apply Z.leb_le in K2. apply Z.leb_le in K3. apply Z.leb_le in K4. apply Z.leb_le in K5. apply Z.leb_le in K6.
    assert (Hck : check_move (fmove_of v0) (read_aval A EZ n w wz) = true).
    { apply check_copy; try assumption.
      destruct A as [? | ? ? ? ? wz1 |]; try exact I. cbn [rdable] in Hr. apply Z.leb_le in Hr. lia. }
    split; [assumption|]. intros _. eapply read_aval_rdable; eassumption.
Qed.

Lemma finv_facts vars em i v : finv' vars em -> nth_error vars i = Some v ->
  exists v0, nth_error vs0 i = Some v0 /\ v0_ok a wgp wvec v0 /\ f_out v = f_out v0 /\ f_osz v = f_osz v0 /\ f_osg v = f_osg v0 /\
             f_int v = f_int v0.
Proof.
  intros Hinv Hv. destruct (finv_orig a wgp wvec vs0 st00 Hv0 _ _ _ _ Hinv Hv) as [v0 [E0 [Hok [Ro [Rz [Rg [Ri _]]]]]]].
  exists v0. split; [assumption|]. split; [assumption|]. split; [assumption|]. split; [assumption|]. split; assumption.
Qed.

Lemma sinv_conv vars emit i v g r d :
  finv' vars emit -> sinv vars emit -> nth_error vars i = Some v -> f_done v = false ->
  (forall k u, k <> i -> nth_error vars k = Some u -> f_cur u <> Reg g r) -> g = vgrp v ->
  (d = false -> grp_swap a g = false) ->
  sinv (fset vars i (fmoved v (Reg g r) d))
       (emit ++ [fconv a (Reg g r) (f_cur v) (f_int v) (f_csz v) (f_csg v) (f_osz v) (f_osg v)]).
Proof.
  intros Hinv Hs Hv Hd Hfree Hg Hsw.
  destruct (finv_facts _ _ _ _ Hinv Hv) as [v0 [E0 [Hok [Ro [Rz [Rg Ri]]]]]].
  pose proof (nth_error_lt _ _ _ Hv) as Hi.
  rewrite fconv_eq. destruct (fc_params a (is_regl (f_cur v)) (f_int v) (f_csz v) (f_csg v) (f_osz v) (f_osg v)) as [[[e n] w] wz] eqn:Ep.
  cbv beta iota. intros k u0 u Hu0 Hu. destruct (Nat.eq_dec k i) as [E | E].
  - subst k. rewrite nth_fset_eq in Hu by assumption. inversion Hu; subst u. assert (u0 = v0) by congruence. subst u0.
    cbn [fmoved f_cur]. rewrite alookup_snoc_ext.
    destruct (conv_check v0 v _ e n w wz Hok Rz Rg Ri Hd (Hs i v0 v E0 Hv) Ep) as [C1 C2].
    right. cbn [fmoved f_csz f_csg]. split; [assumption|]. split; [assumption|]. split; [assumption|].
    cbn [fmoved f_done f_cur is_regl]. intros Hdd. split; [reflexivity|].
    assert (Hgs : grp_swap a (vgrp v0) = false).
    { replace (vgrp v0) with g; [apply Hsw; assumption|]. rewrite Hg. unfold vgrp. rewrite Ri. reflexivity. }
    split; [assumption | apply C2; assumption].
  - rewrite nth_fset_ne in Hu by congruence. rewrite alookup_snoc_other; [exact (Hs k u0 u Hu0 Hu)|].
    cbn [inst_writes In]. intros [E' | []]. eapply Hfree; [| eassumption | symmetry; eassumption]. assumption.
Qed.

Lemma sinv_xchg vars emit i j v alt g c o dv da :
  finv' vars emit -> sinv vars emit -> nth_error vars i = Some v -> nth_error vars j = Some alt ->
  f_done v = false -> f_done alt = false ->
  f_cur v = Reg g c -> f_cur alt = Reg g o -> c <> o -> grp_swap a g = true ->
  sinv (fset (fset vars i (fupd v (Reg g o) dv)) j (fupd alt (Reg g c) da))
       (emit ++ [IXchg (Reg g o) (Reg g c) (if Z.max (f_csz v) (f_csz alt) <=? 4 then 32 else 64) 64]).
Proof.
  intros Hinv Hs Hv Ha Hdv Hda Ecv Eca Hne Hsw.
  destruct (finv_facts _ _ _ _ Hinv Hv) as [v0 [E0 [Hok [Ro [Rz [Rg Ri]]]]]].
  destruct (finv_facts _ _ _ _ Hinv Ha) as [a0 [Ea0 [Hoka [Ao [Az [Ag Ai]]]]]].
  destruct (finv_cur_reg a wgp wvec vs0 st00 Hv0 _ _ _ _ _ _ Hinv Hv Ecv) as [Gv _].
  destruct (finv_cur_reg a wgp wvec vs0 st00 Hv0 _ _ _ _ _ _ Hinv Ha Eca) as [Ga _].
  pose proof (grp_swap_true a g Hsw) as Hg0.
  assert (Hiv : f_int v0 = true). { rewrite <- Ri. unfold vgrp in Gv. destruct (f_int v); [reflexivity | lia]. }
  assert (Hia : f_int a0 = true). { rewrite <- Ai. unfold vgrp in Ga. destruct (f_int alt); [reflexivity | lia]. }
  assert (Gv0 : vgrp v0 = g). { unfold vgrp. rewrite Hiv. lia. }
  assert (Ga0 : vgrp a0 = g). { unfold vgrp. rewrite Hia. lia. }
  pose proof (Hs i v0 v E0 Hv) as Sv. pose proof (Hs j a0 alt Ea0 Ha) as Sa.
  destruct Sv as [[V1 [V2 Vu]] | [_ [_ [_ Hn]]]]; [| destruct (Hn Hdv) as [_ [Hg _]]; rewrite Gv0 in Hg; congruence].
  destruct Sa as [[A1 [A2 Au]] | [_ [_ [_ Hn]]]]; [| destruct (Hn Hda) as [_ [Hg _]]; rewrite Ga0 in Hg; congruence].
  rewrite Hiv in Vu. rewrite Hia in Au.
  pose proof (nth_error_lt _ _ _ Hv) as Hi. pose proof (nth_error_lt _ _ _ Ha) as Hj.
  assert (Hij : i <> j). { intros E. subst j. assert (alt = v) by congruence. subst alt. congruence. }
  destruct Hinv as [_ [Hinj _]].
  set (w := if Z.max (f_csz v) (f_csz alt) <=? 4 then 32 else 64).
  assert (Hw : ((w = 32 /\ f_csz v0 <= 4) \/ w = 64) /\ ((w = 32 /\ f_csz a0 <= 4) \/ w = 64)).
  { unfold w. destruct (Z.leb_spec (Z.max (f_csz v) (f_csz alt)) 4); split; try (right; reflexivity); left; split; try reflexivity; lia. }
  destruct Hw as [Hwv Hwa].
  assert (Hxy : loc_eqb (Reg g o) (Reg g c) = false) by (apply loc_eqb_false; congruence).
  intros k u0 u Hu0 Hu. rewrite nth_fset2 in Hu by assumption.
  destruct (Nat.eq_dec k j) as [Ekj | Ekj]; [| destruct (Nat.eq_dec k i) as [Eki | Eki]].
  - subst k. inversion Hu; subst u. assert (u0 = a0) by congruence. subst u0.
    cbn [fupd f_cur]. rewrite sym_exec_snoc. cbn [transfer]. rewrite alookup_aset, loc_eqb_refl.
    left. cbn [fupd f_csz f_csg]. split; [assumption|]. split; [assumption|]. rewrite Hia.
    rewrite <- Eca. apply ushapes_xchg; assumption.
  - subst k. inversion Hu; subst u. assert (u0 = v0) by congruence. subst u0.
    cbn [fupd f_cur]. rewrite sym_exec_snoc. cbn [transfer]. rewrite !alookup_aset, Hxy, loc_eqb_refl.
    left. cbn [fupd f_csz f_csg]. split; [assumption|]. split; [assumption|]. rewrite Hiv.
    rewrite <- Ecv. apply ushapes_xchg; assumption.
  - rewrite alookup_snoc_other; [exact (Hs k u0 u Hu0 Hu)|].
    cbn [inst_writes In]. intros [E' | [E' | []]].
    + apply Ekj. apply (Hinj k j u alt Hu Ha). congruence.
    + apply Eki. apply (Hinj k i u v Hu Hv). congruence.
Qed.

Lemma fstep_sinv s i s' : fstep_spec a wgp wvec s i s' -> finv' (fs_vars s) (fs_emit s) -> sinv (fs_vars s) (fs_emit s) ->
  sinv (fs_vars s') (fs_emit s').
Proof.
  intros Hs Hinv Hsi. destruct Hs as [Hn | v Hv Hd | v Hv Hd Hnr | v g c o Hv Hd Ec Eo Hc | v g c o j alt Hv Hd Ec Eo Has Hne Hf Ha Eca Hm Hsw
    | v g c o j alt sc Hv Hd Ec Eo Has Hne Hf Ha Eca Hm Hsw Hsc | v g c o j alt Hv Hd Ec Eo Has Hne Hf Ha Eca Hm Hsw Hsc
    | v g c o j alt Hv Hd Ec Eo Has Hne Hf Ha Eca Hm];
    cbn [fs_vars fs_emit]; try assumption.
  - destruct (finv_out_reg a wgp wvec vs0 st00 Hv0 _ _ _ _ _ _ Hinv Hv Eo) as [G1 G2]. rewrite <- Ec.
    apply sinv_conv; try assumption; [| discriminate].
    intros k u Hk Hu E. apply orb_prop in Hc. destruct Hc as [Hc | Hc].
    + apply negb_true_iff in Hc. exact (fassigned_false _ _ _ _ Hc Hu E).
    + apply Z.eqb_eq in Hc. apply Hk. destruct Hinv as [_ [Hinj _]]. apply (Hinj k i u v Hu Hv). congruence.
  - cbv zeta. apply sinv_xchg; try assumption.
    destruct (f_done alt) eqn:Hda; [| reflexivity]. exfalso.
    pose proof (finv_done_cur a wgp wvec vs0 st00 Hv0 _ _ _ _ Hinv Ha Hda) as E.
    cbn [negb] in Hm. rewrite andb_false_r, orb_false_r in Hm. apply loc_eqb_true in Hm. congruence.
  - cbv zeta. destruct (finv_cur_reg a wgp wvec vs0 st00 Hv0 _ _ _ _ _ _ Hinv Hv Ec) as [G1 _]. rewrite <- Ec.
    destruct (fscratch_some _ _ _ _ _ Hsc) as [S1 S2].
    apply sinv_conv; try assumption; [| intros _; assumption].
    intros k u Hk Hu. exact (fassigned_false _ _ _ _ S2 Hu).
Qed.

Definition P2s (s : fstate) : Prop := P2 a wgp wvec vs0 st00 s /\ sinv (fs_vars s) (fs_emit s).

Lemma fstep_P2s s i : P2s s -> P2s (fstep a wgp wvec s i).
Proof.
  intros [H1 H2]. split; [apply (fstep_P2 a wgp wvec vs0 st00 Hv0); assumption|].
  destruct H1 as [Hinv _]. eapply fstep_sinv; [apply fstep_spec_ok | assumption | assumption].
Qed.

Lemma floop_sinv fuel : forall vs emit p vs2 ms, finv' vs emit -> stk_done vs -> sinv vs emit ->
  floop a wgp wvec fuel vs emit p = FOk vs2 ms -> sinv vs2 ms.
Proof.
  induction fuel as [| f IH]; intros vs emit p vs2 ms Hinv Hsd Hp H; cbn [floop] in H; [discriminate|].
  set (s := fpass a wgp wvec (mkFS vs emit false false p)) in *.
  assert (Hs : P2s s).
  { unfold s, fpass. apply (ffold_step_inv a wgp wvec P2s fstep_P2s). split; [split; assumption | assumption]. }
  destruct Hs as [[H1 H2] H3].
  destruct (negb (fs_pending s)).
  - inversion H; subst vs2 ms. assumption.
  - destruct (negb (fs_did s) && fs_postponed s); [discriminate|]. eapply IH; eassumption.
Qed.

(* ---- phase 1 *)
Lemma sym_exec_app em new : sym_exec (em ++ new) [] = sym_exec new (sym_exec em []).
Proof. unfold sym_exec. apply fold_left_app. Qed.

Lemma alookup_app_other new : forall sg l, ~ In l (writes new) -> alookup (sym_exec new sg) l = alookup sg l.
Proof.
  induction new as [| i r IH]; intros sg l H; [reflexivity|]. unfold sym_exec in *. cbn [fold_left].
  unfold writes in H. cbn [flat_map] in H. rewrite IH by (intros X; apply H; apply in_or_app; right; exact X).
  assert (Hi : ~ In l (inst_writes i)) by (intros X; apply H; apply in_or_app; left; exact X).
  destruct i as [d s e n w wz | x y w wz]; cbn [transfer inst_writes In] in *.
  - rewrite alookup_aset. destruct (loc_eqb_spec l d); [exfalso; apply Hi; left; congruence | reflexivity].
  - rewrite !alookup_aset. destruct (loc_eqb_spec l y); [exfalso; apply Hi; right; left; congruence|].
    destruct (loc_eqb_spec l x); [exfalso; apply Hi; left; congruence | reflexivity].
Qed.

Lemma p1_check v int (doconv reg : bool) e n w wz ns : v0_ok a wgp wvec v -> f_int v = int ->
  (doconv = false -> f_osz v <= f_csz v) ->
  fc_params a reg int (f_csz v) (f_csg v) (f_osz v) (f_osg v) = (e, n, w, wz) ->
  (ns = 8 * f_osz v \/ (a = FX86 /\ f_osz v = 1 /\ ns = 32)) ->
  check_move (fmove_of v) (read_aval (if doconv then read_aval (AId (f_cur v)) e n w wz else AId (f_cur v)) EZ ns ns ns) = true.
Proof.
  intros [Hty _] Ei Hd Ep Hns. rewrite Ei in Hty.
  pose proof (k_p1_ok a doconv reg int _ _ _ _ Hty Hd) as Hk. unfold k_p1 in Hk. rewrite Ep in Hk. cbv zeta in Hk.
  rewrite forallb_forall in Hk.
  assert (Hin : In ns (8 * f_osz v :: match a with FX86 => if f_osz v =? 1 then [32] else [] | _ => [] end)).
  { destruct Hns as [E | [Ea [Eo E]]]; [left; symmetry; assumption|]. subst a. rewrite Eo. right. left. symmetry. assumption. }
  specialize (Hk ns Hin).
  change (AId (f_cur v)) with (reloc (f_cur v) (AId r0)).
  destruct doconv; rewrite ?read_aval_reloc, check_move_reloc, Ei; exact Hk.
Qed.

Definition S1 (k : nat) (acc : option (list fvar * list minst)) : Prop :=
  match acc with
  | None => True
  | Some (vars, em) =>
      sinv vars em /\
      forall i v0, (k <= i)%nat -> nth_error vs0 i = Some v0 -> alookup (sym_exec em []) (f_cur v0) = AId (f_cur v0)
  end.

Lemma p1_step vars em k v new : sinv vars em ->
  (forall i v0, (k <= i)%nat -> nth_error vs0 i = Some v0 -> alookup (sym_exec em []) (f_cur v0) = AId (f_cur v0)) ->
  (forall i, (k <= i)%nat -> nth_error vars i = nth_error vs0 i) -> nth_error vars k = Some v ->
  (forall j u, j <> k -> nth_error vars j = Some u -> ~ In (f_cur u) (writes new)) ->
  check_move (fmove_of v) (alookup (sym_exec (em ++ new) []) (f_out v)) = true ->
  S1 (S k) (Some (fset vars k (fmoved v (f_out v) true), em ++ new)).
Proof.
  intros Hs Hid H2 Hv Hoth Hck.
  assert (E0 : nth_error vs0 k = Some v). { rewrite <- (H2 k (Nat.le_refl k)). assumption. }
  pose proof (nth_error_lt _ _ _ Hv) as Hk. split.
  - intros i u0 u Hu0 Hu. destruct (Nat.eq_dec i k) as [E | E].
    + subst i. rewrite nth_fset_eq in Hu by assumption. inversion Hu; subst u. assert (u0 = v) by congruence. subst u0.
      right. cbn [fmoved f_csz f_csg f_cur]. split; [reflexivity|]. split; [reflexivity|]. split; [exact Hck|].
      cbn [fmoved f_done]. intros X. discriminate X.
    + rewrite nth_fset_ne in Hu by congruence. rewrite sym_exec_app, alookup_app_other by (eapply Hoth; eassumption).
      exact (Hs i u0 u Hu0 Hu).
  - intros i v0 Hi E. rewrite sym_exec_app, alookup_app_other; [apply (Hid i v0); [lia | assumption]|].
    apply (Hoth i v0); [lia|]. rewrite H2 by lia. assumption.
Qed.

Lemma stk_step_S1 k acc : P1 a wgp wvec vs0 st00 k acc -> S1 k acc -> S1 (S k) (stk_step a wgp wvec acc k).
Proof.
  intros HP HS. unfold stk_step. destruct acc as [[vars em] |]; [| exact I].
  destruct HP as [Hinv [H2 H3]]. destruct HS as [Hs Hid].
  assert (Hsame : S1 (S k) (Some (vars, em))). { split; [assumption|]. intros i v0 Hi. apply (Hid i v0). lia. }
  destruct (nth_error vars k) as [v |] eqn:Hv; [| exact Hsame].
  destruct (is_regl (f_out v)) eqn:Hm; [exact Hsame|].
  assert (E0 : nth_error vs0 k = Some v). { rewrite <- (H2 k (Nat.le_refl k)). assumption. }
  pose proof (Hv0 k v E0) as Hok. pose proof (Hid k v (Nat.le_refl k) E0) as Hid0.
  pose proof (out_slot_free a wgp wvec vs0 st00 Hv0 Hout0 vars em k v Hinv Hv Hm) as Hslot.
  pose proof Hinv as [_ [Hinj _]]. pose proof Hok as [Hty _].
  destruct (f_cur v) as [g r | ca co] eqn:Ec.
  - destruct (fneeds_ext v) eqn:Hx.
    + assert (Hiv : f_int v = true). { unfold fneeds_ext in Hx. destruct (f_int v); [reflexivity | discriminate]. }
      cbn [app]. apply p1_step; try assumption.
      * intros j u Hj Hu Hin. unfold writes in Hin. cbn [flat_map] in Hin. rewrite fconv_writes in Hin. cbn [fstore inst_writes app In] in Hin.
        destruct Hin as [E | [E | []]]; [apply Hj; apply (Hinj j k u v Hu Hv); congruence | exact (Hslot j u Hj Hu (eq_sym E))].
      * change (em ++ [fconv a (Reg g r) (Reg g r) true (f_csz v) (f_csg v) (f_osz v) (f_osg v);
                       fstore (f_out v) (Reg g r) (store_bits a (f_int v) r (8 * (if f_int v then f_osz v else f_csz v)))])
          with (em ++ [fconv a (Reg g r) (Reg g r) true (f_csz v) (f_csg v) (f_osz v) (f_osg v)] ++
                      [fstore (f_out v) (Reg g r) (store_bits a (f_int v) r (8 * (if f_int v then f_osz v else f_csz v)))]).
        rewrite app_assoc. unfold fstore. rewrite alookup_snoc_ext. rewrite fconv_eq.
        destruct (fc_params a (is_regl (Reg g r)) true (f_csz v) (f_csg v) (f_osz v) (f_osg v)) as [[[e n] w] wz] eqn:Ep.
        cbv beta iota. rewrite alookup_snoc_ext, Hid0. cbn [is_regl] in Ep. rewrite Hiv.
        pose proof (p1_check v true true true e n w wz _ Hok Hiv ltac:(discriminate) Ep (store_bits_shape a true r (f_osz v))) as K.
        rewrite Ec in K. exact K.
    + assert (Hle : f_osz v <= f_csz v).
      { unfold fneeds_ext in Hx. destruct (f_int v).
        - cbn [andb] in Hx. apply Z.ltb_ge in Hx. assumption.
        - apply ty_ok_nonint in Hty. lia. }
      assert (Esz : (if f_int v then f_osz v else f_csz v) = f_osz v).
      { destruct (f_int v); [reflexivity|]. apply ty_ok_nonint in Hty. lia. }
      cbn [app]. apply p1_step; try assumption.
      * intros j u Hj Hu Hin. unfold writes in Hin. cbn [flat_map fstore inst_writes app In] in Hin.
        destruct Hin as [E | []]. exact (Hslot j u Hj Hu (eq_sym E)).
      * unfold fstore. rewrite alookup_snoc_ext, Hid0, Esz.
        destruct (fc_params a true (f_int v) (f_csz v) (f_csg v) (f_osz v) (f_osg v)) as [[[e n] w] wz] eqn:Ep.
        pose proof (p1_check v (f_int v) false true e n w wz _ Hok eq_refl (fun _ => Hle) Ep (store_bits_shape a (f_int v) r (f_osz v))) as K.
        rewrite Ec in K. exact K.
  - destruct (zmin_list (favail wgp wvec vars 0)) as [sc |] eqn:Hsc; [| exact I].
    apply zmin_list_in in Hsc. apply favail_in in Hsc. destruct Hsc as [S1' S2].
    assert (Hiv : f_int v = true).
    { destruct Hok as [_ [_ [_ Hmm]]]. apply Hmm; [rewrite Ec; reflexivity | assumption]. }
    apply p1_step; try assumption.
    + intros j u Hj Hu Hin. unfold writes in Hin. cbn [flat_map] in Hin. rewrite fconv_writes in Hin. cbn [fstore inst_writes app In] in Hin.
      destruct Hin as [E | [E | []]]; [exact (fassigned_false _ _ _ _ S2 Hu (eq_sym E)) | exact (Hslot j u Hj Hu (eq_sym E))].
    + change (em ++ [fconv a (Reg 0 sc) (Mem ca co) true (f_csz v) (f_csg v) (f_osz v) (f_osg v);
                     fstore (f_out v) (Reg 0 sc) (store_bits a true sc (8 * (if f_int v then f_osz v else f_csz v)))])
        with (em ++ [fconv a (Reg 0 sc) (Mem ca co) true (f_csz v) (f_csg v) (f_osz v) (f_osg v)] ++
                    [fstore (f_out v) (Reg 0 sc) (store_bits a true sc (8 * (if f_int v then f_osz v else f_csz v)))]).
      rewrite app_assoc. unfold fstore. rewrite alookup_snoc_ext. rewrite fconv_eq.
      destruct (fc_params a (is_regl (Mem ca co)) true (f_csz v) (f_csg v) (f_osz v) (f_osg v)) as [[[e n] w] wz] eqn:Ep.
      cbv beta iota. rewrite alookup_snoc_ext, Hid0. cbn [is_regl] in Ep. rewrite Hiv.
      pose proof (p1_check v true true false e n w wz _ Hok Hiv ltac:(discriminate) Ep (store_bits_shape a true sc (f_osz v))) as K.
      rewrite Ec in K. exact K.
Qed.

Lemma stk_phase_sinv vs1 em1 : finv' vs0 [] -> stk_phase a wgp wvec vs0 = Some (vs1, em1) -> sinv vs1 em1.
Proof.
  intros Hinv H. unfold stk_phase in H.
  pose proof (fold_seq_ind (stk_step a wgp wvec) (fun k acc => P1 a wgp wvec vs0 st00 k acc /\ S1 k acc)) as HP.
  specialize (HP (fun k s Hs => conj (stk_step_P1 a wgp wvec vs0 st00 Hv0 Hout0 k s (proj1 Hs)) (stk_step_S1 k s (proj1 Hs) (proj2 Hs)))).
  specialize (HP (List.length vs0) (Some (vs0, []))). rewrite H in HP.
  assert (H0 : P1 a wgp wvec vs0 st00 0 (Some (vs0, [])) /\ S1 0 (Some (vs0, []))).
  { split.
    - split; [assumption|]. split; [intros; reflexivity | intros i u Hi; lia].
    - split; [| intros; reflexivity].
      intros i v0 v E0 Hv. assert (v = v0) by congruence. subst v. left. split; [reflexivity|]. split; [reflexivity|].
      left. reflexivity. }
  destruct (HP H0) as [_ [Hs _]]. exact Hs.
Qed.

(* ---- phase 3 *)
Definition S3 (acc : list fvar * list minst) : Prop :=
  forall i v0 v, nth_error vs0 i = Some v0 -> nth_error (fst acc) i = Some v ->
    (f_done v = true /\ check_move (fmove_of v0) (alookup (sym_exec (snd acc) []) (f_out v0)) = true) \/
    (f_done v = false /\ srel v0 v (alookup (sym_exec (snd acc) []) (f_cur v))).

Lemma S3_init vars em : finv' vars em -> sinv vars em -> S3 (vars, em).
Proof.
  intros Hinv Hs i v0 v E0 Hv. cbn [fst snd] in *. pose proof (Hs i v0 v E0 Hv) as Sv.
  destruct (f_done v) eqn:Hd; [left | right; split; [reflexivity | assumption]].
  split; [reflexivity|].
  destruct Hinv as [_ [_ [_ Hrel]]]. destruct (Hrel i v0 v E0 Hv) as [Ro [Rz [_ [_ [Rd _]]]]]. destruct (Rd Hd) as [D1 D2].
  rewrite <- Ro, <- D1.
  destruct Sv as [[E1 [E2 Hu]] | [_ [_ [Hc _]]]]; [| assumption].
  destruct (ushapes_reloc _ _ _ _ Hu) as [B [HB EA]]. rewrite EA, check_move_reloc.
  pose proof (Hv0 i v0 E0) as [Hty _].
  pose proof (k_narrow_ok a _ _ _ _ _ Hty ltac:(lia)) as Hk. unfold k_narrow in Hk. rewrite forallb_forall in Hk. apply Hk. assumption.
Qed.

Lemma load_step_S3 k acc : P3 a wgp wvec vs0 st00 k acc -> S3 acc -> S3 (load_step a acc k).
Proof.
  destruct acc as [vars em]. intros [Hlen [Hfr [Hdn Hrel]]] HS. unfold load_step.
  destruct (nth_error vars k) as [v |] eqn:Hv; [| exact HS].
  pose proof (nth_error_lt _ _ _ Hv) as Hk.
  destruct (nth_error vs0 k) as [v0 |] eqn:E0; [| apply nth_error_None in E0; lia].
  destruct (Hrel k v0 v E0 Hv) as [[Hd _] | [Hd [Hcm [Hom Hvr]]]].
  { rewrite Hd. exact HS. }
  rewrite Hd, Hcm. cbn [orb].
  pose proof (Hv0 k v0 E0) as Hok. destruct Hvr as [Ro [Rz [Rg [Ri _]]]].
  destruct (HS k v0 v E0 Hv) as [[Hd' _] | [_ Sv]]; [congruence|]. cbn [fst snd] in Sv.
  rewrite fconv_eq.
  destruct (fc_params a (is_regl (f_cur v)) (f_int v) (f_csz v) (f_csg v) (f_osz v) (f_osg v)) as [[[e n] w] wz] eqn:Ep.
  cbv beta iota. destruct (conv_check v0 v _ e n w wz Hok Rz Rg Ri Hd Sv Ep) as [C1 _].
  intros i u0 u Hu0 Hu. cbn [fst snd] in *. destruct (Nat.eq_dec i k) as [E | E].
  - subst i. rewrite nth_fset_eq in Hu by assumption. inversion Hu; subst u. assert (u0 = v0) by congruence. subst u0.
    left. split; [reflexivity|]. rewrite <- Ro, alookup_snoc_ext. assumption.
  - rewrite nth_fset_ne in Hu by congruence.
    destruct (HS i u0 u Hu0 Hu) as [[Hud Hck] | [Hud Su]]; cbn [fst snd] in *.
    + left. split; [assumption|]. rewrite alookup_snoc_other; [assumption|].
      cbn [inst_writes In]. intros [E' | []]. apply E. apply (Hout0 i k u0 v0 Hu0 E0). congruence.
    + right. split; [assumption|]. rewrite alookup_snoc_other; [assumption|].
      cbn [inst_writes In]. intros [E' | []].
      destruct (Hrel i u0 u Hu0 Hu) as [[X _] | [_ [Hucm _]]]; [congruence|].
      rewrite <- E', Hom in Hucm. discriminate.
Qed.

Lemma load_phase_sym vars em : P3 a wgp wvec vs0 st00 O (vars, em) -> S3 (vars, em) ->
  forall i v0, nth_error vs0 i = Some v0 ->
    check_move (fmove_of v0) (alookup (sym_exec (snd (load_phase a vars em)) []) (f_out v0)) = true.
Proof.
  intros H0 HS0. unfold load_phase.
  pose proof (fold_seq_ind (load_step a) (fun k acc => P3 a wgp wvec vs0 st00 k acc /\ S3 acc)) as HP.
  specialize (HP (fun k s Hs => conj (load_step_P3 a wgp wvec vs0 st00 Hv0 Hout0 k s (proj1 Hs)) (load_step_S3 k s (proj1 Hs) (proj2 Hs)))).
  specialize (HP (List.length vars) (vars, em) (conj H0 HS0)).
  destruct (fold_left (load_step a) (seq 0 (List.length vars)) (vars, em)) as [vars' em']. cbn [snd].
  destruct HP as [[Hlen [Hfr [Hdn Hrel]]] HS].
  intros i v0 E0. pose proof (nth_error_lt _ _ _ E0) as Hi.
  destruct (nth_error vars' i) as [v |] eqn:Hv; [| apply nth_error_None in Hv; lia].
  destruct (HS i v0 v E0 Hv) as [[_ H] | [Hd _]]; [exact H|]. cbn [fst snd] in *.
  destruct H0 as [Hlen0 _]. rewrite (Hdn i v) in Hd; [discriminate | lia | assumption].
Qed.

Lemma fsolve_sym ms : finv' vs0 [] -> fsolve a wgp wvec vs0 = SOk ms ->
  forall i v0, nth_error vs0 i = Some v0 -> check_move (fmove_of v0) (alookup (sym_exec ms []) (f_out v0)) = true.
Proof.
  intros Hinv H. unfold fsolve in H.
  destruct (stk_phase a wgp wvec vs0) as [[vs1 em1] |] eqn:H1; [| discriminate].
  destruct (stk_phase_ok a wgp wvec vs0 st00 Hv0 Hout0 _ _ Hinv H1) as [Hinv1 Hsd1].
  pose proof (stk_phase_sinv _ _ Hinv H1) as Hs1.
  destruct (floop a wgp wvec (4 * List.length vs0 + 4) vs1 em1 false) as [vs2 em2 | |] eqn:H2; try discriminate.
  destruct (floop_ok a wgp wvec vs0 st00 Hv0 _ _ _ _ _ _ Hinv1 Hsd1 H2) as [Hinv2 [Hsd2 Hset]].
  pose proof (floop_sinv _ _ _ _ _ _ Hinv1 Hsd1 Hs1 H2) as Hs2.
  inversion H; subst ms. apply load_phase_sym; [apply (P3_init a wgp wvec vs0 st00 Hv0); assumption | apply S3_init; assumption].
Qed.

End Sym.

(* ---------------------------------------------------------------------------------------------- *)
(* the symbolic-execution check, and the whole validator *)

Lemma fsolve_sym_ok : forall a wgp wvec vs0 ms, fwf_inputb wgp wvec vs0 = true -> farch_okb a vs0 = true ->
  fsolve a wgp wvec vs0 = SOk ms ->
  forall v0, In v0 vs0 -> check_move (fmove_of v0) (alookup (sym_exec ms []) (f_out v0)) = true.
Proof.
  intros a wgp wvec vs0 ms Hwf Har Hs v0 Hin. apply (fwf_inputb_sound a) in Hwf; [| exact Har].
  pose proof (fwf_finv a wgp wvec vs0 st00 Hwf) as Hinv. destruct Hwf as [Hok [_ [Ho _]]].
  apply In_nth_error in Hin. destruct Hin as [i Hi].
  exact (fsolve_sym a wgp wvec vs0 Hok Ho ms Hinv Hs i v0 Hi).
Qed.

Theorem fsolve_validates : forall a wgp wvec vs0 ms, fwf_inputb wgp wvec vs0 = true -> farch_okb a vs0 = true -> a <> FX86 ->
  slots_okb vs0 = true -> fsolve a wgp wvec vs0 = SOk ms ->
  validate (map fmove_of vs0) (fallowed_locs wgp wvec) ms = true.
Proof.
  intros a wgp wvec vs0 ms Hwf Har Hx Hok Hs. unfold validate.
  rewrite (fsolve_validate_wf a wgp wvec vs0 ms Hwf Har Hs), (fsolve_validate_writes a wgp wvec vs0 ms Hwf Har Hs),
    (fsolve_validate_nodup wgp wvec vs0 Hwf), (fsolve_validate_ranges a wgp wvec vs0 ms Hwf Har Hx Hok Hs).
  cbn [andb]. rewrite andb_true_r. apply forallb_forall. intros mv Hmv. apply in_map_iff in Hmv. destruct Hmv as [v0 [E Hin]].
  subst mv. exact (fsolve_sym_ok a wgp wvec vs0 ms Hwf Har Hs v0 Hin).
Qed.

(* from the theorem (not by evaluation of the validator): the mixed example, both targets *)
Example ex_mixed_validates : forall ms,
  fsolve FX64 ex_wgp ex_wvec ex_mixed = SOk ms \/ fsolve FA64 ex_wgp ex_wvec ex_mixed = SOk ms ->
  validate (map fmove_of ex_mixed) (fallowed_locs ex_wgp ex_wvec) ms = true.
Proof.
  intros ms [H | H].
  - apply (fsolve_validates FX64); try assumption; try (vm_compute; reflexivity). discriminate.
  - apply (fsolve_validates FA64); try assumption; try (vm_compute; reflexivity). discriminate.
Qed.

Example ex_mixed_validates_both :
  (exists ms, fsolve FX64 ex_wgp ex_wvec ex_mixed = SOk ms /\ validate (map fmove_of ex_mixed) (fallowed_locs ex_wgp ex_wvec) ms = true) /\
  (exists ms, fsolve FA64 ex_wgp ex_wvec ex_mixed = SOk ms /\ validate (map fmove_of ex_mixed) (fallowed_locs ex_wgp ex_wvec) ms = true).
Proof.
  split; eexists; (split; [| apply ex_mixed_validates]); [exact ex_mixed_x64 | left; exact ex_mixed_x64 | exact ex_mixed_a64 | right; exact ex_mixed_a64].
Qed.

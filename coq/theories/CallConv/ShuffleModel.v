(* C06 - executable model of the entry argument shuffle (parallel moves) of the function-frame emitter
   and a translation validator for it (Rideau-Leroy style: the emitted instruction sequence is executed
   symbolically and the resulting equations are compared with the required moves).
   No proofs in this file; everything is total executable Gallina over Z / list / bool. *)
From Coq Require Import ZArith List Bool.
From Verif Require Import Base.ZBits.
Import ListNotations.
Local Open Scope Z_scope.

(* locations: registers by group (0 gp, 1 vec, 2 mask, 3 mmx) and id; memory cells by area
   (0 = incoming stack arguments, 1 = outgoing/local stack) and byte offset *)
Inductive loc := Reg (g id : Z) | Mem (area off : Z).

Definition loc_eqb (a b : loc) : bool :=
  match a, b with
  | Reg g1 i1, Reg g2 i2 => (g1 =? g2) && (i1 =? i2)
  | Mem a1 o1, Mem a2 o2 => (a1 =? a2) && (o1 =? o2)
  | _, _ => false
  end.

Inductive ext := EZ | ES.

(* IExt dst src e n w wz : read the low n bits of src, extend (zero / sign) to w bits, write them to the
   low w bits of dst, zero the bits [w, wz) of dst, keep the bits of dst from wz upwards.
   IXchg a b w wz: a and b exchange their low w bits (each zero-filled to wz, bits from wz upwards kept). *)
Inductive minst := IExt (dst src : loc) (e : ext) (n w wz : Z) | IXchg (a b : loc) (w wz : Z).

Definition state := loc -> Z.          (* contents are non-negative integers *)

Definition extv (e : ext) (n w x : Z) : Z :=
  match e with EZ => x mod 2 ^ n | ES => (sextz n x) mod 2 ^ w end.

(* new content of a location holding [old] when [v] (v < 2^w <= 2^wz) is written with zero-fill up to wz *)
Definition put (old w wz v : Z) : Z := (old / 2 ^ wz) * 2 ^ wz + v.

Definition upd (st : state) (l : loc) (v : Z) : state := fun l' => if loc_eqb l' l then v else st l'.

Definition exec_inst (st : state) (i : minst) : state :=
  match i with
  | IExt d s e n w wz => upd st d ((st d / 2 ^ wz) * 2 ^ wz + extv e n w (st s))
  | IXchg a b w wz =>
      let va := st a in let vb := st b in
      upd (upd st a ((va / 2 ^ wz) * 2 ^ wz + vb mod 2 ^ w)) b ((vb / 2 ^ wz) * 2 ^ wz + va mod 2 ^ w)
  end.

Definition exec (ms : list minst) (st : state) : state := fold_left exec_inst ms st.

(* one argument move the shuffle must realise *)
Record move := { m_src : loc; m_dst : loc; m_sbits : Z; m_ssigned : bool; m_dbits : Z; m_int : bool }.

(* requirement on the final content c of m_dst given the initial content v0 of m_src: if both types are
   integers (m_int) and the destination is wider, c's low m_dbits bits are the sign/zero extension (by the
   SOURCE signedness) of v0's low m_sbits bits; otherwise the low min(m_sbits, m_dbits) bits agree *)
Definition dst_ok (mv : move) (v0 c : Z) : Prop :=
  if m_int mv && (m_sbits mv <? m_dbits mv)
  then c mod 2 ^ (m_dbits mv) = extv (if m_ssigned mv then ES else EZ) (m_sbits mv) (m_dbits mv) v0
  else c mod 2 ^ (Z.min (m_sbits mv) (m_dbits mv)) = v0 mod 2 ^ (Z.min (m_sbits mv) (m_dbits mv)).

(* ---------------------------------------------------------------------------------------------- *)
(* Symbolic execution.                                                                             *)

(* Abstract content of a location, relative to the INITIAL state st0 (c = current content):
     AId l            : c = st0 l
     AExt l n e w wz  : 0 < n <= w <= wz  and  c mod 2^wz = extv e n w (st0 l)
     AUnknown         : nothing known *)
Inductive aval := AId (l : loc) | AExt (l : loc) (n : Z) (e : ext) (w wz : Z) | AUnknown.

(* symbolic state: association list, most recent binding first; an unbound location is AId of itself *)
Definition astate := list (loc * aval).

Fixpoint alookup (sg : astate) (l : loc) : aval :=
  match sg with
  | [] => AId l
  | (l1, a) :: r => if loc_eqb l l1 then a else alookup r l
  end.

Definition aset (sg : astate) (l : loc) (a : aval) : astate := (l, a) :: sg.

(* abstract value of [extv e n w c] written with zero-fill up to wz, when c is described by a *)
Definition read_aval (a : aval) (e : ext) (n w wz : Z) : aval :=
  match a with
  | AId l => AExt l n e w wz
  | AExt l n1 e1 w1 wz1 =>
      if n <=? n1 then AExt l n e w wz                       (* only bits below n1 are read: they are the original ones *)
      else if n <=? wz1 then
        match e1 with
        | EZ => AExt l n1 EZ w wz                           (* bits [n1, n) are zero: any re-extension is the zero extension *)
        | ES =>
            if n <=? w1
            then match e with
                 | EZ => AExt l n1 ES n wz                  (* sign extension truncated to n bits *)
                 | ES => AExt l n1 ES w wz                  (* sign extension re-sign-extended from n to w *)
                 end
            else AExt l n1 ES w1 wz                         (* bits [w1, n) are zero: value is the w1-bit sign extension *)
        end
      else AUnknown
  | AUnknown => AUnknown
  end.

Definition transfer (sg : astate) (i : minst) : astate :=
  match i with
  | IExt d s e n w wz => aset sg d (read_aval (alookup sg s) e n w wz)
  | IXchg a b w wz =>
      let ra := read_aval (alookup sg b) EZ w w wz in
      let rb := read_aval (alookup sg a) EZ w w wz in
      aset (aset sg a ra) b rb
  end.

Definition sym_exec (ms : list minst) (sg : astate) : astate := fold_left transfer ms sg.

(* ---------------------------------------------------------------------------------------------- *)
(* Checks.                                                                                         *)

Definition wf_inst (i : minst) : bool :=
  match i with
  | IExt d s e n w wz => (0 <? n) && (n <=? w) && (w <=? wz)
  | IXchg a b w wz => (0 <? w) && (w <=? wz) && negb (loc_eqb a b)
  end.

Definition inst_writes (i : minst) : list loc :=
  match i with
  | IExt d _ _ _ _ _ => [d]
  | IXchg a b _ _ => [a; b]
  end.

Definition writes (ms : list minst) : list loc := flat_map inst_writes ms.

Definition mem_loc (l : loc) (ls : list loc) : bool := existsb (loc_eqb l) ls.

Fixpoint nodup_locs (ls : list loc) : bool :=
  match ls with
  | [] => true
  | l :: r => negb (mem_loc l r) && nodup_locs r
  end.

Definition needs_ext (mv : move) : bool := m_int mv && (m_sbits mv <? m_dbits mv).

(* is the abstract value a of m_dst good enough for dst_ok ? *)
Definition check_move (mv : move) (a : aval) : bool :=
  (0 <? m_sbits mv) && (0 <? m_dbits mv) &&
  match a with
  | AId l => loc_eqb l (m_src mv) && negb (needs_ext mv)
  | AExt l n e w wz =>
      loc_eqb l (m_src mv) &&
      (if needs_ext mv
       then (n =? m_sbits mv) && (m_dbits mv <=? wz) &&
            match e with
            | EZ => negb (m_ssigned mv)
            | ES => m_ssigned mv && (m_dbits mv <=? w)
            end
       else Z.min (m_sbits mv) (m_dbits mv) <=? n)
  | AUnknown => false
  end.

(* memory accesses: (area, byte offset, bit count) *)
Definition access := (Z * Z * Z)%type.

Definition inst_accesses (i : minst) : option (list access) :=
  match i with
  | IExt d s _ n _ wz =>
      Some ((match d with Mem a o => [(a, o, wz)] | Reg _ _ => [] end) ++
            (match s with Mem a o => [(a, o, n)] | Reg _ _ => [] end))
  | IXchg (Reg _ _) (Reg _ _) _ _ => Some []
  | IXchg _ _ _ _ => None
  end.

Fixpoint accesses (ms : list minst) : option (list access) :=
  match ms with
  | [] => Some []
  | i :: r =>
      match inst_accesses i, accesses r with
      | Some x, Some y => Some (x ++ y)
      | _, _ => None
      end
  end.

Definition access_aligned (x : access) : bool :=
  let '(_, _, b) := x in (0 <? b) && (b mod 8 =? 0).

(* same area and different offsets => disjoint byte ranges *)
Definition access_compat (x y : access) : bool :=
  let '(a1, o1, b1) := x in
  let '(a2, o2, b2) := y in
  negb (a1 =? a2) || (o1 =? o2) || (o1 + b1 / 8 <=? o2) || (o2 + b2 / 8 <=? o1).

Fixpoint accesses_compat (xs : list access) : bool :=
  match xs with
  | [] => true
  | x :: r => forallb (access_compat x) r && accesses_compat r
  end.

Definition accesses_ok (xs : list access) : bool := forallb access_aligned xs && accesses_compat xs.

Definition mem_ranges_ok (ms : list minst) : bool :=
  match accesses ms with
  | Some xs => accesses_ok xs
  | None => false
  end.

Definition validate (mvs : list move) (allowed : list loc) (ms : list minst) : bool :=
  forallb wf_inst ms &&
  forallb (fun l => mem_loc l allowed || mem_loc l (map m_dst mvs)) (writes ms) &&
  nodup_locs (map m_dst mvs) &&
  (let sg := sym_exec ms [] in forallb (fun mv => check_move mv (alookup sg (m_dst mv))) mvs) &&
  mem_ranges_ok ms.

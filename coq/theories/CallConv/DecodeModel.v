(* C06 — the instruction whitelist of the shuffle validator: (mnemonic, operands) as printed by llvm-mc for the bytes the Assembler
   produced  ->  move semantics in the validator's language (ShuffleModel.minst).  Everything that gives an instruction a meaning
   lives here (python only splits llvm-mc's text into a mnemonic and register / memory operands):
     - the mnemonic tables (x86 / AArch64) and their operand-shape conditions,
     - the widths (bits read, bits written, zero-fill boundary) of every accepted form,
     - the attribution of memory operands: a store must be SP based (area 1, raw displacement); a load is attributed to the
       incoming-argument area (area 0) when its base is SP (frames without dynamic alignment) or a register that currently carries
       the address of the incoming arguments (the SA register, followed through GP mov / xchg).
   Anything else is refused (None): the sequence is then judged by the simulator only.  Definitions; theorems in DecodeProofs.v. *)
From Coq Require Import ZArith List Bool String.
Import ListNotations.
From Verif Require Import CallConv.ShuffleModel.
Local Open Scope Z_scope.

(* an operand as printed: register (group 0 GP / 1 vector / 2 mask / 3 MMX, id, width of the printed view in bits) or memory
   (size in bits of the `ptr` annotation, 0 when none; base register id; displacement) *)
Inductive opnd := OReg (g id w : Z) | OMem (bits base disp : Z) | OBad.

Record dframe := mkDF { d_a64 : bool; d_sp : Z; d_sareg : Z; d_saoff_sp : Z; d_saoff_sa : Z; d_da : bool }.

Definition opw (o : opnd) : Z := match o with OReg _ _ w => w | OMem b _ _ => b | OBad => 0 end.
Definition ogrp (o : opnd) : Z := match o with OReg g _ _ => g | _ => -1 end.
Definition is_oreg (o : opnd) : bool := match o with OReg _ _ _ => true | _ => false end.
Definition is_omem (o : opnd) : bool := match o with OMem _ _ _ => true | _ => false end.
Definition zmem (x : Z) (l : list Z) : bool := existsb (Z.eqb x) l.

(* operand as a DESTINATION *)
Definition dst_loc (F : dframe) (o : opnd) : option loc :=
  match o with
  | OReg g i _ => Some (Reg g i)
  | OMem _ b off => if b =? d_sp F then Some (Mem 1 off) else None
  | OBad => None
  end.
(* operand as a SOURCE; sa = registers that currently hold the address of the incoming arguments *)
Definition src_loc (F : dframe) (sa : list Z) (o : opnd) : option loc :=
  match o with
  | OReg g i _ => Some (Reg g i)
  | OMem _ b off =>
      if (b =? d_sp F) && negb (d_da F) then Some (Mem 0 (off - d_saoff_sp F))
      else if (b =? d_sareg F) || zmem b sa then Some (Mem 0 (off - d_saoff_sa F))
      else None
  | OBad => None
  end.

(* zero-extension boundary of an x86 GP register write of w bits *)
Definition gpz (w : Z) : Z := if 32 <=? w then 64 else w.

Inductive mclass :=
  | K_mov | K_ext (sign : bool) | K_xchg
  | K_vecfull (vex : bool)                 (* movaps / movups / movdqa ... whole-register moves *)
  | K_movdq (n : Z) (vex : bool)           (* movd / movq *)
  | K_movs (n : Z) (vex : bool)            (* movss / movsd *)
  | K_kmov (n : Z) | K_movq2dq | K_movdq2q
  | A_store (n : Z)                        (* 0 = width of the register operand *)
  | A_load (e : ext) (n : Z)               (* 0 = width of the register operand *)
  | A_mov | A_fmov | A_xt (sign : bool) (n : Z).

Definition x86_table : list (string * mclass) :=
  [ ("mov", K_mov); ("movzx", K_ext false); ("movsx", K_ext true); ("movsxd", K_ext true); ("xchg", K_xchg);
    ("movaps", K_vecfull false); ("movups", K_vecfull false); ("movapd", K_vecfull false); ("movupd", K_vecfull false);
    ("movdqa", K_vecfull false); ("movdqu", K_vecfull false);
    ("vmovaps", K_vecfull true); ("vmovups", K_vecfull true); ("vmovapd", K_vecfull true); ("vmovupd", K_vecfull true);
    ("vmovdqa", K_vecfull true); ("vmovdqu", K_vecfull true); ("vmovdqa32", K_vecfull true); ("vmovdqu32", K_vecfull true);
    ("vmovdqa64", K_vecfull true); ("vmovdqu64", K_vecfull true);
    ("movd", K_movdq 32 false); ("vmovd", K_movdq 32 true); ("movq", K_movdq 64 false); ("vmovq", K_movdq 64 true);
    ("movss", K_movs 32 false); ("vmovss", K_movs 32 true); ("movsd", K_movs 64 false); ("vmovsd", K_movs 64 true);
    ("kmovb", K_kmov 8); ("kmovw", K_kmov 16); ("kmovd", K_kmov 32); ("kmovq", K_kmov 64);
    ("movq2dq", K_movq2dq); ("movdq2q", K_movdq2q) ]%string.

Definition a64_table : list (string * mclass) :=
  [ ("ldr", A_load EZ 0); ("ldur", A_load EZ 0); ("ldrb", A_load EZ 8); ("ldrh", A_load EZ 16);
    ("ldrsb", A_load ES 8); ("ldrsh", A_load ES 16); ("ldrsw", A_load ES 32);
    ("str", A_store 0); ("stur", A_store 0); ("strb", A_store 8); ("strh", A_store 16);
    ("mov", A_mov); ("fmov", A_fmov);
    ("sxtb", A_xt true 8); ("sxth", A_xt true 16); ("sxtw", A_xt true 32); ("uxtb", A_xt false 8); ("uxth", A_xt false 16) ]%string.

Fixpoint lookup (t : list (string * mclass)) (m : string) : option mclass :=
  match t with
  | [] => None
  | (k, c) :: r => if String.eqb k m then Some c else lookup r m
  end.

Definition ext_of (sign : bool) : ext := if sign then ES else EZ.

(* one instruction with two operands (d = first printed operand, s = second) *)
Definition decode_class (F : dframe) (sa : list Z) (k : mclass) (d s : opnd) : option minst :=
  let x86 := negb (d_a64 F) in
  match k with
  | K_xchg =>
      if x86 && is_oreg d && is_oreg s && (ogrp d =? 0) && (ogrp s =? 0) && (opw d =? opw s) && (32 <=? opw d) then
        match dst_loc F d, src_loc F sa s with
        | Some a, Some b => Some (IXchg a b (opw d) 64)
        | _, _ => None
        end
      else None
  | K_mov =>
      if negb x86 then None else
      match dst_loc F d, src_loc F sa s with
      | Some dl, Some sl =>
          if is_omem d then (if ogrp s =? 0 then Some (IExt dl sl EZ (opw s) (opw s) (opw s)) else None)
          else if (ogrp d =? 0) && (is_omem s || ((ogrp s =? 0) && (opw s =? opw d))) then Some (IExt dl sl EZ (opw d) (opw d) (gpz (opw d)))
          else None
      | _, _ => None
      end
  | K_ext sign =>
      if x86 && (ogrp d =? 0) && negb (opw s =? 0) && (opw s <? opw d) then
        match dst_loc F d, src_loc F sa s with
        | Some dl, Some sl => Some (IExt dl sl (ext_of sign) (opw s) (opw d) (gpz (opw d)))
        | _, _ => None
        end
      else None
  | K_vecfull vex =>
      if negb x86 then None else
      match dst_loc F d, src_loc F sa s with
      | Some dl, Some sl =>
          if is_omem d then (if ogrp s =? 1 then Some (IExt dl sl EZ (opw s) (opw s) (opw s)) else None)
          else if ogrp d =? 1 then Some (IExt dl sl EZ (opw d) (opw d) (if vex then 512 else opw d))
          else None
      | _, _ => None
      end
  | K_movdq n vex =>
      if negb x86 then None else
      match dst_loc F d, src_loc F sa s with
      | Some dl, Some sl =>
          if is_omem d then Some (IExt dl sl EZ n n n)
          else if ogrp d =? 1 then Some (IExt dl sl EZ n n (if vex then 512 else 128))
          else if (ogrp d =? 0) || (ogrp d =? 3) then Some (IExt dl sl EZ n n 64)
          else None
      | _, _ => None
      end
  | K_movs n vex =>
      if negb x86 then None else
      match dst_loc F d, src_loc F sa s with
      | Some dl, Some sl =>
          if is_omem d then Some (IExt dl sl EZ n n n)
          else if is_omem s then Some (IExt dl sl EZ n n (if vex then 512 else 128))
          else None                                  (* register form merges: not a move *)
      | _, _ => None
      end
  | K_kmov n =>
      if negb x86 then None else
      match dst_loc F d, src_loc F sa s with
      | Some dl, Some sl => if is_omem d then Some (IExt dl sl EZ n n n) else Some (IExt dl sl EZ n n 64)
      | _, _ => None
      end
  | K_movq2dq =>
      if negb x86 then None else
      match dst_loc F d, src_loc F sa s with Some dl, Some sl => Some (IExt dl sl EZ 64 64 128) | _, _ => None end
  | K_movdq2q =>
      if negb x86 then None else
      match dst_loc F d, src_loc F sa s with Some dl, Some sl => Some (IExt dl sl EZ 64 64 64) | _, _ => None end
  | A_store n0 =>               (* str Rt, [mem] : the FIRST operand is the source register *)
      if d_a64 F && is_oreg d && is_omem s then
        let n := if n0 =? 0 then opw d else n0 in
        match dst_loc F s, src_loc F sa d with
        | Some ml, Some rl => Some (IExt ml rl EZ n n n)
        | _, _ => None
        end
      else None
  | A_load e n0 =>
      if d_a64 F && is_oreg d && is_omem s then
        let n := if n0 =? 0 then opw d else n0 in
        let w := if ogrp d =? 0 then opw d else n in
        match dst_loc F d, src_loc F sa s with
        | Some dl, Some sl => Some (IExt dl sl (if n0 =? 0 then EZ else e) n (Z.max w n) (if ogrp d =? 0 then 64 else 128))
        | _, _ => None
        end
      else None
  | A_mov =>
      if d_a64 F && is_oreg d && is_oreg s && (opw d =? opw s) then
        match d, s, dst_loc F d, src_loc F sa s with
        | OReg gd idd _, OReg gs ids _, Some dl, Some sl =>
            if (gd =? 0) && (gs =? 0) && (idd <? 31) && (ids <? 31) then Some (IExt dl sl EZ (opw d) (opw d) 64)
            else if (gd =? 1) && (gs =? 1) then Some (IExt dl sl EZ (opw d) (opw d) 128)
            else None
        | _, _, _, _ => None
        end
      else None
  | A_fmov =>
      if d_a64 F && is_oreg d && is_oreg s && (opw d =? opw s) && (ogrp d =? 1) && (ogrp s =? 1) then
        match dst_loc F d, src_loc F sa s with
        | Some dl, Some sl => Some (IExt dl sl EZ (opw d) (opw d) 128)
        | _, _ => None
        end
      else None
  | A_xt sign n =>
      if d_a64 F && is_oreg d && is_oreg s && (ogrp d =? 0) && (ogrp s =? 0) then
        match dst_loc F d, src_loc F sa s with
        | Some dl, Some sl => Some (IExt dl sl (ext_of sign) n (opw d) 64)
        | _, _ => None
        end
      else None
  end.

Definition decode_inst (F : dframe) (sa : list Z) (m : string) (d s : opnd) : option minst :=
  match lookup (if d_a64 F then a64_table else x86_table) m with
  | None => None
  | Some k => decode_class F sa k d s
  end.

(* which registers carry the incoming-argument pointer after the instruction *)
Definition zremove (x : Z) (l : list Z) : list Z := filter (fun y => negb (y =? x)) l.
Definition sa_step (F : dframe) (sa : list Z) (k : mclass) (d s : opnd) : list Z :=
  match k, d with
  | A_store _, _ => sa                                                  (* operand 0 of a store is read *)
  | K_xchg, OReg 0 a _ =>
      match s with
      | OReg 0 b _ =>
          match zmem a sa, zmem b sa with
          | true, false => b :: zremove a sa
          | false, true => a :: zremove b sa
          | _, _ => sa
          end
      | _ => zremove a sa
      end
  | (K_mov | A_mov), OReg 0 a w =>
      match s with
      | OReg 0 b _ => if zmem b sa && (32 <=? w) then a :: sa else zremove a sa
      | _ => zremove a sa
      end
  | _, OReg 0 a _ => zremove a sa
  | _, _ => sa
  end.

(* a whole disassembled sequence *)
Fixpoint decode_seq (F : dframe) (sa : list Z) (is : list (string * opnd * opnd)) : option (list minst) :=
  match is with
  | [] => Some []
  | (m, d, s) :: rest =>
      match lookup (if d_a64 F then a64_table else x86_table) m with
      | None => None
      | Some k =>
          match decode_class F sa k d s, decode_seq F (sa_step F sa k d s) rest with
          | Some i, Some r => Some (i :: r)
          | _, _ => None
          end
      end
  end.

Definition decode (F : dframe) (is : list (string * opnd * opnd)) : option (list minst) :=
  decode_seq F (if d_sareg F =? d_sp F then [] else [d_sareg F]) is.

(* C06 — the instruction sequence of DESIGN 7.19 is wrong under the machine semantics of ShuffleModel (not merely
   refused by the validator): f(int8 a, int32 b) with a -> esi : int32, b -> edi is shuffled by a lone `xchg esi, edi`. *)
From Coq Require Import ZArith List Bool Lia.
Import ListNotations.
From Verif Require Import Base.ZBits CallConv.ShuffleModel.
Local Open Scope Z_scope.

Definition mv_7_19 : move :=
  {| m_src := Reg 0 7; m_dst := Reg 0 6; m_sbits := 8; m_ssigned := true; m_dbits := 32; m_int := true |}.
Definition st_7_19 : state := fun l => if loc_eqb l (Reg 0 7) then 128 else 0.

Theorem swap_drops_extension_refuted :
  exists st0, ~ dst_ok mv_7_19 (st0 (m_src mv_7_19)) (exec [IXchg (Reg 0 6) (Reg 0 7) 32 64] st0 (m_dst mv_7_19)).
Proof.
  exists st_7_19. unfold dst_ok. vm_compute. intros H. discriminate H.
Qed.

(* C06 - theorems about the instruction whitelist DecodeModel.v:
     1. structural facts (which operand is written, attribution of memory operands, length of a decoded sequence),
     2. what decode_inst returns executes (ShuffleModel.exec_inst) exactly as the reference semantics DecodeSpec.v says, for every
        general-purpose mnemonic with a register destination (x86 mov / movzx / movsx / movsxd, AArch64 mov, sxtb/h/w, uxtb/h, ldr, ldur, ldrb/h, ldrsb/h/w),
     3. the same for stores (x86 mov to memory, AArch64 str / stur / strb / strh),
     4. the same for x86 xchg,
     5. a reflection check of the WHOLE table (vector / mask / MMX forms included) over a finite universe of operand shapes: every
        accepted (mnemonic, operands) combination yields a well-formed minst except for an explicit list of excuses. *)
From Coq Require Import ZArith Lia List Bool String.
From Verif Require Import Base.ZBits CallConv.ShuffleModel CallConv.ShuffleProofs CallConv.DecodeModel CallConv.DecodeSpec.
Import ListNotations.
Local Open Scope Z_scope.

(* ---------------------------------------------------------------------------------------------- *)
(* 1. structural facts *)

(* case analysis on everything a decode_class equation tests *)
Ltac dmatch H :=
  repeat match type of H with
         | context [match ?x with _ => _ end] => destruct x eqn:?; try discriminate H
         end.

Ltac bnorm :=
  repeat match goal with
         | H : _ && _ = true |- _ => apply andb_true_iff in H; destruct H
         | H : negb _ = true |- _ => apply negb_true_iff in H
         | H : negb _ = false |- _ => apply negb_false_iff in H
         end.

Lemma decode_inst_class F sa m d s i : decode_inst F sa m d s = Some i ->
  exists k, lookup (if d_a64 F then a64_table else x86_table) m = Some k /\ decode_class F sa k d s = Some i.
Proof.
  unfold decode_inst. destruct (lookup _ m) as [k|]; [|discriminate]. intros H. exists k. split; [reflexivity | exact H].
Qed.

Lemma src_loc_reg F sa o l : is_oreg o = true -> src_loc F sa o = Some l -> dst_loc F o = Some l.
Proof. destruct o; cbn; congruence. Qed.

Lemma dst_loc_mem F o a off : dst_loc F o = Some (Mem a off) -> a = 1 /\ exists b, o = OMem b (d_sp F) off.
Proof.
  destruct o as [g r w | b base disp |]; cbn; try discriminate.
  destruct (Z.eqb_spec base (d_sp F)); [|discriminate]. intros H. injection H as <- <-. subst base. split; [reflexivity | eauto].
Qed.

Lemma dst_loc_reg_mem F o a off : is_oreg o = true -> dst_loc F o = Some (Mem a off) -> False.
Proof. destruct o; cbn; discriminate. Qed.

Lemma src_loc_mem F sa o a off : src_loc F sa o = Some (Mem a off) -> a = 0.
Proof.
  destruct o as [g r w | b base disp |]; cbn; try discriminate.
  destruct ((base =? d_sp F) && negb (d_da F)); [intros H; injection H as <- _; reflexivity|].
  destruct ((base =? d_sareg F) || zmem base sa); [intros H; injection H as <- _; reflexivity | discriminate].
Qed.

Lemma src_loc_reg_shape F sa o l : is_oreg o = true -> src_loc F sa o = Some l -> exists g r, l = Reg g r.
Proof. destruct o; cbn; try discriminate. intros _ H. injection H as <-. eauto. Qed.

Lemma dst_loc_reg_shape F o l : is_oreg o = true -> dst_loc F o = Some l -> exists g r, l = Reg g r.
Proof. destruct o; cbn; try discriminate. intros _ H. injection H as <-. eauto. Qed.

Lemma decode_class_writes F sa k d s i : decode_class F sa k d s = Some i ->
  forall l, In l (inst_writes i) -> dst_loc F d = Some l \/ dst_loc F s = Some l.
Proof.
  intros H l Hl. unfold decode_class in H. destruct k; dmatch H; injection H as <-; cbn [inst_writes In] in Hl.
  all: try (destruct Hl as [<- | []]; auto; fail).
  bnorm. destruct Hl as [<- | [<- | []]]; [auto | right; eapply src_loc_reg; eauto].
Qed.

(* every written location is the location of one of the two printed operands (xchg writes both registers; an AArch64 store
   writes its SECOND operand) *)
Theorem decode_writes F sa m d s i : decode_inst F sa m d s = Some i ->
  forall l, In l (inst_writes i) -> dst_loc F d = Some l \/ dst_loc F s = Some l.
Proof. intros H. destruct (decode_inst_class _ _ _ _ _ _ H) as [k [_ Hk]]. eapply decode_class_writes; eauto. Qed.


(* the exact shape of an accepted instruction: which operand is written / read, per architecture *)
Definition decode_shape (F : dframe) (sa : list Z) (d s : opnd) (i : minst) : Prop :=
  (d_a64 F = false /\ exists dl sl, dst_loc F d = Some dl /\ src_loc F sa s = Some sl /\
     ((exists e n w wz, i = IExt dl sl e n w wz) \/
      (exists w, i = IXchg dl sl w 64 /\ is_oreg d = true /\ is_oreg s = true))) \/
  (d_a64 F = true /\ is_oreg d = true /\ is_omem s = true /\ exists ml rl n, dst_loc F s = Some ml /\ src_loc F sa d = Some rl /\ i = IExt ml rl EZ n n n) \/
  (d_a64 F = true /\ is_oreg d = true /\ exists dl sl e n w wz, dst_loc F d = Some dl /\ src_loc F sa s = Some sl /\ i = IExt dl sl e n w wz).

Lemma decode_class_shape F sa k d s i : decode_class F sa k d s = Some i -> decode_shape F sa d s i.
Proof.
  intros Hk. unfold decode_class in Hk.
  destruct k; dmatch Hk; injection Hk as <-; bnorm; unfold decode_shape.
  all: try (left; split; [assumption|]; do 2 eexists; split; [eassumption|]; split; [eassumption|]; left; eauto 10; fail).
  all: try (right; right; split; [assumption|]; split; [assumption|]; eauto 12; fail).
  - left. split; [assumption|]. do 2 eexists. split; [eassumption|]. split; [eassumption|]. right. eauto.
  - right; left. repeat (split; [assumption|]). eauto 10.
  - right; left. repeat (split; [assumption|]). eauto 10.
Qed.

Theorem decode_inst_shape F sa m d s i : decode_inst F sa m d s = Some i -> decode_shape F sa d s i.
Proof. intros H. destruct (decode_inst_class _ _ _ _ _ _ H) as [k [_ Hk]]. eapply decode_class_shape; eauto. Qed.

Definition inst_src (i : minst) : option loc := match i with IExt _ s _ _ _ _ => Some s | IXchg _ _ _ _ => None end.

(* a store is only accepted when SP based; it goes to area 1 with its raw displacement *)
Theorem decode_mem_write_sp F sa m d s i a off : decode_inst F sa m d s = Some i -> In (Mem a off) (inst_writes i) ->
  a = 1 /\ ((d_a64 F = false /\ exists b, d = OMem b (d_sp F) off) \/
            (d_a64 F = true /\ is_oreg d = true /\ exists b, s = OMem b (d_sp F) off)).
Proof.
  intros H Hl. apply decode_inst_shape in H.
  destruct H as [[Hx [dl [sl [Hd [Hs [[e [n [w [wz ->]]]] | [w [-> [Rd Rs]]]]]]]]] | [[Ha [Rd [Ms [ml [rl [n [Hd [Hs ->]]]]]]]] | [Ha [Rd [dl [sl [e [n [w [wz [Hd [Hs ->]]]]]]]]]]]];
    cbn [inst_writes In] in Hl.
  - destruct Hl as [-> | []]. destruct (dst_loc_mem _ _ _ _ Hd) as [-> Hb]. auto.
  - exfalso. destruct Hl as [-> | [-> | []]].
    + eapply dst_loc_reg_mem; [exact Rd | exact Hd].
    + eapply dst_loc_reg_mem; [exact Rs | eapply src_loc_reg; eauto].
  - destruct Hl as [-> | []]. destruct (dst_loc_mem _ _ _ _ Hd) as [-> Hb]. auto.
  - exfalso. destruct Hl as [-> | []]. eapply dst_loc_reg_mem; [exact Rd | exact Hd].
Qed.

(* a load is only ever attributed to the incoming-argument area; xchg never touches memory *)
Theorem decode_mem_read_incoming F sa m d s i : decode_inst F sa m d s = Some i ->
  (forall a off, inst_src i = Some (Mem a off) -> a = 0) /\
  (forall x y w wz, i = IXchg x y w wz -> exists g1 r1 g2 r2, x = Reg g1 r1 /\ y = Reg g2 r2).
Proof.
  intros H. apply decode_inst_shape in H.
  destruct H as [[Hx [dl [sl [Hd [Hs [[e [n [w [wz ->]]]] | [w [-> [Rd Rs]]]]]]]]] | [[Ha [Rd [Ms [ml [rl [n [Hd [Hs ->]]]]]]]] | [Ha [Rd [dl [sl [e [n [w [wz [Hd [Hs ->]]]]]]]]]]]];
    cbn [inst_src]; split; try discriminate; intros.
  - injection H as ->. eapply src_loc_mem; eauto.
  - injection H as <- <- _ _. destruct (dst_loc_reg_shape _ _ _ Rd Hd) as [g1 [r1 ->]]. destruct (src_loc_reg_shape _ _ _ _ Rs Hs) as [g2 [r2 ->]]. eauto 8.
  - injection H as ->. eapply src_loc_mem; eauto.
  - injection H as ->. eapply src_loc_mem; eauto.
Qed.

Theorem decode_seq_length F : forall is sa ms, decode_seq F sa is = Some ms -> List.length ms = List.length is.
Proof.
  induction is as [| [[m d] s] rest IH]; intros sa ms H; cbn [decode_seq] in H.
  - injection H as <-. reflexivity.
  - destruct (lookup _ m) as [k|]; [|discriminate]. destruct (decode_class F sa k d s); [|discriminate].
    destruct (decode_seq F (sa_step F sa k d s) rest) as [r|] eqn:E; [|discriminate]. injection H as <-.
    cbn [List.length]. f_equal. eapply IH; eauto.
Qed.

(* ---------------------------------------------------------------------------------------------- *)
(* 2. register destinations *)

Lemma assoc_In {A} (t : list (string * A)) m c : assoc t m = Some c -> In (m, c) t.
Proof.
  induction t as [| [k c'] r IH]; cbn [assoc]; [discriminate|].
  destruct (String.eqb_spec k m) as [-> | _].
  - intros H. injection H as ->. left. reflexivity.
  - intros H. right. auto.
Qed.

Lemma upd_same st l V : upd st l V l = V.
Proof. unfold upd. rewrite loc_eqb_refl. reflexivity. Qed.

Lemma upd_other st l V l' : l' <> l -> upd st l V l' = st l'.
Proof. unfold upd. intros H. destruct (loc_eqb_spec l' l); [contradiction | reflexivity]. Qed.

Lemma high64_zero old : 0 <= old < 2 ^ 64 -> old / 2 ^ 64 = 0.
Proof. intros H. apply Z.div_small. exact H. Qed.

Lemma x86_write_eq old dw v : 0 <= old < 2 ^ 64 -> dw < 32 \/ dw = 32 \/ dw = 64 ->
  (old / 2 ^ (gpz dw)) * 2 ^ (gpz dw) + v = x86_gp_write old dw v.
Proof.
  intros Ho Hd. unfold gpz, x86_gp_write. destruct (Z.leb_spec 32 dw) as [Hge | Hlt].
  - assert (E : (dw =? 32) || (dw =? 64) = true).
    { destruct Hd as [Hd | [-> | ->]]; [lia | reflexivity | reflexivity]. }
    rewrite E, high64_zero by exact Ho. reflexivity.
  - destruct (Z.eqb_spec dw 32); [lia|]. destruct (Z.eqb_spec dw 64); [lia|]. reflexivity.
Qed.

Lemma a64_write_eq old v : 0 <= old < 2 ^ 64 -> (old / 2 ^ 64) * 2 ^ 64 + v = v.
Proof. intros Ho. rewrite high64_zero by exact Ho. reflexivity. Qed.

Lemma extv_ES_sx n w x : 0 < n <= w -> extv ES n w x = sx n w x.
Proof.
  intros H. cbn [extv]. unfold sextz, sx. cbv zeta.
  pose proof (pow2_pos n ltac:(lia)) as Pn. pose proof (pow2_le n w ltac:(lia)) as Pw.
  pose proof (pow2_double n ltac:(lia)) as Pd. pose proof (Z.mod_pos_bound x (2 ^ n) Pn) as Hb.
  destruct (Z.ltb_spec (x mod 2 ^ n) (2 ^ (n - 1))).
  - apply Z.mod_small. lia.
  - symmetry. apply (Z.mod_unique _ _ (-1)); lia.
Qed.

(* The only condition on the SOURCE operand: the x86 sign extensions need a positive source width (decode_inst itself checks
   opw s <> 0 and opw s < dw, which leaves the negative "widths" no disassembler prints).  Everything else about the source is
   either checked by decode_inst (mov: same width as the destination) or irrelevant for the value (zero extensions: both sides
   are  x mod 2 ^ (opw s) ;  AArch64: the number of bits read is fixed by the mnemonic or by the destination). *)
Definition sign_mnemonic (m : string) : bool := (m =? "movsx")%string || (m =? "movsxd")%string.

Definition src_width_ok (a64 : bool) (m : string) (s : opnd) (dw : Z) : Prop :=
  a64 = false -> sign_mnemonic m = true -> 0 < opw s.

(* dmatch rewrites the hypothesis  src_loc F sa s = Some sl  into  Some l = Some sl *)
Ltac same_src := match goal with H : Some ?a = Some ?b |- _ => injection H as -> end.

Ltac lookup_compute H :=
  match type of H with
  | context [lookup ?t ?m] => let v := eval vm_compute in (lookup t m) in change (lookup t m) with v in H
  end.

(* Side conditions, all needed:
     dw in {8,16,32,64}: decode_class never looks at the width of a general-purpose destination view (see 5.: a 128-bit view gives an
       ill-formed minst; a hypothetical 48-bit view would be zero-filled to 64 bits by the model and merged by x86_gp_write);
     AArch64 dw in {32,64}: with dw = 16, sxtw / ldrsw would read more bits than they write;
     st (Reg 0 rd) < 2 ^ 64: the model keeps the bits from 64 upwards, the reference semantics has none.
   Nothing is required of the source content (st sl), and sl may be the destination itself (exec_inst reads before it writes). *)
Theorem decode_gp_value_sem : forall F sa m rd dw s i sl f st,
  decode_inst F sa m (OReg 0 rd dw) s = Some i ->
  isa_value (d_a64 F) m = Some f ->
  src_loc F sa s = Some sl ->
  In dw [8;16;32;64] -> (d_a64 F = true -> In dw [32;64]) ->
  src_width_ok (d_a64 F) m s dw ->
  0 <= st (Reg 0 rd) < 2 ^ 64 ->
  exec_inst st i (Reg 0 rd) = gp_write (d_a64 F) (st (Reg 0 rd)) dw (f dw (opw s) (st sl)).
Proof.
  intros F sa m rd dw s i sl f st HD HV HS Hdw Hdw64 Hsw Hold.
  assert (Hdw' : dw < 32 \/ dw = 32 \/ dw = 64) by (cbn [In] in Hdw; lia).
  assert (Hdwp : 8 <= dw) by (cbn [In] in Hdw; lia).
  unfold isa_value in HV. apply assoc_In in HV. unfold decode_inst in HD. unfold src_width_ok in Hsw.
  destruct (d_a64 F) eqn:Ha; unfold gp_write.
  - (* AArch64 *)
    specialize (Hdw64 eq_refl). clear Hsw.
    unfold isa_a64_value in HV. cbn [In] in HV.
    repeat (destruct HV as [HV | HV]; [injection HV as <- <-|]); try contradiction; lookup_compute HD;
      unfold decode_class in HD; rewrite Ha in HD; cbn [dst_loc is_oreg is_omem ogrp opw andb negb ext_of Z.eqb Pos.eqb] in HD;
      dmatch HD; injection HD as <-; bnorm; same_src; cbn [exec_inst]; rewrite upd_same, a64_write_eq by exact Hold; unfold a64_gp_write.
    all: try reflexivity.
    all: cbn [In] in Hdw64; try rewrite Z.max_l by lia; apply extv_ES_sx; lia.
  - (* x86 *)
    clear Hdw64. specialize (Hsw eq_refl).
    unfold isa_x86_value in HV. cbn [In] in HV.
    repeat (destruct HV as [HV | HV]; [injection HV as <- <-|]); try contradiction; lookup_compute HD;
      try specialize (Hsw eq_refl);
      unfold decode_class in HD; rewrite Ha in HD; cbn [dst_loc is_oreg is_omem ogrp opw andb negb ext_of Z.eqb Pos.eqb] in HD;
      dmatch HD; injection HD as <-; bnorm; same_src; cbn [exec_inst]; rewrite upd_same, x86_write_eq by assumption; f_equal.
    all: try reflexivity.
    all: match goal with H : (_ <? _) = true |- _ => apply Z.ltb_lt in H end; apply extv_ES_sx; lia.
Qed.

(* ... and nothing else changes *)
Theorem decode_gp_frame : forall F sa m g rd dw s i f st,
  decode_inst F sa m (OReg g rd dw) s = Some i ->
  isa_value (d_a64 F) m = Some f ->
  forall l, l <> Reg g rd -> exec_inst st i l = st l.
Proof.
  intros F sa m g rd dw s i f st HD HV l Hl.
  unfold isa_value in HV. apply assoc_In in HV. unfold decode_inst in HD.
  destruct (d_a64 F) eqn:Ha.
  - unfold isa_a64_value in HV. cbn [In] in HV.
    repeat (destruct HV as [HV | HV]; [injection HV as <- <-|]); try contradiction; lookup_compute HD;
      unfold decode_class in HD; rewrite Ha in HD; cbn [dst_loc is_oreg is_omem andb] in HD;
      dmatch HD; injection HD as <-; cbn [exec_inst]; apply upd_other; exact Hl.
  - unfold isa_x86_value in HV. cbn [In] in HV.
    repeat (destruct HV as [HV | HV]; [injection HV as <- <-|]); try contradiction; lookup_compute HD;
      unfold decode_class in HD; rewrite Ha in HD; cbn [dst_loc is_oreg is_omem andb negb] in HD;
      dmatch HD; injection HD as <-; cbn [exec_inst]; apply upd_other; exact Hl.
Qed.

(* ---------------------------------------------------------------------------------------------- *)
(* 3. stores: the register operand is the second printed operand on x86, the first on AArch64.  No condition on the register
   group / width is needed (x86: decode_inst itself insists on a general-purpose register; AArch64: str of a b/h/s/d/q register
   stores its width as well), nor on the contents. *)

Theorem decode_store_sem : forall F sa m d s i b base off ml g r rw nb st,
  decode_inst F sa m d s = Some i -> isa_store (d_a64 F) m = Some nb ->
  (if d_a64 F then d else s) = OReg g r rw ->
  (if d_a64 F then s else d) = OMem b base off ->
  dst_loc F (OMem b base off) = Some ml ->
  exec_inst st i ml = cell_write (st ml) (nb rw) (zx (nb rw) (st (Reg g r))) /\
  (forall l, l <> ml -> exec_inst st i l = st l).
Proof.
  intros F sa m d s i b base off ml g r rw nb st HD HV Hr Hm Hml.
  unfold isa_store in HV. apply assoc_In in HV. unfold decode_inst in HD.
  destruct (d_a64 F) eqn:Ha; subst.
  - unfold isa_a64_store in HV. cbn [In] in HV.
    repeat (destruct HV as [HV | HV]; [injection HV as <- <-|]); try contradiction; lookup_compute HD;
      unfold decode_class in HD; rewrite Ha, Hml in HD; cbn [src_loc is_oreg is_omem ogrp opw andb negb ext_of Z.eqb Pos.eqb] in HD;
      dmatch HD; injection HD as <-; cbn [exec_inst].
    all: split; [rewrite upd_same; reflexivity | intros l Hl; apply upd_other; exact Hl].
  - unfold isa_x86_store in HV. cbn [In] in HV.
    repeat (destruct HV as [HV | HV]; [injection HV as <- <-|]); try contradiction; lookup_compute HD;
      unfold decode_class in HD; rewrite Ha, Hml in HD; cbn [src_loc is_oreg is_omem ogrp opw andb negb ext_of Z.eqb Pos.eqb] in HD;
      dmatch HD; injection HD as <-; cbn [exec_inst].
    all: split; [rewrite upd_same; reflexivity | intros l Hl; apply upd_other; exact Hl].
Qed.

(* ---------------------------------------------------------------------------------------------- *)
(* 4. xchg *)

Theorem decode_xchg_sem : forall F sa a b w i st,
  decode_inst F sa "xchg" (OReg 0 a w) (OReg 0 b w) = Some i ->
  d_a64 F = false -> w = 32 \/ w = 64 -> a <> b ->
  0 <= st (Reg 0 a) < 2 ^ 64 -> 0 <= st (Reg 0 b) < 2 ^ 64 ->
  exec_inst st i (Reg 0 a) = x86_gp_write (st (Reg 0 a)) w (zx w (st (Reg 0 b))) /\
  exec_inst st i (Reg 0 b) = x86_gp_write (st (Reg 0 b)) w (zx w (st (Reg 0 a))) /\
  (forall l, l <> Reg 0 a -> l <> Reg 0 b -> exec_inst st i l = st l).
Proof.
  intros F sa a b w i st HD Ha Hw Hab Ra Rb.
  unfold decode_inst in HD. rewrite Ha in HD. lookup_compute HD.
  unfold decode_class in HD. rewrite Ha in HD. cbn [dst_loc src_loc is_oreg ogrp opw andb negb Z.eqb] in HD.
  dmatch HD. injection HD as <-. cbn [exec_inst].
  assert (Hne : Reg 0 a <> Reg 0 b) by congruence.
  assert (E : (w =? 32) || (w =? 64) = true) by (destruct Hw as [-> | ->]; reflexivity).
  unfold x86_gp_write, zx. rewrite E.
  split; [|split].
  - rewrite upd_other by exact Hne. rewrite upd_same, high64_zero by exact Ra. reflexivity.
  - rewrite upd_same, high64_zero by exact Rb. reflexivity.
  - intros l H1 H2. rewrite upd_other by exact H2. apply upd_other. exact H1.
Qed.

(* ---------------------------------------------------------------------------------------------- *)
(* the hypotheses of 2.-4. are satisfiable: the forms they talk about are accepted *)

Ltac accept_tac Ha :=
  unfold decode_inst; rewrite Ha;
  match goal with |- context [lookup ?t ?m] => let v := eval vm_compute in (lookup t m) in change (lookup t m) with v end;
  unfold decode_class; rewrite Ha; cbn [dst_loc src_loc is_oreg is_omem ogrp opw andb orb negb ext_of Z.eqb Pos.eqb].

Lemma accepts_x86_mov_rr F sa a b w : d_a64 F = false ->
  decode_inst F sa "mov" (OReg 0 a w) (OReg 0 b w) = Some (IExt (Reg 0 a) (Reg 0 b) EZ w w (gpz w)).
Proof. intros Ha. accept_tac Ha. rewrite Z.eqb_refl. reflexivity. Qed.

Lemma accepts_x86_ext_rr F sa m sign a b dw sw : d_a64 F = false -> lookup x86_table m = Some (K_ext sign) -> sw <> 0 -> sw < dw ->
  decode_inst F sa m (OReg 0 a dw) (OReg 0 b sw) = Some (IExt (Reg 0 a) (Reg 0 b) (ext_of sign) sw dw (gpz dw)).
Proof.
  intros Ha Hm H0 H1. unfold decode_inst. rewrite Ha, Hm. unfold decode_class. rewrite Ha.
  cbn [dst_loc src_loc ogrp opw negb andb Z.eqb].
  destruct (Z.eqb_spec sw 0); [contradiction|]. destruct (Z.ltb_spec sw dw); [reflexivity | lia].
Qed.

Lemma accepts_x86_store F sa b off r w : d_a64 F = false ->
  decode_inst F sa "mov" (OMem b (d_sp F) off) (OReg 0 r w) = Some (IExt (Mem 1 off) (Reg 0 r) EZ w w w).
Proof. intros Ha. accept_tac Ha. rewrite Z.eqb_refl. reflexivity. Qed.

Lemma accepts_x86_xchg F sa a b w : d_a64 F = false -> 32 <= w ->
  decode_inst F sa "xchg" (OReg 0 a w) (OReg 0 b w) = Some (IXchg (Reg 0 a) (Reg 0 b) w 64).
Proof. intros Ha Hw. accept_tac Ha. rewrite Z.eqb_refl. destruct (Z.leb_spec 32 w); [reflexivity | lia]. Qed.

Lemma accepts_a64_mov F sa a b w : d_a64 F = true -> a < 31 -> b < 31 ->
  decode_inst F sa "mov" (OReg 0 a w) (OReg 0 b w) = Some (IExt (Reg 0 a) (Reg 0 b) EZ w w 64).
Proof.
  intros Ha H1 H2. accept_tac Ha. rewrite Z.eqb_refl. cbn [andb].
  destruct (Z.ltb_spec a 31); [|lia]. destruct (Z.ltb_spec b 31); [reflexivity | lia].
Qed.

Lemma accepts_a64_xt F sa m sign n a b dw sw : d_a64 F = true -> lookup a64_table m = Some (A_xt sign n) ->
  decode_inst F sa m (OReg 0 a dw) (OReg 0 b sw) = Some (IExt (Reg 0 a) (Reg 0 b) (ext_of sign) n dw 64).
Proof. intros Ha Hm. unfold decode_inst. rewrite Ha, Hm. unfold decode_class. rewrite Ha. reflexivity. Qed.

Lemma accepts_a64_load F sa m e n0 r dw off : d_a64 F = true -> d_da F = false -> lookup a64_table m = Some (A_load e n0) ->
  decode_inst F sa m (OReg 0 r dw) (OMem 0 (d_sp F) off) =
  Some (IExt (Reg 0 r) (Mem 0 (off - d_saoff_sp F)) (if n0 =? 0 then EZ else e) (if n0 =? 0 then dw else n0)
             (Z.max dw (if n0 =? 0 then dw else n0)) 64).
Proof.
  intros Ha Hda Hm. unfold decode_inst. rewrite Ha, Hm. unfold decode_class. rewrite Ha.
  cbn [dst_loc src_loc is_oreg is_omem ogrp opw andb Z.eqb]. rewrite Z.eqb_refl, Hda. reflexivity.
Qed.

Lemma accepts_a64_store F sa m n0 g r w off : d_a64 F = true -> lookup a64_table m = Some (A_store n0) ->
  decode_inst F sa m (OReg g r w) (OMem 0 (d_sp F) off) =
  Some (IExt (Mem 1 off) (Reg g r) EZ (if n0 =? 0 then w else n0) (if n0 =? 0 then w else n0) (if n0 =? 0 then w else n0)).
Proof.
  intros Ha Hm. unfold decode_inst. rewrite Ha, Hm. unfold decode_class. rewrite Ha.
  cbn [dst_loc src_loc is_oreg is_omem opw andb]. rewrite Z.eqb_refl. reflexivity.
Qed.

(* source = destination: `movsx eax, al` with rax = 0xFFFFFFFFFFFFFF80 leaves rax = 0x00000000FFFFFF80 *)
Example movsx_eax_al :
  let F := mkDF false 4 4 0 0 false in
  let st : state := fun _ => 2 ^ 64 - 128 in
  exists i, decode_inst F [] "movsx" (OReg 0 0 32) (OReg 0 0 8) = Some i /\ exec_inst st i (Reg 0 0) = 2 ^ 32 - 128.
Proof. eexists. split; [vm_compute; reflexivity | vm_compute; reflexivity]. Qed.

(* every general-purpose class of the two tables has an entry in the reference semantics *)
Definition gp_class_covered (a64 : bool) (mk : string * mclass) : bool :=
  match snd mk with
  | K_mov => match isa_value a64 (fst mk), isa_store a64 (fst mk) with Some _, Some _ => true | _, _ => false end
  | K_ext _ | A_load _ _ | A_mov | A_xt _ _ => match isa_value a64 (fst mk) with Some _ => true | None => false end
  | A_store _ => match isa_store a64 (fst mk) with Some _ => true | None => false end
  | _ => true
  end.

Lemma isa_covers_table : forallb (gp_class_covered false) x86_table = true /\ forallb (gp_class_covered true) a64_table = true.
Proof. split; vm_compute; reflexivity. Qed.

(* ---------------------------------------------------------------------------------------------- *)
(* 5. reflection over the whole table *)

Definition widths : list Z := [8; 16; 32; 64; 128; 256; 512].
Definition reg_shapes : list opnd :=
  flat_map (fun g => flat_map (fun r => map (fun w => OReg g r w) widths) [3; 5]) [0; 1; 2; 3].
Definition mem_shapes (sp : Z) : list opnd :=
  flat_map (fun b => map (fun base => OMem b base 24) [sp; 9]) (0 :: widths).
Definition shapes (sp : Z) : list opnd := reg_shapes ++ mem_shapes sp.

(* sp = 4 / 31; register 9 carries the address of the incoming arguments, so loads from [r9 + 24] are accepted as well *)
Definition Fx : dframe := mkDF false 4 9 0 0 false.
Definition Fa : dframe := mkDF true 31 9 0 0 false.

Definition table_of (F : dframe) := if d_a64 F then a64_table else x86_table.

Definition check_table (F : dframe) (filt : opnd -> bool) (P : string -> opnd -> opnd -> minst -> bool) : bool :=
  forallb (fun mk =>
    forallb (fun d => negb (filt d) ||
      forallb (fun s => negb (filt s) ||
        match decode_inst F [] (fst mk) d s with Some i => P (fst mk) d s i | None => true end)
        (shapes (d_sp F))) (shapes (d_sp F))) (table_of F).

Lemma check_table_spec F filt P : check_table F filt P = true ->
  forall m k d s i, In (m, k) (table_of F) -> In d (shapes (d_sp F)) -> In s (shapes (d_sp F)) ->
  filt d = true -> filt s = true -> decode_inst F [] m d s = Some i -> P m d s i = true.
Proof.
  unfold check_table. intros H m k d s i Hm Hd Hs Fd Fs HD.
  rewrite forallb_forall in H. specialize (H _ Hm). cbn [fst] in H.
  rewrite forallb_forall in H. specialize (H _ Hd). rewrite Fd in H. cbn [negb orb] in H.
  rewrite forallb_forall in H. specialize (H _ Hs). rewrite Fs, HD in H. exact H.
Qed.

(* operands no assembler prints: a general-purpose view wider than 64 bits; on AArch64 a register view wider than 128 bits or
   a general-purpose view narrower than 32 bits *)
Definition wide_gp (o : opnd) : bool := match o with OReg 0 _ w => 64 <? w | _ => false end.
Definition wide_a64 (o : opnd) : bool := match o with OReg _ _ w => 128 <? w | _ => false end.
Definition narrow_gp (o : opnd) : bool := match o with OReg 0 _ w => w <? 32 | _ => false end.
Definition xchg_same (i : minst) : bool := match i with IXchg a b _ _ => loc_eqb a b | IExt _ _ _ _ _ _ => false end.

Definition excuse (a64 : bool) (d s : opnd) (i : minst) : bool :=
  wide_gp d || wide_gp s || (a64 && (wide_a64 d || wide_a64 s || narrow_gp d || narrow_gp s)) || xchg_same i.

Definition wf_or_excuse (a64 : bool) (m : string) (d s : opnd) (i : minst) : bool := wf_inst i || excuse a64 d s i.

Lemma table_check_x86 : check_table Fx (fun _ => true) (wf_or_excuse false) = true.
Proof. vm_compute. reflexivity. Qed.

Lemma table_check_a64 : check_table Fa (fun _ => true) (wf_or_excuse true) = true.
Proof. vm_compute. reflexivity. Qed.

(* ALL mnemonics, ALL 72 x 72 operand shapes (the unprintable ones included): whatever is accepted is well formed (0 < n <= w <= wz),
   unless an operand is one of the unprintable views above or the instruction exchanges a register with itself *)
Theorem table_reflection : forall F, F = Fx \/ F = Fa ->
  forall m k d s i, In (m, k) (table_of F) -> In d (shapes (d_sp F)) -> In s (shapes (d_sp F)) ->
  decode_inst F [] m d s = Some i ->
  wf_inst i = true \/ excuse (d_a64 F) d s i = true.
Proof.
  intros F HF m k d s i Hm Hd Hs HD. apply orb_true_iff.
  destruct HF as [-> | ->].
  - exact (check_table_spec Fx _ _ table_check_x86 m k d s i Hm Hd Hs eq_refl eq_refl HD).
  - exact (check_table_spec Fa _ _ table_check_a64 m k d s i Hm Hd Hs eq_refl eq_refl HD).
Qed.

(* operands as the disassembler prints them (tools/c06_shuffle.py REGS / A64REGS) *)
Definition realistic (a64 : bool) (o : opnd) : bool :=
  match o with
  | OReg g _ w =>
      if a64 then ((g =? 0) && zmem w [32; 64]) || ((g =? 1) && zmem w [8; 16; 32; 64; 128])
      else ((g =? 0) && zmem w [8; 16; 32; 64]) || ((g =? 1) && zmem w [128; 256; 512]) || (((g =? 2) || (g =? 3)) && (w =? 64))
  | OMem b _ _ => if a64 then b =? 0 else true
  | OBad => false
  end.

(* a memory destination is written exactly: n = w = wz, a whole number of bytes *)
Definition mem_exact (i : minst) : bool :=
  match i with IExt (Mem _ _) _ _ n w wz => (n =? w) && (w =? wz) && (n mod 8 =? 0) | _ => true end.

Definition realistic_ok (m : string) (d s : opnd) (i : minst) : bool :=
  (wf_inst i || xchg_same i) && (mem_exact i || (m =? "movq2dq")%string).

Lemma realistic_check_x86 : check_table Fx (realistic false) realistic_ok = true.
Proof. vm_compute. reflexivity. Qed.

Lemma realistic_check_a64 : check_table Fa (realistic true) (fun _ _ _ i => wf_inst i && mem_exact i) = true.
Proof. vm_compute. reflexivity. Qed.

Theorem table_reflection_realistic_x86 : forall m k d s i, In (m, k) x86_table -> In d (shapes 4) -> In s (shapes 4) ->
  realistic false d = true -> realistic false s = true -> decode_inst Fx [] m d s = Some i ->
  (wf_inst i = true \/ xchg_same i = true) /\ (mem_exact i = true \/ m = "movq2dq"%string).
Proof.
  intros m k d s i Hm Hd Hs Rd Rs HD.
  pose proof (check_table_spec Fx _ _ realistic_check_x86 m k d s i Hm Hd Hs Rd Rs HD) as H.
  unfold realistic_ok in H. apply andb_true_iff in H. destruct H as [H1 H2].
  apply orb_true_iff in H1. apply orb_true_iff in H2. split; [exact H1|].
  destruct H2 as [H2 | H2]; [left; exact H2 | right; apply String.eqb_eq; exact H2].
Qed.

Theorem table_reflection_realistic_a64 : forall m k d s i, In (m, k) a64_table -> In d (shapes 31) -> In s (shapes 31) ->
  realistic true d = true -> realistic true s = true -> decode_inst Fa [] m d s = Some i ->
  wf_inst i = true /\ mem_exact i = true.
Proof.
  intros m k d s i Hm Hd Hs Rd Rs HD.
  pose proof (check_table_spec Fa _ _ realistic_check_a64 m k d s i Hm Hd Hs Rd Rs HD) as H.
  apply andb_true_iff in H. exact H.
Qed.

(* the excuses are real: each kind is inhabited *)
Example illformed_witnesses :
  decode_inst Fx [] "xchg" (OReg 0 3 32) (OReg 0 3 32) = Some (IXchg (Reg 0 3) (Reg 0 3) 32 64) /\
  decode_inst Fx [] "mov" (OReg 0 3 128) (OReg 0 5 128) = Some (IExt (Reg 0 3) (Reg 0 5) EZ 128 128 64) /\
  decode_inst Fx [] "movq2dq" (OMem 0 4 24) (OReg 3 5 64) = Some (IExt (Mem 1 24) (Reg 3 5) EZ 64 64 128) /\
  decode_inst Fa [] "ldr" (OReg 1 3 256) (OMem 0 31 24) = Some (IExt (Reg 1 3) (Mem 0 24) EZ 256 256 128) /\
  decode_inst Fa [] "sxtw" (OReg 0 3 16) (OReg 0 5 32) = Some (IExt (Reg 0 3) (Reg 0 5) ES 32 16 64).
Proof. repeat split; vm_compute; reflexivity. Qed.

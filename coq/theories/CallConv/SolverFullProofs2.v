(* C06 - proofs about the model of the whole of emit_args_assignment (SolverFullModel.v), second part: blocked states,
   totality (no kInvalidState under explicit conditions) and termination (the fuel of the model is sufficient). *)
From Coq Require Import ZArith Lia List Bool.
From Verif Require Import Base.ZBits CallConv.ShuffleModel CallConv.ShuffleProofs CallConv.SolverModel CallConv.SolverProofs
  CallConv.SolverFullModel CallConv.SolverFullProofs.
Import ListNotations.
Local Open Scope Z_scope.

(* ---------------------------------------------------------------------------------------------- *)
(* lists *)

Lemma inj_NoDup_loc (f : fvar -> loc) vs :
  (forall i j vi vj, nth_error vs i = Some vi -> nth_error vs j = Some vj -> f vi = f vj -> i = j) -> NoDup (map f vs).
Proof.
  intros H. apply NoDup_nth_error. intros i j Hi E. rewrite map_length in Hi. rewrite !nth_error_map in E.
  destruct (nth_error vs i) as [vi |] eqn:Ei; [| apply nth_error_None in Ei; lia].
  destruct (nth_error vs j) as [vj |] eqn:Ej; cbn [option_map] in E; [| discriminate].
  inversion E. eapply H; eassumption.
Qed.

Lemma NoDup_map_filter_loc (f : fvar -> loc) g vs : NoDup (map f vs) -> NoDup (map f (filter g vs)).
Proof.
  induction vs as [| x r IH]; cbn [map filter]; [auto|]. intros H. inversion H; subst.
  destruct (g x); cbn [map]; [constructor |]; auto.
  intros Hin. apply H2. apply in_map_iff in Hin. destruct Hin as [y [E Hy]]. apply filter_In in Hy.
  apply in_map_iff. exists y. tauto.
Qed.

Section Blocked.
Variable a : farch.
Variables wgp wvec : list Z.
Variable vs0 : list fvar.
Variable st0 : state.
Hypothesis Hv0 : forall i v0, nth_error vs0 i = Some v0 -> v0_ok a wgp wvec v0.
Hypothesis Hout0 : fout_inj vs0.

Local Notation finv' := (finv a wgp wvec vs0 st0).

(* an unfinished variable in a register is bound for a register of the same group (after phase 1) *)
Lemma active_shape vars emit i v g c : finv' vars emit -> stk_done vars -> nth_error vars i = Some v ->
  f_done v = false -> f_cur v = Reg g c -> exists o, f_out v = Reg g o.
Proof.
  intros Hinv Hsd Hv Hd Ec. destruct (f_out v) as [g' o | oa oo] eqn:Eo.
  - destruct (finv_cur_reg _ _ _ _ _ Hv0 _ _ _ _ _ _ Hinv Hv Ec) as [G1 _].
    destruct (finv_out_reg _ _ _ _ _ Hv0 _ _ _ _ _ _ Hinv Hv Eo) as [G2 _]. exists o. congruence.
  - assert (f_done v = true) by (apply (Hsd i v Hv); rewrite Eo; reflexivity). congruence.
Qed.

(* the variable sitting in the destination of a not-yet-placed variable is itself not done *)
Lemma falt_not_done vars emit i j v alt : finv' vars emit ->
  nth_error vars i = Some v -> nth_error vars j = Some alt -> f_cur alt = f_out v -> f_cur v <> f_out v -> f_done alt = false.
Proof.
  intros Hinv Hv Ha Eca Hne. destruct (f_done alt) eqn:Hd; [| reflexivity]. exfalso.
  pose proof (finv_done_cur _ _ _ _ _ Hv0 _ _ _ _ Hinv Ha Hd) as E.
  assert (j = i) by (apply (finv_out_inj _ _ _ _ _ Hv0 Hout0 _ _ Hinv j i alt v Ha Hv); congruence). subst j.
  assert (alt = v) by congruence. subst alt. congruence.
Qed.

Definition all_blocked (vs : list fvar) : Prop :=
  forall i v g c o, nth_error vs i = Some v -> f_done v = false -> f_cur v = Reg g c -> f_out v = Reg g o ->
    fassigned vs (Reg g o) = true /\ c <> o /\
    (forall j alt, ffind vs (Reg g o) O = Some j -> nth_error vs j = Some alt ->
       loc_eqb (f_out alt) (Reg g c) = false \/ (grp_swap a g = false /\ fscratch wgp wvec vs g = None)).

Definition activeb (v : fvar) : bool := negb (f_done v) && is_regl (f_cur v).

(* pigeonhole: in a blocked state the register of every unfinished variable is the destination of an unfinished variable
   that sits in a register *)
Lemma fblocked_cur_is_out vars emit : finv' vars emit -> stk_done vars -> all_blocked vars ->
  forall i v, nth_error vars i = Some v -> f_done v = false -> is_regl (f_cur v) = true ->
  exists k u, nth_error vars k = Some u /\ f_done u = false /\ is_regl (f_cur u) = true /\ f_out u = f_cur v.
Proof.
  intros Hinv Hsd Hb i v Hv Hd Hr.
  set (nd := filter activeb vars).
  assert (Hnd : NoDup (map f_out nd)).
  { apply NoDup_map_filter_loc. apply inj_NoDup_loc. exact (finv_out_inj _ _ _ _ _ Hv0 Hout0 _ _ Hinv). }
  assert (Hincl : incl (map f_out nd) (map f_cur nd)).
  { intros x Hx. apply in_map_iff in Hx. destruct Hx as [u [Eu Hu]]. apply filter_In in Hu. destruct Hu as [Hu Hua].
    unfold activeb in Hua. apply andb_prop in Hua. destruct Hua as [Hud Hur]. apply negb_true_iff in Hud.
    apply In_nth_error in Hu. destruct Hu as [k Hk].
    destruct (f_cur u) as [g c | ca co] eqn:Ec; [| discriminate].
    destruct (active_shape _ _ _ _ _ _ Hinv Hsd Hk Hud Ec) as [o Eo].
    destruct (Hb k u g c o Hk Hud Ec Eo) as [Has [Hne _]]. apply fassigned_true in Has. destruct Has as [j [alt [Hj Eca]]].
    assert (Had : f_done alt = false).
    { apply (falt_not_done _ _ _ _ _ _ Hinv Hk Hj); [congruence|]. rewrite Ec, Eo. congruence. }
    apply in_map_iff. exists alt. split; [congruence|]. apply filter_In. split; [eapply nth_error_In; eassumption|].
    unfold activeb. rewrite Had, Eca. reflexivity. }
  assert (Hincl2 : incl (map f_cur nd) (map f_out nd)).
  { apply NoDup_length_incl; [assumption | rewrite !map_length; lia | assumption]. }
  assert (Hin : In (f_cur v) (map f_cur nd)).
  { apply in_map. apply filter_In. split; [eapply nth_error_In; eassumption | unfold activeb; rewrite Hd, Hr; reflexivity]. }
  apply Hincl2 in Hin. apply in_map_iff in Hin. destruct Hin as [u [Eu Hu]]. apply filter_In in Hu. destruct Hu as [Hu Hua].
  unfold activeb in Hua. apply andb_prop in Hua. destruct Hua as [Hud Hur]. apply negb_true_iff in Hud.
  apply In_nth_error in Hu. destruct Hu as [k Hk]. exists k, u. tauto.
Qed.

Definition fpinv (s : fstate) : Prop :=
  finv' (fs_vars s) (fs_emit s) /\ stk_done (fs_vars s) /\ (fs_postponed s = true -> all_blocked (fs_vars s)).

Lemma fstep_pinv s i s' : fstep_spec a wgp wvec s i s' -> fpinv s -> fpinv s'.
Proof.
  intros Hs [Hinv [Hsd Hblk]].
  assert (Hinv' : finv' (fs_vars s') (fs_emit s')) by (eapply fstep_inv; eassumption).
  assert (Hsd' : stk_done (fs_vars s')) by (eapply fstep_stk_done; eassumption).
  split; [assumption|]. split; [assumption|]. clear Hinv' Hsd'.
  destruct Hs as [Hn | v Hv Hd | v Hv Hd Hnr | v g c o Hv Hd Ec Eo Hc | v g c o j alt Hv Hd Ec Eo Has Hne Hf Ha Eca Hm Hsw
    | v g c o j alt sc Hv Hd Ec Eo Has Hne Hf Ha Eca Hm Hsw Hsc | v g c o j alt Hv Hd Ec Eo Has Hne Hf Ha Eca Hm Hsw Hsc
    | v g c o j alt Hv Hd Ec Eo Has Hne Hf Ha Eca Hm];
    cbn [fs_vars fs_emit fs_postponed]; try assumption.
  - (* move *)
    intros Hp. exfalso. destruct (Hblk Hp i v g c o Hv Hd Ec Eo) as [B1 [B2 _]]. rewrite B1 in Hc. cbn [negb orb] in Hc.
    apply Z.eqb_eq in Hc. contradiction.
  - (* exchange *) cbv zeta.
    intros Hp. exfalso. destruct (fs_postponed s) eqn:Hps.
    + destruct (Hblk eq_refl i v g c o Hv Hd Ec Eo) as [_ [_ B3]]. destruct (B3 j alt Hf Ha) as [B3' | [B3' _]]; [| congruence].
      rewrite B3' in Hm, Hp. cbn [orb] in Hm. rewrite Hm in Hp. cbn in Hp. discriminate.
    + cbn in Hp. discriminate.
  - (* scratch *) cbv zeta.
    intros Hp. exfalso. destruct (fs_postponed s) eqn:Hps.
    + destruct (Hblk eq_refl i v g c o Hv Hd Ec Eo) as [_ [_ B3]]. destruct (B3 j alt Hf Ha) as [B3' | [_ B3']]; [| congruence].
      rewrite B3' in Hm, Hp. cbn [orb] in Hm. rewrite Hm in Hp. cbn in Hp. discriminate.
    + cbn in Hp. discriminate.
Qed.

Lemma fpass_pinv s : fpinv s -> fpinv (fpass a wgp wvec s).
Proof.
  unfold fpass. apply (ffold_step_inv a wgp wvec fpinv). intros s1 i H. eapply fstep_pinv; [apply fstep_spec_ok | assumption].
Qed.

(* ---------------------------------------------------------------------------------------------- *)
(* passes that do nothing; the loop invariant *)

Definition blocked_at (vs : list fvar) (p : bool) (i : nat) : Prop :=
  forall v g c o, nth_error vs i = Some v -> f_done v = false -> f_cur v = Reg g c -> f_out v = Reg g o ->
    fassigned vs (Reg g o) = true /\ c <> o /\
    exists j alt, ffind vs (Reg g o) O = Some j /\ nth_error vs j = Some alt /\ f_cur alt = Reg g o /\
      ((loc_eqb (f_out alt) (Reg g c) || (p && negb (f_done alt)) = false) \/
       (grp_swap a g = false /\ fscratch wgp wvec vs g = None)).

Lemma fstep_noact s i s' : fstep_spec a wgp wvec s i s' -> fs_did s' = false ->
  fs_vars s' = fs_vars s /\ fs_emit s' = fs_emit s /\ fs_postponed s' = fs_postponed s /\ fs_did s = false /\
  blocked_at (fs_vars s) (fs_postponed s) i.
Proof.
  intros Hs Hdid.
  destruct Hs as [Hn | v Hv Hd | v Hv Hd Hnr | v g c o Hv Hd Ec Eo Hc | v g c o j alt Hv Hd Ec Eo Has Hne Hf Ha Eca Hm Hsw
    | v g c o j alt sc Hv Hd Ec Eo Has Hne Hf Ha Eca Hm Hsw Hsc | v g c o j alt Hv Hd Ec Eo Has Hne Hf Ha Eca Hm Hsw Hsc
    | v g c o j alt Hv Hd Ec Eo Has Hne Hf Ha Eca Hm];
    cbn [fs_did fs_vars fs_emit fs_postponed] in *; try discriminate; repeat (split; [reflexivity || assumption|]).
  - intros v g c o Hv. congruence.
  - intros v' g c o Hv' Hd'. congruence.
  - intros v' g c o Hv' _ Ec Eo. exfalso. apply Hnr. assert (v' = v) by congruence. subst v'. exists g, c, o. tauto.
  - intros v' g' c' o' Hv' _ Ec' Eo'. assert (v' = v) by congruence. subst v'.
    assert (E1 : Reg g' c' = Reg g c) by congruence. assert (E2 : Reg g' o' = Reg g o) by congruence.
    inversion E1; inversion E2; subst. split; [assumption|]. split; [assumption|].
    exists j, alt. repeat (split; [assumption|]). right. split; assumption.
  - intros v' g' c' o' Hv' _ Ec' Eo'. assert (v' = v) by congruence. subst v'.
    assert (E1 : Reg g' c' = Reg g c) by congruence. assert (E2 : Reg g' o' = Reg g o) by congruence.
    inversion E1; inversion E2; subst. split; [assumption|]. split; [assumption|].
    exists j, alt. repeat (split; [assumption|]). left. assumption.
Qed.

Lemma ffold_noact l : forall s, fs_did (fold_left (fstep a wgp wvec) l s) = false ->
  fs_vars (fold_left (fstep a wgp wvec) l s) = fs_vars s /\ fs_emit (fold_left (fstep a wgp wvec) l s) = fs_emit s /\
  fs_postponed (fold_left (fstep a wgp wvec) l s) = fs_postponed s /\ fs_did s = false /\
  forall i, In i l -> blocked_at (fs_vars s) (fs_postponed s) i.
Proof.
  induction l as [| i r IH]; intros s H; cbn [fold_left] in *.
  - repeat (split; [reflexivity || assumption|]). intros i [].
  - destruct (IH _ H) as [H1 [H2 [H3 [H4 H5]]]].
    destruct (fstep_noact s i _ (fstep_spec_ok a wgp wvec s i) H4) as [G1 [G2 [G3 [G4 G5]]]].
    rewrite H1, H2, H3, G1, G2, G3. repeat (split; [reflexivity || assumption|]).
    intros k [E | Hin]; [subst k; assumption|]. rewrite <- G1, <- G3. apply H5. assumption.
Qed.

Lemma fpass_noact s : fs_did (fpass a wgp wvec s) = false ->
  fs_vars (fpass a wgp wvec s) = fs_vars s /\ fs_emit (fpass a wgp wvec s) = fs_emit s /\
  fs_postponed (fpass a wgp wvec s) = fs_postponed s /\ forall i, blocked_at (fs_vars s) (fs_postponed s) i.
Proof.
  unfold fpass. intros H. destruct (ffold_noact _ _ H) as [H1 [H2 [H3 [_ H5]]]]. repeat (split; [assumption|]).
  intros i. destruct (Nat.lt_ge_cases i (length (fs_vars s))) as [Hi | Hi].
  - apply H5. apply in_seq. lia.
  - intros v g c o Hv. apply nth_error_lt in Hv. lia.
Qed.

(* variables phase 2 skips *)
Definition skipb (v : fvar) : bool :=
  f_done v || match f_cur v, f_out v with Reg g _, Reg g' _ => negb (g =? g') | _, _ => true end.

Lemma fstep_skip s i : (forall k v, nth_error (fs_vars s) k = Some v -> skipb v = true) -> fstep a wgp wvec s i = s.
Proof.
  intros H. unfold fstep. destruct (nth_error (fs_vars s) i) as [v |] eqn:Hv; [| reflexivity].
  specialize (H i v Hv). unfold skipb in H. destruct (f_done v); [reflexivity|]. cbn [orb] in H.
  destruct (f_cur v); [| reflexivity]. destruct (f_out v); [| reflexivity]. rewrite H. reflexivity.
Qed.

Lemma fpass_skip s : (forall k v, nth_error (fs_vars s) k = Some v -> skipb v = true) -> fpass a wgp wvec s = s.
Proof.
  unfold fpass. generalize (seq 0 (length (fs_vars s))). intros l H. induction l as [| i r IH]; cbn [fold_left]; [reflexivity|].
  rewrite fstep_skip by assumption. assumption.
Qed.

Lemma pending_not_settled vs emit p :
  fs_pending (fpass a wgp wvec (mkFS vs emit false false p)) = true ->
  exists i v g c o, nth_error vs i = Some v /\ f_done v = false /\ f_cur v = Reg g c /\ f_out v = Reg g o.
Proof.
  intros H. destruct (forallb skipb vs) eqn:E.
  - rewrite fpass_skip in H; [discriminate|]. intros k v Hv. cbn [fs_vars] in Hv.
    rewrite forallb_forall in E. apply E. eapply nth_error_In; eassumption.
  - apply forallb_false in E. destruct E as [v [Hin Hs]]. apply In_nth_error in Hin. destruct Hin as [i Hi].
    unfold skipb in Hs. apply orb_false_elim in Hs. destruct Hs as [Hd Hs].
    destruct (f_cur v) as [g c |] eqn:Ec; [| discriminate]. destruct (f_out v) as [g' o |] eqn:Eo; [| discriminate].
    apply negb_false_iff in Hs. apply Z.eqb_eq in Hs. subst g'. exists i, v, g, c, o. tauto.
Qed.

Definition flinv (vs : list fvar) (emit : list minst) (p : bool) : Prop :=
  finv' vs emit /\ stk_done vs /\ (p = true -> all_blocked vs).

Lemma blocked_at_all vs p : (forall i, blocked_at vs p i) -> all_blocked vs.
Proof.
  intros H i v g c o Hv Hd Ec Eo. destruct (H i v g c o Hv Hd Ec Eo) as [H1 [H2 [j [alt [Hf [Ha [Eca Hor]]]]]]].
  split; [assumption|]. split; [assumption|]. intros j' alt' Hf' Ha'.
  assert (j' = j) by congruence. subst j'. assert (alt' = alt) by congruence. subst alt'.
  destruct Hor as [Hor | Hor]; [left | right; assumption]. apply orb_false_elim in Hor. tauto.
Qed.

Lemma flinv_pinv vs emit p : flinv vs emit p -> fpinv (mkFS vs emit false false p).
Proof. intros [Hinv [Hsd Hb]]. split; [assumption|]. split; assumption. Qed.

Lemma fpass_linv vs emit p : flinv vs emit p ->
  flinv (fs_vars (fpass a wgp wvec (mkFS vs emit false false p))) (fs_emit (fpass a wgp wvec (mkFS vs emit false false p)))
        (negb (fs_did (fpass a wgp wvec (mkFS vs emit false false p)))).
Proof.
  intros Hl. pose proof (fpass_pinv _ (flinv_pinv _ _ _ Hl)) as [H1 [H2 _]].
  split; [assumption|]. split; [assumption|].
  intros Hd. apply negb_true_iff in Hd. destruct (fpass_noact _ Hd) as [G1 [_ [_ G4]]]. cbn [fs_vars fs_postponed] in *.
  rewrite G1. eapply blocked_at_all. eassumption.
Qed.

(* ---------------------------------------------------------------------------------------------- *)
(* progress: the loop fails only when a group without an exchange instruction has no free scratch register *)

Definition has_spare (g : Z) : Prop := exists r, In r (work_of wgp wvec g) /\ forall v0, In v0 vs0 -> f_out v0 <> Reg g r.

Hypothesis Hspare : forall g, (g = 0 \/ g = 1) -> grp_swap a g = false ->
  (exists v0 o, In v0 vs0 /\ f_out v0 = Reg g o) -> has_spare g.

Lemma out_not_spare vs emit k u l : finv' vs emit -> nth_error vs k = Some u -> (forall v0, In v0 vs0 -> f_out v0 <> l) -> f_out u <> l.
Proof.
  intros Hinv Hk Hs. destruct (finv_orig _ _ _ _ _ Hv0 _ _ _ _ Hinv Hk) as [u0 [H0 [_ [E _]]]]. rewrite E.
  apply Hs. eapply nth_error_In; eassumption.
Qed.

Lemma floop_noerr fuel : forall vs emit p, flinv vs emit p -> floop a wgp wvec fuel vs emit p <> FErr.
Proof.
  induction fuel as [| f IH]; intros vs emit p Hl; cbn [floop]; [discriminate|].
  pose proof (fpass_linv vs emit p Hl) as Hl'.
  destruct (negb (fs_pending (fpass a wgp wvec (mkFS vs emit false false p)))) eqn:Hpe; [discriminate|].
  destruct (negb (fs_did (fpass a wgp wvec (mkFS vs emit false false p))) &&
            fs_postponed (fpass a wgp wvec (mkFS vs emit false false p))) eqn:Hc.
  - exfalso. apply andb_prop in Hc. destruct Hc as [Hd Hp]. apply negb_true_iff in Hd. apply negb_false_iff in Hpe.
    destruct (fpass_noact _ Hd) as [_ [_ [G3 G4]]]. cbn [fs_vars fs_postponed] in *. rewrite G3 in Hp. subst p.
    destruct (pending_not_settled _ _ _ Hpe) as [i [v [g [c [o [Hv [Hnd [Ec Eo]]]]]]]].
    destruct (G4 i v g c o Hv Hnd Ec Eo) as [_ [Hne [j [alt [Hf [Ha [Eca Hor]]]]]]].
    destruct Hl as [Hinv [Hsd Hb]].
    assert (Had : f_done alt = false).
    { apply (falt_not_done _ _ _ _ _ _ Hinv Hv Ha); [congruence|]. rewrite Ec, Eo. congruence. }
    destruct Hor as [Hor | [Hsw Hnone]].
    + rewrite Had in Hor. cbn in Hor. rewrite orb_true_r in Hor. discriminate.
    + destruct (finv_cur_reg _ _ _ _ _ Hv0 _ _ _ _ _ _ Hinv Hv Ec) as [G1 _].
      assert (Hg : g = 0 \/ g = 1) by (unfold vgrp in G1; destruct (f_int v); lia).
      assert (Hex : exists v0 o', In v0 vs0 /\ f_out v0 = Reg g o').
      { destruct (finv_orig _ _ _ _ _ Hv0 _ _ _ _ Hinv Hv) as [v0 [H0 [_ [E _]]]]. exists v0, o.
        split; [eapply nth_error_In; eassumption | congruence]. }
      destruct (Hspare g Hg Hsw Hex) as [r [Hr Hro]].
      pose proof (fscratch_none wgp wvec vs g r Hnone Hr) as Has. apply fassigned_true in Has.
      destruct Has as [k [u [Hk Eu]]]. destruct (f_done u) eqn:Hud.
      * apply (out_not_spare _ _ _ _ _ Hinv Hk Hro). rewrite <- (finv_done_cur _ _ _ _ _ Hv0 _ _ _ _ Hinv Hk Hud). assumption.
      * destruct (fblocked_cur_is_out _ _ Hinv Hsd (Hb eq_refl) k u Hk Hud) as [k' [u' [Hk' [_ [_ Eu']]]]].
        { rewrite Eu. reflexivity. }
        apply (out_not_spare _ _ _ _ _ Hinv Hk' Hro). congruence.
  - apply IH. assumption.
Qed.

End Blocked.

(* ---------------------------------------------------------------------------------------------- *)
(* phase 1 does not fail when a GP work register is free whenever a stack-to-stack variable exists *)

Lemma fassigned_fset_false vs i v x l : nth_error vs i = Some v ->
  (forall k u, k <> i -> nth_error vs k = Some u -> f_cur u <> l) -> f_cur x <> l -> fassigned (fset vs i x) l = false.
Proof.
  intros Hv Hoth Hx. destruct (fassigned (fset vs i x) l) eqn:E; [| reflexivity]. exfalso.
  apply fassigned_true in E. destruct E as [k [u [Hk Eu]]]. pose proof (nth_error_lt _ _ _ Hv) as Hi.
  destruct (Nat.eq_dec k i) as [Eki | Eki].
  - subst k. rewrite nth_fset_eq in Hk by assumption. inversion Hk; subst u. contradiction.
  - rewrite nth_fset_ne in Hk by congruence. exact (Hoth k u Eki Hk Eu).
Qed.

Section Phase1Total.
Variable a : farch.
Variables wgp wvec : list Z.
Variable vs0 : list fvar.
Hypothesis Hs2s : (exists v, In v vs0 /\ is_regl (f_cur v) = false /\ is_regl (f_out v) = false) ->
                  exists r, In r wgp /\ forall v, In v vs0 -> f_cur v <> Reg 0 r.

Definition Q1 (k : nat) (acc : option (list fvar * list minst)) : Prop :=
  exists vars em, acc = Some (vars, em) /\
    (forall i, (k <= i)%nat -> nth_error vars i = nth_error vs0 i) /\
    (forall r, (forall v, In v vs0 -> f_cur v <> Reg 0 r) -> fassigned vars (Reg 0 r) = false).

Lemma stk_step_Q1 k acc : Q1 k acc -> Q1 (S k) (stk_step a wgp wvec acc k).
Proof.
  intros [vars [em [E [H2 H3]]]]. subst acc. unfold stk_step.
  destruct (nth_error vars k) as [v |] eqn:Hv.
  2:{ exists vars, em. split; [reflexivity|]. split; [intros i Hi; apply H2; lia | assumption]. }
  destruct (is_regl (f_out v)) eqn:Hm.
  { exists vars, em. split; [reflexivity|]. split; [intros i Hi; apply H2; lia | assumption]. }
  assert (Hset : forall em', Q1 (S k) (Some (fset vars k (fmoved v (f_out v) true), em'))).
  { intros em'. eexists _, em'. split; [reflexivity|]. split.
    - intros i Hi. rewrite nth_fset_ne by lia. apply H2. lia.
    - intros r Hr. apply fassigned_fset_false with v; [assumption | |].
      + intros k' u _ Hu. exact (fassigned_false _ _ _ _ (H3 r Hr) Hu).
      + cbn [fmoved f_cur]. intros E. rewrite E in Hm. discriminate. }
  destruct (f_cur v) as [g r | ca co] eqn:Ec; [apply Hset|].
  destruct (zmin_list (favail wgp wvec vars 0)) as [sc |] eqn:Hsc; [apply Hset|]. exfalso.
  apply zmin_list_none in Hsc.
  assert (Hin : In v vs0). { apply nth_error_In with k. rewrite <- (H2 k (Nat.le_refl k)). assumption. }
  destruct Hs2s as [r [Hr Hfree]].
  { exists v. split; [assumption|]. split; [rewrite Ec; reflexivity | assumption]. }
  assert (In r (favail wgp wvec vars 0)).
  { unfold favail. apply filter_In. split; [exact Hr|]. rewrite (H3 r Hfree). reflexivity. }
  rewrite Hsc in *. contradiction.
Qed.

Lemma stk_phase_total : stk_phase a wgp wvec vs0 <> None.
Proof.
  unfold stk_phase.
  pose proof (fold_seq_ind (stk_step a wgp wvec) Q1 stk_step_Q1 (length vs0) (Some (vs0, []))) as HP.
  destruct HP as [vars [em [E _]]]; [| congruence].
  exists vs0, []. split; [reflexivity|]. split; [reflexivity|].
  intros r Hr. destruct (fassigned vs0 (Reg 0 r)) eqn:E; [| reflexivity]. exfalso.
  apply fassigned_true in E. destruct E as [k [v [Hk Ev]]]. apply (Hr v); [eapply nth_error_In; eassumption | assumption].
Qed.

End Phase1Total.

(* ---------------------------------------------------------------------------------------------- *)
(* 4. totality: no kInvalidState when
     (i)  a GP work register is not the current location of any variable, if a stack-to-stack variable exists, and
     (ii) every register group without an exchange instruction, if some variable is bound for a register of the group, has a
          work register that is not a destination *)

Theorem fsolve_no_error : forall a wgp wvec vs0, fwf_inputb wgp wvec vs0 = true -> farch_okb a vs0 = true ->
  ((exists v, In v vs0 /\ is_regl (f_cur v) = false /\ is_regl (f_out v) = false) ->
   exists r, In r wgp /\ ~ In (Reg 0 r) (map f_cur vs0)) ->
  (forall g, (g = 0 \/ g = 1) -> grp_swap a g = false -> (exists v o, In v vs0 /\ f_out v = Reg g o) ->
   exists r, In r (work_of wgp wvec g) /\ ~ In (Reg g r) (map f_out vs0)) ->
  fsolve a wgp wvec vs0 <> SErr.
Proof.
  intros a wgp wvec vs0 Hwf Har H1 H2. apply (fwf_inputb_sound a) in Hwf; [| exact Har].
  pose proof (fwf_finv a wgp wvec vs0 (fun _ => 0) Hwf) as Hinv. destruct Hwf as [Hok [_ [Ho _]]].
  unfold fsolve.
  destruct (stk_phase a wgp wvec vs0) as [[vs1 em1] |] eqn:E1.
  - destruct (stk_phase_ok a wgp wvec vs0 (fun _ => 0) Hok Ho _ _ Hinv E1) as [Hinv1 Hsd1].
    assert (Hne : floop a wgp wvec (4 * length vs0 + 4) vs1 em1 false <> FErr).
    { apply (floop_noerr a wgp wvec vs0 (fun _ => 0) Hok Ho).
      - intros g Hg Hsw Hex. destruct (H2 g Hg Hsw Hex) as [r [Hr Hn]]. exists r. split; [assumption|].
        intros v0 Hin E. apply Hn. rewrite <- E. apply in_map. assumption.
      - split; [assumption|]. split; [assumption | discriminate]. }
    destruct (floop a wgp wvec (4 * length vs0 + 4) vs1 em1 false); congruence.
  - exfalso. apply (stk_phase_total a wgp wvec vs0); [| assumption].
    intros Hex. destruct (H1 Hex) as [r [Hr Hn]]. exists r. split; [assumption|].
    intros v Hin E. apply Hn. rewrite <- E. apply in_map. assumption.
Qed.

(* ---------------------------------------------------------------------------------------------- *)
(* 3. termination.  A pass that did nothing is followed by a pass that does something or ends the loop; every pass that does
   something strictly decreases a measure bounded by 2 * n, the sum over the unfinished variables sitting in a register of
   - group with an exchange instruction: the weight 2 when the variable is not in its destination register, 1 when it is but
     still has to be extended;
   - group without: 1, plus 1 when the variable is not "free-ending" (its chain destination -> occupant -> its destination ...
     does not reach a free register).
   The flags are shared by the groups but every action belongs to one group and leaves the contribution of the other group
   unchanged. *)

Fixpoint fwsum (g : fvar -> nat) (vs : list fvar) : nat := match vs with [] => 0 | v :: r => g v + fwsum g r end.

Lemma fwsum_fset g vs : forall i v x, nth_error vs i = Some v -> (fwsum g (fset vs i x) + g v = fwsum g vs + g x)%nat.
Proof.
  induction vs as [| y r IH]; intros [| k] v x H; cbn [nth_error fset fwsum] in *; try discriminate.
  - inversion H; subst. lia.
  - specialize (IH k v x H). lia.
Qed.

Inductive FEf (vs : list fvar) : nat -> Prop :=
| FEf_free i v : nth_error vs i = Some v -> f_done v = false -> is_regl (f_cur v) = true ->
    fassigned vs (f_out v) = false -> FEf vs i
| FEf_next i v j alt : nth_error vs i = Some v -> f_done v = false -> is_regl (f_cur v) = true ->
    nth_error vs j = Some alt -> is_regl (f_cur alt) = true -> f_cur alt = f_out v -> FEf vs j -> FEf vs i.

(* a move into the destination register keeps the other variables free-ending *)
Lemma FEf_move_pres vars i v : fcur_inj vars -> fout_inj vars -> nth_error vars i = Some v ->
  forall k, FEf vars k -> k <> i -> FEf (fset vars i (fmoved v (f_out v) true)) k.
Proof.
  intros Hci Hoi Hv k HFE. induction HFE as [k u Hu Hud Hur Hfree | k u j alt Hu Hud Hur Hj Hjr Eca HFj IH]; intros Hki.
  - apply FEf_free with u; [rewrite nth_fset_ne by congruence; assumption | assumption | assumption |].
    apply fassigned_fset_false with v; [assumption | |].
    + intros k' u' _ Hu'. exact (fassigned_false _ _ _ _ Hfree Hu').
    + cbn [fmoved f_cur]. intros E. apply Hki. apply (Hoi k i u v Hu Hv). congruence.
  - destruct (Nat.eq_dec j i) as [Eji | Eji].
    + subst j. assert (alt = v) by congruence. subst alt.
      apply FEf_free with u; [rewrite nth_fset_ne by congruence; assumption | assumption | assumption |].
      apply fassigned_fset_false with v; [assumption | |].
      * intros k' u' Hk' Hu' E. apply Hk'. apply (Hci k' i u' v Hu' Hv). congruence.
      * cbn [fmoved f_cur]. intros E. apply Hki. apply (Hoi k i u v Hu Hv). congruence.
    + apply FEf_next with u j alt; [rewrite nth_fset_ne by congruence; assumption | assumption | assumption
                                   | rewrite nth_fset_ne by congruence; assumption | assumption | assumption | apply IH; assumption].
Qed.

Section Scratch.
Variable vars : list fvar.
Variables i j : nat.
Variables v alt : fvar.
Variable l : loc.
Hypothesis Hci : fcur_inj vars.
Hypothesis Hv : nth_error vars i = Some v.
Hypothesis Ha : nth_error vars j = Some alt.
Hypothesis Had : f_done alt = false.
Hypothesis Eca : f_cur alt = f_out v.
Hypothesis Hne : f_cur v <> f_out v.
Hypothesis Hsc : fassigned vars l = false.
Hypothesis Hlr : is_regl l = true.
Hypothesis Hor : is_regl (f_out v) = true.

Let vars' := fset vars i (fmoved v l false).

Lemma fscr_ij : i <> j.
Proof. intros E. subst j. assert (alt = v) by congruence. subst alt. congruence. Qed.

Lemma fscr_old_free : fassigned vars' (f_cur v) = false.
Proof.
  apply fassigned_fset_false with v; [assumption | |].
  - intros k u Hk Hu E. apply Hk. apply (Hci k i u v Hu Hv). assumption.
  - cbn [fmoved f_cur]. intros E. exact (fassigned_false _ _ _ _ Hsc Hv (eq_sym E)).
Qed.

Lemma fmutual_not_FE : f_out alt = f_cur v -> forall k, FEf vars k -> k <> i /\ k <> j.
Proof.
  intros Em k HFE. induction HFE as [k u Hu Hud Hur Hfree | k u j' alt' Hu Hud Hur Hj Hjr Eca' HFj IH].
  - split; intros E; subst k.
    + assert (u = v) by congruence. subst u. exact (fassigned_false _ _ _ _ Hfree Ha Eca).
    + assert (u = alt) by congruence. subst u. exact (fassigned_false _ _ _ _ Hfree Hv (eq_sym Em)).
  - destruct IH as [I1 I2]. split; intros E; subst k.
    + assert (u = v) by congruence. subst u. apply I2. apply (Hci j' j alt' alt Hj Ha). congruence.
    + assert (u = alt) by congruence. subst u. apply I1. apply (Hci j' i alt' v Hj Hv). congruence.
Qed.

Lemma FEf_scr_self : f_out alt = f_cur v -> FEf vars' i.
Proof.
  intros Em. pose proof fscr_ij as Hij. pose proof (nth_error_lt _ _ _ Hv) as Hi.
  assert (Har : is_regl (f_cur alt) = true) by (rewrite Eca; assumption).
  apply FEf_next with (fmoved v l false) j alt.
  - apply nth_fset_eq. assumption.
  - reflexivity.
  - assumption.
  - unfold vars'. rewrite nth_fset_ne by assumption. assumption.
  - assumption.
  - assumption.
  - apply FEf_free with alt; [unfold vars'; rewrite nth_fset_ne by assumption; assumption | assumption | assumption |].
    rewrite Em. apply fscr_old_free.
Qed.

Lemma FEf_scr_pres : FEf vars' i -> (forall k, FEf vars k -> k <> i) -> forall k, FEf vars k -> FEf vars' k.
Proof.
  intros Hself Hnot k HFE. pose proof (nth_error_lt _ _ _ Hv) as Hi.
  induction HFE as [k u Hu Hud Hur Hfree | k u j' alt' Hu Hud Hur Hj Hjr Eca' HFj IH].
  - assert (Hki : k <> i) by (apply Hnot; eapply FEf_free; eassumption).
    destruct (loc_eqb_spec (f_out u) l) as [E | E].
    + apply FEf_next with u i (fmoved v l false);
        [unfold vars'; rewrite nth_fset_ne by congruence; assumption | assumption | assumption
        | apply nth_fset_eq; assumption | assumption | cbn [fmoved f_cur]; congruence | assumption].
    + apply FEf_free with u; [unfold vars'; rewrite nth_fset_ne by congruence; assumption | assumption | assumption |].
      apply fassigned_fset_false with v; [assumption | |].
      * intros k' u' _ Hu'. exact (fassigned_false _ _ _ _ Hfree Hu').
      * cbn [fmoved f_cur]. congruence.
  - assert (Hki : k <> i) by (apply Hnot; eapply FEf_next; eassumption).
    assert (Hji : j' <> i) by (apply Hnot; assumption).
    apply FEf_next with u j' alt';
      [unfold vars'; rewrite nth_fset_ne by congruence; assumption | assumption | assumption
      | unfold vars'; rewrite nth_fset_ne by congruence; assumption | assumption | assumption | assumption].
Qed.

End Scratch.

Section Measure.
Variable a : farch.
Variables wgp wvec : list Z.
Variable vs0 : list fvar.
Variable st0 : state.
Hypothesis Hv0 : forall i v0, nth_error vs0 i = Some v0 -> v0_ok a wgp wvec v0.
Hypothesis Hout0 : fout_inj vs0.

Local Notation finv' := (finv a wgp wvec vs0 st0).

(* unfinished, in a register of a group without an exchange instruction *)
Definition scrb (v : fvar) : bool :=
  negb (f_done v) && match f_cur v with Reg g _ => negb (grp_swap a g) | Mem _ _ => false end.

Definition fwt (v : fvar) : nat :=
  if f_done v then 0%nat else
  match f_cur v with
  | Reg g _ => if grp_swap a g then (if loc_eqb (f_cur v) (f_out v) then 1%nat else 2%nat) else 1%nat
  | Mem _ _ => 0%nat
  end.

Lemma fwt_le v : (fwt v <= 2)%nat.
Proof. unfold fwt. destruct (f_done v); [lia|]. destruct (f_cur v); [| lia]. destruct (grp_swap a g); [| lia].
  destruct (loc_eqb _ _); lia. Qed.

Lemma fwt_scr_le v : (fwt v + (if scrb v then 1 else 0) <= 2)%nat.
Proof.
  unfold fwt, scrb. destruct (f_done v); cbn [negb andb]; [lia|]. destruct (f_cur v); [| lia].
  destruct (grp_swap a g); cbn [negb]; [| lia]. destruct (loc_eqb _ _); lia.
Qed.

Definition fbounded (vs : list fvar) (m : nat) : Prop :=
  exists L : list nat, (forall i v, nth_error vs i = Some v -> scrb v = true -> ~ FEf vs i -> In i L) /\
                       (fwsum fwt vs + length L <= m)%nat.

Lemma blocked_no_FE vars emit : finv' vars emit -> stk_done vars -> all_blocked a wgp wvec vars -> forall k, FEf vars k -> False.
Proof.
  intros Hinv Hsd Hb k HFE. induction HFE as [k u Hu Hud Hur Hfree | k u j alt Hu Hud Hur Hj Hjr Eca HFj IH]; [| assumption].
  destruct (f_cur u) as [g c |] eqn:Ec; [| discriminate].
  destruct (active_shape a wgp wvec vs0 st0 Hv0 _ _ _ _ _ _ Hinv Hsd Hu Hud Ec) as [o Eo].
  destruct (Hb k u g c o Hu Hud Ec Eo) as [B1 _]. rewrite Eo in Hfree. congruence.
Qed.

(* an exchange in a group with an exchange instruction leaves the free-ending variables of the other groups free-ending *)
Lemma FEf_xchg_pres vars emit i j v alt g c o dv da :
  finv' vars emit -> nth_error vars i = Some v -> nth_error vars j = Some alt -> i <> j ->
  f_cur v = Reg g c -> f_cur alt = Reg g o -> grp_swap a g = true ->
  forall k, FEf vars k -> forall u g1 c1, nth_error vars k = Some u -> f_cur u = Reg g1 c1 -> grp_swap a g1 = false ->
  FEf (fset (fset vars i (fupd v (Reg g o) dv)) j (fupd alt (Reg g c) da)) k.
Proof.
  intros Hinv Hv Ha Hij Ecv Eca Hsw k HFE.
  pose proof (nth_error_lt _ _ _ Hv) as Hi. pose proof (nth_error_lt _ _ _ Ha) as Hj.
  induction HFE as [k u Hu Hud Hur Hfree | k u j' alt' Hu Hud Hur Hj' Hjr Eca' HFj IH]; intros u1 g1 c1 Hu1 Ec1 Hns;
    assert (u1 = u) by congruence; subst u1;
    assert (Hki : k <> i) by (intros E; subst k; assert (u = v) by congruence; subst u; congruence);
    assert (Hkj : k <> j) by (intros E; subst k; assert (u = alt) by congruence; subst u; congruence);
    assert (Hu' : nth_error (fset (fset vars i (fupd v (Reg g o) dv)) j (fupd alt (Reg g c) da)) k = Some u)
      by (rewrite nth_fset2 by assumption; destruct (Nat.eq_dec k j); [contradiction|];
          destruct (Nat.eq_dec k i); [contradiction | assumption]).
  - apply FEf_free with u; try assumption.
    destruct (fassigned (fset (fset vars i (fupd v (Reg g o) dv)) j (fupd alt (Reg g c) da)) (f_out u)) eqn:E; [| reflexivity].
    exfalso. apply fassigned_true in E. destruct E as [k' [w [Hk' Ew]]]. rewrite nth_fset2 in Hk' by assumption.
    destruct (Nat.eq_dec k' j); [| destruct (Nat.eq_dec k' i)].
    + inversion Hk'; subst w. cbn [fupd f_cur] in Ew. apply (fassigned_false _ _ _ _ Hfree Hv). congruence.
    + inversion Hk'; subst w. cbn [fupd f_cur] in Ew. apply (fassigned_false _ _ _ _ Hfree Ha). congruence.
    + exact (fassigned_false _ _ _ _ Hfree Hk' Ew).
  - destruct (f_cur alt') as [g' o' |] eqn:Eca2; [| discriminate].
    assert (Eg : g' = g1).
    { destruct (finv_cur_reg _ _ _ _ _ Hv0 _ _ _ _ _ _ Hinv Hu Ec1) as [G1 _].
      destruct (finv_out_reg _ _ _ _ _ Hv0 _ _ _ _ g' o' Hinv Hu (eq_sym Eca')) as [G2 _]. congruence. }
    subst g'.
    assert (Hji : j' <> i) by (intros E; subst j'; assert (alt' = v) by congruence; subst alt'; congruence).
    assert (Hjj : j' <> j) by (intros E; subst j'; assert (alt' = alt) by congruence; subst alt'; congruence).
    apply FEf_next with u j' alt'; try assumption.
    + rewrite nth_fset2 by assumption. destruct (Nat.eq_dec j' j); [contradiction|].
      destruct (Nat.eq_dec j' i); [contradiction | assumption].
    + rewrite Eca2. reflexivity.
    + rewrite Eca2. assumption.
    + apply (IH alt' g1 o'); assumption.
Qed.

Lemma fstep_bounded s i s' m : fstep_spec a wgp wvec s i s' -> fpinv a wgp wvec vs0 st0 s -> fbounded (fs_vars s) m ->
  exists m', fbounded (fs_vars s') m' /\ (m' <= m)%nat /\ (fs_did s = false -> fs_did s' = true -> (m' < m)%nat).
Proof.
  intros Hs [Hinv [Hsd Hblk]] Hb.
  pose proof (finv_out_inj _ _ _ _ _ Hv0 Hout0 _ _ Hinv) as Hoi.
  pose proof Hinv as [Hlen [Hci _]].
  destruct Hs as [Hn | v Hv Hd | v Hv Hd Hnr | v g c o Hv Hd Ec Eo Hc | v g c o j alt Hv Hd Ec Eo Has Hne Hf Ha Eca Hm Hsw
    | v g c o j alt sc Hv Hd Ec Eo Has Hne Hf Ha Eca Hm Hsw Hsc | v g c o j alt Hv Hd Ec Eo Has Hne Hf Ha Eca Hm Hsw Hsc
    | v g c o j alt Hv Hd Ec Eo Has Hne Hf Ha Eca Hm];
    cbn [fs_did fs_vars]; try congruence;
    try (exists m; split; [assumption|]; split; [lia | congruence]).
  - (* move into the destination *)
    destruct Hb as [L [HL Hm]]. rewrite <- Eo.
    pose proof (fwsum_fset fwt _ i v (fmoved v (f_out v) true) Hv) as E.
    assert (fwt (fmoved v (f_out v) true) = 0%nat) by reflexivity.
    assert (1 <= fwt v)%nat.
    { unfold fwt. rewrite Hd, Ec. destruct (grp_swap a g); [| lia]. destruct (loc_eqb _ _); lia. }
    pose proof (nth_error_lt _ _ _ Hv) as Hi.
    exists (m - 1)%nat. split; [| split; [lia | intros; lia]].
    exists L. split; [| lia].
    intros k u Hu Hus Hnfe. destruct (Nat.eq_dec k i) as [Eki | Eki].
    + subst k. rewrite nth_fset_eq in Hu by assumption. inversion Hu; subst u. discriminate.
    + rewrite nth_fset_ne in Hu by congruence. apply (HL k u Hu Hus). intros HFE. apply Hnfe.
      apply FEf_move_pres; assumption.
  - (* exchange *)
    cbv zeta. destruct Hb as [L [HL Hm']].
    assert (Hij : i <> j). { intros E. subst j. assert (alt = v) by congruence. subst alt. congruence. }
    pose proof (nth_error_lt _ _ _ Hv) as Hi. pose proof (nth_error_lt _ _ _ Ha) as Hj.
    set (v' := fupd v (Reg g o) (negb (fneeds_ext v))).
    set (alt' := fupd alt (Reg g c) (loc_eqb (f_out alt) (Reg g c) && negb (fneeds_ext alt))).
    pose proof (fwsum_fset fwt _ i v v' Hv) as E1.
    assert (Ha' : nth_error (fset (fs_vars s) i v') j = Some alt) by (rewrite nth_fset_ne by assumption; assumption).
    pose proof (fwsum_fset fwt _ j alt alt' Ha') as E2.
    assert (fwt v = 2%nat).
    { unfold fwt. rewrite Hd, Ec, Eo, Hsw. destruct (loc_eqb_spec (Reg g c) (Reg g o)) as [E | E]; [congruence | reflexivity]. }
    assert (fwt v' <= 1)%nat.
    { unfold fwt, v'. cbn [fupd f_done f_cur f_out]. rewrite Hsw, Eo, loc_eqb_refl. destruct (negb (fneeds_ext v)); lia. }
    assert (fwt alt = 2%nat).
    { unfold fwt. rewrite Eca, Hsw.
      rewrite (falt_not_done a wgp wvec vs0 st0 Hv0 Hout0 _ _ _ _ _ _ Hinv Hv Ha) by congruence.
      destruct (loc_eqb_spec (Reg g o) (f_out alt)) as [E | E]; [| reflexivity]. exfalso. apply Hij.
      apply (Hoi i j v alt Hv Ha). congruence. }
    pose proof (fwt_le alt').
    exists (m - 1)%nat. split; [| split; [lia | intros; lia]].
    exists L. split; [| lia].
    intros k u Hu Hus Hnfe. rewrite nth_fset2 in Hu by assumption.
    destruct (Nat.eq_dec k j); [| destruct (Nat.eq_dec k i)].
    + inversion Hu; subst u. unfold scrb, alt' in Hus. cbn [fupd f_cur] in Hus. rewrite Hsw in Hus.
      cbn [negb] in Hus. rewrite andb_false_r in Hus. discriminate.
    + inversion Hu; subst u. unfold scrb, v' in Hus. cbn [fupd f_cur] in Hus. rewrite Hsw in Hus.
      cbn [negb] in Hus. rewrite andb_false_r in Hus. discriminate.
    + apply (HL k u Hu Hus). intros HFE. apply Hnfe.
      unfold scrb in Hus. apply andb_prop in Hus. destruct Hus as [_ Hus].
      destruct (f_cur u) as [g1 c1 |] eqn:Ecu; [| discriminate]. apply negb_true_iff in Hus.
      exact (FEf_xchg_pres _ _ _ _ _ _ _ _ _ _ _ Hinv Hv Ha Hij Ec Eca Hsw k HFE u g1 c1 Hu Ecu Hus).
  - (* move into a scratch register *)
    cbv zeta. destruct Hb as [L [HL Hm']].
    destruct (fscratch_some _ _ _ _ _ Hsc) as [_ Hsc'].
    assert (Eca' : f_cur alt = f_out v) by congruence.
    assert (Hne' : f_cur v <> f_out v) by (rewrite Ec, Eo; congruence).
    pose proof (falt_not_done a wgp wvec vs0 st0 Hv0 Hout0 _ _ _ _ _ _ Hinv Hv Ha Eca' Hne') as Had.
    assert (Hor : is_regl (f_out v) = true) by (rewrite Eo; reflexivity).
    pose proof (fwsum_fset fwt _ i v (fmoved v (Reg g sc) false) Hv) as E.
    assert (fwt (fmoved v (Reg g sc) false) = 1%nat). { unfold fwt. cbn [fmoved f_done f_cur]. rewrite Hsw. reflexivity. }
    assert (fwt v = 1%nat). { unfold fwt. rewrite Hd, Ec, Hsw. reflexivity. }
    assert (Hvs : scrb v = true). { unfold scrb. rewrite Hd, Ec, Hsw. reflexivity. }
    pose proof (nth_error_lt _ _ _ Hv) as Hi.
    destruct (loc_eqb_spec (f_out alt) (Reg g c)) as [Em | Em].
    + (* a 2-cycle is opened: the moved variable becomes free-ending *)
      assert (Em' : f_out alt = f_cur v) by congruence.
      pose proof (fmutual_not_FE _ _ _ _ _ Hci Hv Ha Eca' Em') as Hnot.
      pose proof (FEf_scr_self _ _ _ _ _ (Reg g sc) Hci Hv Ha Had Eca' Hne' Hsc' eq_refl Hor Em') as Hself.
      assert (HiL : In i L). { apply (HL i v Hv Hvs). intros HFE. destruct (Hnot i HFE) as [H1' _]. congruence. }
      pose proof (remove_length_lt Nat.eq_dec L i HiL) as Hlt.
      exists (m - 1)%nat. split; [| split; [lia | intros; lia]].
      exists (remove Nat.eq_dec i L). split; [| lia].
      intros k u Hu Hus Hnfe. destruct (Nat.eq_dec k i) as [Eki | Eki]; [subst k; contradiction|].
      apply in_in_remove; [assumption|]. rewrite nth_fset_ne in Hu by congruence. apply (HL k u Hu Hus).
      intros HFE. apply Hnfe. apply (FEf_scr_pres _ _ _ (Reg g sc) Hv eq_refl Hself); [| assumption].
      intros k' H'. apply (Hnot k' H').
    + (* a stuck state: nothing was free-ending; the variable bound for the vacated register becomes so *)
      cbn [orb] in Hm. apply andb_prop in Hm. destruct Hm as [Hp _].
      pose proof (Hblk Hp) as Hab.
      destruct (fblocked_cur_is_out a wgp wvec vs0 st0 Hv0 Hout0 _ _ Hinv Hsd Hab i v Hv Hd) as [k [u [Hk [Hkd [Hkr Eu]]]]].
      { rewrite Ec. reflexivity. }
      assert (Hki : k <> i). { intros E'. subst k. assert (u = v) by congruence. subst u. congruence. }
      assert (Hks : scrb u = true).
      { unfold scrb. rewrite Hkd. destruct (f_cur u) as [g1 c1 |] eqn:Ecu; [| discriminate].
        destruct (finv_cur_reg _ _ _ _ _ Hv0 _ _ _ _ _ _ Hinv Hk Ecu) as [G1 _].
        destruct (finv_out_reg _ _ _ _ _ Hv0 _ _ _ _ g c Hinv Hk ltac:(congruence)) as [G2 _].
        assert (Eg : g1 = g) by congruence. rewrite Eg, Hsw. reflexivity. }
      assert (HFk : FEf (fset (fs_vars s) i (fmoved v (Reg g sc) false)) k).
      { apply FEf_free with u; [rewrite nth_fset_ne by congruence; assumption | assumption | assumption |]. rewrite Eu.
        apply (fscr_old_free _ _ _ (Reg g sc) Hci Hv Hsc'). }
      assert (HkL : In k L). { apply (HL k u Hk Hks). intros HFE. exact (blocked_no_FE _ _ Hinv Hsd Hab k HFE). }
      pose proof (remove_length_lt Nat.eq_dec L k HkL) as Hlt.
      exists (m - 1)%nat. split; [| split; [lia | intros; lia]].
      exists (remove Nat.eq_dec k L). split; [| lia].
      intros k' u' Hu' Hus' Hnfe. destruct (Nat.eq_dec k' k) as [Ekk | Ekk]; [subst k'; contradiction|].
      apply in_in_remove; [assumption|]. destruct (Nat.eq_dec k' i) as [Eki | Eki].
      * subst k'. apply (HL i v Hv Hvs). intros HFE. exact (blocked_no_FE _ _ Hinv Hsd Hab i HFE).
      * rewrite nth_fset_ne in Hu' by congruence. apply (HL k' u' Hu' Hus'). intros HFE.
        exact (blocked_no_FE _ _ Hinv Hsd Hab k' HFE).
Qed.

Lemma ffold_bounded l : forall s m, fpinv a wgp wvec vs0 st0 s -> fbounded (fs_vars s) m ->
  exists m', fbounded (fs_vars (fold_left (fstep a wgp wvec) l s)) m' /\ (m' <= m)%nat /\
             (fs_did s = false -> fs_did (fold_left (fstep a wgp wvec) l s) = true -> (m' < m)%nat).
Proof.
  induction l as [| i r IH]; intros s m Hp Hb; cbn [fold_left].
  - exists m. split; [assumption|]. split; [lia | congruence].
  - pose proof (fstep_spec_ok a wgp wvec s i) as Hs.
    destruct (fstep_bounded s i _ m Hs Hp Hb) as [m1 [B1 [L1 S1]]].
    destruct (IH _ m1 (fstep_pinv a wgp wvec vs0 st0 Hv0 s i _ Hs Hp) B1) as [m' [B' [L' S']]].
    exists m'. split; [assumption|]. split; [lia|].
    intros Hd Hd'. destruct (fs_did (fstep a wgp wvec s i)) eqn:E.
    + specialize (S1 Hd eq_refl). lia.
    + specialize (S' eq_refl Hd'). lia.
Qed.

Lemma floop_fuel fuel : forall vs emit p m, flinv a wgp wvec vs0 st0 vs emit p -> fbounded vs m ->
  (2 * m + (if p then 1 else 2) <= fuel)%nat -> floop a wgp wvec fuel vs emit p <> FFuel.
Proof.
  induction fuel as [| f IH]; intros vs emit p m Hl Hb Hf; [destruct p; lia|]. cbn [floop].
  pose proof (fpass_linv a wgp wvec vs0 st0 Hv0 vs emit p Hl) as Hl'.
  destruct (negb (fs_pending (fpass a wgp wvec (mkFS vs emit false false p)))); [discriminate|].
  destruct (negb (fs_did (fpass a wgp wvec (mkFS vs emit false false p))) &&
            fs_postponed (fpass a wgp wvec (mkFS vs emit false false p))) eqn:Hc; [discriminate|].
  destruct (ffold_bounded (seq 0 (length vs)) (mkFS vs emit false false p) m (flinv_pinv _ _ _ _ _ _ _ _ Hl) Hb)
    as [m' [B' [L' S']]].
  change (fold_left (fstep a wgp wvec) (seq 0 (length vs)) (mkFS vs emit false false p))
    with (fpass a wgp wvec (mkFS vs emit false false p)) in *.
  cbn [fs_did] in S'.
  destruct (fs_did (fpass a wgp wvec (mkFS vs emit false false p))) eqn:Hd; cbn [negb] in *.
  - specialize (S' eq_refl eq_refl). apply (IH _ _ _ m'); [assumption | assumption | destruct p; lia].
  - destruct (fpass_noact a wgp wvec _ Hd) as [G1 [_ [G3 _]]]. cbn [fs_vars fs_postponed] in *. rewrite G1 in *.
    rewrite G3 in Hc. destruct p; [discriminate|]. apply (IH _ _ _ m); [assumption | assumption | lia].
Qed.

(* the initial bound *)
Fixpoint scr_idx (vs : list fvar) (k : nat) : list nat :=
  match vs with [] => [] | v :: r => if scrb v then k :: scr_idx r (S k) else scr_idx r (S k) end.

Lemma scr_idx_in vs : forall k i v, nth_error vs i = Some v -> scrb v = true -> In (k + i)%nat (scr_idx vs k).
Proof.
  induction vs as [| x r IH]; intros k [| i] v H Hs; cbn [nth_error scr_idx] in *; try discriminate.
  - inversion H; subst. rewrite Hs. left. lia.
  - specialize (IH (S k) i v H Hs). replace (k + S i)%nat with (S k + i)%nat by lia.
    destruct (scrb x); [right; assumption | assumption].
Qed.

Lemma scr_idx_len vs : forall k, (fwsum fwt vs + length (scr_idx vs k) <= 2 * length vs)%nat.
Proof.
  induction vs as [| x r IH]; intros k; cbn [fwsum scr_idx length]; [lia|].
  specialize (IH (S k)). pose proof (fwt_scr_le x). destruct (scrb x); cbn [length]; lia.
Qed.

Lemma fbounded_init vs : fbounded vs (2 * length vs).
Proof.
  exists (scr_idx vs 0). split; [| apply scr_idx_len].
  intros i v Hv Hs _. apply (scr_idx_in vs 0 i v Hv Hs).
Qed.

End Measure.

Theorem fsolve_terminates : forall a wgp wvec vs0, fwf_inputb wgp wvec vs0 = true -> farch_okb a vs0 = true -> fsolve a wgp wvec vs0 <> SFuel.
Proof.
  intros a wgp wvec vs0 Hwf Har. apply (fwf_inputb_sound a) in Hwf; [| exact Har].
  pose proof (fwf_finv a wgp wvec vs0 (fun _ => 0) Hwf) as Hinv. destruct Hwf as [Hok [_ [Ho _]]].
  unfold fsolve.
  destruct (stk_phase a wgp wvec vs0) as [[vs1 em1] |] eqn:E1; [| discriminate].
  destruct (stk_phase_ok a wgp wvec vs0 (fun _ => 0) Hok Ho _ _ Hinv E1) as [Hinv1 Hsd1].
  assert (Hne : floop a wgp wvec (4 * length vs0 + 4) vs1 em1 false <> FFuel).
  { apply (floop_fuel a wgp wvec vs0 (fun _ => 0) Hok Ho _ _ _ _ (2 * length vs1)%nat).
    - split; [assumption|]. split; [assumption | discriminate].
    - apply fbounded_init.
    - destruct Hinv1 as [Hlen _]. lia. }
  destruct (floop a wgp wvec (4 * length vs0 + 4) vs1 em1 false); congruence.
Qed.

(* under the conditions of fsolve_no_error the function produces a sequence (which is correct by fsolve_correct) *)
Corollary fsolve_total : forall a wgp wvec vs0, fwf_inputb wgp wvec vs0 = true -> farch_okb a vs0 = true ->
  ((exists v, In v vs0 /\ is_regl (f_cur v) = false /\ is_regl (f_out v) = false) ->
   exists r, In r wgp /\ ~ In (Reg 0 r) (map f_cur vs0)) ->
  (forall g, (g = 0 \/ g = 1) -> grp_swap a g = false -> (exists v o, In v vs0 /\ f_out v = Reg g o) ->
   exists r, In r (work_of wgp wvec g) /\ ~ In (Reg g r) (map f_out vs0)) ->
  exists ms, fsolve a wgp wvec vs0 = SOk ms.
Proof.
  intros a wgp wvec vs0 Hwf Har H1 H2. pose proof (fsolve_no_error a wgp wvec vs0 Hwf Har H1 H2).
  pose proof (fsolve_terminates a wgp wvec vs0 Hwf Har).
  destruct (fsolve a wgp wvec vs0) as [ms | |]; [exists ms; reflexivity | congruence | congruence].
Qed.

(* x86-64: the GP group has xchg; only the vector group needs a spare register *)
Corollary fsolve_x64_no_error : forall wgp wvec vs0, fwf_inputb wgp wvec vs0 = true -> farch_okb FX64 vs0 = true ->
  ((exists v, In v vs0 /\ is_regl (f_cur v) = false /\ is_regl (f_out v) = false) ->
   exists r, In r wgp /\ ~ In (Reg 0 r) (map f_cur vs0)) ->
  ((exists v o, In v vs0 /\ f_out v = Reg 1 o) -> exists r, In r wvec /\ ~ In (Reg 1 r) (map f_out vs0)) ->
  fsolve FX64 wgp wvec vs0 <> SErr.
Proof.
  intros wgp wvec vs0 Hwf Har H1 H2. apply fsolve_no_error; try assumption.
  intros g [Hg | Hg] Hsw Hex; subst g; [discriminate|]. apply H2. assumption.
Qed.

(* register-only assignments of integers on x86-64 never fail *)
Corollary fsolve_x64_gp_regs_no_error : forall wgp wvec vs0, fwf_inputb wgp wvec vs0 = true -> farch_okb FX64 vs0 = true ->
  (forall v, In v vs0 -> f_int v = true /\ is_regl (f_cur v) = true /\ is_regl (f_out v) = true) ->
  fsolve FX64 wgp wvec vs0 <> SErr.
Proof.
  intros wgp wvec vs0 Hwf Har Hall. apply fsolve_x64_no_error; try assumption.
  - intros [v [Hin [H1 _]]]. destruct (Hall v Hin) as [_ [H2 _]]. congruence.
  - intros [v [o [Hin Eo]]]. exfalso. destruct (Hall v Hin) as [Hi _].
    apply (fwf_inputb_sound FX64) in Hwf; [| exact Har]. destruct Hwf as [Hok _]. apply In_nth_error in Hin. destruct Hin as [i Hi'].
    destruct (Hok i v Hi') as [_ [_ [Hlo _]]]. unfold locp in Hlo. rewrite Eo in Hlo. destruct Hlo as [Hg _].
    unfold vgrp in Hg. rewrite Hi in Hg. discriminate.
Qed.

(* ---------------------------------------------------------------------------------------------- *)
(* examples (non-vacuity): a GP 2-cycle with a widening, a vector 2-cycle, stack -> stack, stack -> register, register -> stack *)

Definition ex_wgp : list Z := [0; 1; 2; 6; 7; 8; 9; 10; 11].
Definition ex_wvec : list Z := [0; 1; 2; 3; 4; 5; 6; 7].
Definition ex_mixed : list fvar :=
  [ finit (Reg 0 7) 4 true (Reg 0 6) 8 true true;
    finit (Reg 0 6) 8 false (Reg 0 7) 8 false true;
    finit (Reg 1 0) 8 false (Reg 1 1) 8 false false;
    finit (Reg 1 1) 8 false (Reg 1 0) 8 false false;
    finit (Mem 0 8) 2 true (Mem 1 0) 4 true true;
    finit (Mem 0 16) 4 false (Reg 0 2) 4 false true;
    finit (Reg 0 2) 8 true (Mem 1 8) 8 true true ].

Example ex_mixed_wf : fwf_inputb ex_wgp ex_wvec ex_mixed = true.
Proof. vm_compute. reflexivity. Qed.

Example ex_mixed_x64 :
  fsolve FX64 ex_wgp ex_wvec ex_mixed =
  SOk [IExt (Reg 0 0) (Mem 0 8) ES 16 32 64; IExt (Mem 1 0) (Reg 0 0) EZ 32 32 32; IExt (Mem 1 8) (Reg 0 2) EZ 64 64 64;
       IXchg (Reg 0 6) (Reg 0 7) 64 64; IExt (Reg 1 2) (Reg 1 0) EZ 128 128 128; IExt (Reg 1 0) (Reg 1 1) EZ 128 128 128;
       IExt (Reg 0 6) (Reg 0 6) ES 32 64 64; IExt (Reg 1 1) (Reg 1 2) EZ 128 128 128; IExt (Reg 0 2) (Mem 0 16) EZ 32 32 64].
Proof. vm_compute. reflexivity. Qed.

Example ex_mixed_a64 :
  fsolve FA64 ex_wgp ex_wvec ex_mixed =
  SOk [IExt (Reg 0 0) (Mem 0 8) ES 16 32 64; IExt (Mem 1 0) (Reg 0 0) EZ 32 32 32; IExt (Mem 1 8) (Reg 0 2) EZ 64 64 64;
       IExt (Reg 0 0) (Reg 0 7) ES 32 64 64; IExt (Reg 0 7) (Reg 0 6) EZ 64 64 64; IExt (Reg 1 2) (Reg 1 0) EZ 64 64 128;
       IExt (Reg 1 0) (Reg 1 1) EZ 64 64 128; IExt (Reg 0 6) (Reg 0 0) EZ 64 64 64; IExt (Reg 1 1) (Reg 1 2) EZ 64 64 128;
       IExt (Reg 0 2) (Mem 0 16) EZ 32 32 64].
Proof. vm_compute. reflexivity. Qed.

(* the independent validator accepts both sequences *)
Example ex_mixed_valid :
  match fsolve FX64 ex_wgp ex_wvec ex_mixed, fsolve FA64 ex_wgp ex_wvec ex_mixed with
  | SOk m1, SOk m2 =>
      validate (map fmove_of ex_mixed) (map (Reg 0) ex_wgp ++ map (Reg 1) ex_wvec) m1 &&
      validate (map fmove_of ex_mixed) (map (Reg 0) ex_wgp ++ map (Reg 1) ex_wvec) m2
  | _, _ => false
  end = true.
Proof. vm_compute. reflexivity. Qed.

(* the conditions of fsolve_no_error are needed: without a spare vector register (ii) / without a free GP register for the
   stack-to-stack variable (i) the well-formed input is refused *)
Example ex_mixed_no_vec_scratch : fwf_inputb ex_wgp [0; 1] ex_mixed = true /\ fsolve FX64 ex_wgp [0; 1] ex_mixed = SErr.
Proof. vm_compute. split; reflexivity. Qed.

Example ex_mixed_no_gp_scratch : fwf_inputb [2; 6; 7] ex_wvec ex_mixed = true /\ fsolve FX64 [2; 6; 7] ex_wvec ex_mixed = SErr.
Proof. vm_compute. split; reflexivity. Qed.

(* x86-64 with AVX: a YMM 2-cycle through the spare register, a YMM register -> stack store, a ZMM stack -> register load, a GP widening;
   the same input is outside the fragment without AVX (farch_okb) *)
Definition ex_avx : list fvar :=
  [ finit (Reg 1 0) 32 false (Reg 1 1) 32 false false; finit (Reg 1 1) 32 false (Reg 1 0) 32 false false;
    finit (Reg 1 2) 32 false (Mem 1 32) 32 false false; finit (Mem 0 0) 64 false (Reg 1 2) 64 false false;
    finit (Reg 0 7) 1 true (Reg 0 6) 4 true true ].
Example ex_avx_solved :
  fwf_inputb [0;6;7] [0;1;2;3] ex_avx = true /\ farch_okb FX64A ex_avx = true /\ farch_okb FX64 ex_avx = false /\
  fsolve FX64A [0;6;7] [0;1;2;3] ex_avx =
  SOk [IExt (Mem 1 32) (Reg 1 2) EZ 256 256 256; IExt (Reg 1 3) (Reg 1 0) EZ 256 256 512; IExt (Reg 1 0) (Reg 1 1) EZ 256 256 512;
       IExt (Reg 0 6) (Reg 0 7) ES 8 32 64; IExt (Reg 1 1) (Reg 1 3) EZ 256 256 512; IExt (Reg 1 2) (Mem 0 0) EZ 512 512 512].
Proof. vm_compute. repeat split; reflexivity. Qed.
Example ex_avx_valid :
  match fsolve FX64A [0;6;7] [0;1;2;3] ex_avx with
  | SOk m => validate (map fmove_of ex_avx) (map (Reg 0) [0;6;7] ++ map (Reg 1) [0;1;2;3] ++ [Mem 1 32]) m
  | _ => false
  end = true.
Proof. vm_compute. reflexivity. Qed.

(* 32-bit x86: int8 stack -> stack goes through the lowest free GP register; when that is ESI (no 8-bit view in 32-bit mode) the byte is
   stored with a 32-bit MOV, with EAX available the store is 8 bits wide; an ECX / EDX swap with a pending zero extension *)
Definition ex_x86 : list fvar :=
  [ finit (Mem 0 4) 1 true (Mem 1 0) 1 true true; finit (Mem 0 8) 1 true (Mem 1 4) 4 true true;
    finit (Reg 0 1) 2 false (Reg 0 2) 4 false true; finit (Reg 0 2) 4 true (Reg 0 1) 4 true true ].
Example ex_x86_solved :
  fwf_inputb [1;2;6;7] [0;1] ex_x86 = true /\ farch_okb FX86 ex_x86 = true /\
  fsolve FX86 [1;2;6;7] [0;1] ex_x86 =
  SOk [IExt (Reg 0 6) (Mem 0 4) EZ 8 32 64; IExt (Mem 1 0) (Reg 0 6) EZ 32 32 32; IExt (Reg 0 6) (Mem 0 8) ES 8 32 64;
       IExt (Mem 1 4) (Reg 0 6) EZ 32 32 32; IXchg (Reg 0 2) (Reg 0 1) 32 64; IExt (Reg 0 2) (Reg 0 2) EZ 16 32 64] /\
  fsolve FX86 [0;1;2;6;7] [0;1] ex_x86 =
  SOk [IExt (Reg 0 0) (Mem 0 4) EZ 8 32 64; IExt (Mem 1 0) (Reg 0 0) EZ 8 8 8; IExt (Reg 0 0) (Mem 0 8) ES 8 32 64;
       IExt (Mem 1 4) (Reg 0 0) EZ 32 32 32; IXchg (Reg 0 2) (Reg 0 1) 32 64; IExt (Reg 0 2) (Reg 0 2) EZ 16 32 64].
Proof. vm_compute. repeat split; reflexivity. Qed.
Example ex_x86_valid :
  match fsolve FX86 [1;2;6;7] [0;1] ex_x86 with
  | SOk m => validate (map fmove_of ex_x86) (map (Reg 0) [1;2;6;7] ++ [Mem 1 0; Mem 1 4]) m
  | _ => false
  end = true.
Proof. vm_compute. reflexivity. Qed.

(* decidable form of the side condition of fsolve_stores_disjoint, and the theorem applied to the mixed example *)
Definition slots_disjointb (vs : list fvar) : bool :=
  forallb (fun u => forallb (fun v =>
    match slot_of u, slot_of v with
    | Some (o1, z1), Some (o2, z2) => (o1 =? o2) || (o1 + z1 <=? o2) || (o2 + z2 <=? o1)
    | _, _ => true
    end) vs) vs.

Lemma slots_disjointb_sound vs : slots_disjointb vs = true -> slots_disjoint vs.
Proof.
  unfold slots_disjointb, slots_disjoint. intros H u v o1 z1 o2 z2 Hu Hv Su Sv Hne.
  rewrite forallb_forall in H. specialize (H u Hu). rewrite forallb_forall in H. specialize (H v Hv).
  rewrite Su, Sv in H. apply orb_prop in H. destruct H as [H | H].
  - apply orb_prop in H. destruct H as [H | H].
    + apply Z.eqb_eq in H. contradiction.
    + left. apply Z.leb_le. assumption.
  - right. apply Z.leb_le. assumption.
Qed.

Example ex_mixed_stores_disjoint :
  slots_disjointb ex_mixed = true /\
  match fsolve FX64 ex_wgp ex_wvec ex_mixed with
  | SOk ms => List.length (filter (fun i => match i with IExt (Mem _ _) _ _ _ _ _ => true | _ => false end) ms) = 2%nat
  | _ => False
  end.
Proof. vm_compute. split; reflexivity. Qed.

(* the 32-bit x86 exception of fsolve_stores_exact is real: a 1-byte destination stored 32 bits wide *)
Example ex_x86_wide_byte_store :
  match fsolve FX86 [1;2;6;7] [0;1] ex_x86 with
  | SOk ms => In (IExt (Mem 1 0) (Reg 0 6) EZ 32 32 32) ms
  | _ => False
  end /\ nth_error ex_x86 0 = Some (finit (Mem 0 4) 1 true (Mem 1 0) 1 true true).
Proof. vm_compute. split; [right; left; reflexivity | reflexivity]. Qed.

(* C06 - reference semantics of the NON general-purpose move instructions of the whitelist (vector / mask / MMX moves), written from
   the architecture manuals INDEPENDENTLY of the widths in DecodeModel.v.  Definitions only; DecodeVecProofs.v proves that what
   DecodeModel.decode_inst returns executes (ShuffleModel.exec_inst) exactly as described here.

   Register model.
     x86: a vector register is the 512-bit ZMM register, a non-negative integer below 2^VLMAX = 2^512; XMMn is its low 128 bits,
       YMMn its low 256 bits.  Mask registers k0-k7 and MMX registers mm0-mm7 are 64-bit registers (integers below 2^64), the
       general-purpose registers as in DecodeSpec.v.
     AArch64: a vector register V0-V31 is a non-negative integer below 2^128; Bn/Hn/Sn/Dn/Qn are its low 8/16/32/64/128 bits,
       Vn.8B its low 64 bits, Vn.16B the whole register.
     A memory operand is one cell of the validator's state; an access of n bits reads / replaces the low n bits of its cell.

   Intel SDM.
     vol. 1, 15.5 / vol. 2 (operation sections, "DEST[MAXVL-1:128] (Unmodified)" resp. "DEST[MAXVL-1:VL] := 0"): a legacy-SSE
       instruction writing an XMM register leaves bits MAXVL-1:128 of the ZMM register unchanged; a VEX / EVEX encoded instruction
       writing an XMM / YMM register zeroes all bits above the written width up to MAXVL-1.
     MOVAPS / MOVUPS / MOVAPD / MOVUPD / MOVDQA / MOVDQU and V...: copy the whole 128 / 256 / 512 bit operand.
     MOVD / MOVQ xmm, r/m (and MOVQ xmm, xmm/m64): the 32 / 64 bit source is zero-extended to 128 bits (legacy) resp. MAXVL (VEX).
     MOVD / MOVQ r/m, xmm, MOVD / MOVQ mm, r/m, MOVD / MOVQ r/m, mm, MOVQ mm, mm/m64: the low 32 / 64 bits are moved; a register
       destination (general-purpose or MMX) receives them zero-extended to 64 bits; a memory destination receives exactly 32 / 64 bits.
     MOVSS / MOVSD xmm, m32/m64: DEST[31:0] / DEST[63:0] := memory, DEST[127:32] / DEST[127:64] := 0, upper bits unchanged (legacy)
       resp. zeroed up to MAXVL (VEX).  The register-register form MERGES (DEST[127:32] unchanged): it is not a move.
       MOVSS / MOVSD m32/m64, xmm stores exactly 32 / 64 bits.
     KMOVB / KMOVW / KMOVD / KMOVQ: k := zero extension of the 8/16/32/64 bit source (k, memory, r32/r64) to 64 bits; a
       general-purpose destination receives the zero-extended value (a 32-bit register write zero-extends to 64 bits); a memory
       destination receives exactly 8/16/32/64 bits.
     MOVQ2DQ xmm, mm: DEST[63:0] := mm, DEST[127:64] := 0 (legacy: upper bits unchanged).  MOVDQ2Q mm, xmm: mm := xmm[63:0].

   Arm ARM.
     C7.2 FMOV (register), LDR / LDUR (immediate, SIMD&FP): the result is written to Bd/Hd/Sd/Dd/Qd; a write to a scalar SIMD&FP
       register view zeroes all other bits of the 128-bit V register (A1.4, shared pseudocode V[n] := ZeroExtend).
     MOV Vd.16B, Vn.16B (alias of ORR): copies 128 bits; MOV Vd.8B, Vn.8B copies 64 bits and zeroes bits 127:64.
     STR / STUR Bt/Ht/St/Dt/Qt stores exactly 8/16/32/64/128 bits. *)
From Coq Require Import ZArith List Bool String.
From Verif Require Import CallConv.DecodeSpec.
Import ListNotations.
Local Open Scope Z_scope.

Definition VLMAX : Z := 512.

(* new content of a ZMM register holding [old] when an instruction writes the value v (0 <= v < 2^w) to its w-bit view
   (w = 128 XMM, 256 YMM, 512 ZMM):
     VEX / EVEX encoded: bits VLMAX-1 : w are zeroed - the register IS v;
     legacy SSE (w = 128): bits from w upwards keep their value. *)
Definition x86_vec_write (vex : bool) (old w v : Z) : Z :=
  if vex then v else (old / 2 ^ w) * 2 ^ w + v.

(* new content of a 64-bit mask / MMX register (g = 2 / 3: the register is replaced) or of a general-purpose register
   (g = 0: DecodeSpec.x86_gp_write of the dw-bit view) *)
Definition x86_reg64_write (g : Z) (old dw v : Z) : Z := if g =? 0 then x86_gp_write old dw v else v.

(* new content of a 128-bit V register when its w-bit view (B/H/S/D/Q, .8B, .16B) is written with v (0 <= v < 2^w): all the
   other bits are zeroed *)
Definition a64_vec_write (old w v : Z) : Z := v.

(* the value an instruction writes to the view of its register destination (already zero-extended to that view), given the
   destination width dw, the source operand's width sw and the source content x *)
Definition whole (dw sw x : Z) : Z := zx dw x.              (* the whole dw-bit operand is copied *)
Definition low (n : Z) (dw sw x : Z) : Z := zx n x.         (* the low n bits of the source, zero-extended *)

(* x86, vector register destination: (VEX/EVEX encoded ?, value).  movss / movsd: MEMORY source only. *)
Definition isa_x86_vec_value : list (string * (bool * (Z -> Z -> Z -> Z))) :=
  [ ("movaps", (false, whole)); ("movups", (false, whole)); ("movapd", (false, whole)); ("movupd", (false, whole));
    ("movdqa", (false, whole)); ("movdqu", (false, whole));
    ("vmovaps", (true, whole)); ("vmovups", (true, whole)); ("vmovapd", (true, whole)); ("vmovupd", (true, whole));
    ("vmovdqa", (true, whole)); ("vmovdqu", (true, whole));
    ("vmovdqa32", (true, whole)); ("vmovdqu32", (true, whole)); ("vmovdqa64", (true, whole)); ("vmovdqu64", (true, whole));
    ("movd", (false, low 32)); ("movq", (false, low 64)); ("vmovd", (true, low 32)); ("vmovq", (true, low 64));
    ("movss", (false, low 32)); ("movsd", (false, low 64)); ("vmovss", (true, low 32)); ("vmovsd", (true, low 64));
    ("movq2dq", (false, low 64)) ]%string.

(* the register-register form of legacy movss / movsd: bits 127:n of the destination are kept (n = 32 / 64) *)
Definition x86_movs_reg_merge (n old x : Z) : Z := (old / 2 ^ n) * 2 ^ n + zx n x.

(* x86, general-purpose / mask / MMX register destination: value (zero-extended to the destination register) *)
Definition isa_x86_vec_to_gp : list (string * (Z -> Z -> Z -> Z)) :=
  [ ("movd", low 32); ("movq", low 64); ("vmovd", low 32); ("vmovq", low 64);
    ("kmovb", low 8); ("kmovw", low 16); ("kmovd", low 32); ("kmovq", low 64);
    ("movdq2q", low 64) ]%string.

(* x86, memory destination: the number of bits stored, given the width rw of the register operand *)
Definition isa_x86_vec_store : list (string * (Z -> Z)) :=
  [ ("movaps", fun rw => rw); ("movups", fun rw => rw); ("movapd", fun rw => rw); ("movupd", fun rw => rw);
    ("movdqa", fun rw => rw); ("movdqu", fun rw => rw);
    ("vmovaps", fun rw => rw); ("vmovups", fun rw => rw); ("vmovapd", fun rw => rw); ("vmovupd", fun rw => rw);
    ("vmovdqa", fun rw => rw); ("vmovdqu", fun rw => rw);
    ("vmovdqa32", fun rw => rw); ("vmovdqu32", fun rw => rw); ("vmovdqa64", fun rw => rw); ("vmovdqu64", fun rw => rw);
    ("movd", fun rw => 32); ("movq", fun rw => 64); ("vmovd", fun rw => 32); ("vmovq", fun rw => 64);
    ("movss", fun rw => 32); ("movsd", fun rw => 64); ("vmovss", fun rw => 32); ("vmovsd", fun rw => 64);
    ("kmovb", fun rw => 8); ("kmovw", fun rw => 16); ("kmovd", fun rw => 32); ("kmovq", fun rw => 64) ]%string.

(* AArch64, SIMD&FP register destination (view width dw: 8/16/32/64/128) *)
Definition isa_a64_vec_value : list (string * (Z -> Z -> Z -> Z)) :=
  [ ("fmov", whole); ("mov", whole); ("ldr", whole); ("ldur", whole) ]%string.

(* AArch64, store of a SIMD&FP register of width rw *)
Definition isa_a64_vec_store : list (string * (Z -> Z)) := [ ("str", fun rw => rw); ("stur", fun rw => rw) ]%string.

(* C16 -- reset coverage obligation: data types of the generated field/write lists (coq/gen/ResetFields.v), the REVIEWED
   route definitions, reset idioms and persistent-member list, and the executable checker.
   No proofs here (ResetProofs.v has the soundness of the checker). *)
From Coq Require Import String List Bool Arith.
Import ListNotations.
Local Open Scope string_scope.

(* ------------------------------------------------------------------ generated data *)
(* guard conditions keep the STRUCTURE of the clang AST (names only; ASMJIT_LIKELY/UNLIKELY and double negation normalised away) *)
Inductive cexpr :=
| CName (s : string) | CThis | CLit (s : string) | CMem (b : cexpr) (s : string) | CNot (c : cexpr) | CUn (op : string) (c : cexpr)
| CBin (op : string) (a b : cexpr) | CCall (f : string) (args : list cexpr) | COther (s : string).
(* one nesting level of a write inside its function:
   GCond c h : inside the branch of `if (c)` where c = h          GLoop k c : inside the body of a while / do-while loop on c
   GExit c h : after an `if` whose other branch returned (not an error): reaching the write requires c = h
   GErrExit  : after an `if (...) return <error>` (allocation failed, invalid argument ...): the object is not created / reset at all then
   GOther k  : inside a for / switch / conditional operator / lambda *)
Inductive gcomp := GCond (c : cexpr) (holds : bool) | GLoop (kind : string) (c : cexpr) | GExit (c : cexpr) (holds : bool) | GErrExit | GOther (s : string).

(* w_obj  : the object the member is selected from: "this", "param:<name>", "var:<name>", "init-list" (aggregate initialiser), "expr"
   w_guard: the nesting of the write inside its own function, outermost first ([] = unconditional) *)
Record write := mk_write { w_class : string; w_field : string; w_sub : string; w_how : string; w_obj : string; w_guard : list gcomp }.
Record func_decl := mk_func { f_name : string; f_writes : list write; f_calls : list string }.
Record class_decl := mk_class { c_name : string; c_bases : list string; c_fields : list string }.

(* ------------------------------------------------------------------ reviewed specification *)
Inductive follow := FollowAll | FollowOnly (l : list string) | FollowNone.
Record root := mk_root { rt_fn : string; rt_follow : follow }.
(* a route: the routines that run when the objects of [r_classes] are reset/re-initialised/recycled along one path *)
(* r_objs  : names under which the routines of the route refer to THE object being reset (writes to other objects do not count)
   r_guards: reviewed conditions under which a write still counts as always happening on this route *)
Record route := mk_route { r_name : string; r_classes : list string; r_roots : list root; r_objs : list string; r_guards : list gcomp }.

Definition mem (s : string) (l : list string) : bool := existsb (String.eqb s) l.

Definition find_func (fs : list func_decl) (n : string) : option func_decl :=
  find (fun f => String.eqb (f_name f) n) fs.
Definition calls_of (fs : list func_decl) (n : string) : list string :=
  match find_func fs n with Some f => f_calls f | None => [] end.
Definition writes_of (fs : list func_decl) (n : string) : list write :=
  match find_func fs n with Some f => f_writes f | None => [] end.

(* transitive callees (work list, fuelled; running out of fuel only LOSES functions, i.e. makes the check stricter) *)
Fixpoint reach (fs : list func_decl) (fuel : nat) (todo seen : list string) : list string :=
  match fuel with
  | O => seen
  | S k => match todo with
           | [] => seen
           | n :: rest => if mem n seen then reach fs k rest seen
                          else reach fs k (calls_of fs n ++ rest) (n :: seen)
           end
  end.

Definition fuel_of (fs : list func_decl) : nat := S (S (length fs + length (flat_map f_calls fs))).

Definition root_funcs (fs : list func_decl) (r : root) : list string :=
  match rt_follow r with
  | FollowNone => [rt_fn r]
  | FollowAll => reach fs (fuel_of fs) [rt_fn r] []
  | FollowOnly l =>
      (* only callees that the root REALLY calls are followed: deleting the call loses the coverage *)
      rt_fn r :: reach fs (fuel_of fs) (filter (fun c => mem c (calls_of fs (rt_fn r))) l) []
  end.

Definition route_funcs (fs : list func_decl) (r : route) : list string := flat_map (root_funcs fs) (r_roots r).
Definition route_writes (fs : list func_decl) (r : route) : list write := flat_map (writes_of fs) (route_funcs fs r).

(* idioms that overwrite a WHOLE member with a value that does not depend on its previous content *)
Definition reset_hows : list string :=
  [ "assign"; "call:reset"; "call:fill"; "call:for_each:reset"; "arg:memset" ].

(* reviewed special cases: a write below the member (sub path) or a masking idiom that nevertheless resets all of it *)
Record special := mk_special { sp_class : string; sp_field : string; sp_subs : list string; sp_how : string; sp_why : string }.
Definition specials : list special :=
  [ mk_special "BaseEmitter" "_emitter_flags" [""] "compound:&="
      "on_detach: _clear_emitter_flags(~kEmitterPreservedFlags) clears every flag except kOwnLogger/kOwnErrorHandler, which describe the (persistent, user-set) own logger / error handler";
    mk_special "Section" "_name" [".u32[0]"; ".u32[1]"; ".u32[2]"; ".u32[3]"] "assign"
      "Section_init_name assigns all four 32-bit words of the 16-byte name union";
    mk_special "Section" "_name" [".str"] "arg:memset"
      "memset(section->_name.str, 0, sizeof(str)): str is the full-size view of the name union (fix of DESIGN 7.18)";
    mk_special "BaseCompiler" "_const_pools" ["[kLocal]"; "[kGlobal]"] "assign"
      "both elements of the two-element array are assigned";
    mk_special "BaseNode" "anon:_prev+_next+_links" ["._prev"; "._next"] "assign"
      "the 16-byte link union {struct{_prev,_next}; _links[2]} is covered by its two pointers";
    mk_special "BaseNode" "anon:_any+_align_data+_inst+_embed+_sentinel" ["._any._reserved_0"; "._any._reserved_1"] "assign"
      "the 2-byte per-node-type union is covered by the two bytes of its AnyData view";
    mk_special "BaseNode" "anon:_user_data_u64+_user_data_ptr" ["._user_data_u64"] "assign"
      "the 8-byte user-data union is covered by its 64-bit view";
    mk_special "RATiedReg" "anon:_ref_count+_rm_size+_use_id+_out_id+_packed" ["._ref_count"; "._rm_size"; "._use_id"; "._out_id"] "assign"
      "the 4-byte union {struct{_ref_count,_rm_size,_use_id,_out_id}; _packed} is covered by its four bytes";
    mk_special "CodeHolder::NamedLabelExtraData" "extra_data"
      ["._section_id"; "._internal_label_type"; "._internal_label_flags"; "._internal_uint16_data"; "._parent_id"; "._name_size"] "assign"
      "all six members of the embedded LabelEntry::ExtraData (header + parent id + name size) are assigned" ].

Definition write_is (c f sub how : string) (w : write) : bool :=
  String.eqb (w_class w) c && String.eqb (w_field w) f && String.eqb (w_sub w) sub && String.eqb (w_how w) how.

Fixpoint cexpr_eqb (x y : cexpr) {struct x} : bool :=
  match x, y with
  | CName a, CName b => String.eqb a b
  | CThis, CThis => true
  | CLit a, CLit b => String.eqb a b
  | CMem x1 a, CMem y1 b => cexpr_eqb x1 y1 && String.eqb a b
  | CNot x1, CNot y1 => cexpr_eqb x1 y1
  | CUn o1 x1, CUn o2 y1 => String.eqb o1 o2 && cexpr_eqb x1 y1
  | CBin o1 x1 x2, CBin o2 y1 y2 => String.eqb o1 o2 && cexpr_eqb x1 y1 && cexpr_eqb x2 y2
  | CCall f xs, CCall g ys =>
      String.eqb f g &&
      (fix all2 (l1 l2 : list cexpr) {struct l1} : bool :=
         match l1, l2 with
         | [], [] => true
         | a :: r1, b :: r2 => cexpr_eqb a b && all2 r1 r2
         | _, _ => false
         end) xs ys
  | COther a, COther b => String.eqb a b
  | _, _ => false
  end.

Definition gcomp_eqb (x y : gcomp) : bool :=
  match x, y with
  | GCond a h1, GCond b h2 => cexpr_eqb a b && Bool.eqb h1 h2
  | GLoop k1 a, GLoop k2 b => String.eqb k1 k2 && cexpr_eqb a b
  | GExit a h1, GExit b h2 => cexpr_eqb a b && Bool.eqb h1 h2
  | GErrExit, GErrExit => true
  | GOther a, GOther b => String.eqb a b
  | _, _ => false
  end.

Fixpoint guard_eqb (g1 g2 : list gcomp) : bool :=
  match g1, g2 with
  | [], [] => true
  | a :: r1, b :: r2 => gcomp_eqb a b && guard_eqb r1 r2
  | _, _ => false
  end.

(* every nesting level is an error exit (the object does not come into being then) or a reviewed guard of the route *)
Definition guard_ok (r : route) (g : list gcomp) : bool :=
  forallb (fun c => match c with GErrExit => true | _ => existsb (gcomp_eqb c) (r_guards r) end) g.

(* the write is applied to the object being reset, under conditions that are accepted for the route *)
Definition applies (r : route) (w : write) : bool := mem (w_obj w) (r_objs r) && guard_ok r (w_guard w).

(* ... or applied to it in BOTH branches of one condition: guards pre ++ [GCond c true] and pre ++ [GCond c false], pre accepted *)
Definition negate_last (g : list gcomp) : option (list gcomp * list gcomp) :=
  match rev g with
  | GCond c h :: pre_rev => Some (rev pre_rev, rev (GCond c (negb h) :: pre_rev))
  | _ => None
  end.
Definition applies_both (r : route) (ws : list write) (sel : write -> bool) : bool :=
  existsb (fun w1 => sel w1 && mem (w_obj w1) (r_objs r) &&
     match negate_last (w_guard w1) with
     | Some (pre, other) => guard_ok r pre &&
         existsb (fun w2 => sel w2 && mem (w_obj w2) (r_objs r) && guard_eqb (w_guard w2) other) ws
     | None => false
     end) ws.

Definition plain_sel (c f : string) (w : write) : bool :=
  String.eqb (w_class w) c && String.eqb (w_field w) f && String.eqb (w_sub w) "" && mem (w_how w) reset_hows.

Definition covered_plain (r : route) (ws : list write) (c f : string) : bool :=
  existsb (fun w => plain_sel c f w && applies r w) ws || applies_both r ws (plain_sel c f).
Definition covered_special (r : route) (ws : list write) (c f : string) : bool :=
  existsb (fun s => String.eqb (sp_class s) c && String.eqb (sp_field s) f &&
                    forallb (fun sub => existsb (fun w => write_is c f sub (sp_how s) w && applies r w) ws) (sp_subs s)) specials.
Definition covered (r : route) (ws : list write) (c f : string) : bool := covered_plain r ws c f || covered_special r ws c f.

(* ------------------------------------------------------------------ routes *)
Definition emitters : list (string * list string) :=
  [ ("x86::Assembler", ["BaseAssembler"; "BaseEmitter"]);
    ("a64::Assembler", ["BaseAssembler"; "BaseEmitter"]);
    ("x86::Builder",   ["BaseBuilder"; "BaseEmitter"]);
    ("a64::Builder",   ["BaseBuilder"; "BaseEmitter"]);
    ("x86::Compiler",  ["BaseCompiler"; "BaseBuilder"; "BaseEmitter"]);
    ("a64::Compiler",  ["BaseCompiler"; "BaseBuilder"; "BaseEmitter"]) ].

Definition section_classes := ["Section"; "SectionOrLabelEntryExtraHeader"].

(* object names *)
Definition self_objs := ["this"; "param:self"].
(* reviewed guards *)
(* CodeHolder_detach_emitters: the body runs for every attached emitter; its last iteration stores the null successor into _attached_first *)
Definition g_loop_emitters := GLoop "while" (CName "emitter").
(* the emitter's OWN logger / error handler is user configuration (kOwnLogger / kOwnErrorHandler) and persists *)
Definition g_own_logger := GCond (CNot (CCall "has_own_logger" [CThis])) true.
Definition g_own_handler := GCond (CNot (CCall "has_own_error_handler" [CThis])) true.
Definition g_hard := GCond (CBin "==" (CName "reset_policy") (CName "kHard")) true.
(* hard reset, blocks were allocated, no static block: the first block becomes the shared zero block. In the other two cases the
   first block already is the zero block (nothing allocated) or is the user's static block: it stays by design *)
Definition g_not_zero_block := GCond (CBin "==" (CName "first") (CUn "&" (CName "_arena_zero_block"))) false.
Definition g_no_static_block := GCond (CCall "has_static_block" [CThis]) false.
(* new_label_id: the entry is only created when reserving the vector slot succeeded *)
Definition g_label_ok := GCond (CBin "!=" (CName "err") (CName "kOk")) false.
(* new_named_label_id: an empty name takes the anonymous-label early exit; the named path continues *)
Definition g_named := GExit (CBin "==" (CName "name_size") (CLit "0")) false.

(* constructor routes of the Builder/Compiler nodes: placement-new into never-zeroed builder arena memory *)
Definition node_classes : list string :=
  [ "BaseNode"; "InstNode"; "SectionNode"; "LabelNode"; "AlignNode"; "EmbedDataNode"; "EmbedLabelNode"; "EmbedLabelDeltaNode";
    "ConstPoolNode"; "JumpNode"; "FuncNode"; "InvokeNode" ].
Definition ctor_of (c : string) : string := c ++ "::" ++ c.

Definition routes : list route :=
  [ mk_route "holder.reset" ["CodeHolder"] [mk_root "CodeHolder::reset" FollowAll] self_objs [g_loop_emitters];
    mk_route "holder.reinit" ["CodeHolder"] [mk_root "CodeHolder::reinit" FollowAll] self_objs [];
    mk_route "holder.text_section" section_classes [mk_root "CodeHolder_add_text_section" FollowAll] ["param:section"; "this"] [];
    mk_route "holder.new_section" section_classes [mk_root "CodeHolder::new_section" FollowAll] ["var:section"; "param:section"; "this"] [];
    mk_route "arena.reset_hard" ["Arena"] [mk_root "Arena::reset" FollowAll] ["this"; "param:arena"] [g_hard; g_not_zero_block; g_no_static_block];
    mk_route "arena.reset_soft" ["Arena"] [mk_root "Arena::reset" FollowAll] ["this"; "param:arena"] [];
    (* hard reset of an arena whose first block is the user's static buffer: the block stays, its link to the (just freed) heap
       blocks must be cut *)
    mk_route "arena.static_block" ["Arena::ManagedBlock"] [mk_root "Arena::reset" FollowNone] ["var:first"]
             [g_hard; g_not_zero_block; GCond (CCall "has_static_block" [CThis]) true];
    (* objects created in (possibly recycled, never zeroed) arena memory: every member must be initialised at creation *)
    mk_route "holder.new_reloc" ["RelocEntry"] [mk_root "CodeHolder::new_reloc_entry" FollowNone] ["var:re"] [];
    mk_route "holder.new_fixup" ["Fixup"] [mk_root "CodeHolder::new_fixup" FollowNone] ["var:link"] [];
    mk_route "holder.new_address" ["AddressTableEntry"] [mk_root "AddressTableEntry::AddressTableEntry" FollowNone] ["this"] [];
    mk_route "holder.new_label" ["LabelEntry"] [mk_root "CodeHolder::new_label_id" FollowNone] ["init-list"] [g_label_ok];
    mk_route "holder.new_named_label" ["LabelEntry"; "CodeHolder::NamedLabelExtraData"] [mk_root "CodeHolder::new_named_label_id" FollowNone]
             ["init-list"; "var:named_node"] [g_named];
    (* per-use objects of the Compiler and the register allocator, created in arenas that are recycled as a whole *)
    mk_route "obj/VirtReg" ["VirtReg"] [mk_root "VirtReg::VirtReg" FollowNone] ["this"] [];
    mk_route "obj/JumpAnnotation" ["JumpAnnotation"] [mk_root "JumpAnnotation::JumpAnnotation" FollowNone] ["this"] [];
    mk_route "obj/RAWorkReg" ["RAWorkReg"] [mk_root "RAWorkReg::RAWorkReg" FollowNone] ["this"] [];
    mk_route "obj/RABlock" ["RABlock"] [mk_root "RABlock::RABlock" FollowNone] ["this"] [];
    mk_route "obj/RAInst" ["RAInst"] [mk_root "RAInst::RAInst" FollowNone] ["this"] [];
    mk_route "obj/RAStackSlot" ["RAStackSlot"] [mk_root "RAStackAllocator::new_slot" FollowNone] ["var:slot"] [];
    mk_route "obj/Pass" ["Pass"] [mk_root "Pass::Pass" FollowNone] ["this"] [];
    mk_route "obj/RATiedReg" ["RATiedReg"] [mk_root "RATiedReg::init" FollowNone] ["this"] [];
    mk_route "obj/RAAssignment" ["RAAssignment"] [mk_root "RAAssignment::RAAssignment" FollowAll] ["this"] [];
    mk_route "obj/RALiveSpans" ["RALiveSpans"] [mk_root "RALiveSpans::RALiveSpans" FollowNone] ["this"] [] ]
  ++ map (fun c => mk_route ("node/" ++ c) [c] [mk_root (ctor_of c) FollowNone] ["this"] []) node_classes
  ++ map (fun e => mk_route ("detach/" ++ fst e) (snd e)
                     [mk_root (fst e ++ "::on_detach") FollowAll; mk_root "CodeHolder::detach" FollowNone]
                     ["this"; "param:self"; "param:emitter"] [g_own_logger; g_own_handler]) emitters
  ++ map (fun e => mk_route ("detach_all/" ++ fst e) (snd e)
                     [mk_root (fst e ++ "::on_detach") FollowAll; mk_root "CodeHolder_detach_emitters" FollowNone]
                     ["this"; "param:self"; "var:emitter"] [g_own_logger; g_own_handler; g_loop_emitters]) emitters
  ++ map (fun e => mk_route ("reinit/" ++ fst e) (snd e)
                     [mk_root (match fst e with
                               | "x86::Assembler" | "a64::Assembler" => "BaseAssembler"
                               | "x86::Builder" | "a64::Builder" => "BaseBuilder"
                               | s => s end ++ "::on_reinit") FollowAll] self_objs []) emitters
  ++ [ mk_route "ra.function/x86" ["BaseRAPass"; "x86::X86RAPass"]
         [ mk_root "BaseRAPass::run_on_function"
             (FollowOnly ["RAPass_prepare_for_function"; "RAPass_reset_virt_reg_data"; "RAPass_cleanup_after_function"]);
           mk_root "BaseRAPass::run" (FollowOnly ["RAPass_prepare_logging"; "RAPass_cleanup_logging"]);
           mk_root "x86::X86RAPass::on_init" FollowNone ] ["this"; "param:self"; "param:pass"] [];
       mk_route "ra.function/a64" ["BaseRAPass"; "a64::ARMRAPass"]
         [ mk_root "BaseRAPass::run_on_function"
             (FollowOnly ["RAPass_prepare_for_function"; "RAPass_reset_virt_reg_data"; "RAPass_cleanup_after_function"]);
           mk_root "BaseRAPass::run" (FollowOnly ["RAPass_prepare_logging"; "RAPass_cleanup_logging"]);
           mk_root "a64::ARMRAPass::on_init" FollowNone ] ["this"; "param:self"; "param:pass"] [] ].

(* calls that glue the roots of a route together (virtual dispatch is not resolved by the translator): they must exist *)
Definition must_call : list (string * string) :=
  [ ("CodeHolder::detach", "BaseEmitter::on_detach");
    ("CodeHolder_detach_emitters", "BaseEmitter::on_detach");
    ("CodeHolder::reset", "CodeHolder_detach_emitters");
    ("CodeHolder::reinit", "BaseEmitter::on_reinit");
    ("CodeHolder::reinit", "CodeHolder_add_text_section");
    ("CodeHolder::init", "CodeHolder_add_text_section");
    ("BaseRAPass::run_on_function", "BaseRAPass::on_init");
    ("BaseRAPass::run", "BaseRAPass::run_on_function");
    (* the shape of the emitters' event handlers that the node-list model (BuilderDirty.recycled_state: clear_all + init_section)
       and the lifecycle model (emitter_cleared) assume *)
    ("BaseBuilder::on_reinit", "BaseBuilder_clear_all");
    ("BaseBuilder::on_reinit", "BaseBuilder_init_section");
    ("BaseBuilder::on_reinit", "BaseBuilder_delete_passes");
    ("BaseBuilder::on_detach", "BaseBuilder_clear_all");
    ("BaseBuilder::on_detach", "BaseBuilder_delete_passes");
    ("BaseBuilder::on_attach", "BaseBuilder_init_section");
    ("BaseCompiler::on_detach", "BaseCompiler_clear");
    ("BaseCompiler::on_reinit", "BaseCompiler_clear");
    ("BaseCompiler::on_reinit", "BaseBuilder::on_reinit");
    ("BaseAssembler::on_attach", "BaseAssembler_initSection");
    ("BaseAssembler::on_reinit", "BaseAssembler_initSection");
    ("BaseAssembler::on_reinit", "BaseEmitter::on_reinit");
    ("BaseBuilder::on_reinit", "BaseEmitter::on_reinit");
    ("CodeHolder::reset", "CodeHolder_reset_sections_and_containers");
    ("CodeHolder::reinit", "CodeHolder_reset_sections_and_containers");
    (* per-function cleanup of the nodes: RAInst / RABlock pass data lives in the pass arena that run_on_function resets
       (/repo a3de2f7 = fixes/C16-ra-pass-data.patch; a finalize() after a failed finalize() followed the dangling pointers) *)
    ("BaseRAPass::run_on_function", "BaseNode::reset_pass_data");
    ("x86::Assembler::on_detach", "BaseAssembler::on_detach");
    ("a64::Assembler::on_detach", "BaseAssembler::on_detach");
    ("x86::Builder::on_detach", "BaseBuilder::on_detach");
    ("a64::Builder::on_detach", "BaseBuilder::on_detach");
    ("x86::Compiler::on_detach", "BaseCompiler::on_detach");
    ("a64::Compiler::on_detach", "BaseCompiler::on_detach");
    (* operand arrays behind InstNode (trailing storage / InstNodeWithOperands<N>::_operands): the used operands are set, the
       rest of the capacity is reset *)
    ("BaseBuilder::_emit", "InstNode::set_op");
    ("BaseBuilder::_emit", "InstNode::reset_op_range");
    ("BaseCompiler::new_jump_node", "InstNode::set_op");
    ("BaseCompiler::new_jump_node", "InstNode::reset_op_range");
    ("BaseCompiler::new_func_ret_node", "InstNode::reset_op_range");
    ("InvokeNode::InvokeNode", "InstNode::_reset_ops");
    ("x86::Compiler::on_reinit", "BaseCompiler::on_reinit");
    ("a64::Compiler::on_reinit", "BaseCompiler::on_reinit") ].

(* ------------------------------------------------------------------ persistent members (reviewed; one reason each) *)
(* kind of route -> class -> field -> reason.  The kind is the route name up to the first '/' *)
Record persist := mk_persist { p_route : string; p_class : string; p_field : string; p_why : string }.

Definition cfg_why := "configuration chosen by the user or fixed by the constructor; persists by contract and is part of 'the calls made'".
Definition reinit_why := "attachment state: reinit keeps the emitter attached to the same, still initialised holder; the value is the one on_attach/on_settings_updated computed from the unchanged holder settings".

Definition persistent : list persist :=
  [ (* CodeHolder::reset: nothing persists except what the containers reset covers *)
    mk_persist "holder.reset" "CodeHolder" "_text_section"
      "embedded .text Section: its buffer size is zeroed by CodeHolder_reset_containers (data/capacity are a retained resource, released on hard reset); every other member is rewritten by CodeHolder_add_text_section at the next init (route holder.text_section)";
    mk_persist "holder.reinit" "CodeHolder" "_environment" "reinit keeps the target environment by contract";
    mk_persist "holder.reinit" "CodeHolder" "_cpu_features" "reinit keeps the CPU features by contract";
    mk_persist "holder.reinit" "CodeHolder" "_base_address" "reinit keeps the base address by contract";
    mk_persist "holder.reinit" "CodeHolder" "_logger" "reinit keeps the attached logger by contract (logging must not influence output: differential)";
    mk_persist "holder.reinit" "CodeHolder" "_error_handler" "reinit keeps the error handler by contract";
    mk_persist "holder.reinit" "CodeHolder" "_attached_first" "reinit keeps emitters attached by contract";
    mk_persist "holder.reinit" "CodeHolder" "_attached_last" "reinit keeps emitters attached by contract";
    mk_persist "holder.reinit" "CodeHolder" "_text_section" "as for holder.reset: size zeroed, remaining members rewritten by CodeHolder_add_text_section (in this route's closure)";
    mk_persist "holder.text_section" "Section" "_buffer"
      "buffer of the embedded .text section is a retained resource: _size is zeroed by CodeHolder_reset_containers, data/capacity only describe owned memory";
    (* Arena *)
    mk_persist "arena.reset_hard" "Arena" "_min_block_size_shift" cfg_why;
    mk_persist "arena.reset_hard" "Arena" "_max_block_size_shift" cfg_why;
    mk_persist "arena.reset_hard" "Arena" "_has_static_block" cfg_why;
    mk_persist "arena.static_block" "Arena::ManagedBlock" "size" "size of the user's static buffer, set once by Arena::_init";
    mk_persist "arena.reset_soft" "Arena" "_min_block_size_shift" cfg_why;
    mk_persist "arena.reset_soft" "Arena" "_max_block_size_shift" cfg_why;
    mk_persist "arena.reset_soft" "Arena" "_has_static_block" cfg_why;
    mk_persist "arena.reset_soft" "Arena" "_first_block" "soft reset keeps the chain of managed blocks for reuse (retained resource; allocation restarts in the first block)";
    mk_persist "arena.reset_soft" "Arena" "_current_block_size_shift" "soft reset keeps the grown block size (retained resource sizing, unobservable)";
    (* emitters, detach *)
    mk_persist "detach" "BaseEmitter" "_emitter_type" cfg_why;
    mk_persist "detach" "BaseEmitter" "_validation_flags" cfg_why;
    mk_persist "detach" "BaseEmitter" "_diagnostic_options" cfg_why;
    mk_persist "detach" "BaseEmitter" "_encoding_options" cfg_why;
    mk_persist "detach" "BaseEmitter" "_arch_mask" cfg_why;
    mk_persist "detach" "BaseEmitter" "_funcs" "backend function table: reassigned by every arch on_attach (update_emitter_funcs) before any use";
    mk_persist "detach" "BaseBuilder" "_dirty_section_links"
      "conservative cache-dirty flag: a stale 'true' only forces update_section_links to recompute the links from the (fresh) node list; it is cleared there. PROVED on the Builder model: Properties_C16.C16_recycled_builder_equals_fresh";
    mk_persist "detach_all" "BaseEmitter" "_emitter_type" cfg_why;
    mk_persist "detach_all" "BaseEmitter" "_validation_flags" cfg_why;
    mk_persist "detach_all" "BaseEmitter" "_diagnostic_options" cfg_why;
    mk_persist "detach_all" "BaseEmitter" "_encoding_options" cfg_why;
    mk_persist "detach_all" "BaseEmitter" "_arch_mask" cfg_why;
    mk_persist "detach_all" "BaseEmitter" "_funcs" "backend function table: reassigned by every arch on_attach (update_emitter_funcs) before any use";
    mk_persist "detach_all" "BaseBuilder" "_dirty_section_links"
      "conservative cache-dirty flag (see detach)";
    (* emitters, reinit *)
    mk_persist "reinit" "BaseEmitter" "_emitter_type" cfg_why;
    mk_persist "reinit" "BaseEmitter" "_emitter_flags" reinit_why;
    mk_persist "reinit" "BaseEmitter" "_instruction_alignment" reinit_why;
    mk_persist "reinit" "BaseEmitter" "_validation_flags" cfg_why;
    mk_persist "reinit" "BaseEmitter" "_diagnostic_options" cfg_why;
    mk_persist "reinit" "BaseEmitter" "_encoding_options" cfg_why;
    mk_persist "reinit" "BaseEmitter" "_forced_inst_options" reinit_why;
    mk_persist "reinit" "BaseEmitter" "_arch_mask" cfg_why;
    mk_persist "reinit" "BaseEmitter" "_code" reinit_why;
    mk_persist "reinit" "BaseEmitter" "_logger" reinit_why;
    mk_persist "reinit" "BaseEmitter" "_error_handler" reinit_why;
    mk_persist "reinit" "BaseEmitter" "_environment" reinit_why;
    mk_persist "reinit" "BaseEmitter" "_gp_signature" reinit_why;
    mk_persist "reinit" "BaseEmitter" "_private_data" reinit_why;
    mk_persist "reinit" "BaseEmitter" "_funcs" reinit_why;
    mk_persist "reinit" "BaseEmitter" "_attached_prev" reinit_why;
    mk_persist "reinit" "BaseEmitter" "_attached_next" reinit_why;
    mk_persist "reinit" "BaseBuilder" "_dirty_section_links" "conservative cache-dirty flag (see detach)";
    (* register allocator, per function *)
    mk_persist "ra.function" "BaseRAPass" "_emit_helper_ptr" "set once by the arch constructor to the embedded _emit_helper";
    mk_persist "ra.function" "BaseRAPass" "_tmp_string" "scratch string: every user clears or assigns it before reading (logging only)" ].

Definition route_kind (n : string) : string :=
  match index 0 "/" n with Some i => substring 0 i n | None => n end.

Definition is_persistent (r : route) (c f : string) : bool :=
  existsb (fun p => String.eqb (p_route p) (route_kind (r_name r)) && String.eqb (p_class p) c && String.eqb (p_field p) f) persistent.

(* ------------------------------------------------------------------ checker *)
Definition fields_of (cs : list class_decl) (c : string) : list string :=
  match find (fun d => String.eqb (c_name d) c) cs with Some d => c_fields d | None => [] end.
Definition class_exists (cs : list class_decl) (c : string) : bool := existsb (fun d => String.eqb (c_name d) c) cs.
Definition func_exists (fs : list func_decl) (n : string) : bool := existsb (fun f => String.eqb (f_name f) n) fs.

Definition field_ok (fs : list func_decl) (r : route) (ws : list write) (c f : string) : bool :=
  covered r ws c f || is_persistent r c f.

Definition check_route (cs : list class_decl) (fs : list func_decl) (r : route) : bool :=
  let ws := route_writes fs r in
  forallb (fun c => forallb (field_ok fs r ws c) (fields_of cs c)) (r_classes r).

(* members that are neither covered nor persistent (what the search reports by name) *)
Definition uncovered (cs : list class_decl) (fs : list func_decl) : list (string * string * string) :=
  flat_map (fun r => let ws := route_writes fs r in
     flat_map (fun c => map (fun f => (r_name r, c, f)) (filter (fun f => negb (field_ok fs r ws c f)) (fields_of cs c)))
              (r_classes r)) routes.

(* hygiene: the reviewed lists may only talk about things that exist in the current tree (so they cannot silently rot) *)
Definition hygiene (cs : list class_decl) (fs : list func_decl) : bool :=
  forallb (fun r => forallb (fun c => class_exists cs c && negb (Nat.eqb (length (fields_of cs c)) 0)) (r_classes r)
                    && forallb (fun rt => func_exists fs (rt_fn rt)) (r_roots r)) routes
  && forallb (fun p => existsb (fun r => String.eqb (route_kind (r_name r)) (p_route p) && mem (p_class p) (r_classes r)) routes
                       && mem (p_field p) (fields_of cs (p_class p))) persistent
  && forallb (fun s => mem (sp_field s) (fields_of cs (sp_class s))) specials
  && forallb (fun cc => mem (snd cc) (calls_of fs (fst cc))) must_call.

(* the closure computed for a FollowAll root is really closed under the extracted call edges (so the fuel sufficed and no reachable
   extracted function was lost): checked on the data of every run *)
Definition closedb (fs : list func_decl) (l : list string) : bool :=
  forallb (fun n => forallb (fun c => negb (func_exists fs c) || mem c l) (calls_of fs n)) l.
Definition reach_closed (fs : list func_decl) : bool :=
  forallb (fun r => forallb (fun rt => match rt_follow rt with
                                       | FollowAll => let l := root_funcs fs rt in mem (rt_fn rt) l && closedb fs l
                                       | _ => true
                                       end) (r_roots r)) routes.

Definition check_all (cs : list class_decl) (fs : list func_decl) : bool :=
  forallb (check_route cs fs) routes && hygiene cs fs.

(* ------------------------------------------------------------------------------------------------------------------------------
   Reset VALUES (round 6). The coverage obligation above says that a reset route WRITES every member; it does not say WHAT is
   written. The translator also extracts
     inits : the initial value of a member  (constructor member initialiser when all constructors naming the member agree, an
             assignment to the member in the constructor body, else the in-class initialiser),
     vals  : for every whole-member assignment `member = value` of an extracted function, the assigned value,
   both as cexpr terms (names only). The obligation: in the reviewed PURE reset functions below, every such assignment writes the
   member's INITIAL value (syntactically the same expression; an empty-brace initialiser `{}` equals 0 / nullptr), or the
   assignment is on the reviewed exception list (and then really differs, so that the list cannot rot). *)
Record init_decl := mk_init { i_class : string; i_field : string; i_val : cexpr }.
Record val_decl := mk_val { v_func : string; v_class : string; v_field : string; v_val : cexpr }.

(* functions whose whole purpose is to put members back to their initial state (set-up functions such as on_attach / init /
   BaseRAPass::run_on_function, which assign working values, are deliberately not listed) *)
Definition value_funcs : list string :=
  [ "BaseEmitter::on_detach"; "BaseEmitter::on_reinit"; "BaseEmitter::reset_inline_comment"; "BaseEmitter::reset_inst_options";
    "BaseAssembler::on_detach"; "BaseBuilder_clear_all"; "BaseCompiler_clear";
    "CodeHolder_reset_containers"; "CodeHolder_reset_env_and_attached_logger_and_eh"; "CodeHolder_detach_emitters";
    "RAPass_cleanup_after_function"; "RAPass_cleanup_logging"; "RAPass_reset_virt_reg_data"; "BaseNode::reset_pass_data" ].

Record value_exc := mk_vexc { x_func : string; x_class : string; x_field : string; x_why : string }.
Definition value_exceptions : list value_exc :=
  [ mk_vexc "CodeHolder_detach_emitters" "CodeHolder" "_attached_first"
      "the loop pops the head of the attached-emitter list (`_attached_first = next`) until the list is empty: the last value written is the null `next` of the last emitter, i.e. the initial value";
    mk_vexc "RAPass_cleanup_logging" "BaseRAPass" "_diagnostic_options"
      "written as DiagnosticOptions::kNone, declared with an empty-brace initialiser: the same value (kNone = 0), spelled differently" ].

Fixpoint lookup_init (is : list init_decl) (c f : string) : option cexpr :=
  match is with
  | [] => None
  | i :: r => if String.eqb (i_class i) c && String.eqb (i_field i) f then Some (i_val i) else lookup_init r c f
  end.

Definition zero_value (e : cexpr) : bool := cexpr_eqb e (CLit "0") || cexpr_eqb e (CLit "nullptr").
Definition same_value (i v : cexpr) : bool := cexpr_eqb i v || (cexpr_eqb i (CLit "{}") && zero_value v).

Definition exc_matches (v : val_decl) (x : value_exc) : bool :=
  String.eqb (x_func x) (v_func v) && String.eqb (x_class x) (v_class v) && String.eqb (x_field x) (v_field v).
Definition excepted (v : val_decl) : bool := existsb (exc_matches v) value_exceptions.

Definition initial_value_written (is : list init_decl) (v : val_decl) : bool :=
  match lookup_init is (v_class v) (v_field v) with Some i => same_value i (v_val v) | None => false end.

Definition val_ok (is : list init_decl) (v : val_decl) : bool :=
  negb (mem (v_func v) value_funcs) || excepted v || initial_value_written is v.

(* the reviewed lists cannot rot: every listed function still has an extracted assignment, and every exception names an
   assignment that exists and really is NOT the initial value *)
Definition values_hygiene (is : list init_decl) (vs : list val_decl) : bool :=
  forallb (fun f => existsb (fun v => String.eqb (v_func v) f) vs) value_funcs
  && forallb (fun x => mem (x_func x) value_funcs
                       && existsb (fun v => exc_matches v x && negb (initial_value_written is v)) vs) value_exceptions.

Definition check_values (is : list init_decl) (vs : list val_decl) : bool :=
  forallb (val_ok is) vs && values_hygiene is vs.

(* the offending assignments (function, class, member), for the report of the check *)
Definition bad_values (is : list init_decl) (vs : list val_decl) : list (string * string * string) :=
  map (fun v => (v_func v, v_class v, v_field v)) (filter (fun v => negb (val_ok is v)) vs).

(* ---- set-up ... tear-down functions. BaseRAPass::run_on_function assigns working values to members of the pass at its start and
   puts them back at its end. The coverage obligation is satisfied by the set-up assignment alone; this obligation asks for the
   tear-down: for every member the function assigns, the LAST assignment in source order (gen/ResetFields.val_seq) writes the
   member's initial value, and the function has an UNCONDITIONAL assign-write of the member on `this` (guard []: not nested in a
   branch or loop, not after an early exit), so that the tear-down runs on every path. *)
Definition teardown_funcs : list string := [ "BaseRAPass::run_on_function" ].

Fixpoint last_val (vs : list val_decl) (fn c f : string) (acc : option cexpr) : option cexpr :=
  match vs with
  | [] => acc
  | v :: r => last_val r fn c f (if String.eqb (v_func v) fn && String.eqb (v_class v) c && String.eqb (v_field v) f
                                 then Some (v_val v) else acc)
  end.

Definition unconditional_assign (fs : list func_decl) (fn c f : string) : bool :=
  existsb (fun w => String.eqb (w_class w) c && String.eqb (w_field w) f && String.eqb (w_sub w) "" && String.eqb (w_how w) "assign"
                    && String.eqb (w_obj w) "this" && match w_guard w with [] => true | _ => false end) (writes_of fs fn).

Definition teardown_val_ok (is : list init_decl) (seq : list val_decl) (fs : list func_decl) (v : val_decl) : bool :=
  negb (mem (v_func v) teardown_funcs) ||
  (match lookup_init is (v_class v) (v_field v), last_val seq (v_func v) (v_class v) (v_field v) None with
   | Some i, Some l => same_value i l
   | _, _ => false
   end && unconditional_assign fs (v_func v) (v_class v) (v_field v)).

Definition check_teardown (is : list init_decl) (seq : list val_decl) (fs : list func_decl) : bool :=
  forallb (teardown_val_ok is seq fs) seq
  && forallb (fun f => existsb (fun v => String.eqb (v_func v) f) seq) teardown_funcs.

Definition bad_teardown (is : list init_decl) (seq : list val_decl) (fs : list func_decl) : list (string * string * string) :=
  map (fun v => (v_func v, v_class v, v_field v)) (filter (fun v => negb (teardown_val_ok is seq fs v)) seq).

(* ---- the two extractions agree: every whole-member `assign` write the coverage obligation sees in a pure reset or set-up/tear-down
   function has a value row (so "covered by the idiom assign" in those functions always comes with a checked value) *)
Definition has_val (vs : list val_decl) (fn : string) (w : write) : bool :=
  existsb (fun v => String.eqb (v_func v) fn && String.eqb (v_class v) (w_class w) && String.eqb (v_field v) (w_field w)) vs.
Definition assign_writes_have_values (fs : list func_decl) (vs : list val_decl) : bool :=
  forallb (fun fn => forallb (fun w => negb (String.eqb (w_how w) "assign" && String.eqb (w_sub w) "") || has_val vs fn w) (writes_of fs fn))
          (value_funcs ++ teardown_funcs).

(* ---- functions that reset ONE OF THEIR ARGUMENTS while doing other work: CodeHolder::detach unlinks `emitter` from the holder's
   list (assignments on the neighbours and on the holder carry working values) and clears the emitter's own link members. Every
   assignment made ON THE LISTED OBJECT writes the member's initial value (gen/ResetFields.vals_on pairs each assignment that is
   not on `this` with its object). *)
Definition value_obj_funcs : list (string * string) := [ ("CodeHolder::detach", "param:emitter") ].
Definition obj_listed (o : string) (v : val_decl) : bool :=
  existsb (fun p => String.eqb (fst p) (v_func v) && String.eqb (snd p) o) value_obj_funcs.
Definition check_object_values (is : list init_decl) (vo : list (string * val_decl)) : bool :=
  forallb (fun ov => negb (obj_listed (fst ov) (snd ov)) || initial_value_written is (snd ov)) vo
  && forallb (fun p => existsb (fun ov => String.eqb (fst p) (v_func (snd ov)) && String.eqb (snd p) (fst ov)) vo) value_obj_funcs.
Definition bad_object_values (is : list init_decl) (vo : list (string * val_decl)) : list (string * string * string) :=
  map (fun ov => (v_func (snd ov), v_class (snd ov), v_field (snd ov)))
      (filter (fun ov => obj_listed (fst ov) (snd ov) && negb (initial_value_written is (snd ov))) vo).

(* C16 -- executable model of the lifecycle of a CodeHolder with one attached emitter (Assembler, Builder or Compiler).
   The state is split into
     core      : what a later generation can observe or depends on (initialised, attached, section/label/relocation counts,
                 one-shot instruction state, Builder nodes, Compiler virtual registers and jump annotations, finalised flag)
     config    : settings that persist by contract and are part of "the calls made" (validation diagnostics)
     ambient   : logger attachment (holder logger, emitter's own logger, effective emitter logger)
     resources : retained memory (arena blocks, .text capacity) -- never read by any transition of the core.
   Programs are abstracted to their EFFECT on the counters (the effect of a concrete program is measured on the implementation
   and fed to the model; what the model predicts is everything the lifecycle steps do).
   No proofs here. *)
From Coq Require Import NArith List Bool.
Import ListNotations.
Local Open Scope N_scope.

Record core := mkCore {
  c_init : bool;          (* CodeHolder::is_initialized() *)
  c_att : bool;           (* emitter attached to the holder *)
  c_sec : N;              (* section_count() *)
  c_lab : N;              (* label_count() *)
  c_rel : N;              (* reloc_entries().size() *)
  c_pending : bool;       (* one-shot state set for the next instruction (options / extra reg / inline comment) *)
  c_nodes : N;            (* Builder/Compiler nodes recorded *)
  c_vregs : N;            (* Compiler virtual registers *)
  c_ja : N;               (* Compiler jump annotations *)
  c_final : bool;         (* finalize() already run on the current content *)
  c_names : list N;       (* names of the named labels defined in the holder (as name ids) *)
  c_addrtab : bool;       (* the holder has the library-created .addrtab section *)
  c_lpool : bool          (* Compiler: the function being generated already has its local constant-pool node (and label) *)
}.

Record ambient := mkAmb { a_hlog : bool; a_own : bool; a_elog : bool; a_extra : bool }.   (* a_extra: a second, passive emitter is attached *)
Record state := mkState { s_core : core; s_valid : bool; s_amb : ambient; s_res : N }.

(* effect of one program on the counters *)
Record effect := mkEff { d_sec : N; d_lab : N; d_rel : N; d_nodes : N; d_vregs : N; d_ja : N;
                         d_pending : bool; d_final : bool; d_res : N }.

(* ---- programs whose effect on the label / section / register / annotation counters is COMPUTED by the model ---- *)
Inductive pop :=
| PLabels (n : N)      (* n anonymous labels (new_label) *)
| PNamed (id : N)      (* new_named_label with the name `id`: refused when the holder already has a label of that name *)
| PSection             (* CodeHolder::new_section *)
| PAddrTab             (* an absolute call in a 64-bit x86 Assembler: the library creates the .addrtab section the first time *)
| PFunc (nargs : N)    (* Compiler::add_func: function label + exit label; one virtual register per argument (one scratch
                          register when there is none, as the harness does) *)
| PVreg (n : N)        (* n new virtual registers (new_gp64, new_stack) *)
| PConst               (* a local constant: the first one of a function creates the pool node and its label *)
| PEndFunc             (* end_func: the local pool is emitted and forgotten *)
| PAnnot.              (* new_jump_annotation *)

Inductive policy := Soft | Hard.
Inductive step :=
| SGen (e : effect)
| SProg (ops : list pop) (drel : N) (pend : bool)    (* generate a program whose counter effects the model computes *)
| SReset (p : policy)        (* CodeHolder::reset(p); init(env); attach(emitter) *)
| SReinit                    (* CodeHolder::reinit() *)
| SDetachAttach              (* detach(emitter); attach(emitter) *)
| SNewEmitter                (* destroy the emitter; attach a newly constructed one *)
| SNewHolder                 (* destroy the holder (detaches the emitter); init a new one; attach the old emitter *)
| SLogger (on : bool)        (* CodeHolder::set_logger *)
| SEmLogger (on : bool)      (* BaseEmitter::set_logger / reset_logger *)
| SValidation (on : bool)
| SExtra (on : bool)         (* attach / detach (or destroy) a second, passive emitter *)
| SHeap (seed : N).          (* heap perturbation, pending environment / base-address choice: the model has no heap *)

Definition core0 : core := mkCore true true 1 0 0 false 0 0 0 false [] false false.
Definition state0 : state := mkState core0 false (mkAmb false false false false) 0.

(* what on_detach followed by on_attach leaves of the emitter part of the core *)
Definition emitter_cleared (c : core) : core :=
  mkCore (c_init c) true (c_sec c) (c_lab c) (c_rel c) false 0 0 0 false (c_names c) (c_addrtab c) false.
(* what a holder reset + init (or a new holder) leaves of the holder part *)
Definition holder_cleared (c : core) : core :=
  mkCore true (c_att c) 1 0 0 (c_pending c) (c_nodes c) (c_vregs c) (c_ja c) (c_final c) [] false (c_lpool c).

Definition gen (e : effect) (c : core) : core :=
  if c_init c && c_att c then
    mkCore true true (c_sec c + d_sec e) (c_lab c + d_lab e) (c_rel c + d_rel e) (d_pending e)
           (c_nodes c + d_nodes e) (c_vregs c + d_vregs e) (c_ja c + d_ja e) (c_final c || d_final e)
           (c_names c) (c_addrtab c) (c_lpool c)
  else c.

Definition set_counts (c : core) (sec lab vregs ja : N) (names : list N) (addrtab lpool : bool) : core :=
  mkCore (c_init c) (c_att c) sec lab (c_rel c) (c_pending c) (c_nodes c) vregs ja (c_final c) names addrtab lpool.

Definition do_pop (c : core) (o : pop) : core :=
  match o with
  | PLabels n => set_counts c (c_sec c) (c_lab c + n) (c_vregs c) (c_ja c) (c_names c) (c_addrtab c) (c_lpool c)
  | PNamed id =>
      if existsb (N.eqb id) (c_names c) then c
      else set_counts c (c_sec c) (c_lab c + 1) (c_vregs c) (c_ja c) (id :: c_names c) (c_addrtab c) (c_lpool c)
  | PSection => set_counts c (c_sec c + 1) (c_lab c) (c_vregs c) (c_ja c) (c_names c) (c_addrtab c) (c_lpool c)
  | PAddrTab =>
      if c_addrtab c then c
      else set_counts c (c_sec c + 1) (c_lab c) (c_vregs c) (c_ja c) (c_names c) true (c_lpool c)
  | PFunc n => set_counts c (c_sec c) (c_lab c + 2) (c_vregs c + (if N.eqb n 0 then 1 else n)) (c_ja c) (c_names c) (c_addrtab c) (c_lpool c)
      (* add_func does not touch the local constant pool: a function that was left open keeps it until an end_func *)
  | PVreg n => set_counts c (c_sec c) (c_lab c) (c_vregs c + n) (c_ja c) (c_names c) (c_addrtab c) (c_lpool c)
  | PConst =>
      if c_lpool c then c
      else set_counts c (c_sec c) (c_lab c + 1) (c_vregs c) (c_ja c) (c_names c) (c_addrtab c) true
  | PEndFunc => set_counts c (c_sec c) (c_lab c) (c_vregs c) (c_ja c) (c_names c) (c_addrtab c) false
  | PAnnot => set_counts c (c_sec c) (c_lab c) (c_vregs c) (c_ja c + 1) (c_names c) (c_addrtab c) (c_lpool c)
  end.

(* a program given by its operations; only the relocation count and the pending one-shot state after it are inputs *)
Definition gen_prog (ops : list pop) (drel : N) (pend : bool) (c : core) : core :=
  if c_init c && c_att c then
    let c1 := fold_left do_pop ops c in
    mkCore true true (c_sec c1) (c_lab c1) (c_rel c1 + drel) pend (c_nodes c1) (c_vregs c1) (c_ja c1) (c_final c1)
           (c_names c1) (c_addrtab c1) (c_lpool c1)
  else c.

Definition do_step (x : step) (s : state) : state :=
  let c := s_core s in let a := s_amb s in
  match x with
  | SGen e => mkState (gen e c) (s_valid s) a (s_res s + d_res e)
  | SProg ops drel pend => mkState (gen_prog ops drel pend c) (s_valid s) a (s_res s)
  | SReset p =>
      (* reset clears the holder logger; the emitter keeps only its own logger *)
      (* ... and every attached emitter is detached; only the main one is attached again *)
      mkState (emitter_cleared (holder_cleared c)) (s_valid s) (mkAmb false (a_own a) (a_own a) false)
              (match p with Hard => 0 | Soft => s_res s end)
  | SReinit =>
      if c_init c && c_att c then mkState (emitter_cleared (holder_cleared c)) (s_valid s) a (s_res s) else s
  | SDetachAttach =>
      mkState (emitter_cleared c) (s_valid s) (mkAmb (a_hlog a) (a_own a) (a_own a || a_hlog a) (a_extra a)) (s_res s)
  | SNewEmitter =>
      mkState (emitter_cleared c) false (mkAmb (a_hlog a) false (a_hlog a) (a_extra a)) (s_res s)
  | SNewHolder =>
      mkState (emitter_cleared (holder_cleared c)) (s_valid s) (mkAmb false (a_own a) (a_own a) false) 0
  | SLogger on => mkState c (s_valid s) (mkAmb on (a_own a) (a_own a || on) (a_extra a)) (s_res s)
  | SEmLogger on => mkState c (s_valid s) (if on then mkAmb (a_hlog a) true true (a_extra a) else mkAmb (a_hlog a) false (a_hlog a) (a_extra a)) (s_res s)
  | SExtra on => mkState c (s_valid s) (mkAmb (a_hlog a) (a_own a) (a_elog a) on) (s_res s)
  | SValidation on => mkState c on a (s_res s)
  | SHeap _ => s
  end.

Definition run (h : list step) (s : state) : state := fold_left (fun s x => do_step x s) h s.

Definition reset_like (x : step) : bool :=
  match x with SReset _ | SReinit | SNewHolder => true | _ => false end.
(* steps that may be interposed between a reset and the next generation without influencing it *)
Definition neutral (x : step) : bool :=
  match x with SLogger _ | SEmLogger _ | SHeap _ | SExtra _ | SDetachAttach => true | _ => false end.

Definition ready (s : state) : bool := c_init (s_core s) && c_att (s_core s).

(* the line printed by the harness after every step *)
Definition observe (s : state) : list N :=
  let c := s_core s in let b := fun (x : bool) => if x then 1 else 0 in
  [ b (c_init c); b (c_att c); b (c_att c) + b (a_extra (s_amb s)); c_sec c; c_lab c; c_rel c; b (a_hlog (s_amb s)); b (a_elog (s_amb s)); c_vregs c; c_ja c; b (c_pending c) ].

(* all intermediate observations of a script *)
Fixpoint trace (h : list step) (s : state) : list (list N) :=
  match h with
  | [] => []
  | x :: r => let s' := do_step x s in observe s' :: trace r s'
  end.

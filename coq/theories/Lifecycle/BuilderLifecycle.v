(* C16 -- whole lifecycles of a Builder / Compiler on C08's node-list model: what a reset leaves behind (field by field), that it
   is idempotent, that C08's structural invariants hold along every lifecycle, that the serialized emitter calls of a recycled
   builder are those of a fresh one, that detach + attach (holder content kept) equals a fresh builder on that holder, and that
   nothing of the earlier use can be named afterwards (labels, sections, open function, constant pools). All statements are
   over ALL command sequences / histories. *)
From Coq Require Import ZArith List Bool Lia Arith.
From Verif Require Import Builder.BuilderModel Builder.BuilderProofs Builder.BuilderGrouping Builder.BuilderLinks Builder.BuilderSections.
From Verif Require Import Lifecycle.BuilderDirty.
Import ListNotations.
Local Open Scope Z_scope.

(* ------------------------------------------------------------------ what a reset leaves behind *)
Theorem state_after_reset : forall h rs b0,
  exists d, fold_left do_bl (h ++ [BReset rs]) b0 = recycled_state rs d.
Proof. intros h rs b0. rewrite fold_left_app. cbn [fold_left do_bl]. eexists. reflexivity. Qed.

(* field by field: everything except the dirty flag is the initial value, whatever the history was *)
Theorem reset_fields : forall h rs b0,
  let b := fold_left do_bl (h ++ [BReset rs]) b0 in
  active b = [sec_node 0] /\ cursor b = Some 0%nat /\ pool b = [] /\ links b = [] /\
  nlabels b = 0 /\ nsections b = 1 /\ regsize b = rs /\
  p_opts b = 0 /\ p_exsig b = 0 /\ p_exid b = 0 /\ p_comment b = None /\
  cur_func b = None /\ lpool b = None /\ gpool b = None.
Proof.
  intros h rs b0 b. destruct (state_after_reset h rs b0) as [d E]. subst b. rewrite E. cbn. repeat split; reflexivity.
Qed.

Theorem reset_idempotent : forall b rs, do_bl (do_bl b (BReset rs)) (BReset rs) = do_bl b (BReset rs).
Proof. intros b rs. reflexivity. Qed.

(* a later reset makes every earlier part of the history irrelevant, also across different register sizes (x86-32 <-> x86-64) *)
Theorem last_reset_wins : forall h1 h2 rs1 rs2 b0,
  exists d, fold_left do_bl (h1 ++ [BReset rs1] ++ h2 ++ [BReset rs2]) b0 = recycled_state rs2 d.
Proof.
  intros h1 h2 rs1 rs2 b0. replace (h1 ++ [BReset rs1] ++ h2 ++ [BReset rs2]) with ((h1 ++ [BReset rs1] ++ h2) ++ [BReset rs2])
    by (rewrite <- !app_assoc; reflexivity).
  apply state_after_reset.
Qed.

(* ------------------------------------------------------------------ C08's structural invariants hold along every lifecycle *)
Lemma cursor_ok_recycled : forall rs d, cursor_ok (recycled_state rs d).
Proof. intros rs d. unfold cursor_ok. cbn. lia. Qed.

Lemma secs_unique_recycled : forall rs d, secs_unique (recycled_state rs d).
Proof. intros rs d. exact (secs_unique_init rs). Qed.

Definition inv (b : bstate) : Prop := cursor_ok b /\ links_ok b /\ secs_unique b.

Lemma inv_step_bl : forall b x, inv b -> inv (do_bl b x).
Proof.
  intros b x [Hc [Hl Hs]]. destruct x as [cs|rs]; cbn [do_bl].
  - split; [apply cursor_ok_run; exact Hc | split; [apply links_ok_run; exact Hl | apply secs_unique_run; exact Hs]].
  - split; [apply cursor_ok_recycled | split; [apply links_ok_recycled | apply secs_unique_recycled]].
Qed.

(* the cursor always points into the node list, the cached section links are valid-or-dirty, section nodes are unique:
   after ANY history of generation (emitter calls, section switches, node-list edits) and resets *)
Theorem lifecycle_invariants : forall h b0, inv b0 -> inv (fold_left do_bl h b0).
Proof.
  induction h as [|x h IH]; intros b0 H; [exact H|]. cbn [fold_left]. apply IH. apply inv_step_bl. exact H.
Qed.

Lemma inv_init : forall rs, inv (init_state rs).
Proof. intros rs. split; [apply cursor_ok_init | split; [apply links_ok_init | apply secs_unique_init]]. Qed.

(* ------------------------------------------------------------------ serialization *)
Lemma same_active : forall b1 b2, same b1 b2 -> active b1 = active b2.
Proof. intros b1 b2 E. destruct (strip_fields b1 b2 E) as [Ea _]. exact Ea. Qed.

(* finalize() of a recycled builder serializes exactly the emitter calls a fresh builder serializes (BaseBuilder::serialize_to walks
   the node list; [replay] / [trace] are C08's model of it) *)
Theorem recycled_builder_serializes_like_fresh : forall rs d cs, forallb supported cs = true ->
  replay (run (recycled_state rs d) cs) = replay (run (init_state rs) cs) /\
  trace (replay (run (recycled_state rs d) cs)) = trace (replay (run (init_state rs) cs)).
Proof.
  intros rs d cs Hs. destruct (recycled_builder_equals_fresh rs d cs Hs) as [E _].
  assert (A : active (run (recycled_state rs d) cs) = active (run (init_state rs) cs)) by (apply same_active; exact E).
  unfold replay. rewrite A. split; reflexivity.
Qed.

Theorem history_serializes_like_fresh : forall h rs cs b0, forallb supported cs = true ->
  trace (replay (run (fold_left do_bl (h ++ [BReset rs]) b0) cs)) = trace (replay (run (init_state rs) cs)).
Proof.
  intros h rs cs b0 Hs. destruct (state_after_reset h rs b0) as [d E]. rewrite E.
  apply (recycled_builder_serializes_like_fresh rs d cs Hs).
Qed.

(* ------------------------------------------------------------------ detach + attach: the holder keeps its labels and sections *)
(* BaseBuilder::on_detach + on_attach on a holder that is NOT reset: the builder starts over (clear_all + init_section) while the
   holder still has nl labels and ns sections *)
Definition reattached_state (rs nl ns : Z) (stale_dirty : bool) : bstate := with_counts (recycled_state rs stale_dirty) nl ns.
Definition fresh_on_holder (rs nl ns : Z) : bstate := with_counts (init_state rs) nl ns.

Lemma links_ok_with_counts : forall b nl ns, links_ok b -> links_ok (with_counts b nl ns).
Proof. intros b nl ns H. eapply links_ok_same; [| | |exact H]; reflexivity. Qed.

Theorem reattached_builder_equals_fresh_on_holder : forall rs nl ns d cs, forallb supported cs = true ->
  same (run (reattached_state rs nl ns d) cs) (run (fresh_on_holder rs nl ns) cs) /\
  run_errors (reattached_state rs nl ns d) cs = run_errors (fresh_on_holder rs nl ns) cs.
Proof.
  intros rs nl ns d cs Hs. apply dirty_flag_harmless; [exact Hs | | |].
  - apply links_ok_with_counts. apply links_ok_recycled.
  - apply links_ok_with_counts. apply links_ok_init.
  - apply same_with_counts. reflexivity.
Qed.

(* ------------------------------------------------------------------ nothing of the earlier use can be named after a reset *)
(* no label of the earlier use survives: binding ANY label id is refused *)
Theorem no_label_survives_reset : forall h rs b0 l,
  snd (step (fold_left do_bl (h ++ [BReset rs]) b0) (CBind l)) = kInvalidLabel.
Proof.
  intros h rs b0 l. destruct (state_after_reset h rs b0) as [d E]. rewrite E. cbn [step]. unfold do_bind.
  replace (nlabels (recycled_state rs d)) with 0 by reflexivity.
  destruct (l <? 0) eqn:E1; [reflexivity|]. assert ((0 <=? l) = true) as -> by (apply Z.leb_le; apply Z.ltb_ge in E1; lia). reflexivity.
Qed.

(* no section of the earlier use survives: only section 0 (.text) can be switched to *)
Theorem no_section_survives_reset : forall h rs b0 s, s <> 0 ->
  snd (step (fold_left do_bl (h ++ [BReset rs]) b0) (CSection s)) = kInvalidSection.
Proof.
  intros h rs b0 s Hs. destruct (state_after_reset h rs b0) as [d E]. rewrite E. cbn [step]. unfold do_section.
  replace (nsections (recycled_state rs d)) with 1 by reflexivity.
  destruct (s <? 0) eqn:E1; [reflexivity|]. assert ((1 <=? s) = true) as -> by (apply Z.leb_le; apply Z.ltb_ge in E1; lia). reflexivity.
Qed.

(* no open function survives: end_func is refused, and the one-shot state is clear *)
Theorem no_open_function_survives_reset : forall h rs b0,
  snd (step (fold_left do_bl (h ++ [BReset rs]) b0) CEndFunc) = kInvalidState.
Proof.
  intros h rs b0. destruct (state_after_reset h rs b0) as [d E]. rewrite E. reflexivity.
Qed.

(* the hypotheses are satisfiable and the statements not vacuous: a history with two sections, a function left open, a reset *)
Example lifecycle_example :
  let h := [BGen [CNewLabel; CNewSection; CSection 1; CBind 0; CFunc; CEmbed [1; 2; 3]]; BReset 4; BGen [CNewLabel; CBind 0]] in
  let b := fold_left do_bl (h ++ [BReset 8]) (init_state 8) in
  active b = [sec_node 0] /\ snd (step b (CBind 0)) = kInvalidLabel /\ snd (step b (CSection 1)) = kInvalidSection /\
  snd (step (fold_left do_bl h (init_state 8)) (CBind 0)) = kLabelAlreadyBound.
Proof. cbn. repeat split; reflexivity. Qed.

(* ================================================================== grouping, program splitting, detach + attach inside histories *)
(* C08's main theorem (what a Builder serializes is, section by section, what a direct assembler would have been asked to do by the
   same calls) carries over to a RECYCLED builder: its serialized calls group exactly like the recorded calls. *)
Theorem recycled_replay_is_grouping : forall rs d cs, forallb supported cs = true ->
  Forall emitter cs -> all_ok (init_state rs) cs = true ->
  let b := run (recycled_state rs d) cs in
  (forall s, project s (trace (replay b)) = project s (trace cs)) /\
  (forall x, In x (sec_seq (active b)) <-> x = 0 \/ In (ESection x) (trace cs)) /\
  NoDup (sec_seq (active b)).
Proof.
  intros rs d cs Hs HE HOK b.
  destruct (recycled_builder_equals_fresh rs d cs Hs) as [E _].
  assert (A : active b = active (run (init_state rs) cs)) by (apply same_active; exact E).
  destruct (recycled_builder_serializes_like_fresh rs d cs Hs) as [_ T].
  destruct (replay_is_grouping rs cs HE HOK) as (G1 & G2 & G3).
  subst b. rewrite T, A. split; [exact G1 | split; [exact G2 | exact G3]].
Qed.

(* hence, for any assembler whose result does not depend on how calls of different sections interleave (C03/C04's hypothesis in
   C08), the IMAGE a recycled builder produces is the image of the calls made *)
Theorem recycled_same_image_if_order_irrelevant : forall (image : Type) (asm : list ecall -> image),
  (forall es es', (forall s, project s es = project s es') -> asm es = asm es') ->
  forall rs d cs, forallb supported cs = true -> Forall emitter cs -> all_ok (init_state rs) cs = true ->
  asm (trace (replay (run (recycled_state rs d) cs))) = asm (trace cs).
Proof.
  intros image asm H rs d cs Hs HE HOK. apply H. intros s.
  destruct (recycled_replay_is_grouping rs d cs Hs HE HOK) as [G _]. apply G.
Qed.

(* splitting a program over several generate calls changes nothing *)
Lemma run_app_cmds : forall a b s, run s (a ++ b) = run (run s a) b.
Proof. induction a as [|c a IH]; intros b s; [reflexivity|]. cbn [app run]. apply IH. Qed.

Theorem generate_in_pieces : forall s a b, fold_left do_bl [BGen a; BGen b] s = do_bl s (BGen (a ++ b)).
Proof. intros s a b. cbn [fold_left do_bl]. symmetry. apply run_app_cmds. Qed.

Theorem generate_pieces_any : forall ps s, fold_left do_bl (map BGen ps) s = do_bl s (BGen (concat ps)).
Proof.
  induction ps as [|p ps IH]; intros s; [reflexivity|].
  cbn [map fold_left concat]. rewrite IH. cbn [do_bl]. symmetry. apply run_app_cmds.
Qed.

(* ---- histories that also contain detach + attach (the holder keeps its counters) ---- *)
Inductive bl2_step := B2Gen (cs : list cmd) | B2Reset (rs : Z) | B2Reattach.
Definition do_bl2 (b : bstate) (x : bl2_step) : bstate :=
  match x with
  | B2Gen cs => run b cs
  | B2Reset rs => recycled_state rs (dirty b)
  | B2Reattach => reattached_state (regsize b) (nlabels b) (nsections b) (dirty b)
  end.

Lemma cursor_ok_with_counts : forall b nl ns, cursor_ok b -> cursor_ok (with_counts b nl ns).
Proof. intros b nl ns H. exact H. Qed.
Lemma secs_unique_with_counts : forall b nl ns, secs_unique b -> secs_unique (with_counts b nl ns).
Proof. intros b nl ns H. exact H. Qed.

Theorem lifecycle2_invariants : forall h b0, inv b0 -> inv (fold_left do_bl2 h b0).
Proof.
  induction h as [|x h IH]; intros b0 H; [exact H|]. cbn [fold_left]. apply IH. destruct H as [Hc [Hl Hs]].
  destruct x as [cs|rs|]; cbn [do_bl2].
  - split; [apply cursor_ok_run; exact Hc | split; [apply links_ok_run; exact Hl | apply secs_unique_run; exact Hs]].
  - split; [apply cursor_ok_recycled | split; [apply links_ok_recycled | apply secs_unique_recycled]].
  - unfold reattached_state. split; [apply cursor_ok_with_counts, cursor_ok_recycled |
      split; [apply links_ok_with_counts, links_ok_recycled | apply secs_unique_with_counts, secs_unique_recycled]].
Qed.

(* after ANY history that ends in detach + attach the builder behaves like a fresh builder attached to the holder as it is *)
Theorem reattach_history_irrelevant : forall h cs b0, forallb supported cs = true ->
  let b := fold_left do_bl2 h b0 in
  same (run (do_bl2 b B2Reattach) cs) (run (fresh_on_holder (regsize b) (nlabels b) (nsections b)) cs) /\
  run_errors (do_bl2 b B2Reattach) cs = run_errors (fresh_on_holder (regsize b) (nlabels b) (nsections b)) cs.
Proof. intros h cs b0 Hs b. cbn [do_bl2]. apply reattached_builder_equals_fresh_on_holder. exact Hs. Qed.

(* the node list after detach + attach is the initial one, whatever was recorded before; labels and sections of the HOLDER remain
   nameable (contrast: no_label_survives_reset) *)
Theorem reattach_fields : forall b,
  let b' := do_bl2 b B2Reattach in
  active b' = [sec_node 0] /\ cursor b' = Some 0%nat /\ pool b' = [] /\ cur_func b' = None /\ lpool b' = None /\ gpool b' = None /\
  p_opts b' = 0 /\ p_comment b' = None /\ nlabels b' = nlabels b /\ nsections b' = nsections b /\ regsize b' = regsize b.
Proof. intros b. cbn. repeat split; reflexivity. Qed.

Example reattach_keeps_labels_nameable :
  let b := run (init_state 8) [CNewLabel; CNewLabel; CBind 0] in
  snd (step (do_bl2 b B2Reattach) (CBind 1)) = kOk /\ snd (step (do_bl2 b B2Reattach) (CBind 0)) = kOk /\
  snd (step (do_bl2 b (B2Reset 8)) (CBind 1)) = kInvalidLabel.
Proof. cbn. repeat split; reflexivity. Qed.

(* ================================================================== the only difference is the dirty flag; serialized streams are supported *)
Theorem recycled_differs_only_in_dirty : forall rs d,
  recycled_state rs false = init_state rs /\ strip (recycled_state rs d) = strip (init_state rs) /\ dirty (recycled_state rs d) = d.
Proof. intros rs d. repeat split; reflexivity. Qed.

(* every command a node list serializes to is in the supported fragment ... *)
Lemma replay_node_supported : forall n, forallb supported (replay_node n) = true.
Proof. intros n. unfold replay_node. destruct (n_kind n); reflexivity. Qed.

Lemma forallb_flat_map : forall {A B} (p : B -> bool) (f : A -> list B) l,
  (forall a, forallb p (f a) = true) -> forallb p (flat_map f l) = true.
Proof.
  intros A B p f l H. induction l as [|a l IH]; [reflexivity|]. cbn [flat_map]. rewrite forallb_app, H, IH. reflexivity.
Qed.

Lemma replay_supported : forall b, forallb supported (replay b) = true.
Proof. intros b. unfold replay. apply forallb_flat_map. apply replay_node_supported. Qed.

(* ... so re-recording ANY serialized node list (what serialize_to feeds into another emitter) into a recycled builder gives what a
   fresh builder gives -- no side condition on the commands *)
Theorem rerecord_into_recycled_builder : forall rs d b,
  same (run (recycled_state rs d) (replay b)) (run (init_state rs) (replay b)) /\
  run_errors (recycled_state rs d) (replay b) = run_errors (init_state rs) (replay b).
Proof. intros rs d b. apply recycled_builder_equals_fresh. apply replay_supported. Qed.

(* ================================================================== one Builder / Compiler reused for a whole series of programs *)
(* each program is preceded by a reset (reinit, or detach + attach to a re-initialised holder) for its register size; [series] lists
   what each finalize() serializes *)
Fixpoint series (b : bstate) (ps : list (Z * list cmd)) : list (list ecall) :=
  match ps with
  | [] => []
  | (rs, cs) :: t => let b1 := run (do_bl b (BReset rs)) cs in trace (replay b1) :: series b1 t
  end.

(* every program of the series is serialized exactly as a fresh builder would serialize it -- whatever came before it *)
Theorem every_program_of_a_series_is_fresh : forall ps b,
  forallb (fun p => forallb supported (snd p)) ps = true ->
  series b ps = map (fun p => trace (replay (run (init_state (fst p)) (snd p)))) ps.
Proof.
  induction ps as [|[rs cs] t IH]; intros b H; [reflexivity|].
  cbn [forallb snd] in H. apply andb_prop in H. destruct H as [Hc Ht].
  cbn [series map fst snd do_bl]. f_equal.
  - destruct (recycled_builder_serializes_like_fresh rs (dirty b) cs Hc) as [_ T]. exact T.
  - apply IH. exact Ht.
Qed.

Example series_example :
  series (run (init_state 8) [CNewLabel; CNewSection; CSection 1; CBind 0; CFunc])
         [(8, [CNewLabel; CBind 0; CEmbed [1; 2]]); (4, [CEmbed [7]])] =
  [trace (replay (run (init_state 8) [CNewLabel; CBind 0; CEmbed [1; 2]])); trace (replay (run (init_state 4) [CEmbed [7]]))].
Proof. reflexivity. Qed.

(* ================================================================== round 6: unconditional versions (no `supported` hypothesis) *)
Theorem recycled_builder_serializes_like_fresh_all : forall rs d cs,
  replay (run (recycled_state rs d) cs) = replay (run (init_state rs) cs) /\
  trace (replay (run (recycled_state rs d) cs)) = trace (replay (run (init_state rs) cs)).
Proof. intros. apply recycled_builder_serializes_like_fresh. apply supported_all_list. Qed.

Theorem history_serializes_like_fresh_all : forall h rs cs b0,
  trace (replay (run (fold_left do_bl (h ++ [BReset rs]) b0) cs)) = trace (replay (run (init_state rs) cs)).
Proof. intros. apply history_serializes_like_fresh. apply supported_all_list. Qed.

Theorem reattached_builder_equals_fresh_on_holder_all : forall rs nl ns d cs,
  same (run (reattached_state rs nl ns d) cs) (run (fresh_on_holder rs nl ns) cs) /\
  run_errors (reattached_state rs nl ns d) cs = run_errors (fresh_on_holder rs nl ns) cs.
Proof. intros. apply reattached_builder_equals_fresh_on_holder. apply supported_all_list. Qed.

Theorem reattach_history_irrelevant_all : forall h cs b0,
  let b := fold_left do_bl2 h b0 in
  same (run (do_bl2 b B2Reattach) cs) (run (fresh_on_holder (regsize b) (nlabels b) (nsections b)) cs) /\
  run_errors (do_bl2 b B2Reattach) cs = run_errors (fresh_on_holder (regsize b) (nlabels b) (nsections b)) cs.
Proof. intros. apply reattach_history_irrelevant. apply supported_all_list. Qed.

Theorem recycled_replay_is_grouping_all : forall rs d cs,
  Forall emitter cs -> all_ok (init_state rs) cs = true ->
  let b := run (recycled_state rs d) cs in
  (forall s, project s (trace (replay b)) = project s (trace cs)) /\
  (forall x, In x (sec_seq (active b)) <-> x = 0 \/ In (ESection x) (trace cs)) /\
  NoDup (sec_seq (active b)).
Proof. intros rs d cs. apply recycled_replay_is_grouping. apply supported_all_list. Qed.

Theorem every_program_of_a_series_is_fresh_all : forall ps b,
  series b ps = map (fun p => trace (replay (run (init_state (fst p)) (snd p)))) ps.
Proof.
  intros ps b. apply every_program_of_a_series_is_fresh. apply forallb_forall. intros p _. apply supported_all_list.
Qed.

(* the errors a recycled builder reports are the errors of a fresh one, command by command, and `all_ok` transfers: the hypothesis
   "the fresh builder accepts the stream" can equally be stated on the recycled builder *)
Lemma all_ok_errors : forall cs b, all_ok b cs = forallb (fun e => e =? kOk) (run_errors b cs).
Proof. induction cs as [|c cs IH]; intros b; [reflexivity|]. cbn [all_ok run_errors forallb]. rewrite IH. reflexivity. Qed.

Theorem all_ok_recycled_iff_fresh : forall rs d cs, all_ok (recycled_state rs d) cs = all_ok (init_state rs) cs.
Proof.
  intros rs d cs. rewrite !all_ok_errors. destruct (recycled_builder_equals_fresh_all rs d cs) as [_ E]. rewrite E. reflexivity.
Qed.

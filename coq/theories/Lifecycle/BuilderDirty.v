(* C16 -- the stale `_dirty_section_links` flag is harmless.
   BaseBuilder_clear_all (detach / reinit) never clears BaseBuilder::_dirty_section_links (ResetSpec.persistent lists it with the
   reason "a stale true only forces a recomputation"). This file PROVES that reason on C08's Builder model
   (Verif.Builder.BuilderModel: node list, cursor, pool, cached section links, dirty flag, one-shot state; all emitter calls and
   node-list edits): two builder states that agree on everything except the link cache and the dirty flag, and whose caches are
   valid-or-dirty (links_ok, an invariant of every run: BuilderLinks.links_ok_run), behave identically under every command
   sequence -- same node list, cursor, pool, counters, one-shot state and the same error code at every step. *)
From Coq Require Import ZArith List Bool Lia Arith.
From Verif Require Import Builder.BuilderModel Builder.BuilderProofs Builder.BuilderGrouping Builder.BuilderLinks.
Import ListNotations.
Local Open Scope Z_scope.

(* forget the cache: no links, dirty *)
Definition strip (b : bstate) : bstate := with_links b [] true.

Lemma strip_fields : forall b1 b2, strip b1 = strip b2 ->
  active b1 = active b2 /\ cursor b1 = cursor b2 /\ pool b1 = pool b2 /\ nlabels b1 = nlabels b2 /\ nsections b1 = nsections b2 /\
  regsize b1 = regsize b2 /\ p_opts b1 = p_opts b2 /\ p_exsig b1 = p_exsig b2 /\ p_exid b1 = p_exid b2 /\ p_comment b1 = p_comment b2 /\
  cur_func b1 = cur_func b2 /\ lpool b1 = lpool b2 /\ gpool b1 = gpool b2.
Proof.
  intros b1 b2 H. destruct b1, b2.
  unfold strip, with_links in H. cbn in H. injection H; intros; subst. cbn. repeat split; reflexivity.
Qed.

(* the two states as one record with two caches *)
Lemma strip_eq_form : forall b1 b2, strip b1 = strip b2 -> b2 = with_links b1 (links b2) (dirty b2).
Proof.
  intros b1 b2 H. destruct b1, b2.
  unfold strip, with_links in H. cbn in H. injection H; intros; subst. reflexivity.
Qed.

Lemma strip_with_links : forall b l d, strip (with_links b l d) = strip b.
Proof. intros b l d. destruct b. reflexivity. Qed.

(* ------------------------------------------------------------------ every building block of `step` respects "equal up to the cache" *)
Definition same (b1 b2 : bstate) : Prop := strip b1 = strip b2.

Ltac fields E :=
  let Ea := fresh "Ea" in let Ec := fresh "Ec" in let Ep := fresh "Ep" in let Enl := fresh "Enl" in let Ens := fresh "Ens" in
  let Ers := fresh "Ers" in let Eo := fresh "Eo" in let Es := fresh "Es" in let Ei := fresh "Ei" in let Ecm := fresh "Ecm" in
  let Ef := fresh "Ef" in let Elp := fresh "Elp" in let Egp := fresh "Egp" in
  destruct (strip_fields _ _ E) as [Ea [Ec [Ep [Enl [Ens [Ers [Eo [Es [Ei [Ecm [Ef [Elp Egp]]]]]]]]]]]].

Lemma same_with_list : forall b1 b2 a c d1 d2, same b1 b2 -> same (with_list b1 a c d1) (with_list b2 a c d2).
Proof.
  intros b1 b2 a c d1 d2 H. destruct b1, b2.
  unfold same, strip, with_links in *. cbn in H. injection H; intros; subst. reflexivity.
Qed.
Lemma same_with_pool : forall b1 b2 p, same b1 b2 -> same (with_pool b1 p) (with_pool b2 p).
Proof.
  intros b1 b2 p H. destruct b1, b2.
  unfold same, strip, with_links in *. cbn in H. injection H; intros; subst. reflexivity.
Qed.
Lemma same_with_pend : forall b1 b2 o s i c, same b1 b2 -> same (with_pend b1 o s i c) (with_pend b2 o s i c).
Proof.
  intros b1 b2 o s i c H. destruct b1, b2.
  unfold same, strip, with_links in *. cbn in H. injection H; intros; subst. reflexivity.
Qed.
Lemma same_with_counts : forall b1 b2 nl ns, same b1 b2 -> same (with_counts b1 nl ns) (with_counts b2 nl ns).
Proof.
  intros b1 b2 nl ns H. destruct b1, b2.
  unfold same, strip, with_links in *. cbn in H. injection H; intros; subst. reflexivity.
Qed.
Lemma same_with_func : forall b1 b2 f, same b1 b2 -> same (with_func b1 f) (with_func b2 f).
Proof.
  intros b1 b2 f H. destruct b1, b2.
  unfold same, strip, with_links in *. cbn in H. injection H; intros; subst. reflexivity.
Qed.
Lemma same_with_pools : forall b1 b2 lp gp, same b1 b2 -> same (with_pools b1 lp gp) (with_pools b2 lp gp).
Proof.
  intros b1 b2 lp gp H. destruct b1, b2.
  unfold same, strip, with_links in *. cbn in H. injection H; intros; subst. reflexivity.
Qed.
Lemma same_with_links : forall b l d, same (with_links b l d) b.
Proof. intros. apply strip_with_links. Qed.

Lemma same_add_node : forall n b1 b2, same b1 b2 -> same (add_node n b1) (add_node n b2).
Proof. intros n b1 b2 E. fields E. unfold add_node. rewrite <- Ea, <- Ec. apply same_with_list. exact E. Qed.
Lemma same_add_after : forall n i b1 b2, same b1 b2 -> same (add_after n i b1) (add_after n i b2).
Proof. intros n i b1 b2 E. fields E. unfold add_after. rewrite <- Ea, <- Ec. apply same_with_list. exact E. Qed.
Lemma same_add_before : forall n i b1 b2, same b1 b2 -> same (add_before n i b1) (add_before n i b2).
Proof. intros n i b1 b2 E. fields E. unfold add_before. rewrite <- Ea, <- Ec. apply same_with_list. exact E. Qed.
Lemma same_remove_range : forall i j b1 b2, same b1 b2 -> same (remove_range i j b1) (remove_range i j b2).
Proof.
  intros i j b1 b2 E. fields E. unfold remove_range. rewrite <- Ea, <- Ec, <- Ep. apply same_with_pool. apply same_with_list. exact E.
Qed.

Lemma same_bind : forall l b1 b2, same b1 b2 ->
  same (fst (do_bind l b1)) (fst (do_bind l b2)) /\ snd (do_bind l b1) = snd (do_bind l b2).
Proof.
  intros l b1 b2 E. fields E. unfold do_bind. rewrite <- Enl, <- Ea, <- Ep.
  destruct ((l <? 0) || (nlabels b1 <=? l)); [split; [exact E | reflexivity]|].
  destruct (existsb (is_label_id l) (active b1)); [split; [exact E | reflexivity]|].
  cbn [fst snd]. split; [|reflexivity]. apply same_add_node. apply same_with_pool. exact E.
Qed.

(* ------------------------------------------------------------------ `section`: the only reader of the cache *)
Lemma find_index_section_in : forall s l j, find_index (is_section_id s) l = Some j -> In s (sec_seq l).
Proof.
  intros s l. induction l as [|n l IH]; intros j H; [discriminate|].
  cbn [find_index] in H. unfold sec_seq. cbn [flat_map]. apply in_or_app.
  destruct (is_section_id s n) eqn:E.
  - left. unfold is_section_id in E. unfold sec_id. destruct (n_kind n); try discriminate. apply Z.eqb_eq in E. subst. left; reflexivity.
  - right. destruct (find_index (is_section_id s) l) as [k|] eqn:F; [|discriminate]. eapply IH. reflexivity.
Qed.

(* where `section(s)` puts the cursor, as a function of the successor the cache reports *)
Definition cursor_for (L : list node) (nx : option Z) : option nat :=
  match nx with
  | Some t => match find_index (is_section_id t) L with Some j => pred_opt j | None => None end
  | None => last_index L
  end.

Lemma section_cursor_next_of : forall s L lk,
  match lookup s lk with
  | Some (Some t) => match find_index (is_section_id t) L with Some j => pred_opt j | None => None end
  | _ => last_index L
  end = cursor_for L (next_of s lk).
Proof. intros. unfold cursor_for, next_of. destruct (lookup s lk) as [[t|]|]; reflexivity. Qed.

Lemma update_links_fields : forall b, active (update_links b) = active b /\ pool (update_links b) = pool b.
Proof. intros b. unfold update_links. destruct (dirty b); split; reflexivity. Qed.

Lemma strip_update_links : forall b, strip (update_links b) = strip b.
Proof. intros b. unfold update_links. destruct (dirty b); [apply strip_with_links | reflexivity]. Qed.

Lemma section_same : forall s b1 b2, links_ok b1 -> links_ok b2 -> same b1 b2 ->
  same (fst (do_section s b1)) (fst (do_section s b2)) /\ snd (do_section s b1) = snd (do_section s b2).
Proof.
  intros s b1 b2 H1 H2 E. destruct (strip_fields b1 b2 E) as [Ea [Ec [Ep [Enl [Ens _]]]]].
  unfold do_section. rewrite <- Ens, <- Ea.
  destruct ((s <? 0) || (nsections b1 <=? s)); [split; [exact E | reflexivity]|].
  destruct (find_index (is_section_id s) (active b1)) as [j|] eqn:F.
  - cbn [fst snd]. split; [|reflexivity].
    destruct (links_ok_update b1 H1) as [U1 D1]. destruct (links_ok_update b2 H2) as [U2 D2].
    destruct (update_links_fields b1) as [A1 _]. destruct (update_links_fields b2) as [A2 _].
    rewrite !section_cursor_next_of.
    assert (In s (sec_seq (active b1))) as Hin by (eapply find_index_section_in; exact F).
    rewrite (U1 D1 s) by (rewrite A1; exact Hin).
    rewrite (U2 D2 s) by (rewrite A2, <- Ea; exact Hin).
    rewrite A1, A2, <- Ea.
    apply same_with_list. unfold same. rewrite !strip_update_links. exact E.
  - cbn [fst snd]. split; [|reflexivity]. rewrite <- Ep. apply same_with_list. apply same_with_pool. exact E.
Qed.

(* ------------------------------------------------------------------ one step, any command *)
(* rebuilding the list record from a state's own fields *)
Lemma same_relist_cursor : forall x1 x2 y1 y2 d1 d2, same x1 x2 -> same y1 y2 ->
  same (with_list x1 (active x1) (cursor y1) d1) (with_list x2 (active x2) (cursor y2) d2).
Proof.
  intros x1 x2 y1 y2 d1 d2 Ex Ey. pose proof Ex as E1. fields E1. pose proof Ey as E2. fields E2.
  rewrite <- Ea, <- Ec0. apply same_with_list. exact Ex.
Qed.
Lemma same_relist_find : forall x1 x2 (p : node -> bool) d1 d2, same x1 x2 ->
  same (with_list x1 (active x1) (find_index p (active x1)) d1) (with_list x2 (active x2) (find_index p (active x2)) d2).
Proof.
  intros x1 x2 p d1 d2 Ex. pose proof Ex as E1. fields E1. rewrite <- Ea. apply same_with_list. exact Ex.
Qed.

(* commands made of the building blocks only: conditions read non-cache fields, results are built with the same_* operations *)
Ltac blocks E :=
  repeat first [ exact E | apply same_add_node | apply same_add_after | apply same_add_before | apply same_remove_range
               | apply same_with_list | apply same_with_pool | apply same_with_pend | apply same_with_counts
               | apply same_with_func | apply same_with_pools ].
Ltac easy_case E :=
  cbn [fst snd];
  repeat match goal with
         | |- context [if ?c then _ else _] => destruct c
         | |- context [match ?x with _ => _ end] => destruct x
         end;
  cbn [fst snd]; (split; [|reflexivity]); blocks E.

Lemma constpool_same : forall l al d b1 b2, same b1 b2 ->
  same (fst (step b1 (CConstPool l al d))) (fst (step b2 (CConstPool l al d))) /\
  snd (step b1 (CConstPool l al d)) = snd (step b2 (CConstPool l al d)).
Proof.
  intros l al d b1 b2 E. pose proof E as E0. fields E0. cbn [step]. rewrite <- Enl.
  destruct ((l <? 0) || (nlabels b1 <=? l)); [split; [exact E | reflexivity]|].
  pose proof (same_bind l _ _ (same_add_node (mkNode (NAlign kAlignData al) None) b1 b2 E)) as [SB SE].
  destruct (do_bind l (add_node (mkNode (NAlign kAlignData al) None) b1)) as [x1 e1].
  destruct (do_bind l (add_node (mkNode (NAlign kAlignData al) None) b2)) as [x2 e2].
  cbn [fst snd] in SB, SE. subst e2.
  destruct (e1 =? kOk); cbn [fst snd]; (split; [|reflexivity]); [apply same_add_node|]; exact SB.
Qed.

Lemma func_same : forall b1 b2, same b1 b2 ->
  same (fst (step b1 CFunc)) (fst (step b2 CFunc)) /\ snd (step b1 CFunc) = snd (step b2 CFunc).
Proof.
  intros b1 b2 E. pose proof E as E0. fields E0. cbn [step fst snd]. split; [|reflexivity].
  rewrite <- Enl, <- Ens, <- Ecm.
  apply same_relist_cursor; blocks E.
Qed.

Lemma endfunc_same : forall b1 b2, same b1 b2 ->
  same (fst (step b1 CEndFunc)) (fst (step b2 CEndFunc)) /\ snd (step b1 CEndFunc) = snd (step b2 CEndFunc).
Proof.
  intros b1 b2 E. pose proof E as E0. fields E0. cbn [step]. rewrite <- Ef.
  destruct (cur_func b1) as [fl|]; cbn [fst snd]; (split; [|reflexivity]); [|blocks E].
  assert (SX : same (with_func (with_pend b1 0 0 0 None) None) (with_func (with_pend b2 0 0 0 None) None)) by blocks E.
  set (X1 := with_func (with_pend b1 0 0 0 None) None) in *. set (X2 := with_func (with_pend b2 0 0 0 None) None) in *.
  pose proof SX as SX0. fields SX0.
  apply same_relist_find.
  rewrite <- Elp0, <- Ea0, <- Egp0.
  destruct (lpool X1) as [[l d]|]; [|exact SX].
  apply same_add_node. apply same_with_list. apply same_with_pools. exact SX.
Qed.

(* commands this file knows; a command added to C08's model later is simply outside the statement until it is listed here *)
Definition supported (c : cmd) : bool :=
  match c with
  | CNewLabel | CNewSection | CSetOptions _ | CAddOptions _ | CSetExtra _ _ | CSetComment _ | CEmit _ _ _ _ _ _ _ | CEmitRejected _
  | CBind _ | CAlign _ _ | CEmbed _ | CEmbedArray _ _ _ _ | CEmbedLabel _ _ | CEmbedDelta _ _ _ | CConstPool _ _ _ | CComment _
  | CSection _ | CConstPoolNode _ _ _ | CSentinel _ | CFunc | CFuncRet | CEndFunc | CNewConst _ _ | CJumpAnn | CJump _ _ _
  | CInvoke _ _ | CSetCursor _ | CRemove _ | CRemoveRange _ _ | CRemovePool _ | CAddAfter _ _ | CAddBefore _ _ | CAddNode _ => true
  | other => match other with CUpdateLinks => true | _ => false end      (* the wildcard keeps this total when cmd grows *)
  end.

(* the hypothesis is satisfiable: emitter calls, a section switch, a function and node-list edits are all supported *)
Example supported_example :
  forallb supported [CNewLabel; CNewSection; CSection 1; CBind 0; CEmbed [1; 2]; CSection 0; CFunc; CEndFunc; CRemove 1%nat; CUpdateLinks] = true.
Proof. reflexivity. Qed.

Lemma step_same : forall c b1 b2, supported c = true -> links_ok b1 -> links_ok b2 -> same b1 b2 ->
  same (fst (step b1 c)) (fst (step b2 c)) /\ snd (step b1 c) = snd (step b2 c).
Proof.
  intros c b1 b2 Hs H1 H2 E. pose proof E as E0. fields E0.
  destruct c; try discriminate Hs;
    try (apply constpool_same; exact E); try (apply func_same; exact E); try (apply endfunc_same; exact E);
    cbn [step];
    try (apply same_bind; exact E); try (apply section_same; assumption);
    try (cbn [fst snd]; split; [unfold same; rewrite !strip_update_links; exact E | reflexivity]);
    unfold do_emit, inst_node, do_embed_array;
    rewrite <- ?Ea, <- ?Ec, <- ?Ep, <- ?Enl, <- ?Ens, <- ?Ers, <- ?Eo, <- ?Es, <- ?Ei, <- ?Ecm, <- ?Ef, <- ?Elp, <- ?Egp;
    easy_case E.
Qed.

(* errors reported along a run *)
Fixpoint run_errors (b : bstate) (cs : list cmd) : list Z :=
  match cs with
  | [] => []
  | c :: t => snd (step b c) :: run_errors (fst (step b c)) t
  end.

(* two builders that differ only in the link cache / dirty flag (both caches valid-or-dirty) are indistinguishable *)
Theorem dirty_flag_harmless : forall cs b1 b2, forallb supported cs = true -> links_ok b1 -> links_ok b2 -> same b1 b2 ->
  strip (run b1 cs) = strip (run b2 cs) /\ run_errors b1 cs = run_errors b2 cs.
Proof.
  induction cs as [|c cs IH]; intros b1 b2 Hs H1 H2 E; [split; [exact E | reflexivity]|].
  cbn [forallb] in Hs. apply andb_prop in Hs. destruct Hs as [Hc Hs].
  cbn [run run_errors]. destruct (step_same c b1 b2 Hc H1 H2 E) as [A B].
  destruct (IH (fst (step b1 c)) (fst (step b2 c)) Hs (links_ok_step b1 c H1) (links_ok_step b2 c H2) A) as [R Er].
  split; [exact R | rewrite B, Er; reflexivity].
Qed.

(* the state BaseBuilder_clear_all + BaseBuilder_init_section leave behind: the initial builder state, except that the dirty flag
   keeps whatever value the previous use left (the cache itself lives in the section nodes, which are new) *)
Definition recycled_state (rs : Z) (stale_dirty : bool) : bstate := with_links (init_state rs) [] stale_dirty.

Lemma links_ok_recycled : forall rs d, links_ok (recycled_state rs d).
Proof. intros rs d Hd s [H|[]]. subst. reflexivity. Qed.

Theorem recycled_builder_equals_fresh : forall rs d cs, forallb supported cs = true ->
  strip (run (recycled_state rs d) cs) = strip (run (init_state rs) cs) /\
  run_errors (recycled_state rs d) cs = run_errors (init_state rs) cs.
Proof.
  intros rs d cs Hs. apply dirty_flag_harmless; [exact Hs | apply links_ok_recycled | apply links_ok_init | reflexivity].
Qed.

(* ------------------------------------------------------------------ whole builder lifecycles *)
(* BGen cs   : any sequence of emitter calls / node-list edits (incl. section switches) on the current builder
   BReset rs : detach + attach, or reinit (BaseBuilder_clear_all + BaseBuilder_init_section) for a holder of register size rs:
               new node list with the .text section node, cursor on it, no pooled nodes, counters of the re-initialised holder,
               one-shot state cleared -- but the dirty flag keeps its value *)
Inductive bl_step := BGen (cs : list cmd) | BReset (rs : Z).
Definition do_bl (b : bstate) (x : bl_step) : bstate :=
  match x with BGen cs => run b cs | BReset rs => recycled_state rs (dirty b) end.

Theorem builder_history_irrelevant : forall h rs cs b0, forallb supported cs = true ->
  strip (run (fold_left do_bl (h ++ [BReset rs]) b0) cs) = strip (run (init_state rs) cs) /\
  run_errors (fold_left do_bl (h ++ [BReset rs]) b0) cs = run_errors (init_state rs) cs.
Proof.
  intros h rs cs b0 Hs. rewrite fold_left_app. cbn [fold_left do_bl]. apply recycled_builder_equals_fresh. exact Hs.
Qed.

(* ================================================================== round 6: the hypothesis `supported` is discharged *)
(* C08's command type is final: every command is in the fragment, so the theorems above hold for ALL command sequences *)
Lemma supported_all : forall c, supported c = true.
Proof. destruct c; reflexivity. Qed.

Lemma supported_all_list : forall cs, forallb supported cs = true.
Proof. intros cs. apply forallb_forall. intros c _. apply supported_all. Qed.

Theorem dirty_flag_harmless_all : forall cs b1 b2, links_ok b1 -> links_ok b2 -> same b1 b2 ->
  strip (run b1 cs) = strip (run b2 cs) /\ run_errors b1 cs = run_errors b2 cs.
Proof. intros cs b1 b2. apply dirty_flag_harmless. apply supported_all_list. Qed.

Theorem recycled_builder_equals_fresh_all : forall rs d cs,
  strip (run (recycled_state rs d) cs) = strip (run (init_state rs) cs) /\
  run_errors (recycled_state rs d) cs = run_errors (init_state rs) cs.
Proof. intros rs d cs. apply recycled_builder_equals_fresh. apply supported_all_list. Qed.

Theorem builder_history_irrelevant_all : forall h rs cs b0,
  strip (run (fold_left do_bl (h ++ [BReset rs]) b0) cs) = strip (run (init_state rs) cs) /\
  run_errors (fold_left do_bl (h ++ [BReset rs]) b0) cs = run_errors (init_state rs) cs.
Proof. intros h rs cs b0. apply builder_history_irrelevant. apply supported_all_list. Qed.

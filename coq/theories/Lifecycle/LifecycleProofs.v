(* C16 -- theorems about the lifecycle model. *)
From Coq Require Import NArith List Bool Lia.
From Verif Require Import Lifecycle.LifecycleModel.
Import ListNotations.
Local Open Scope N_scope.

Lemma run_app : forall h1 h2 s, run (h1 ++ h2) s = run h2 (run h1 s).
Proof. intros. unfold run. apply fold_left_app. Qed.

Lemma run_cons : forall x h s, run (x :: h) s = run h (do_step x s).
Proof. reflexivity. Qed.

(* ------------------------------------------------------------------ ready is an invariant *)
Lemma ready_step : forall x s, ready s = true -> ready (do_step x s) = true.
Proof.
  intros x s H. destruct s as [c v a r]. destruct c. unfold ready in *. simpl in *.
  apply andb_prop in H. destruct H as [Hi Ha]. subst.
  destruct x; simpl; try reflexivity; destruct on; reflexivity.
Qed.

Lemma ready_run : forall h s, ready s = true -> ready (run h s) = true.
Proof.
  induction h as [|x h IH]; intros s H; [exact H|]. rewrite run_cons. apply IH. apply ready_step. exact H.
Qed.

(* ------------------------------------------------------------------ a reset-like step re-creates the initial core *)
Lemma reset_like_core0 : forall x s, ready s = true -> reset_like x = true -> s_core (do_step x s) = core0.
Proof.
  intros x s H Hx. destruct x; simpl in Hx; try discriminate; simpl.
  - reflexivity.
  - unfold ready in H. rewrite H. reflexivity.
  - reflexivity.
Qed.

(* after ANY history that ends in reset / reinit / new holder, the core equals the one of fresh objects *)
Theorem fresh_equiv : forall h r s, ready s = true -> reset_like r = true -> s_core (run (h ++ [r]) s) = core0.
Proof.
  intros h r s H Hr. rewrite run_app. simpl. apply reset_like_core0; [apply ready_run; exact H | exact Hr].
Qed.

(* ------------------------------------------------------------------ the core never reads loggers or resources *)
Lemma step_core_congr : forall x s1 s2, s_core s1 = s_core s2 ->
  s_core (do_step x s1) = s_core (do_step x s2).
Proof.
  intros x s1 s2 H. destruct x; simpl; rewrite ?H; try reflexivity.
  destruct (c_init (s_core s2) && c_att (s_core s2)); simpl; [reflexivity | exact H].
Qed.

Lemma step_valid_congr : forall x s1 s2, s_valid s1 = s_valid s2 -> s_core s1 = s_core s2 ->
  s_valid (do_step x s1) = s_valid (do_step x s2).
Proof.
  intros x s1 s2 Hv H. destruct x; simpl; rewrite ?H, ?Hv; try reflexivity.
  destruct (c_init (s_core s2) && c_att (s_core s2)); simpl; [reflexivity | exact Hv].
Qed.

(* non-interference: two states with the same core and configuration stay so under every script, whatever their loggers and
   retained resources are (output is independent of heap layout, arena block sizes and logging IN THE MODEL) *)
Theorem run_independent_of_ambient : forall h s1 s2,
  s_core s1 = s_core s2 -> s_valid s1 = s_valid s2 ->
  s_core (run h s1) = s_core (run h s2) /\ s_valid (run h s1) = s_valid (run h s2).
Proof.
  induction h as [|x h IH]; intros s1 s2 Hc Hv; [split; assumption|].
  rewrite !run_cons. apply IH; [apply step_core_congr; exact Hc | apply step_valid_congr; assumption].
Qed.

(* generation after any history ending in a reset-like step = generation on fresh objects *)
Theorem generate_after_reset_equals_fresh : forall h r s e,
  ready s = true -> reset_like r = true ->
  s_core (do_step (SGen e) (run (h ++ [r]) s)) = s_core (do_step (SGen e) state0).
Proof.
  intros h r s e H Hr. apply step_core_congr. rewrite (fresh_equiv h r s H Hr). reflexivity.
Qed.

(* neutral steps (loggers, heap perturbation, detach + re-attach) between the reset and the generation change nothing *)
Lemma neutral_keeps_core0 : forall x s, s_core s = core0 -> neutral x = true -> s_core (do_step x s) = core0.
Proof.
  intros x s H Hx. destruct x; simpl in Hx; try discriminate; simpl; rewrite ?H; try reflexivity; destruct on; reflexivity.
Qed.

Lemma neutral_run_core0 : forall n s, s_core s = core0 -> forallb neutral n = true -> s_core (run n s) = core0.
Proof.
  induction n as [|x n IH]; intros s H Hn; [exact H|]. simpl in Hn. apply andb_prop in Hn. destruct Hn as [Hx Hn].
  rewrite run_cons. apply IH; [apply neutral_keeps_core0; assumption | exact Hn].
Qed.

Theorem generate_after_reset_and_neutral_equals_fresh : forall h r n s e,
  ready s = true -> reset_like r = true -> forallb neutral n = true ->
  s_core (do_step (SGen e) (run (h ++ r :: n) s)) = s_core (do_step (SGen e) state0).
Proof.
  intros h r n s e H Hr Hn. apply step_core_congr.
  replace (h ++ r :: n) with ((h ++ [r]) ++ n) by (rewrite <- app_assoc; reflexivity).
  rewrite run_app. rewrite (neutral_run_core0 n (run (h ++ [r]) s) (fresh_equiv h r s H Hr) Hn). reflexivity.
Qed.

(* a new emitter on a just reset holder is fresh too, and so is the n-th function of a reused Compiler: each function is
   generated after a reinit, hence from core0 *)
Theorem function_independent : forall (fs : list effect) s e,
  ready s = true ->
  s_core (do_step (SGen e) (run (flat_map (fun f => [SGen f; SReinit]) fs) s)) =
  match fs with [] => s_core (do_step (SGen e) s) | _ => s_core (do_step (SGen e) state0) end.
Proof.
  intros fs s e H. destruct fs as [|f fs]; [reflexivity|].
  apply step_core_congr.
  assert (G: forall l s', ready s' = true -> l <> [] -> s_core (run (flat_map (fun f => [SGen f; SReinit]) l) s') = core0).
  { induction l as [|g l IH]; intros s' Hs Hl; [congruence|].
    change (flat_map (fun f => [SGen f; SReinit]) (g :: l))
      with ([SGen g; SReinit] ++ flat_map (fun f => [SGen f; SReinit]) l).
    rewrite run_app.
    assert (R: ready (run [SGen g; SReinit] s') = true) by (apply ready_run; exact Hs).
    destruct l as [|g' l'].
    - change (run (flat_map (fun f => [SGen f; SReinit]) []) (run [SGen g; SReinit] s')) with (run [SGen g; SReinit] s').
      change (run [SGen g; SReinit] s') with (do_step SReinit (do_step (SGen g) s')).
      apply reset_like_core0; [apply ready_step; exact Hs | reflexivity].
    - apply IH; [exact R | discriminate]. }
  apply G; [exact H | discriminate].
Qed.

(* the hypotheses are satisfiable: the initial state is ready, and scripts exist *)
Example ready_state0 : ready state0 = true. Proof. reflexivity. Qed.
Example fresh_equiv_example :
  s_core (run [SGen (mkEff 2 5 1 0 0 0 true false 100); SLogger true; SGen (mkEff 0 3 0 0 0 0 false false 7); SReset Soft] state0) = core0.
Proof. reflexivity. Qed.

(* the observation line only shows core and logger flags *)
Lemma observe_after_reset : forall h r s, ready s = true -> reset_like r = true ->
  firstn 2 (observe (run (h ++ [r]) s)) = [1; 1] /\ firstn 3 (skipn 3 (observe (run (h ++ [r]) s))) = [1; 0; 0] /\
  skipn 8 (observe (run (h ++ [r]) s)) = [0; 0; 0].
Proof.
  intros h r s H Hr. unfold observe. rewrite (fresh_equiv h r s H Hr). simpl. repeat split; reflexivity.
Qed.

(* ------------------------------------------------------------------ logger / heap independence as erasure *)
(* steps that only touch loggers, the heap, or the second (passive) emitter *)
Definition ambient_step (x : step) : bool :=
  match x with SLogger _ | SEmLogger _ | SHeap _ | SExtra _ => true | _ => false end.
Definition erase_ambient (h : list step) : list step := filter (fun x => negb (ambient_step x)) h.

Lemma ambient_step_keeps : forall x s, ambient_step x = true ->
  s_core (do_step x s) = s_core s /\ s_valid (do_step x s) = s_valid s.
Proof.
  intros x s H. destruct x; simpl in H; try discriminate; simpl; try (split; reflexivity); destruct on; split; reflexivity.
Qed.

(* Attaching / detaching loggers (holder or emitter), perturbing the heap, attaching a passive second emitter -- at ANY points of a
   history -- never changes what the history does to the core: the script with all those steps erased leads to the same core and
   configuration. (Model-level statement of "output does not depend on whether logging is attached, nor on heap layout".) *)
Theorem erase_ambient_same_core : forall h s1 s2,
  s_core s1 = s_core s2 -> s_valid s1 = s_valid s2 ->
  s_core (run h s1) = s_core (run (erase_ambient h) s2) /\ s_valid (run h s1) = s_valid (run (erase_ambient h) s2).
Proof.
  induction h as [|x h IH]; intros s1 s2 Hc Hv; [split; assumption|].
  unfold erase_ambient. cbn [filter]. destruct (ambient_step x) eqn:E; cbn [negb].
  - rewrite run_cons. destruct (ambient_step_keeps x s1 E) as [A B]. apply IH; [rewrite A; exact Hc | rewrite B; exact Hv].
  - rewrite !run_cons. apply IH; [apply step_core_congr; exact Hc | apply step_valid_congr; assumption].
Qed.

(* the same for ANY next step, in particular for a program whose counter effects the model computes (SProg) *)
Theorem any_step_after_reset_equals_fresh : forall h r n s x,
  ready s = true -> reset_like r = true -> forallb neutral n = true ->
  s_core (do_step x (run (h ++ r :: n) s)) = s_core (do_step x state0).
Proof.
  intros h r n s x H Hr Hn. apply step_core_congr.
  replace (h ++ r :: n) with ((h ++ [r]) ++ n) by (rewrite <- app_assoc; reflexivity).
  rewrite run_app. rewrite (neutral_run_core0 n (run (h ++ [r]) s) (fresh_equiv h r s H Hr) Hn). reflexivity.
Qed.

(* what a program does to the counters, from the fresh core: labels, sections, registers and annotations are computed *)
Example prog_effect_example :
  let c := s_core (do_step (SProg [PLabels 2; PNamed 7; PNamed 7; PSection; PAddrTab; PAddrTab; PFunc 0; PConst; PConst; PEndFunc; PAnnot] 3 false) state0) in
  (c_lab c, c_sec c, c_rel c, c_vregs c, c_ja c) = (6, 3, 3, 1, 1).
Proof. reflexivity. Qed.

(* ================================================================== round 5: full-strength statements about single steps *)
(* a reset-like step clears everything a program can observe in the holder: names, .addrtab, pending state, open-function pool *)
Theorem reset_like_idempotent : forall r1 r2 s, ready s = true -> reset_like r1 = true -> reset_like r2 = true ->
  s_core (do_step r2 (do_step r1 s)) = s_core (do_step r1 s).
Proof.
  intros r1 r2 s H H1 H2. rewrite (reset_like_core0 r1 s H H1).
  apply reset_like_core0; [apply ready_step; exact H | exact H2].
Qed.

(* what a reset-like step must NOT change: the persistent configuration (validation diagnostics) ... *)
Theorem reset_like_keeps_configuration : forall r s, reset_like r = true -> s_valid (do_step r s) = s_valid s.
Proof.
  intros r s H. destruct r; simpl in H; try discriminate; simpl; try reflexivity.
  destruct (c_init (s_core s) && c_att (s_core s)); reflexivity.
Qed.

(* ... and the emitter's OWN logger (user configuration); a holder reset drops the holder's logger, reinit keeps it *)
Theorem reset_like_keeps_own_logger : forall r s, reset_like r = true -> a_own (s_amb (do_step r s)) = a_own (s_amb s).
Proof.
  intros r s H. destruct r; simpl in H; try discriminate; simpl; try reflexivity.
  destruct (c_init (s_core s) && c_att (s_core s)); reflexivity.
Qed.
Theorem holder_reset_drops_holder_logger : forall p s, a_hlog (s_amb (do_step (SReset p) s)) = false.
Proof. reflexivity. Qed.
Theorem reinit_keeps_holder_logger : forall s, a_hlog (s_amb (do_step SReinit s)) = a_hlog (s_amb s).
Proof. intros s. simpl. destruct (c_init (s_core s) && c_att (s_core s)); reflexivity. Qed.

(* the effective emitter logger is always: own logger, else the holder's -- an invariant of every script (from state0) *)
Definition logger_consistent (s : state) : Prop :=
  a_elog (s_amb s) = (a_own (s_amb s) || a_hlog (s_amb s)).

Lemma logger_consistent_step : forall x s, logger_consistent s -> logger_consistent (do_step x s).
Proof.
  intros x s H. unfold logger_consistent in *. destruct s as [c v [hl ow el ex] r]. simpl in *. subst el.
  destruct x; simpl; try reflexivity; try (destruct ow; reflexivity).
  - destruct (c_init c && c_att c); simpl; reflexivity.
  - destruct on; reflexivity.
Qed.

Theorem logger_consistent_run : forall h s, logger_consistent s -> logger_consistent (run h s).
Proof.
  induction h as [|x h IH]; intros s H; [exact H|]. rewrite run_cons. apply IH. apply logger_consistent_step. exact H.
Qed.

(* programs never decrease a counter, never touch init / attached, and never change the configuration *)
Lemma do_pop_monotone : forall c o,
  (c_sec c <= c_sec (do_pop c o) /\ c_lab c <= c_lab (do_pop c o) /\ c_vregs c <= c_vregs (do_pop c o) /\ c_ja c <= c_ja (do_pop c o))%N /\
  c_init (do_pop c o) = c_init c /\ c_att (do_pop c o) = c_att c /\ c_rel (do_pop c o) = c_rel c.
Proof.
  intros c o. destruct o; simpl;
    repeat match goal with |- context [if ?x then _ else _] => destruct x end; simpl; repeat split; try reflexivity; lia.
Qed.

Lemma fold_pop_monotone : forall ops c,
  (c_sec c <= c_sec (fold_left do_pop ops c) /\ c_lab c <= c_lab (fold_left do_pop ops c) /\
   c_vregs c <= c_vregs (fold_left do_pop ops c) /\ c_ja c <= c_ja (fold_left do_pop ops c))%N /\
  c_init (fold_left do_pop ops c) = c_init c /\ c_att (fold_left do_pop ops c) = c_att c /\ c_rel (fold_left do_pop ops c) = c_rel c.
Proof.
  induction ops as [|o ops IH]; intros c; [simpl; repeat split; try reflexivity; lia|].
  cbn [fold_left]. destruct (IH (do_pop c o)) as [[A1 [A2 [A3 A4]]] [B1 [B2 B3]]].
  destruct (do_pop_monotone c o) as [[C1 [C2 [C3 C4]]] [D1 [D2 D3]]].
  repeat split; try lia; congruence.
Qed.

Theorem program_is_monotone : forall ops drel pend s,
  let s' := do_step (SProg ops drel pend) s in
  (c_sec (s_core s) <= c_sec (s_core s') /\ c_lab (s_core s) <= c_lab (s_core s') /\ c_rel (s_core s) <= c_rel (s_core s') /\
   c_vregs (s_core s) <= c_vregs (s_core s') /\ c_ja (s_core s) <= c_ja (s_core s'))%N /\
  c_init (s_core s') = c_init (s_core s) /\ c_att (s_core s') = c_att (s_core s) /\
  s_valid s' = s_valid s /\ s_amb s' = s_amb s.
Proof.
  intros ops drel pend s. simpl. unfold gen_prog.
  destruct (c_init (s_core s)) eqn:Ei; destruct (c_att (s_core s)) eqn:Ea; simpl;
    try (repeat split; try reflexivity; try assumption; lia).
  destruct (fold_pop_monotone ops (s_core s)) as [[A1 [A2 [A3 A4]]] [B1 [B2 B3]]].
  repeat split; try lia; try reflexivity; rewrite ?B3; lia.
Qed.

(* no name survives a reset: after any history ending in a reset-like step EVERY named label can be defined again, and the
   library-created .addrtab section appears again on the first absolute call *)
Theorem names_do_not_survive_reset : forall h r s id, ready s = true -> reset_like r = true ->
  c_lab (s_core (do_step (SProg [PNamed id] 0 false) (run (h ++ [r]) s))) = 1%N.
Proof.
  intros h r s id H Hr.
  rewrite (step_core_congr (SProg [PNamed id] 0 false) (run (h ++ [r]) s) state0 (fresh_equiv h r s H Hr)). reflexivity.
Qed.

Theorem addrtab_does_not_survive_reset : forall h r s, ready s = true -> reset_like r = true ->
  c_sec (s_core (do_step (SProg [PAddrTab] 0 false) (run (h ++ [r]) s))) = 2%N.
Proof.
  intros h r s H Hr.
  rewrite (step_core_congr (SProg [PAddrTab] 0 false) (run (h ++ [r]) s) state0 (fresh_equiv h r s H Hr)). reflexivity.
Qed.

(* within one holder life a name IS remembered (the statement above is not vacuous) *)
Example name_is_remembered_without_reset :
  c_lab (s_core (run [SProg [PNamed 5] 0 false; SLogger true; SProg [PNamed 5] 0 false] state0)) = 1%N /\
  c_lab (s_core (run [SProg [PNamed 5] 0 false; SReinit; SProg [PNamed 5] 0 false] state0)) = 1%N /\
  c_lab (s_core (run [SProg [PNamed 5] 0 false; SProg [PNamed 6] 0 false] state0)) = 2%N.
Proof. repeat split; reflexivity. Qed.

(* the whole observation line (what the harness prints) after history ++ reset-like ++ neutral steps depends on the history only
   through the logger flags *)
Theorem observation_after_reset : forall h r n s, ready s = true -> reset_like r = true -> forallb neutral n = true ->
  firstn 2 (observe (run (h ++ r :: n) s)) = [1; 1]%N /\
  firstn 3 (skipn 3 (observe (run (h ++ r :: n) s))) = [1; 0; 0]%N /\
  skipn 8 (observe (run (h ++ r :: n) s)) = [0; 0; 0]%N.
Proof.
  intros h r n s H Hr Hn.
  assert (E : s_core (run (h ++ r :: n) s) = core0).
  { replace (h ++ r :: n) with ((h ++ [r]) ++ n) by (rewrite <- app_assoc; reflexivity).
    rewrite run_app. apply neutral_run_core0; [apply fresh_equiv; assumption | exact Hn]. }
  unfold observe. rewrite E. simpl. repeat split; reflexivity.
Qed.

(* ---- what detach + attach and a new emitter do and do NOT touch ---- *)
Theorem detach_attach_scope : forall s,
  let s' := do_step SDetachAttach s in
  (* holder content untouched *)
  c_init (s_core s') = c_init (s_core s) /\ c_sec (s_core s') = c_sec (s_core s) /\ c_lab (s_core s') = c_lab (s_core s) /\
  c_rel (s_core s') = c_rel (s_core s) /\ c_names (s_core s') = c_names (s_core s) /\ c_addrtab (s_core s') = c_addrtab (s_core s) /\
  (* emitter state cleared *)
  c_att (s_core s') = true /\ c_pending (s_core s') = false /\ c_nodes (s_core s') = 0%N /\ c_vregs (s_core s') = 0%N /\
  c_ja (s_core s') = 0%N /\ c_final (s_core s') = false /\ c_lpool (s_core s') = false /\
  (* configuration kept *)
  s_valid s' = s_valid s /\ a_own (s_amb s') = a_own (s_amb s) /\ a_hlog (s_amb s') = a_hlog (s_amb s).
Proof. intros s. simpl. repeat split; reflexivity. Qed.

Theorem new_emitter_scope : forall s,
  let s' := do_step SNewEmitter s in
  c_sec (s_core s') = c_sec (s_core s) /\ c_lab (s_core s') = c_lab (s_core s) /\ c_rel (s_core s') = c_rel (s_core s) /\
  c_names (s_core s') = c_names (s_core s) /\ c_addrtab (s_core s') = c_addrtab (s_core s) /\
  c_pending (s_core s') = false /\ c_vregs (s_core s') = 0%N /\ c_ja (s_core s') = 0%N /\
  (* a new emitter has the default configuration: no validation, no own logger; it inherits the holder's logger *)
  s_valid s' = false /\ a_own (s_amb s') = false /\ a_elog (s_amb s') = a_hlog (s_amb s).
Proof. intros s. simpl. repeat split; reflexivity. Qed.

(* ---- the observation trace is compositional (the python side relies on one line per step) ---- *)
Theorem trace_app : forall h1 h2 s, trace (h1 ++ h2) s = trace h1 s ++ trace h2 (run h1 s).
Proof.
  induction h1 as [|x h1 IH]; intros h2 s; [reflexivity|].
  cbn [app trace]. rewrite IH. rewrite run_cons. reflexivity.
Qed.

Theorem trace_length : forall h s, length (trace h s) = length h.
Proof. induction h as [|x h IH]; intros s; [reflexivity|]. cbn [trace length]. rewrite IH. reflexivity. Qed.

(* ================================================================== round 6: the hypothesis `ready s` is discharged for every reachable state *)
Definition reachable (s : state) : Prop := exists h, s = run h state0.

Lemma reachable_ready : forall s, reachable s -> ready s = true.
Proof. intros s [h E]. subst. apply ready_run. reflexivity. Qed.

Lemma reachable_step : forall x s, reachable s -> reachable (do_step x s).
Proof. intros x s [h E]. exists (h ++ [x]). subst. rewrite run_app. reflexivity. Qed.

Lemma reachable_run : forall h s, reachable s -> reachable (run h s).
Proof. intros h s [h0 E]. exists (h0 ++ h). subst. rewrite run_app. reflexivity. Qed.

(* from the start: ANY script that ends in a reset-like step leads to the fresh core -- no side condition at all *)
Theorem fresh_equiv_from_start : forall h r, reset_like r = true -> s_core (run (h ++ [r]) state0) = core0.
Proof. intros h r Hr. apply fresh_equiv; [reflexivity | exact Hr]. Qed.

Theorem any_step_after_reset_from_start : forall h r n x, reset_like r = true -> forallb neutral n = true ->
  s_core (do_step x (run (h ++ r :: n) state0)) = s_core (do_step x state0).
Proof. intros h r n x Hr Hn. apply any_step_after_reset_equals_fresh; [reflexivity | exact Hr | exact Hn]. Qed.

(* and for every reachable state *)
Theorem fresh_equiv_reachable : forall s h r, reachable s -> reset_like r = true -> s_core (run (h ++ [r]) s) = core0.
Proof. intros s h r Hs Hr. apply fresh_equiv; [apply reachable_ready; exact Hs | exact Hr]. Qed.

(* completeness direction: a step that is NOT reset-like does not in general lead to the fresh core (the reset is necessary) *)
Example non_reset_does_not_clear :
  s_core (run [SProg [PLabels 1] 0 false; SDetachAttach] state0) <> core0 /\
  s_core (run [SProg [PLabels 1] 0 false; SNewEmitter] state0) <> core0 /\
  s_core (run [SProg [PLabels 1] 0 false; SLogger true] state0) <> core0.
Proof. repeat split; discriminate. Qed.

(* logger consistency holds in every reachable state (the invariant's hypothesis discharged) *)
Theorem logger_consistent_reachable : forall s, reachable s -> logger_consistent s.
Proof. intros s [h E]. subst. apply logger_consistent_run. reflexivity. Qed.

(* ------------------------------------------------------------------ round 7: sequence-level lift of any_step_after_reset_from_start
   not just ONE step but a WHOLE continuation script t behaves, after any history ending in a reset-like step and neutral steps,
   as on another such history with the same (persistent, by contract) validation configuration ... *)
Theorem whole_script_after_reset_two_histories : forall h1 r1 n1 h2 r2 n2 t,
  reset_like r1 = true -> forallb neutral n1 = true -> reset_like r2 = true -> forallb neutral n2 = true ->
  s_valid (run (h1 ++ r1 :: n1) state0) = s_valid (run (h2 ++ r2 :: n2) state0) ->
  s_core (run (h1 ++ r1 :: n1 ++ t) state0) = s_core (run (h2 ++ r2 :: n2 ++ t) state0) /\
  s_valid (run (h1 ++ r1 :: n1 ++ t) state0) = s_valid (run (h2 ++ r2 :: n2 ++ t) state0).
Proof.
  intros h1 r1 n1 h2 r2 n2 t H1 N1 H2 N2 Hv.
  assert (C : forall h r n, reset_like r = true -> forallb neutral n = true -> s_core (run (h ++ r :: n) state0) = core0).
  { intros h r n Hr Hn. replace (h ++ r :: n) with ((h ++ [r]) ++ n) by (rewrite <- app_assoc; reflexivity).
    rewrite (run_app (h ++ [r]) n). apply neutral_run_core0; [apply fresh_equiv_from_start; exact Hr | exact Hn]. }
  replace (h1 ++ r1 :: n1 ++ t) with ((h1 ++ r1 :: n1) ++ t) by (rewrite <- app_assoc; reflexivity).
  replace (h2 ++ r2 :: n2 ++ t) with ((h2 ++ r2 :: n2) ++ t) by (rewrite <- app_assoc; reflexivity).
  rewrite (run_app (h1 ++ r1 :: n1) t), (run_app (h2 ++ r2 :: n2) t).
  apply run_independent_of_ambient; [rewrite !C by assumption; reflexivity | exact Hv].
Qed.

(* ... and, when validation is as at the start, exactly as on fresh objects *)
Theorem whole_script_after_reset : forall h r n t,
  reset_like r = true -> forallb neutral n = true -> s_valid (run (h ++ r :: n) state0) = s_valid state0 ->
  s_core (run (h ++ r :: n ++ t) state0) = s_core (run t state0) /\ s_valid (run (h ++ r :: n ++ t) state0) = s_valid (run t state0).
Proof.
  intros h r n t Hr Hn Hv.
  replace (h ++ r :: n ++ t) with ((h ++ r :: n) ++ t) by (rewrite <- app_assoc; reflexivity).
  rewrite (run_app (h ++ r :: n) t). apply run_independent_of_ambient; [|exact Hv].
  replace (h ++ r :: n) with ((h ++ [r]) ++ n) by (rewrite <- app_assoc; reflexivity).
  rewrite (run_app (h ++ [r]) n). rewrite (neutral_run_core0 n _ (fresh_equiv_from_start h r Hr) Hn). reflexivity.
Qed.

(* C16 -- soundness of the reset-coverage checker of ResetSpec.v and the generic "all observable fields reset => equal to
   initial" lemma that connects the coverage obligation with the lifecycle model. *)
From Coq Require Import String List Bool Arith Lia.
From Verif Require Import Lifecycle.ResetSpec.
Import ListNotations.
Local Open Scope string_scope.

(* ------------------------------------------------------------------ membership *)
Lemma mem_In : forall s l, mem s l = true <-> In s l.
Proof.
  intros s l. unfold mem. rewrite existsb_exists. split.
  - intros [x [Hin Heq]]. apply String.eqb_eq in Heq. subst. exact Hin.
  - intros Hin. exists s. split; [exact Hin | apply String.eqb_refl].
Qed.

(* ------------------------------------------------------------------ call graph closure *)
(* [callee fs a b]: function a has a call to b in the generated data *)
Definition callee (fs : list func_decl) (a b : string) : Prop := In b (calls_of fs a).

Inductive calls_star (fs : list func_decl) : string -> string -> Prop :=
| cs_refl : forall a, calls_star fs a a
| cs_step : forall a b c, callee fs a b -> calls_star fs b c -> calls_star fs a c.

(* invariant of the work list: everything seen or still to do is reachable from one of the start names *)
Lemma reach_sound_gen : forall fs starts fuel todo seen,
  (forall n, In n todo -> exists s, In s starts /\ calls_star fs s n) ->
  (forall n, In n seen -> exists s, In s starts /\ calls_star fs s n) ->
  forall n, In n (reach fs fuel todo seen) -> exists s, In s starts /\ calls_star fs s n.
Proof.
  intros fs starts fuel. induction fuel as [|k IH]; intros todo seen Ht Hs n Hn; simpl in Hn.
  - apply Hs; exact Hn.
  - destruct todo as [|m rest].
    + apply Hs; exact Hn.
    + destruct (mem m seen) eqn:Hm.
      * eapply IH; [| exact Hs | exact Hn]. intros x Hx. apply Ht. right; exact Hx.
      * eapply IH; [| | exact Hn].
        -- intros x Hx. apply in_app_or in Hx. destruct Hx as [Hx|Hx].
           ++ destruct (Ht m (or_introl eq_refl)) as [s [Hs1 Hs2]]. exists s. split; [exact Hs1|].
              clear - Hs2 Hx. induction Hs2.
              ** eapply cs_step; [exact Hx | apply cs_refl].
              ** eapply cs_step; [exact H | apply IHHs2; exact Hx].
           ++ apply Ht. right; exact Hx.
        -- intros x [Hx|Hx]; [subst; apply Ht; left; reflexivity | apply Hs; exact Hx].
Qed.

Lemma reach_sound : forall fs fuel starts n,
  In n (reach fs fuel starts []) -> exists s, In s starts /\ calls_star fs s n.
Proof.
  intros. eapply reach_sound_gen; [| | exact H].
  - intros x Hx. exists x. split; [exact Hx | apply cs_refl].
  - intros x [].
Qed.

(* every function whose writes count for a route is a root of the route or reachable from a root through call edges *)
Lemma route_funcs_sound : forall fs r n,
  In n (route_funcs fs r) -> exists rt, In rt (r_roots r) /\ calls_star fs (rt_fn rt) n.
Proof.
  intros fs r n H. unfold route_funcs in H. apply in_flat_map in H. destruct H as [rt [Hrt Hn]].
  exists rt. split; [exact Hrt|]. unfold root_funcs in Hn. destruct (rt_follow rt).
  - apply reach_sound in Hn. destruct Hn as [s [[Hs|[]] Hc]]. subst. exact Hc.
  - destruct Hn as [Hn|Hn]; [subst; apply cs_refl|].
    apply reach_sound in Hn. destruct Hn as [s [Hs Hc]].
    apply filter_In in Hs. destruct Hs as [_ Hs]. apply mem_In in Hs.
    eapply cs_step; [exact Hs | exact Hc].
  - destruct Hn as [Hn|[]]. subst. apply cs_refl.
Qed.

(* ------------------------------------------------------------------ what "covered" means *)
Lemma write_is_spec : forall c f sub how w, write_is c f sub how w = true ->
  w_class w = c /\ w_field w = f /\ w_sub w = sub /\ w_how w = how.
Proof.
  unfold write_is. intros. repeat (apply andb_prop in H; destruct H as [H ?]).
  apply String.eqb_eq in H, H0, H1, H2. auto.
Qed.

(* the write hits the object being reset, and every level of its nesting is an error exit or a reviewed guard of the route *)
Definition applies_prop (r : route) (w : write) : Prop :=
  In (w_obj w) (r_objs r) /\ guard_ok r (w_guard w) = true.

Lemma applies_spec : forall r w, applies r w = true -> applies_prop r w.
Proof.
  unfold applies, applies_prop. intros r w H. apply andb_prop in H. destruct H as [H1 H2].
  apply mem_In in H1. split; assumption.
Qed.

(* what guard_ok means, level by level *)
Lemma guard_ok_spec : forall r g, guard_ok r g = true ->
  forall c, In c g -> c = GErrExit \/ exists c', In c' (r_guards r) /\ gcomp_eqb c c' = true.
Proof.
  intros r g H c Hc. unfold guard_ok in H. rewrite forallb_forall in H. specialize (H c Hc).
  destruct c; try (right; apply existsb_exists in H; destruct H as [c' [H1 H2]]; exists c'; split; assumption).
  left; reflexivity.
Qed.

Definition plain_write (c f : string) (w : write) : Prop :=
  w_class w = c /\ w_field w = f /\ w_sub w = "" /\ In (w_how w) reset_hows.

Lemma plain_sel_spec : forall c f w, plain_sel c f w = true -> plain_write c f w.
Proof.
  unfold plain_sel, plain_write. intros c f w H. repeat (apply andb_prop in H; destruct H as [H ?]).
  apply String.eqb_eq in H, H1, H2. apply mem_In in H0. auto.
Qed.

(* a covered member has, in the write set of the route,
   (1) a resetting write of the whole member applied to the object being reset (unconditional / reviewed guard), or
   (2) two such writes in the two branches of one condition, or
   (3) ALL sub-writes of one reviewed special idiom, each applied to the object being reset *)
Lemma covered_spec : forall r ws c f, covered r ws c f = true ->
  (exists w, In w ws /\ plain_write c f w /\ applies_prop r w) \/
  (exists w1 w2 pre other, In w1 ws /\ In w2 ws /\ plain_write c f w1 /\ plain_write c f w2 /\
                 In (w_obj w1) (r_objs r) /\ In (w_obj w2) (r_objs r) /\
                 negate_last (w_guard w1) = Some (pre, other) /\ guard_ok r pre = true /\ guard_eqb (w_guard w2) other = true) \/
  (exists s, In s specials /\ sp_class s = c /\ sp_field s = f /\
             forall sub, In sub (sp_subs s) ->
               exists w, In w ws /\ w_class w = c /\ w_field w = f /\ w_sub w = sub /\ w_how w = sp_how s /\ applies_prop r w).
Proof.
  intros r ws c f H. unfold covered in H. apply orb_prop in H. destruct H as [H|H].
  - unfold covered_plain in H. apply orb_prop in H. destruct H as [H|H].
    + left. apply existsb_exists in H. destruct H as [w [Hw H]]. apply andb_prop in H. destruct H as [H1 H2].
      exists w. split; [exact Hw|]. split; [apply plain_sel_spec; exact H1 | apply applies_spec; exact H2].
    + right. left. unfold applies_both in H. apply existsb_exists in H. destruct H as [w1 [Hw1 H]].
      apply andb_prop in H. destruct H as [H H2]. apply andb_prop in H. destruct H as [Hs1 Ho1].
      destruct (negate_last (w_guard w1)) as [[pre other]|] eqn:Hn; [|discriminate].
      apply andb_prop in H2. destruct H2 as [Hpre H2].
      apply existsb_exists in H2. destruct H2 as [w2 [Hw2 H2]].
      apply andb_prop in H2. destruct H2 as [H2 Hg]. apply andb_prop in H2. destruct H2 as [Hs2 Ho2].
      exists w1, w2, pre, other. apply mem_In in Ho1, Ho2.
      split; [exact Hw1|]. split; [exact Hw2|]. split; [apply plain_sel_spec; exact Hs1|]. split; [apply plain_sel_spec; exact Hs2|].
      split; [exact Ho1|]. split; [exact Ho2|]. split; [exact Hn|]. split; assumption.
  - right. right. unfold covered_special in H. apply existsb_exists in H. destruct H as [s [Hs H]].
    repeat (apply andb_prop in H; destruct H as [H ?]).
    apply String.eqb_eq in H, H1. exists s. repeat split; auto.
    intros sub Hsub. rewrite forallb_forall in H0. specialize (H0 sub Hsub).
    apply existsb_exists in H0. destruct H0 as [w [Hw Hw2]]. apply andb_prop in Hw2. destruct Hw2 as [Hw2 Ha].
    apply write_is_spec in Hw2. apply applies_spec in Ha. exists w. tauto.
Qed.

Lemma route_writes_sound : forall fs r w, In w (route_writes fs r) ->
  exists n rt, In rt (r_roots r) /\ calls_star fs (rt_fn rt) n /\ In w (writes_of fs n).
Proof.
  intros fs r w H. unfold route_writes in H. apply in_flat_map in H. destruct H as [n [Hn Hw]].
  destruct (route_funcs_sound fs r n Hn) as [rt [H1 H2]]. exists n, rt. auto.
Qed.

(* ------------------------------------------------------------------ soundness of check_all *)
Lemma check_all_sound : forall cs fs, check_all cs fs = true ->
  forall r c f, In r routes -> In c (r_classes r) -> In f (fields_of cs c) ->
    covered r (route_writes fs r) c f = true \/ is_persistent r c f = true.
Proof.
  intros cs fs H r c f Hr Hc Hf. unfold check_all in H. apply andb_prop in H. destruct H as [H _].
  rewrite forallb_forall in H. specialize (H r Hr). unfold check_route in H.
  rewrite forallb_forall in H. specialize (H c Hc). rewrite forallb_forall in H. specialize (H f Hf).
  unfold field_ok in H. apply orb_prop in H. exact H.
Qed.

Lemma check_all_uncovered_nil : forall cs fs, check_all cs fs = true -> uncovered cs fs = [].
Proof.
  intros cs fs H. unfold check_all in H. apply andb_prop in H. destruct H as [H _].
  unfold uncovered. induction routes as [|r rs IH]; simpl; [reflexivity|].
  simpl in H. apply andb_prop in H. destruct H as [Hr Hrs]. rewrite (IH Hrs), app_nil_r.
  unfold check_route in Hr. clear - Hr. induction (r_classes r) as [|c cl IHc]; simpl; [reflexivity|].
  simpl in Hr. apply andb_prop in Hr. destruct Hr as [Hc Hcl]. rewrite (IHc Hcl), app_nil_r.
  clear - Hc. induction (fields_of cs c) as [|f fl IHf]; simpl; [reflexivity|].
  simpl in Hc. apply andb_prop in Hc. destruct Hc as [Hf Hfl]. rewrite Hf. simpl. apply IHf; exact Hfl.
Qed.

Lemma check_all_must_call : forall cs fs, check_all cs fs = true ->
  forall a b, In (a, b) must_call -> callee fs a b.
Proof.
  intros cs fs H a b Hab. unfold check_all in H. apply andb_prop in H. destruct H as [_ H].
  unfold hygiene in H. apply andb_prop in H. destruct H as [_ H].
  rewrite forallb_forall in H. specialize (H (a, b) Hab). simpl in H. apply mem_In in H. exact H.
Qed.

(* ------------------------------------------------------------------ generic lemma: reset of all observable fields = init *)
Section ResetIsInit.
  Variable V : Type.
  Definition fstate := string -> V.                     (* an object as a total map member -> value *)
  Variable init : fstate.                               (* the freshly constructed object *)
  (* the reset routine overwrites the members of W with their initial value and leaves the others alone *)
  Definition reset_with (W : list string) (s : fstate) : fstate := fun f => if mem f W then init f else s f.
  Variable O : Type.
  Variable observe : fstate -> O.
  Variable footprint : list string.                     (* members the observation may read *)
  Hypothesis observe_footprint : forall s1 s2, (forall f, In f footprint -> s1 f = s2 f) -> observe s1 = observe s2.

  (* If every member the observation reads is written by the reset routine, then a recycled object is observationally the
     fresh one, whatever the members outside the footprint (the persistent ones) hold. *)
  Lemma reset_all_fields_is_init : forall W s,
    (forall f, In f footprint -> mem f W = true) -> observe (reset_with W s) = observe init.
  Proof.
    intros W s H. apply observe_footprint. intros f Hf. unfold reset_with. rewrite (H f Hf). reflexivity.
  Qed.

  (* with the shape of the coverage obligation: each member is reset or persistent, and persistent members are outside
     the footprint (this last premise is the reviewed claim attached to every entry of ResetSpec.persistent) *)
  Lemma covered_or_persistent_is_init : forall (fields W P : list string) s,
    (forall f, In f footprint -> In f fields) ->
    (forall f, In f fields -> mem f W = true \/ mem f P = true) ->
    (forall f, In f footprint -> mem f P = false) ->
    observe (reset_with W s) = observe init.
  Proof.
    intros fields W P s Hfp Hcov Hdisj. apply reset_all_fields_is_init. intros f Hf.
    destruct (Hcov f (Hfp f Hf)) as [H|H]; [exact H|]. rewrite (Hdisj f Hf) in H. discriminate.
  Qed.
End ResetIsInit.

(* where a write of the route's write set comes from *)
Definition from_route (fs : list func_decl) (r : route) (w : write) : Prop :=
  exists n rt, In rt (r_roots r) /\ calls_star fs (rt_fn rt) n /\ In w (writes_of fs n).

Lemma covered_means_written : forall fs r c f, covered r (route_writes fs r) c f = true ->
  (exists w, from_route fs r w /\ plain_write c f w /\ applies_prop r w) \/
  (exists w1 w2 pre other, from_route fs r w1 /\ from_route fs r w2 /\ plain_write c f w1 /\ plain_write c f w2 /\
                 In (w_obj w1) (r_objs r) /\ In (w_obj w2) (r_objs r) /\
                 negate_last (w_guard w1) = Some (pre, other) /\ guard_ok r pre = true /\ guard_eqb (w_guard w2) other = true) \/
  (exists s, In s specials /\ sp_class s = c /\ sp_field s = f /\
     forall sub, In sub (sp_subs s) ->
       exists w, from_route fs r w /\ w_class w = c /\ w_field w = f /\ w_sub w = sub /\ w_how w = sp_how s /\ applies_prop r w).
Proof.
  intros fs r c f H. apply covered_spec in H. destruct H as [[w [Hw H]]|[[w1 [w2 [pre [other [Hw1 [Hw2 H]]]]]]|[s [Hs [H1 [H2 H3]]]]]].
  - left. exists w. split; [|exact H]. destruct (route_writes_sound fs r w Hw) as [n [rt [Hr [Hc Hin]]]]. exists n, rt. auto.
  - right. left. exists w1, w2, pre, other.
    destruct (route_writes_sound fs r w1 Hw1) as [n1 [rt1 [Hr1 [Hc1 Hin1]]]].
    destruct (route_writes_sound fs r w2 Hw2) as [n2 [rt2 [Hr2 [Hc2 Hin2]]]].
    split; [exists n1, rt1; auto|]. split; [exists n2, rt2; auto|]. exact H.
  - right. right. exists s. repeat split; auto. intros sub Hsub. destruct (H3 sub Hsub) as [w [Hw H]].
    exists w. split; [|exact H]. destruct (route_writes_sound fs r w Hw) as [n [rt [Hr [Hc Hin]]]]. exists n, rt. auto.
Qed.

(* statement in the shape used by Properties_C16.v *)
Lemma reset_all_fields_is_init_stmt :
  forall (V O : Type) (init : string -> V) (observe : (string -> V) -> O) (footprint fields W P : list string),
    (forall s1 s2, (forall f, In f footprint -> s1 f = s2 f) -> observe s1 = observe s2) ->
    (forall f, In f footprint -> In f fields) ->
    (forall f, In f fields -> mem f W = true \/ mem f P = true) ->
    (forall f, In f footprint -> mem f P = false) ->
    forall s, observe (reset_with V init W s) = observe init.
Proof.
  intros V O init observe footprint fields W P H1 H2 H3 H4 s.
  exact (covered_or_persistent_is_init V init O observe footprint H1 fields W P s H2 H3 H4).
Qed.

(* the hypotheses are satisfiable and the conclusion is not vacuous: a two-member object whose observation reads only "a" *)
Example reset_all_fields_example :
  let init := fun f : string => 0%nat in
  let obs := fun s : string -> nat => s "a" in
  forall s, obs (reset_with nat init ["a"] s) = obs init.
Proof.
  intros init obs s.
  apply (reset_all_fields_is_init_stmt nat nat init obs ["a"] ["a"; "b"] ["a"] ["b"]).
  - intros s1 s2 H. apply H. left; reflexivity.
  - intros f [Hf|[]]; subst; left; reflexivity.
  - intros f [Hf|[Hf|[]]]; subst; [left | right]; reflexivity.
  - intros f [Hf|[]]; subst; reflexivity.
Qed.

(* ================================================================== round 5: properties of the checker itself *)
(* ---- structural equality of guard conditions is exact: cexpr_eqb x y = true <-> x = y ---- *)
Section CexprInd.
  Variable P : cexpr -> Prop.
  Hypothesis HName : forall s, P (CName s).
  Hypothesis HThis : P CThis.
  Hypothesis HLit : forall s, P (CLit s).
  Hypothesis HMem : forall b s, P b -> P (CMem b s).
  Hypothesis HNot : forall c, P c -> P (CNot c).
  Hypothesis HUn : forall op c, P c -> P (CUn op c).
  Hypothesis HBin : forall op a b, P a -> P b -> P (CBin op a b).
  Hypothesis HCall : forall f args, Forall P args -> P (CCall f args).
  Hypothesis HOther : forall s, P (COther s).
  Fixpoint cexpr_ind' (c : cexpr) : P c :=
    match c with
    | CName s => HName s | CThis => HThis | CLit s => HLit s
    | CMem b s => HMem b s (cexpr_ind' b) | CNot x => HNot x (cexpr_ind' x) | CUn op x => HUn op x (cexpr_ind' x)
    | CBin op a b => HBin op a b (cexpr_ind' a) (cexpr_ind' b)
    | CCall f args => HCall f args ((fix go (l : list cexpr) : Forall P l :=
                                       match l with [] => Forall_nil P | x :: r => Forall_cons x (cexpr_ind' x) (go r) end) args)
    | COther s => HOther s
    end.
End CexprInd.

Lemma cexpr_eqb_refl : forall x, cexpr_eqb x x = true.
Proof.
  induction x using cexpr_ind'; simpl; rewrite ?String.eqb_refl, ?IHx, ?IHx1, ?IHx2; try reflexivity.
  induction H as [|a l Ha Hl IH]; [reflexivity|]. simpl in *. rewrite Ha. exact IH.
Qed.

Lemma cexpr_eqb_eq : forall x y, cexpr_eqb x y = true -> x = y.
Proof.
  induction x using cexpr_ind'; intros y E; destruct y; simpl in E; try discriminate;
    repeat match goal with H : _ && _ = true |- _ => apply andb_prop in H; destruct H end;
    repeat match goal with H : String.eqb _ _ = true |- _ => apply String.eqb_eq in H; subst end;
    try reflexivity.
  - f_equal. apply IHx. assumption.
  - f_equal. apply IHx. assumption.
  - f_equal. apply IHx. assumption.
  - f_equal; [apply IHx1 | apply IHx2]; assumption.
  - f_equal. revert args0 H1. induction H as [|a l Ha Hl IH]; intros [|b m] E; try discriminate; [reflexivity|].
    apply andb_prop in E. destruct E as [E1 E2]. f_equal; [apply Ha; exact E1 | apply IH; exact E2].
Qed.

Theorem cexpr_eqb_spec : forall x y, cexpr_eqb x y = true <-> x = y.
Proof. intros x y. split; [apply cexpr_eqb_eq | intros ->; apply cexpr_eqb_refl]. Qed.

Theorem gcomp_eqb_spec : forall x y, gcomp_eqb x y = true <-> x = y.
Proof.
  intros x y. split.
  - destruct x, y; simpl; intros E; try discriminate;
      repeat match goal with H : _ && _ = true |- _ => apply andb_prop in H; destruct H end;
      repeat match goal with H : cexpr_eqb _ _ = true |- _ => apply cexpr_eqb_eq in H; subst end;
      repeat match goal with H : String.eqb _ _ = true |- _ => apply String.eqb_eq in H; subst end;
      repeat match goal with H : Bool.eqb _ _ = true |- _ => apply Bool.eqb_prop in H; subst end; reflexivity.
  - intros ->. destruct y; simpl; rewrite ?cexpr_eqb_refl, ?String.eqb_refl, ?Bool.eqb_reflx; reflexivity.
Qed.

(* hence an accepted guard level IS (not merely resembles) an error exit or one of the reviewed guards of the route *)
Theorem guard_ok_exact : forall r g, guard_ok r g = true -> forall c, In c g -> c = GErrExit \/ In c (r_guards r).
Proof.
  intros r g H c Hc. destruct (guard_ok_spec r g H c Hc) as [E|[c' [Hin Heq]]]; [left; exact E|].
  right. apply gcomp_eqb_spec in Heq. subst. exact Hin.
Qed.

(* ---- the checker is monotone: more reset code (more writes in the route) can never un-cover a member ---- *)
Lemma existsb_incl : forall {A} (f : A -> bool) l1 l2, incl l1 l2 -> existsb f l1 = true -> existsb f l2 = true.
Proof.
  intros A f l1 l2 Hi H. apply existsb_exists in H. destruct H as [x [Hx Hf]]. apply existsb_exists. exists x. split; [apply Hi; exact Hx | exact Hf].
Qed.

Theorem covered_monotone : forall r ws1 ws2 c f, incl ws1 ws2 -> covered r ws1 c f = true -> covered r ws2 c f = true.
Proof.
  intros r ws1 ws2 c f Hi H. unfold covered in *. apply orb_prop in H. apply orb_true_iff. destruct H as [H|H].
  - left. unfold covered_plain in *. apply orb_prop in H. apply orb_true_iff. destruct H as [H|H].
    + left. eapply existsb_incl; eassumption.
    + right. unfold applies_both in *. apply existsb_exists in H. destruct H as [w1 [Hw1 H]].
      apply existsb_exists. exists w1. split; [apply Hi; exact Hw1|].
      apply andb_prop in H. destruct H as [Ha Hb]. rewrite Ha. simpl.
      destruct (negate_last (w_guard w1)) as [[pre other]|]; [|discriminate].
      apply andb_prop in Hb. destruct Hb as [Hp Hb]. rewrite Hp. simpl. eapply existsb_incl; eassumption.
  - right. unfold covered_special in *. apply existsb_exists in H. destruct H as [s [Hs H]].
    apply existsb_exists. exists s. split; [exact Hs|].
    apply andb_prop in H. destruct H as [Ha Hb]. rewrite Ha. simpl.
    rewrite forallb_forall in *. intros sub Hsub. eapply existsb_incl; [exact Hi | apply Hb; exact Hsub].
Qed.

(* ... and reviewing more guards never un-covers a member either *)
Lemma guard_ok_more_guards : forall r1 r2 g, r_objs r1 = r_objs r2 -> incl (r_guards r1) (r_guards r2) ->
  guard_ok r1 g = true -> guard_ok r2 g = true.
Proof.
  intros r1 r2 g _ Hi H. unfold guard_ok in *. rewrite forallb_forall in *. intros c Hc. specialize (H c Hc).
  destruct c; try exact H; eapply existsb_incl; eassumption.
Qed.

(* a member on no route's write set and not persistent is reported: the list of uncovered members is complete *)
Theorem uncovered_complete : forall cs fs r c f,
  In r routes -> In c (r_classes r) -> In f (fields_of cs c) ->
  covered r (route_writes fs r) c f = false -> is_persistent r c f = false ->
  In (r_name r, c, f) (uncovered cs fs).
Proof.
  intros cs fs r c f Hr Hc Hf Hcov Hper. unfold uncovered. apply in_flat_map. exists r. split; [exact Hr|].
  apply in_flat_map. exists c. split; [exact Hc|]. apply in_map_iff. exists f. split; [reflexivity|].
  apply filter_In. split; [exact Hf|]. unfold field_ok. rewrite Hcov, Hper. reflexivity.
Qed.

(* ---- the closure of a FollowAll root is complete on data for which reach_closed holds ---- *)
Lemma func_exists_calls : forall fs n, func_exists fs n = false -> calls_of fs n = [].
Proof.
  intros fs n H. unfold calls_of, find_func. unfold func_exists in H.
  destruct (find (fun f => String.eqb (f_name f) n) fs) as [f|] eqn:E; [|reflexivity].
  apply find_some in E. destruct E as [Hin Heq]. exfalso.
  assert (existsb (fun f0 => String.eqb (f_name f0) n) fs = true) by (apply existsb_exists; exists f; split; assumption). congruence.
Qed.

Lemma closed_complete : forall fs l, closedb fs l = true ->
  forall a b, calls_star fs a b -> In a l -> func_exists fs b = true -> In b l.
Proof.
  intros fs l Hc a b Hs. induction Hs as [a|a x b Hax Hxb IH]; intros Ha Hb; [exact Ha|].
  destruct (func_exists fs x) eqn:Ex.
  - apply IH; [|exact Hb]. unfold closedb in Hc. rewrite forallb_forall in Hc. specialize (Hc a Ha).
    rewrite forallb_forall in Hc. specialize (Hc x Hax). rewrite Ex in Hc. simpl in Hc. apply mem_In. exact Hc.
  - (* x is not an extracted function: it has no call edges, so b = x, which contradicts func_exists b *)
    exfalso. inversion Hxb as [|x' y b' Hxy _]; subst.
    + congruence.
    + unfold callee in Hxy. rewrite (func_exists_calls fs x Ex) in Hxy. destruct Hxy.
Qed.

Theorem route_closure_complete : forall fs, reach_closed fs = true ->
  forall r rt, In r routes -> In rt (r_roots r) -> rt_follow rt = FollowAll ->
  forall n, calls_star fs (rt_fn rt) n -> func_exists fs n = true -> In n (route_funcs fs r).
Proof.
  intros fs H r rt Hr Hrt Hf n Hs Hn. unfold reach_closed in H. rewrite forallb_forall in H. specialize (H r Hr).
  rewrite forallb_forall in H. specialize (H rt Hrt). rewrite Hf in H. apply andb_prop in H. destruct H as [Hroot Hcl].
  unfold route_funcs. apply in_flat_map. exists rt. split; [exact Hrt|].
  apply (closed_complete fs (root_funcs fs rt) Hcl (rt_fn rt) n Hs); [apply mem_In; exact Hroot | exact Hn].
Qed.

(* ------------------------------------------------------------------------------------------------------------------------------
   Reset VALUES: soundness of the boolean checker check_values *)
Lemma lookup_init_in : forall is c f e, lookup_init is c f = Some e -> In (mk_init c f e) is.
Proof.
  induction is as [|i r IH]; simpl; intros c f e H; [discriminate|].
  destruct (String.eqb (i_class i) c && String.eqb (i_field i) f) eqn:E.
  - apply andb_true_iff in E. destruct E as [E1 E2]. apply String.eqb_eq in E1, E2. inversion H. subst.
    left. destruct i; reflexivity.
  - right. apply IH. exact H.
Qed.

(* what "the same value" means: the identical expression, or an empty-brace initialiser against 0 / nullptr *)
Theorem same_value_spec : forall i v,
  same_value i v = true <-> i = v \/ (i = CLit "{}" /\ (v = CLit "0" \/ v = CLit "nullptr")).
Proof.
  intros i v. unfold same_value, zero_value. rewrite orb_true_iff, andb_true_iff, orb_true_iff, !cexpr_eqb_spec. tauto.
Qed.

Lemma excepted_spec : forall v, excepted v = true <->
  exists x, In x value_exceptions /\ x_func x = v_func v /\ x_class x = v_class v /\ x_field x = v_field v.
Proof.
  intros v. unfold excepted. rewrite existsb_exists. split.
  - intros [x [Hin H]]. exists x. split; [exact Hin|]. unfold exc_matches in H.
    apply andb_true_iff in H. destruct H as [H H3]. apply andb_true_iff in H. destruct H as [H1 H2].
    apply String.eqb_eq in H1, H2, H3. auto.
  - intros [x [Hin [H1 [H2 H3]]]]. exists x. split; [exact Hin|]. unfold exc_matches. rewrite H1, H2, H3, !String.eqb_refl. reflexivity.
Qed.

(* the obligation proper: an assignment of a reviewed pure reset function that is not a reviewed exception writes the recorded
   initial value of the member *)
Theorem check_values_sound : forall is vs, check_values is vs = true ->
  forall v, In v vs -> In (v_func v) value_funcs -> excepted v = false ->
  exists i, In (mk_init (v_class v) (v_field v) i) is /\ lookup_init is (v_class v) (v_field v) = Some i /\ same_value i (v_val v) = true.
Proof.
  intros is vs H v Hin Hf Hx. unfold check_values in H. apply andb_true_iff in H. destruct H as [H _].
  rewrite forallb_forall in H. specialize (H v Hin). unfold val_ok in H.
  apply mem_In in Hf. rewrite Hf, Hx in H. simpl in H. unfold initial_value_written in H.
  destruct (lookup_init is (v_class v) (v_field v)) as [i|] eqn:E; [|discriminate].
  exists i. split; [apply lookup_init_in; exact E|]. split; [reflexivity | exact H].
Qed.

(* the exceptions are real: each names an extracted assignment of a listed function whose value is NOT the initial value *)
Theorem value_exceptions_real : forall is vs, check_values is vs = true ->
  forall x, In x value_exceptions ->
  In (x_func x) value_funcs /\
  exists v, In v vs /\ v_func v = x_func x /\ v_class v = x_class x /\ v_field v = x_field x /\ initial_value_written is v = false.
Proof.
  intros is vs H x Hx. unfold check_values in H. apply andb_true_iff in H. destruct H as [_ H].
  unfold values_hygiene in H. apply andb_true_iff in H. destruct H as [_ H].
  rewrite forallb_forall in H. specialize (H x Hx). apply andb_true_iff in H. destruct H as [Hm He].
  split; [apply mem_In; exact Hm|]. apply existsb_exists in He. destruct He as [v [Hin Hv]].
  apply andb_true_iff in Hv. destruct Hv as [Hmatch Hneg]. exists v. split; [exact Hin|].
  unfold exc_matches in Hmatch. apply andb_true_iff in Hmatch. destruct Hmatch as [Hm2 H3]. apply andb_true_iff in Hm2. destruct Hm2 as [H1 H2].
  apply String.eqb_eq in H1, H2, H3. apply negb_true_iff in Hneg. auto.
Qed.

(* every listed function still has an extracted assignment (a renamed / emptied reset function is noticed) *)
Theorem value_funcs_present : forall is vs, check_values is vs = true ->
  forall f, In f value_funcs -> exists v, In v vs /\ v_func v = f.
Proof.
  intros is vs H f Hf. unfold check_values in H. apply andb_true_iff in H. destruct H as [_ H].
  unfold values_hygiene in H. apply andb_true_iff in H. destruct H as [H _].
  rewrite forallb_forall in H. specialize (H f Hf). apply existsb_exists in H. destruct H as [v [Hin Hv]].
  exists v. split; [exact Hin|]. apply String.eqb_eq in Hv. exact Hv.
Qed.

(* completeness of the report: bad_values lists exactly the assignments that fail val_ok *)
Theorem bad_values_complete : forall is vs, bad_values is vs = [] -> forallb (val_ok is) vs = true.
Proof.
  intros is vs. unfold bad_values. induction vs as [|v r IH]; simpl; [reflexivity|].
  destruct (val_ok is v); simpl; [exact IH | discriminate].
Qed.

(* ------------------------------------------------------------------------------------------------------------------------------
   Set-up ... tear-down functions *)

(* last_val really is the value of the LAST matching assignment of the sequence *)
Definition val_matches (fn c f : string) (v : val_decl) : bool :=
  String.eqb (v_func v) fn && String.eqb (v_class v) c && String.eqb (v_field v) f.

Lemma last_val_app : forall vs1 vs2 fn c f acc,
  last_val (vs1 ++ vs2)%list fn c f acc = last_val vs2 fn c f (last_val vs1 fn c f acc).
Proof. induction vs1 as [|v r IH]; simpl; intros; [reflexivity | apply IH]. Qed.

Lemma last_val_none_matches : forall vs fn c f acc,
  forallb (fun v => negb (val_matches fn c f v)) vs = true -> last_val vs fn c f acc = acc.
Proof.
  induction vs as [|v r IH]; simpl; intros fn c f acc H; [reflexivity|].
  apply andb_true_iff in H. destruct H as [H1 H2]. apply negb_true_iff in H1. unfold val_matches in H1. rewrite H1. apply IH. exact H2.
Qed.

Theorem last_val_is_last : forall vs fn c f e,
  last_val vs fn c f None = Some e ->
  exists vs1 v vs2, vs = (vs1 ++ v :: vs2)%list /\ val_matches fn c f v = true /\ v_val v = e /\
                    forallb (fun w => negb (val_matches fn c f w)) vs2 = true.
Proof.
  intros vs fn c f. induction vs as [|v r IH] using rev_ind; intros e H; [discriminate|].
  rewrite last_val_app in H. simpl in H.
  destruct (String.eqb (v_func v) fn && String.eqb (v_class v) c && String.eqb (v_field v) f) eqn:E.
  - inversion H. subst. exists r, v, []. repeat split; auto.
  - destruct (IH e H) as [vs1 [v0 [vs2 [Hr [Hm [Hv Hn]]]]]]. exists vs1, v0, (vs2 ++ [v])%list. repeat split; auto.
    + rewrite Hr, <- app_assoc. reflexivity.
    + rewrite forallb_app, Hn. simpl. unfold val_matches. rewrite E. reflexivity.
Qed.

Lemma unconditional_assign_spec : forall fs fn c f, unconditional_assign fs fn c f = true ->
  exists w, In w (writes_of fs fn) /\ w_class w = c /\ w_field w = f /\ w_sub w = "" /\ w_how w = "assign" /\ w_obj w = "this" /\ w_guard w = [].
Proof.
  intros fs fn c f H. unfold unconditional_assign in H. apply existsb_exists in H. destruct H as [w [Hin H]].
  repeat (apply andb_true_iff in H; let H2 := fresh "H" in destruct H as [H H2]).
  exists w. repeat match goal with H : String.eqb _ _ = true |- _ => apply String.eqb_eq in H end.
  destruct (w_guard w); [|discriminate]. repeat split; auto.
Qed.

(* the obligation proper: for every member a set-up/tear-down function assigns, its last assignment in source order writes the
   recorded initial value, and an unconditional assignment of the member (on `this`) exists in the function *)
Theorem check_teardown_sound : forall is seq fs, check_teardown is seq fs = true ->
  forall v, In v seq -> In (v_func v) teardown_funcs ->
  exists i l, lookup_init is (v_class v) (v_field v) = Some i /\
              last_val seq (v_func v) (v_class v) (v_field v) None = Some l /\ same_value i l = true /\
              unconditional_assign fs (v_func v) (v_class v) (v_field v) = true.
Proof.
  intros is seq fs H v Hin Hf. unfold check_teardown in H. apply andb_true_iff in H. destruct H as [H _].
  rewrite forallb_forall in H. specialize (H v Hin). unfold teardown_val_ok in H.
  apply mem_In in Hf. rewrite Hf in H. simpl in H. apply andb_true_iff in H. destruct H as [H Hu].
  destruct (lookup_init is (v_class v) (v_field v)) as [i|]; [|discriminate].
  destruct (last_val seq (v_func v) (v_class v) (v_field v) None) as [l|]; [|discriminate].
  exists i, l. auto.
Qed.

Theorem teardown_funcs_present : forall is seq fs, check_teardown is seq fs = true ->
  forall f, In f teardown_funcs -> exists v, In v seq /\ v_func v = f.
Proof.
  intros is seq fs H f Hf. unfold check_teardown in H. apply andb_true_iff in H. destruct H as [_ H].
  rewrite forallb_forall in H. specialize (H f Hf). apply existsb_exists in H. destruct H as [v [Hin Hv]].
  exists v. split; [exact Hin | apply String.eqb_eq; exact Hv].
Qed.

(* ---- a small execution model for the assignments of one function: a store maps (class, member) to the expression last assigned
   (None = untouched); the function's whole-member assignments are executed in source order. `last_val` is exactly the final
   content of the store, for ANY sequence and ANY starting store. *)
Definition store := string -> string -> option cexpr.
Definition assign (s : store) (c f : string) (e : cexpr) : store :=
  fun c' f' => if String.eqb c c' && String.eqb f f' then Some e else s c' f'.
Fixpoint exec_fn (fn : string) (vs : list val_decl) (s : store) : store :=
  match vs with
  | [] => s
  | v :: r => exec_fn fn r (if String.eqb (v_func v) fn then assign s (v_class v) (v_field v) (v_val v) else s)
  end.

Theorem exec_fn_last : forall vs fn s c f, exec_fn fn vs s c f = last_val vs fn c f (s c f).
Proof.
  induction vs as [|v r IH]; simpl; intros fn s c f; [reflexivity|].
  rewrite IH. f_equal. destruct (String.eqb (v_func v) fn); simpl; [|reflexivity].
  unfold assign. reflexivity.
Qed.

Lemma last_val_acc : forall vs fn c f acc,
  last_val vs fn c f acc = match last_val vs fn c f None with Some e => Some e | None => acc end.
Proof.
  induction vs as [|v r IH]; simpl; intros fn c f acc; [reflexivity|].
  destruct (String.eqb (v_func v) fn && String.eqb (v_class v) c && String.eqb (v_field v) f).
  - rewrite (IH fn c f (Some (v_val v))). destruct (last_val r fn c f None); reflexivity.
  - apply IH.
Qed.

(* hence: executing the assignments of a checked set-up/tear-down function from ANY store leaves every member the function
   assigns at (an expression equal to) its initial value *)
Theorem teardown_final_store : forall is seq fs, check_teardown is seq fs = true ->
  forall v, In v seq -> In (v_func v) teardown_funcs ->
  forall s, exists i l, lookup_init is (v_class v) (v_field v) = Some i /\
                        exec_fn (v_func v) seq s (v_class v) (v_field v) = Some l /\ same_value i l = true.
Proof.
  intros is seq fs H v Hin Hf s. destruct (check_teardown_sound is seq fs H v Hin Hf) as [i [l [Hi [Hl [Hs _]]]]].
  exists i, l. split; [exact Hi|]. split; [|exact Hs]. rewrite exec_fn_last, last_val_acc, Hl. reflexivity.
Qed.

(* pure reset functions: WHICHEVER of the function's extracted assignments execute, in WHATEVER order (any sequence drawn from the
   extracted assignments: branches taken or not, loops repeated), a member the function wrote holds its initial value afterwards
   (reviewed exceptions excluded) -- no path analysis is needed because every single assignment writes the initial value *)
Theorem reset_fn_final_store : forall is vs, check_values is vs = true ->
  forall fn, In fn value_funcs ->
  forall path, incl path vs -> (forall v, In v path -> v_func v = fn -> excepted v = false) ->
  forall s c f l, exec_fn fn path s c f = Some l ->
    s c f = Some l \/ exists i, lookup_init is c f = Some i /\ same_value i l = true.
Proof.
  intros is vs H fn Hfn path Hincl Hexc s c f l Hex. rewrite exec_fn_last, last_val_acc in Hex.
  destruct (last_val path fn c f None) as [e|] eqn:E; [|left; exact Hex].
  right. inversion Hex. subst e. destruct (last_val_is_last path fn c f l E) as [p1 [v [p2 [Hp [Hm [Hv _]]]]]].
  unfold val_matches in Hm. apply andb_true_iff in Hm. destruct Hm as [Hm H3]. apply andb_true_iff in Hm. destruct Hm as [H1 H2].
  apply String.eqb_eq in H1, H2, H3.
  assert (Hin : In v path) by (rewrite Hp; apply in_or_app; right; left; reflexivity).
  destruct (check_values_sound is vs H v (Hincl v Hin)) as [i [_ [Hi Hs]]].
  - rewrite H1. exact Hfn.
  - apply Hexc; assumption.
  - exists i. rewrite <- H2, <- H3, <- Hv. split; assumption.
Qed.

(* frame condition of the execution model: a member none of the executed assignments names keeps its content *)
Theorem exec_fn_frame : forall vs fn s c f,
  forallb (fun v => negb (val_matches fn c f v)) vs = true -> exec_fn fn vs s c f = s c f.
Proof. intros. rewrite exec_fn_last. apply last_val_none_matches. assumption. Qed.

(* ... and assignments of OTHER functions never count *)
Theorem exec_fn_other_functions : forall vs fn s c f,
  forallb (fun v => negb (String.eqb (v_func v) fn)) vs = true -> exec_fn fn vs s c f = s c f.
Proof.
  intros vs fn s c f H. apply exec_fn_frame. rewrite forallb_forall in *. intros v Hv. specialize (H v Hv).
  unfold val_matches. apply negb_true_iff in H. rewrite H. reflexivity.
Qed.

(* the report is exact in both directions: an assignment is listed iff it fails val_ok *)
Theorem bad_values_exact : forall is vs fn c f,
  In (fn, c, f) (bad_values is vs) <-> exists v, In v vs /\ val_ok is v = false /\ v_func v = fn /\ v_class v = c /\ v_field v = f.
Proof.
  intros is vs fn c f. unfold bad_values. rewrite in_map_iff. split.
  - intros [v [Heq Hin]]. apply filter_In in Hin. destruct Hin as [Hin Hb]. apply negb_true_iff in Hb.
    inversion Heq. exists v. auto.
  - intros [v [Hin [Hb [H1 [H2 H3]]]]]. exists v. split; [rewrite H1, H2, H3; reflexivity|].
    apply filter_In. split; [exact Hin | rewrite Hb; reflexivity].
Qed.

Theorem bad_teardown_exact : forall is seq fs fn c f,
  In (fn, c, f) (bad_teardown is seq fs) <->
  exists v, In v seq /\ teardown_val_ok is seq fs v = false /\ v_func v = fn /\ v_class v = c /\ v_field v = f.
Proof.
  intros is seq fs fn c f. unfold bad_teardown. rewrite in_map_iff. split.
  - intros [v [Heq Hin]]. apply filter_In in Hin. destruct Hin as [Hin Hb]. apply negb_true_iff in Hb.
    inversion Heq. exists v. auto.
  - intros [v [Hin [Hb [H1 [H2 H3]]]]]. exists v. split; [rewrite H1, H2, H3; reflexivity|].
    apply filter_In. split; [exact Hin | rewrite Hb; reflexivity].
Qed.

(* the coverage idiom `assign`, inside a pure reset function, always comes with a checked value: every whole-member assign-write of
   such a function has a value row, and every non-excepted value row of the function is the initial value *)
Theorem assign_write_has_initial_value : forall is fs vs,
  assign_writes_have_values fs vs = true -> check_values is vs = true ->
  forall fn w, In fn value_funcs -> In w (writes_of fs fn) -> w_how w = "assign" -> w_sub w = "" ->
  exists v, In v vs /\ v_func v = fn /\ v_class v = w_class w /\ v_field v = w_field w /\
            (excepted v = true \/ exists i, lookup_init is (w_class w) (w_field w) = Some i /\ same_value i (v_val v) = true).
Proof.
  intros is fs vs Hc Hv fn w Hfn Hw Hhow Hsub. unfold assign_writes_have_values in Hc. rewrite forallb_forall in Hc.
  specialize (Hc fn (in_or_app _ _ _ (or_introl Hfn))). rewrite forallb_forall in Hc. specialize (Hc w Hw).
  rewrite Hhow, Hsub in Hc. simpl in Hc. unfold has_val in Hc. apply existsb_exists in Hc. destruct Hc as [v [Hin Hm]].
  apply andb_true_iff in Hm. destruct Hm as [Hm H3]. apply andb_true_iff in Hm. destruct Hm as [H1 H2].
  apply String.eqb_eq in H1, H2, H3. exists v. repeat split; auto.
  destruct (excepted v) eqn:E; [left; reflexivity | right].
  destruct (check_values_sound is vs Hv v Hin) as [i [_ [Hi Hs]]]; [rewrite H1; exact Hfn | exact E |].
  exists i. rewrite <- H2, <- H3. split; assumption.
Qed.

(* functions that reset one of their arguments *)
Theorem check_object_values_sound : forall is vo, check_object_values is vo = true ->
  forall o v, In (o, v) vo -> In (v_func v, o) value_obj_funcs ->
  exists i, lookup_init is (v_class v) (v_field v) = Some i /\ same_value i (v_val v) = true.
Proof.
  intros is vo H o v Hin Hl. unfold check_object_values in H. apply andb_true_iff in H. destruct H as [H _].
  rewrite forallb_forall in H. specialize (H (o, v) Hin). simpl in H.
  assert (L : obj_listed o v = true).
  { unfold obj_listed. apply existsb_exists. exists (v_func v, o). split; [exact Hl|]. simpl. rewrite !String.eqb_refl. reflexivity. }
  rewrite L in H. simpl in H. unfold initial_value_written in H.
  destruct (lookup_init is (v_class v) (v_field v)) as [i|]; [|discriminate]. exists i. auto.
Qed.

Theorem value_obj_funcs_present : forall is vo, check_object_values is vo = true ->
  forall fn o, In (fn, o) value_obj_funcs -> exists v, In (o, v) vo /\ v_func v = fn.
Proof.
  intros is vo H fn o Hin. unfold check_object_values in H. apply andb_true_iff in H. destruct H as [_ H].
  rewrite forallb_forall in H. specialize (H (fn, o) Hin). apply existsb_exists in H. destruct H as [[o' v] [Hv Hm]].
  simpl in Hm. apply andb_true_iff in Hm. destruct Hm as [H1 H2]. apply String.eqb_eq in H1, H2. subst.
  exists v. auto.
Qed.

(* ------------------------------------------------------------------------------------------------------------------------------
   Round 7: sequence-level lifts and completeness directions of the value obligation *)

(* executing a concatenation = executing the parts one after the other (any sequences, any store) *)
Theorem exec_fn_app : forall fn p q s, exec_fn fn (p ++ q)%list s = exec_fn fn q (exec_fn fn p s).
Proof. intros fn p. induction p as [|v r IH]; simpl; intros q s; [reflexivity | apply IH]. Qed.

(* running the same assignments AGAIN changes nothing: a reset that is repeated (reset twice, detach after reset ...) leaves the
   store it left the first time -- for ANY sequence of assignments and ANY store *)
Theorem exec_fn_idempotent : forall fn p s c f, exec_fn fn (p ++ p)%list s c f = exec_fn fn p s c f.
Proof.
  intros fn p s c f. rewrite exec_fn_app, !exec_fn_last.
  rewrite (last_val_acc p fn c f (last_val p fn c f (s c f))), (last_val_acc p fn c f (s c f)).
  destruct (last_val p fn c f None); reflexivity.
Qed.

(* ... and what ran BEFORE a sequence is irrelevant for the members the sequence assigns (history independence at store level) *)
Theorem exec_fn_history_irrelevant : forall fn p s1 s2 c f e,
  last_val p fn c f None = Some e -> exec_fn fn p s1 c f = exec_fn fn p s2 c f.
Proof. intros fn p s1 s2 c f e H. rewrite !exec_fn_last, (last_val_acc p fn c f (s1 c f)), (last_val_acc p fn c f (s2 c f)), H. reflexivity. Qed.

(* completeness of lookup_init: it finds the FIRST entry of the member, and answers None exactly when there is none *)
Theorem lookup_init_none : forall is c f,
  lookup_init is c f = None <-> forall e, ~ In (mk_init c f e) is.
Proof.
  induction is as [|i r IH]; simpl; intros c f.
  - split; [intros _ e H; exact H | reflexivity].
  - destruct (String.eqb (i_class i) c && String.eqb (i_field i) f) eqn:E.
    + split; [discriminate|]. intros H. exfalso. apply andb_true_iff in E. destruct E as [E1 E2]. apply String.eqb_eq in E1, E2.
      apply (H (i_val i)). left. destruct i; simpl in *; subst; reflexivity.
    + rewrite IH. split.
      * intros H e [Hi | Hr]; [|exact (H e Hr)]. subst i. simpl in E. rewrite !String.eqb_refl in E. discriminate.
      * intros H e Hr. apply (H e). right. exact Hr.
Qed.

(* both directions of the per-assignment verdict: val_ok holds EXACTLY when the assignment is outside the reviewed functions, is a
   reviewed exception, or writes the recorded initial value *)
Theorem val_ok_spec : forall is v,
  val_ok is v = true <->
  (~ In (v_func v) value_funcs \/ excepted v = true \/
   exists i, lookup_init is (v_class v) (v_field v) = Some i /\ same_value i (v_val v) = true).
Proof.
  intros is v. unfold val_ok, initial_value_written. rewrite !orb_true_iff, negb_true_iff. split.
  - intros [[H | H] | H].
    + left. intros Hin. apply mem_In in Hin. rewrite Hin in H. discriminate.
    + right. left. exact H.
    + right. right. destruct (lookup_init is (v_class v) (v_field v)) as [i|]; [exists i; auto | discriminate].
  - intros [H | [H | [i [Hi Hs]]]].
    + left. left. destruct (mem (v_func v) value_funcs) eqn:E; [|reflexivity]. exfalso. apply H. apply mem_In. exact E.
    + left. right. exact H.
    + right. rewrite Hi. exact Hs.
Qed.

(* completeness of the whole check: if every assignment satisfies the specification above and the lists are live, the checker
   accepts (so a refusal always has a reason expressible in the specification) *)
Theorem check_values_complete : forall is vs,
  (forall v, In v vs -> ~ In (v_func v) value_funcs \/ excepted v = true \/
             exists i, lookup_init is (v_class v) (v_field v) = Some i /\ same_value i (v_val v) = true) ->
  values_hygiene is vs = true -> check_values is vs = true.
Proof.
  intros is vs H Hh. unfold check_values. rewrite Hh, andb_true_r. apply forallb_forall. intros v Hv. apply val_ok_spec. exact (H v Hv).
Qed.

(* C16 -- soundness of the reset-coverage checker of ResetSpec.v and the generic "all observable fields reset => equal to
   initial" lemma that connects the coverage obligation with the lifecycle model. *)
From Coq Require Import String List Bool Arith Lia.
From Verif Require Import Lifecycle.ResetSpec.
Import ListNotations.
Local Open Scope string_scope.

(* ------------------------------------------------------------------ membership *)
Lemma mem_In : forall s l, mem s l = true <-> In s l.
Proof.
  intros s l. unfold mem. rewrite existsb_exists. split.
  - intros [x [Hin Heq]]. apply String.eqb_eq in Heq. subst. exact Hin.
  - intros Hin. exists s. split; [exact Hin | apply String.eqb_refl].
Qed.

(* ------------------------------------------------------------------ call graph closure *)
(* [callee fs a b]: function a has a call to b in the generated data *)
Definition callee (fs : list func_decl) (a b : string) : Prop := In b (calls_of fs a).

Inductive calls_star (fs : list func_decl) : string -> string -> Prop :=
| cs_refl : forall a, calls_star fs a a
| cs_step : forall a b c, callee fs a b -> calls_star fs b c -> calls_star fs a c.

(* invariant of the work list: everything seen or still to do is reachable from one of the start names *)
Lemma reach_sound_gen : forall fs starts fuel todo seen,
  (forall n, In n todo -> exists s, In s starts /\ calls_star fs s n) ->
  (forall n, In n seen -> exists s, In s starts /\ calls_star fs s n) ->
  forall n, In n (reach fs fuel todo seen) -> exists s, In s starts /\ calls_star fs s n.
Proof.
  intros fs starts fuel. induction fuel as [|k IH]; intros todo seen Ht Hs n Hn; simpl in Hn.
  - apply Hs; exact Hn.
  - destruct todo as [|m rest].
    + apply Hs; exact Hn.
    + destruct (mem m seen) eqn:Hm.
      * eapply IH; [| exact Hs | exact Hn]. intros x Hx. apply Ht. right; exact Hx.
      * eapply IH; [| | exact Hn].
        -- intros x Hx. apply in_app_or in Hx. destruct Hx as [Hx|Hx].
           ++ destruct (Ht m (or_introl eq_refl)) as [s [Hs1 Hs2]]. exists s. split; [exact Hs1|].
              clear - Hs2 Hx. induction Hs2.
              ** eapply cs_step; [exact Hx | apply cs_refl].
              ** eapply cs_step; [exact H | apply IHHs2; exact Hx].
           ++ apply Ht. right; exact Hx.
        -- intros x [Hx|Hx]; [subst; apply Ht; left; reflexivity | apply Hs; exact Hx].
Qed.

Lemma reach_sound : forall fs fuel starts n,
  In n (reach fs fuel starts []) -> exists s, In s starts /\ calls_star fs s n.
Proof.
  intros. eapply reach_sound_gen; [| | exact H].
  - intros x Hx. exists x. split; [exact Hx | apply cs_refl].
  - intros x [].
Qed.

(* every function whose writes count for a route is a root of the route or reachable from a root through call edges *)
Lemma route_funcs_sound : forall fs r n,
  In n (route_funcs fs r) -> exists rt, In rt (r_roots r) /\ calls_star fs (rt_fn rt) n.
Proof.
  intros fs r n H. unfold route_funcs in H. apply in_flat_map in H. destruct H as [rt [Hrt Hn]].
  exists rt. split; [exact Hrt|]. unfold root_funcs in Hn. destruct (rt_follow rt).
  - apply reach_sound in Hn. destruct Hn as [s [[Hs|[]] Hc]]. subst. exact Hc.
  - destruct Hn as [Hn|Hn]; [subst; apply cs_refl|].
    apply reach_sound in Hn. destruct Hn as [s [Hs Hc]].
    apply filter_In in Hs. destruct Hs as [_ Hs]. apply mem_In in Hs.
    eapply cs_step; [exact Hs | exact Hc].
  - destruct Hn as [Hn|[]]. subst. apply cs_refl.
Qed.

(* ------------------------------------------------------------------ what "covered" means *)
Lemma write_is_spec : forall c f sub how w, write_is c f sub how w = true ->
  w_class w = c /\ w_field w = f /\ w_sub w = sub /\ w_how w = how.
Proof.
  unfold write_is. intros. repeat (apply andb_prop in H; destruct H as [H ?]).
  apply String.eqb_eq in H, H0, H1, H2. auto.
Qed.

(* the write hits the object being reset, and every level of its nesting is an error exit or a reviewed guard of the route *)
Definition applies_prop (r : route) (w : write) : Prop :=
  In (w_obj w) (r_objs r) /\ guard_ok r (w_guard w) = true.

Lemma applies_spec : forall r w, applies r w = true -> applies_prop r w.
Proof.
  unfold applies, applies_prop. intros r w H. apply andb_prop in H. destruct H as [H1 H2].
  apply mem_In in H1. split; assumption.
Qed.

(* what guard_ok means, level by level *)
Lemma guard_ok_spec : forall r g, guard_ok r g = true ->
  forall c, In c g -> c = GErrExit \/ exists c', In c' (r_guards r) /\ gcomp_eqb c c' = true.
Proof.
  intros r g H c Hc. unfold guard_ok in H. rewrite forallb_forall in H. specialize (H c Hc).
  destruct c; try (right; apply existsb_exists in H; destruct H as [c' [H1 H2]]; exists c'; split; assumption).
  left; reflexivity.
Qed.

Definition plain_write (c f : string) (w : write) : Prop :=
  w_class w = c /\ w_field w = f /\ w_sub w = "" /\ In (w_how w) reset_hows.

Lemma plain_sel_spec : forall c f w, plain_sel c f w = true -> plain_write c f w.
Proof.
  unfold plain_sel, plain_write. intros c f w H. repeat (apply andb_prop in H; destruct H as [H ?]).
  apply String.eqb_eq in H, H1, H2. apply mem_In in H0. auto.
Qed.

(* a covered member has, in the write set of the route,
   (1) a resetting write of the whole member applied to the object being reset (unconditional / reviewed guard), or
   (2) two such writes in the two branches of one condition, or
   (3) ALL sub-writes of one reviewed special idiom, each applied to the object being reset *)
Lemma covered_spec : forall r ws c f, covered r ws c f = true ->
  (exists w, In w ws /\ plain_write c f w /\ applies_prop r w) \/
  (exists w1 w2 pre other, In w1 ws /\ In w2 ws /\ plain_write c f w1 /\ plain_write c f w2 /\
                 In (w_obj w1) (r_objs r) /\ In (w_obj w2) (r_objs r) /\
                 negate_last (w_guard w1) = Some (pre, other) /\ guard_ok r pre = true /\ guard_eqb (w_guard w2) other = true) \/
  (exists s, In s specials /\ sp_class s = c /\ sp_field s = f /\
             forall sub, In sub (sp_subs s) ->
               exists w, In w ws /\ w_class w = c /\ w_field w = f /\ w_sub w = sub /\ w_how w = sp_how s /\ applies_prop r w).
Proof.
  intros r ws c f H. unfold covered in H. apply orb_prop in H. destruct H as [H|H].
  - unfold covered_plain in H. apply orb_prop in H. destruct H as [H|H].
    + left. apply existsb_exists in H. destruct H as [w [Hw H]]. apply andb_prop in H. destruct H as [H1 H2].
      exists w. split; [exact Hw|]. split; [apply plain_sel_spec; exact H1 | apply applies_spec; exact H2].
    + right. left. unfold applies_both in H. apply existsb_exists in H. destruct H as [w1 [Hw1 H]].
      apply andb_prop in H. destruct H as [H H2]. apply andb_prop in H. destruct H as [Hs1 Ho1].
      destruct (negate_last (w_guard w1)) as [[pre other]|] eqn:Hn; [|discriminate].
      apply andb_prop in H2. destruct H2 as [Hpre H2].
      apply existsb_exists in H2. destruct H2 as [w2 [Hw2 H2]].
      apply andb_prop in H2. destruct H2 as [H2 Hg]. apply andb_prop in H2. destruct H2 as [Hs2 Ho2].
      exists w1, w2, pre, other. apply mem_In in Ho1, Ho2.
      split; [exact Hw1|]. split; [exact Hw2|]. split; [apply plain_sel_spec; exact Hs1|]. split; [apply plain_sel_spec; exact Hs2|].
      split; [exact Ho1|]. split; [exact Ho2|]. split; [exact Hn|]. split; assumption.
  - right. right. unfold covered_special in H. apply existsb_exists in H. destruct H as [s [Hs H]].
    repeat (apply andb_prop in H; destruct H as [H ?]).
    apply String.eqb_eq in H, H1. exists s. repeat split; auto.
    intros sub Hsub. rewrite forallb_forall in H0. specialize (H0 sub Hsub).
    apply existsb_exists in H0. destruct H0 as [w [Hw Hw2]]. apply andb_prop in Hw2. destruct Hw2 as [Hw2 Ha].
    apply write_is_spec in Hw2. apply applies_spec in Ha. exists w. tauto.
Qed.

Lemma route_writes_sound : forall fs r w, In w (route_writes fs r) ->
  exists n rt, In rt (r_roots r) /\ calls_star fs (rt_fn rt) n /\ In w (writes_of fs n).
Proof.
  intros fs r w H. unfold route_writes in H. apply in_flat_map in H. destruct H as [n [Hn Hw]].
  destruct (route_funcs_sound fs r n Hn) as [rt [H1 H2]]. exists n, rt. auto.
Qed.

(* ------------------------------------------------------------------ soundness of check_all *)
Lemma check_all_sound : forall cs fs, check_all cs fs = true ->
  forall r c f, In r routes -> In c (r_classes r) -> In f (fields_of cs c) ->
    covered r (route_writes fs r) c f = true \/ is_persistent r c f = true.
Proof.
  intros cs fs H r c f Hr Hc Hf. unfold check_all in H. apply andb_prop in H. destruct H as [H _].
  rewrite forallb_forall in H. specialize (H r Hr). unfold check_route in H.
  rewrite forallb_forall in H. specialize (H c Hc). rewrite forallb_forall in H. specialize (H f Hf).
  unfold field_ok in H. apply orb_prop in H. exact H.
Qed.

Lemma check_all_uncovered_nil : forall cs fs, check_all cs fs = true -> uncovered cs fs = [].
Proof.
  intros cs fs H. unfold check_all in H. apply andb_prop in H. destruct H as [H _].
  unfold uncovered. induction routes as [|r rs IH]; simpl; [reflexivity|].
  simpl in H. apply andb_prop in H. destruct H as [Hr Hrs]. rewrite (IH Hrs), app_nil_r.
  unfold check_route in Hr. clear - Hr. induction (r_classes r) as [|c cl IHc]; simpl; [reflexivity|].
  simpl in Hr. apply andb_prop in Hr. destruct Hr as [Hc Hcl]. rewrite (IHc Hcl), app_nil_r.
  clear - Hc. induction (fields_of cs c) as [|f fl IHf]; simpl; [reflexivity|].
  simpl in Hc. apply andb_prop in Hc. destruct Hc as [Hf Hfl]. rewrite Hf. simpl. apply IHf; exact Hfl.
Qed.

Lemma check_all_must_call : forall cs fs, check_all cs fs = true ->
  forall a b, In (a, b) must_call -> callee fs a b.
Proof.
  intros cs fs H a b Hab. unfold check_all in H. apply andb_prop in H. destruct H as [_ H].
  unfold hygiene in H. apply andb_prop in H. destruct H as [_ H].
  rewrite forallb_forall in H. specialize (H (a, b) Hab). simpl in H. apply mem_In in H. exact H.
Qed.

(* ------------------------------------------------------------------ generic lemma: reset of all observable fields = init *)
Section ResetIsInit.
  Variable V : Type.
  Definition fstate := string -> V.                     (* an object as a total map member -> value *)
  Variable init : fstate.                               (* the freshly constructed object *)
  (* the reset routine overwrites the members of W with their initial value and leaves the others alone *)
  Definition reset_with (W : list string) (s : fstate) : fstate := fun f => if mem f W then init f else s f.
  Variable O : Type.
  Variable observe : fstate -> O.
  Variable footprint : list string.                     (* members the observation may read *)
  Hypothesis observe_footprint : forall s1 s2, (forall f, In f footprint -> s1 f = s2 f) -> observe s1 = observe s2.

  (* If every member the observation reads is written by the reset routine, then a recycled object is observationally the
     fresh one, whatever the members outside the footprint (the persistent ones) hold. *)
  Lemma reset_all_fields_is_init : forall W s,
    (forall f, In f footprint -> mem f W = true) -> observe (reset_with W s) = observe init.
  Proof.
    intros W s H. apply observe_footprint. intros f Hf. unfold reset_with. rewrite (H f Hf). reflexivity.
  Qed.

  (* with the shape of the coverage obligation: each member is reset or persistent, and persistent members are outside
     the footprint (this last premise is the reviewed claim attached to every entry of ResetSpec.persistent) *)
  Lemma covered_or_persistent_is_init : forall (fields W P : list string) s,
    (forall f, In f footprint -> In f fields) ->
    (forall f, In f fields -> mem f W = true \/ mem f P = true) ->
    (forall f, In f footprint -> mem f P = false) ->
    observe (reset_with W s) = observe init.
  Proof.
    intros fields W P s Hfp Hcov Hdisj. apply reset_all_fields_is_init. intros f Hf.
    destruct (Hcov f (Hfp f Hf)) as [H|H]; [exact H|]. rewrite (Hdisj f Hf) in H. discriminate.
  Qed.
End ResetIsInit.

(* where a write of the route's write set comes from *)
Definition from_route (fs : list func_decl) (r : route) (w : write) : Prop :=
  exists n rt, In rt (r_roots r) /\ calls_star fs (rt_fn rt) n /\ In w (writes_of fs n).

Lemma covered_means_written : forall fs r c f, covered r (route_writes fs r) c f = true ->
  (exists w, from_route fs r w /\ plain_write c f w /\ applies_prop r w) \/
  (exists w1 w2 pre other, from_route fs r w1 /\ from_route fs r w2 /\ plain_write c f w1 /\ plain_write c f w2 /\
                 In (w_obj w1) (r_objs r) /\ In (w_obj w2) (r_objs r) /\
                 negate_last (w_guard w1) = Some (pre, other) /\ guard_ok r pre = true /\ guard_eqb (w_guard w2) other = true) \/
  (exists s, In s specials /\ sp_class s = c /\ sp_field s = f /\
     forall sub, In sub (sp_subs s) ->
       exists w, from_route fs r w /\ w_class w = c /\ w_field w = f /\ w_sub w = sub /\ w_how w = sp_how s /\ applies_prop r w).
Proof.
  intros fs r c f H. apply covered_spec in H. destruct H as [[w [Hw H]]|[[w1 [w2 [pre [other [Hw1 [Hw2 H]]]]]]|[s [Hs [H1 [H2 H3]]]]]].
  - left. exists w. split; [|exact H]. destruct (route_writes_sound fs r w Hw) as [n [rt [Hr [Hc Hin]]]]. exists n, rt. auto.
  - right. left. exists w1, w2, pre, other.
    destruct (route_writes_sound fs r w1 Hw1) as [n1 [rt1 [Hr1 [Hc1 Hin1]]]].
    destruct (route_writes_sound fs r w2 Hw2) as [n2 [rt2 [Hr2 [Hc2 Hin2]]]].
    split; [exists n1, rt1; auto|]. split; [exists n2, rt2; auto|]. exact H.
  - right. right. exists s. repeat split; auto. intros sub Hsub. destruct (H3 sub Hsub) as [w [Hw H]].
    exists w. split; [|exact H]. destruct (route_writes_sound fs r w Hw) as [n [rt [Hr [Hc Hin]]]]. exists n, rt. auto.
Qed.

(* statement in the shape used by Properties_C16.v *)
Lemma reset_all_fields_is_init_stmt :
  forall (V O : Type) (init : string -> V) (observe : (string -> V) -> O) (footprint fields W P : list string),
    (forall s1 s2, (forall f, In f footprint -> s1 f = s2 f) -> observe s1 = observe s2) ->
    (forall f, In f footprint -> In f fields) ->
    (forall f, In f fields -> mem f W = true \/ mem f P = true) ->
    (forall f, In f footprint -> mem f P = false) ->
    forall s, observe (reset_with V init W s) = observe init.
Proof.
  intros V O init observe footprint fields W P H1 H2 H3 H4 s.
  exact (covered_or_persistent_is_init V init O observe footprint H1 fields W P s H2 H3 H4).
Qed.

(* the hypotheses are satisfiable and the conclusion is not vacuous: a two-member object whose observation reads only "a" *)
Example reset_all_fields_example :
  let init := fun f : string => 0%nat in
  let obs := fun s : string -> nat => s "a" in
  forall s, obs (reset_with nat init ["a"] s) = obs init.
Proof.
  intros init obs s.
  apply (reset_all_fields_is_init_stmt nat nat init obs ["a"] ["a"; "b"] ["a"] ["b"]).
  - intros s1 s2 H. apply H. left; reflexivity.
  - intros f [Hf|[]]; subst; left; reflexivity.
  - intros f [Hf|[Hf|[]]]; subst; [left | right]; reflexivity.
  - intros f [Hf|[]]; subst; reflexivity.
Qed.

(* ================================================================== round 5: properties of the checker itself *)
(* ---- structural equality of guard conditions is exact: cexpr_eqb x y = true <-> x = y ---- *)
Section CexprInd.
  Variable P : cexpr -> Prop.
  Hypothesis HName : forall s, P (CName s).
  Hypothesis HThis : P CThis.
  Hypothesis HLit : forall s, P (CLit s).
  Hypothesis HMem : forall b s, P b -> P (CMem b s).
  Hypothesis HNot : forall c, P c -> P (CNot c).
  Hypothesis HUn : forall op c, P c -> P (CUn op c).
  Hypothesis HBin : forall op a b, P a -> P b -> P (CBin op a b).
  Hypothesis HCall : forall f args, Forall P args -> P (CCall f args).
  Hypothesis HOther : forall s, P (COther s).
  Fixpoint cexpr_ind' (c : cexpr) : P c :=
    match c with
    | CName s => HName s | CThis => HThis | CLit s => HLit s
    | CMem b s => HMem b s (cexpr_ind' b) | CNot x => HNot x (cexpr_ind' x) | CUn op x => HUn op x (cexpr_ind' x)
    | CBin op a b => HBin op a b (cexpr_ind' a) (cexpr_ind' b)
    | CCall f args => HCall f args ((fix go (l : list cexpr) : Forall P l :=
                                       match l with [] => Forall_nil P | x :: r => Forall_cons x (cexpr_ind' x) (go r) end) args)
    | COther s => HOther s
    end.
End CexprInd.

Lemma cexpr_eqb_refl : forall x, cexpr_eqb x x = true.
Proof.
  induction x using cexpr_ind'; simpl; rewrite ?String.eqb_refl, ?IHx, ?IHx1, ?IHx2; try reflexivity.
  induction H as [|a l Ha Hl IH]; [reflexivity|]. simpl in *. rewrite Ha. exact IH.
Qed.

Lemma cexpr_eqb_eq : forall x y, cexpr_eqb x y = true -> x = y.
Proof.
  induction x using cexpr_ind'; intros y E; destruct y; simpl in E; try discriminate;
    repeat match goal with H : _ && _ = true |- _ => apply andb_prop in H; destruct H end;
    repeat match goal with H : String.eqb _ _ = true |- _ => apply String.eqb_eq in H; subst end;
    try reflexivity.
  - f_equal. apply IHx. assumption.
  - f_equal. apply IHx. assumption.
  - f_equal. apply IHx. assumption.
  - f_equal; [apply IHx1 | apply IHx2]; assumption.
  - f_equal. revert args0 H1. induction H as [|a l Ha Hl IH]; intros [|b m] E; try discriminate; [reflexivity|].
    apply andb_prop in E. destruct E as [E1 E2]. f_equal; [apply Ha; exact E1 | apply IH; exact E2].
Qed.

Theorem cexpr_eqb_spec : forall x y, cexpr_eqb x y = true <-> x = y.
Proof. intros x y. split; [apply cexpr_eqb_eq | intros ->; apply cexpr_eqb_refl]. Qed.

Theorem gcomp_eqb_spec : forall x y, gcomp_eqb x y = true <-> x = y.
Proof.
  intros x y. split.
  - destruct x, y; simpl; intros E; try discriminate;
      repeat match goal with H : _ && _ = true |- _ => apply andb_prop in H; destruct H end;
      repeat match goal with H : cexpr_eqb _ _ = true |- _ => apply cexpr_eqb_eq in H; subst end;
      repeat match goal with H : String.eqb _ _ = true |- _ => apply String.eqb_eq in H; subst end;
      repeat match goal with H : Bool.eqb _ _ = true |- _ => apply Bool.eqb_prop in H; subst end; reflexivity.
  - intros ->. destruct y; simpl; rewrite ?cexpr_eqb_refl, ?String.eqb_refl, ?Bool.eqb_reflx; reflexivity.
Qed.

(* hence an accepted guard level IS (not merely resembles) an error exit or one of the reviewed guards of the route *)
Theorem guard_ok_exact : forall r g, guard_ok r g = true -> forall c, In c g -> c = GErrExit \/ In c (r_guards r).
Proof.
  intros r g H c Hc. destruct (guard_ok_spec r g H c Hc) as [E|[c' [Hin Heq]]]; [left; exact E|].
  right. apply gcomp_eqb_spec in Heq. subst. exact Hin.
Qed.

(* ---- the checker is monotone: more reset code (more writes in the route) can never un-cover a member ---- *)
Lemma existsb_incl : forall {A} (f : A -> bool) l1 l2, incl l1 l2 -> existsb f l1 = true -> existsb f l2 = true.
Proof.
  intros A f l1 l2 Hi H. apply existsb_exists in H. destruct H as [x [Hx Hf]]. apply existsb_exists. exists x. split; [apply Hi; exact Hx | exact Hf].
Qed.

Theorem covered_monotone : forall r ws1 ws2 c f, incl ws1 ws2 -> covered r ws1 c f = true -> covered r ws2 c f = true.
Proof.
  intros r ws1 ws2 c f Hi H. unfold covered in *. apply orb_prop in H. apply orb_true_iff. destruct H as [H|H].
  - left. unfold covered_plain in *. apply orb_prop in H. apply orb_true_iff. destruct H as [H|H].
    + left. eapply existsb_incl; eassumption.
    + right. unfold applies_both in *. apply existsb_exists in H. destruct H as [w1 [Hw1 H]].
      apply existsb_exists. exists w1. split; [apply Hi; exact Hw1|].
      apply andb_prop in H. destruct H as [Ha Hb]. rewrite Ha. simpl.
      destruct (negate_last (w_guard w1)) as [[pre other]|]; [|discriminate].
      apply andb_prop in Hb. destruct Hb as [Hp Hb]. rewrite Hp. simpl. eapply existsb_incl; eassumption.
  - right. unfold covered_special in *. apply existsb_exists in H. destruct H as [s [Hs H]].
    apply existsb_exists. exists s. split; [exact Hs|].
    apply andb_prop in H. destruct H as [Ha Hb]. rewrite Ha. simpl.
    rewrite forallb_forall in *. intros sub Hsub. eapply existsb_incl; [exact Hi | apply Hb; exact Hsub].
Qed.

(* ... and reviewing more guards never un-covers a member either *)
Lemma guard_ok_more_guards : forall r1 r2 g, r_objs r1 = r_objs r2 -> incl (r_guards r1) (r_guards r2) ->
  guard_ok r1 g = true -> guard_ok r2 g = true.
Proof.
  intros r1 r2 g _ Hi H. unfold guard_ok in *. rewrite forallb_forall in *. intros c Hc. specialize (H c Hc).
  destruct c; try exact H; eapply existsb_incl; eassumption.
Qed.

(* a member on no route's write set and not persistent is reported: the list of uncovered members is complete *)
Theorem uncovered_complete : forall cs fs r c f,
  In r routes -> In c (r_classes r) -> In f (fields_of cs c) ->
  covered r (route_writes fs r) c f = false -> is_persistent r c f = false ->
  In (r_name r, c, f) (uncovered cs fs).
Proof.
  intros cs fs r c f Hr Hc Hf Hcov Hper. unfold uncovered. apply in_flat_map. exists r. split; [exact Hr|].
  apply in_flat_map. exists c. split; [exact Hc|]. apply in_map_iff. exists f. split; [reflexivity|].
  apply filter_In. split; [exact Hf|]. unfold field_ok. rewrite Hcov, Hper. reflexivity.
Qed.

(* ---- the closure of a FollowAll root is complete on data for which reach_closed holds ---- *)
Lemma func_exists_calls : forall fs n, func_exists fs n = false -> calls_of fs n = [].
Proof.
  intros fs n H. unfold calls_of, find_func. unfold func_exists in H.
  destruct (find (fun f => String.eqb (f_name f) n) fs) as [f|] eqn:E; [|reflexivity].
  apply find_some in E. destruct E as [Hin Heq]. exfalso.
  assert (existsb (fun f0 => String.eqb (f_name f0) n) fs = true) by (apply existsb_exists; exists f; split; assumption). congruence.
Qed.

Lemma closed_complete : forall fs l, closedb fs l = true ->
  forall a b, calls_star fs a b -> In a l -> func_exists fs b = true -> In b l.
Proof.
  intros fs l Hc a b Hs. induction Hs as [a|a x b Hax Hxb IH]; intros Ha Hb; [exact Ha|].
  destruct (func_exists fs x) eqn:Ex.
  - apply IH; [|exact Hb]. unfold closedb in Hc. rewrite forallb_forall in Hc. specialize (Hc a Ha).
    rewrite forallb_forall in Hc. specialize (Hc x Hax). rewrite Ex in Hc. simpl in Hc. apply mem_In. exact Hc.
  - (* x is not an extracted function: it has no call edges, so b = x, which contradicts func_exists b *)
    exfalso. inversion Hxb as [|x' y b' Hxy _]; subst.
    + congruence.
    + unfold callee in Hxy. rewrite (func_exists_calls fs x Ex) in Hxy. destruct Hxy.
Qed.

Theorem route_closure_complete : forall fs, reach_closed fs = true ->
  forall r rt, In r routes -> In rt (r_roots r) -> rt_follow rt = FollowAll ->
  forall n, calls_star fs (rt_fn rt) n -> func_exists fs n = true -> In n (route_funcs fs r).
Proof.
  intros fs H r rt Hr Hrt Hf n Hs Hn. unfold reach_closed in H. rewrite forallb_forall in H. specialize (H r Hr).
  rewrite forallb_forall in H. specialize (H rt Hrt). rewrite Hf in H. apply andb_prop in H. destruct H as [Hroot Hcl].
  unfold route_funcs. apply in_flat_map. exists rt. split; [exact Hrt|].
  apply (closed_complete fs (root_funcs fs rt) Hcl (rt_fn rt) n Hs); [apply mem_In; exact Hroot | exact Hn].
Qed.

From Coq Require Import ZArith List Bool String Lia.
From Verif Require Import EmitState.EmitStateModel EmitState.LookupModel.
Import ListNotations.
Local Open Scope Z_scope.

Lemma in_upto : forall n i, 0 <= i <= n -> In i (upto n).
Proof.
  intros n i H. unfold upto. apply in_map_iff. exists (Z.to_nat i). split; [lia |].
  apply in_seq. lia.
Qed.

Lemma upto_in : forall n i, In i (upto n) -> 0 <= i /\ (0 <= n -> i <= n).
Proof.
  intros n i H. unfold upto in H. apply in_map_iff in H. destruct H as [k [E K]]. apply in_seq in K. lia.
Qed.

Lemma in_bits_of : forall m i, 0 <= i <= 63 -> Z.testbit m i = true -> In i (bits_of m).
Proof. intros m i R T. unfold bits_of. apply filter_In. split; [apply in_upto; exact R | exact T]. Qed.

Lemma hit_some : forall t i, hit t i = true -> exists v, lookup t i = Some v.
Proof. intros t i H. unfold hit in H. destruct (lookup t i) as [v |]; [exists v; reflexivity | discriminate]. Qed.

(* the reflection lemma: a checked site never reads out of bounds *)
Lemma site_ok_sound : forall s, site_ok s = true ->
  forall i, In i (site_idx s) -> exists v, lookup (site_table s) i = Some v.
Proof.
  intros s H i I. unfold site_ok in H. apply andb_true_iff in H. destruct H as [_ H].
  apply hit_some. rewrite forallb_forall in H. apply H. exact I.
Qed.

Lemma sites_ok_sound : forall l, forallb site_ok l = true ->
  forall s, In s l -> forall i, In i (site_idx s) -> exists v, lookup (site_table s) i = Some v.
Proof. intros l H s S. rewrite forallb_forall in H. apply site_ok_sound. apply H. exact S. Qed.

(* a look-up hits iff the index is inside the table *)
Lemma nthZ_some_iff : forall (t : list Z) i, (exists v, nthZ t i = Some v) <-> 0 <= i < lenZ t.
Proof.
  induction t as [| x t IH]; intros i; unfold lenZ in *; cbn [nthZ Datatypes.length].
  - split; [intros [v H]; discriminate | lia].
  - destruct (i =? 0) eqn:E0.
    + apply Z.eqb_eq in E0. split; [intros _; lia | intros _; eauto].
    + apply Z.eqb_neq in E0. destruct (i <? 0) eqn:E1.
      * apply Z.ltb_lt in E1. split; [intros [v H]; discriminate | lia].
      * apply Z.ltb_ge in E1. rewrite IH. lia.
Qed.

Lemma lookup_none_iff : forall t i, lookup t i = None <-> ~ (0 <= i < lenZ t).
Proof.
  intros t i. unfold lookup. rewrite <- nthZ_some_iff. split.
  - intros H [v E]. rewrite H in E. discriminate.
  - intros H. destruct (nthZ t i) as [v |] eqn:E; [exfalso; apply H; eauto | reflexivity].
Qed.

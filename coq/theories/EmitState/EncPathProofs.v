From Coq Require Import ZArith List Bool Lia.
From Verif Require Import EmitState.EmitStateModel EmitState.EmitStateProofs EmitState.EncPathModel.
Import ListNotations.
Local Open Scope Z_scope.

(* a list of micro-operations is SAFE for a label table if, executed from a clean accumulator, it neither gets stuck
   (dereferences an invalid label id) nor fails after a persistent side effect *)
Definition clean (r : uresult) : Prop :=
  match r with UStuck => False | UErr _ d => d = false | UOk _ _ _ _ => True end.

(* tails made only of emits / relocation / fixup creation never fail *)
Definition effect_only (u : uop) : bool := match u with UEmit _ | UReloc | UFixup _ _ _ _ _ => true | _ => false end.

Lemma exec_effect_only : forall valid cur us ac, forallb effect_only us = true -> clean (exec valid cur us ac).
Proof.
  induction us as [| u t IH]; intros ac H; cbn [exec]; [exact I |].
  cbn [forallb] in H. apply andb_true_iff in H. destruct H as [Hu Ht].
  destruct u; try discriminate; apply IH; exact Ht.
Qed.

(* tails made of emits and then either a failure (before any side effect) or effects *)
Lemma exec_fail_clean : forall valid cur e t ac, a_dirty ac = false -> clean (exec valid cur (UFail e :: t) ac).
Proof. intros. cbn. assumption. Qed.

Lemma exec_guarded : forall valid cur id us ac,
  a_dirty ac = false ->
  (valid id = true -> clean (exec valid cur us ac)) ->
  clean (exec valid cur (UValid id :: UDeref id :: us) ac).
Proof.
  intros valid cur id us ac D H. cbn [exec]. destruct (valid id) eqn:V; [apply H; reflexivity | cbn; exact D].
Qed.

Lemma x86_jmp_clean : forall s o8 o32 n id sh lg, clean (exec (label_valid s) (cur_size s) (x86_jmp_path s o8 o32 n id sh lg) acc0).
Proof.
  intros. unfold x86_jmp_path. cbn [app]. apply exec_guarded; [reflexivity |]. intros _.
  destruct (bound_here s id) as [off |].
  - destruct (fits_signed 8 (off - cur_size s - n + n - 2) && o8 && negb lg); [apply exec_effect_only; reflexivity |].
    destruct (negb o32 || sh); [apply exec_fail_clean; reflexivity | apply exec_effect_only; reflexivity].
  - destruct (o8 && (negb o32 || sh)); [apply exec_effect_only; reflexivity |].
    destruct (negb o32 || sh); [apply exec_fail_clean; reflexivity | apply exec_effect_only; reflexivity].
Qed.

Lemma x86_lea_clean : forall a s d disp id, clean (exec (label_valid s) (cur_size s) (x86_lea_path a s d disp id) acc0).
Proof.
  intros. unfold x86_lea_path. destruct a.
  - cbn [app exec]. change (clean (exec (label_valid s) (cur_size s) (UValid id :: UDeref id :: UReloc :: (if bound_anywhere s id then [UEmit 4] else [UFixup id true 0 0 0; UEmit 4])) (mkAcc (0 + 2) None false 0 false))).
    apply exec_guarded; [reflexivity |]. intros _. apply exec_effect_only. destruct (bound_anywhere s id); reflexivity.
  - cbn [app]. apply exec_guarded; [reflexivity |]. intros _. destruct (bound_here s id); apply exec_effect_only; reflexivity.
  - cbn [app exec]. change (clean (exec (label_valid s) (cur_size s) (UValid id :: UDeref id :: UReloc :: (if bound_anywhere s id then [UEmit 4] else [UFixup id true 0 0 0; UEmit 4])) (mkAcc (0 + 2) None false 0 false))).
    apply exec_guarded; [reflexivity |]. intros _. apply exec_effect_only. destruct (bound_anywhere s id); reflexivity.
Qed.

Lemma a64_rel_clean : forall s bits discard rok id, clean (exec (label_valid s) (cur_size s) (a64_rel_path s bits discard rok id) acc0).
Proof.
  intros. unfold a64_rel_path. destruct rok; [| apply exec_fail_clean; reflexivity].
  cbn [app]. apply exec_guarded; [reflexivity |]. intros _.
  destruct (bound_here s id) as [off |]; [| apply exec_effect_only; reflexivity].
  destruct (((off - cur_size s) mod 2 ^ discard =? 0) && fits_signed bits ((off - cur_size s) / 2 ^ discard));
    [apply exec_effect_only; reflexivity | apply exec_fail_clean; reflexivity].
Qed.

(* every modelled label path, every architecture, state, label id (valid or not) and option combination *)
Theorem rel_paths_clean : forall a s k id sh lg, clean (rel_result a s k id sh lg).
Proof.
  intros. unfold rel_result, rel_path. destruct k.
  - apply x86_jmp_clean.
  - apply x86_jmp_clean.
  - apply x86_jmp_clean.
  - apply x86_lea_clean.
  - apply a64_rel_clean.
Qed.

Theorem rel_paths_never_stuck : forall a s k id sh lg, rel_result a s k id sh lg <> UStuck.
Proof. intros a s k id sh lg H. pose proof (rel_paths_clean a s k id sh lg) as C. rewrite H in C. exact C. Qed.

Theorem rel_paths_fail_before_effects : forall a s k id sh lg e d, rel_result a s k id sh lg = UErr e d -> d = false.
Proof. intros a s k id sh lg e d H. pose proof (rel_paths_clean a s k id sh lg) as C. rewrite H in C. exact C. Qed.

(* an invalid label id is refused — with kInvalidLabel, or, on AArch64, with kInvalidPhysId when the register operand of
   cbz/tbz/adr/ldr names no register (that check comes first) — and nothing was created *)
Theorem rel_invalid_label_refused : forall a s k id sh lg,
  label_valid s id = false ->
  rel_result a s k id sh lg = UErr kInvalidLabel false \/ rel_result a s k id sh lg = UErr kInvalidPhysId false.
Proof.
  intros a s k id sh lg V. unfold rel_result, rel_path.
  destruct k; unfold x86_jmp_path, x86_lea_path, a64_rel_path; try (left; cbn [app exec]; rewrite V; reflexivity).
  - left. destruct a; cbn [app exec]; rewrite V; reflexivity.
  - destruct reg_ok; [left | right]; cbn [app exec]; [rewrite V |]; reflexivity.
Qed.

(* a register operand that names no register is refused before the label is looked at *)
Theorem a64_rel_bad_register_refused : forall a s bits discard id sh lg,
  rel_result a s (A64Rel bits discard false) id sh lg = UErr kInvalidPhysId false.
Proof. intros. reflexivity. Qed.

(* the pinned 32-bit `[label]` path dereferences the entry of an invalid label id (DESIGN 7.3; fixed by
   fixes/C14-invalid-label-x86.patch) *)
Theorem x86_lea32_pinned_refuted : exists s id, exec (label_valid s) (cur_size s) (x86_lea32_path_pinned s id) acc0 = UStuck.
Proof. exists init_state, 123456. reflexivity. Qed.

(* the verdict is never the placeholder, and the emit transaction built from it is atomic (instance of the general theorem) *)
Theorem rel_cmd_wf : forall a s k id, wf_cmd (rel_cmd a s k id).
Proof.
  intros. unfold rel_cmd, wf_cmd.
  set (o := os_options (st_one s)).
  pose proof (rel_paths_clean a s k id (Z.testbit o 4) (Z.testbit o 5)) as C.
  destruct (rel_result a s k id (Z.testbit o 4) (Z.testbit o 5)) as [n fx l dr | e d |] eqn:R; cbn [verdict_of]; [exact I | | destruct C].
  (* the error codes of the paths are real ones *)
  unfold rel_result in R.
  assert (E : forall us ac, (forall e', In (UFail e') us -> e' <> 0) -> exec (label_valid s) (cur_size s) us ac = UErr e d -> e <> 0).
  { induction us as [| u t IH]; intros ac HF H; cbn [exec] in H; [discriminate |].
    destruct u.
    - destruct (label_valid s id0); [eapply IH; [intros; apply HF; right; assumption | eassumption] | inversion H; subst; vm_compute; discriminate].
    - destruct (label_valid s id0); [eapply IH; [intros; apply HF; right; assumption | eassumption] | discriminate].
    - eapply IH; [intros; apply HF; right; assumption | eassumption].
    - eapply IH; [intros; apply HF; right; assumption | eassumption].
    - eapply IH; [intros; apply HF; right; assumption | eassumption].
    - inversion H; subst. apply HF. left. reflexivity. }
  eapply E; [| exact R].
  intros e' I'. unfold rel_path in I'.
  assert (J : forall o8 o32 n sh lg, In (UFail e') (x86_jmp_path s o8 o32 n id sh lg) -> e' <> 0).
  { intros o8 o32 n sh lg H. unfold x86_jmp_path in H. cbn [app In] in H. destruct H as [H | [H | H]]; try discriminate.
    destruct (bound_here s id).
    - destruct (fits_signed 8 (z - cur_size s - n + n - 2) && o8 && negb lg); [cbn in H; intuition discriminate |].
      destruct (negb o32 || sh); cbn in H; destruct H as [H | H]; try contradiction; inversion H; subst; vm_compute; discriminate.
    - destruct (o8 && (negb o32 || sh)); [cbn in H; intuition discriminate |].
      destruct (negb o32 || sh); cbn in H; intuition (try discriminate). inversion H0; subst; vm_compute; discriminate. }
  destruct k; try (eapply J; eassumption).
  - unfold x86_lea_path in I'. destruct a; cbn [app In] in I';
      repeat (destruct I' as [I' | I']; try discriminate);
      try (destruct (bound_anywhere s id); cbn in I'; intuition discriminate);
      try (destruct (bound_here s id); cbn in I'; intuition discriminate).
  - unfold a64_rel_path in I'. apply in_app_or in I'. destruct I' as [I' | I'].
    + destruct reg_ok; [destruct I' | destruct I' as [I' | []]; inversion I'; subst; vm_compute; discriminate].
    + cbn [app In] in I'. destruct I' as [I' | [I' | I']]; try discriminate.
      destruct (bound_here s id); [| cbn in I'; intuition discriminate].
      destruct (((z - cur_size s) mod 2 ^ discard =? 0) && fits_signed bits ((z - cur_size s) / 2 ^ discard)); cbn in I'; destruct I' as [I' | I']; try contradiction; try discriminate.
      inversion I'; subst; vm_compute; discriminate.
Qed.

(* ---------------------------------------------------------------- link to the displacement codec proved for C17 *)
From Verif Require Import Codec.OffsetModel Codec.OffsetProofs.

(* the a64 formats the label paths use: reset_to_imm_value(kSignedOffset, 4, shift, bits, discard) *)
Definition a64_fmt (bits shift discard : Z) : fmt :=
  {| ty := SignedOffset; vsize := 4; OffsetModel.bits := bits; OffsetModel.shift := shift; OffsetModel.discard := discard |}.

(* the "displacement is encodable" test of a64_rel_path accepts exactly the displacements C17's proven encoder accepts *)
Theorem a64_disp_codec : forall bits shift discard d,
  wf_contig (a64_fmt bits shift discard) -> int64 d ->
  (((d mod 2 ^ discard =? 0) && fits_signed bits (d / 2 ^ discard)) = true <->
   encode_offset (a64_fmt bits shift discard) d <> None).
Proof.
  intros bits shift discard d W I.
  pose proof (signed_refused_iff (a64_fmt bits shift discard) d eq_refl W I) as R.
  unfold signed_ok in R. cbn [OffsetModel.discard OffsetModel.bits a64_fmt] in R.
  unfold fits_signed. rewrite andb_true_iff, andb_true_iff, Z.eqb_eq, Z.leb_le, Z.ltb_lt.
  split.
  - intros [H1 [H2 H3]] N. apply R in N. apply N. split; [exact H1 | split; assumption].
  - intros N. destruct (Z.eq_dec (d mod 2 ^ discard) 0) as [E | E].
    + destruct (Z_le_dec (- 2 ^ (bits - 1)) (d / 2 ^ discard)) as [L | L].
      * destruct (Z_lt_dec (d / 2 ^ discard) (2 ^ (bits - 1))) as [U | U]; [tauto |].
        exfalso. apply N. apply R. intros [_ [_ X]]. contradiction.
      * exfalso. apply N. apply R. intros [_ [X _]]. contradiction.
    + exfalso. apply N. apply R. intros [X _]. contradiction.
Qed.

Example a64_fmts_wf : wf_contig (a64_fmt 26 0 2) /\ wf_contig (a64_fmt 19 5 2) /\ wf_contig (a64_fmt 14 5 2).
Proof. unfold wf_contig, a64_fmt; cbn. repeat split; lia. Qed.

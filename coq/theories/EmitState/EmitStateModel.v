(* C14 — model of the emitter's state machine around ONE public call (no proofs in this file; it is extracted).

   What is modelled (asmjit/core/emitter.h, emitterutils.cpp, assembler.cpp, builder.cpp, codeholder.cpp,
   x86assembler.cpp / a64assembler.cpp `_emit` prologue+epilogue, `align`):
     * the one-shot instruction state (options, extra register, inline comment) and `reset_state`;
     * the failure path `log_instruction_failed`: format, `reset_state()` THEN `report_error` (handler may throw);
     * `BaseEmitter::_report_error`: the handler (if any) is called exactly once with the error, the error is returned
       (or the handler's exception propagates);
     * the CodeWriter discipline: bytes are written past the committed size and become visible only in `writer.done()`;
       `new_reloc_entry` / `add_address_to_address_table` / `new_fixup` are executed on the success path only
       (micro-operation level: see EncPathModel.v for the label/relocation paths);
     * argument validation of bind / align / embed / embed_label / section / new_section / new_label / new_named_label
       for Assembler and for Builder/Compiler (node list instead of section bytes).
   The instruction encoder itself (validate + encode) is a PARAMETER of a call: `CInst r` carries its verdict `r`
   (`EncErr e`, or `EncOk` with the number of bytes and the side effects).  The theorems quantify over every verdict,
   i.e. over every encoder; the harness feeds the verdict of the real encoder. *)
From Coq Require Import ZArith List Bool.
Import ListNotations.
Local Open Scope Z_scope.

(* ---------------------------------------------------------------- constants mirrored from the headers (tied by the "T" line) *)
Definition kInvalidArgument := 2.
Definition kInvalidState := 3.
Definition kInvalidLabel := 12.
Definition kLabelAlreadyBound := 14.
Definition kLabelAlreadyDefined := 15.
Definition kLabelNameTooLong := 16.
Definition kInvalidLabelName := 17.
Definition kInvalidParentLabel := 18.
Definition kInvalidSection := 19.
Definition kInvalidSectionName := 21.
Definition kInvalidDisplacement := 48.
Definition kInvalidOperandSize := 51.
Definition kMaxAlignment := 64.
Definition kMaxSectionNameSize := 35.
Definition kMaxLabelNameSize := 2048.
Definition kAlignModeMax := 2.
Definition kInvalidId := 4294967295.
Definition kNoLabel := 65535.       (* "ret" of new_label/new_named_label when an invalid Label came back *)

Definition model_constants : list Z :=
  [kInvalidArgument; kInvalidState; kInvalidLabel; kLabelAlreadyBound; kLabelAlreadyDefined; kLabelNameTooLong;
   kInvalidLabelName; kInvalidParentLabel; kInvalidSection; kInvalidSectionName; kInvalidDisplacement;
   kInvalidOperandSize; kMaxAlignment; kMaxSectionNameSize; kMaxLabelNameSize; kAlignModeMax; kInvalidId].

(* ---------------------------------------------------------------- state *)
Inductive handler := HNone | HReturn | HRecord | HThrow.
Inductive flavour := FAssembler | FBuilder | FCompiler.
Inductive arch := X86_32 | X86_64 | A64.

Definition reg_size (a : arch) : Z := match a with X86_32 => 4 | _ => 8 end.

Record oneshot := mkOne { os_options : Z; os_extra_sig : Z; os_extra_id : Z; os_comment : bool }.
Definition one_clear : oneshot := mkOne 0 0 0 false.

(* a pending fixup of an unbound label: the section that references it, and whether it is linked to a relocation *)
Record fixup := mkFix { fx_section : Z; fx_reloc : bool;
                        fx_offset : Z; fx_rel : Z;       (* position of the displacement field in its section, inlined addend *)
                        fx_bits : Z; fx_discard : Z }.   (* signed field width and discarded low bits of its OffsetFormat *)
(* what an instruction hands to CodeHolder::new_fixup *)
Record fixref := mkRef { fr_label : Z; fr_offset : Z; fr_rel : Z; fr_bits : Z; fr_discard : Z }.
Inductive label := LUnbound (pend : list fixup) | LBound (sec off : Z).

Record state := mkState {
  st_sizes  : list Z;      (* committed size of every section buffer *)
  st_cur    : Z;           (* id of the emitter's current section *)
  st_labels : list label;
  st_fixups : Z;           (* CodeHolder::unresolved_fixup_count() *)
  st_relocs : Z;           (* reloc_entries().size() *)
  st_addrs  : Z;           (* address-table entries *)
  st_nodes  : Z;           (* Builder/Compiler: nodes in the list *)
  st_one    : oneshot }.

Definition init_state : state := mkState [0] 0 [] 0 0 0 0 one_clear.

Definition set_one (s : state) (o : oneshot) : state :=
  mkState (st_sizes s) (st_cur s) (st_labels s) (st_fixups s) (st_relocs s) (st_addrs s) (st_nodes s) o.
Definition clear_one (s : state) : state := set_one s one_clear.
Definition clear_comment (s : state) : state :=
  set_one s (mkOne (os_options (st_one s)) (os_extra_sig (st_one s)) (os_extra_id (st_one s)) false).

(* everything of the state except the one-shot part: what "no effect" talks about *)
Definition persistent (s : state) := (st_sizes s, st_cur s, st_labels s, st_fixups s, st_relocs s, st_addrs s, st_nodes s).

(* ---------------------------------------------------------------- outcome of one call *)
Record outcome := mkOut {
  o_ret    : Z;            (* returned Error (0 = kOk); meaningless when o_thrown *)
  o_calls  : list Z;       (* errors passed to ErrorHandler::handle_error during the call, in order *)
  o_thrown : bool }.       (* the handler's exception left the call *)

Definition ok_out : outcome := mkOut 0 [] false.

(* BaseEmitter::_report_error *)
Definition report (h : handler) (e : Z) : outcome :=
  match h with
  | HNone => mkOut e [] false
  | HReturn | HRecord => mkOut e [e] false
  | HThrow => mkOut e [e] true
  end.

(* an error that is returned without going through report_error (CodeHolder-level functions) *)
Definition silent (e : Z) : outcome := mkOut e [] false.

(* ---------------------------------------------------------------- helpers *)
Fixpoint nthZ {A} (l : list A) (i : Z) : option A :=
  match l with
  | [] => None
  | x :: t => if i =? 0 then Some x else if i <? 0 then None else nthZ t (i - 1)
  end.

Fixpoint updZ {A} (l : list A) (i : Z) (v : A) : list A :=
  match l with
  | [] => []
  | x :: t => if i =? 0 then v :: t else x :: updZ t (i - 1) v
  end.

Definition lenZ {A} (l : list A) : Z := Z.of_nat (length l).

Definition cur_size (s : state) : Z := match nthZ (st_sizes s) (st_cur s) with Some n => n | None => 0 end.

Definition add_bytes (s : state) (n : Z) : state :=
  mkState (updZ (st_sizes s) (st_cur s) (cur_size s + n)) (st_cur s) (st_labels s) (st_fixups s) (st_relocs s)
          (st_addrs s) (st_nodes s) (st_one s).

Definition add_node (s : state) : state :=
  mkState (st_sizes s) (st_cur s) (st_labels s) (st_fixups s) (st_relocs s) (st_addrs s) (st_nodes s + 1) (st_one s).

Definition is_pow2 (n : Z) : bool := (0 <? n) && (Z.land n (n - 1) =? 0).
Definition is_pow2_up_to (n m : Z) : bool := is_pow2 n && (n <=? m).

(* CodeHolder::new_fixup for label `id`: chained to the label while it is unbound; a label that is already bound (to
   another section than the referencing one) gets a holder-level cross-section fixup — only the unresolved count grows *)
Definition add_fixup (s : state) (r : fixref) (linked : bool) : state :=
  let id := fr_label r in
  match nthZ (st_labels s) id with
  | Some (LUnbound p) =>
      mkState (st_sizes s) (st_cur s)
              (updZ (st_labels s) id (LUnbound (mkFix (st_cur s) linked (fr_offset r) (fr_rel r) (fr_bits r) (fr_discard r) :: p)))
              (st_fixups s + 1) (st_relocs s) (st_addrs s) (st_nodes s) (st_one s)
  | Some (LBound _ _) =>
      mkState (st_sizes s) (st_cur s) (st_labels s) (st_fixups s + 1) (st_relocs s) (st_addrs s) (st_nodes s) (st_one s)
  | None => s
  end.

Definition add_relocs (s : state) (n : Z) : state :=
  mkState (st_sizes s) (st_cur s) (st_labels s) (st_fixups s) (st_relocs s + n) (st_addrs s) (st_nodes s) (st_one s).

(* address-table entries; the first one creates the .addrtab section (dsec = 1) *)
Definition add_addrs (s : state) (n dsec : Z) : state :=
  mkState (if 0 <? dsec then st_sizes s ++ [0] else st_sizes s) (st_cur s) (st_labels s) (st_fixups s) (st_relocs s)
          (st_addrs s + n) (st_nodes s) (st_one s).

(* ---------------------------------------------------------------- commands *)
(* verdict of validate+encode for one instruction in the current state *)
Inductive enc_result :=
| EncOk (nbytes : Z)                (* bytes committed by writer.done() *)
        (fxl : option fixref)       (* a fixup on this label was created (position, addend, format) *)
        (fxl_linked : bool)         (* ... linked to the relocation created by the same instruction *)
        (drelocs daddrs dsecs : Z)  (* new relocation entries / address-table entries / sections (.addrtab) *)
| EncErr (e : Z).

Inductive cmd :=
| CSetOptions (o : Z)
| CSetExtra (sig id : Z)
| CSetComment
| CResetState                        (* BaseEmitter::reset_state() *)
| CResetComment                      (* BaseEmitter::reset_inline_comment() *)
| CInst (r : enc_result)
| CNewLabel
| CNewNamedLabel (namelen type parent : Z) (dup : bool)
| CBind (id : Z) (patchfail : Z)     (* patchfail: fixups whose displacement does not fit (C03's domain; reported by the code) *)
| CAlign (mode n : Z)
| CEmbed (n : Z)
| CEmbedLabel (id size : Z)
| CSection (id : Z) (foreign : bool)  (* foreign: a Section object of another CodeHolder carrying that id *)
| CNewSection (align namelen : Z)
| CEmbedLabelDelta (id base size : Z)
| CBindAtomic (id : Z) (patchfail : Z)  (* bind on a tree where bind_label checks the pending displacements BEFORE binding
                                           (fixes/C14-bind-atomic.patch): a displacement that does not fit refuses the bind *)
| CEmbedConstPool (id size align : Z).   (* embed_const_pool(label, pool): align to the pool's alignment, bind the label, the pool's bytes *)

(* ---------------------------------------------------------------- the emit transaction *)
(* success path of `_emit`: side effects, then reset_state(), then writer.done() *)
Definition commit_inst (s : state) (n : Z) (fxl : option fixref) (linked : bool) (dr da ds : Z) : state :=
  let s1 := add_relocs s dr in
  let s2 := add_addrs s1 da ds in
  let s3 := match fxl with Some r => add_fixup s2 r linked | None => s2 end in
  add_bytes (clear_one s3) n.

(* failure path (`Failed:` -> EmitterUtils::log_instruction_failed): nothing was committed (the writer's cursor is
   dropped), reset_state() and only then report_error — so the one-shot state is already clear when the handler runs
   or throws *)
Definition fail_inst (h : handler) (s : state) (e : Z) : state * outcome := (clear_one s, report h e).

Definition emit_assembler (h : handler) (s : state) (r : enc_result) : state * outcome :=
  match r with
  | EncOk n fxl linked dr da ds => (commit_inst s n fxl linked dr da ds, ok_out)
  | EncErr e => fail_inst h s e
  end.

(* BaseBuilder::_emit: validation failure -> same failure path; otherwise one InstNode is appended and the one-shot
   state is consumed (reset_inst_options, reset_inline_comment, reset_extra_reg) *)
Definition emit_builder (h : handler) (s : state) (r : enc_result) : state * outcome :=
  match r with
  | EncOk _ _ _ _ _ _ => (add_node (clear_one s), ok_out)
  | EncErr e => fail_inst h s e
  end.

(* ---------------------------------------------------------------- other calls: Assembler *)
Definition new_label (s : state) : state :=
  mkState (st_sizes s) (st_cur s) (st_labels s ++ [LUnbound []]) (st_fixups s) (st_relocs s) (st_addrs s) (st_nodes s) (st_one s).

(* CodeHolder::new_named_label_id (order of the checks as in the code) *)
Definition named_label_error (s : state) (namelen type parent : Z) (dup : bool) : Z :=
  if namelen =? 0 then (if type =? 0 then 0 else kInvalidLabelName)
  else if kMaxLabelNameSize <? namelen then kLabelNameTooLong
  else if type =? 0 then (if parent =? kInvalidId then 0 else kInvalidParentLabel)
  else if type =? 1 then (if lenZ (st_labels s) <=? parent then kInvalidParentLabel else if dup then kLabelAlreadyDefined else 0)
  else if (type =? 2) || (type =? 3) then (if parent =? kInvalidId then (if dup then kLabelAlreadyDefined else 0) else kInvalidParentLabel)
  else kInvalidArgument.

(* fixups of a label that bind_label resolves: relocation-linked ones and those of the section bound to *)
Definition resolvable (sec : Z) (f : fixup) : bool := fx_reloc f || (fx_section f =? sec).
Definition count_resolvable (sec : Z) (p : list fixup) : Z := lenZ (filter (resolvable sec) p).

(* CodeWriterUtils::write_offset on a signed field: the displacement must be a multiple of 2^discard and fit `bits` bits
   (theorem C14_a64_disp_codec / C17: exactly the displacements the offset encoder accepts) *)
Definition fits_signed (bits v : Z) : bool := (- 2 ^ (bits - 1) <=? v) && (v <? 2 ^ (bits - 1)).
Definition disp_fits (f : fixup) (to_offset : Z) : bool :=
  let d := to_offset - fx_offset f + fx_rel f in
  (d mod 2 ^ fx_discard f =? 0) && fits_signed (fx_bits f) (d / 2 ^ fx_discard f).
(* the pending fixups of the label that binding it HERE would have to patch (same section, not relocation-linked) and
   whose displacement does not fit: computed by the model, no longer reported by the code *)
Definition unpatchable_count (s : state) (p : list fixup) : Z :=
  lenZ (filter (fun f => negb (fx_reloc f) && (fx_section f =? st_cur s) && negb (disp_fits f (cur_size s))) p).

Definition bind_assembler (h : handler) (s : state) (id patchfail : Z) : state * outcome :=
  match nthZ (st_labels s) id with
  | None => (clear_comment s, report h kInvalidLabel)
  | Some (LBound _ _) => (clear_comment s, report h kLabelAlreadyBound)
  | Some (LUnbound p) =>
      let pf := Z.max 0 (Z.min patchfail (count_resolvable (st_cur s) p)) in
      let s' := mkState (st_sizes s) (st_cur s) (updZ (st_labels s) id (LBound (st_cur s) (cur_size s)))
                        (st_fixups s - (count_resolvable (st_cur s) p - pf)) (st_relocs s) (st_addrs s) (st_nodes s) (st_one s) in
      (clear_comment s', if 0 <? pf then report h kInvalidDisplacement else ok_out)
  end.

(* the same call when CodeHolder::bind_label validates every same-section fixup before it touches the label *)
Definition bind_assembler_atomic (h : handler) (s : state) (id patchfail : Z) : state * outcome :=
  match nthZ (st_labels s) id with
  | None => (clear_comment s, report h kInvalidLabel)
  | Some (LBound _ _) => (clear_comment s, report h kLabelAlreadyBound)
  | Some (LUnbound p) =>
      if 0 <? unpatchable_count s p then (clear_comment s, report h kInvalidDisplacement)   (* `patchfail` is ignored *)
      else (clear_comment (mkState (st_sizes s) (st_cur s) (updZ (st_labels s) id (LBound (st_cur s) (cur_size s)))
                                   (st_fixups s - count_resolvable (st_cur s) p) (st_relocs s) (st_addrs s) (st_nodes s) (st_one s)), ok_out)
  end.

(* BaseAssembler::embed_const_pool: invalid label, already bound label (refused before anything else, fd1aeb4), then the label is
   bound at the ALIGNED offset (a pending displacement that does not fit there refuses the call before any padding:
   fixes/C14-const-pool-bind-before-pad.patch), padding, data *)
Definition pool_pad (s : state) (align : Z) : Z := if align <=? 1 then 0 else (- cur_size s) mod align.
Definition embed_const_pool_assembler (h : handler) (s : state) (id size align : Z) : state * outcome :=
  match nthZ (st_labels s) id with
  | None => (s, report h kInvalidLabel)
  | Some (LBound _ _) => (s, report h kLabelAlreadyBound)
  | Some (LUnbound p) =>
      let s1 := add_bytes s (pool_pad s align) in        (* the state in which the label is bound: offset = aligned offset *)
      if 0 <? unpatchable_count s1 p then (clear_comment s, report h kInvalidDisplacement)
      else (add_bytes (fst (bind_assembler_atomic h s1 id 0)) size, ok_out)
  end.

(* x86::Assembler::align / a64::Assembler::align (argument checks are the same; a64 code alignment needs offset%4=0) *)
Definition align_assembler (a : arch) (h : handler) (s : state) (mode n : Z) : state * outcome :=
  if kAlignModeMax <? mode then (s, report h kInvalidArgument)
  else if n <=? 1 then (s, ok_out)
  else if negb (is_pow2_up_to n kMaxAlignment) then (s, report h kInvalidArgument)
  else
    let pad := (- cur_size s) mod n in
    if pad =? 0 then (s, ok_out)
    else match a with
         | A64 => if (mode =? 0) && negb (cur_size s mod 4 =? 0) then (s, report h kInvalidState)
                  else (add_bytes s pad, ok_out)
         | _ => (add_bytes s pad, ok_out)
         end.

Definition embed_label_assembler (a : arch) (h : handler) (s : state) (id size : Z) : state * outcome :=
  match nthZ (st_labels s) id with
  | None => (s, report h kInvalidLabel)
  | Some l =>
      let sz := if size =? 0 then reg_size a else size in
      if negb (is_pow2_up_to sz 8) then (s, report h kInvalidOperandSize)
      else
        let s1 := add_relocs s 1 in
        let s2 := match l with LUnbound _ => add_fixup s1 (mkRef id 0 0 0 0) true | LBound _ _ => s1 end in
        (add_bytes s2 sz, ok_out)
  end.

(* BaseAssembler::embed_label_delta: both labels valid, size, then either the delta is known (both bound to one section)
   or an expression relocation is created *)
Definition embed_label_delta_assembler (a : arch) (h : handler) (s : state) (id base size : Z) : state * outcome :=
  match nthZ (st_labels s) id, nthZ (st_labels s) base with
  | Some l, Some b =>
      let sz := if size =? 0 then reg_size a else size in
      if negb (is_pow2_up_to sz 8) then (s, report h kInvalidOperandSize)
      else match l, b with
           | LBound s1 o1, LBound s2 o2 =>
               if s1 =? s2 then
                 (* the delta is known: it must be representable as a signed value of `sz` bytes (HEAD 427430d) *)
                 if (sz <? 8) && negb (fits_signed (8 * sz) (o1 - o2)) then (s, report h kInvalidDisplacement)
                 else (add_bytes s sz, ok_out)
               else (add_bytes (add_relocs s 1) sz, ok_out)
           | _, _ => (add_bytes (add_relocs s 1) sz, ok_out)
           end
  | _, _ => (s, report h kInvalidLabel)
  end.

Definition section_assembler (h : handler) (s : state) (id : Z) (foreign : bool) : state * outcome :=
  if (0 <=? id) && (id <? lenZ (st_sizes s)) && negb foreign
  then (mkState (st_sizes s) id (st_labels s) (st_fixups s) (st_relocs s) (st_addrs s) (st_nodes s) (st_one s), ok_out)
  else (s, report h kInvalidSection).

(* CodeHolder::new_section: a CodeHolder call, errors are returned but never reported through an emitter *)
Definition is_zero_or_pow2 (n : Z) : bool := (n =? 0) || is_pow2 n.
Definition new_section (s : state) (align namelen : Z) : state * outcome :=
  if negb (is_zero_or_pow2 align) then (s, silent kInvalidArgument)
  else if kMaxSectionNameSize <? namelen then (s, silent kInvalidSectionName)
  else (mkState (st_sizes s ++ [0]) (st_cur s) (st_labels s) (st_fixups s) (st_relocs s) (st_addrs s) (st_nodes s) (st_one s), ok_out).

(* ---------------------------------------------------------------- other calls: Builder / Compiler *)
(* new_label also creates the LabelNode (not yet in the list); bind appends the node; align/embed/embed_label append
   nodes; argument validation: bind (label id, LabelNode already in the list), embed_label/embed_label_delta (size) — align is
   not validated by the Builder *)
(* the LabelNode of a label is unique: `node_active_mark` in the pending list records that it already is in the node list
   (labels are bound in the CodeHolder only when the Builder is serialized, so the holder still shows them unbound) *)
Definition node_active_mark : list fixup := [mkFix (-1) false 0 0 0 0].

Definition set_label (s : state) (id : Z) (l : label) : state :=
  mkState (st_sizes s) (st_cur s) (updZ (st_labels s) id l) (st_fixups s) (st_relocs s) (st_addrs s) (st_nodes s) (st_one s).

Definition bind_builder (h : handler) (s : state) (id : Z) : state * outcome :=
  match nthZ (st_labels s) id with
  | None => (s, report h kInvalidLabel)
  | Some (LUnbound []) => (add_node (set_label s id (LUnbound node_active_mark)), ok_out)
  | Some _ => (s, report h kLabelAlreadyBound)
  end.

(* BaseBuilder::embed_const_pool (atomic since ea194a2 / fd1aeb4): AlignNode, the LabelNode, EmbedDataNode *)
Definition embed_const_pool_builder (h : handler) (s : state) (id : Z) : state * outcome :=
  match nthZ (st_labels s) id with
  | None => (s, report h kInvalidLabel)
  | Some (LUnbound []) => (add_node (add_node (add_node (set_label s id (LUnbound node_active_mark)))), ok_out)
  | Some _ => (s, report h kLabelAlreadyBound)
  end.

Definition embed_label_builder (h : handler) (s : state) (size : Z) : state * outcome :=
  if (size =? 0) || is_pow2_up_to size 8 then (add_node s, ok_out) else (s, report h kInvalidOperandSize).

(* ---------------------------------------------------------------- one public call *)
Definition step (fl : flavour) (a : arch) (h : handler) (s : state) (c : cmd) : state * outcome :=
  match c with
  | CSetOptions o => (set_one s (mkOne o (os_extra_sig (st_one s)) (os_extra_id (st_one s)) (os_comment (st_one s))), ok_out)
  | CSetExtra sg id => (set_one s (mkOne (os_options (st_one s)) sg id (os_comment (st_one s))), ok_out)
  | CSetComment => (set_one s (mkOne (os_options (st_one s)) (os_extra_sig (st_one s)) (os_extra_id (st_one s)) true), ok_out)
  | CResetState => (clear_one s, ok_out)
  | CResetComment => (clear_comment s, ok_out)
  | CInst r => match fl with FAssembler => emit_assembler h s r | _ => emit_builder h s r end
  | CNewLabel => (new_label s, ok_out)
  | CNewNamedLabel nl ty pa dup =>
      let e := named_label_error s nl ty pa dup in
      if e =? 0 then (new_label s, ok_out)
      else (s, mkOut kNoLabel (o_calls (report h e)) (o_thrown (report h e)))
  | CBind id pf => match fl with FAssembler => bind_assembler h s id pf | _ => bind_builder h s id end
  | CAlign m n => match fl with FAssembler => align_assembler a h s m n | _ => (add_node s, ok_out) end
  | CEmbed n => match fl with FAssembler => (add_bytes s n, ok_out) | _ => (add_node s, ok_out) end
  | CEmbedLabel id sz => match fl with FAssembler => embed_label_assembler a h s id sz | _ => embed_label_builder h s sz end
  | CSection id fo => match fl with FAssembler => section_assembler h s id fo | _ => (s, ok_out) end
  | CNewSection al nl => new_section s al nl
  | CEmbedLabelDelta id ba sz =>
      match fl with FAssembler => embed_label_delta_assembler a h s id ba sz | _ => embed_label_builder h s sz end
  | CBindAtomic id pf => match fl with FAssembler => bind_assembler_atomic h s id pf | _ => bind_builder h s id end
  | CEmbedConstPool id sz al => match fl with FAssembler => embed_const_pool_assembler h s id sz al | _ => embed_const_pool_builder h s id end
  end.

(* a failed call: a non-zero return value or an exception *)
Definition failed (o : outcome) : bool := negb (o_ret o =? 0) || o_thrown o.

(* run a history; collects the outcomes *)
Fixpoint run (fl : flavour) (a : arch) (h : handler) (s : state) (cs : list cmd) : state * list outcome :=
  match cs with
  | [] => (s, [])
  | c :: t => let '(s1, o) := step fl a h s c in
              let '(s2, os) := run fl a h s1 t in (s2, o :: os)
  end.

(* What a failed call amounts to: the public state-reset call that has the same effect.  `prune` replaces every failed
   call of a history by it — the result is what the harness replays on a FRESH emitter.  (A bind that fails with
   kInvalidDisplacement is the one failed call with a lasting effect — the label IS bound, C03's domain — and is kept.) *)
Definition residual (fl : flavour) (c : cmd) (o : outcome) : list cmd :=
  match c with
  | CInst _ => [CResetState]
  | CBind _ _ => match fl with
                 | FAssembler => if o_ret o =? kInvalidDisplacement then [c] else [CResetComment]
                 | _ => []
                 end
  | CBindAtomic _ _ => match fl with FAssembler => [CResetComment] | _ => [] end
  | CEmbedConstPool _ _ _ => match fl with FAssembler => if o_ret o =? kInvalidDisplacement then [CResetComment] else [] | _ => [] end
  | _ => []
  end.

Fixpoint prune (fl : flavour) (a : arch) (h : handler) (s : state) (cs : list cmd) : list cmd :=
  match cs with
  | [] => []
  | c :: t => let '(s1, o) := step fl a h s c in
              (if failed o then residual fl c o else [c]) ++ prune fl a h s1 t
  end.

Definition patchfail_free (c : cmd) : bool := match c with CBind _ pf => pf <=? 0 | _ => true end.

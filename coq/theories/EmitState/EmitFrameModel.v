(* C14 — frame conditions of one public emitter call: which components of the persistent state a call of a given kind MAY
   touch (its footprint).  Definitions only; proofs in EmitFrameProofs.v. *)
From Coq Require Import ZArith List Bool.
From Verif Require Import EmitState.EmitStateModel.
Import ListNotations.
Local Open Scope Z_scope.

Record footprint := mkFp {
  fp_sizes : bool; fp_cur : bool; fp_labels : bool; fp_fixups : bool; fp_relocs : bool; fp_addrs : bool; fp_nodes : bool }.

Definition fp_none : footprint := mkFp false false false false false false false.

(* the footprint of a call, by emitter flavour; setters and the reset calls touch the one-shot state only *)
Definition footprint_of (fl : flavour) (c : cmd) : footprint :=
  match fl, c with
  | _, CSetOptions _ | _, CSetExtra _ _ | _, CSetComment | _, CResetState | _, CResetComment => fp_none
  | _, CNewLabel | _, CNewNamedLabel _ _ _ _ => mkFp false false true false false false false
  | _, CNewSection _ _ => mkFp true false false false false false false
  | FAssembler, CInst _ => mkFp true false true true true true false            (* bytes, label fixup chain, fixups, relocations, address table *)
  | FAssembler, CBind _ _ | FAssembler, CBindAtomic _ _ => mkFp false false true true false false false
  | FAssembler, CAlign _ _ | FAssembler, CEmbed _ => mkFp true false false false false false false
  | FAssembler, CEmbedLabel _ _ => mkFp true false true true true false false
  | FAssembler, CEmbedLabelDelta _ _ _ => mkFp true false false false true false false
  | FAssembler, CSection _ _ => mkFp false true false false false false false
  | FAssembler, CEmbedConstPool _ _ _ => mkFp true false true true false false false
  | _, CInst _ | _, CAlign _ _ | _, CEmbed _ | _, CEmbedLabel _ _ | _, CEmbedLabelDelta _ _ _ => mkFp false false false false false false true
  | _, CBind _ _ | _, CBindAtomic _ _ | _, CEmbedConstPool _ _ _ => mkFp false false true false false false true
  | _, CSection _ _ => fp_none
  end.

(* sections other than the current one and than a freshly appended one *)
Definition other_sections_kept (s s' : state) : Prop :=
  forall i, i <> st_cur s -> 0 <= i < lenZ (st_sizes s) -> nthZ (st_sizes s') i = nthZ (st_sizes s) i.

(* sizes only grow: every section that exists keeps existing and its size does not decrease *)
Definition sizes_le (s s' : state) : Prop :=
  forall i v, nthZ (st_sizes s) i = Some v -> exists v', nthZ (st_sizes s') i = Some v' /\ v <= v'.

(* byte counts handed to the emitter are not negative (what the real API takes as size_t / what an encoder reports) *)
Definition cmd_nonneg (c : cmd) : Prop :=
  match c with
  | CInst (EncOk n _ _ _ _ _) => 0 <= n
  | CEmbed n => 0 <= n
  | CEmbedConstPool _ size _ => 0 <= size
  | _ => True
  end.

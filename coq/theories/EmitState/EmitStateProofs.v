(* C14 — proofs about the emitter state machine of EmitStateModel.v *)
From Coq Require Import ZArith List Bool Lia.
From Verif Require Import EmitState.EmitStateModel.
Import ListNotations.
Local Open Scope Z_scope.

(* ---------------------------------------------------------------- small facts *)
Lemma persistent_clear_one : forall s, persistent (clear_one s) = persistent s.
Proof. reflexivity. Qed.

Lemma persistent_clear_comment : forall s, persistent (clear_comment s) = persistent s.
Proof. reflexivity. Qed.

Lemma report_ret : forall h e, o_ret (report h e) = e.
Proof. destruct h; reflexivity. Qed.

Lemma report_calls : forall h e, o_calls (report h e) = match h with HNone => [] | _ => [e] end.
Proof. destruct h; reflexivity. Qed.

Lemma report_thrown : forall h e, o_thrown (report h e) = match h with HThrow => true | _ => false end.
Proof. destruct h; reflexivity. Qed.

Lemma failed_ok : failed ok_out = false.
Proof. reflexivity. Qed.

Ltac inv H := inversion H; clear H; repeat match goal with | [ E : ?x = ?y |- _ ] => is_var y; subst y end; subst.

(* which state-reset a failed call amounts to *)
Definition after_failure (fl : flavour) (c : cmd) (o : outcome) (s : state) : state :=
  match c with
  | CInst _ => clear_one s
  | CBind _ _ | CBindAtomic _ _ => match fl with FAssembler => clear_comment s | _ => s end
  | CEmbedConstPool _ _ _ => match fl with FAssembler => if o_ret o =? kInvalidDisplacement then clear_comment s else s | _ => s end
  | _ => s
  end.

(* the one failed call that has a lasting effect: an Assembler bind whose fixups cannot all be patched *)
Definition partial_bind (fl : flavour) (c : cmd) (o : outcome) : Prop :=
  fl = FAssembler /\ (exists id pf, c = CBind id pf) /\ o_ret o = kInvalidDisplacement.

(* ---------------------------------------------------------------- the key lemma: a failed call IS a state reset *)
Lemma failed_step_state : forall fl a h s c s' o,
  step fl a h s c = (s', o) -> failed o = true -> ~ partial_bind fl c o ->
  s' = after_failure fl c o s.
Proof.
  intros fl a h s c s' o H F NP.
  destruct c; cbn [step after_failure] in *.
  - inv H; discriminate.
  - inv H; discriminate.
  - inv H; discriminate.
  - inv H; discriminate.
  - inv H; discriminate.
  - (* CInst *)
    destruct fl; cbn [emit_assembler emit_builder fail_inst] in H; destruct r; inv H; try discriminate; reflexivity.
  - inv H; discriminate.
  - (* CNewNamedLabel *)
    destruct (named_label_error s namelen type parent dup =? 0); inv H; [discriminate | reflexivity].
  - (* CBind *)
    destruct fl.
    + unfold bind_assembler in H.
      destruct (nthZ (st_labels s) id) as [[p | sec off] |]; try (inv H; reflexivity).
      destruct (0 <? Z.max 0 (Z.min patchfail (count_resolvable (st_cur s) p))) eqn:E.
      * exfalso. apply NP. inv H. split; [reflexivity | split; [eauto | apply report_ret]].
      * inv H. discriminate.
    + unfold bind_builder in H. destruct (nthZ (st_labels s) id) as [[[| f p] | sec off] |]; inv H; try discriminate; reflexivity.
    + unfold bind_builder in H. destruct (nthZ (st_labels s) id) as [[[| f p] | sec off] |]; inv H; try discriminate; reflexivity.
  - (* CAlign *)
    destruct fl; try (inv H; discriminate).
    unfold align_assembler in H.
    destruct (kAlignModeMax <? mode); [inv H; reflexivity |].
    destruct (n <=? 1); [inv H; discriminate |].
    destruct (negb (is_pow2_up_to n kMaxAlignment)); [inv H; reflexivity |].
    destruct ((- cur_size s) mod n =? 0); [inv H; discriminate |].
    destruct a; try (inv H; discriminate).
    destruct ((mode =? 0) && negb (cur_size s mod 4 =? 0)); inv H; [reflexivity | discriminate].
  - destruct fl; inv H; discriminate.
  - (* CEmbedLabel *)
    destruct fl.
    + unfold embed_label_assembler in H.
      destruct (nthZ (st_labels s) id); [| inv H; reflexivity].
      destruct (negb (is_pow2_up_to (if size =? 0 then reg_size a else size) 8)); inv H; [reflexivity | discriminate].
    + unfold embed_label_builder in H. destruct ((size =? 0) || is_pow2_up_to size 8); inv H; [discriminate | reflexivity].
    + unfold embed_label_builder in H. destruct ((size =? 0) || is_pow2_up_to size 8); inv H; [discriminate | reflexivity].
  - (* CSection *)
    destruct fl; try (inv H; discriminate).
    unfold section_assembler in H.
    destruct ((0 <=? id) && (id <? lenZ (st_sizes s)) && negb foreign); inv H; [discriminate | reflexivity].
  - (* CNewSection *)
    unfold new_section in H.
    destruct (negb (is_zero_or_pow2 align)); [inv H; reflexivity |].
    destruct (kMaxSectionNameSize <? namelen); inv H; [reflexivity | discriminate].
  - (* CEmbedLabelDelta *)
    destruct fl.
    + unfold embed_label_delta_assembler in H.
      destruct (nthZ (st_labels s) id) as [l |]; [| inv H; reflexivity].
      destruct (nthZ (st_labels s) base) as [b |]; [| inv H; reflexivity].
      destruct (negb (is_pow2_up_to (if size =? 0 then reg_size a else size) 8)); [inv H; reflexivity |].
      destruct l as [pl | s1 o1]; [inv H; discriminate |].
      destruct b as [pb | s2 o2]; [inv H; discriminate |].
      destruct (s1 =? s2); [| inv H; discriminate].
      destruct (_ && _); inv H; [reflexivity | discriminate].
    + unfold embed_label_builder in H. destruct ((size =? 0) || is_pow2_up_to size 8); inv H; [discriminate | reflexivity].
    + unfold embed_label_builder in H. destruct ((size =? 0) || is_pow2_up_to size 8); inv H; [discriminate | reflexivity].
  - (* CBindAtomic *)
    destruct fl.
    + unfold bind_assembler_atomic in H.
      destruct (nthZ (st_labels s) id) as [[p | sec off] |]; try (inv H; reflexivity).
      destruct (0 <? unpatchable_count s p); inv H; [reflexivity | discriminate].
    + unfold bind_builder in H. destruct (nthZ (st_labels s) id) as [[[| f p] | sec off] |]; inv H; try discriminate; reflexivity.
    + unfold bind_builder in H. destruct (nthZ (st_labels s) id) as [[[| f p] | sec off] |]; inv H; try discriminate; reflexivity.
  - (* CEmbedConstPool *)
    destruct fl.
    + unfold embed_const_pool_assembler in H.
      destruct (nthZ (st_labels s) id) as [[p | sec off] |].
      * destruct (0 <? unpatchable_count _ p); inv H; [| discriminate].
        rewrite report_ret. reflexivity.
      * inv H. rewrite report_ret. reflexivity.
      * inv H. rewrite report_ret. reflexivity.
    + unfold embed_const_pool_builder in H. destruct (nthZ (st_labels s) id) as [[[| f p] | sec off] |]; inv H; try discriminate; reflexivity.
    + unfold embed_const_pool_builder in H. destruct (nthZ (st_labels s) id) as [[[| f p] | sec off] |]; inv H; try discriminate; reflexivity.
Qed.

Lemma persistent_after_failure : forall fl c o s, persistent (after_failure fl c o s) = persistent s.
Proof. intros fl c o s; destruct c; try reflexivity; destruct fl; try reflexivity. cbn. destruct (o_ret o =? kInvalidDisplacement); reflexivity. Qed.

(* ---------------------------------------------------------------- C14 theorems *)
(* a failed call appends no bytes, creates no labels / fixups / relocations / address-table entries / nodes, does not
   switch section — for every flavour, architecture, handler kind (also a throwing one), state and call *)
Theorem failed_call_no_effect : forall fl a h s c s' o,
  step fl a h s c = (s', o) -> failed o = true -> ~ partial_bind fl c o ->
  persistent s' = persistent s.
Proof.
  intros. rewrite (failed_step_state _ _ _ _ _ _ _ H H0 H1). apply persistent_after_failure.
Qed.

(* on a tree whose bind is atomic (every bind is a CBindAtomic) no guard is needed: EVERY failed call is free of effects *)
Definition no_legacy_bind (c : cmd) : bool := match c with CBind _ _ => false | _ => true end.

Theorem failed_call_no_effect_atomic : forall fl a h s c s' o,
  no_legacy_bind c = true -> step fl a h s c = (s', o) -> failed o = true -> persistent s' = persistent s.
Proof.
  intros fl a h s c s' o N H F. eapply failed_call_no_effect; try eassumption.
  intros [_ [[id [pf E]] _]]. subst c. discriminate N.
Qed.

Example atomic_bind_refuses : 
  step FAssembler X86_64 HReturn (mkState [200] 0 [LUnbound [mkFix 0 false 10 (-1) 8 0]] 1 0 0 0 one_clear) (CBindAtomic 0 1)
  = (mkState [200] 0 [LUnbound [mkFix 0 false 10 (-1) 8 0]] 1 0 0 0 one_clear, report HReturn kInvalidDisplacement).
Proof. reflexivity. Qed.

(* the guard is necessary: the faithful model of bind_label binds the label although it reports kInvalidDisplacement *)
Theorem failed_bind_displacement_refuted : exists fl a h s c s' o,
  step fl a h s c = (s', o) /\ failed o = true /\ persistent s' <> persistent s.
Proof.
  exists FAssembler, X86_64, HReturn,
    (mkState [200] 0 [LUnbound [mkFix 0 false 10 (-1) 8 0]] 1 0 0 0 one_clear), (CBind 0 1).
  eexists. eexists. split; [reflexivity |]. split; [reflexivity |]. cbv. intro H. discriminate H.
Qed.

Example failed_call_no_effect_satisfiable : exists fl a h s c s' o,
  step fl a h s c = (s', o) /\ failed o = true /\ ~ partial_bind fl c o.
Proof.
  exists FAssembler, X86_32, HThrow, init_state, (CInst (EncErr kInvalidLabel)). eexists. eexists.
  split; [reflexivity |]. split; [reflexivity |]. intros [_ [[id [pf E]] _]]. discriminate E.
Qed.

(* a failed instruction clears the one-shot state (options, extra register, inline comment) — every flavour, every
   handler: the reset precedes the report, so it also holds when the handler throws *)
Theorem state_cleared : forall fl a h s r s' o,
  step fl a h s (CInst r) = (s', o) -> failed o = true -> st_one s' = one_clear.
Proof.
  intros fl a h s r s' o H F.
  destruct fl; cbn in H; destruct r; inv H; try discriminate; reflexivity.
Qed.

(* ... and so does an accepted one *)
Theorem state_consumed : forall fl a h s r s' o,
  step fl a h s (CInst r) = (s', o) -> st_one s' = one_clear.
Proof.
  intros fl a h s r s' o H.
  destruct fl; cbn in H; destruct r; inv H; reflexivity.
Qed.

(* every failed emitter call reports the error exactly once through the attached handler and (unless the handler throws)
   returns it; with no handler nothing is reported; a successful call reports nothing.  CodeHolder::new_section is not
   an emitter call (its errors are only returned). *)
Definition is_new_section (c : cmd) : bool := match c with CNewSection _ _ => true | _ => false end.
Definition returns_label (c : cmd) : bool := match c with CNewLabel | CNewNamedLabel _ _ _ _ => true | _ => false end.

(* an encoder verdict "error" carries a real error code (never kOk) *)
Definition wf_cmd (c : cmd) : Prop := match c with CInst (EncErr e) => e <> 0 | _ => True end.

Theorem reports_once : forall fl a h s c s' o,
  wf_cmd c ->
  step fl a h s c = (s', o) -> failed o = true -> is_new_section c = false ->
  exists e, e <> 0 /\
    o_calls o = match h with HNone => [] | _ => [e] end /\
    o_thrown o = match h with HThrow => true | _ => false end /\
    (returns_label c = false -> o_ret o = e).
Proof.
  intros fl a h s c s' o WF H F NS.
  assert (R : forall e, e <> 0 -> o = report h e \/ (returns_label c = true /\ o_calls o = o_calls (report h e) /\ o_thrown o = o_thrown (report h e)) ->
              exists e0, e0 <> 0 /\ o_calls o = match h with HNone => [] | _ => [e0] end /\
                o_thrown o = match h with HThrow => true | _ => false end /\ (returns_label c = false -> o_ret o = e0)).
  { intros e Ne [-> | [RL [C T]]]; exists e; (split; [exact Ne |]).
    - rewrite report_calls, report_thrown, report_ret. auto.
    - rewrite C, T, report_calls, report_thrown. repeat split; auto. rewrite RL; discriminate. }
  destruct c; cbn [step is_new_section] in *; try discriminate; try (inv H; discriminate).
  - (* CInst *)
    destruct fl; cbn in H; destruct r; inv H; try discriminate;
      (apply (R e); [exact WF | left; reflexivity]).
  - (* CNewNamedLabel *)
    destruct (named_label_error s namelen type parent dup =? 0) eqn:E; inv H; [discriminate |].
    apply (R (named_label_error s namelen type parent dup)); [apply Z.eqb_neq; exact E |].
    right. cbn. auto.
  - (* CBind *)
    destruct fl.
    + unfold bind_assembler in H.
      destruct (nthZ (st_labels s) id) as [[p | sec off] |].
      * destruct (0 <? Z.max 0 (Z.min patchfail (count_resolvable (st_cur s) p))); inv H; [| discriminate].
        apply (R kInvalidDisplacement); [discriminate | left; reflexivity].
      * inv H. apply (R kLabelAlreadyBound); [discriminate | left; reflexivity].
      * inv H. apply (R kInvalidLabel); [discriminate | left; reflexivity].
    + unfold bind_builder in H. destruct (nthZ (st_labels s) id) as [[[| f p] | sec off] |]; inv H; try discriminate;
        try (apply (R kLabelAlreadyBound); [discriminate | left; reflexivity]);
        apply (R kInvalidLabel); [discriminate | left; reflexivity].
    + unfold bind_builder in H. destruct (nthZ (st_labels s) id) as [[[| f p] | sec off] |]; inv H; try discriminate;
        try (apply (R kLabelAlreadyBound); [discriminate | left; reflexivity]);
        apply (R kInvalidLabel); [discriminate | left; reflexivity].
  - (* CAlign *)
    destruct fl; try (inv H; discriminate).
    unfold align_assembler in H.
    destruct (kAlignModeMax <? mode); [inv H; apply (R kInvalidArgument); [discriminate | left; reflexivity] |].
    destruct (n <=? 1); [inv H; discriminate |].
    destruct (negb (is_pow2_up_to n kMaxAlignment)); [inv H; apply (R kInvalidArgument); [discriminate | left; reflexivity] |].
    destruct ((- cur_size s) mod n =? 0); [inv H; discriminate |].
    destruct a; try (inv H; discriminate).
    destruct ((mode =? 0) && negb (cur_size s mod 4 =? 0)); inv H; [| discriminate].
    apply (R kInvalidState); [discriminate | left; reflexivity].
  - destruct fl; inv H; discriminate.
  - (* CEmbedLabel *)
    destruct fl.
    + unfold embed_label_assembler in H.
      destruct (nthZ (st_labels s) id); [| inv H; apply (R kInvalidLabel); [discriminate | left; reflexivity]].
      destruct (negb (is_pow2_up_to (if size =? 0 then reg_size a else size) 8)); inv H; [| discriminate].
      apply (R kInvalidOperandSize); [discriminate | left; reflexivity].
    + unfold embed_label_builder in H. destruct ((size =? 0) || is_pow2_up_to size 8); inv H; [discriminate |].
      apply (R kInvalidOperandSize); [discriminate | left; reflexivity].
    + unfold embed_label_builder in H. destruct ((size =? 0) || is_pow2_up_to size 8); inv H; [discriminate |].
      apply (R kInvalidOperandSize); [discriminate | left; reflexivity].
  - (* CSection *)
    destruct fl; try (inv H; discriminate).
    unfold section_assembler in H.
    destruct ((0 <=? id) && (id <? lenZ (st_sizes s)) && negb foreign); inv H; [discriminate |].
    apply (R kInvalidSection); [discriminate | left; reflexivity].
  - (* CEmbedLabelDelta *)
    destruct fl.
    + unfold embed_label_delta_assembler in H.
      destruct (nthZ (st_labels s) id) as [l |]; [| inv H; apply (R kInvalidLabel); [discriminate | left; reflexivity]].
      destruct (nthZ (st_labels s) base) as [b |]; [| inv H; apply (R kInvalidLabel); [discriminate | left; reflexivity]].
      destruct (negb (is_pow2_up_to (if size =? 0 then reg_size a else size) 8)); [inv H; apply (R kInvalidOperandSize); [discriminate | left; reflexivity] |].
      destruct l as [pl | s1 o1]; [inv H; discriminate |].
      destruct b as [pb | s2 o2]; [inv H; discriminate |].
      destruct (s1 =? s2); [| inv H; discriminate].
      destruct (_ && _); inv H; [| discriminate].
      apply (R kInvalidDisplacement); [discriminate | left; reflexivity].
    + unfold embed_label_builder in H. destruct ((size =? 0) || is_pow2_up_to size 8); inv H; [discriminate |].
      apply (R kInvalidOperandSize); [discriminate | left; reflexivity].
    + unfold embed_label_builder in H. destruct ((size =? 0) || is_pow2_up_to size 8); inv H; [discriminate |].
      apply (R kInvalidOperandSize); [discriminate | left; reflexivity].
  - (* CBindAtomic *)
    destruct fl.
    + unfold bind_assembler_atomic in H.
      destruct (nthZ (st_labels s) id) as [[p | sec off] |].
      * destruct (0 <? unpatchable_count s p); inv H; [| discriminate].
        apply (R kInvalidDisplacement); [discriminate | left; reflexivity].
      * inv H. apply (R kLabelAlreadyBound); [discriminate | left; reflexivity].
      * inv H. apply (R kInvalidLabel); [discriminate | left; reflexivity].
    + unfold bind_builder in H. destruct (nthZ (st_labels s) id) as [[[| f p] | sec off] |]; inv H; try discriminate;
        try (apply (R kLabelAlreadyBound); [discriminate | left; reflexivity]);
        apply (R kInvalidLabel); [discriminate | left; reflexivity].
    + unfold bind_builder in H. destruct (nthZ (st_labels s) id) as [[[| f p] | sec off] |]; inv H; try discriminate;
        try (apply (R kLabelAlreadyBound); [discriminate | left; reflexivity]);
        apply (R kInvalidLabel); [discriminate | left; reflexivity].
  - (* CEmbedConstPool *)
    destruct fl.
    + unfold embed_const_pool_assembler in H.
      destruct (nthZ (st_labels s) id) as [[p | sec off] |].
      * destruct (0 <? unpatchable_count _ p); inv H; [| discriminate].
        apply (R kInvalidDisplacement); [discriminate | left; reflexivity].
      * inv H. apply (R kLabelAlreadyBound); [discriminate | left; reflexivity].
      * inv H. apply (R kInvalidLabel); [discriminate | left; reflexivity].
    + unfold embed_const_pool_builder in H. destruct (nthZ (st_labels s) id) as [[[| f p] | sec off] |]; inv H; try discriminate;
        try (apply (R kLabelAlreadyBound); [discriminate | left; reflexivity]);
        apply (R kInvalidLabel); [discriminate | left; reflexivity].
    + unfold embed_const_pool_builder in H. destruct (nthZ (st_labels s) id) as [[[| f p] | sec off] |]; inv H; try discriminate;
        try (apply (R kLabelAlreadyBound); [discriminate | left; reflexivity]);
        apply (R kInvalidLabel); [discriminate | left; reflexivity].
Qed.

Theorem success_reports_nothing : forall fl a h s c s' o,
  wf_cmd c ->
  step fl a h s c = (s', o) -> failed o = false -> o_calls o = [] /\ o_thrown o = false.
Proof.
  intros fl a h s c s' o WF H F.
  unfold failed in F. apply orb_false_elim in F. destruct F as [F1 F2].
  split; [| exact F2].
  apply negb_false_iff in F1. apply Z.eqb_eq in F1.
  assert (R : forall e, e <> 0 -> o = report h e -> o_calls o = []).
  { intros e Ne ->. rewrite report_ret in F1. contradiction. }
  destruct c; cbn [step] in *; try (inv H; reflexivity).
  - destruct fl; cbn in H; destruct r; inv H; try reflexivity;
      rewrite report_ret in F1; subst; exfalso; apply WF; reflexivity.
  - destruct (named_label_error s namelen type parent dup =? 0); inv H; [reflexivity | discriminate F1].
  - destruct fl.
    + unfold bind_assembler in H.
      destruct (nthZ (st_labels s) id) as [[p | sec off] |].
      * destruct (0 <? Z.max 0 (Z.min patchfail (count_resolvable (st_cur s) p))); inv H; [| reflexivity].
        eapply R; [| reflexivity]; discriminate.
      * inv H. eapply R; [| reflexivity]; discriminate.
      * inv H. eapply R; [| reflexivity]; discriminate.
    + unfold bind_builder in H. destruct (nthZ (st_labels s) id) as [[[| f p] | sec off] |]; inv H; try reflexivity; (eapply R; [| reflexivity]; discriminate).
    + unfold bind_builder in H. destruct (nthZ (st_labels s) id) as [[[| f p] | sec off] |]; inv H; try reflexivity; (eapply R; [| reflexivity]; discriminate).
  - destruct fl; try (inv H; reflexivity).
    unfold align_assembler in H.
    destruct (kAlignModeMax <? mode); [inv H; eapply R; [| reflexivity]; discriminate |].
    destruct (n <=? 1); [inv H; reflexivity |].
    destruct (negb (is_pow2_up_to n kMaxAlignment)); [inv H; eapply R; [| reflexivity]; discriminate |].
    destruct ((- cur_size s) mod n =? 0); [inv H; reflexivity |].
    destruct a; try (inv H; reflexivity).
    destruct ((mode =? 0) && negb (cur_size s mod 4 =? 0)); inv H; [| reflexivity].
    eapply R; [| reflexivity]; discriminate.
  - destruct fl; inv H; reflexivity.
  - destruct fl.
    + unfold embed_label_assembler in H.
      destruct (nthZ (st_labels s) id); [| inv H; eapply R; [| reflexivity]; discriminate].
      destruct (negb (is_pow2_up_to (if size =? 0 then reg_size a else size) 8)); inv H; [| reflexivity].
      eapply R; [| reflexivity]; discriminate.
    + unfold embed_label_builder in H. destruct ((size =? 0) || is_pow2_up_to size 8); inv H; [reflexivity |]. eapply R; [| reflexivity]; discriminate.
    + unfold embed_label_builder in H. destruct ((size =? 0) || is_pow2_up_to size 8); inv H; [reflexivity |]. eapply R; [| reflexivity]; discriminate.
  - destruct fl; try (inv H; reflexivity).
    unfold section_assembler in H.
    destruct ((0 <=? id) && (id <? lenZ (st_sizes s)) && negb foreign); inv H; [reflexivity |].
    eapply R; [| reflexivity]; discriminate.
  - unfold new_section in H.
    destruct (negb (is_zero_or_pow2 align)); [inv H; reflexivity |].
    destruct (kMaxSectionNameSize <? namelen); inv H; reflexivity.
  - destruct fl.
    + unfold embed_label_delta_assembler in H.
      destruct (nthZ (st_labels s) id) as [l |]; [| inv H; eapply R; [| reflexivity]; discriminate].
      destruct (nthZ (st_labels s) base) as [b |]; [| inv H; eapply R; [| reflexivity]; discriminate].
      destruct (negb (is_pow2_up_to (if size =? 0 then reg_size a else size) 8)); [inv H; eapply R; [| reflexivity]; discriminate |].
      destruct l as [pl | s1 o1]; [inv H; reflexivity |].
      destruct b as [pb | s2 o2]; [inv H; reflexivity |].
      destruct (s1 =? s2); [| inv H; reflexivity].
      destruct (_ && _); inv H; [| reflexivity].
      eapply R; [| reflexivity]; discriminate.
    + unfold embed_label_builder in H. destruct ((size =? 0) || is_pow2_up_to size 8); inv H; [reflexivity |]. eapply R; [| reflexivity]; discriminate.
    + unfold embed_label_builder in H. destruct ((size =? 0) || is_pow2_up_to size 8); inv H; [reflexivity |]. eapply R; [| reflexivity]; discriminate.
  - destruct fl.
    + unfold bind_assembler_atomic in H.
      destruct (nthZ (st_labels s) id) as [[p | sec off] |].
      * destruct (0 <? unpatchable_count s p); inv H; [| reflexivity].
        eapply R; [| reflexivity]; discriminate.
      * inv H. eapply R; [| reflexivity]; discriminate.
      * inv H. eapply R; [| reflexivity]; discriminate.
    + unfold bind_builder in H. destruct (nthZ (st_labels s) id) as [[[| f p] | sec off] |]; inv H; try reflexivity; (eapply R; [| reflexivity]; discriminate).
    + unfold bind_builder in H. destruct (nthZ (st_labels s) id) as [[[| f p] | sec off] |]; inv H; try reflexivity; (eapply R; [| reflexivity]; discriminate).
  - destruct fl.
    + unfold embed_const_pool_assembler in H.
      destruct (nthZ (st_labels s) id) as [[p | sec off] |].
      * destruct (0 <? unpatchable_count _ p); inv H; [| reflexivity]. eapply R; [| reflexivity]; discriminate.
      * inv H. eapply R; [| reflexivity]; discriminate.
      * inv H. eapply R; [| reflexivity]; discriminate.
    + unfold embed_const_pool_builder in H. destruct (nthZ (st_labels s) id) as [[[| f p] | sec off] |]; inv H; try reflexivity; (eapply R; [| reflexivity]; discriminate).
    + unfold embed_const_pool_builder in H. destruct (nthZ (st_labels s) id) as [[[| f p] | sec off] |]; inv H; try reflexivity; (eapply R; [| reflexivity]; discriminate).
Qed.

Lemma bind_state_handler_irrelevant : forall h1 h2 s id pf,
  fst (bind_assembler_atomic h1 s id pf) = fst (bind_assembler_atomic h2 s id pf).
Proof.
  intros. unfold bind_assembler_atomic. destruct (nthZ (st_labels s) id) as [[p | sec off] |]; try reflexivity.
  destruct (0 <? unpatchable_count s p); reflexivity.
Qed.

(* the state after a call does not depend on the handler kind — in particular a throwing handler leaves exactly the
   state a returning one leaves *)
Theorem handler_irrelevant_for_state : forall fl a h1 h2 s c,
  fst (step fl a h1 s c) = fst (step fl a h2 s c).
Proof.
  intros fl a h1 h2 s c.
  destruct c; cbn [step]; try reflexivity.
  - destruct fl; cbn; destruct r; reflexivity.
  - destruct (named_label_error s namelen type parent dup =? 0); reflexivity.
  - destruct fl; [unfold bind_assembler | unfold bind_builder | unfold bind_builder].
    + destruct (nthZ (st_labels s) id) as [[p | sec off] |]; try reflexivity.
    + destruct (nthZ (st_labels s) id) as [[[| f p] | sec off] |]; reflexivity.
    + destruct (nthZ (st_labels s) id) as [[[| f p] | sec off] |]; reflexivity.
  - destruct fl; try reflexivity. unfold align_assembler.
    destruct (kAlignModeMax <? mode); [reflexivity |].
    destruct (n <=? 1); [reflexivity |].
    destruct (negb (is_pow2_up_to n kMaxAlignment)); [reflexivity |].
    destruct ((- cur_size s) mod n =? 0); [reflexivity |].
    destruct a; try reflexivity.
    destruct ((mode =? 0) && negb (cur_size s mod 4 =? 0)); reflexivity.
  - destruct fl; [unfold embed_label_assembler | unfold embed_label_builder | unfold embed_label_builder].
    + destruct (nthZ (st_labels s) id); [| reflexivity].
      destruct (negb (is_pow2_up_to (if size =? 0 then reg_size a else size) 8)); reflexivity.
    + destruct ((size =? 0) || is_pow2_up_to size 8); reflexivity.
    + destruct ((size =? 0) || is_pow2_up_to size 8); reflexivity.
  - destruct fl; try reflexivity. unfold section_assembler.
    destruct ((0 <=? id) && (id <? lenZ (st_sizes s)) && negb foreign); reflexivity.
  - destruct fl; [unfold embed_label_delta_assembler | unfold embed_label_builder | unfold embed_label_builder].
    + destruct (nthZ (st_labels s) id) as [l |]; [| reflexivity].
      destruct (nthZ (st_labels s) base) as [b |]; [| reflexivity].
      destruct (negb (is_pow2_up_to (if size =? 0 then reg_size a else size) 8)); [reflexivity |].
      destruct l; [reflexivity |]. destruct b; [reflexivity |]. destruct (sec =? sec0); [| reflexivity]. destruct (_ && _); reflexivity.
    + destruct ((size =? 0) || is_pow2_up_to size 8); reflexivity.
    + destruct ((size =? 0) || is_pow2_up_to size 8); reflexivity.
  - destruct fl; [unfold bind_assembler_atomic | unfold bind_builder | unfold bind_builder].
    + destruct (nthZ (st_labels s) id) as [[p | sec off] |]; try reflexivity.
      destruct (0 <? unpatchable_count s p); reflexivity.
    + destruct (nthZ (st_labels s) id) as [[[| f p] | sec off] |]; reflexivity.
    + destruct (nthZ (st_labels s) id) as [[[| f p] | sec off] |]; reflexivity.
  - destruct fl; [unfold embed_const_pool_assembler | unfold embed_const_pool_builder | unfold embed_const_pool_builder].
    + destruct (nthZ (st_labels s) id) as [[p | sec off] |]; try reflexivity.
      destruct (0 <? unpatchable_count _ p); [reflexivity |].
      cbn [fst]. rewrite (bind_state_handler_irrelevant h1 h2). reflexivity.
    + destruct (nthZ (st_labels s) id) as [[[| f p] | sec off] |]; reflexivity.
    + destruct (nthZ (st_labels s) id) as [[[| f p] | sec off] |]; reflexivity.
Qed.

(* ---------------------------------------------------------------- fresh-emitter equivalence *)
Lemma run_app : forall fl a h cs1 cs2 s,
  fst (run fl a h s (cs1 ++ cs2)) = fst (run fl a h (fst (run fl a h s cs1)) cs2).
Proof.
  induction cs1 as [| c t IH]; intros cs2 s; [reflexivity |].
  cbn [app run]. destruct (step fl a h s c) as [s1 o] eqn:E.
  specialize (IH cs2 s1).
  destruct (run fl a h s1 (t ++ cs2)) as [s2 os] eqn:E2.
  destruct (run fl a h s1 t) as [s3 os3] eqn:E3.
  cbn [fst] in *. exact IH.
Qed.

Lemma run_single : forall fl a h s c, fst (run fl a h s [c]) = fst (step fl a h s c).
Proof. intros. cbn [run]. destruct (step fl a h s c). reflexivity. Qed.

(* running the residual of a failed call from the state before it gives the state after it *)
Lemma residual_state : forall fl a h s c s' o,
  step fl a h s c = (s', o) -> failed o = true ->
  fst (run fl a h s (residual fl c o)) = s'.
Proof.
  intros fl a h s c s' o H F.
  destruct c; try (rewrite (failed_step_state _ _ _ _ _ _ _ H F); [reflexivity | intros [_ [[i [p E]] _]]; discriminate E]);
    try (destruct fl; (rewrite (failed_step_state _ _ _ _ _ _ _ H F); [reflexivity | intros [_ [[i [p E]] _]]; discriminate E])).
  (* CBind *)
  cbn [residual]. destruct fl.
  - destruct (o_ret o =? kInvalidDisplacement) eqn:E.
    + rewrite run_single, H. reflexivity.
    + rewrite (failed_step_state _ _ _ _ _ _ _ H F); [reflexivity |].
      intros [_ [_ R]]. rewrite R in E. discriminate E.
  - rewrite (failed_step_state _ _ _ _ _ _ _ H F); [reflexivity | intros [X _]; discriminate X].
  - rewrite (failed_step_state _ _ _ _ _ _ _ H F); [reflexivity | intros [X _]; discriminate X].
  - (* CEmbedConstPool *)
    rewrite (failed_step_state _ _ _ _ _ _ _ H F); [| intros [_ [[i [p E]] _]]; discriminate E].
    cbn [residual after_failure]. destruct fl; try reflexivity. destruct (o_ret o =? kInvalidDisplacement); reflexivity.
Qed.

(* the whole state (one-shot part included) after a history equals the state after the pruned history: what the
   emitter produces after failures is exactly what it produces when given only the calls that succeeded — started
   from ANY state, in particular from the state of a fresh emitter *)
Theorem fresh_equivalent : forall fl a h cs s,
  fst (run fl a h s cs) = fst (run fl a h s (prune fl a h s cs)).
Proof.
  induction cs as [| c t IH]; intros s; [reflexivity |].
  cbn [prune]. destruct (step fl a h s c) as [s1 o] eqn:E.
  rewrite run_app.
  replace (fst (run fl a h s (if failed o then residual fl c o else [c]))) with s1.
  - rewrite <- IH. cbn [run]. rewrite E. destruct (run fl a h s1 t). reflexivity.
  - destruct (failed o) eqn:F.
    + symmetry. eapply residual_state; eassumption.
    + rewrite run_single, E. reflexivity.
Qed.

(* ... and the pruned history contains no failing call (for histories without the partial bind) *)
Lemma residual_ok : forall fl a h s c s' o,
  step fl a h s c = (s', o) -> failed o = true -> patchfail_free c = true ->
  forallb (fun x => negb (failed x)) (snd (run fl a h s (residual fl c o))) = true.
Proof.
  intros fl a h s c s' o H F PF.
  destruct c; try reflexivity; try (cbn [residual]; destruct fl; reflexivity);
    try (cbn [residual]; destruct fl; try reflexivity; destruct (o_ret o =? kInvalidDisplacement); reflexivity).
  cbn [residual]. destruct fl; try reflexivity.
  destruct (o_ret o =? kInvalidDisplacement) eqn:E; [| reflexivity].
  exfalso. cbn [step] in H. unfold bind_assembler in H. cbn [patchfail_free] in PF. apply Z.leb_le in PF.
  destruct (nthZ (st_labels s) id) as [[p | sec off] |].
  - replace (Z.max 0 (Z.min patchfail (count_resolvable (st_cur s) p))) with 0 in H by lia.
    cbn in H. inv H. discriminate.
  - inv H. rewrite report_ret in E. discriminate.
  - inv H. rewrite report_ret in E. discriminate.
Qed.

Lemma run_app_snd : forall fl a h cs1 cs2 s,
  snd (run fl a h s (cs1 ++ cs2)) = snd (run fl a h s cs1) ++ snd (run fl a h (fst (run fl a h s cs1)) cs2).
Proof.
  induction cs1 as [| c t IH]; intros cs2 s; [reflexivity |].
  cbn [app run]. destruct (step fl a h s c) as [s1 o] eqn:E.
  specialize (IH cs2 s1).
  destruct (run fl a h s1 (t ++ cs2)) as [s2 os] eqn:E2.
  destruct (run fl a h s1 t) as [s3 os3] eqn:E3.
  cbn [fst snd] in *. rewrite IH. reflexivity.
Qed.

Theorem pruned_history_succeeds : forall fl a h cs s,
  forallb patchfail_free cs = true ->
  forallb (fun x => negb (failed x)) (snd (run fl a h s (prune fl a h s cs))) = true.
Proof.
  induction cs as [| c t IH]; intros s PF; [reflexivity |].
  cbn [forallb] in PF. apply andb_true_iff in PF. destruct PF as [PF1 PF2].
  cbn [prune]. destruct (step fl a h s c) as [s1 o] eqn:E.
  rewrite run_app_snd, forallb_app.
  assert (S1 : fst (run fl a h s (if failed o then residual fl c o else [c])) = s1).
  { destruct (failed o) eqn:F.
    - eapply residual_state; eassumption.
    - rewrite run_single, E. reflexivity. }
  rewrite S1, (IH s1 PF2), andb_true_r.
  destruct (failed o) eqn:F.
  - eapply residual_ok; eassumption.
  - cbn [run]. rewrite E. cbn. rewrite F. reflexivity.
Qed.

Example pruned_history_example :
  prune FAssembler X86_64 HThrow init_state
    [CNewLabel; CSetOptions 8; CInst (EncErr kInvalidLabel); CBind 7 0; CInst (EncOk 3 None false 0 0 0); CAlign 9 4]
  = [CNewLabel; CSetOptions 8; CResetState; CResetComment; CInst (EncOk 3 None false 0 0 0)].
Proof. reflexivity. Qed.

(* ---------------------------------------------------------------- the refusal of a bind is computed, not supplied *)
Theorem bind_atomic_ignores_patchfail : forall h s id pf1 pf2,
  bind_assembler_atomic h s id pf1 = bind_assembler_atomic h s id pf2.
Proof. intros. unfold bind_assembler_atomic. destruct (nthZ (st_labels s) id) as [[p | sec off] |]; reflexivity. Qed.

Lemma lenZ_filter_pos : forall {A} (f : A -> bool) (l : list A), 0 < lenZ (filter f l) <-> exists x, In x l /\ f x = true.
Proof.
  intros A f l. unfold lenZ. split.
  - intros H. destruct (filter f l) as [| x t] eqn:E; [cbn in H; lia |].
    exists x. apply filter_In. rewrite E. left. reflexivity.
  - intros [x [I F]]. assert (In x (filter f l)) as I' by (apply filter_In; split; assumption).
    destruct (filter f l); [destruct I' | cbn [length]; lia].
Qed.

(* an (atomic) bind of an unbound label is refused with kInvalidDisplacement exactly when one of the label's pending
   fixups of the current section (not relocation-linked) has a displacement that its OffsetFormat cannot hold *)
Theorem bind_atomic_refuses_iff : forall h s id pf p,
  nthZ (st_labels s) id = Some (LUnbound p) ->
  (o_ret (snd (bind_assembler_atomic h s id pf)) = kInvalidDisplacement <->
   exists f, In f p /\ fx_reloc f = false /\ fx_section f = st_cur s /\ disp_fits f (cur_size s) = false).
Proof.
  intros h s id pf p L. unfold bind_assembler_atomic. rewrite L.
  destruct (0 <? unpatchable_count s p) eqn:E.
  - apply Z.ltb_lt in E. unfold unpatchable_count in E. apply lenZ_filter_pos in E. destruct E as [f [I F]].
    split; [intros _ | intros _; cbn [snd]; apply report_ret].
    exists f. apply andb_true_iff in F. destruct F as [F1 F3]. apply andb_true_iff in F1. destruct F1 as [F1 F2].
    repeat split; [exact I | apply negb_true_iff; exact F1 | apply Z.eqb_eq; exact F2 | apply negb_true_iff; exact F3].
  - apply Z.ltb_ge in E. split; [cbn; discriminate |].
    intros [f [I [R [S D]]]]. exfalso.
    assert (0 < unpatchable_count s p); [| lia].
    unfold unpatchable_count. apply lenZ_filter_pos. exists f. split; [exact I |].
    rewrite R, S, D, Z.eqb_refl. reflexivity.
Qed.

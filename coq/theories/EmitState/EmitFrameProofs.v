(* C14 — proofs of the frame conditions (EmitFrameModel.v). *)
From Coq Require Import ZArith List Bool Lia.
From Verif Require Import EmitState.EmitStateModel EmitState.EmitFrameModel EmitState.LookupProofs.
Import ListNotations.
Local Open Scope Z_scope.

Ltac frame_crush :=
  repeat match goal with
  | H : (let '(_, _) := ?x in _) = _ |- _ => destruct x
  | H : context [match ?x with _ => _ end] |- _ =>
      match type of x with
      | option _ => destruct x
      | label => destruct x
      | list _ => destruct x
      | bool => destruct x
      | arch => destruct x
      | enc_result => destruct x
      end
  | H : context [if ?c then _ else _] |- _ => destruct c
  end.

(* WHATEVER happens in a call - success, refusal, an exception out of the handler - no component outside the footprint of its
   kind changes: every flavour, architecture, handler kind, state, argument and encoder verdict *)
Theorem call_frame : forall fl a h s c s' o,
  step fl a h s c = (s', o) ->
  let fp := footprint_of fl c in
  (fp_sizes fp = false -> st_sizes s' = st_sizes s) /\
  (fp_cur fp = false -> st_cur s' = st_cur s) /\
  (fp_labels fp = false -> st_labels s' = st_labels s) /\
  (fp_fixups fp = false -> st_fixups s' = st_fixups s) /\
  (fp_relocs fp = false -> st_relocs s' = st_relocs s) /\
  (fp_addrs fp = false -> st_addrs s' = st_addrs s) /\
  (fp_nodes fp = false -> st_nodes s' = st_nodes s).
Proof.
  intros fl a h s c s' o H.
  destruct c; destruct fl; cbn [step] in H;
    unfold embed_const_pool_assembler, embed_const_pool_builder in H;
    unfold emit_assembler, emit_builder, fail_inst, commit_inst, bind_assembler, bind_assembler_atomic, bind_builder,
           align_assembler, embed_label_assembler, embed_label_builder, embed_label_delta_assembler, section_assembler,
           new_section in H;
    frame_crush; inversion H; subst; cbn; repeat split; intros; try reflexivity; try discriminate;
    unfold add_fixup; cbn; repeat (match goal with |- context [match ?x with _ => _ end] => destruct x end); reflexivity.
Qed.

(* ---------------------------------------------------------------- sections other than the current one *)
Lemma nthZ_updZ_other : forall {A} (l : list A) c v i, i <> c -> nthZ (updZ l c v) i = nthZ l i.
Proof.
  intros A l. induction l as [| x t IH]; intros c v i Hne; cbn [updZ nthZ]; [reflexivity |].
  destruct (c =? 0) eqn:C0.
  - apply Z.eqb_eq in C0. subst c. cbn [nthZ]. destruct (i =? 0) eqn:I0; [apply Z.eqb_eq in I0; lia | reflexivity].
  - cbn [nthZ]. destruct (i =? 0); [reflexivity |]. destruct (i <? 0); [reflexivity |]. apply IH. lia.
Qed.

Lemma nthZ_app_old : forall {A} (l r : list A) i, 0 <= i < lenZ l -> nthZ (l ++ r) i = nthZ l i.
Proof.
  intros A l. induction l as [| x t IH]; intros r i H; unfold lenZ in H; cbn [length] in H; [lia |].
  cbn [app nthZ]. destruct (i =? 0) eqn:I0; [reflexivity |]. apply Z.eqb_neq in I0.
  destruct (i <? 0) eqn:IN; [apply Z.ltb_lt in IN; lia |]. apply IH. unfold lenZ. lia.
Qed.

Lemma add_fixup_sizes : forall s r l, st_sizes (add_fixup s r l) = st_sizes s /\ st_cur (add_fixup s r l) = st_cur s.
Proof. intros s r l. unfold add_fixup. destruct (nthZ (st_labels s) (fr_label r)) as [[p | sec off] |]; split; reflexivity. Qed.

(* no call ever touches the size of a section other than the one the emitter is in (new sections are appended behind) *)
Theorem other_sections_untouched : forall fl a h s c s' o, step fl a h s c = (s', o) -> other_sections_kept s s'.
Proof.
  intros fl a h s c s' o H i Hne Hr.
  destruct c; destruct fl; cbn [step] in H;
    unfold embed_const_pool_assembler, embed_const_pool_builder in H;
    unfold emit_assembler, emit_builder, fail_inst, commit_inst, bind_assembler, bind_assembler_atomic, bind_builder,
           align_assembler, embed_label_assembler, embed_label_builder, embed_label_delta_assembler, section_assembler,
           new_section in H;
    frame_crush; inversion H; subst; clear H; cbn;
    repeat match goal with
    | |- context [st_sizes (add_fixup ?s ?r ?l)] => rewrite (proj1 (add_fixup_sizes s r l))
    | |- context [st_cur (add_fixup ?s ?r ?l)] => rewrite (proj2 (add_fixup_sizes s r l))
    end; cbn;
    rewrite ?nthZ_updZ_other by assumption; rewrite ?nthZ_app_old by assumption; try reflexivity;
    (match goal with |- context [if ?c then _ else _] => destruct c end); first [apply nthZ_app_old; assumption | reflexivity].
Qed.

(* ---------------------------------------------------------------- whole histories *)
(* a history made of calls whose footprints all exclude a component leaves that component as it was - however many of the
   calls fail, throw or succeed *)
Theorem history_frame : forall fl a h cs s s' os,
  run fl a h s cs = (s', os) ->
  ((forall c, In c cs -> fp_sizes (footprint_of fl c) = false) -> st_sizes s' = st_sizes s) /\
  ((forall c, In c cs -> fp_cur (footprint_of fl c) = false) -> st_cur s' = st_cur s) /\
  ((forall c, In c cs -> fp_labels (footprint_of fl c) = false) -> st_labels s' = st_labels s) /\
  ((forall c, In c cs -> fp_fixups (footprint_of fl c) = false) -> st_fixups s' = st_fixups s) /\
  ((forall c, In c cs -> fp_relocs (footprint_of fl c) = false) -> st_relocs s' = st_relocs s) /\
  ((forall c, In c cs -> fp_addrs (footprint_of fl c) = false) -> st_addrs s' = st_addrs s) /\
  ((forall c, In c cs -> fp_nodes (footprint_of fl c) = false) -> st_nodes s' = st_nodes s).
Proof.
  intros fl a h cs. induction cs as [| c t IH]; intros s s' os H.
  - cbn [run] in H. inversion H. repeat split; reflexivity.
  - cbn [run] in H. destruct (step fl a h s c) as [s1 o] eqn:S. destruct (run fl a h s1 t) as [s2 os2] eqn:R. inversion H. subst.
    pose proof (call_frame _ _ _ _ _ _ _ S) as F. cbv zeta in F. destruct F as [F1 [F2 [F3 [F4 [F5 [F6 F7]]]]]].
    destruct (IH _ _ _ R) as [I1 [I2 [I3 [I4 [I5 [I6 I7]]]]]].
    repeat split; intros A;
      [ rewrite I1, F1 | rewrite I2, F2 | rewrite I3, F3 | rewrite I4, F4 | rewrite I5, F5 | rewrite I6, F6 | rewrite I7, F7 ];
      try reflexivity; try (apply A; left; reflexivity); intros c0 Hc; apply A; right; exact Hc.
Qed.

(* non-vacuity: footprints are not all-true and not all-false; a concrete history that changes exactly what its footprint allows *)
Example frame_examples :
  footprint_of FAssembler (CSection 1 false) = mkFp false true false false false false false /\
  footprint_of FBuilder (CEmbed 4) = mkFp false false false false false false true /\
  (let '(s', _) := run FAssembler X86_64 HThrow init_state [CNewLabel; CEmbed 3; CInst (EncErr 26); CAlign 0 8; CBindAtomic 0 0; CBindAtomic 7 0] in
   (st_sizes s', st_labels s', st_fixups s', st_cur s')) = ([8], [LBound 0 8], 0, 0).
Proof. vm_compute. repeat split; reflexivity. Qed.

(* ---------------------------------------------------------------- a bound label is final *)
Lemma nthZ_app_some : forall {A} (l r : list A) i v, nthZ l i = Some v -> nthZ (l ++ r) i = Some v.
Proof.
  intros A l. induction l as [| x t IH]; intros r i v H; cbn [nthZ] in H; [discriminate H |].
  cbn [app nthZ]. destruct (i =? 0); [exact H |]. destruct (i <? 0); [discriminate H |]. apply IH. exact H.
Qed.

Lemma updZ_keeps_bound : forall (l : list label) id p v i sec off,
  nthZ l id = Some (LUnbound p) -> nthZ l i = Some (LBound sec off) -> nthZ (updZ l id v) i = Some (LBound sec off).
Proof.
  intros l id p v i sec off U B. rewrite nthZ_updZ_other; [exact B |].
  intros E. subst i. rewrite U in B. discriminate B.
Qed.

Lemma add_fixup_keeps_bound : forall s r lk i sec off,
  nthZ (st_labels s) i = Some (LBound sec off) -> nthZ (st_labels (add_fixup s r lk)) i = Some (LBound sec off).
Proof.
  intros s r lk i sec off B. unfold add_fixup. destruct (nthZ (st_labels s) (fr_label r)) as [[p | sc of] |] eqn:E; cbn; try exact B.
  eapply updZ_keeps_bound; eassumption.
Qed.

Ltac frame_crush_eqn :=
  repeat match goal with
  | H : context [match ?x with _ => _ end] |- _ =>
      match type of x with
      | option _ => destruct x eqn:?
      | label => destruct x eqn:?
      | list _ => destruct x eqn:?
      | bool => destruct x
      | arch => destruct x
      | enc_result => destruct x
      end
  | H : context [if ?c then _ else _] |- _ => destruct c
  end.

(* NO call - successful, refused or thrown out of - moves, rebinds or unbinds a label that is bound: binding is final *)
Theorem bound_label_final : forall fl a h s c s' o i sec off,
  step fl a h s c = (s', o) -> nthZ (st_labels s) i = Some (LBound sec off) -> nthZ (st_labels s') i = Some (LBound sec off).
Proof.
  intros fl a h s c s' o i sec off H B.
  destruct c; destruct fl; cbn [step] in H;
    unfold embed_const_pool_assembler, embed_const_pool_builder in H;
    unfold emit_assembler, emit_builder, fail_inst, commit_inst, bind_assembler, bind_assembler_atomic, bind_builder,
           align_assembler, embed_label_assembler, embed_label_builder, embed_label_delta_assembler, section_assembler,
           new_section, set_label in H;
    frame_crush_eqn; inversion H; subst; clear H; cbn;
    try exact B;
    try (apply nthZ_app_some; exact B);
    try (eapply updZ_keeps_bound; eassumption);
    try (apply add_fixup_keeps_bound; cbn; exact B).
Qed.

(* ... and labels are never removed: the label count only grows *)
Theorem label_count_monotone : forall fl a h s c s' o,
  step fl a h s c = (s', o) -> lenZ (st_labels s) <= lenZ (st_labels s').
Proof.
  intros fl a h s c s' o H.
  assert (U : forall (l : list label) id v, lenZ (updZ l id v) = lenZ l).
  { intros l. induction l as [| x t IH]; intros id v; cbn [updZ]; [reflexivity |].
    destruct (id =? 0); unfold lenZ in *; cbn [length]; [reflexivity | rewrite !Nat2Z.inj_succ, IH; reflexivity]. }
  assert (F : forall s r lk, lenZ (st_labels (add_fixup s r lk)) = lenZ (st_labels s)).
  { intros s0 r lk. unfold add_fixup. destruct (nthZ (st_labels s0) (fr_label r)) as [[p | sc of] |]; cbn; try reflexivity. apply U. }
  destruct c; destruct fl; cbn [step] in H;
    unfold embed_const_pool_assembler, embed_const_pool_builder in H;
    unfold emit_assembler, emit_builder, fail_inst, commit_inst, bind_assembler, bind_assembler_atomic, bind_builder,
           align_assembler, embed_label_assembler, embed_label_builder, embed_label_delta_assembler, section_assembler,
           new_section, set_label in H;
    frame_crush; inversion H; subst; clear H; cbn;
    rewrite ?F; cbn; rewrite ?U; try lia;
    unfold lenZ; rewrite app_length; cbn [length]; lia.
Qed.

Theorem history_bound_label_final : forall fl a h cs s s' os i sec off,
  run fl a h s cs = (s', os) -> nthZ (st_labels s) i = Some (LBound sec off) -> nthZ (st_labels s') i = Some (LBound sec off).
Proof.
  intros fl a h cs. induction cs as [| c t IH]; intros s s' os i sec off H B.
  - cbn [run] in H. inversion H. subst. exact B.
  - cbn [run] in H. destruct (step fl a h s c) as [s1 o] eqn:S. destruct (run fl a h s1 t) as [s2 os2] eqn:R. inversion H. subst.
    eapply IH; [exact R |]. eapply bound_label_final; eassumption.
Qed.

(* non-vacuity: a label bound at offset 3 survives a rebind attempt, a refused instruction, an invalid bind and new labels *)
Example bound_label_example :
  let '(s', os) := run FAssembler X86_64 HReturn init_state
                     [CNewLabel; CEmbed 3; CBindAtomic 0 0; CBindAtomic 0 0; CInst (EncErr 26); CNewLabel; CEmbed 5; CBindAtomic 9 0] in
  (nthZ (st_labels s') 0, map o_ret os) = (Some (LBound 0 3), [0; 0; 0; kLabelAlreadyBound; 26; 0; 0; kInvalidLabel]).
Proof. vm_compute. reflexivity. Qed.

(* ---------------------------------------------------------------- emitted bytes are never taken back *)
Lemma sizes_le_refl : forall s, sizes_le s s.
Proof. intros s i v H. exists v. split; [exact H | lia]. Qed.

Lemma sizes_le_trans : forall a b c, sizes_le a b -> sizes_le b c -> sizes_le a c.
Proof.
  intros a b c H1 H2 i v H. destruct (H1 i v H) as [v1 [E1 L1]]. destruct (H2 i v1 E1) as [v2 [E2 L2]]. exists v2. split; [exact E2 | lia].
Qed.

Lemma sizes_le_same : forall s s', st_sizes s' = st_sizes s -> sizes_le s s'.
Proof. intros s s' E i v H. rewrite E. exists v. split; [exact H | lia]. Qed.

Lemma nthZ_updZ_same : forall {A} (l : list A) c v w, nthZ l c = Some w -> nthZ (updZ l c v) c = Some v.
Proof.
  intros A l. induction l as [| x t IH]; intros c v w H; cbn [nthZ] in H; [discriminate H |].
  cbn [updZ]. destruct (c =? 0) eqn:C0; cbn [nthZ]; rewrite C0; [reflexivity |].
  destruct (c <? 0); [discriminate H |]. eapply IH. exact H.
Qed.

Lemma add_bytes_le : forall s n, 0 <= n -> sizes_le s (add_bytes s n).
Proof.
  intros s n Hn i v H. unfold add_bytes. cbn [st_sizes].
  destruct (Z.eq_dec i (st_cur s)) as [E | E].
  - subst i. exists (cur_size s + n). split; [eapply nthZ_updZ_same; exact H |]. unfold cur_size. rewrite H. lia.
  - rewrite nthZ_updZ_other by exact E. exists v. split; [exact H | lia].
Qed.

Lemma app_le : forall s s' x, st_sizes s' = st_sizes s ++ x -> sizes_le s s'.
Proof. intros s s' x E i v H. rewrite E. exists v. split; [apply nthZ_app_some; exact H | lia]. Qed.

Lemma pad_nonneg : forall a n, 0 < n -> 0 <= (- a) mod n.
Proof. intros a n H. apply Z.mod_pos_bound. exact H. Qed.

Lemma is_pow2_up_to_pos : forall n m, is_pow2_up_to n m = true -> 0 <= n.
Proof. intros n m H. unfold is_pow2_up_to, is_pow2 in H. apply andb_true_iff in H. destruct H as [H _]. apply andb_true_iff in H. destruct H as [H _]. apply Z.ltb_lt in H. lia. Qed.

Lemma add_fixup_sizes_le : forall s r lk, sizes_le s (add_fixup s r lk).
Proof. intros. apply sizes_le_same. apply (proj1 (add_fixup_sizes s r lk)). Qed.

(* emitted bytes are never taken back and sections never disappear: for every call whose byte counts are not negative, every
   section keeps existing and its size does not decrease - success, refusal or exception *)
Theorem sizes_never_shrink : forall fl a h s c s' o, cmd_nonneg c -> step fl a h s c = (s', o) -> sizes_le s s'.
Proof.
  intros fl a h s c s' o NN H.
  destruct (fp_sizes (footprint_of fl c)) eqn:FP.
  2: { apply sizes_le_same. pose proof (call_frame _ _ _ _ _ _ _ H) as F. cbv zeta in F. destruct F as [F _]. apply F. exact FP. }
  destruct c; destruct fl; try discriminate FP; cbn [step] in H.
  - (* CInst, Assembler *)
    unfold emit_assembler, fail_inst, commit_inst in H.
    destruct r as [n fxl lk dr da ds | e]; inversion H; subst; clear H; [| apply sizes_le_same; reflexivity].
    cbn [cmd_nonneg] in NN.
    eapply sizes_le_trans; [| apply add_bytes_le; exact NN].
    apply (app_le _ _ (if 0 <? ds then [0] else [])).
    destruct fxl as [f |]; cbn [clear_one set_one st_sizes]; [rewrite (proj1 (add_fixup_sizes _ _ _)) |];
      cbn; destruct (0 <? ds); rewrite ?app_nil_r; reflexivity.
  - (* CAlign, Assembler *)
    unfold align_assembler in H.
    repeat match type of H with (if ?c then _ else _) = _ => destruct c eqn:? | (match ?x with _ => _ end) = _ => destruct x end;
      inversion H; subst; try (apply sizes_le_refl);
      apply add_bytes_le; apply pad_nonneg;
      match goal with E : (n <=? 1) = false |- _ => apply Z.leb_gt in E; lia end.
  - (* CEmbed, Assembler *)
    inversion H; subst. apply add_bytes_le. exact NN.
  - (* CEmbedLabel, Assembler *)
    unfold embed_label_assembler in H. destruct (nthZ (st_labels s) id) as [l |]; [| inversion H; apply sizes_le_refl].
    destruct (negb (is_pow2_up_to _ 8)) eqn:P; [inversion H; apply sizes_le_refl |]. apply negb_false_iff, is_pow2_up_to_pos in P.
    inversion H; subst; clear H. eapply sizes_le_trans; [| apply add_bytes_le; exact P].
    destruct l; apply sizes_le_same; [rewrite (proj1 (add_fixup_sizes _ _ _)) |]; reflexivity.
  - (* CNewSection, Assembler *)
    unfold new_section in H. repeat match type of H with (if ?c then _ else _) = _ => destruct c end; inversion H; subst; try apply sizes_le_refl.
    eapply app_le. reflexivity.
  - (* CNewSection, Builder *)
    unfold new_section in H. repeat match type of H with (if ?c then _ else _) = _ => destruct c end; inversion H; subst; try apply sizes_le_refl.
    eapply app_le. reflexivity.
  - (* CNewSection, Compiler *)
    unfold new_section in H. repeat match type of H with (if ?c then _ else _) = _ => destruct c end; inversion H; subst; try apply sizes_le_refl.
    eapply app_le. reflexivity.
  - (* CEmbedLabelDelta, Assembler *)
    unfold embed_label_delta_assembler in H.
    destruct (nthZ (st_labels s) id) as [l |]; [| inversion H; apply sizes_le_refl].
    destruct (nthZ (st_labels s) base) as [b |]; [| inversion H; apply sizes_le_refl].
    destruct (negb (is_pow2_up_to _ 8)) eqn:P; [inversion H; apply sizes_le_refl |]. apply negb_false_iff, is_pow2_up_to_pos in P.
    destruct l, b; repeat match type of H with (if ?c then _ else _) = _ => destruct c end; inversion H; subst;
      try apply sizes_le_refl;
      try (apply add_bytes_le; exact P);
      (eapply sizes_le_trans; [| apply add_bytes_le; exact P]; apply sizes_le_same; reflexivity).
  - (* CEmbedConstPool, Assembler *)
    unfold embed_const_pool_assembler in H. cbn [cmd_nonneg] in NN.
    destruct (nthZ (st_labels s) id) as [[p | sc of] |] eqn:L; try (inversion H; apply sizes_le_refl).
    destruct (0 <? unpatchable_count _ p); [inversion H; subst; apply sizes_le_same; reflexivity |].
    inversion H; subst; clear H.
    assert (PAD : 0 <= pool_pad s align).
    { unfold pool_pad. destruct (align <=? 1) eqn:A; [lia |]. apply Z.leb_gt in A. apply pad_nonneg. lia. }
    eapply sizes_le_trans; [| apply add_bytes_le; exact NN].
    eapply sizes_le_trans; [apply add_bytes_le; exact PAD |].
    apply sizes_le_same. unfold bind_assembler_atomic.
    repeat match goal with |- context [match ?x with _ => _ end] => destruct x end; reflexivity.
Qed.

Example sizes_example :
  let '(s', _) := run FAssembler A64 HRecord init_state [CEmbed 3; CAlign 0 4; CInst (EncErr 29); CNewSection 8 5; CInst (EncOk 4 None false 0 0 0)] in
  st_sizes s' = [7; 0].
Proof. vm_compute. reflexivity. Qed.

(* ---------------------------------------------------------------- round 7: sequence-level lifts *)
(* over a whole history of calls whose byte counts are not negative, every section keeps existing and never shrinks -
   however many of the calls fail, throw or succeed *)
Theorem history_sizes_never_shrink : forall fl a h cs s s' os,
  (forall c, In c cs -> cmd_nonneg c) -> run fl a h s cs = (s', os) -> sizes_le s s'.
Proof.
  intros fl a h cs. induction cs as [| c t IH]; intros s s' os NN H.
  - cbn [run] in H. inversion H. apply sizes_le_refl.
  - cbn [run] in H. destruct (step fl a h s c) as [s1 o] eqn:S. destruct (run fl a h s1 t) as [s2 os2] eqn:R. inversion H. subst.
    eapply sizes_le_trans.
    + eapply sizes_never_shrink; [apply NN; left; reflexivity | exact S].
    + eapply IH; [intros c0 Hc; apply NN; right; exact Hc | exact R].
Qed.

(* ... and labels are never removed by any history *)
Theorem history_label_count_monotone : forall fl a h cs s s' os,
  run fl a h s cs = (s', os) -> lenZ (st_labels s) <= lenZ (st_labels s').
Proof.
  intros fl a h cs. induction cs as [| c t IH]; intros s s' os H.
  - cbn [run] in H. inversion H. lia.
  - cbn [run] in H. destruct (step fl a h s c) as [s1 o] eqn:S. destruct (run fl a h s1 t) as [s2 os2] eqn:R. inversion H. subst.
    pose proof (label_count_monotone _ _ _ _ _ _ _ S). pose proof (IH _ _ _ R). lia.
Qed.

(* a history never touches a section in which the emitter never was: if no call of the history switches section, only the
   current section can change *)
Theorem history_other_sections_untouched : forall fl a h cs s s' os,
  (forall c, In c cs -> fp_cur (footprint_of fl c) = false) -> run fl a h s cs = (s', os) -> other_sections_kept s s'.
Proof.
  intros fl a h cs. induction cs as [| c t IH]; intros s s' os NC H i Hne Hr.
  - cbn [run] in H. inversion H. reflexivity.
  - cbn [run] in H. destruct (step fl a h s c) as [s1 o] eqn:S. destruct (run fl a h s1 t) as [s2 os2] eqn:R. inversion H. subst.
    pose proof (call_frame _ _ _ _ _ _ _ S) as F. cbv zeta in F. destruct F as [_ [FC _]].
    assert (C1 : st_cur s1 = st_cur s) by (apply FC; apply NC; left; reflexivity).
    pose proof (other_sections_untouched _ _ _ _ _ _ _ S i Hne Hr) as E1.
    assert (Hr1 : 0 <= i < lenZ (st_sizes s1)).
    { apply LookupProofs.nthZ_some_iff. apply LookupProofs.nthZ_some_iff in Hr. destruct Hr as [v V]. exists v. rewrite E1. exact V. }
    rewrite <- E1. eapply IH; [intros c0 Hc; apply NC; right; exact Hc | exact R | rewrite C1; exact Hne | exact Hr1].
Qed.

Example history_lifts_example :
  let cs := [CNewSection 8 5; CEmbed 3; CNewLabel; CInst (EncErr 26); CAlign 0 8; CBindAtomic 0 0; CEmbed 2] in
  (forall c, In c cs -> cmd_nonneg c) /\ (forall c, In c cs -> fp_cur (footprint_of FAssembler c) = false) /\
  (let '(s', _) := run FAssembler X86_64 HThrow init_state cs in (st_sizes s', lenZ (st_labels s'))) = ([10; 0], 1).
Proof.
  split; [| split].
  - intros c H. cbn in H. repeat (destruct H as [H | H]; [subst c; cbn; try exact I; lia |]). contradiction.
  - intros c H. cbn in H. repeat (destruct H as [H | H]; [subst c; reflexivity |]). contradiction.
  - vm_compute. reflexivity.
Qed.

(* C14 — micro-operation model of the label / relocation paths of the two assemblers (no proofs here; extracted).

   x86assembler.cpp  EmitJmpCall (label operand), EmitModSib `[LABEL]` paths (64-bit: RIP-relative; 32-bit:
   EmitModSib_LabelRip_X86 with a RelToAbs relocation), EmitRel;   a64assembler.cpp  EmitOp_Rel / EmitOp_DispImm.
   A path is the list of micro-operations the code performs, in program order:
     UValid id   `if (!_code->is_label_valid(id)) goto InvalidLabel`
     UDeref id   `_code->label_entry_of(id)` — reading the entry of an invalid id is memory-unsafe: outcome UStuck
     UEmit n     n bytes written through the CodeWriter (uncommitted until writer.done())
     UReloc      `_code->new_reloc_entry(...)`           (persistent side effect)
     UFixup id l `_code->new_fixup(label, ...)`, l = linked to the relocation just created (persistent side effect)
     UFail e     `goto <error label>`
   Unlike `CInst r` of EmitStateModel (verdict supplied by the real encoder) the verdict of these instructions is
   COMPUTED here from the model state (label table, current offset) — and compared with the real encoder's. *)
From Coq Require Import ZArith List Bool.
From Verif Require Import EmitState.EmitStateModel.
Import ListNotations.
Local Open Scope Z_scope.

Definition kShortForm := 16.      (* InstOptions::kShortForm *)
Definition kLongForm := 32.       (* InstOptions::kLongForm *)
Definition kInvalidPhysId := 29.
Definition path_constants : list Z := [kShortForm; kLongForm; kInvalidPhysId].

Inductive uop :=
| UValid (id : Z) | UDeref (id : Z) | UEmit (n : Z) | UReloc | UFixup (id : Z) (linked : bool) (rel bits discard : Z) | UFail (e : Z).

Inductive uresult :=
| UOk (bytes : Z) (fx : option fixref) (linked : bool) (relocs : Z)
| UErr (e : Z) (dirty : bool)     (* dirty: a persistent side effect preceded the failure *)
| UStuck.

Record acc := mkAcc { a_bytes : Z; a_fx : option fixref; a_linked : bool; a_relocs : Z; a_dirty : bool }.
Definition acc0 := mkAcc 0 None false 0 false.

(* `cur`: offset of the instruction in its section; a fixup points at cur + bytes written so far *)
Fixpoint exec (valid : Z -> bool) (cur : Z) (us : list uop) (ac : acc) : uresult :=
  match us with
  | [] => UOk (a_bytes ac) (a_fx ac) (a_linked ac) (a_relocs ac)
  | UValid id :: t => if valid id then exec valid cur t ac else UErr kInvalidLabel (a_dirty ac)
  | UDeref id :: t => if valid id then exec valid cur t ac else UStuck
  | UEmit n :: t => exec valid cur t (mkAcc (a_bytes ac + n) (a_fx ac) (a_linked ac) (a_relocs ac) (a_dirty ac))
  | UReloc :: t => exec valid cur t (mkAcc (a_bytes ac) (a_fx ac) (a_linked ac) (a_relocs ac + 1) true)
  | UFixup id l rel bits dis :: t => exec valid cur t (mkAcc (a_bytes ac) (Some (mkRef id (cur + a_bytes ac) rel bits dis)) l (a_relocs ac) true)
  | UFail e :: t => UErr e (a_dirty ac)
  end.

Definition label_valid (s : state) (id : Z) : bool := match nthZ (st_labels s) id with Some _ => true | None => false end.

(* the offset of the label if it is bound to the CURRENT section *)
Definition bound_here (s : state) (id : Z) : option Z :=
  match nthZ (st_labels s) id with
  | Some (LBound sec off) => if sec =? st_cur s then Some off else None
  | _ => None
  end.
Definition bound_anywhere (s : state) (id : Z) : bool :=
  match nthZ (st_labels s) id with Some (LBound _ _) => true | _ => false end.

Inductive relkind :=
| X86Jmp | X86Jcc | X86Call           (* jmp/jcc/call LABEL *)
| X86Lea (dst64 : bool) (disp : Z)    (* lea r32|r64 (id 0..7), [LABEL + disp] *)
| A64Rel (bits discard : Z) (reg_ok : bool).   (* b/bl: 26,2  b.cond/cbz/ldr literal: 19,2  tbz: 14,2  adr: 21,0;
                                                   reg_ok: check_gp_id(o0, kZR) of cbz/tbz/adr/ldr holds (id < 31 or id = 63) *)


(* x86 EmitJmpCall with a label operand *)
Definition x86_jmp_path (s : state) (opcode8 opcode32 : bool) (inst32 : Z) (id : Z) (short long : bool) : list uop :=
  [UValid id; UDeref id] ++
  match bound_here s id with
  | Some off =>
      let rel32 := off - cur_size s - inst32 in
      if fits_signed 8 (rel32 + inst32 - 2) && opcode8 && negb long then [UEmit 2]
      else if negb opcode32 || short then [UFail kInvalidDisplacement]
      else [UEmit inst32]
  | None =>
      if opcode8 && (negb opcode32 || short) then [UEmit 1; UFixup id false (-1) 8 0; UEmit 1]
      else if negb opcode32 || short then [UFail kInvalidDisplacement]
      else [UEmit (inst32 - 4); UFixup id false (-4) 32 0; UEmit 4]
  end.

(* x86 `lea r, [LABEL+disp]`: 64-bit mode (RIP-relative) and 32-bit mode (absolute address through a relocation) *)
Definition x86_lea_path (a : arch) (s : state) (dst64 : bool) (disp : Z) (id : Z) : list uop :=
  match a with
  | X86_64 =>
      let n := if dst64 then 7 else 6 in
      [UValid id; UDeref id] ++
      match bound_here s id with
      | Some _ => [UEmit n]
      | None => [UEmit (n - 4); UFixup id false (disp - 4) 32 0; UEmit 4]
      end
  | _ =>
      [UEmit 2; UValid id; UDeref id; UReloc] ++
      (if bound_anywhere s id then [UEmit 4] else [UFixup id true 0 0 0; UEmit 4])
  end.

(* the same path as written in the pinned tree (the `goto InvalidLabel` is missing, DESIGN 7.3) *)
Definition x86_lea32_path_pinned (s : state) (id : Z) : list uop :=
  [UEmit 2; UDeref id; UReloc] ++ (if bound_anywhere s id then [UEmit 4] else [UFixup id true 0 0 0; UEmit 4]).

(* a64 EmitOp_Rel with a label operand, then EmitOp_DispImm *)
Definition a64_rel_path (s : state) (bits discard : Z) (reg_ok : bool) (id : Z) : list uop :=
  (* the register id is checked before the label is looked at: `if (!check_gp_id(o0, kZR)) goto InvalidPhysId` *)
  (if reg_ok then [] else [UFail kInvalidPhysId]) ++
  [UValid id; UDeref id] ++
  match bound_here s id with
  | Some off =>
      let d := off - cur_size s in
      if (d mod 2 ^ discard =? 0) && fits_signed bits (d / 2 ^ discard) then [UEmit 4] else [UFail kInvalidDisplacement]
  | None => [UFixup id false 0 bits discard; UEmit 4]
  end.

Definition rel_path (a : arch) (s : state) (k : relkind) (id : Z) (short long : bool) : list uop :=
  match k with
  | X86Jmp => x86_jmp_path s true true 5 id short long
  | X86Jcc => x86_jmp_path s true true 6 id short long
  | X86Call => x86_jmp_path s false true 5 id short long
  | X86Lea d disp => x86_lea_path a s d disp id
  | A64Rel bits discard rok => a64_rel_path s bits discard rok id
  end.

Definition rel_result (a : arch) (s : state) (k : relkind) (id : Z) (short long : bool) : uresult :=
  exec (label_valid s) (cur_size s) (rel_path a s k id short long) acc0.

(* verdict handed to the emit transaction (UStuck / dirty failures are proved unreachable in EncPathProofs.v) *)
Definition verdict_of (r : uresult) : enc_result :=
  match r with
  | UOk n fx l dr => EncOk n fx l dr 0 0
  | UErr e _ => EncErr e
  | UStuck => EncErr 0
  end.

Definition rel_cmd (a : arch) (s : state) (k : relkind) (id : Z) : cmd :=
  let o := os_options (st_one s) in
  CInst (verdict_of (rel_result a s k id (Z.testbit o 4) (Z.testbit o 5))).

(* C14 — bounds-instrumented table look-ups: a table is a list, a read is `lookup` (None = out-of-bounds read = the
   "Stuck" outcome of DESIGN §3 C14).  A `site` is one look-up of the assemblers: the table (its length is the C++
   sizeof / element size, its contents are dumped by harness/c14_dump.cpp) and the set of values its index expression
   can take (derived from the operand-signature field widths, the validator's accept sets, or the instruction tables). *)
From Coq Require Import ZArith List Bool String.
From Verif Require Import EmitState.EmitStateModel.
Import ListNotations.
Local Open Scope Z_scope.

Definition lookup (t : list Z) (i : Z) : option Z := nthZ t i.

Record site := mkSite { site_name : string; site_len : Z; site_table : list Z; site_idx : list Z }.

Definition hit (t : list Z) (i : Z) : bool := match lookup t i with Some _ => true | None => false end.

Definition site_ok (s : site) : bool :=
  (lenZ (site_table s) =? site_len s) && forallb (hit (site_table s)) (site_idx s).

(* index sets *)
Definition upto (n : Z) : list Z := map Z.of_nat (seq 0 (Z.to_nat n + 1)).          (* 0 .. n *)
Definition bits_of (mask : Z) : list Z := filter (Z.testbit mask) (upto 63).          (* positions of the set bits *)
Definition zeros (n : Z) : list Z := repeat 0 (Z.to_nat n).

(* a64assembler.cpp element_type_to_size_op: index into SizeOpTable::array; `diff` is an unsigned 32-bit subtraction *)
Definition diff32 (a b : Z) : Z := (a - b) mod 4294967296.
Definition size_op_index (vec8 vec128 reg_type element_type : Z) : Z :=
  Z.lor (Z.shiftl (Z.min (diff32 reg_type vec8) (diff32 vec128 vec8 + 1)) 3) element_type.

(* the same with the range check in front (register types outside Vec8..Vec128 yield SizeOp::kInvalid without a read) *)
Definition size_op_index_guarded (vec8 vec128 reg_type element_type : Z) : option Z :=
  if diff32 vec128 vec8 <? diff32 reg_type vec8 then None
  else Some (Z.lor (Z.shiftl (diff32 reg_type vec8) 3) element_type).

(* x86assembler.cpp: mod16_base_index_table[(rb_reg << 3) + rx_reg] after `&= 7` *)
Definition mod16_index (rb rx : Z) : Z := Z.shiftl (Z.land rb 7) 3 + Z.land rx 7.

(* C05: the progress part of the validator is COMPLETE: if any rank assignment passes check_progress then the inferred one
   (infer_ranks, fuel = program length) passes - so "cycle-of-inserted-instructions" is never a spurious refusal. *)
From Coq Require Import ZArith NArith List Bool Arith Lia Wf_nat.
From Verif Require Import RegAlloc.RaIRModel.
Import ListNotations.

(* the instruction reached silently (without a source step) from t, if t is an inserted-kind instruction *)
Definition nxt (tp : tprog) (t : nat) : option nat :=
  match nth_error tp t with
  | Some (TMove _ _ _ _ _) | Some (TSwap _ _ _) | Some (TLabel _) => Some (t + 1)%nat
  | Some (TJmp l) => find_tlabel l tp 0
  | _ => None
  end.
Definition bad_jmp (tp : tprog) (t : nat) : bool :=
  match nth_error tp t with Some (TJmp l) => match find_tlabel l tp 0 with None => true | _ => false end | _ => false end.

Lemma rank_at_S f tp t : rank_at (S f) tp t = match nxt tp t with Some t' => S (rank_at f tp t') | None => O end.
Proof. cbn [rank_at]. unfold nxt. destruct (nth_error tp t) as [[]|]; try reflexivity; destruct (find_tlabel l tp 0); reflexivity. Qed.

Lemma check_rank_pc_spec tp rk t :
  check_rank_pc tp rk t = negb (bad_jmp tp t) && match nxt tp t with Some t' => Nat.ltb (rank_of rk t') (rank_of rk t) | None => true end.
Proof.
  unfold check_rank_pc, bad_jmp, nxt. destruct (nth_error tp t) as [[]|]; try reflexivity; destruct (find_tlabel l tp 0); reflexivity.
Qed.

Lemma nxt_in_range tp t t' : nxt tp t = Some t' -> (t < length tp)%nat.
Proof. unfold nxt. intros H. apply nth_error_Some. destruct (nth_error tp t); [discriminate|discriminate H]. Qed.

Lemma rank_at_le_fuel tp : forall f t, (rank_at f tp t <= f)%nat.
Proof. induction f; intros t; [cbn; lia|]. rewrite rank_at_S. destruct (nxt tp t); [specialize (IHf n); lia|lia]. Qed.

Lemma rank_at_mono tp : forall f t, (rank_at f tp t <= rank_at (S f) tp t)%nat.
Proof.
  induction f; intros t; [cbn [rank_at]; lia|]. rewrite (rank_at_S (S f)), (rank_at_S f).
  destruct (nxt tp t); [specialize (IHf n); lia|lia].
Qed.

Lemma rank_at_stable tp : forall f t, (rank_at f tp t < f)%nat -> rank_at (S f) tp t = rank_at f tp t.
Proof.
  induction f; intros t H; [lia|]. rewrite (rank_at_S (S f)), (rank_at_S f) in *.
  destruct (nxt tp t); [|reflexivity]. f_equal. apply IHf. lia.
Qed.

(* the silent path from t, as far as the fuel goes *)
Fixpoint chain (tp : tprog) (f t : nat) : list nat :=
  match f with
  | O => []
  | S f' => match nxt tp t with Some t' => t :: chain tp f' t' | None => [] end
  end.

(* k silent steps *)
Fixpoint nxt_iter (tp : tprog) (k t : nat) : option nat :=
  match k with
  | O => Some t
  | S k' => match nxt tp t with Some t' => nxt_iter tp k' t' | None => None end
  end.

Lemma chain_length tp : forall f t, length (chain tp f t) = rank_at f tp t.
Proof. induction f; intros t; [reflexivity|]. rewrite rank_at_S. cbn [chain]. destruct (nxt tp t); cbn; [rewrite IHf; reflexivity|reflexivity]. Qed.

Lemma chain_in_range tp : forall f t x, In x (chain tp f t) -> (x < length tp)%nat.
Proof.
  induction f; intros t x H; cbn [chain] in H; [destruct H|].
  destruct (nxt tp t) as [t'|] eqn:Hn; [|destruct H]. destruct H as [<-|H]; [exact (nxt_in_range tp t t' Hn)|exact (IHf t' x H)].
Qed.

Lemma chain_reach tp : forall f t x, In x (chain tp f t) -> exists k, nxt_iter tp k t = Some x.
Proof.
  induction f; intros t x H; cbn [chain] in H; [destruct H|].
  destruct (nxt tp t) as [t'|] eqn:Hn; [|destruct H]. destruct H as [<-|H]; [exists O; reflexivity|].
  destruct (IHf t' x H) as [k Hk]. exists (S k). cbn [nxt_iter]. rewrite Hn. exact Hk.
Qed.

(* general form: no jump to a missing label and every silent path visits an instruction at most once *)
Section Gen.
  Variable tp : tprog.
  Hypothesis Hnb : forall t, (t < length tp)%nat -> bad_jmp tp t = false.
  Hypothesis Hnd : forall f t, NoDup (chain tp f t).

  Lemma rank_at_le_length f t : (rank_at f tp t <= length tp)%nat.
  Proof.
    rewrite <- chain_length. rewrite <- (seq_length (length tp) 0).
    apply NoDup_incl_length; [apply Hnd|]. intros x Hx. apply in_seq. pose proof (chain_in_range tp f t x Hx). lia.
  Qed.

  Lemma rank_of_infer x : rank_of (infer_ranks tp) x = rank_at (length tp) tp x.
  Proof.
    unfold rank_of, infer_ranks. destruct (Nat.lt_ge_cases x (length tp)) as [Hlt|Hge].
    - rewrite (nth_indep _ O (rank_at (length tp) tp O)) by (rewrite map_length, seq_length; exact Hlt).
      rewrite map_nth. rewrite seq_nth by exact Hlt. reflexivity.
    - rewrite nth_overflow by (rewrite map_length, seq_length; exact Hge).
      destruct (length tp) as [|L] eqn:HL; [reflexivity|]. rewrite rank_at_S. unfold nxt.
      assert (Hn : nth_error tp x = None) by (apply nth_error_None; lia). rewrite Hn. reflexivity.
  Qed.

  Theorem infer_ranks_pass : check_progress tp (infer_ranks tp) = true.
  Proof.
    unfold check_progress. apply forallb_forall. intros t Ht. apply in_seq in Ht. assert (Hlt : (t < length tp)%nat) by lia.
    rewrite check_rank_pc_spec. rewrite (Hnb t Hlt). cbn [negb andb].
    destruct (nxt tp t) as [t'|] eqn:Hn; [|reflexivity]. apply Nat.ltb_lt. rewrite !rank_of_infer.
    destruct (length tp) as [|L] eqn:HL; [lia|].
    rewrite (rank_at_S L tp t), Hn.
    assert (Hb : (rank_at (S (S L)) tp t <= S L)%nat) by (rewrite <- HL; apply rank_at_le_length).
    rewrite (rank_at_S (S L) tp t), Hn in Hb.
    destruct (Nat.lt_ge_cases (rank_at L tp t') L) as [Hs|Hs].
    - rewrite (rank_at_stable tp L t' Hs). lia.
    - pose proof (rank_at_le_fuel tp L t'). pose proof (rank_at_mono tp L t'). lia.
  Qed.
End Gen.

Section Complete.
  Variable tp : tprog.
  Variable rk : list nat.
  Hypothesis Hvalid : check_progress tp rk = true.

  Lemma valid_at t : (t < length tp)%nat -> check_rank_pc tp rk t = true.
  Proof. intros Ht. unfold check_progress in Hvalid. rewrite forallb_forall in Hvalid. apply Hvalid. apply in_seq. lia. Qed.

  Lemma valid_nxt t t' : nxt tp t = Some t' -> (rank_of rk t' < rank_of rk t)%nat.
  Proof.
    intros H. pose proof (valid_at t (nxt_in_range tp t t' H)) as Hc. rewrite check_rank_pc_spec, H in Hc.
    apply andb_true_iff in Hc. destruct Hc as [_ Hc]. apply Nat.ltb_lt in Hc. exact Hc.
  Qed.

  Lemma valid_no_bad_jmp t : (t < length tp)%nat -> bad_jmp tp t = false.
  Proof. intros Ht. pose proof (valid_at t Ht) as Hc. rewrite check_rank_pc_spec in Hc. apply andb_true_iff in Hc. destruct Hc as [Hc _]. apply negb_true_iff in Hc. exact Hc. Qed.

  (* ranks strictly decrease along silent steps: no silent cycle *)
  Lemma valid_iter : forall k t x, nxt_iter tp (S k) t = Some x -> (rank_of rk x < rank_of rk t)%nat.
  Proof.
    induction k; intros t x H; cbn [nxt_iter] in H; destruct (nxt tp t) as [t'|] eqn:Hn; try discriminate.
    - injection H as <-. exact (valid_nxt t t' Hn).
    - pose proof (valid_nxt t t' Hn). specialize (IHk t' x). cbn [nxt_iter] in IHk. specialize (IHk H). lia.
  Qed.

  Lemma valid_acyclic k t : nxt_iter tp (S k) t <> Some t.
  Proof. intros H. pose proof (valid_iter k t t H). lia. Qed.
End Complete.

(* acyclic silent paths never repeat an instruction *)
Lemma acyclic_nodup tp : (forall k t, nxt_iter tp (S k) t <> Some t) -> forall f t, NoDup (chain tp f t).
Proof.
  intros Hac. induction f; intros t; cbn [chain]; [constructor|]. destruct (nxt tp t) as [t'|] eqn:Hn; [|constructor].
  constructor; [|apply IHf]. intros Hin. destruct (chain_reach tp f t' t Hin) as [k Hk].
  apply (Hac k t). cbn [nxt_iter]. rewrite Hn. exact Hk.
Qed.

(* the inferred ranks pass exactly when the inserted code has no jump to a missing label and no silent cycle *)
Theorem progress_check_acyclic tp :
  (forall t, (t < length tp)%nat -> bad_jmp tp t = false) -> (forall k t, nxt_iter tp (S k) t <> Some t) ->
  check_progress tp (infer_ranks tp) = true.
Proof. intros Hnb Hac. apply infer_ranks_pass; [exact Hnb|apply acyclic_nodup; exact Hac]. Qed.

Theorem progress_check_complete tp : (exists rk, check_progress tp rk = true) -> check_progress tp (infer_ranks tp) = true.
Proof.
  intros [rk H]. apply progress_check_acyclic; [intros t Ht; exact (valid_no_bad_jmp tp rk H t Ht)|intros k t; exact (valid_acyclic tp rk H k t)].
Qed.

Theorem ranking_excludes_cycles tp rk : check_progress tp rk = true ->
  (forall t, (t < length tp)%nat -> bad_jmp tp t = false) /\ (forall k t, nxt_iter tp (S k) t <> Some t).
Proof. intros H. split; [intros t Ht; exact (valid_no_bad_jmp tp rk H t Ht)|intros k t; exact (valid_acyclic tp rk H k t)]. Qed.

(* ------------------------------------------------------------------ a silent cycle is a real divergence *)
(* inserted-kind instructions step to nxt whatever the instruction semantics and the machine state are, and leave the world
   alone; so from an instruction on a silent cycle the allocated program runs forever without a further observable effect *)
Section Diverge.
  Variable world : Type.
  Variable sem : opcode -> list Z -> world -> list Z * world.
  Variable semc : opcode -> list Z -> world -> bool.

  Lemma nxt_step tp t t' T W : nxt tp t = Some t' -> exists T', tstep world sem semc tp (t, T, W) = Next (t', T', W).
  Proof.
    unfold nxt, tstep. destruct (nth_error tp t) as [[o us ds|d s w keep e|a b w|o us l|l|l|us|o us ls]|]; try discriminate; intros H.
    - injection H as <-. eexists. reflexivity.
    - injection H as <-. eexists. reflexivity.
    - rewrite H. eexists. reflexivity.
    - injection H as <-. eexists. reflexivity.
  Qed.

  Lemma nxt_iter_run tp : forall k t x T W, nxt_iter tp k t = Some x -> exists T', trun world sem semc k tp (t, T, W) = Next (x, T', W).
  Proof.
    induction k; intros t x T W H; cbn [nxt_iter] in H.
    - injection H as <-. exists T. reflexivity.
    - destruct (nxt tp t) as [t'|] eqn:Hn; [|discriminate]. destruct (nxt_step tp t t' T W Hn) as [T1 Hs].
      destruct (IHk t' x T1 W H) as [T' Hr]. exists T'. cbn [trun]. rewrite Hs. exact Hr.
  Qed.

  Lemma iter_split tp : forall a b t y, nxt_iter tp (a + b) t = Some y -> exists x, nxt_iter tp a t = Some x /\ nxt_iter tp b x = Some y.
  Proof.
    induction a; intros b t y H; cbn [Nat.add nxt_iter] in *; [exists t; split; [reflexivity|exact H]|].
    destruct (nxt tp t) as [t1|]; [|discriminate]. exact (IHa b t1 y H).
  Qed.

  Lemma iter_add tp : forall a b t x y, nxt_iter tp a t = Some x -> nxt_iter tp b x = Some y -> nxt_iter tp (a + b) t = Some y.
  Proof.
    induction a; intros b t x y Ha Hb; cbn [Nat.add nxt_iter] in *; [injection Ha as ->; exact Hb|].
    destruct (nxt tp t) as [t1|]; [|discriminate]. exact (IHa b t1 x y Ha Hb).
  Qed.

  Lemma nxt_iter_total tp k t : nxt_iter tp (S k) t = Some t -> forall n, exists x, nxt_iter tp n t = Some x.
  Proof.
    intros Hc. induction n as [n IH] using lt_wf_ind.
    destruct (Nat.le_gt_cases n (S k)) as [Hle|Hgt].
    - replace (S k) with (n + (S k - n))%nat in Hc by lia. destruct (iter_split tp n (S k - n) t t Hc) as [x [Hx _]]. exists x. exact Hx.
    - destruct (IH (n - S k)%nat ltac:(lia)) as [x Hx]. exists x.
      replace n with (S k + (n - S k))%nat by lia. exact (iter_add tp (S k) (n - S k) t t x Hc Hx).
  Qed.

  Theorem silent_cycle_diverges tp k t : nxt_iter tp (S k) t = Some t ->
    forall T W n, exists pc T', trun world sem semc n tp (t, T, W) = Next (pc, T', W).
  Proof.
    intros Hc T W n. destruct (nxt_iter_total tp k t Hc n) as [x Hx].
    destruct (nxt_iter_run tp n t x T W Hx) as [T' Hr]. exists x, T'. exact Hr.
  Qed.
End Diverge.

(* ------------------------------------------------------------------ round 7 *)
(* register-list members without the hypothesis id < 32: the lead register is what the instruction encodes (whatever number
   it is given), every further member is the successor modulo 32 *)
From Verif Require Import RegAlloc.RaIRProofs.
Theorem expand_list_nth_any g n id i : (i < n)%nat ->
  nth i (expand_list g id n) (LSlot 0) = LReg g (if Nat.eqb i 0 then id else N.modulo (id + N.of_nat i) 32).
Proof.
  intros Hi. destruct n as [|n]; [lia|]. destruct i as [|i]; cbn [expand_list nth Nat.eqb]; [reflexivity|].
  rewrite expand_list_nth; [|apply N.mod_upper_bound; discriminate|lia].
  rewrite Nat2N.inj_succ, N.add_mod_idemp_l by discriminate. f_equal. f_equal. lia.
Qed.

(* sequence-level lift of the inserted-instruction frame: k silent steps (moves, swaps, labels, jumps only) take the allocated
   program from t to its k-th silent successor, for any instruction semantics and machine state, and leave the world as it is *)
Theorem silent_steps_keep_world (world : Type) (sem : opcode -> list Z -> world -> list Z * world) (semc : opcode -> list Z -> world -> bool)
  tp k t x T W : nxt_iter tp k t = Some x -> exists T', trun world sem semc k tp (t, T, W) = Next (x, T', W).
Proof. exact (nxt_iter_run world sem semc tp k t x T W). Qed.

(* C05 — soundness of the operand classification (RwRuleModel.classify) and of the idiom table w.r.t. a mini semantics of
   partial register writes: a register is a sequence of bytes; an instruction writes the bytes of its write mask from its
   result, clears the bytes of its extend mask and leaves all other bytes alone. *)
From Coq Require Import ZArith NArith List Bool Arith Lia.
From Verif Require Import RegAlloc.RwRuleModel.
Import ListNotations.

Definition byte (i : nat) (x : Z) : Z := ((x / 256 ^ Z.of_nat i) mod 256)%Z.
Definition mbit (m : N) (i : nat) : bool := N.testbit m (N.of_nat i).

(* what the CPU does to byte i of a register *)
Definition hw_byte (wm em : N) (old res : Z) (i : nat) : Z :=
  if mbit wm i then byte i res else if mbit em i then 0%Z else byte i old.

Lemma low_mask_bit n i : mbit (low_mask n) i = Nat.ltb i n.
Proof.
  unfold mbit, low_mask. destruct (Nat.ltb_spec i n).
  - apply N.ones_spec_low. lia.
  - apply N.ones_spec_high. lia.
Qed.

Lemma ldiff_zero_bits a b : N.ldiff a b = 0%N -> forall i, mbit a i = true -> mbit b i = true.
Proof.
  intros H i Ha. unfold mbit in *. pose proof (N.ldiff_spec a b (N.of_nat i)) as Hs.
  rewrite H, N.bits_0, Ha in Hs. destruct (N.testbit b (N.of_nat i)); [reflexivity | discriminate].
Qed.

Lemma contig_from_bits : forall fuel m i, (i < contig_from fuel m)%nat -> mbit m i = true.
Proof.
  induction fuel; intros m i H; cbn [contig_from] in H; [lia|].
  destruct (N.odd m) eqn:Ho; [|lia].
  destruct i as [|i].
  - unfold mbit. change (N.of_nat 0) with 0%N. rewrite N.bit0_odd. exact Ho.
  - pose proof (IHfuel (N.div2 m) i ltac:(lia)) as Hx. unfold mbit in *. rewrite N.div2_div, N.div2_bits in Hx.
    rewrite Nat2N.inj_succ. exact Hx.
Qed.

(* 1. a write that covers the virtual register: the new low bytes do not depend on the old register content *)
Lemma rule_covered vs wm em old old' res :
  N.ldiff (low_mask vs) (N.lor wm em) = 0%N ->
  forall i, (i < vs)%nat -> hw_byte wm em old res i = hw_byte wm em old' res i.
Proof.
  intros H i Hi. unfold hw_byte.
  assert (Hb : mbit (N.lor wm em) i = true).
  { apply (ldiff_zero_bits _ _ H). rewrite low_mask_bit. apply Nat.ltb_lt. exact Hi. }
  unfold mbit in *. rewrite N.lor_spec in Hb.
  destruct (N.testbit wm (N.of_nat i)); [reflexivity|]. cbn in Hb. rewrite Hb. reflexivity.
Qed.

(* 2. any write: the new low vs bytes depend on the old content only through its low vs bytes *)
Lemma rule_partial vs wm em old old' res :
  (forall i, (i < vs)%nat -> byte i old = byte i old') ->
  forall i, (i < vs)%nat -> hw_byte wm em old res i = hw_byte wm em old' res i.
Proof.
  intros H i Hi. unfold hw_byte. destruct (mbit wm i); [reflexivity|]. destruct (mbit em i); [reflexivity|]. apply H. exact Hi.
Qed.

(* 3. a value-preserving write (result = old value on the written bytes) that extends nothing inside the virtual
      register leaves its low vs bytes unchanged *)
Lemma rule_keeps vs wm em old res :
  N.land (N.ldiff em wm) (low_mask vs) = 0%N ->
  (forall i, mbit wm i = true -> byte i res = byte i old) ->
  forall i, (i < vs)%nat -> hw_byte wm em old res i = byte i old.
Proof.
  intros H Hv i Hi. unfold hw_byte. destruct (mbit wm i) eqn:Hw; [apply Hv; exact Hw|].
  destruct (mbit em i) eqn:He; [|reflexivity]. exfalso.
  pose proof (N.land_spec (N.ldiff em wm) (low_mask vs) (N.of_nat i)) as Hs.
  rewrite H, N.bits_0, N.ldiff_spec in Hs. unfold mbit in *. rewrite He, Hw in Hs.
  pose proof (low_mask_bit vs i) as Hl. unfold mbit in Hl. rewrite Hl in Hs.
  apply Nat.ltb_lt in Hi. rewrite Hi in Hs. discriminate.
Qed.

(* The classification as a whole. For an operand that is written: whenever two executions agree on the low u bytes of the
   old register for every use width u that [classify] emits for this operand's OLD value, they agree on the low d bytes of
   the new register, d being the def width it emits. (The use widths emitted for reads of the operand are >= the bytes
   the instruction reads by the meaning of the read mask; that part is C12's subject.) *)
Definition old_agree (us : list nat) (old old' : Z) : Prop :=
  forall u, In u us -> forall i, (i < u)%nat -> byte i old = byte i old'.

Theorem classify_write_sound a64 id r us d old old' res :
  classify a64 id r = (us, [d]) ->
  (is_partial r = true -> old_agree us old old') ->
  forall i, (i < d)%nat -> hw_byte (r_wmask r) (r_emask r) old res i = hw_byte (r_wmask r) (r_emask r) old' res i.
Proof.
  unfold classify. intros Hc Hag i Hi.
  destruct (r_write r && negb (keeps id r)); [|destruct (r_read r && _); discriminate].
  destruct (is_partial r) eqn:Hp.
  - (* partial write: old value is an input at width vsize *)
    specialize (Hag eq_refl).
    assert (Hd : d = r_vsize r).
    { destruct (existsb _ _); inversion Hc; reflexivity. }
    subst d. apply (rule_partial (r_vsize r)); [|exact Hi].
    intros j Hj.
    destruct (existsb (fun w : nat => (r_vsize r <=? w)%nat) _) eqn:Hex.
    + inversion Hc; subst us. apply existsb_exists in Hex. destruct Hex as [w [Hin Hle]].
      apply Nat.leb_le in Hle. apply (Hag w Hin). lia.
    + inversion Hc; subst us. apply (Hag (r_vsize r)); [apply in_or_app; right; left; reflexivity | exact Hj].
  - (* covering write *)
    clear Hag.
    assert (Hcw : (d <= contig_width (covered r))%nat).
    { inversion Hc as [[Hu Hd]]. clear Hu.
      destruct (Nat.eqb (r_vsize r) 0); destruct (r_ismem r); lia. }
    assert (Hb : mbit (covered r) i = true) by (apply (contig_from_bits 64); unfold contig_width in Hcw; lia).
    unfold hw_byte, covered, mbit in *. rewrite N.lor_spec in Hb.
    destruct (N.testbit (r_wmask r) (N.of_nat i)); [reflexivity|]. cbn in Hb. rewrite Hb. reflexivity.
Qed.

(* no def is emitted only for read-only operands and for value-preserving idioms *)
Theorem classify_no_def a64 id r us :
  classify a64 id r = (us, []) -> r_write r = false \/ keeps id r = true.
Proof.
  unfold classify. destruct (r_write r); [|left; reflexivity]. destruct (keeps id r); [right; reflexivity|].
  cbn [andb negb]. destruct (is_partial r); [destruct (existsb _ _)|]; intros H; inversion H.
Qed.

Theorem keeps_sound id r old res :
  keeps id r = true ->
  (forall i, mbit (r_wmask r) i = true -> byte i res = byte i old) ->
  forall i, (i < r_vsize r)%nat -> hw_byte (r_wmask r) (r_emask r) old res i = byte i old.
Proof.
  intros Hk Hv. unfold keeps in Hk. destruct id; try discriminate.
  apply andb_true_iff in Hk. destruct Hk as [_ Hk]. apply N.eqb_eq in Hk.
  apply rule_keeps; assumption.
Qed.

(* completeness direction of the partial-write rule: the use of the old value that [classify] adds for a partial write is
   NECESSARY, not merely cautious - some byte of the virtual register keeps its old content whatever the instruction computes,
   so two executions that differ in that byte of the old register differ in the new register. Conversely a write that is not
   partial never lets an old byte of the virtual register through. *)
Lemma nonzero_has_bit (a : N) : a <> 0%N -> exists i, N.testbit a i = true.
Proof. intros H. exists (N.log2 a). apply N.bit_log2. exact H. Qed.

Theorem partial_write_keeps_a_byte r :
  is_partial r = true ->
  exists i, (i < r_vsize r)%nat /\ forall old res, hw_byte (r_wmask r) (r_emask r) old res i = byte i old.
Proof.
  unfold is_partial. intros H. apply negb_true_iff in H. apply N.eqb_neq in H.
  destruct (nonzero_has_bit _ H) as [n Hn]. rewrite N.ldiff_spec in Hn. apply andb_true_iff in Hn. destruct Hn as [Hl Hc].
  apply negb_true_iff in Hc.
  exists (N.to_nat n). assert (Hm : mbit (low_mask (r_vsize r)) (N.to_nat n) = true) by (unfold mbit; rewrite N2Nat.id; exact Hl).
  rewrite low_mask_bit in Hm. apply Nat.ltb_lt in Hm. split; [exact Hm|].
  intros old res. unfold hw_byte, mbit. rewrite N2Nat.id. unfold covered in Hc. rewrite N.lor_spec in Hc.
  apply orb_false_iff in Hc. destruct Hc as [-> ->]. reflexivity.
Qed.

Theorem partial_write_needs_old_value r :
  is_partial r = true ->
  exists i, (i < r_vsize r)%nat /\ forall res, hw_byte (r_wmask r) (r_emask r) 0 res i <> hw_byte (r_wmask r) (r_emask r) (256 ^ Z.of_nat i) res i.
Proof.
  intros H. destruct (partial_write_keeps_a_byte r H) as [i [Hi Hk]]. exists i. split; [exact Hi|]. intros res. rewrite !Hk.
  unfold byte. rewrite Z.div_0_l by (apply Z.pow_nonzero; lia). rewrite Z.div_same by (apply Z.pow_nonzero; lia). cbn. discriminate.
Qed.

Theorem covering_write_ignores_old_value r old old' res :
  is_partial r = false ->
  forall i, (i < r_vsize r)%nat -> hw_byte (r_wmask r) (r_emask r) old res i = hw_byte (r_wmask r) (r_emask r) old' res i.
Proof.
  unfold is_partial. intros H. apply negb_false_iff in H. apply N.eqb_eq in H. apply rule_covered. exact H.
Qed.

(* ------------------------------------------------------------------ idiom table: value semantics of the tagged operations *)
Local Open Scope Z_scope.
Definition trb (w : nat) (x : Z) : Z := x mod 2 ^ (8 * Z.of_nat w).

Definition lane (s j : nat) (a : Z) : Z := trb s (a / 2 ^ (8 * Z.of_nat s * Z.of_nat j)).
Fixpoint lanewise (k s : nat) (f : Z -> Z -> Z) (a b : Z) : Z :=
  match k with
  | O => 0
  | S k' => lanewise k' s f a b + trb s (f (lane s k' a) (lane s k' b)) * 2 ^ (8 * Z.of_nat s * Z.of_nat k')
  end.

(* w = operand size in bytes; shift/rotate counts are taken as given (only count 0 matters here) *)
Definition alu_sem (op : alu) (w : nat) (a b : Z) : Z :=
  match op with
  | AXor | VXor => trb w (Z.lxor a b)
  | ASub => trb w (a - b)
  | AOr | VOr => trb w (Z.lor a b)
  | AAnd | VAnd => trb w (Z.land a b)
  | AAdd => trb w (a + b)
  | AShl => trb w (Z.shiftl a b)
  | AShr | ASar => trb w (Z.shiftr a b)
  | ARol | ARor => if Z.eqb b 0 then trb w a else 0      (* only the count-0 case is specified *)
  | VSubD => lanewise (w / 4) 4 (fun x y => x - y) a b
  | VCmpEqD => lanewise (w / 4) 4 (fun x y => if Z.eqb x y then -1 else 0) a b
  | AOther => 0
  end.

(* where alu_sem claims to describe the CPU (and is compared with the host CPU on every run, tools/checks/c05.py "alu"):
   everywhere for the logic/arithmetic/vector classes, only at count 0 for shifts and rotates, nowhere for untagged ids *)
Definition alu_defined (op : alu) (b : Z) : bool :=
  match op with
  | AShl | AShr | ASar | ARol | ARor => Z.eqb b 0
  | AOther => false
  | _ => true
  end.

Lemma lanewise_const k s f c a a' : (forall x, f x x = c) -> lanewise k s f a a = lanewise k s f a' a'.
Proof. intros H. induction k; cbn [lanewise]; [reflexivity|]. rewrite IHk, !H. reflexivity. Qed.

Lemma trb_nonneg_id w a : 0 <= a < 2 ^ (8 * Z.of_nat w) -> trb w a = a.
Proof. intros H. unfold trb. apply Z.mod_small. exact H. Qed.

(* same-register forms *)
Theorem idiom_same_wo op w a a' : idiom_of op true None w = IWO -> alu_sem op w a a = alu_sem op w a' a'.
Proof.
  destruct op; cbn; intros H; try discriminate.
  - rewrite !Z.lxor_nilpotent. reflexivity.
  - rewrite !Z.sub_diag. reflexivity.
  - rewrite !Z.lxor_nilpotent. reflexivity.
  - apply (lanewise_const _ _ _ 0). intros x. apply Z.sub_diag.
  - apply (lanewise_const _ _ _ (-1)). intros x. rewrite Z.eqb_refl. reflexivity.
Qed.

Theorem idiom_same_ro op w a : idiom_of op true None w = IRO -> alu_sem op w a a = trb w a.
Proof.
  destruct op; cbn; intros H; try discriminate.
  - rewrite Z.lor_diag. reflexivity.
  - rewrite Z.land_diag. reflexivity.
  - rewrite Z.land_diag. reflexivity.
  - rewrite Z.lor_diag. reflexivity.
Qed.

(* immediate forms *)
Theorem idiom_imm_ro op w a i : idiom_of op false (Some i) w = IRO -> alu_sem op w a i = trb w a.
Proof.
  destruct op; cbn; intros H; try discriminate.
  - destruct (Z.eqb_spec i 0); [subst; rewrite Z.lxor_0_r; reflexivity | discriminate].
  - destruct (Z.eqb_spec i 0); [subst; rewrite Z.sub_0_r; reflexivity | discriminate].
  - destruct (Z.eqb i (-1) || _); [discriminate|]. destruct (Z.eqb_spec i 0); [subst; rewrite Z.lor_0_r; reflexivity | discriminate].
  - destruct (Z.eqb_spec i 0); [subst; rewrite Z.add_0_r; reflexivity | discriminate].
  - destruct (Z.eqb_spec i 0); [subst; rewrite Z.shiftl_0_r; reflexivity | discriminate].
  - destruct (Z.eqb_spec i 0); [subst; rewrite Z.shiftr_0_r; reflexivity | discriminate].
  - destruct (Z.eqb_spec i 0); [subst; rewrite Z.shiftr_0_r; reflexivity | discriminate].
  - destruct (Z.eqb_spec i 0); [subst; reflexivity | discriminate].
  - destruct (Z.eqb_spec i 0); [subst; reflexivity | discriminate].
Qed.

Lemma lor_ones_low n a : 0 <= n -> (Z.lor a (Z.ones n)) mod 2 ^ n = Z.ones n.
Proof.
  intros Hn. apply Z.bits_inj'. intros k Hk.
  destruct (Z.ltb_spec k n).
  - rewrite Z.mod_pow2_bits_low by lia. rewrite Z.lor_spec, Z.ones_spec_low by lia. apply orb_true_r.
  - rewrite Z.mod_pow2_bits_high by lia. rewrite Z.ones_spec_high by lia. reflexivity.
Qed.

Theorem idiom_imm_wo op w a a' i : idiom_of op false (Some i) w = IWO -> alu_sem op w a i = alu_sem op w a' i.
Proof.
  destruct op; try (cbn; intros H; (discriminate || (destruct (Z.eqb_spec i 0); discriminate))).
  (* or r, -1 / or r, all-ones of the operand size *)
  unfold idiom_of, alu_sem. intros H.
  destruct (Z.eqb i (-1) || (Nat.ltb w 8 && Z.eqb i (Z.ones (8 * Z.of_nat w)))) eqn:Ho; [|destruct (Z.eqb i 0); discriminate].
  apply orb_true_iff in Ho. destruct Ho as [Ho | Ho].
  - apply Z.eqb_eq in Ho. rewrite Ho, !Z.lor_m1_r. reflexivity.
  - apply andb_true_iff in Ho. destruct Ho as [_ Ho]. apply Z.eqb_eq in Ho.
    unfold trb. rewrite Ho, !lor_ones_low by lia. reflexivity.
Qed.

(* forms without an idiom never get one *)
Theorem idiom_of_none_default op i w : idiom_of op false None w = INone /\ idiom_of AOther true i w = INone.
Proof. split; [destruct op; reflexivity | destruct i; reflexivity]. Qed.

(* every idiom verdict other than "no idiom" is about an instance where alu_sem is specified (and therefore compared with the CPU) *)
Theorem idiom_imm_defined op w i : idiom_of op false (Some i) w <> INone -> alu_defined op i = true.
Proof.
  destruct op; cbn; intros H; try reflexivity; try (exfalso; apply H; reflexivity);
    destruct (Z.eqb i 0) eqn:E; try reflexivity; exfalso; apply H; reflexivity.
Qed.

Theorem idiom_same_defined op w b : idiom_of op true None w <> INone -> alu_defined op b = true.
Proof. destruct op; cbn; intros H; try reflexivity; exfalso; apply H; reflexivity. Qed.

Theorem idiom_other_none same imm w : idiom_of AOther same imm w = INone.
Proof. destruct imm, same; reflexivity. Qed.

(* ------------------------------------------------------------------ read side: the use width covers the read mask *)
(* For a register operand that is read (no narrowing by a memory form, x86): every byte the instruction reads according to
   its read mask lies below the use width that classify emits - and that use is always part of the result, whatever
   the write side adds. *)
Lemma pos_testbit_size p : forall n, Pos.testbit p n = true -> (N.to_nat n < Pos.size_nat p)%nat.
Proof.
  induction p as [p IH|p IH|]; intros n H; cbn [Pos.size_nat].
  - destruct n as [|q]; [cbn; lia|]. cbn [Pos.testbit] in H. apply IH in H.
    rewrite Pos.pred_N_succ in H || idtac. destruct q; cbn in *; lia.
  - destruct n as [|q]; [discriminate|]. cbn [Pos.testbit] in H. apply IH in H. destruct q; cbn in *; lia.
  - destruct n as [|q]; [cbn; lia|discriminate].
Qed.

Lemma mbit_below_msb m i : mbit m i = true -> (i < msb_width m)%nat.
Proof.
  unfold mbit, msb_width. destruct m as [|p]; [cbn; discriminate|]. cbn [N.testbit N.size_nat]. intros H.
  apply pos_testbit_size in H. rewrite Nat2N.id in H. exact H.
Qed.

Lemma classify_keeps_read_use a64 id r : r_read r = true -> id <> IWO -> In (read_width a64 r) (fst (classify a64 id r)).
Proof.
  intros Hr Hid. unfold classify. rewrite Hr. assert (Hm : match id with IWO => false | _ => true end = true) by (destruct id; [reflexivity|contradiction|reflexivity]).
  rewrite Hm. cbn [andb].
  destruct (r_write r && negb (keeps id r)); [|left; reflexivity].
  destruct (is_partial r); [|left; reflexivity].
  destruct (existsb _ _); cbn [fst]; [left; reflexivity|apply in_or_app; left; left; reflexivity].
Qed.

Theorem classify_read_covers_mask id r :
  r_read r = true -> id <> IWO -> r_ismem r = false -> (r_write r = true \/ r_isrm r = false \/ r_rm r = O) ->
  forall i, mbit (r_rmask r) i = true -> exists u, In u (fst (classify false id r)) /\ (i < u)%nat.
Proof.
  intros Hr Hid Hmem Hrm i Hi. exists (read_width false r). split; [apply classify_keeps_read_use; assumption|].
  unfold read_width. cbn [andb]. rewrite Hmem.
  assert (Hc : (negb (r_write r) && r_isrm r && negb (Nat.eqb (r_rm r) 0) && Nat.ltb (r_rm r) (msb_width (r_rmask r))) = false).
  { destruct Hrm as [H|[H|H]]; rewrite H; cbn; [reflexivity|rewrite andb_false_r; reflexivity|rewrite andb_false_r; reflexivity]. }
  rewrite Hc. apply mbit_below_msb. exact Hi.
Qed.

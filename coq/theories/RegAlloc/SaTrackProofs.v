(* C05: the set of registers followed by RaIRModel.sa_step really holds the address of the stack arguments, for any
   instruction semantics and along any execution of the allocated program. *)
From Coq Require Import ZArith NArith List Bool Arith Lia.
From Verif Require Import RegAlloc.RaIRModel RegAlloc.RaIRProofs.
Import ListNotations.

Lemma find_tlabel_nth l p : forall k pc, find_tlabel l p k = Some pc -> (k <= pc)%nat /\ nth_error p (pc - k) = Some (TLabel l).
Proof.
  induction p as [|i p IH]; intros k pc H; cbn in H; [discriminate|].
  assert (Hrec : find_tlabel l p (S k) = Some pc -> (k <= pc)%nat /\ nth_error (i :: p) (pc - k) = Some (TLabel l)).
  { intros H'. apply IH in H'. destruct H' as [Hle Hn]. split; [lia|]. replace (pc - k)%nat with (S (pc - S k)) by lia. exact Hn. }
  destruct i; try (apply Hrec; exact H).
  destruct (N.eqb_spec l l0).
  - injection H as <-. subst. split; [lia|]. rewrite Nat.sub_diag. reflexivity.
  - apply Hrec. exact H.
Qed.

Lemma In_id_remove j i m : In j (id_remove i m) <-> In j m /\ i <> j.
Proof.
  unfold id_remove. rewrite filter_In. split; intros [H1 H2]; split; try assumption.
  - apply negb_true_iff in H2. apply N.eqb_neq in H2. exact H2.
  - apply negb_true_iff. apply N.eqb_neq. exact H2.
Qed.

Lemma id_mem_In i m : id_mem i m = true -> In i m.
Proof. unfold id_mem. intros H. apply existsb_exists in H. destruct H as [x [Hx He]]. apply N.eqb_eq in He. subst. exact Hx. Qed.

Lemma gp_id_reg l i : gp_id l = Some i -> l = LReg 0%N i.
Proof. destruct l as [g k|o]; cbn; [|discriminate]. destruct (N.eqb_spec g 0); [|discriminate]. intros H. injection H as H. subst. reflexivity. Qed.

Lemma rs_write_other T l w x j : gp_id l <> Some j -> rs (write_loc T l w x) 0%N j = rs T 0%N j.
Proof.
  destruct l as [g k|o]; cbn; [|reflexivity]. intros H. unfold set_reg.
  destruct (N.eqb_spec g 0); cbn; [|reflexivity]. destruct (N.eqb_spec k j); [|reflexivity]. subst. exfalso. apply H. reflexivity.
Qed.

Lemma rs_write_keep_other T l w x j : gp_id l <> Some j -> rs (write_loc_keep T l w x) 0%N j = rs T 0%N j.
Proof.
  destruct l as [g k|o]; cbn; [|reflexivity]. intros H. unfold set_reg.
  destruct (N.eqb_spec g 0); cbn; [|reflexivity]. destruct (N.eqb_spec k j); [|reflexivity]. subst. exfalso. apply H. reflexivity.
Qed.

Lemma rs_write_same T i w x : rs (write_loc T (LReg 0%N i) w x) 0%N i = x.
Proof. cbn. unfold set_reg. cbn. rewrite N.eqb_refl. reflexivity. Qed.

Lemma rs_write_keep_same T i w x : rs (write_loc_keep T (LReg 0%N i) w x) 0%N i = (tr w x + (rs T 0%N i - tr w (rs T 0%N i)))%Z.
Proof. cbn. unfold set_reg. cbn. rewrite N.eqb_refl. reflexivity. Qed.

Lemma defs_remove_keeps ds : forall T m res j, In j (defs_remove ds m) -> In j m /\ rs (twrite T ds res) 0%N j = rs T 0%N j.
Proof.
  induction ds as [|[l w] ds IH]; intros T m res j H; cbn in *; [split; [exact H|reflexivity]|].
  apply (IH (write_loc T l w (hd 0%Z res)) _ (tl res)) in H. destruct H as [Hin Hrs]. rewrite Hrs.
  destruct (gp_id l) as [i|] eqn:G.
  - apply In_id_remove in Hin. destruct Hin as [Hin Hne]. split; [exact Hin|]. apply rs_write_other. rewrite G. intros E. injection E as E. contradiction.
  - split; [exact Hin|]. apply rs_write_other. rewrite G. discriminate.
Qed.

Section Sa.
  Variable world : Type.
  Variable sem : opcode -> list Z -> world -> list Z * world.
  Variable semc : opcode -> list Z -> world -> bool.
  Variable aw : nat.
  Variable A : Z.

  (* every register of the set holds the address A (in its low aw bytes) *)
  Definition sa_holds (T : tstate) (m : list N) : Prop := forall i, In i m -> tr aw (rs T 0%N i) = A.

  Lemma sa_holds_nil T : sa_holds T []. Proof. intros i []. Qed.

  (* one instruction *)
  Lemma sa_step_sound p pc T W pc' T' W' i m :
    nth_error p pc = Some i -> tstep world sem semc p (pc, T, W) = Next (pc', T', W') ->
    sa_holds T m -> sa_holds T' (sa_step aw i m) /\ (pc' = S pc \/ exists l, nth_error p pc' = Some (TLabel l)).
  Proof.
    intros Hi Hs Hm. unfold tstep in Hs. rewrite Hi in Hs. destruct i as [o us ds|d s w keep e|a b w|o us l|l|l|us|o us ls]; cbn [sa_step].
    - (* TOp *) destruct (sem o (tread T us) W) as [res W1]. injection Hs as <- <- <-. split; [|left; lia].
      intros j Hj. apply (defs_remove_keeps ds T m res) in Hj. destruct Hj as [Hin Hrs]. rewrite Hrs. apply Hm. exact Hin.
    - (* TMove *) injection Hs as <- <- <-. split; [|left; lia].
      assert (Hother : forall j, gp_id d <> Some j -> rs (if keep then write_loc_keep T d w (read_loc T s w) else write_loc T d w (read_loc T s w)) 0%N j = rs T 0%N j).
      { intros j Hj. destruct keep; [apply rs_write_keep_other|apply rs_write_other]; exact Hj. }
      destruct (gp_id d) as [di|] eqn:Gd.
      + assert (Hrest : forall j, In j (id_remove di m) -> tr aw (rs (if keep then write_loc_keep T d w (read_loc T s w) else write_loc T d w (read_loc T s w)) 0%N j) = A).
        { intros j Hj. apply In_id_remove in Hj. destruct Hj as [Hin Hne]. rewrite Hother; [apply Hm; exact Hin|]. intros E. injection E as E. contradiction. }
        destruct (gp_id s) as [si|] eqn:Gs; [|exact Hrest].
        destruct (id_mem si m && Nat.leb aw w) eqn:C; [|exact Hrest].
        apply andb_true_iff in C. destruct C as [C1 C2]. apply id_mem_In in C1. apply Nat.leb_le in C2.
        intros j [Hj|Hj]; [|apply Hrest; exact Hj]. subst j.
        apply gp_id_reg in Gd. apply gp_id_reg in Gs. subst d s. cbn [read_loc].
        destruct keep.
        * rewrite rs_write_keep_same. rewrite tr_keep by exact C2. rewrite tr_tr by exact C2. apply Hm. exact C1.
        * rewrite rs_write_same. rewrite tr_tr by exact C2. apply Hm. exact C1.
      + intros j Hj. rewrite Hother; [apply Hm; exact Hj|discriminate].
    - (* TSwap *) injection Hs as <- <- <-. split; [|left; lia].
      set (xa := read_loc T a w). set (xb := read_loc T b w).
      assert (Hrest : forall j, gp_id a <> Some j -> gp_id b <> Some j -> rs (write_loc (write_loc T a w xb) b w xa) 0%N j = rs T 0%N j).
      { intros j Ha Hb. rewrite rs_write_other by exact Hb. apply rs_write_other. exact Ha. }
      destruct (gp_id a) as [ai|] eqn:Ga; destruct (gp_id b) as [bi|] eqn:Gb.
      + assert (Hr : forall j, In j (id_remove ai (id_remove bi m)) -> tr aw (rs (write_loc (write_loc T a w xb) b w xa) 0%N j) = A).
        { intros j Hj. apply In_id_remove in Hj. destruct Hj as [Hj Hna]. apply In_id_remove in Hj. destruct Hj as [Hj Hnb].
          rewrite Hrest; [apply Hm; exact Hj| |]; intros E; injection E as E; contradiction. }
        destruct (Nat.leb aw w) eqn:C; [|exact Hr]. apply Nat.leb_le in C.
        apply gp_id_reg in Ga. apply gp_id_reg in Gb. subst a b.
        intros j Hj. apply in_app_or in Hj. destruct Hj as [Hj|Hj].
        { destruct (id_mem bi m) eqn:Mb; [|destruct Hj]. destruct Hj as [Hj|[]]. subst j. apply id_mem_In in Mb.
          destruct (N.eqb_spec ai bi) as [E|E].
          - subst bi. rewrite rs_write_same. unfold xa. cbn [read_loc]. rewrite tr_tr by exact C. apply Hm. exact Mb.
          - rewrite rs_write_other by (cbn; intros E'; injection E' as E'; apply E; symmetry; exact E').
            rewrite rs_write_same. unfold xb. cbn [read_loc]. rewrite tr_tr by exact C. apply Hm. exact Mb. }
        apply in_app_or in Hj. destruct Hj as [Hj|Hj]; [|apply Hr; exact Hj].
        destruct (id_mem ai m && negb (N.eqb ai bi)) eqn:Ma; [|destruct Hj]. destruct Hj as [Hj|[]]. subst j.
        apply andb_true_iff in Ma. destruct Ma as [Ma _]. apply id_mem_In in Ma.
        rewrite rs_write_same. unfold xa. cbn [read_loc]. rewrite tr_tr by exact C. apply Hm. exact Ma.
      + intros j Hj. apply In_id_remove in Hj. destruct Hj as [Hj Hn]. rewrite Hrest; [apply Hm; exact Hj| |discriminate]. intros E. injection E as E. contradiction.
      + intros j Hj. apply In_id_remove in Hj. destruct Hj as [Hj Hn]. rewrite Hrest; [apply Hm; exact Hj|discriminate|]. intros E. injection E as E. contradiction.
      + intros j Hj. rewrite Hrest; [apply Hm; exact Hj|discriminate|discriminate].
    - (* TCond *) split; [apply sa_holds_nil|]. destruct (semc o (tread T us) W).
      + destruct (find_tlabel l p 0) as [t|] eqn:F; [|discriminate]. injection Hs as <- <- <-. right. exists l.
        apply find_tlabel_nth in F. destruct F as [_ F]. rewrite Nat.sub_0_r in F. exact F.
      + injection Hs as <- <- <-. left. lia.
    - (* TJmp *) split; [apply sa_holds_nil|]. destruct (find_tlabel l p 0) as [t|] eqn:F; [|discriminate]. injection Hs as <- <- <-. right. exists l.
      apply find_tlabel_nth in F. destruct F as [_ F]. rewrite Nat.sub_0_r in F. exact F.
    - (* TLabel *) split; [apply sa_holds_nil|]. injection Hs as <- <- <-. left. lia.
    - (* TRet *) discriminate.
    - (* TJmpTab *) split; [apply sa_holds_nil|]. destruct (sem o (tread T us) W) as [res W1].
      destruct (find_tlabel (pick ls (hd 0%Z res)) p 0) as [t|] eqn:F; [|discriminate]. injection Hs as <- <- <-. right. eexists.
      apply find_tlabel_nth in F. destruct F as [_ F]. rewrite Nat.sub_0_r in F. exact F.
  Qed.

  (* along an execution: in front of the instruction executed next, the registers of sa_at hold the address - or that
     instruction is a label (the landing point of a jump; it has no operands, and behind it sa_at is empty) *)
  Definition sa_inv (p : tprog) (m0 : list N) (c : nat * tstate * world) : Prop :=
    let '(pc, T, _) := c in sa_holds T (sa_at aw p m0 pc) \/ exists l, nth_error p pc = Some (TLabel l).

  Lemma sa_inv_step p m0 c c' : sa_inv p m0 c -> tstep world sem semc p c = Next c' -> sa_inv p m0 c'.
  Proof.
    destruct c as [[pc T] W], c' as [[pc' T'] W']. intros [H|[l H]] Hs.
    - destruct (nth_error p pc) as [i|] eqn:Hi; [|unfold tstep in Hs; rewrite Hi in Hs; discriminate].
      destruct (sa_step_sound p pc T W pc' T' W' i _ Hi Hs H) as [H1 [H2|H2]]; [|right; exact H2].
      left. subst pc'. cbn [sa_at]. rewrite Hi. exact H1.
    - unfold tstep in Hs. rewrite H in Hs. injection Hs as <- <- <-. left. replace (pc + 1)%nat with (S pc) by lia. cbn [sa_at]. rewrite H. apply sa_holds_nil.
  Qed.

  Theorem sa_track_sound p m0 : forall n c c', sa_inv p m0 c -> trun world sem semc n p c = Next c' -> sa_inv p m0 c'.
  Proof.
    induction n as [|n IH]; intros c c' Hc Hr; cbn in Hr; [injection Hr as <-; exact Hc|].
    destruct (tstep world sem semc p c) as [c1| |] eqn:Hs; try discriminate.
    apply (IH c1 c'); [|exact Hr]. apply (sa_inv_step p m0 c c1 Hc Hs).
  Qed.

  (* the form used: started with the SA registers m0 holding the address, whenever the execution stands in front of an
     instruction other than a label, every register that sa_at lists there holds the address *)
  Corollary sa_track_sound_entry p m0 n T0 W0 pc T W i :
    sa_holds T0 m0 -> trun world sem semc n p (0%nat, T0, W0) = Next (pc, T, W) ->
    nth_error p pc = Some i -> (forall l, i <> TLabel l) -> sa_holds T (sa_at aw p m0 pc).
  Proof.
    intros H0 Hr Hi Hl. assert (Hinv : sa_inv p m0 (pc, T, W)).
    { apply (sa_track_sound p m0 n (0%nat, T0, W0)); [left; exact H0|exact Hr]. }
    destruct Hinv as [H|[l H]]; [exact H|]. rewrite Hi in H. injection H as H. exfalso. apply (Hl l). exact H.
  Qed.

  (* an address that becomes known at instruction s. Hypothesis Hs: whenever instruction s has been executed and control
     falls through to s+1, the registers m0 hold the address (that is what "lea p, [sp+k]" does, every time it runs). *)
  Definition sa_inv_from (p : tprog) (s : nat) (m0 : list N) (c : nat * tstate * world) : Prop :=
    let '(pc, T, _) := c in sa_holds T (sa_from aw p s m0 pc) \/ exists l, nth_error p pc = Some (TLabel l).

  Lemma sa_inv_from_step p s m0 :
    (forall T W T' W', tstep world sem semc p (s, T, W) = Next (S s, T', W') -> sa_holds T' m0) ->
    forall c c', sa_inv_from p s m0 c -> tstep world sem semc p c = Next c' -> sa_inv_from p s m0 c'.
  Proof.
    intros Hgen [[pc T] W] [[pc' T'] W'] [H|[l H]] Hs.
    - destruct (nth_error p pc) as [i|] eqn:Hi; [|unfold tstep in Hs; rewrite Hi in Hs; discriminate].
      destruct (sa_step_sound p pc T W pc' T' W' i _ Hi Hs H) as [H1 [H2|H2]]; [|right; exact H2].
      left. subst pc'. cbn [sa_from]. destruct (Nat.eqb_spec pc s) as [->|Hne]; [apply (Hgen T W T' W' Hs)|]. rewrite Hi. exact H1.
    - unfold tstep in Hs. rewrite H in Hs. injection Hs as <- <- <-. left. replace (pc + 1)%nat with (S pc) by lia. cbn [sa_from].
      destruct (Nat.eqb_spec pc s) as [->|Hne]; [apply (Hgen T W T W); unfold tstep; rewrite H; f_equal; f_equal; f_equal; lia|].
      rewrite H. apply sa_holds_nil.
  Qed.

  Theorem sa_from_sound p s m0 :
    (forall T W T' W', tstep world sem semc p (s, T, W) = Next (S s, T', W') -> sa_holds T' m0) ->
    forall n c c', sa_inv_from p s m0 c -> trun world sem semc n p c = Next c' -> sa_inv_from p s m0 c'.
  Proof.
    intros Hgen. induction n as [|n IH]; intros c c' Hc Hr; cbn in Hr; [injection Hr as <-; exact Hc|].
    destruct (tstep world sem semc p c) as [c1| |] eqn:Hs; try discriminate.
    apply (IH c1 c'); [|exact Hr]. apply (sa_inv_from_step p s m0 Hgen c c1 Hc Hs).
  Qed.

  Corollary sa_from_sound_entry p s m0 n T0 W0 pc T W i :
    (forall T W T' W', tstep world sem semc p (s, T, W) = Next (S s, T', W') -> sa_holds T' m0) ->
    trun world sem semc n p (0%nat, T0, W0) = Next (pc, T, W) ->
    nth_error p pc = Some i -> (forall l, i <> TLabel l) -> sa_holds T (sa_from aw p s m0 pc).
  Proof.
    intros Hgen Hr Hi Hl. assert (Hinv : sa_inv_from p s m0 (pc, T, W)).
    { apply (sa_from_sound p s m0 Hgen n (0%nat, T0, W0)); [left; cbn; apply sa_holds_nil|exact Hr]. }
    destruct Hinv as [H|[l H]]; [exact H|]. rewrite Hi in H. injection H as H. exfalso. apply (Hl l). exact H.
  Qed.
End Sa.

(* ------------------------------------------------------------------ a register that no instruction defines is constant *)
Lemma rs_write_loc_other T l w x g i : loc_is_reg g i l = false -> rs (write_loc T l w x) g i = rs T g i.
Proof.
  destruct l as [g' i'|o]; cbn; [|reflexivity]. intros H. unfold set_reg.
  destruct (N.eqb_spec g' g); cbn; [|reflexivity]. destruct (N.eqb_spec i' i); [|reflexivity]. subst.
  rewrite !N.eqb_refl in H. discriminate.
Qed.

Lemma rs_write_loc_keep_other T l w x g i : loc_is_reg g i l = false -> rs (write_loc_keep T l w x) g i = rs T g i.
Proof.
  destruct l as [g' i'|o]; cbn; [|reflexivity]. intros H. unfold set_reg.
  destruct (N.eqb_spec g' g); cbn; [|reflexivity]. destruct (N.eqb_spec i' i); [|reflexivity]. subst.
  rewrite !N.eqb_refl in H. discriminate.
Qed.

Lemma rs_twrite_other g i ds : forall T res, existsb (fun a => loc_is_reg g i (fst a)) ds = false -> rs (twrite T ds res) g i = rs T g i.
Proof.
  induction ds as [|[l w] ds IH]; intros T res H; cbn in *; [reflexivity|].
  apply orb_false_iff in H. destruct H as [H1 H2]. rewrite IH by exact H2. apply rs_write_loc_other. exact H1.
Qed.

Section Untouched.
  Variable world : Type.
  Variable sem : opcode -> list Z -> world -> list Z * world.
  Variable semc : opcode -> list Z -> world -> bool.

  Lemma untouched_step g i tp pc T W pc' T' W' :
    reg_untouched g i tp = true -> tstep world sem semc tp (pc, T, W) = Next (pc', T', W') -> rs T' g i = rs T g i.
  Proof.
    intros Hu Hs. unfold tstep in Hs. destruct (nth_error tp pc) as [ins|] eqn:Hn; [|discriminate].
    assert (Hd : defines_reg g i ins = false).
    { unfold reg_untouched in Hu. apply negb_true_iff in Hu. destruct (defines_reg g i ins) eqn:D; [|reflexivity].
      assert (existsb (defines_reg g i) tp = true) by (apply existsb_exists; exists ins; split; [eapply nth_error_In; eassumption|exact D]). congruence. }
    destruct ins as [o us ds|d s w keep e|a b w|o us l|l|l|us|o us ls]; cbn [defines_reg] in Hd.
    - destruct (sem o (tread T us) W) as [res W1]. injection Hs as <- <- <-. apply rs_twrite_other. exact Hd.
    - injection Hs as <- <- <-. destruct keep; [apply rs_write_loc_keep_other|apply rs_write_loc_other]; exact Hd.
    - injection Hs as <- <- <-. apply orb_false_iff in Hd. destruct Hd as [Ha Hb].
      rewrite rs_write_loc_other by exact Hb. apply rs_write_loc_other. exact Ha.
    - destruct (semc o (tread T us) W); [destruct (find_tlabel l tp 0); [|discriminate]|]; injection Hs as <- <- <-; reflexivity.
    - destruct (find_tlabel l tp 0); [|discriminate]. injection Hs as <- <- <-. reflexivity.
    - injection Hs as <- <- <-. reflexivity.
    - discriminate.
    - destruct (sem o (tread T us) W) as [res W1]. destruct (find_tlabel (pick ls (hd 0%Z res)) tp 0); [|discriminate]. injection Hs as <- <- <-. reflexivity.
  Qed.

  Theorem untouched_constant g i tp : reg_untouched g i tp = true ->
    forall n pc T W pc' T' W', trun world sem semc n tp (pc, T, W) = Next (pc', T', W') -> rs T' g i = rs T g i.
  Proof.
    intros Hu. induction n as [|n IH]; intros pc T W pc' T' W' Hr; cbn [trun] in Hr; [injection Hr as <- <- <-; reflexivity|].
    destruct (tstep world sem semc tp (pc, T, W)) as [[[pc1 T1] W1]| |] eqn:Hs; try discriminate.
    rewrite (IH pc1 T1 W1 pc' T' W' Hr). eapply untouched_step; eassumption.
  Qed.
End Untouched.

(* ------------------------------------------------------------------ frame condition of the allocator's inserted instructions *)
(* what a move / swap / label / jump of the allocated program must NOT change: the world (memory of the program, calls),
   every register it does not define, every stack byte outside the w bytes of a slot it stores to *)
Definition in_range (o : Z) (w : nat) (a : Z) : bool := ((o <=? a) && (a <? o + Z.of_nat w))%Z.
Definition loc_covers (l : loc) (w : nat) (a : Z) : bool := match l with LSlot o => in_range o w a | LReg _ _ => false end.
Definition stores_byte (ins : tinstr) (a : Z) : bool :=
  match ins with
  | TMove d _ w _ _ => loc_covers d w a
  | TSwap x y w => loc_covers x w a || loc_covers y w a
  | _ => false
  end.
Definition is_inserted_kind (ins : tinstr) : bool :=
  match ins with TMove _ _ _ _ _ | TSwap _ _ _ | TLabel _ | TJmp _ => true | _ => false end.

Lemma st_write_loc_other T l w x a : loc_covers l w a = false -> st (write_loc T l w x) a = st T a.
Proof. destruct l as [g i|o]; cbn; [reflexivity|]. unfold store, in_range. intros ->. reflexivity. Qed.
Lemma st_write_loc_keep_other T l w x a : loc_covers l w a = false -> st (write_loc_keep T l w x) a = st T a.
Proof. destruct l as [g i|o]; cbn; [reflexivity|]. unfold store, in_range. intros ->. reflexivity. Qed.

Section InsertedFrame.
  Variable world : Type.
  Variable sem : opcode -> list Z -> world -> list Z * world.
  Variable semc : opcode -> list Z -> world -> bool.

  Theorem inserted_frame tp pc ins T W pc' T' W' :
    nth_error tp pc = Some ins -> is_inserted_kind ins = true ->
    tstep world sem semc tp (pc, T, W) = Next (pc', T', W') ->
    W' = W /\
    (forall g i, defines_reg g i ins = false -> rs T' g i = rs T g i) /\
    (forall a, stores_byte ins a = false -> st T' a = st T a).
  Proof.
    intros Hn Hk Hs. unfold tstep in Hs. rewrite Hn in Hs.
    destruct ins as [o us ds|d s w keep e|x y w|o us l|l|l|us|o us ls]; try discriminate Hk; cbn [defines_reg stores_byte].
    - injection Hs as <- <- <-. split; [reflexivity|]. split.
      + intros g i Hd. destruct keep; [apply rs_write_loc_keep_other|apply rs_write_loc_other]; exact Hd.
      + intros a Ha. destruct keep; [apply st_write_loc_keep_other|apply st_write_loc_other]; exact Ha.
    - injection Hs as <- <- <-. split; [reflexivity|]. split.
      + intros g i Hd. apply orb_false_iff in Hd. destruct Hd as [Hx Hy]. rewrite rs_write_loc_other by exact Hy. apply rs_write_loc_other. exact Hx.
      + intros a Ha. apply orb_false_iff in Ha. destruct Ha as [Hx Hy]. rewrite st_write_loc_other by exact Hy. apply st_write_loc_other. exact Hx.
    - destruct (find_tlabel l tp 0); [|discriminate]. injection Hs as <- <- <-. repeat split; reflexivity.
    - injection Hs as <- <- <-. repeat split; reflexivity.
  Qed.
End InsertedFrame.

(* completeness of the register-list condition: every list the CPU can use (the expansion of any lead register, any length
   >= 1) is accepted *)
Lemma loc_eqb_refl a : loc_eqb a a = true.
Proof. destruct a as [g i|o]; cbn; [rewrite !N.eqb_refl; reflexivity|apply Z.eqb_refl]. Qed.

Lemma list_eqb_loc_refl (ls : list loc) : list_eqb loc_eqb ls ls = true.
Proof. induction ls as [|a ls IH]; cbn; [reflexivity|rewrite loc_eqb_refl, IH; reflexivity]. Qed.

Lemma expand_list_length g : forall n id, length (expand_list g id n) = n.
Proof. induction n; intros id; cbn; [reflexivity|rewrite IHn; reflexivity]. Qed.

Theorem consec_ok_complete g id n : consec_ok (expand_list g id n) = true.
Proof.
  destruct n as [|n]; [reflexivity|].
  assert (H : forall ls, ls = expand_list g id (S n) -> consec_ok ls = true).
  { intros ls ->. cbn [expand_list]. unfold consec_ok. cbn [length]. rewrite expand_list_length.
    change (LReg g id :: expand_list g ((id + 1) mod 32) n) with (expand_list g id (S n)). apply list_eqb_loc_refl. }
  apply H. reflexivity.
Qed.

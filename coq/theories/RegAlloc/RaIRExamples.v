(* C05 — the validator is not vacuous: a correct allocation with spill, reload, loop and an inserted copy is accepted,
   and one hand-made miscompilation of each kind is rejected (all by vm_compute on the real validate). *)
From Coq Require Import ZArith NArith List Bool Arith Lia.
From Verif Require Import RegAlloc.RaIRModel RegAlloc.RaIRProofs RegAlloc.RaIRProgress.
Import ListNotations.
Local Open Scope N_scope.

Definition rdi := LReg 0 7.  Definition rax := LReg 0 0.  Definition rcx := LReg 0 1.  Definition rdx := LReg 0 2.
Definition s0 := LSlot 0%Z.  Definition s4 := LSlot 4%Z.  Definition s8 := LSlot 8%Z.

(* v1 := arg; v2 := const; L1: v1 := f(v1, v2); if g(v1) goto L1; return v1 *)
Definition ex_src : sprog :=
  [ SOp 10 [] [(1, 8%nat)]; SOp 11 [] [(2, 8%nat)]; SLabel 1;
    SOp 12 [(1, 8%nat); (2, 8%nat)] [(1, 8%nat)]; SCond 13 [(1, 8%nat)] 1; SMove 100 1 8; SRet [(100, 8%nat)] ].

(* v1 in rdi; v2 computed in rax, spilled to [sp+0], reloaded into rcx inside the loop; result copied to rax *)
Definition ex_good : tprog :=
  [ TOp 10 [] [(rdi, 8%nat)]; TOp 11 [] [(rax, 8%nat)]; TMove s0 rax 8 false 8; TLabel 1;
    TMove rcx s0 8 false 8; TOp 12 [(rdi, 8%nat); (rcx, 8%nat)] [(rdi, 8%nat)]; TCond 13 [(rdi, 8%nat)] 1;
    TMove rax rdi 8 false 8; TRet [(rax, 8%nat)] ].
Definition ex_good_h : hints := [Some 0; Some 1; None; Some 2; None; Some 3; Some 4; None; Some 6]%nat.

Example ex_good_accepted : validate ex_src ex_good ex_good_h = true.
Proof. vm_compute. reflexivity. Qed.

(* 1. missing reload: the loop body reads rcx, which was never loaded *)
Definition ex_missing_reload : tprog :=
  [ TOp 10 [] [(rdi, 8%nat)]; TOp 11 [] [(rax, 8%nat)]; TMove s0 rax 8 false 8; TLabel 1;
    TOp 12 [(rdi, 8%nat); (rcx, 8%nat)] [(rdi, 8%nat)]; TCond 13 [(rdi, 8%nat)] 1;
    TMove rax rdi 8 false 8; TRet [(rax, 8%nat)] ].
Example ex_missing_reload_rejected :
  validate ex_src ex_missing_reload [Some 0; Some 1; None; Some 2; Some 3; Some 4; None; Some 6]%nat = false.
Proof. vm_compute. reflexivity. Qed.

(* 2. clobbered live value: the reload goes into rdi, which still holds v1 *)
Definition ex_clobber : tprog :=
  [ TOp 10 [] [(rdi, 8%nat)]; TOp 11 [] [(rax, 8%nat)]; TMove s0 rax 8 false 8; TLabel 1;
    TMove rdi s0 8 false 8; TOp 12 [(rdi, 8%nat); (rdi, 8%nat)] [(rdi, 8%nat)]; TCond 13 [(rdi, 8%nat)] 1;
    TMove rax rdi 8 false 8; TRet [(rax, 8%nat)] ].
Example ex_clobber_rejected : validate ex_src ex_clobber ex_good_h = false.
Proof. vm_compute. reflexivity. Qed.

(* 3. wrong assignment on the back edge: the loop body leaves v1 in rdx, the loop head expects it in rdi *)
Definition ex_back_edge : tprog :=
  [ TOp 10 [] [(rdi, 8%nat)]; TOp 11 [] [(rax, 8%nat)]; TMove s0 rax 8 false 8; TLabel 1;
    TMove rcx s0 8 false 8; TOp 12 [(rdi, 8%nat); (rcx, 8%nat)] [(rdx, 8%nat)]; TCond 13 [(rdx, 8%nat)] 1;
    TMove rax rdx 8 false 8; TRet [(rax, 8%nat)] ].
Example ex_back_edge_rejected : validate ex_src ex_back_edge ex_good_h = false.
Proof. vm_compute. reflexivity. Qed.

(* 4. overlapping slots: a second spill to [sp+4] (8 bytes) destroys half of the home of v2 at [sp+0] *)
Definition ex_overlap : tprog :=
  [ TOp 10 [] [(rdi, 8%nat)]; TOp 11 [] [(rax, 8%nat)]; TMove s0 rax 8 false 8; TMove s4 rdi 8 false 8; TLabel 1;
    TMove rcx s0 8 false 8; TOp 12 [(rdi, 8%nat); (rcx, 8%nat)] [(rdi, 8%nat)]; TCond 13 [(rdi, 8%nat)] 1;
    TMove rax rdi 8 false 8; TRet [(rax, 8%nat)] ].
Example ex_overlap_rejected :
  validate ex_src ex_overlap [Some 0; Some 1; None; None; Some 2; None; Some 3; Some 4; None; Some 6]%nat = false.
Proof. vm_compute. reflexivity. Qed.
(* ... while disjoint slots are fine *)
Definition ex_disjoint : tprog :=
  [ TOp 10 [] [(rdi, 8%nat)]; TOp 11 [] [(rax, 8%nat)]; TMove s0 rax 8 false 8; TMove s8 rdi 8 false 8; TLabel 1;
    TMove rcx s0 8 false 8; TOp 12 [(rdi, 8%nat); (rcx, 8%nat)] [(rdi, 8%nat)]; TCond 13 [(rdi, 8%nat)] 1;
    TMove rax rdi 8 false 8; TRet [(rax, 8%nat)] ].
Example ex_disjoint_accepted :
  validate ex_src ex_disjoint [Some 0; Some 1; None; None; Some 2; None; Some 3; Some 4; None; Some 6]%nat = true.
Proof. vm_compute. reflexivity. Qed.

(* 5. spill narrower than the value: only 4 of the 8 bytes of v2 are saved *)
Definition ex_narrow : tprog :=
  [ TOp 10 [] [(rdi, 8%nat)]; TOp 11 [] [(rax, 8%nat)]; TMove s0 rax 4 false 4; TLabel 1;
    TMove rcx s0 4 false 8; TOp 12 [(rdi, 8%nat); (rcx, 8%nat)] [(rdi, 8%nat)]; TCond 13 [(rdi, 8%nat)] 1;
    TMove rax rdi 8 false 8; TRet [(rax, 8%nat)] ].
Example ex_narrow_rejected : validate ex_src ex_narrow ex_good_h = false.
Proof. vm_compute. reflexivity. Qed.

(* 6. operands exchanged *)
Definition ex_swapped : tprog :=
  [ TOp 10 [] [(rdi, 8%nat)]; TOp 11 [] [(rax, 8%nat)]; TMove s0 rax 8 false 8; TLabel 1;
    TMove rcx s0 8 false 8; TOp 12 [(rcx, 8%nat); (rdi, 8%nat)] [(rdi, 8%nat)]; TCond 13 [(rdi, 8%nat)] 1;
    TMove rax rdi 8 false 8; TRet [(rax, 8%nat)] ].
Example ex_swapped_rejected : validate ex_src ex_swapped ex_good_h = false.
Proof. vm_compute. reflexivity. Qed.

(* 7. a zero-extending 4-byte copy (mov v3.r32, v1.r32) dropped by the allocator, the copy then read as 8 bytes:
      wrong unless the upper half of v1 happens to be zero. Kept as a real move it is accepted. *)
Definition ex_src_zext : sprog :=
  [ SOp 10 [] [(1, 8%nat)]; SMove 3 1 4; SOp 14 [(3, 8%nat)] [(1, 8%nat)]; SMove 100 1 8; SRet [(100, 8%nat)] ].
Definition ex_zext_elided : tprog :=
  [ TOp 10 [] [(rdi, 8%nat)]; TOp 14 [(rdi, 8%nat)] [(rax, 8%nat)]; TRet [(rax, 8%nat)] ].
Example ex_zext_elided_rejected : validate ex_src_zext ex_zext_elided [Some 0; Some 2; Some 4]%nat = false.
Proof. vm_compute. reflexivity. Qed.
Definition ex_zext_kept : tprog :=
  [ TOp 10 [] [(rdi, 8%nat)]; TMove rcx rdi 4 false 8; TOp 14 [(rcx, 8%nat)] [(rax, 8%nat)]; TRet [(rax, 8%nat)] ].
Example ex_zext_kept_accepted : validate ex_src_zext ex_zext_kept [Some 0; Some 1; Some 2; Some 4]%nat = true.
Proof. vm_compute. reflexivity. Qed.

(* 8. a call-like instruction clobbers rcx (extra target def); v2 must not be assumed to survive there *)
Definition ex_src_call : sprog :=
  [ SOp 10 [] [(1, 8%nat)]; SOp 11 [] [(2, 8%nat)]; SOp 15 [(1, 8%nat)] [(1, 8%nat)];
    SOp 12 [(1, 8%nat); (2, 8%nat)] [(1, 8%nat)]; SMove 100 1 8; SRet [(100, 8%nat)] ].
Definition ex_call_clobber : tprog :=
  [ TOp 10 [] [(rdi, 8%nat)]; TOp 11 [] [(rcx, 8%nat)]; TOp 15 [(rdi, 8%nat)] [(rax, 8%nat); (rcx, 8%nat); (rdx, 8%nat)];
    TOp 12 [(rax, 8%nat); (rcx, 8%nat)] [(rax, 8%nat)]; TRet [(rax, 8%nat)] ].
Example ex_call_clobber_rejected : validate ex_src_call ex_call_clobber [Some 0; Some 1; Some 2; Some 3; Some 5]%nat = false.
Proof. vm_compute. reflexivity. Qed.
Definition ex_call_saved : tprog :=
  [ TOp 10 [] [(rdi, 8%nat)]; TOp 11 [] [(rcx, 8%nat)]; TMove s0 rcx 8 false 8;
    TOp 15 [(rdi, 8%nat)] [(rax, 8%nat); (rcx, 8%nat); (rdx, 8%nat)];
    TOp 12 [(rax, 8%nat); (s0, 8%nat)] [(rax, 8%nat)]; TRet [(rax, 8%nat)] ].
Example ex_call_saved_accepted : validate ex_src_call ex_call_saved [Some 0; Some 1; None; Some 2; Some 3; Some 5]%nat = true.
Proof. vm_compute. reflexivity. Qed.

(* consequence of soundness for the accepted example: whatever the instructions mean, the allocated loop returns what
   the source loop returns *)
Lemma ex_good_behaves : forall (world : Type) sem semc V0 T0 (W : world) n,
  exists k, observe_s world (srun world sem semc k ex_src (O, V0, W)) = observe_t world (trun world sem semc n ex_good (O, T0, W)).
Proof. intros. apply (validate_sound ex_src ex_good ex_good_h ex_good_accepted). Qed.

(* 9. the full validator (equations + progress) accepts the correct allocation and refuses one whose inserted code can
      spin forever: the loop back edge goes through a trampoline that jumps to itself when ... (here: always) *)
Example ex_good_full : validate_full ex_src ex_good ex_good_h = true.
Proof. vm_compute. reflexivity. Qed.
Definition ex_spin : tprog :=
  [ TOp 10 [] [(rdi, 8%nat)]; TOp 11 [] [(rax, 8%nat)]; TMove s0 rax 8 false 8; TLabel 1;
    TMove rcx s0 8 false 8; TOp 12 [(rdi, 8%nat); (rcx, 8%nat)] [(rdi, 8%nat)]; TCond 13 [(rdi, 8%nat)] 1;
    TLabel 7; TJmp 7; TMove rax rdi 8 false 8; TRet [(rax, 8%nat)] ].
Definition ex_spin_h : hints := [Some 0; Some 1; None; Some 2; None; Some 3; Some 4; None; None; None; Some 6]%nat.
Example ex_spin_equations_hold : validate ex_src ex_spin ex_spin_h = true.     (* partial correctness alone does not see it *)
Proof. vm_compute. reflexivity. Qed.
Example ex_spin_rejected : validate_full ex_src ex_spin ex_spin_h = false.
Proof. vm_compute. reflexivity. Qed.

(* 10. annotated jump table: v1 := arg; v2 := const; switch (f v1) { L1: v2 := g v2; (falls through) L2: return v2 } *)
Definition ex_src_jt : sprog :=
  [ SOp 10 [] [(1, 8%nat)]; SOp 11 [] [(2, 8%nat)]; SJmpTab 20 [(1, 8%nat)] [1; 2]; SLabel 1;
    SOp 21 [(2, 8%nat)] [(2, 8%nat)]; SLabel 2; SMove 100 2 8; SRet [(100, 8%nat)] ].
Definition ex_jt_good : tprog :=
  [ TOp 10 [] [(rdi, 8%nat)]; TOp 11 [] [(rcx, 8%nat)]; TJmpTab 20 [(rdi, 8%nat)] [1; 2]; TLabel 1;
    TOp 21 [(rcx, 8%nat)] [(rcx, 8%nat)]; TLabel 2; TMove rax rcx 8 false 8; TRet [(rax, 8%nat)] ].
Example ex_jt_good_accepted : validate_full ex_src_jt ex_jt_good [Some 0; Some 1; Some 2; Some 3; Some 4; Some 5; None; Some 7]%nat = true.
Proof. vm_compute. reflexivity. Qed.
(* the case-1 block moves v2 to rdx, the shared target L2 is entered with v2 in rcx from the table and in rdx by falling through *)
Definition ex_jt_bad : tprog :=
  [ TOp 10 [] [(rdi, 8%nat)]; TOp 11 [] [(rcx, 8%nat)]; TJmpTab 20 [(rdi, 8%nat)] [1; 2]; TLabel 1;
    TOp 21 [(rcx, 8%nat)] [(rdx, 8%nat)]; TLabel 2; TMove rax rdx 8 false 8; TRet [(rax, 8%nat)] ].
Example ex_jt_bad_rejected : validate ex_src_jt ex_jt_bad [Some 0; Some 1; Some 2; Some 3; Some 4; Some 5; None; Some 7]%nat = false.
Proof. vm_compute. reflexivity. Qed.
(* a table that lists its targets in another order is refused as well *)
Definition ex_jt_perm : tprog :=
  [ TOp 10 [] [(rdi, 8%nat)]; TOp 11 [] [(rcx, 8%nat)]; TJmpTab 20 [(rdi, 8%nat)] [2; 1]; TLabel 1;
    TOp 21 [(rcx, 8%nat)] [(rcx, 8%nat)]; TLabel 2; TMove rax rcx 8 false 8; TRet [(rax, 8%nat)] ].
Example ex_jt_perm_rejected : validate ex_src_jt ex_jt_perm [Some 0; Some 1; Some 2; Some 3; Some 4; Some 5; None; Some 7]%nat = false.
Proof. vm_compute. reflexivity. Qed.

(* 11. register lists: {v30, v31, v0} wraps around and is what the CPU uses for lead v30; {v1, v3} is not a list *)
Example ex_list_wrap : consec_ok [LReg 1 30; LReg 1 31; LReg 1 0] = true.
Proof. vm_compute. reflexivity. Qed.
Example ex_list_gap : consec_ok [LReg 1 1; LReg 1 3] = false.
Proof. vm_compute. reflexivity. Qed.
Example ex_list_group : consec_ok [LReg 1 4; LReg 0 5] = false.
Proof. vm_compute. reflexivity. Qed.

(* 12. a vector argument passed by reference (Windows x64): "p := address of a temporary" (opcode 30, no uses) is an
       instruction of the source too; the allocated code computes it (lea rax, [rsp+32]), stores the vector in the temporary
       (slot 32, 16 bytes), moves the pointer to rcx; the call (opcode 31) reads the pointer AND the 16 bytes of the temporary
       and destroys the temporary. Refused: a spill into the temporary before the call; the pointer not in rcx. *)
Definition xmm1 := LReg 1 1.  Definition s32 := LSlot 32%Z.  Definition s40 := LSlot 40%Z.
Definition ex_src_byref : sprog :=
  [ SOp 10 [] [(1, 16%nat)]; SOp 30 [] [(50, 8%nat)]; SOp 31 [(50, 8%nat); (1, 16%nat)] [(2, 8%nat)]; SMove 100 2 8; SRet [(100, 8%nat)] ].
Definition ex_byref_good : tprog :=
  [ TOp 10 [] [(xmm1, 16%nat)]; TOp 30 [] [(rax, 8%nat)]; TMove s32 xmm1 16 false 16; TMove rcx rax 8 false 8;
    TOp 31 [(rcx, 8%nat); (s32, 16%nat)] [(rax, 8%nat); (rcx, 8%nat); (rdx, 8%nat); (s32, 16%nat)]; TRet [(rax, 8%nat)] ].
Example ex_byref_accepted : validate_full ex_src_byref ex_byref_good [Some 0; Some 1; None; None; Some 2; Some 4]%nat = true.
Proof. vm_compute. reflexivity. Qed.
Definition ex_byref_overwritten : tprog :=
  [ TOp 10 [] [(xmm1, 16%nat)]; TOp 30 [] [(rax, 8%nat)]; TMove s32 xmm1 16 false 16; TMove s40 rdx 8 false 8; TMove rcx rax 8 false 8;
    TOp 31 [(rcx, 8%nat); (s32, 16%nat)] [(rax, 8%nat); (rcx, 8%nat); (rdx, 8%nat); (s32, 16%nat)]; TRet [(rax, 8%nat)] ].
Example ex_byref_overwritten_rejected : validate ex_src_byref ex_byref_overwritten [Some 0; Some 1; None; None; None; Some 2; Some 4]%nat = false.
Proof. vm_compute. reflexivity. Qed.
Definition ex_byref_no_pointer : tprog :=
  [ TOp 10 [] [(xmm1, 16%nat)]; TOp 30 [] [(rax, 8%nat)]; TMove s32 xmm1 16 false 16;
    TOp 31 [(rcx, 8%nat); (s32, 16%nat)] [(rax, 8%nat); (rcx, 8%nat); (rdx, 8%nat); (s32, 16%nat)]; TRet [(rax, 8%nat)] ].
Example ex_byref_no_pointer_rejected : validate ex_src_byref ex_byref_no_pointer [Some 0; Some 1; None; Some 2; Some 4]%nat = false.
Proof. vm_compute. reflexivity. Qed.

(* 13. a legacy-SSE partial write (movlps x, [m]: bytes 0-7 written, 8-15 kept; RwRuleModel.classify makes the old 16 bytes a
       use). v1 lives in slot 32 when the instruction comes. Accepted: full reload in front of it. Refused: the instruction
       treated as a pure definition (fresh register, no reload) and a reload of only the 8 low bytes. *)
Definition xmm2 := LReg 1 2.
Definition ex_src_movlps : sprog :=
  [ SOp 10 [] [(1, 16%nat)]; SOp 40 [(1, 16%nat)] [(1, 16%nat)]; SOp 41 [(1, 16%nat)] [(2, 8%nat)]; SMove 100 2 8; SRet [(100, 8%nat)] ].
Definition ex_movlps_good : tprog :=
  [ TOp 10 [] [(xmm1, 16%nat)]; TMove s32 xmm1 16 false 16; TMove xmm2 s32 16 false 16;
    TOp 40 [(xmm2, 16%nat)] [(xmm2, 16%nat)]; TOp 41 [(xmm2, 16%nat)] [(rax, 8%nat)]; TRet [(rax, 8%nat)] ].
Example ex_movlps_accepted : validate_full ex_src_movlps ex_movlps_good [Some 0; None; None; Some 1; Some 2; Some 4]%nat = true.
Proof. vm_compute. reflexivity. Qed.
Definition ex_movlps_pure_def : tprog :=
  [ TOp 10 [] [(xmm1, 16%nat)]; TMove s32 xmm1 16 false 16;
    TOp 40 [(xmm2, 16%nat)] [(xmm2, 16%nat)]; TOp 41 [(xmm2, 16%nat)] [(rax, 8%nat)]; TRet [(rax, 8%nat)] ].
Example ex_movlps_pure_def_rejected : validate ex_src_movlps ex_movlps_pure_def [Some 0; None; Some 1; Some 2; Some 4]%nat = false.
Proof. vm_compute. reflexivity. Qed.
Definition ex_movlps_half_reload : tprog :=
  [ TOp 10 [] [(xmm1, 16%nat)]; TMove s32 xmm1 16 false 16; TMove xmm2 s32 8 false 16;
    TOp 40 [(xmm2, 16%nat)] [(xmm2, 16%nat)]; TOp 41 [(xmm2, 16%nat)] [(rax, 8%nat)]; TRet [(rax, 8%nat)] ].
Example ex_movlps_half_reload_rejected : validate ex_src_movlps ex_movlps_half_reload [Some 0; None; None; Some 1; Some 2; Some 4]%nat = false.
Proof. vm_compute. reflexivity. Qed.

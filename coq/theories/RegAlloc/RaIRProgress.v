(* C05 — termination is preserved: if the validator (equations + progress ranks) accepts and the source program returns,
   then the allocated program returns (the same values in the same world, by RaIRProofs). *)
From Coq Require Import ZArith NArith List Bool Arith Lia Wf_nat.
From Verif Require Import RegAlloc.RaIRModel RegAlloc.RaIRProofs.
Import ListNotations.
Local Open Scope Z_scope.

Section Progress.
  Variable world : Type.
  Variable sem : opcode -> list Z -> world -> list Z * world.
  Variable semc : opcode -> list Z -> world -> bool.

  Notation srun := (srun world sem semc).
  Notation trun := (trun world sem semc).
  Notation sstep := (sstep world sem semc).
  Notation tstep := (tstep world sem semc).

  Lemma srun_halt_absorb sp a b c res W : srun a sp c = Halt res W -> srun (a + b) sp c = Halt res W.
  Proof.
    revert c. induction a; intros c H; cbn [srun Nat.add] in *; [discriminate|].
    destruct (sstep sp c); try discriminate; [apply IHa; assumption | assumption].
  Qed.

  Lemma srun_next_halt sp k K c c' res W :
    srun k sp c = Next c' -> srun K sp c = Halt res W -> (k <= K)%nat /\ srun (K - k) sp c' = Halt res W.
  Proof.
    intros Hk HK. destruct (le_lt_dec k K) as [Hle | Hlt].
    - split; [assumption|]. rewrite <- (srun_app world sem semc sp k (K - k) c c' Hk).
      replace (k + (K - k))%nat with K by lia. assumption.
    - exfalso. pose proof (srun_halt_absorb sp K (k - K) c res W HK) as Ha.
      replace (K + (k - K))%nat with k in Ha by lia. congruence.
  Qed.

  Definition tpc (ct : tconf world) : nat := fst (fst ct).

  (* one target step: the source advances at least one step, or the rank decreases *)
  Definition sim_result2 (sp : sprog) (ann : annot) (rk : list nat) (cs : sconf world) (t : nat) (r : outcome world (tconf world)) : Prop :=
    match r with
    | Next ct' => exists k cs', srun k sp cs = Next cs' /\ match_conf world ann cs' ct' /\
                                ((1 <= k)%nat \/ (rank_of rk (tpc ct') < rank_of rk t)%nat)
    | Halt res W' => srun 1 sp cs = Halt res W'
    | Stuck => False
    end.

  Lemma edge2 sp ann rk s E t t' V T W :
    holds E V T -> edge sp ann s E t' = true -> (rank_of rk t' < rank_of rk t)%nat ->
    sim_result2 sp ann rk (s, V, W) t (Next (t', T, W)).
  Proof.
    intros H He Hr. destruct (edge_sound world sem semc sp ann s E t' V T W H He) as [k [cs' [Hk Hm]]].
    exists k, cs'. split; [assumption|]. split; [assumption|]. right. exact Hr.
  Qed.

  Lemma step_edge2 sp ann rk cs s E t t' V T W :
    sstep sp cs = Next (s, V, W) -> holds E V T -> edge sp ann s E t' = true ->
    sim_result2 sp ann rk cs t (Next (t', T, W)).
  Proof.
    intros Hs H He. destruct (edge_sound world sem semc sp ann s E t' V T W H He) as [k [cs' [Hk Hm]]].
    exists (1 + k)%nat, cs'. split; [|split; [assumption | left; lia]].
    rewrite (srun_app world sem semc sp 1 k cs (s, V, W)); [assumption|]. rewrite srun_one. assumption.
  Qed.

  Lemma step_sim2 sp tp ann rk s V t T W :
    check_pc sp tp ann t = true -> check_rank_pc tp rk t = true -> match_conf world ann (s, V, W) (t, T, W) ->
    sim_result2 sp ann rk (s, V, W) t (tstep tp (t, T, W)).
  Proof.
    intros Hc Hrk [_ [E [Hann H]]]. unfold check_pc in Hc. rewrite Hann in Hc. unfold check_rank_pc in Hrk.
    unfold RaIRModel.tstep.
    destruct (nth_error tp t) as [[o tu td|d src w keep e|a b w|o tu l|l|l|tu|o tu tls]|] eqn:Ht; try discriminate.
    - (* TOp *)
      destruct (nth_error sp s) as [[o' su sd|? ? ?|? ? ?|?|?|?|? ? ?]|] eqn:Hs; try discriminate.
      apply andb_true_iff in Hc. destruct Hc as [Hc He]. apply andb_true_iff in Hc. destruct Hc as [Ho Hu].
      apply N.eqb_eq in Ho. subst o'.
      destruct (defs_eqs E sd td) as [E'|] eqn:Hd; [|discriminate].
      rewrite <- (check_uses_ok E V T H su tu Hu).
      destruct (sem o (sread V su) W) as [res W'] eqn:Hsem.
      eapply step_edge2; [| |eassumption].
      + unfold RaIRModel.sstep. rewrite Hs, Hsem. reflexivity.
      + eapply defs_eqs_holds; eassumption.
    - (* TMove *)
      apply Nat.ltb_lt in Hrk.
      apply orb_true_iff in Hc. destruct Hc as [Hc | Hc].
      + destruct (nth_error sp s) as [[? ? ?|dv sv w'|? ? ?|?|?|?|? ? ?]|] eqn:Hs; try discriminate.
        apply andb_true_iff in Hc. destruct Hc as [Hj He].
        unfold joint_ok in Hj. apply andb_true_iff in Hj. destruct Hj as [Hj Hi].
        apply andb_true_iff in Hj. destruct Hj as [Hj Hreg]. apply andb_true_iff in Hj. destruct Hj as [Hw Hk].
        apply Nat.eqb_eq in Hw. subst w'. apply negb_true_iff in Hk. subst keep.
        eapply step_edge2; [| |eassumption].
        * unfold RaIRModel.sstep. rewrite Hs. reflexivity.
        * apply joint_holds; assumption.
      + eapply edge2; [apply (tmove_holds' E V T d src w keep H) | eassumption | assumption].
    - (* TSwap *)
      apply Nat.ltb_lt in Hrk.
      apply andb_true_iff in Hc. destruct Hc as [Hc He]. apply andb_true_iff in Hc. destruct Hc as [Hc Hd].
      apply andb_true_iff in Hc. destruct Hc as [Ha Hb].
      eapply edge2; [apply (tswap_holds E V T a b w H Ha Hb Hd) | eassumption | assumption].
    - (* TCond *)
      destruct (nth_error sp s) as [[? ? ?|? ? ?|o' su l'|?|?|?|? ? ?]|] eqn:Hs; try discriminate.
      apply andb_true_iff in Hc. destruct Hc as [Hc He]. apply andb_true_iff in Hc. destruct Hc as [Ho Hu].
      apply N.eqb_eq in Ho. subst o'.
      destruct (find_tlabel l tp 0) as [t'|] eqn:Hft; [|discriminate].
      destruct (find_slabel l' sp 0) as [s'|] eqn:Hfs; [|discriminate].
      apply andb_true_iff in He. destruct He as [He1 He2].
      rewrite <- (check_uses_ok E V T H su tu Hu).
      destruct (semc o (sread V su) W) eqn:Hsem.
      + eapply step_edge2; [|eassumption|eassumption].
        unfold RaIRModel.sstep. rewrite Hs, Hsem, Hfs. reflexivity.
      + eapply step_edge2; [|eassumption|eassumption].
        unfold RaIRModel.sstep. rewrite Hs, Hsem. reflexivity.
    - (* TJmp *)
      destruct (find_tlabel l tp 0) as [t'|] eqn:Hft; [|discriminate].
      apply Nat.ltb_lt in Hrk. eapply edge2; eassumption.
    - (* TLabel *)
      apply Nat.ltb_lt in Hrk. eapply edge2; eassumption.
    - (* TRet *)
      destruct (nth_error sp s) as [[? ? ?|? ? ?|? ? ?|?|?|su|? ? ?]|] eqn:Hs; try discriminate.
      rewrite <- (check_uses_ok E V T H su tu Hc).
      cbn [sim_result2]. rewrite srun_one. unfold RaIRModel.sstep. rewrite Hs. reflexivity.
    - (* TJmpTab *)
      destruct (nth_error sp s) as [[? ? ?|? ? ?|? ? ?|?|?|?|o' su sls]|] eqn:Hs; try discriminate.
      apply andb_true_iff in Hc. destruct Hc as [Hc Hall]. apply andb_true_iff in Hc. destruct Hc as [Hc Hne].
      apply andb_true_iff in Hc. destruct Hc as [Hc Hlen]. apply andb_true_iff in Hc. destruct Hc as [Ho Hu].
      apply N.eqb_eq in Ho. subst o'. apply Nat.eqb_eq in Hlen. apply negb_true_iff in Hne. apply Nat.eqb_neq in Hne.
      rewrite <- (check_uses_ok E V T H su tu Hu).
      destruct (sem o (sread V su) W) as [res W'] eqn:Hsem.
      pose proof (pick_in tls sls (hd 0%Z res) Hlen Hne) as Hin.
      rewrite forallb_forall in Hall. specialize (Hall _ Hin). cbn [fst snd] in Hall.
      destruct (find_tlabel (pick tls (hd 0%Z res)) tp 0) as [t'|] eqn:Hft; [|discriminate].
      destruct (find_slabel (pick sls (hd 0%Z res)) sp 0) as [s'|] eqn:Hfs; [|discriminate].
      eapply step_edge2; [|eassumption|eassumption].
      unfold RaIRModel.sstep. rewrite Hs, Hsem, Hfs. reflexivity.
  Qed.

  Lemma rank_pc_of_check tp rk t : check_progress tp rk = true -> (t < length tp)%nat -> check_rank_pc tp rk t = true.
  Proof. intros H Ht. unfold check_progress in H. rewrite forallb_forall in H. apply H. apply in_seq. lia. Qed.

  Lemma ann_lt sp tp ann t x : check sp tp ann = true -> nth_error ann t = Some x -> (t < length tp)%nat.
  Proof.
    intros Hc Hn. unfold check in Hc. apply andb_true_iff in Hc. destruct Hc as [Hc _].
    apply andb_true_iff in Hc. destruct Hc as [_ Hl]. apply Nat.eqb_eq in Hl.
    assert (t < length ann)%nat by (apply nth_error_Some; congruence). lia.
  Qed.

  Lemma terminates sp tp ann rk : check sp tp ann = true -> check_progress tp rk = true ->
    forall K m cs ct res W', match_conf world ann cs ct -> rank_of rk (tpc ct) = m ->
      srun K sp cs = Halt res W' -> exists n, trun n tp ct = Halt res W'.
  Proof.
    intros Hc Hp. induction K as [K IHK] using lt_wf_ind. induction m as [m IHm] using lt_wf_ind.
    intros [[s V] W] [[t T] W0] res W' Hm Hrank HK.
    pose proof Hm as Hm'. destruct Hm' as [<- [E [Hann H]]].
    pose proof (step_sim2 sp tp ann rk s V t T W (check_pc_of_check sp tp ann t _ Hc Hann)
                  (rank_pc_of_check tp rk t Hp (ann_lt sp tp ann t _ Hc Hann)) Hm) as Hs.
    destruct (tstep tp (t, T, W)) as [ct'|res1 W1|] eqn:Hstep; cbn [sim_result2] in Hs.
    - destruct Hs as [k [cs' [Hk [Hm1 Hor]]]].
      destruct (srun_next_halt sp k K _ cs' res W' Hk HK) as [Hle HK'].
      assert (Hex : exists n, trun n tp ct' = Halt res W').
      { destruct Hor as [Hk1 | Hlt].
        - apply (IHK (K - k)%nat ltac:(lia) (rank_of rk (tpc ct')) cs' ct' res W' Hm1 eq_refl HK').
        - destruct (Nat.eq_dec k 0) as [-> | Hk0].
          + rewrite Nat.sub_0_r in HK'. cbn in Hrank. subst m.
            apply (IHm (rank_of rk (tpc ct')) Hlt cs' ct' res W' Hm1 eq_refl HK').
          + apply (IHK (K - k)%nat ltac:(lia) (rank_of rk (tpc ct')) cs' ct' res W' Hm1 eq_refl HK'). }
      destruct Hex as [n Hn]. exists (S n). cbn [RaIRModel.trun]. rewrite Hstep. exact Hn.
    - exists 1%nat. cbn [RaIRModel.trun]. rewrite Hstep.
      destruct K as [|K']; [discriminate|].
      pose proof (srun_halt_absorb sp 1 K' (s, V, W) res1 W1 Hs) as Ha. cbn [Nat.add] in Ha. congruence.
    - destruct Hs.
  Qed.

  (* quantitative form: with B an upper bound of all ranks, the allocated program needs at most B+1 instructions per source
     instruction (every run of inserted moves / swaps / labels / jumps between two matched instructions is shorter than B+1) *)
  Lemma rank_of_le_max rk t : (rank_of rk t <= list_max rk)%nat.
  Proof.
    unfold rank_of. destruct (nth_in_or_default t rk O) as [Hin | ->]; [|lia].
    pose proof (proj1 (list_max_le rk (list_max rk)) (Nat.le_refl _)) as Hall. rewrite Forall_forall in Hall. apply Hall. exact Hin.
  Qed.

  Lemma terminates_bound sp tp ann rk : check sp tp ann = true -> check_progress tp rk = true ->
    forall K m cs ct res W', match_conf world ann cs ct -> rank_of rk (tpc ct) = m ->
      srun K sp cs = Halt res W' ->
      exists n, (n <= K * S (list_max rk) + m + 1)%nat /\ trun n tp ct = Halt res W'.
  Proof.
    intros Hc Hp. set (B := list_max rk). induction K as [K IHK] using lt_wf_ind. induction m as [m IHm] using lt_wf_ind.
    intros [[s V] W] [[t T] W0] res W' Hm Hrank HK.
    pose proof Hm as Hm'. destruct Hm' as [<- [E [Hann H]]].
    pose proof (step_sim2 sp tp ann rk s V t T W (check_pc_of_check sp tp ann t _ Hc Hann)
                  (rank_pc_of_check tp rk t Hp (ann_lt sp tp ann t _ Hc Hann)) Hm) as Hs.
    destruct (tstep tp (t, T, W)) as [ct'|res1 W1|] eqn:Hstep; cbn [sim_result2] in Hs.
    - destruct Hs as [k [cs' [Hk [Hm1 Hor]]]].
      destruct (srun_next_halt sp k K _ cs' res W' Hk HK) as [Hle HK'].
      pose proof (rank_of_le_max rk (tpc ct')) as Hb. fold B in Hb.
      assert (Hex : exists n, (S n <= K * S B + m + 1)%nat /\ trun n tp ct' = Halt res W').
      { assert (Hbig : (1 <= k)%nat -> exists n, (S n <= K * S B + m + 1)%nat /\ trun n tp ct' = Halt res W').
        { intros Hk1.
          destruct (IHK (K - k)%nat ltac:(lia) (rank_of rk (tpc ct')) cs' ct' res W' Hm1 eq_refl HK') as [n [Hn Hr]].
          exists n. split; [|exact Hr].
          assert ((K - k) * S B + S B <= K * S B)%nat by (replace K with ((K - k) + k)%nat at 2 by lia; nia). lia. }
        destruct Hor as [Hk1 | Hlt]; [apply Hbig; exact Hk1|].
        destruct (Nat.eq_dec k 0) as [-> | Hk0]; [|apply Hbig; lia].
        rewrite Nat.sub_0_r in HK'. cbn in Hrank. subst m.
        destruct (IHm (rank_of rk (tpc ct')) Hlt cs' ct' res W' Hm1 eq_refl HK') as [n [Hn Hr]].
        exists n. split; [lia|exact Hr]. }
      destruct Hex as [n [Hn Hr]]. exists (S n). split; [exact Hn|]. cbn [RaIRModel.trun]. rewrite Hstep. exact Hr.
    - exists 1%nat. split; [lia|]. cbn [RaIRModel.trun]. rewrite Hstep.
      destruct K as [|K']; [discriminate|].
      pose proof (srun_halt_absorb sp 1 K' (s, V, W) res1 W1 Hs) as Ha. cbn [Nat.add] in Ha. congruence.
    - destruct Hs.
  Qed.
End Progress.

Theorem validate_full_terminates sp tp hs : validate_full sp tp hs = true ->
  forall (world : Type) (sem : opcode -> list Z -> world -> list Z * world)
         (semc : opcode -> list Z -> world -> bool) V0 T0 W K res W',
    srun world sem semc K sp (O, V0, W) = Halt res W' ->
    exists n, trun world sem semc n tp (O, T0, W) = Halt res W'.
Proof.
  intros H world sem semc V0 T0 W K res W' HK.
  unfold validate_full in H. apply andb_true_iff in H. destruct H as [Hv Hp]. unfold validate in Hv.
  assert (He : check_entry (infer sp tp hs) = true).
  { unfold check in Hv. apply andb_true_iff in Hv. destruct Hv as [Hv _]. apply andb_true_iff in Hv. tauto. }
  eapply (terminates world sem semc sp tp (infer sp tp hs) (infer_ranks tp) Hv Hp K _ (O, V0, W) (O, T0, W));
    [apply init_match; assumption | reflexivity | exact HK].
Qed.

Theorem validate_full_sound sp tp hs : validate_full sp tp hs = true -> validate sp tp hs = true.
Proof. unfold validate_full. intros H. apply andb_true_iff in H. tauto. Qed.

(* bounded slowdown: if the source returns within K instructions, the allocated program returns the same within
   (K+1) * (B+1) instructions, B = the largest progress rank of the allocated program *)
Theorem validate_full_steps_bounded sp tp hs : validate_full sp tp hs = true ->
  forall (world : Type) (sem : opcode -> list Z -> world -> list Z * world)
         (semc : opcode -> list Z -> world -> bool) V0 T0 W K res W',
    srun world sem semc K sp (O, V0, W) = Halt res W' ->
    exists n, (n <= (K + 1) * (list_max (infer_ranks tp) + 1))%nat /\ trun world sem semc n tp (O, T0, W) = Halt res W'.
Proof.
  intros H world sem semc V0 T0 W K res W' HK.
  unfold validate_full in H. apply andb_true_iff in H. destruct H as [Hv Hp]. unfold validate in Hv.
  assert (He : check_entry (infer sp tp hs) = true).
  { unfold check in Hv. apply andb_true_iff in Hv. destruct Hv as [Hv _]. apply andb_true_iff in Hv. tauto. }
  destruct (terminates_bound world sem semc sp tp (infer sp tp hs) (infer_ranks tp) Hv Hp K _ (O, V0, W) (O, T0, W) res W'
              (init_match world (infer sp tp hs) V0 T0 W He) eq_refl HK) as [n [Hn Hr]].
  exists n. split; [|exact Hr].
  pose proof (rank_of_le_max (infer_ranks tp) (tpc world (O, T0, W))) as Hb. nia.
Qed.


(* C05 — RaIR: an architecture-neutral IR for "program before register allocation" (virtual registers) and
   "program after register allocation" (physical registers + frame slots), their semantics over an ARBITRARY
   deterministic instruction semantics, and the Rideau-Leroy style translation validator (equation sets
   "vreg = loc at width w", annotation per target pc inferred by an untrusted data-flow pass, then CHECKED).
   This file contains definitions only (it must still extract when a proof breaks). Proofs: RaIRProofs.v. *)
From Coq Require Import ZArith NArith List Bool Arith.
Import ListNotations.
Local Open Scope Z_scope.

Definition vreg := N.
Definition label := N.
Definition opcode := N.

(* A physical location: register (group, id) — all aliases al/ax/eax/rax resp. xmm/ymm/zmm of one register are ONE
   location, widths say how many low bytes are meant — or the frame bytes starting at sp-relative offset [off]. *)
Inductive loc := LReg (g id : N) | LSlot (off : Z).

Definition loc_eqb (a b : loc) : bool :=
  match a, b with
  | LReg g i, LReg g' i' => N.eqb g g' && N.eqb i i'
  | LSlot o, LSlot o' => Z.eqb o o'
  | _, _ => false
  end.

(* do the bytes of [l] (w bytes) and [l'] (w' bytes) intersect?  registers: same register. *)
Definition overlaps (l : loc) (w : nat) (l' : loc) (w' : nat) : bool :=
  match l, l' with
  | LReg g i, LReg g' i' => N.eqb g g' && N.eqb i i'
  | LSlot o, LSlot o' => (o <? o' + Z.of_nat w') && (o' <? o + Z.of_nat w)
  | _, _ => false
  end.

(* operand descriptors: (virtual register | location, width in bytes) *)
Definition sarg := (vreg * nat)%type.
Definition targ := (loc * nat)%type.

Inductive sinstr :=
| SOp (o : opcode) (uses defs : list sarg)       (* any instruction: reads uses (low w bytes), writes defs *)
| SMove (d s : vreg) (w : nat)                    (* register copy d := low w bytes of s (may be elided by the allocator) *)
| SCond (o : opcode) (uses : list sarg) (l : label)
| SJmp (l : label)
| SLabel (l : label)
| SRet (uses : list sarg)
| SJmpTab (o : opcode) (uses : list sarg) (ls : list label).   (* annotated indirect jump: the instruction picks one of ls *)

Inductive tinstr :=
| TOp (o : opcode) (uses defs : list targ)        (* defs beyond the source instruction's defs are clobbers *)
| TMove (d s : loc) (w : nat) (keep : bool) (e : nat)
      (* move/load/save of w bytes; keep: register bytes above w preserved; otherwise the register is the zero-extended
         value (e: how many bytes the real instruction defines, used as the width of the equation of a matched copy) *)
| TSwap (a b : loc) (w : nat)
| TCond (o : opcode) (uses : list targ) (l : label)
| TJmp (l : label)
| TLabel (l : label)
| TRet (uses : list targ)
| TJmpTab (o : opcode) (uses : list targ) (ls : list label).

Definition sprog := list sinstr.
Definition tprog := list tinstr.

(* ------------------------------------------------------------------ values, registers, frame bytes *)
Definition tr (w : nat) (x : Z) : Z := x mod 256 ^ Z.of_nat w.

Fixpoint load (n : nat) (m : Z -> Z) (off : Z) : Z :=
  match n with
  | O => 0
  | S k => (m off) mod 256 + 256 * load k m (off + 1)
  end.

Definition store (n : nat) (m : Z -> Z) (off x : Z) : Z -> Z :=
  fun a => if (off <=? a) && (a <? off + Z.of_nat n) then (x / 256 ^ (a - off)) mod 256 else m a.

Record tstate := mkT { rs : N -> N -> Z; st : Z -> Z }.
Definition sstate := vreg -> Z.

Definition read_loc (T : tstate) (l : loc) (w : nat) : Z :=
  match l with
  | LReg g i => tr w (rs T g i)
  | LSlot o => load w (st T) o
  end.

Definition set_reg (r : N -> N -> Z) (g i : N) (x : Z) : N -> N -> Z :=
  fun g' i' => if N.eqb g g' && N.eqb i i' then x else r g' i'.

(* a register write replaces the whole register by x (bytes above the declared width are not claimed by any
   equation); a slot write stores exactly w bytes *)
Definition write_loc (T : tstate) (l : loc) (w : nat) (x : Z) : tstate :=
  match l with
  | LReg g i => mkT (set_reg (rs T) g i x) (st T)
  | LSlot o => mkT (rs T) (store w (st T) o x)
  end.

(* merging register write: low w bytes from x, the rest of the old register kept *)
Definition write_loc_keep (T : tstate) (l : loc) (w : nat) (x : Z) : tstate :=
  match l with
  | LReg g i => mkT (set_reg (rs T) g i (tr w x + (rs T g i - tr w (rs T g i)))) (st T)
  | LSlot o => mkT (rs T) (store w (st T) o x)
  end.

Definition set_v (V : sstate) (v : vreg) (x : Z) : sstate := fun v' => if N.eqb v v' then x else V v'.

Fixpoint find_slabel (l : label) (p : sprog) (i : nat) : option nat :=
  match p with
  | [] => None
  | SLabel l' :: p' => if N.eqb l l' then Some i else find_slabel l p' (S i)
  | _ :: p' => find_slabel l p' (S i)
  end.

Fixpoint find_tlabel (l : label) (p : tprog) (i : nat) : option nat :=
  match p with
  | [] => None
  | TLabel l' :: p' => if N.eqb l l' then Some i else find_tlabel l p' (S i)
  | _ :: p' => find_tlabel l p' (S i)
  end.

(* target of an annotated indirect jump: the instruction's result, reduced modulo the table length, selects the entry *)
Definition pick (ls : list label) (z : Z) : label := nth (Z.to_nat (z mod Z.max 1 (Z.of_nat (length ls)))) ls 0%N.

(* ------------------------------------------------------------------ semantics, for ANY instruction semantics *)
Section Sem.
  Variable world : Type.
  (* what an instruction computes from the values of its uses (each cut to its declared width) and the world
     (memory, I/O, called functions): the list of results for its defs, and the new world *)
  Variable sem : opcode -> list Z -> world -> list Z * world.
  (* whether a conditional branch is taken *)
  Variable semc : opcode -> list Z -> world -> bool.

  Inductive outcome (A : Type) :=
  | Next (a : A)
  | Halt (res : list Z) (w : world)
  | Stuck.
  Arguments Next {A}. Arguments Halt {A}. Arguments Stuck {A}.

  Definition sconf := (nat * sstate * world)%type.
  Definition tconf := (nat * tstate * world)%type.

  Definition sread (V : sstate) (us : list sarg) : list Z := map (fun a => tr (snd a) (V (fst a))) us.
  Definition tread (T : tstate) (us : list targ) : list Z := map (fun a => read_loc T (fst a) (snd a)) us.

  Fixpoint swrite (V : sstate) (ds : list sarg) (res : list Z) : sstate :=
    match ds with
    | [] => V
    | (v, _) :: ds' => swrite (set_v V v (hd 0 res)) ds' (tl res)
    end.

  Fixpoint twrite (T : tstate) (ds : list targ) (res : list Z) : tstate :=
    match ds with
    | [] => T
    | (l, w) :: ds' => twrite (write_loc T l w (hd 0 res)) ds' (tl res)
    end.

  Definition sstep (p : sprog) (c : sconf) : outcome sconf :=
    let '(pc, V, W) := c in
    match nth_error p pc with
    | None => Stuck
    | Some (SOp o us ds) => let '(res, W') := sem o (sread V us) W in Next (pc + 1, swrite V ds res, W')%nat
    | Some (SMove d s w) => Next (pc + 1, set_v V d (tr w (V s)), W)%nat
    | Some (SCond o us l) =>
        if semc o (sread V us) W
        then match find_slabel l p 0 with Some pc' => Next (pc', V, W) | None => Stuck end
        else Next (pc + 1, V, W)%nat
    | Some (SJmp l) => match find_slabel l p 0 with Some pc' => Next (pc', V, W) | None => Stuck end
    | Some (SLabel _) => Next (pc + 1, V, W)%nat
    | Some (SRet us) => Halt (sread V us) W
    | Some (SJmpTab o us ls) =>
        let '(res, W') := sem o (sread V us) W in
        match find_slabel (pick ls (hd 0 res)) p 0 with Some pc' => Next (pc', V, W') | None => Stuck end
    end.

  Definition tstep (p : tprog) (c : tconf) : outcome tconf :=
    let '(pc, T, W) := c in
    match nth_error p pc with
    | None => Stuck
    | Some (TOp o us ds) => let '(res, W') := sem o (tread T us) W in Next (pc + 1, twrite T ds res, W')%nat
    | Some (TMove d s w keep _) =>
        let x := read_loc T s w in
        Next (pc + 1, if keep then write_loc_keep T d w x else write_loc T d w x, W)%nat
    | Some (TSwap a b w) =>
        let xa := read_loc T a w in let xb := read_loc T b w in
        Next (pc + 1, write_loc (write_loc T a w xb) b w xa, W)%nat
    | Some (TCond o us l) =>
        if semc o (tread T us) W
        then match find_tlabel l p 0 with Some pc' => Next (pc', T, W) | None => Stuck end
        else Next (pc + 1, T, W)%nat
    | Some (TJmp l) => match find_tlabel l p 0 with Some pc' => Next (pc', T, W) | None => Stuck end
    | Some (TLabel _) => Next (pc + 1, T, W)%nat
    | Some (TRet us) => Halt (tread T us) W
    | Some (TJmpTab o us ls) =>
        let '(res, W') := sem o (tread T us) W in
        match find_tlabel (pick ls (hd 0 res)) p 0 with Some pc' => Next (pc', T, W') | None => Stuck end
    end.

  Fixpoint srun (n : nat) (p : sprog) (c : sconf) : outcome sconf :=
    match n with
    | O => Next c
    | S k => match sstep p c with Next c' => srun k p c' | r => r end
    end.

  Fixpoint trun (n : nat) (p : tprog) (c : tconf) : outcome tconf :=
    match n with
    | O => Next c
    | S k => match tstep p c with Next c' => trun k p c' | r => r end
    end.
End Sem.
Arguments Next {world A}. Arguments Halt {world A}. Arguments Stuck {world A}.

(* ------------------------------------------------------------------ equation sets *)
(* (v, l, w): the low w bytes of virtual register v equal the w bytes of location l *)
Definition eqn := (vreg * loc * nat)%type.
Definition eqs := list eqn.

Definition implied (E : eqs) (v : vreg) (l : loc) (w : nat) : bool :=
  existsb (fun e => let '(v', l', w') := e in N.eqb v v' && loc_eqb l l' && Nat.leb w w') E.

Definition subset (E1 E2 : eqs) : bool :=      (* every equation of E1 follows from E2 *)
  forallb (fun e => let '(v, l, w) := e in implied E2 v l w) E1.

Definition eqn_eqb (a b : eqn) : bool :=
  let '(v, l, w) := a in let '(v', l', w') := b in N.eqb v v' && loc_eqb l l' && Nat.eqb w w'.

Fixpoint list_eqb {A : Type} (f : A -> A -> bool) (x y : list A) : bool :=
  match x, y with
  | [], [] => true
  | a :: x', b :: y' => f a b && list_eqb f x' y'
  | _, _ => false
  end.

(* same check, with a linear fast path for the usual case that both sets are the same list *)
Definition subset_fast (E1 E2 : eqs) : bool := list_eqb eqn_eqb E1 E2 || subset E1 E2.

Definition kill_loc (E : eqs) (l : loc) (w : nat) : eqs :=
  filter (fun e => let '(_, l', w') := e in negb (overlaps l w l' w')) E.

Definition kill_v (E : eqs) (v : vreg) : eqs :=
  filter (fun e => let '(v', _, _) := e in negb (N.eqb v v')) E.

Definition add_def (E : eqs) (v : vreg) (l : loc) (w : nat) : eqs :=
  (v, l, w) :: kill_v (kill_loc E l w) v.

(* target move d := s (w bytes): every vreg known in s (at width w0) is now also in d at width min w w0 *)
Definition copies_loc (E : eqs) (s d : loc) (w : nat) : eqs :=
  flat_map (fun e => let '(v, l, w0) := e in if loc_eqb l s then [(v, d, Nat.min w w0)] else []) E.

Definition tmove_eqs (E : eqs) (d s : loc) (w : nat) : eqs :=
  copies_loc E s d w ++ kill_loc E d w.

Definition is_reg (l : loc) : bool := match l with LReg _ _ => true | _ => false end.

(* a merging move of a register onto itself (mov ax, ax) changes nothing *)
Definition tmove_eqs' (E : eqs) (d s : loc) (w : nat) (keep : bool) : eqs :=
  if keep && is_reg d && loc_eqb d s then E else tmove_eqs E d s w.

(* the source copy dv := sv (w bytes) and the target move d := src (w bytes, zero-extending, into a register) executed
   together: both destinations now hold the same number *)
Definition joint_ok (E : eqs) (sv : vreg) (d src : loc) (w w' : nat) (keep : bool) : bool :=
  Nat.eqb w w' && negb keep && is_reg d && implied E sv src w.
Definition joint_eqs (E : eqs) (dv : vreg) (d src : loc) (w e : nat) : eqs :=
  (dv, d, e) :: kill_v (tmove_eqs E d src w) dv.

Definition tswap_eqs (E : eqs) (a b : loc) (w : nat) : eqs :=
  copies_loc E a b w ++ copies_loc E b a w ++ kill_loc (kill_loc E a w) b w.

(* source move d := s (w bytes) *)
Definition smove_eqs (E : eqs) (d s : vreg) (w : nat) : eqs :=
  flat_map (fun e => let '(v, l, w0) := e in if N.eqb v s then [(d, l, Nat.min w w0)] else []) E ++ kill_v E d.

Fixpoint check_uses (E : eqs) (su : list sarg) (tu : list targ) : bool :=
  match su, tu with
  | [], [] => true
  | (v, w) :: su', (l, w') :: tu' => Nat.eqb w w' && implied E v l w && check_uses E su' tu'
  | _, _ => false
  end.

(* defs are processed left to right; target defs without a source counterpart are clobbers *)
Fixpoint defs_eqs (E : eqs) (sd : list sarg) (td : list targ) : option eqs :=
  match sd, td with
  | [], [] => Some E
  | [], (l, w) :: td' => defs_eqs (kill_loc E l w) [] td'
  | (v, w) :: sd', (l, w') :: td' => if Nat.eqb w w' then defs_eqs (add_def E v l w) sd' td' else None
  | _ :: _, [] => None
  end.

(* ------------------------------------------------------------------ the checker *)
(* annotation: for each target pc, None (unreachable) or (source pc, equations that hold on arrival) *)
Definition annot := list (option (nat * eqs)).

(* Let the source run its "silent" instructions (labels, jumps, copies) from s until it stands at s1. *)
Fixpoint catchup (fuel : nat) (sp : sprog) (s : nat) (E : eqs) (s1 : nat) : option eqs :=
  if Nat.eqb s s1 then Some E else
  match fuel with
  | O => None
  | S f =>
    match nth_error sp s with
    | Some (SLabel _) => catchup f sp (s + 1)%nat E s1
    | Some (SJmp l) => match find_slabel l sp 0 with Some s' => catchup f sp s' E s1 | None => None end
    | Some (SMove d v w) => catchup f sp (s + 1)%nat (smove_eqs E d v w) s1
    | _ => None
    end
  end.

Definition edge (sp : sprog) (ann : annot) (s : nat) (E : eqs) (t' : nat) : bool :=
  match nth_error ann t' with
  | Some (Some (s1, E1)) =>
      match catchup (S (length sp)) sp s E s1 with
      | Some E' => subset_fast E1 E'
      | None => false
      end
  | _ => false
  end.

Definition distinct_locs (a b : loc) (w : nat) : bool := negb (overlaps a w b w).

Definition check_pc (sp : sprog) (tp : tprog) (ann : annot) (t : nat) : bool :=
  match nth_error ann t with
  | Some None => true
  | None => false
  | Some (Some (s, E)) =>
    match nth_error tp t with
    | None => false
    | Some (TMove d src w keep e) =>
        match nth_error sp s with
        | Some (SMove dv sv w') => joint_ok E sv d src w w' keep && edge sp ann (s + 1) (joint_eqs E dv d src w e) (t + 1)
        | _ => false
        end || edge sp ann s (tmove_eqs' E d src w keep) (t + 1)
    | Some (TSwap a b w) => is_reg a && is_reg b && distinct_locs a b w && edge sp ann s (tswap_eqs E a b w) (t + 1)
    | Some (TLabel _) => edge sp ann s E (t + 1)
    | Some (TJmp l) => match find_tlabel l tp 0 with Some t' => edge sp ann s E t' | None => false end
    | Some (TOp o tu td) =>
        match nth_error sp s with
        | Some (SOp o' su sd) =>
            N.eqb o o' && check_uses E su tu &&
            match defs_eqs E sd td with Some E' => edge sp ann (s + 1) E' (t + 1) | None => false end
        | _ => false
        end
    | Some (TCond o tu l) =>
        match nth_error sp s with
        | Some (SCond o' su l') =>
            N.eqb o o' && check_uses E su tu &&
            match find_tlabel l tp 0, find_slabel l' sp 0 with
            | Some t', Some s' => edge sp ann s' E t' && edge sp ann (s + 1) E (t + 1)
            | _, _ => false
            end
        | _ => false
        end
    | Some (TRet tu) =>
        match nth_error sp s with
        | Some (SRet su) => check_uses E su tu
        | _ => false
        end
    | Some (TJmpTab o tu tls) =>
        match nth_error sp s with
        | Some (SJmpTab o' su sls) =>
            N.eqb o o' && check_uses E su tu && Nat.eqb (length tls) (length sls) && negb (Nat.eqb (length tls) 0) &&
            forallb (fun ll => match find_tlabel (fst ll) tp 0, find_slabel (snd ll) sp 0 with
                               | Some t', Some s' => edge sp ann s' E t'
                               | _, _ => false
                               end) (combine tls sls)
        | _ => false
        end
    end
  end.

Definition check_entry (ann : annot) : bool :=
  match ann with
  | Some (O, []) :: _ => true
  | _ => false
  end.

Definition check (sp : sprog) (tp : tprog) (ann : annot) : bool :=
  check_entry ann && Nat.eqb (length ann) (length tp) && forallb (check_pc sp tp ann) (seq 0 (length tp)).

(* ------------------------------------------------------------------ untrusted inference of the annotation *)
(* hints: for each target pc, the source pc it implements (matched instruction / original label), if any *)
Definition hints := list (option nat).

Definition inter (E1 E2 : eqs) : eqs :=
  flat_map (fun e => let '(v, l, w) := e in
    match find (fun e' => let '(v', l', _) := e' in N.eqb v v' && loc_eqb l l') E2 with
    | Some (_, _, w') => [(v, l, Nat.min w w')]
    | None => []
    end) E1.

Definition meet (a b : option (nat * eqs)) : option (nat * eqs) :=
  match a, b with
  | None, x => x
  | x, None => x
  | Some (s, E1), Some (_, E2) => Some (s, inter E1 E2)
  end.

(* arrive at a pc that has hint h: catch the source up *)
Definition arrive (sp : sprog) (h : option nat) (x : option (nat * eqs)) : option (nat * eqs) :=
  match x, h with
  | Some (s, E), Some s1 =>
      match catchup (S (length sp)) sp s E s1 with
      | Some E' => Some (s1, E')
      | None => Some (s1, [])     (* poison: the checker will refuse *)
      end
  | _, _ => x
  end.

Definition jin := list (label * option (nat * eqs)).

Fixpoint jin_get (j : jin) (l : label) : option (nat * eqs) :=
  match j with
  | [] => None
  | (l', x) :: j' => if N.eqb l l' then x else jin_get j' l
  end.

Fixpoint jin_meet (j : jin) (l : label) (x : option (nat * eqs)) : jin :=
  match j with
  | [] => [(l, x)]
  | (l', y) :: j' => if N.eqb l l' then (l', meet y x) :: j' else (l', y) :: jin_meet j' l x
  end.

Definition label_hint (tp : tprog) (hs : hints) (l : label) : option nat :=
  match find_tlabel l tp 0 with
  | Some t => match nth_error hs t with Some h => h | None => None end
  | None => None
  end.

(* one forward sweep: [cur] flows in by fall-through, [jold] holds the jump-ins computed by the previous sweep,
   [jnew] collects the jump-ins of this sweep *)
Fixpoint sweep (sp : sprog) (tp0 : tprog) (hs0 : hints) (tp : tprog) (hs : hints)
               (cur : option (nat * eqs)) (jold jnew : jin) (acc : annot) : annot * jin :=
  match tp with
  | [] => (rev acc, jnew)
  | i :: tp' =>
    let h := match hs with x :: _ => x | [] => None end in
    let hs' := tl hs in
    let a := match i with
             | TLabel l => meet (arrive sp h cur) (meet (jin_get jold l) (jin_get jnew l))
             | _ => arrive sp h cur
             end in
    match a with
    | None => sweep sp tp0 hs0 tp' hs' None jold jnew (None :: acc)
    | Some (s, E) =>
      match i with
      | TMove d src w keep e =>
          let out := match nth_error sp s, h with
                     | Some (SMove dv sv w'), Some _ =>
                         if joint_ok E sv d src w w' keep then Some (S s, joint_eqs E dv d src w e) else Some (s, tmove_eqs' E d src w keep)
                     | _, _ => Some (s, tmove_eqs' E d src w keep)
                     end in
          sweep sp tp0 hs0 tp' hs' out jold jnew (a :: acc)
      | TSwap x y w => sweep sp tp0 hs0 tp' hs' (Some (s, tswap_eqs E x y w)) jold jnew (a :: acc)
      | TLabel _ => sweep sp tp0 hs0 tp' hs' a jold jnew (a :: acc)
      | TJmp l =>
          sweep sp tp0 hs0 tp' hs' None jold (jin_meet jnew l (arrive sp (label_hint tp0 hs0 l) a)) (a :: acc)
      | TOp o tu td =>
          let out := match nth_error sp s with
                     | Some (SOp _ su sd) => match defs_eqs E sd td with Some E' => Some (S s, E') | None => Some (S s, []) end
                     | _ => Some (S s, [])
                     end in
          sweep sp tp0 hs0 tp' hs' out jold jnew (a :: acc)
      | TCond o tu l =>
          let tk := match nth_error sp s with
                    | Some (SCond _ _ l') => match find_slabel l' sp 0 with Some s' => Some (s', E) | None => Some (s, []) end
                    | _ => Some (s, [])
                    end in
          sweep sp tp0 hs0 tp' hs' (Some (S s, E)) jold (jin_meet jnew l (arrive sp (label_hint tp0 hs0 l) tk)) (a :: acc)
      | TRet _ => sweep sp tp0 hs0 tp' hs' None jold jnew (a :: acc)
      | TJmpTab o tu tls =>
          let jn := match nth_error sp s with
                    | Some (SJmpTab _ _ sls) =>
                        fold_left (fun j ll => match find_slabel (snd ll) sp 0 with
                                               | Some s' => jin_meet j (fst ll) (arrive sp (label_hint tp0 hs0 (fst ll)) (Some (s', E)))
                                               | None => j
                                               end) (combine tls sls) jnew
                    | _ => jnew
                    end in
          sweep sp tp0 hs0 tp' hs' None jold jn (a :: acc)
      end
    end
  end.

Definition jent_eqb (a b : label * option (nat * eqs)) : bool :=
  N.eqb (fst a) (fst b) &&
  match snd a, snd b with
  | None, None => true
  | Some (s, E), Some (s', E') => Nat.eqb s s' && list_eqb eqn_eqb E E'
  | _, _ => false
  end.

Fixpoint infer_loop (fuel : nat) (sp : sprog) (tp : tprog) (hs : hints) (jold : jin) : annot :=
  let '(ann, jnew) := sweep sp tp hs tp hs (Some (O, [])) jold [] [] in
  match fuel with
  | O => ann
  | S f => if list_eqb jent_eqb jnew jold then ann else infer_loop f sp tp hs jnew
  end.

Definition infer (sp : sprog) (tp : tprog) (hs : hints) : annot := infer_loop 40 sp tp hs [].

Definition validate (sp : sprog) (tp : tprog) (hs : hints) : bool := check sp tp (infer sp tp hs).

(* diagnosis (untrusted, for messages only): first target pc whose local check fails *)
Definition first_bad (sp : sprog) (tp : tprog) (ann : annot) : option nat :=
  find (fun t => negb (check_pc sp tp ann t)) (seq 0 (length tp)).

(* ------------------------------------------------------------------ progress: no silent divergence of inserted code *)
(* Inserted instructions (moves, swaps, labels, jumps) do not advance the source program. A rank per target pc that
   strictly decreases along every such instruction excludes cycles made of inserted code only, so the allocated program
   cannot loop silently where the source goes on. Ranks are inferred (untrusted) and then checked. *)
Definition rank_of (rk : list nat) (t : nat) : nat := nth t rk O.

Definition check_rank_pc (tp : tprog) (rk : list nat) (t : nat) : bool :=
  match nth_error tp t with
  | Some (TMove _ _ _ _ _) | Some (TSwap _ _ _) | Some (TLabel _) => Nat.ltb (rank_of rk (t + 1)) (rank_of rk t)
  | Some (TJmp l) => match find_tlabel l tp 0 with Some t' => Nat.ltb (rank_of rk t') (rank_of rk t) | None => false end
  | _ => true
  end.

Definition check_progress (tp : tprog) (rk : list nat) : bool := forallb (check_rank_pc tp rk) (seq 0 (length tp)).

Fixpoint rank_at (fuel : nat) (tp : tprog) (t : nat) : nat :=
  match fuel with
  | O => O
  | S f =>
    match nth_error tp t with
    | Some (TMove _ _ _ _ _) | Some (TSwap _ _ _) | Some (TLabel _) => S (rank_at f tp (t + 1))
    | Some (TJmp l) => match find_tlabel l tp 0 with Some t' => S (rank_at f tp t') | None => O end
    | _ => O
    end
  end.

Definition infer_ranks (tp : tprog) : list nat := map (rank_at (length tp) tp) (seq 0 (length tp)).

(* the validator that is run: equations + progress *)
Definition validate_full (sp : sprog) (tp : tprog) (hs : hints) : bool :=
  validate sp tp hs && check_progress tp (infer_ranks tp).

(* ------------------------------------------------------------------ register lists (ld1/st1/tbl {v, v+1, ..}) *)
(* The machine instruction encodes only the FIRST register of a list; the CPU accesses the registers that follow it,
   modulo 32. A dumped list of locations is what the CPU uses iff it equals the expansion of its first element. *)
Fixpoint expand_list (g id : N) (n : nat) : list loc :=
  match n with
  | O => []
  | S k => LReg g id :: expand_list g (N.modulo (id + 1) 32) k
  end.

Definition consec_ok (ls : list loc) : bool :=
  match ls with
  | [] => true
  | LReg g id :: _ => list_eqb loc_eqb ls (expand_list g id (length ls))
  | LSlot _ :: _ => false
  end.

Definition lists_ok (groups : list (list loc)) : bool := forallb consec_ok groups.

(* ------------------------------------------------------------------ the register that addresses the stack arguments *)
(* In a frame with a re-aligned stack the function's stack arguments are read through the "SA" register (a copy of the
   stack pointer taken in the prolog). The argument assignment behind the prolog may exchange or copy that register before
   it uses it. [sa_step] follows, instruction by instruction in TEXTUAL order, the set of general purpose registers (group 0)
   known to hold that address; a memory operand [r + k] of an inserted load is read as "argument area byte k" only while r is
   in the set (ml/c05_driver.ml). Control flow of any kind empties the set, so textual order is execution order. *)
Definition gp_id (l : loc) : option N := match l with LReg g i => if N.eqb g 0 then Some i else None | LSlot _ => None end.
Definition id_mem (i : N) (m : list N) : bool := existsb (N.eqb i) m.
Definition id_remove (i : N) (m : list N) : list N := filter (fun j => negb (N.eqb i j)) m.
Fixpoint defs_remove (ds : list (loc * nat)) (m : list N) : list N :=
  match ds with
  | [] => m
  | (l, _) :: ds' => defs_remove ds' (match gp_id l with Some i => id_remove i m | None => m end)
  end.

(* aw: width of an address in bytes *)
Definition sa_step (aw : nat) (i : tinstr) (m : list N) : list N :=
  match i with
  | TOp _ _ ds => defs_remove ds m
  | TMove d s w _ _ =>
      match gp_id d with
      | Some di =>
          match gp_id s with
          | Some si => if id_mem si m && Nat.leb aw w then di :: id_remove di m else id_remove di m
          | None => id_remove di m
          end
      | None => m
      end
  | TSwap a b w =>
      match gp_id a, gp_id b with
      | Some ai, Some bi =>
          let rest := id_remove ai (id_remove bi m) in
          if Nat.leb aw w then (if id_mem bi m then [ai] else []) ++ (if id_mem ai m && negb (N.eqb ai bi) then [bi] else []) ++ rest else rest
      | Some ai, None => id_remove ai m
      | None, Some bi => id_remove bi m
      | None, None => m
      end
  | _ => []
  end.

(* the set in front of instruction number n, from the set m0 in front of instruction 0 *)
Fixpoint sa_at (aw : nat) (p : tprog) (m0 : list N) (n : nat) : list N :=
  match n with
  | O => m0
  | S k => match nth_error p k with Some i => sa_step aw i (sa_at aw p m0 k) | None => [] end
  end.

(* ------------------------------------------------------------------ a register no instruction defines (the frame pointer) *)
(* In a function that keeps a frame pointer the dumper names stack arguments by their offset from zbp. That is justified only
   if zbp is constant in the body: [reg_untouched] (checked by ml/c05_driver.ml on the dumped program) says that no
   instruction of the allocated program has the register among its defs (an instruction's defs include what it clobbers). *)
Definition loc_is_reg (g i : N) (l : loc) : bool :=
  match l with LReg g' i' => N.eqb g g' && N.eqb i i' | LSlot _ => false end.
Definition defines_reg (g i : N) (ins : tinstr) : bool :=
  match ins with
  | TOp _ _ ds => existsb (fun a => loc_is_reg g i (fst a)) ds
  | TMove d _ _ _ _ => loc_is_reg g i d
  | TSwap a b _ => loc_is_reg g i a || loc_is_reg g i b
  | _ => false
  end.
Definition reg_untouched (g i : N) (tp : tprog) : bool := negb (existsb (defines_reg g i) tp).

(* the same register tracking for an address that becomes known at instruction number s (by-reference call arguments:
   "lea p, [sp+k]" makes p the address of the temporary k): m0 = the registers holding it right behind instruction s; the set
   is empty up to s, m0 at s+1, then followed by sa_step. A store "[p] := x" is read as "slot k := x" only while p is in
   the set (ml/c05_driver.ml). *)
Fixpoint sa_from (aw : nat) (p : tprog) (s : nat) (m0 : list N) (n : nat) : list N :=
  match n with
  | O => []
  | S k => if Nat.eqb k s then m0
           else match nth_error p k with Some i => sa_step aw i (sa_from aw p s m0 k) | None => [] end
  end.

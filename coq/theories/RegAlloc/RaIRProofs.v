(* C05 — soundness of the RaIR validator (RaIRModel.check): if the checker accepts an annotated pair
   (source program, allocated program), then for EVERY instruction semantics, every initial register/stack
   contents and every world, the allocated program never gets stuck, every world it reaches is reached by the
   source program, and if it returns, the source program returns the same values in the same world. *)
From Coq Require Import ZArith NArith List Bool Arith Lia Znumtheory.
From Verif Require Import RegAlloc.RaIRModel.
Import ListNotations.
Local Open Scope Z_scope.

(* ------------------------------------------------------------------ bytes *)
Lemma pow256_pos n : 0 < 256 ^ Z.of_nat n.
Proof. apply Z.pow_pos_nonneg; lia. Qed.

Lemma pow256_split a b : (a <= b)%nat -> 256 ^ Z.of_nat b = 256 ^ (Z.of_nat b - Z.of_nat a) * 256 ^ Z.of_nat a.
Proof. intros. rewrite <- Z.pow_add_r by lia. f_equal. lia. Qed.

Lemma tr_tr a b x : (a <= b)%nat -> tr a (tr b x) = tr a x.
Proof.
  intros H. unfold tr. symmetry. apply Zmod_div_mod; try apply pow256_pos.
  exists (256 ^ (Z.of_nat b - Z.of_nat a)). apply pow256_split; assumption.
Qed.

Lemma tr_idem a x : tr a (tr a x) = tr a x.
Proof. apply tr_tr. lia. Qed.

Lemma tr_keep n w x old : (n <= w)%nat -> tr n (tr w x + (old - tr w old)) = tr n x.
Proof.
  intros H. rewrite <- (tr_tr n w x H). unfold tr at 1 3 4.
  set (M := 256 ^ Z.of_nat w). set (m := 256 ^ Z.of_nat n).
  assert (HM : 0 < M) by apply pow256_pos. assert (Hm : 0 < m) by apply pow256_pos.
  assert (E : old - old mod M = (old / M) * 256 ^ (Z.of_nat w - Z.of_nat n) * m).
  { unfold M, m. rewrite <- Z.mul_assoc. rewrite <- (pow256_split n w H).
    fold M. pose proof (Z.div_mod old M ltac:(lia)). lia. }
  rewrite E. rewrite Z.mod_add by lia. reflexivity.
Qed.

Lemma load_ext n : forall m1 m2 off,
  (forall i, 0 <= i < Z.of_nat n -> m1 (off + i) = m2 (off + i)) -> load n m1 off = load n m2 off.
Proof.
  induction n; intros m1 m2 off H; cbn [load]; [reflexivity|].
  rewrite (IHn m1 m2 (off + 1)).
  - pose proof (H 0 ltac:(lia)) as H0. rewrite Z.add_0_r in H0. rewrite H0. reflexivity.
  - intros i Hi. replace (off + 1 + i) with (off + (i + 1)) by lia. apply H. lia.
Qed.

Lemma load_charac n : forall m off x,
  (forall i, 0 <= i < Z.of_nat n -> (m (off + i)) mod 256 = (x / 256 ^ i) mod 256) -> load n m off = tr n x.
Proof.
  induction n; intros m off x H.
  - cbn [load]. unfold tr. change (Z.of_nat 0) with 0. rewrite Z.pow_0_r, Z.mod_1_r. reflexivity.
  - cbn [load]. rewrite (IHn m (off + 1) (x / 256)).
    + pose proof (H 0 ltac:(lia)) as H0. rewrite Z.add_0_r, Z.pow_0_r, Z.div_1_r in H0. rewrite H0.
      unfold tr. rewrite Nat2Z.inj_succ, Z.pow_succ_r by lia.
      rewrite Z.rem_mul_r; [reflexivity | lia | apply pow256_pos].
    + intros i Hi. replace (off + 1 + i) with (off + (i + 1)) by lia. rewrite H by lia.
      rewrite Z.pow_add_r, Z.pow_1_r by lia.
      rewrite Z.div_div by (try lia; apply Z.pow_pos_nonneg; lia).
      rewrite (Z.mul_comm 256). reflexivity.
Qed.

Lemma load_store_same n k m off x : (n <= k)%nat -> load n (store k m off x) off = tr n x.
Proof.
  intros H. apply load_charac. intros i Hi. unfold store.
  replace ((off <=? off + i) && (off + i <? off + Z.of_nat k)) with true.
  - replace (off + i - off) with i by lia. apply Z.mod_mod. lia.
  - symmetry. apply andb_true_iff. split; [apply Z.leb_le | apply Z.ltb_lt]; lia.
Qed.

Lemma load_store_disjoint n k m o o' x :
  (o' <? o + Z.of_nat k) && (o <? o' + Z.of_nat n) = false -> load n (store k m o x) o' = load n m o'.
Proof.
  intros H. apply load_ext. intros i Hi. unfold store.
  replace ((o <=? o' + i) && (o' + i <? o + Z.of_nat k)) with false; [reflexivity|].
  symmetry. apply andb_false_iff. apply andb_false_iff in H.
  destruct H as [H | H]; apply Z.ltb_ge in H; [right; apply Z.ltb_ge | left; apply Z.leb_gt]; lia.
Qed.

Lemma load_trunc n : forall k m off, (n <= k)%nat -> tr n (load k m off) = load n m off.
Proof.
  induction n; intros k m off H.
  - cbn [load]. unfold tr. change (Z.of_nat 0) with 0. rewrite Z.pow_0_r. apply Z.mod_1_r.
  - destruct k as [|k]; [lia|]. cbn [load].
    rewrite <- (IHn k m (off + 1)) by lia.
    set (b := m off mod 256). set (L := load k m (off + 1)).
    assert (Hb : 0 <= b < 256) by (apply Z.mod_pos_bound; lia).
    unfold tr. rewrite Nat2Z.inj_succ, Z.pow_succ_r by lia.
    rewrite Z.rem_mul_r; [| lia | apply pow256_pos].
    assert (E1 : (b + 256 * L) mod 256 = b) by (Z.div_mod_to_equations; lia).
    assert (E2 : (b + 256 * L) / 256 = L) by (Z.div_mod_to_equations; lia).
    rewrite E1, E2. reflexivity.
Qed.

(* ------------------------------------------------------------------ locations *)
Lemma loc_eqb_eq a b : loc_eqb a b = true -> a = b.
Proof.
  destruct a, b; cbn; intros H; try discriminate.
  - apply andb_true_iff in H. destruct H as [H1 H2]. apply N.eqb_eq in H1, H2. subst. reflexivity.
  - apply Z.eqb_eq in H. subst. reflexivity.
Qed.

Lemma read_loc_trunc T l n k : (n <= k)%nat -> tr n (read_loc T l k) = read_loc T l n.
Proof. intros H. destruct l; cbn [read_loc]; [apply tr_tr | apply load_trunc]; assumption. Qed.

Lemma read_write_other T l w x l' w' :
  overlaps l w l' w' = false -> read_loc (write_loc T l w x) l' w' = read_loc T l' w'.
Proof.
  destruct l, l'; cbn [overlaps read_loc write_loc rs st]; intros H; try reflexivity.
  - unfold set_reg. rewrite H. reflexivity.
  - apply load_store_disjoint. rewrite andb_comm. exact H.
Qed.

Lemma read_write_keep_other T l w x l' w' :
  overlaps l w l' w' = false -> read_loc (write_loc_keep T l w x) l' w' = read_loc T l' w'.
Proof.
  destruct l, l'; cbn [overlaps read_loc write_loc_keep rs st]; intros H; try reflexivity.
  - unfold set_reg. rewrite H. reflexivity.
  - apply load_store_disjoint. rewrite andb_comm. exact H.
Qed.

Lemma eqb_refl2 g i : N.eqb g g && N.eqb i i = true.
Proof. rewrite !N.eqb_refl. reflexivity. Qed.

Lemma read_write_same T l w x n : (n <= w)%nat -> read_loc (write_loc T l w x) l n = tr n x.
Proof.
  intros H. destruct l; cbn [read_loc write_loc rs st].
  - unfold set_reg. rewrite eqb_refl2. reflexivity.
  - apply load_store_same. assumption.
Qed.

Lemma read_write_keep_same T l w x n : (n <= w)%nat -> read_loc (write_loc_keep T l w x) l n = tr n x.
Proof.
  intros H. destruct l; cbn [read_loc write_loc_keep rs st].
  - unfold set_reg. rewrite eqb_refl2. apply tr_keep. assumption.
  - apply load_store_same. assumption.
Qed.

(* ------------------------------------------------------------------ equation sets *)
Definition holds (E : eqs) (V : sstate) (T : tstate) : Prop :=
  forall v l w, In (v, l, w) E -> tr w (V v) = read_loc T l w.

Lemma holds_nil V T : holds [] V T.
Proof. intros v l w H. destruct H. Qed.

Lemma holds_weaken E V T v l w w' :
  holds E V T -> In (v, l, w') E -> (w <= w')%nat -> tr w (V v) = read_loc T l w.
Proof.
  intros H Hin Hle. rewrite <- (tr_tr w w' (V v) Hle). rewrite (H v l w' Hin). apply read_loc_trunc. assumption.
Qed.

Lemma implied_holds E V T v l w : holds E V T -> implied E v l w = true -> tr w (V v) = read_loc T l w.
Proof.
  intros H Hi. unfold implied in Hi. apply existsb_exists in Hi. destruct Hi as [[[v' l'] w'] [Hin Hb]].
  apply andb_true_iff in Hb. destruct Hb as [Hb Hw]. apply andb_true_iff in Hb. destruct Hb as [Hv Hl].
  apply N.eqb_eq in Hv. apply loc_eqb_eq in Hl. apply Nat.leb_le in Hw. subst.
  eapply holds_weaken; eassumption.
Qed.

Lemma subset_holds E1 E2 V T : holds E2 V T -> subset E1 E2 = true -> holds E1 V T.
Proof.
  intros H Hs v l w Hin. unfold subset in Hs. rewrite forallb_forall in Hs.
  specialize (Hs _ Hin). cbn in Hs. eapply implied_holds; eassumption.
Qed.

Lemma eqn_eqb_eq a b : eqn_eqb a b = true -> a = b.
Proof.
  destruct a as [[v l] w], b as [[v' l'] w']. cbn. intros H.
  apply andb_true_iff in H. destruct H as [H Hw]. apply andb_true_iff in H. destruct H as [Hv Hl].
  apply N.eqb_eq in Hv. apply loc_eqb_eq in Hl. apply Nat.eqb_eq in Hw. subst. reflexivity.
Qed.

Lemma list_eqb_eq : forall x y : eqs, list_eqb eqn_eqb x y = true -> x = y.
Proof.
  induction x as [|a x IH]; intros [|b y] H; cbn in H; try discriminate; [reflexivity|].
  apply andb_true_iff in H. destruct H as [Ha Hx]. apply eqn_eqb_eq in Ha. apply IH in Hx. subst. reflexivity.
Qed.

Lemma subset_fast_holds E1 E2 V T : holds E2 V T -> subset_fast E1 E2 = true -> holds E1 V T.
Proof.
  intros H Hs. unfold subset_fast in Hs. apply orb_true_iff in Hs. destruct Hs as [Hs | Hs].
  - apply list_eqb_eq in Hs. subst. assumption.
  - eapply subset_holds; eassumption.
Qed.

Lemma check_uses_ok E V T : holds E V T -> forall su tu, check_uses E su tu = true -> sread V su = tread T tu.
Proof.
  intros H. induction su as [|[v w] su IH]; intros [|[l w'] tu] Hc; cbn [check_uses] in Hc; try discriminate.
  - reflexivity.
  - apply andb_true_iff in Hc. destruct Hc as [Hc Hr]. apply andb_true_iff in Hc. destruct Hc as [Hw Hi].
    apply Nat.eqb_eq in Hw. subst w'. unfold sread, tread. cbn [map fst snd].
    f_equal; [eapply implied_holds; eassumption | apply IH; assumption].
Qed.

Lemma kill_loc_holds E V T l w x : holds E V T -> holds (kill_loc E l w) V (write_loc T l w x).
Proof.
  intros H v l' w' Hin. unfold kill_loc in Hin. apply filter_In in Hin. destruct Hin as [Hin Hb].
  apply negb_true_iff in Hb. rewrite read_write_other by assumption. apply H. assumption.
Qed.

Lemma kill_loc_holds_keep E V T l w x : holds E V T -> holds (kill_loc E l w) V (write_loc_keep T l w x).
Proof.
  intros H v l' w' Hin. unfold kill_loc in Hin. apply filter_In in Hin. destruct Hin as [Hin Hb].
  apply negb_true_iff in Hb. rewrite read_write_keep_other by assumption. apply H. assumption.
Qed.

Lemma kill_v_holds E V T v x : holds E V T -> holds (kill_v E v) (set_v V v x) T.
Proof.
  intros H v' l w Hin. unfold kill_v in Hin. apply filter_In in Hin. destruct Hin as [Hin Hb].
  apply negb_true_iff in Hb. unfold set_v. rewrite Hb. apply H. assumption.
Qed.

Lemma add_def_holds E V T v l w x : holds E V T -> holds (add_def E v l w) (set_v V v x) (write_loc T l w x).
Proof.
  intros H v' l' w' Hin. unfold add_def in Hin. destruct Hin as [Heq | Hin].
  - inversion Heq; subst. unfold set_v. rewrite N.eqb_refl. symmetry. apply read_write_same. lia.
  - revert v' l' w' Hin. apply kill_v_holds. apply kill_loc_holds. assumption.
Qed.

Lemma defs_eqs_holds : forall sd td E E' V T res,
  holds E V T -> defs_eqs E sd td = Some E' -> holds E' (swrite V sd res) (twrite T td res).
Proof.
  induction sd as [|[v w] sd IH].
  - induction td as [|[l w] td IHt]; intros E E' V T res H Hd; cbn [defs_eqs swrite twrite] in *.
    + inversion Hd; subst. assumption.
    + cbn [swrite] in IHt. eapply IHt; [|eassumption]. apply kill_loc_holds. assumption.
  - intros [|[l w'] td] E E' V T res H Hd; cbn [defs_eqs swrite twrite] in *; try discriminate.
    destruct (Nat.eqb_spec w w'); [subst w'|discriminate].
    eapply IH; [|eassumption]. apply add_def_holds. assumption.
Qed.

Lemma copies_in E s d w v l m :
  In (v, l, m) (copies_loc E s d w) -> l = d /\ exists w0, In (v, s, w0) E /\ m = Nat.min w w0.
Proof.
  unfold copies_loc. intros H. apply in_flat_map in H. destruct H as [[[v' l'] w0] [Hin H]].
  destruct (loc_eqb l' s) eqn:He; [|destruct H].
  apply loc_eqb_eq in He. subst l'. destruct H as [H|[]]. inversion H; subst. split; [reflexivity|].
  exists w0. split; [assumption|reflexivity].
Qed.

Lemma copy_value E V T v s w0 w : holds E V T -> In (v, s, w0) E ->
  tr (Nat.min w w0) (V v) = tr (Nat.min w w0) (read_loc T s w).
Proof.
  intros H Hin. rewrite read_loc_trunc by apply Nat.le_min_l.
  eapply holds_weaken; [eassumption | eassumption | apply Nat.le_min_r].
Qed.

Lemma tmove_holds E V T d s w (keep : bool) : holds E V T ->
  holds (tmove_eqs E d s w) V (if keep then write_loc_keep T d w (read_loc T s w) else write_loc T d w (read_loc T s w)).
Proof.
  intros H v l m Hin. unfold tmove_eqs in Hin. apply in_app_or in Hin. destruct Hin as [Hin | Hin].
  - apply copies_in in Hin. destruct Hin as [-> [w0 [Hin ->]]].
    rewrite (copy_value E V T v s w0 w H Hin).
    destruct keep; symmetry; [apply read_write_keep_same | apply read_write_same]; apply Nat.le_min_l.
  - destruct keep; [eapply kill_loc_holds_keep | eapply kill_loc_holds]; eassumption.
Qed.

Lemma tmove_holds' E V T d s w (keep : bool) : holds E V T ->
  holds (tmove_eqs' E d s w keep) V (if keep then write_loc_keep T d w (read_loc T s w) else write_loc T d w (read_loc T s w)).
Proof.
  intros H. unfold tmove_eqs'. destruct (keep && is_reg d && loc_eqb d s) eqn:Hc; [|apply tmove_holds; assumption].
  apply andb_true_iff in Hc. destruct Hc as [Hc Hl]. apply andb_true_iff in Hc. destruct Hc as [Hk Hr].
  subst keep. apply loc_eqb_eq in Hl. subst s. destruct d as [g i|]; [|discriminate].
  intros v l m Hin. rewrite (H v l m Hin). destruct l as [g' i'|o]; cbn [read_loc write_loc_keep rs st]; [|reflexivity].
  unfold set_reg. destruct (N.eqb g g' && N.eqb i i') eqn:He; [|reflexivity].
  apply andb_true_iff in He. destruct He as [Hg Hi]. apply N.eqb_eq in Hg, Hi. subst g' i'.
  f_equal. rewrite tr_idem. lia.
Qed.

Lemma overlaps_reg_w a b w w1 w2 : is_reg a = true -> is_reg b = true -> overlaps a w b w = overlaps a w1 b w2.
Proof. destruct a, b; cbn; intros; try discriminate; reflexivity. Qed.

Lemma overlaps_sym_reg a b w : is_reg a = true -> is_reg b = true -> overlaps a w b w = overlaps b w a w.
Proof.
  destruct a, b; cbn; intros; try discriminate. rewrite (N.eqb_sym g g0), (N.eqb_sym id id0). reflexivity.
Qed.

Lemma tswap_holds E V T a b w : holds E V T -> is_reg a = true -> is_reg b = true -> distinct_locs a b w = true ->
  holds (tswap_eqs E a b w) V (write_loc (write_loc T a w (read_loc T b w)) b w (read_loc T a w)).
Proof.
  intros H Ha Hb Hd. unfold distinct_locs in Hd. apply negb_true_iff in Hd.
  intros v l m Hin. unfold tswap_eqs in Hin. apply in_app_or in Hin. destruct Hin as [Hin | Hin].
  - apply copies_in in Hin. destruct Hin as [-> [w0 [Hin ->]]].
    rewrite (copy_value E V T v a w0 w H Hin). symmetry. apply read_write_same. apply Nat.le_min_l.
  - apply in_app_or in Hin. destruct Hin as [Hin | Hin].
    + apply copies_in in Hin. destruct Hin as [-> [w0 [Hin ->]]].
      rewrite (copy_value E V T v b w0 w H Hin). symmetry.
      rewrite read_write_other.
      * apply read_write_same. apply Nat.le_min_l.
      * rewrite <- (overlaps_reg_w b a w w (Nat.min w w0)) by assumption.
        rewrite overlaps_sym_reg by assumption. assumption.
    + revert v l m Hin. apply kill_loc_holds. apply kill_loc_holds. assumption.
Qed.

Lemma smove_holds E V T d s w : holds E V T -> holds (smove_eqs E d s w) (set_v V d (tr w (V s))) T.
Proof.
  intros H v l m Hin. unfold smove_eqs in Hin. apply in_app_or in Hin. destruct Hin as [Hin | Hin].
  - apply in_flat_map in Hin. destruct Hin as [[[v' l'] w0] [Hin' Hx]].
    destruct (N.eqb_spec v' s); [subst v'|destruct Hx]. destruct Hx as [Hx|[]]. inversion Hx; subst.
    unfold set_v. rewrite N.eqb_refl. rewrite tr_tr by apply Nat.le_min_l.
    eapply holds_weaken; [eassumption | eassumption | apply Nat.le_min_r].
  - revert v l m Hin. apply kill_v_holds. assumption.
Qed.

Lemma joint_holds E V T dv sv d src w e :
  holds E V T -> is_reg d = true -> implied E sv src w = true ->
  holds (joint_eqs E dv d src w e) (set_v V dv (tr w (V sv))) (write_loc T d w (read_loc T src w)).
Proof.
  intros H Hreg Hi v l m Hin. unfold joint_eqs in Hin. destruct Hin as [Heq | Hin].
  - injection Heq as Hv Hl Hm. subst v l m. unfold set_v. rewrite N.eqb_refl.
    rewrite (implied_holds E V T sv src w H Hi).
    destruct d as [g i|]; [|discriminate]. cbn [read_loc write_loc rs]. unfold set_reg. rewrite eqb_refl2. reflexivity.
  - revert v l m Hin. apply kill_v_holds. apply (tmove_holds E V T d src w false H).
Qed.

Lemma pick_in (tls sls : list label) i : length tls = length sls -> length tls <> O ->
  In (pick tls i, pick sls i) (combine tls sls).
Proof.
  intros Hl Hn. unfold pick. rewrite <- Hl.
  set (j := Z.to_nat (i mod Z.max 1 (Z.of_nat (length tls)))).
  assert (Hj : (j < length tls)%nat).
  { unfold j. pose proof (Z.mod_pos_bound i (Z.max 1 (Z.of_nat (length tls))) ltac:(lia)). lia. }
  rewrite <- (combine_nth tls sls j 0%N 0%N Hl). apply nth_In. rewrite combine_length. lia.
Qed.

(* ------------------------------------------------------------------ simulation *)
Section Sim.
  Variable world : Type.
  Variable sem : opcode -> list Z -> world -> list Z * world.
  Variable semc : opcode -> list Z -> world -> bool.

  Notation srun := (srun world sem semc).
  Notation trun := (trun world sem semc).
  Notation sstep := (sstep world sem semc).
  Notation tstep := (tstep world sem semc).

  Lemma srun_app sp a b c c' : srun a sp c = Next c' -> srun (a + b) sp c = srun b sp c'.
  Proof.
    revert c. induction a; intros c H; cbn [srun Nat.add] in *.
    - inversion H; subst. reflexivity.
    - destruct (sstep sp c); try discriminate. apply IHa. assumption.
  Qed.

  Lemma srun_one sp c : srun 1 sp c = sstep sp c.
  Proof. cbn [srun]. destruct (sstep sp c); reflexivity. Qed.

  Lemma catchup_sound sp s1 T W : forall fuel s E E' V,
    holds E V T -> catchup fuel sp s E s1 = Some E' ->
    exists k V', srun k sp (s, V, W) = Next (s1, V', W) /\ holds E' V' T.
  Proof.
    induction fuel; intros s E E' V H Hc; cbn [catchup] in Hc; destruct (Nat.eqb_spec s s1).
    - subst. inversion Hc; subst. exists O, V. split; [reflexivity|assumption].
    - discriminate.
    - subst. inversion Hc; subst. exists O, V. split; [reflexivity|assumption].
    - destruct (nth_error sp s) as [[o us ds|d v w|o us l|l|l|us|o us ls]|] eqn:Hn; try discriminate.
      + (* SMove *)
        destruct (IHfuel _ _ _ (set_v V d (tr w (V v))) (smove_holds _ _ _ d v w H) Hc) as [k [V' [Hr Hh]]].
        exists (S k), V'. split; [|assumption]. cbn [srun]. unfold RaIRModel.sstep. rewrite Hn. exact Hr.
      + (* SJmp *)
        destruct (find_slabel l sp 0) as [s'|] eqn:Hf; [|discriminate].
        destruct (IHfuel _ _ _ V H Hc) as [k [V' [Hr Hh]]].
        exists (S k), V'. split; [|assumption]. cbn [srun]. unfold RaIRModel.sstep. rewrite Hn, Hf. exact Hr.
      + (* SLabel *)
        destruct (IHfuel _ _ _ V H Hc) as [k [V' [Hr Hh]]].
        exists (S k), V'. split; [|assumption]. cbn [srun]. unfold RaIRModel.sstep. rewrite Hn. exact Hr.
  Qed.

  Definition match_conf (ann : annot) (cs : sconf world) (ct : tconf world) : Prop :=
    let '(s, V, W) := cs in let '(t, T, W') := ct in
    W = W' /\ exists E, nth_error ann t = Some (Some (s, E)) /\ holds E V T.

  Lemma edge_sound sp ann s E t' V T W :
    holds E V T -> edge sp ann s E t' = true ->
    exists k cs', srun k sp (s, V, W) = Next cs' /\ match_conf ann cs' (t', T, W).
  Proof.
    intros H He. unfold edge in He.
    destruct (nth_error ann t') as [[[s1 E1]|]|] eqn:Hn; try discriminate.
    destruct (catchup (S (length sp)) sp s E s1) as [E'|] eqn:Hc; [|discriminate].
    destruct (catchup_sound sp s1 T W _ _ _ _ V H Hc) as [k [V' [Hr Hh]]].
    exists k, (s1, V', W). split; [assumption|]. cbn. split; [reflexivity|].
    exists E1. split; [assumption|]. eapply subset_fast_holds; eassumption.
  Qed.

  Definition sim_result (sp : sprog) (ann : annot) (cs : sconf world) (r : outcome world (tconf world)) : Prop :=
    match r with
    | Next ct' => exists k cs', srun k sp cs = Next cs' /\ match_conf ann cs' ct'
    | Halt res W' => exists k, srun k sp cs = Halt res W'
    | Stuck => False
    end.

  (* after one source step (from cs to c1), continue with an edge *)
  Lemma step_then_edge sp ann cs s E t' V T W :
    sstep sp cs = Next (s, V, W) -> holds E V T -> edge sp ann s E t' = true ->
    sim_result sp ann cs (Next (t', T, W)).
  Proof.
    intros Hs H He. destruct (edge_sound sp ann s E t' V T W H He) as [k [cs' [Hr Hm]]].
    exists (1 + k)%nat, cs'. split; [|assumption].
    rewrite (srun_app sp 1 k cs (s, V, W)); [assumption|]. rewrite srun_one. assumption.
  Qed.

  Lemma step_sim sp tp ann s V t T W :
    check_pc sp tp ann t = true -> match_conf ann (s, V, W) (t, T, W) ->
    sim_result sp ann (s, V, W) (tstep tp (t, T, W)).
  Proof.
    intros Hc [_ [E [Hann H]]]. unfold check_pc in Hc. rewrite Hann in Hc.
    unfold RaIRModel.tstep.
    destruct (nth_error tp t) as [[o tu td|d src w keep e|a b w|o tu l|l|l|tu|o tu tls]|] eqn:Ht; try discriminate.
    - (* TOp *)
      destruct (nth_error sp s) as [[o' su sd|? ? ?|? ? ?|?|?|?|? ? ?]|] eqn:Hs; try discriminate.
      apply andb_true_iff in Hc. destruct Hc as [Hc He]. apply andb_true_iff in Hc. destruct Hc as [Ho Hu].
      apply N.eqb_eq in Ho. subst o'.
      destruct (defs_eqs E sd td) as [E'|] eqn:Hd; [|discriminate].
      rewrite <- (check_uses_ok E V T H su tu Hu).
      destruct (sem o (sread V su) W) as [res W'] eqn:Hsem.
      eapply step_then_edge; [| |eassumption].
      + unfold RaIRModel.sstep. rewrite Hs, Hsem. replace (s + 1)%nat with (s + 1)%nat by reflexivity. reflexivity.
      + eapply defs_eqs_holds; eassumption.
    - (* TMove *)
      apply orb_true_iff in Hc. destruct Hc as [Hc | Hc].
      + (* matched with the source copy *)
        destruct (nth_error sp s) as [[? ? ?|dv sv w'|? ? ?|?|?|?|? ? ?]|] eqn:Hs; try discriminate.
        apply andb_true_iff in Hc. destruct Hc as [Hj He].
        unfold joint_ok in Hj. apply andb_true_iff in Hj. destruct Hj as [Hj Hi].
        apply andb_true_iff in Hj. destruct Hj as [Hj Hreg]. apply andb_true_iff in Hj. destruct Hj as [Hw Hk].
        apply Nat.eqb_eq in Hw. subst w'. apply negb_true_iff in Hk. subst keep.
        eapply step_then_edge; [| |eassumption].
        * unfold RaIRModel.sstep. rewrite Hs. reflexivity.
        * apply joint_holds; assumption.
      + destruct (edge_sound sp ann s _ (t + 1)%nat V _ W (tmove_holds' E V T d src w keep H) Hc) as [k [cs' [Hr Hm]]].
        exists k, cs'. split; assumption.
    - (* TSwap *)
      apply andb_true_iff in Hc. destruct Hc as [Hc He]. apply andb_true_iff in Hc. destruct Hc as [Hc Hd].
      apply andb_true_iff in Hc. destruct Hc as [Ha Hb].
      destruct (edge_sound sp ann s _ (t + 1)%nat V _ W (tswap_holds E V T a b w H Ha Hb Hd) He) as [k [cs' [Hr Hm]]].
      exists k, cs'. split; assumption.
    - (* TCond *)
      destruct (nth_error sp s) as [[? ? ?|? ? ?|o' su l'|?|?|?|? ? ?]|] eqn:Hs; try discriminate.
      apply andb_true_iff in Hc. destruct Hc as [Hc He]. apply andb_true_iff in Hc. destruct Hc as [Ho Hu].
      apply N.eqb_eq in Ho. subst o'.
      destruct (find_tlabel l tp 0) as [t'|] eqn:Hft; [|discriminate].
      destruct (find_slabel l' sp 0) as [s'|] eqn:Hfs; [|discriminate].
      apply andb_true_iff in He. destruct He as [He1 He2].
      rewrite <- (check_uses_ok E V T H su tu Hu).
      destruct (semc o (sread V su) W) eqn:Hsem.
      + eapply step_then_edge; [|eassumption|eassumption].
        unfold RaIRModel.sstep. rewrite Hs, Hsem, Hfs. reflexivity.
      + eapply step_then_edge; [|eassumption|eassumption].
        unfold RaIRModel.sstep. rewrite Hs, Hsem. reflexivity.
    - (* TJmp *)
      destruct (find_tlabel l tp 0) as [t'|] eqn:Hft; [|discriminate].
      destruct (edge_sound sp ann s E t' V T W H Hc) as [k [cs' [Hr Hm]]].
      exists k, cs'. split; assumption.
    - (* TLabel *)
      destruct (edge_sound sp ann s E (t + 1)%nat V T W H Hc) as [k [cs' [Hr Hm]]].
      exists k, cs'. split; assumption.
    - (* TRet *)
      destruct (nth_error sp s) as [[? ? ?|? ? ?|? ? ?|?|?|su|? ? ?]|] eqn:Hs; try discriminate.
      rewrite <- (check_uses_ok E V T H su tu Hc).
      exists 1%nat. rewrite srun_one. unfold RaIRModel.sstep. rewrite Hs. reflexivity.
    - (* TJmpTab *)
      destruct (nth_error sp s) as [[? ? ?|? ? ?|? ? ?|?|?|?|o' su sls]|] eqn:Hs; try discriminate.
      apply andb_true_iff in Hc. destruct Hc as [Hc Hall]. apply andb_true_iff in Hc. destruct Hc as [Hc Hne].
      apply andb_true_iff in Hc. destruct Hc as [Hc Hlen]. apply andb_true_iff in Hc. destruct Hc as [Ho Hu].
      apply N.eqb_eq in Ho. subst o'. apply Nat.eqb_eq in Hlen. apply negb_true_iff in Hne. apply Nat.eqb_neq in Hne.
      rewrite <- (check_uses_ok E V T H su tu Hu).
      destruct (sem o (sread V su) W) as [res W'] eqn:Hsem.
      pose proof (pick_in tls sls (hd 0%Z res) Hlen Hne) as Hin.
      rewrite forallb_forall in Hall. specialize (Hall _ Hin). cbn [fst snd] in Hall.
      destruct (find_tlabel (pick tls (hd 0%Z res)) tp 0) as [t'|] eqn:Hft; [|discriminate].
      destruct (find_slabel (pick sls (hd 0%Z res)) sp 0) as [s'|] eqn:Hfs; [|discriminate].
      eapply step_then_edge; [|eassumption|eassumption].
      unfold RaIRModel.sstep. rewrite Hs, Hsem, Hfs. reflexivity.
  Qed.

  Lemma check_pc_of_check sp tp ann t x :
    check sp tp ann = true -> nth_error ann t = Some x -> check_pc sp tp ann t = true.
  Proof.
    intros Hc Hn. unfold check in Hc. apply andb_true_iff in Hc. destruct Hc as [Hc Hf].
    apply andb_true_iff in Hc. destruct Hc as [_ Hl]. apply Nat.eqb_eq in Hl.
    rewrite forallb_forall in Hf. apply Hf. apply in_seq.
    assert (t < length ann)%nat by (apply nth_error_Some; congruence). lia.
  Qed.

  Lemma trun_sim sp tp ann : check sp tp ann = true -> forall n cs ct,
    match_conf ann cs ct -> sim_result sp ann cs (trun n tp ct).
  Proof.
    intros Hc. induction n; intros [[s V] W] [[t T] W'] Hm.
    - cbn [trun]. exists O, (s, V, W). split; [reflexivity|assumption].
    - cbn [trun]. pose proof Hm as Hm'. destruct Hm' as [<- [E [Hann H]]].
      pose proof (step_sim sp tp ann s V t T W (check_pc_of_check sp tp ann t _ Hc Hann) Hm) as Hs.
      destruct (tstep tp (t, T, W)) as [ct'|res W'|]; cbn [sim_result] in Hs.
      + destruct Hs as [k [cs' [Hr Hm1]]].
        pose proof (IHn cs' ct' Hm1) as Hn.
        destruct (trun n tp ct') as [ct''|res W'|]; cbn [sim_result] in *.
        * destruct Hn as [k2 [cs'' [Hr2 Hm2]]]. exists (k + k2)%nat, cs''.
          split; [|assumption]. rewrite (srun_app sp k k2 _ cs' Hr). assumption.
        * destruct Hn as [k2 Hr2]. exists (k + k2)%nat. rewrite (srun_app sp k k2 _ cs' Hr). assumption.
        * assumption.
      + assumption.
      + assumption.
  Qed.

  Lemma init_match ann V0 T0 W : check_entry ann = true -> match_conf ann (O, V0, W) (O, T0, W).
  Proof.
    intros H. unfold check_entry in H. destruct ann as [|[[[|?] [|? ?]]|] ann]; try discriminate.
    cbn. split; [reflexivity|]. exists []. split; [reflexivity|apply holds_nil].
  Qed.

  (* behaviour of the allocated program, as seen from outside: the world and the returned values *)
  Definition observe_t (r : outcome world (tconf world)) : outcome world world :=
    match r with Next (_, _, W) => Next W | Halt res W => Halt res W | Stuck => Stuck end.
  Definition observe_s (r : outcome world (sconf world)) : outcome world world :=
    match r with Next (_, _, W) => Next W | Halt res W => Halt res W | Stuck => Stuck end.

  Theorem check_sound sp tp ann : check sp tp ann = true ->
    forall V0 T0 W n,
      trun n tp (O, T0, W) <> Stuck /\
      exists k, observe_s (srun k sp (O, V0, W)) = observe_t (trun n tp (O, T0, W)).
  Proof.
    intros Hc V0 T0 W n.
    assert (He : check_entry ann = true).
    { unfold check in Hc. apply andb_true_iff in Hc. destruct Hc as [Hc _]. apply andb_true_iff in Hc. tauto. }
    pose proof (trun_sim sp tp ann Hc n _ _ (init_match ann V0 T0 W He)) as Hs.
    destruct (trun n tp (O, T0, W)) as [[[t T] W']|res W'|]; cbn [sim_result] in Hs.
    - split; [discriminate|]. destruct Hs as [k [[[s V] W''] [Hr [<- _]]]]. exists k. rewrite Hr. reflexivity.
    - split; [discriminate|]. destruct Hs as [k Hr]. exists k. rewrite Hr. reflexivity.
    - destruct Hs.
  Qed.
End Sim.

Theorem validate_sound sp tp hs : validate sp tp hs = true ->
  forall (world : Type) (sem : opcode -> list Z -> world -> list Z * world)
         (semc : opcode -> list Z -> world -> bool) V0 T0 W n,
    trun world sem semc n tp (O, T0, W) <> Stuck /\
    exists k, observe_s world (srun world sem semc k sp (O, V0, W)) = observe_t world (trun world sem semc n tp (O, T0, W)).
Proof. intros H world sem semc. apply (check_sound world sem semc sp tp (infer sp tp hs)). exact H. Qed.

(* if the allocated program returns, the source program returns the same values in the same world *)
Corollary validate_sound_halt sp tp hs : validate sp tp hs = true ->
  forall (world : Type) (sem : opcode -> list Z -> world -> list Z * world)
         (semc : opcode -> list Z -> world -> bool) V0 T0 W n res W',
    trun world sem semc n tp (O, T0, W) = Halt res W' ->
    exists k, srun world sem semc k sp (O, V0, W) = Halt res W'.
Proof.
  intros H world sem semc V0 T0 W n res W' Ht.
  destruct (validate_sound sp tp hs H world sem semc V0 T0 W n) as [_ [k Hk]].
  rewrite Ht in Hk. cbn in Hk. exists k.
  destruct (srun world sem semc k sp (O, V0, W)) as [[[s V] W'']|res' W''|]; cbn in Hk; try discriminate.
  inversion Hk; subst. reflexivity.
Qed.

(* every world (memory contents, calls made so far) the allocated program passes through is one the source passes through *)
Corollary validate_sound_worlds sp tp hs : validate sp tp hs = true ->
  forall (world : Type) (sem : opcode -> list Z -> world -> list Z * world)
         (semc : opcode -> list Z -> world -> bool) V0 T0 W n t T W',
    trun world sem semc n tp (O, T0, W) = Next (t, T, W') ->
    exists k s V, srun world sem semc k sp (O, V0, W) = Next (s, V, W').
Proof.
  intros H world sem semc V0 T0 W n t T W' Ht.
  destruct (validate_sound sp tp hs H world sem semc V0 T0 W n) as [_ [k Hk]].
  rewrite Ht in Hk. cbn in Hk. exists k.
  destruct (srun world sem semc k sp (O, V0, W)) as [[[s V] W'']|res' W''|]; cbn in Hk; try discriminate.
  inversion Hk; subst. exists s, V. reflexivity.
Qed.

(* ------------------------------------------------------------------ register lists *)
Lemma list_loc_eqb_eq : forall x y : list loc, list_eqb loc_eqb x y = true -> x = y.
Proof.
  induction x as [|a x IH]; intros [|b y] H; cbn in H; try discriminate; [reflexivity|].
  apply andb_true_iff in H. destruct H as [Ha Hx]. apply loc_eqb_eq in Ha. apply IH in Hx. subst. reflexivity.
Qed.

(* an accepted list is exactly the list the CPU derives from the encoded first register and the list length *)
Theorem consec_ok_sound ls : consec_ok ls = true ->
  match ls with
  | [] => True
  | LReg g id :: _ => ls = expand_list g id (length ls)
  | LSlot _ :: _ => False
  end.
Proof.
  destruct ls as [|[g id|o] ls]; cbn [consec_ok]; intros H; [exact I | apply list_loc_eqb_eq; exact H | discriminate].
Qed.

(* member i of an expanded list is register (first + i) mod 32 *)
Lemma expand_list_nth g : forall n id i, (id < 32)%N -> (i < n)%nat ->
  nth i (expand_list g id n) (LSlot 0) = LReg g (N.modulo (id + N.of_nat i) 32).
Proof.
  induction n; intros id i Hid Hi; [lia|]. destruct i as [|i]; cbn [expand_list nth].
  - rewrite N.add_0_r, N.mod_small by exact Hid. reflexivity.
  - rewrite IHn; [| apply N.mod_upper_bound; discriminate | lia].
    rewrite Nat2N.inj_succ, N.add_mod_idemp_l by discriminate. f_equal. f_equal. lia.
Qed.

Theorem lists_ok_sound groups : lists_ok groups = true -> forall ls, In ls groups -> consec_ok ls = true.
Proof. unfold lists_ok. intros H ls Hin. rewrite forallb_forall in H. apply H. exact Hin. Qed.

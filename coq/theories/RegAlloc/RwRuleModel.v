(* C05 — the use/def classification applied to every instruction operand (formerly C++ code of the dumper), as Gallina
   functions that are extracted and run by ml/c05_driver.ml on the RAW facts printed by the harness
   (InstAPI::query_rw_info masks, operand size, size of the virtual register, idiom tag). Definitions only. *)
From Coq Require Import ZArith NArith List Bool Arith.
Import ListNotations.
Local Open Scope N_scope.

(* raw read/write facts of one register operand (or of the frame slot that replaced it in the allocated program) *)
Record rawop := mkRaw {
  r_read : bool; r_write : bool;
  r_rmask : N; r_wmask : N; r_emask : N;      (* byte masks: read, written, zero-extended *)
  r_rm : nat;                                  (* size of the memory form of a reg/mem operand, 0 = none *)
  r_isrm : bool;                               (* operand may be register or memory *)
  r_osize : nat;                               (* size of the operand as written (register or memory) *)
  r_ismem : bool;                              (* allocated program: the register was replaced by its home slot *)
  r_vsize : nat;                               (* size of the virtual register the SOURCE instruction names here *)
  r_first : bool                               (* first operand of the instruction *)
}.

Inductive idiom := INone | IWO | IRO.         (* IWO: result independent of the register operands; IRO: written bytes keep their value *)

Definition low_mask (n : nat) : N := N.ones (N.of_nat n).
Definition msb_width (m : N) : nat := N.size_nat m.

Fixpoint contig_from (fuel : nat) (m : N) : nat :=
  match fuel with
  | O => O
  | S f => if N.odd m then S (contig_from f (N.div2 m)) else O
  end.
Definition contig_width (m : N) : nat := contig_from 64 m.

Definition all_ones64 : N := N.ones 64.

(* bytes of the operand that are read *)
Definition read_width (a64 : bool) (r : rawop) : nat :=
  let w := msb_width (r_rmask r) in
  let w := if a64 && N.eqb (r_rmask r) all_ones64 then r_osize r else w in      (* AArch64 RW info: "the whole operand" *)
  let w := if negb (r_write r) && r_isrm r && negb (Nat.eqb (r_rm r) 0) && Nat.ltb (r_rm r) w then r_rm r else w in
  if r_ismem r then Nat.min w (r_osize r) else w.

(* a value-preserving write (idiom IRO, first operand) that does not zero-extend further bytes of the virtual register *)
Definition keeps (id : idiom) (r : rawop) : bool :=
  match id with
  | IRO => r_first r && N.eqb (N.land (N.ldiff (r_emask r) (r_wmask r)) (low_mask (r_vsize r))) 0
  | _ => false
  end.

Definition covered (r : rawop) : N := N.lor (r_wmask r) (r_emask r).
Definition is_partial (r : rawop) : bool := negb (N.eqb (N.ldiff (low_mask (r_vsize r)) (covered r)) 0).

(* result: widths of the uses (in order) and of the def of this operand *)
Definition classify (a64 : bool) (id : idiom) (r : rawop) : list nat * list nat :=
  let u1 := if r_read r && match id with IWO => false | _ => true end then [read_width a64 r] else [] in
  if r_write r && negb (keeps id r) then
    if is_partial r then
      (* the rest of the virtual register survives: the old value is an input *)
      let have := existsb (fun w => Nat.leb (r_vsize r) w) u1 in
      (if have then u1 else u1 ++ [r_vsize r], [r_vsize r])
    else
      let cw := contig_width (covered r) in
      let cw := if Nat.eqb (r_vsize r) 0 then cw else Nat.min cw (r_vsize r) in
      let cw := if r_ismem r then Nat.min cw (r_osize r) else cw in
      (u1, [cw])
  else (u1, []).

(* ------------------------------------------------------------------ idiom table *)
Inductive alu := AXor | ASub | AOr | AAnd | AAdd | AShl | AShr | ASar | ARol | ARor
               | VXor | VSubD | VCmpEqD | VAnd | VOr | AOther.

(* same: both register operands are the same register; imm: second operand is this immediate; osize: operand size *)
Definition idiom_of (op : alu) (same : bool) (imm : option Z) (osize : nat) : idiom :=
  match imm with
  | None =>
      if same then
        match op with
        | AXor | ASub | VXor | VSubD | VCmpEqD => IWO
        | AAnd | AOr | VAnd | VOr => IRO
        | _ => INone
        end
      else INone
  | Some i =>
      match op with
      | AOr => if Z.eqb i (-1) || (Nat.ltb osize 8 && Z.eqb i (Z.ones (8 * Z.of_nat osize))) then IWO
               else if Z.eqb i 0 then IRO else INone
      | AAdd | AXor | ASub | AShl | AShr | ASar | ARol | ARor => if Z.eqb i 0 then IRO else INone
      | _ => INone
      end
  end.

(* the tag of an instruction id, from a table that is GENERATED from the instruction database of the tree under test
   (coq/gen/C05IdiomTags.v, see tools/checks/c05.py): ids that are not listed have no idiom *)
Definition alu_of_id (tbl : list (N * alu)) (id : N) : alu :=
  match find (fun p => N.eqb (fst p) id) tbl with
  | Some p => snd p
  | None => AOther
  end.

Fixpoint ids_distinct (tbl : list (N * alu)) : bool :=
  match tbl with
  | [] => true
  | p :: t => negb (existsb (fun q => N.eqb (fst q) (fst p)) t) && ids_distinct t
  end.

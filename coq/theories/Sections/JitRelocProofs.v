(* C10 x C04 — proofs about relocation applied to the holder (JitReloc.v): relocation changes bytes and the address table's
   sizes only, never an offset; the relocated holder is still a collision-free layout, so the copy theorems apply to it:
   what is copied / installed is exactly the relocated bytes. *)
From Coq Require Import ZArith List Bool Lia.
From Verif Require Import Codec.OffsetModel Reloc.RelocModel Reloc.RelocProofs Sections.SectionModel Sections.SectionProofs Sections.CopyProofs Sections.ChunkProofs Sections.ShrinkProofs Sections.StableProofs Sections.CoverProofs Sections.SettleProofs Sections.SectionTable Sections.JitCopyModel Sections.JitCopyProofs
  Sections.ChunkModel Sections.JitReloc.
Import ListNotations.
Local Open Scope Z_scope.

(* equal in everything the layout looks at (all fields but the bytes and the name) *)
Definition lay_eq (a b : section) : Prop :=
  sid b = sid a /\ sorder b = sorder a /\ salign b = salign a /\ soff b = soff a /\ svsize b = svsize a /\ sbsize b = sbsize a.

Lemma lay_eq_refl l : Forall2 lay_eq l l.
Proof. induction l; constructor; [unfold lay_eq; auto 10|assumption]. Qed.

Lemma update_set_data_lay h id g : Forall2 lay_eq h (update_id h id (fun s => set_data s (g s))).
Proof.
  induction h as [|a t IH]; cbn [update_id]; [constructor|]. destruct (sid a =? id).
  - constructor; [unfold lay_eq; cbn; auto 10|apply lay_eq_refl].
  - constructor; [unfold lay_eq; auto 10|assumption].
Qed.

(* offsets kept, real sizes not larger, empty stays empty: collisions cannot appear *)
Definition shr_rel (a b : section) : Prop :=
  soff b = soff a /\ real_size b <= real_size a /\ (real_size a = 0 -> real_size b = 0).

Lemma lay_eq_shr a b : lay_eq a b -> shr_rel a b.
Proof. intros [_ [_ [_ [O [V B]]]]]. unfold shr_rel, real_size. rewrite O, V, B. split; [reflexivity|split; [lia|auto]]. Qed.

Lemma shr_rel_disjoint l l' : Forall2 shr_rel l l' -> disjoint_layout l -> disjoint_layout l'.
Proof.
  intros H. induction H as [|a b la lb Hab Hl IH]; intros Hd; [constructor|].
  inversion Hd as [|? ? Hall Hrest]; subst. constructor; [|apply IH; assumption].
  clear IH Hd Hrest. induction Hl as [|c d lc ld Hcd _ IH2]; [constructor|].
  inversion Hall as [|? ? Hac Hall']; subst. constructor; [|apply IH2; assumption].
  destruct Hab as [Oa [Ra _]]. destruct Hcd as [Oc [Rc Zc]]. unfold apart in *.
  destruct Hac as [Hz|F]; [left; auto|]. destruct (Z.eq_dec (real_size d) 0); [left; assumption|right; lia].
Qed.

Lemma shrink_last_cons a b t tab used :
  shrink_last (a :: b :: t) tab used =
  (let (t', r) := shrink_last (b :: t) tab used in
   ((if sid a =? tab then set_sizes a used (svsize a) (firstn (Z.to_nat used) (sdata a)) else a) :: t', r)).
Proof. reflexivity. Qed.

Lemma shrink_last_shr l tab used : 0 <= used -> (forall s, In s l -> sid s = tab -> used <= svsize s) ->
  Forall2 shr_rel l (fst (shrink_last l tab used)).
Proof.
  intros Hu. induction l as [|a t IH]; intros Hb; [constructor|].
  assert (Ha : sid a = tab -> used <= svsize a) by (apply Hb; left; reflexivity).
  assert (IH' : Forall2 shr_rel t (fst (shrink_last t tab used))) by (apply IH; intros s Hs; apply Hb; right; assumption).
  destruct t as [|b t'].
  - cbn [shrink_last]. destruct (Z.eqb_spec (sid a) tab) as [E|N]; cbn [fst]; (constructor; [|constructor]).
    + specialize (Ha E). unfold shr_rel, real_size, set_sizes. cbn [soff svsize sbsize]. split; [reflexivity|split; lia].
    + unfold shr_rel. split; [reflexivity|split; [lia|auto]].
  - rewrite shrink_last_cons. destruct (shrink_last (b :: t') tab used) as [t2 r] eqn:Es. cbn [fst] in *.
    constructor; [|assumption]. destruct (Z.eqb_spec (sid a) tab) as [E|N].
    + specialize (Ha E). unfold shr_rel, real_size, set_sizes. cbn [soff svsize sbsize]. split; [reflexivity|split; lia].
    + unfold shr_rel. split; [reflexivity|split; [lia|auto]].
Qed.

(* little-endian bytes, patches *)
Lemma le_bytes_length n w : length (le_bytes n w) = n.
Proof. revert w. induction n as [|n IH]; intros w; cbn [le_bytes length]; [reflexivity|]. rewrite IH. reflexivity. Qed.

Lemma table_bytes_length slots : Z.of_nat (length (table_bytes slots)) = 8 * Z.of_nat (length slots).
Proof.
  induction slots as [|a t IH]; cbn [table_bytes flat_map length]; [reflexivity|].
  rewrite app_length, le_bytes_length. fold (table_bytes t). lia.
Qed.

Lemma patch_site_length data e o : 0 <= e_off e + e_lead e -> 0 <= vsize (e_fmt e) ->
  e_off e + e_lead e + vsize (e_fmt e) <= Z.of_nat (length data) ->
  length (patch_site data e o) = length data.
Proof.
  intros H2 Hv Hb. unfold patch_site.
  assert (L1 : length (write_at data (e_off e + e_lead e) (le_bytes (Z.to_nat (vsize (e_fmt e))) (o_word o))) = length data).
  { apply write_at_length; [lia|]. rewrite le_bytes_length. lia. }
  destruct (o_rewrite o) as [[b0 b1]|]; [|assumption]. destruct (Z.leb_spec 2 (e_off e + e_lead e)); [|assumption].
  rewrite write_at_length; [assumption|lia|]. cbn [length]. lia.
Qed.

(* a patch touches only the value word and (address-table call) the two bytes in front of it *)
Lemma patch_site_outside data e o c : 0 <= e_off e + e_lead e -> 0 <= vsize (e_fmt e) ->
  e_off e + e_lead e + vsize (e_fmt e) <= Z.of_nat (length data) -> 0 <= c ->
  ~ (e_off e + e_lead e - 2 <= c < e_off e + e_lead e + vsize (e_fmt e)) ->
  cell (patch_site data e o) c = cell data c.
Proof.
  intros H2 Hv Hb Hc Hout. unfold patch_site.
  set (d1 := write_at data (e_off e + e_lead e) (le_bytes (Z.to_nat (vsize (e_fmt e))) (o_word o))).
  assert (L1 : length d1 = length data) by (apply write_at_length; [lia|rewrite le_bytes_length; lia]).
  assert (C1 : cell d1 c = cell data c).
  { unfold d1. rewrite write_at_cell; [|lia|rewrite le_bytes_length; lia|assumption]. rewrite le_bytes_length.
    destruct (Z.leb_spec (e_off e + e_lead e) c); destruct (Z.ltb_spec c (e_off e + e_lead e + Z.of_nat (Z.to_nat (vsize (e_fmt e))))); cbn [andb]; try reflexivity; lia. }
  destruct (o_rewrite o) as [[b0 b1]|]; [|assumption]. destruct (Z.leb_spec 2 (e_off e + e_lead e)); [|assumption].
  rewrite write_at_cell; [|lia|cbn [length]; lia|assumption]. cbn [length].
  destruct (Z.leb_spec (e_off e + e_lead e - 2) c); destruct (Z.ltb_spec c (e_off e + e_lead e - 2 + Z.of_nat 2)); cbn [andb]; try assumption; lia.
Qed.

(* ------------------------------------------------------------------ relocate_holder *)
Lemma Forall2_map_in {A} (R : A -> A -> Prop) (G : A -> A) l : (forall x, In x l -> R x (G x)) -> Forall2 R l (map G l).
Proof.
  induction l as [|a t IH]; intros H; cbn [map]; constructor; [apply H; left; reflexivity|apply IH; intros x Hx; apply H; right; assumption].
Qed.


Lemma patch_all_length es : forall outs data,
  (forall e, In e es -> 0 <= e_off e + e_lead e /\ 0 <= vsize (e_fmt e) /\ e_off e + e_lead e + vsize (e_fmt e) <= Z.of_nat (length data)) ->
  length (patch_all data es outs) = length data.
Proof.
  induction es as [|e t IH]; intros outs data H; cbn [patch_all]; [reflexivity|]. destruct outs as [|o ot]; [reflexivity|].
  destruct (H e (or_introl eq_refl)) as [H2 [Hv Hb]].
  pose proof (patch_site_length data e o H2 Hv Hb) as L. rewrite IH; [assumption|].
  intros e' He'. rewrite L. apply H. right. assumption.
Qed.

Lemma by_id_unique h s : NoDup (map sid h) -> In s h -> by_id h (sid s) = Some s.
Proof.
  induction h as [|a t IH]; intros Hn Hin; [contradiction|]. cbn [map] in Hn. inversion Hn as [|? ? Hnot Hn']; subst.
  cbn [by_id]. destruct Hin as [->|Hin]; [rewrite Z.eqb_refl; reflexivity|].
  destruct (Z.eqb_spec (sid a) (sid s)) as [E|N]; [|apply IH; assumption].
  exfalso. apply Hnot. rewrite E. apply in_map. assumption.
Qed.

(* the relocated holder: offsets untouched, still collision-free, every buffer as long as its size says *)
Theorem relocate_holder_ok h tab calls base h2 red :
  NoDup (map sid h) -> (forall s, In s h -> 0 <= sid s) -> Forall data_ok h -> disjoint_layout h ->
  relocate_holder h tab calls base = inl (h2, red) ->
  Forall data_ok h2 /\ disjoint_layout h2 /\ Forall2 shr_rel h h2 /\ map soff h2 = map soff h /\ map sid h2 = map sid h /\
  (forall s s2, In s h -> In s2 h2 -> sid s2 = sid s -> sid s <> 0 -> Some (sid s) <> tab -> s2 = s).
Proof.
  intros Hnd Hpos Hd Hdis E. unfold relocate_holder in E.
  destruct (by_id h 0) as [text|] eqn:Et; [|discriminate].
  destruct (forallb (site_in_bounds text) calls) eqn:Eb; cbn [negb] in E; [|discriminate].
  set (es := map (site_entry h (soff text)) calls) in *.
  assert (Hsel : exists t atoff reserved last,
            (match tab with
             | Some t0 => match by_id h t0 with Some ts => (t0, soff ts, svsize ts, is_last h t0) | None => (-1, 0, 0, false) end
             | None => (-1, 0, 0, false) end) = (t, atoff, reserved, last) /\
            ((t = -1 /\ reserved = 0) \/ (tab = Some t /\ exists ts, by_id h t = Some ts /\ reserved = svsize ts))).
  { destruct tab as [t0|]; [destruct (by_id h t0) as [ts|] eqn:Ets|]; do 4 eexists; (split; [reflexivity|]); eauto 8. }
  destruct Hsel as [t [atoff [reserved [last [Esel Hres]]]]]. rewrite Esel in E.
  destruct (relocate base REG_SIZE atoff reserved last es) as [r|x] eqn:Er; [|discriminate].
  destruct (Z.ltb_spec reserved (rr_table_size r)) as [|Hfit]; [discriminate|]. inversion E; subst h2 red; clear E.
  destruct (relocate_table _ _ _ _ _ _ _ Er) as [_ [Esize _]]. unfold Labels.LabelsModel.zlen, REG_SIZE in Esize.
  pose proof (table_bytes_length (rr_table r)) as Ltab.
  assert (Hsize0 : 0 <= rr_table_size r) by lia.
  (* per-section facts *)
  set (G := fun s : section => if sid s =? t then set_sizes s (rr_table_size r) (if last then rr_table_size r else svsize s) (table_bytes (rr_table r))
                               else if sid s =? 0 then set_data s (patch_all (sdata s) es (rr_outs r)) else s).
  assert (Hel : forall s, In s h -> data_ok (G s) /\ shr_rel s (G s) /\ sid (G s) = sid s).
  { intros s Hs. rewrite Forall_forall in Hd. destruct (Hd s Hs) as [Hl [Ho Hv]]. unfold G.
    destruct (Z.eqb_spec (sid s) t) as [Est|Nst].
    - destruct Hres as [[Tm _]|[_ [ts [Bts Rts]]]]; [specialize (Hpos s Hs); lia|].
      assert (ts = s). { rewrite <- Est in Bts. rewrite (by_id_unique h s Hnd Hs) in Bts. congruence. } subst ts.
      split; [|split; [|reflexivity]].
      + unfold data_ok, set_sizes. cbn [sdata sbsize soff svsize]. split; [lia|]. split; [assumption|]. destruct last; lia.
      + unfold shr_rel, real_size, set_sizes. cbn [soff svsize sbsize]. split; [reflexivity|]. destruct last; split; lia.
    - destruct (Z.eqb_spec (sid s) 0) as [E0|N0]; [|split; [exact (conj Hl (conj Ho Hv))|split; [apply lay_eq_shr; unfold lay_eq; auto 10|reflexivity]]].
      assert (text = s). { rewrite <- E0 in Et. rewrite (by_id_unique h s Hnd Hs) in Et. congruence. } subst text.
      split; [|split; [apply lay_eq_shr; unfold lay_eq; cbn; auto 10|reflexivity]].
      unfold data_ok, set_data, set_sizes. cbn [sdata sbsize soff svsize]. split; [|split; assumption].
      rewrite patch_all_length; [assumption|]. intros e He. unfold es in He. apply in_map_iff in He. destruct He as [c [<- Hc]].
      rewrite forallb_forall in Eb. specialize (Eb c Hc). unfold site_in_bounds in Eb.
      apply andb_true_iff in Eb. destruct Eb as [Eb E4]. apply andb_true_iff in Eb. destruct Eb as [Eb E3]. apply andb_true_iff in Eb. destruct Eb as [E1 E2].
      apply Z.leb_le in E1, E3, E4. apply Z.ltb_lt in E2. unfold site_entry, site_pos, site_len, CALL_LEN, ABS_LEN in *.
      destruct c as [pos addr|pos tg lo|pos t1 o1 t2 o2 n|pos addr]; cbn [e_off e_lead e_fmt vsize sfmt ufmt]; lia. }
  fold G.
  assert (HF : Forall2 shr_rel h (map G h) /\ Forall data_ok (map G h) /\ map soff (map G h) = map soff h /\ map sid (map G h) = map sid h).
  { split; [apply Forall2_map_in; intros s Hs; apply Hel; assumption|]. split; [|split].
    - rewrite Forall_forall. intros x Hx. apply in_map_iff in Hx. destruct Hx as [s [<- Hs]]. apply Hel. assumption.
    - rewrite map_map. apply map_ext_in. intros s Hs. destruct (Hel s Hs) as [_ [[So _] _]]. assumption.
    - rewrite map_map. apply map_ext_in. intros s Hs. destruct (Hel s Hs) as [_ [_ I]]. assumption. }
  destruct HF as [F1 [F2 [F3 F4]]].
  split; [assumption|]. split; [eapply shr_rel_disjoint; eassumption|]. split; [assumption|]. split; [assumption|]. split; [assumption|].
  intros s s2 Hs Hs2 Eid N0 Nt. apply in_map_iff in Hs2. destruct Hs2 as [s' [<- Hs']].
  destruct (Hel s' Hs') as [_ [_ Is']]. rewrite Is' in Eid.
  assert (s' = s).
  { pose proof (by_id_unique h s Hnd Hs) as B1. pose proof (by_id_unique h s' Hnd Hs') as B2. rewrite Eid in B2. congruence. }
  subst s'. unfold G. destruct (Z.eqb_spec (sid s) t) as [Est|_].
  - destruct Hres as [[Tm _]|[Etab _]]; [specialize (Hpos s Hs); lia|]. exfalso. apply Nt. rewrite Etab, Est. reflexivity.
  - destruct (Z.eqb_spec (sid s) 0); [contradiction|reflexivity].
Qed.

(* what is copied after relocation is exactly the relocated holder's bytes (all flag combinations), nothing else is touched *)
Theorem relocated_copy_exact h tab calls base h2 red mem dst ps pt mem' :
  NoDup (map sid h) -> (forall s, In s h -> 0 <= sid s) -> Forall data_ok h -> disjoint_layout h ->
  relocate_holder h tab calls base = inl (h2, red) -> 0 <= dst <= Z.of_nat (length mem) ->
  copy_flat h2 mem dst ps pt = (EOk, mem') ->
  map soff h2 = map soff h /\ length mem' = length mem /\
  (forall c, dst <= c -> cell mem' c = cell mem c) /\
  (forall s, In s h2 -> forall k, 0 <= k < sbsize s -> cell mem' (soff s + k) = cell (sdata s) k) /\
  (forall s, In s h2 -> forall c, soff s + sbsize s <= c < wend ps dst s -> cell mem' c = 0) /\
  (pt = true -> forall c, ends ps dst h2 0 <= c < dst -> cell mem' c = 0) /\
  (forall c, 0 <= c -> (forall s, In s h2 -> ~ (soff s <= c < wend ps dst s)) -> (pt = false \/ c < ends ps dst h2 0) ->
             cell mem' c = cell mem c).
Proof.
  intros Hnd Hpos Hd Hdis E Hdst Ec.
  destruct (relocate_holder_ok h tab calls base h2 red Hnd Hpos Hd Hdis E) as [D2 [Dis2 [_ [Off _]]]].
  split; [assumption|]. apply copy_flat_exact; assumption.
Qed.

(* ------------------------------------------------------------------ JitRuntime::_add with relocations *)
Lemma flat_single_fill v n : flat [Fill v n] = repeat v (Z.to_nat n).
Proof. cbn [flat flat1]. apply app_nil_r. Qed.

Lemma cell_firstn l n c : 0 <= c < n -> cell (firstn (Z.to_nat n) l) c = cell l c.
Proof. intros H. unfold cell. apply nth_firstn_lt. lia. Qed.

(* the installed image: final size = estimate - reduction, and every byte of every section of the RELOCATED holder that lies
   inside the final size is installed at the section's (unchanged) offset; zero tails likewise *)
Theorem jit_add_reloc_image st calls base fill final img h2 :
  wf_holder (jh st) -> data_len_ok (jh st) ->
  (forall h1, flatten (jh st) = (EOk, h1) -> NoDup (map sid h1) /\ (forall s, In s h1 -> 0 <= sid s)) ->
  jit_add_reloc st calls base fill = (JOk, final, img, h2) ->
  exists h1 red, flatten (jh st) = (EOk, h1) /\ relocate_holder h1 (jtab st) calls base = inl (h2, red) /\
    final = code_size h1 - red /\ map soff h2 = map soff h1 /\
    (forall s, In s h2 -> forall k, 0 <= k < sbsize s -> soff s + k < final -> cell (flat img) (soff s + k) = cell (sdata s) k) /\
    (forall s, In s h2 -> forall c, soff s + sbsize s <= c < wend true (code_size h1) s -> c < final -> cell (flat img) c = 0).
Proof.
  intros Hwf Hdl Hid E. unfold jit_add_reloc in E. destruct (flatten (jh st)) as [er h1] eqn:Ef.
  destruct er; try discriminate. destruct (Z.eqb_spec (code_size h1) 0); [discriminate|].
  destruct (relocate_holder h1 (jtab st) calls base) as [[h2' red]|x] eqn:Er; [|discriminate].
  inversion E; subst final img h2'; clear E.
  exists h1, red. split; [reflexivity|]. split; [assumption|]. split; [reflexivity|].
  destruct (Hid h1 eq_refl) as [Hnd Hpos].
  destruct (final_copy_ready (jh st) h1 Hwf Hdl Ef) as [Hd Hdis].
  destruct (relocate_holder_ok h1 (jtab st) calls base h2 red Hnd Hpos Hd Hdis Er) as [D2 [Dis2 [Shr [Off _]]]].
  split; [assumption|].
  set (est := code_size h1) in *.
  assert (Hest : 0 <= est).
  { destruct (flatten_final (jh st) h1 Hwf Ef) as [Hwf1 Hlne Hend _ _ _ _ _ _]. unfold est. rewrite <- Hend. apply lend_ne_ge; assumption. }
  set (mem := repeat fill (Z.to_nat est)).
  assert (Hlen : Z.of_nat (length mem) = est) by (unfold mem; rewrite repeat_length; lia).
  assert (Hnn : Forall nonneg h2).
  { rewrite Forall_forall in *. intros s Hs. destruct (D2 s Hs) as [Hl [Ho _]]. unfold nonneg. lia. }
  pose proof (ChunkProofs.copy_flat_c_flat h2 [Fill fill est] est true false Hnn) as Hc. rewrite flat_single_fill in Hc. fold mem in Hc.
  (* nothing is refused: every section of the relocated holder still fits the estimate *)
  assert (Hfit : existsb (too_small est) h2 = false).
  { destruct (existsb (too_small est) h2) eqn:Ex; [|reflexivity]. apply existsb_exists in Ex. destruct Ex as [s2 [Hs2 T]].
    destruct (Forall2_in_r _ _ _ _ Shr Hs2) as [s [Hs [So [Sr _]]]].
    destruct (final_code_size_is_end (jh st) h1 Hwf Ef) as [_ [Hbnd _]]. destruct (Hbnd s Hs) as [H0 [H1 _]].
    rewrite Forall_forall in D2. destruct (D2 s2 Hs2) as [Hl [Ho Hv]].
    unfold too_small in T. apply orb_true_iff in T. unfold real_size in *. fold est in H1.
    destruct T as [T|T]; apply Z.ltb_lt in T; lia. }
  pose proof (copy_flat_err h2 mem est true false) as Herr. rewrite Hfit in Herr.
  destruct (copy_flat h2 mem est true false) as [er mem'] eqn:Ec. cbn [fst] in Herr. subst er.
  destruct (copy_flat_exact h2 mem est true false mem' D2 Dis2 ltac:(lia) Ec) as [HL [_ [HD [HZ _]]]].
  assert (Hm' : flat (snd (copy_flat_c h2 [Fill fill est] est true false)) = mem') by (inversion Hc; reflexivity).
  split.
  - intros s Hs k Hk Hlt. rewrite ChunkProofs.flat_ctake, Hm'.
    rewrite Forall_forall in D2. destruct (D2 s Hs) as [_ [Ho _]].
    rewrite cell_firstn by lia. apply HD; assumption.
  - intros c0 Hs c Hc0 Hlt. rewrite ChunkProofs.flat_ctake, Hm'.
    rewrite Forall_forall in D2. destruct (D2 c0 Hs) as [Hl0 [Ho _]].
    rewrite cell_firstn by lia. apply (HZ c0 Hs). assumption.
Qed.

(* ------------------------------------------------------------------ totality of the relocated image *)
Lemma Forall2_in_l {A} (R : A -> A -> Prop) l l' x : Forall2 R l l' -> In x l -> exists x', In x' l' /\ R x x'.
Proof.
  intros H. induction H; intros Hin; [contradiction|]. destruct Hin as [->|Hin]; [eexists; split; [left; reflexivity|assumption]|].
  destruct (IHForall2 Hin) as [z [? ?]]. exists z. split; [right; assumption|assumption].
Qed.

Lemma is_last_spec h t : is_last h t = true -> exists l1 s, h = l1 ++ [s] /\ sid s = t.
Proof.
  unfold is_last. destruct (rev h) as [|l r] eqn:Er; [discriminate|]. intros E. apply Z.eqb_eq in E.
  exists (rev r), l. split; [|assumption]. rewrite <- (rev_involutive h), Er. reflexivity.
Qed.

(* how relocation changes real sizes: nothing, except that a LAST address table gives its unused reservation back *)
Lemma relocate_holder_sizes h tab calls base h2 red :
  NoDup (map sid h) -> (forall s, In s h -> 0 <= sid s) ->
  (forall s, In s h -> Some (sid s) = tab -> sbsize s <= svsize s) ->
  relocate_holder h tab calls base = inl (h2, red) ->
  0 <= red /\
  Forall2 (fun s s2 => soff s2 = soff s /\
             (real_size s2 = real_size s \/ (red <> 0 /\ (exists l1, h = l1 ++ [s]) /\ real_size s2 = real_size s - red))) h h2.
Proof.
  intros Hnd Hpos Hbuf E. unfold relocate_holder in E.
  destruct (by_id h 0) as [text|] eqn:Et; [|discriminate].
  destruct (forallb (site_in_bounds text) calls) eqn:Eb; cbn [negb] in E; [|discriminate].
  set (es := map (site_entry h (soff text)) calls) in *.
  assert (Hsel : exists t atoff reserved last,
            (match tab with
             | Some t0 => match by_id h t0 with Some ts => (t0, soff ts, svsize ts, is_last h t0) | None => (-1, 0, 0, false) end
             | None => (-1, 0, 0, false) end) = (t, atoff, reserved, last) /\
            ((t = -1 /\ last = false) \/ (tab = Some t /\ exists ts, by_id h t = Some ts /\ reserved = svsize ts /\ last = is_last h t))).
  { destruct tab as [t0|]; [destruct (by_id h t0) as [ts|] eqn:Ets|]; do 4 eexists; (split; [reflexivity|]); eauto 10. }
  destruct Hsel as [t [atoff [reserved [last [Esel Hres]]]]]. rewrite Esel in E.
  destruct (relocate base REG_SIZE atoff reserved last es) as [r|x] eqn:Er; [|discriminate].
  destruct (Z.ltb_spec reserved (rr_table_size r)) as [|Hfit]; [discriminate|]. inversion E; subst h2 red; clear E.
  destruct (relocate_table _ _ _ _ _ _ _ Er) as [_ [Esize [Ered _]]]. unfold Labels.LabelsModel.zlen, REG_SIZE in Esize.
  assert (Hsize0 : 0 <= rr_table_size r) by lia.
  split; [rewrite Ered; destruct last; lia|].
  apply Forall2_map_in. intros s Hs. cbv beta.
  destruct (Z.eqb_spec (sid s) t) as [Est|Nst].
  - destruct Hres as [[Tm _]|[Etab [ts [Bts [Rts Lts]]]]]; [specialize (Hpos s Hs); lia|].
    assert (ts = s). { rewrite <- Est in Bts. rewrite (by_id_unique h s Hnd Hs) in Bts. congruence. } subst ts.
    assert (Hbs : sbsize s <= svsize s) by (apply Hbuf; [assumption|rewrite Etab, Est; reflexivity]).
    split; [reflexivity|]. rewrite Ered. unfold real_size, set_sizes. cbn [svsize sbsize]. destruct last eqn:El.
    + destruct (Z.eq_dec (reserved - rr_table_size r) 0) as [Z0|Zn]; [left; lia|right].
      split; [assumption|]. split; [|lia].
      symmetry in Lts. destruct (is_last_spec h t Lts) as [l1 [s' [Eh Es']]]. exists l1.
      assert (Hin' : In s' h) by (rewrite Eh; apply in_or_app; right; left; reflexivity).
      assert (s' = s).
      { pose proof (by_id_unique h s' Hnd Hin') as B1. pose proof (by_id_unique h s Hnd Hs) as B2. rewrite Es', <- Est in B1. congruence. }
      subst s'. assumption.
    + left. lia.
  - destruct (Z.eqb_spec (sid s) 0); (split; [reflexivity|left; reflexivity]).
Qed.

(* every cell below the final size (estimate - reduction) lies in the real-size range of a section of the relocated holder:
   together with relocated_copy_exact / jit_add_reloc_image no stale byte survives inside the installed image *)
Theorem relocated_image_total h0 h tab calls base h2 red :
  wf_holder h0 -> flatten h0 = (EOk, h) -> NoDup (map sid h) -> (forall s, In s h -> 0 <= sid s) ->
  (forall s, In s h -> Some (sid s) = tab -> sbsize s <= svsize s) ->
  relocate_holder h tab calls base = inl (h2, red) ->
  forall c, 0 <= c < code_size h - red -> exists s2, In s2 h2 /\ soff s2 <= c < soff s2 + real_size s2.
Proof.
  intros Hwf Ef Hnd Hpos Hbuf Er c Hc.
  destruct (relocate_holder_sizes h tab calls base h2 red Hnd Hpos Hbuf Er) as [Hr0 Hsz].
  destruct (final_image_total h0 h (code_size h) Hwf Ef ltac:(lia) c ltac:(lia)) as [s [Hin [Hr Ew]]]. rewrite Ew in Hr.
  destruct (Forall2_in_l _ _ _ _ Hsz Hin) as [s2 [Hin2 [Ho Hrs]]]. exists s2. split; [assumption|]. rewrite Ho.
  destruct Hrs as [->|[_ [[l1 El] ->]]]; [assumption|].
  destruct (final_code_size_is_end h0 h Hwf Ef) as [Hend _]. rewrite (Hend l1 s El) in Hc. lia.
Qed.

(* JitRuntime::_add's own copy loop on the RELOCATED holder installs what copy_flattened_data(kPadSectionBuffer) installs *)
Theorem relocated_jit_copy_agrees h0 h tab calls base h2 red mem m1 :
  reachable h0 -> data_len_ok h0 -> flatten h0 = (EOk, h) -> relocate_holder h tab calls base = inl (h2, red) ->
  code_size h <= Z.of_nat (length mem) ->
  copy_flat h2 mem (Z.of_nat (length mem)) true false = (EOk, m1) ->
  length (jit_copy h2 mem) = length m1 /\ forall c, 0 <= c -> cell (jit_copy h2 mem) c = cell m1 c.
Proof.
  intros R Hdl Ef Er Hest Ec.
  pose proof (r_flatten h0 h R Ef) as Rh. destruct (reachable_inv h0 R) as [_ [_ Hwf]].
  destruct (reachable_ids_unique h Rh) as [Hnd Hpos].
  destruct (final_copy_ready h0 h Hwf Hdl Ef) as [Hd Hdis].
  destruct (final_code_size_is_end h0 h Hwf Ef) as [_ [Hb _]].
  destruct (relocate_holder_ok h tab calls base h2 red Hnd Hpos Hd Hdis Er) as [D2 [Dis2 [Shr [_ [Eid _]]]]].
  assert (Hlen : length h2 = length h) by (rewrite <- (map_length sid h2), Eid, map_length; reflexivity).
  apply jit_copy_agrees_generic; try assumption.
  - rewrite Eid. assumption.
  - intros x Hx. assert (Hi : In (sid x) (map sid h)) by (rewrite <- Eid; apply in_map; assumption).
    apply in_map_iff in Hi. destruct Hi as [y [Ey Hy]]. rewrite <- Ey, Hlen.
    destruct (reachable_inv h Rh) as [_ [Hic _]].
    assert (In (sid y) (ids_upto (length h))) by (eapply Permutation.Permutation_in; [exact Hic|apply in_map; assumption]).
    apply in_ids_upto in H. assumption.
  - intros s2 Hs2. destruct (Forall2_in_r _ _ _ _ Shr Hs2) as [s [Hs [So [Sr _]]]]. destruct (Hb s Hs) as [_ [H1 _]]. lia.
Qed.

(* a conditional jump to an absolute address that is out of rel32 reach from the chosen base is refused (kRelocOffsetOutOfRange):
   there is no address-table fallback for it, and nothing is wrapped.  Stated for such a site in front of any other sites. *)
Theorem unreachable_jcc_refused h tab pos addr rest base text :
  by_id h 0 = Some text -> forallb (site_in_bounds text) (SRel pos addr :: rest) = true ->
  ~ (- 2 ^ 31 <= to_i64 (wrap 64 (addr - (base + (soff text + pos + CALL_LEN)))) < 2 ^ 31) ->
  relocate_holder h tab (SRel pos addr :: rest) base = inr ROutOfRange.
Proof.
  intros Et Eb Hr. unfold relocate_holder. rewrite Et, Eb. cbn [negb map].
  assert (He : forall atoff slots, relocate_entry base REG_SIZE atoff slots (site_entry h (soff text) (SRel pos addr)) = inr ROutOfRange).
  { intros atoff slots. apply rel_out_of_range_reported; [reflexivity|unfold REG_SIZE; lia|exact Hr]. }
  assert (Hrel : forall atoff reserved last, relocate base REG_SIZE atoff reserved last
                   (site_entry h (soff text) (SRel pos addr) :: map (site_entry h (soff text)) rest) = inr ROutOfRange).
  { intros atoff reserved last. unfold relocate. cbn [relocate_all]. rewrite He. reflexivity. }
  destruct tab as [t0|]; [destruct (by_id h t0) as [ts|]|]; rewrite Hrel; reflexivity.
Qed.

(* the same with the alignment (unchanged) recorded, for code_size *)
Lemma relocate_holder_sizes_al h tab calls base h2 red :
  NoDup (map sid h) -> (forall s, In s h -> 0 <= sid s) ->
  (forall s, In s h -> Some (sid s) = tab -> sbsize s <= svsize s) ->
  relocate_holder h tab calls base = inl (h2, red) ->
  0 <= red /\
  Forall2 (fun s s2 => soff s2 = soff s /\ salign s2 = salign s /\
             (real_size s2 = real_size s \/ (red <> 0 /\ (exists l1, h = l1 ++ [s]) /\ real_size s2 = real_size s - red))) h h2.
Proof.
  intros Hnd Hpos Hbuf E. unfold relocate_holder in E.
  destruct (by_id h 0) as [text|] eqn:Et; [|discriminate].
  destruct (forallb (site_in_bounds text) calls) eqn:Eb; cbn [negb] in E; [|discriminate].
  set (es := map (site_entry h (soff text)) calls) in *.
  assert (Hsel : exists t atoff reserved last,
            (match tab with
             | Some t0 => match by_id h t0 with Some ts => (t0, soff ts, svsize ts, is_last h t0) | None => (-1, 0, 0, false) end
             | None => (-1, 0, 0, false) end) = (t, atoff, reserved, last) /\
            ((t = -1 /\ last = false) \/ (tab = Some t /\ exists ts, by_id h t = Some ts /\ reserved = svsize ts /\ last = is_last h t))).
  { destruct tab as [t0|]; [destruct (by_id h t0) as [ts|] eqn:Ets|]; do 4 eexists; (split; [reflexivity|]); eauto 10. }
  destruct Hsel as [t [atoff [reserved [last [Esel Hres]]]]]. rewrite Esel in E.
  destruct (relocate base REG_SIZE atoff reserved last es) as [r|x] eqn:Er; [|discriminate].
  destruct (Z.ltb_spec reserved (rr_table_size r)) as [|Hfit]; [discriminate|]. inversion E; subst h2 red; clear E.
  destruct (relocate_table _ _ _ _ _ _ _ Er) as [_ [Esize [Ered _]]]. unfold Labels.LabelsModel.zlen, REG_SIZE in Esize.
  assert (Hsize0 : 0 <= rr_table_size r) by lia.
  split; [rewrite Ered; destruct last; lia|].
  apply Forall2_map_in. intros s Hs. cbv beta.
  destruct (Z.eqb_spec (sid s) t) as [Est|Nst].
  - destruct Hres as [[Tm _]|[Etab [ts [Bts [Rts Lts]]]]]; [specialize (Hpos s Hs); lia|].
    assert (ts = s). { rewrite <- Est in Bts. rewrite (by_id_unique h s Hnd Hs) in Bts. congruence. } subst ts.
    assert (Hbs : sbsize s <= svsize s) by (apply Hbuf; [assumption|rewrite Etab, Est; reflexivity]).
    split; [reflexivity|]. split; [reflexivity|]. rewrite Ered. unfold real_size, set_sizes. cbn [svsize sbsize]. destruct last eqn:El.
    + destruct (Z.eq_dec (reserved - rr_table_size r) 0) as [Z0|Zn]; [left; lia|right].
      split; [assumption|]. split; [|lia].
      symmetry in Lts. destruct (is_last_spec h t Lts) as [l1 [s' [Eh Es']]]. exists l1.
      assert (Hin' : In s' h) by (rewrite Eh; apply in_or_app; right; left; reflexivity).
      assert (s' = s).
      { pose proof (by_id_unique h s' Hnd Hin') as B1. pose proof (by_id_unique h s Hnd Hs) as B2. rewrite Es', <- Est in B1. congruence. }
      subst s'. assumption.
    + left. lia.
  - destruct (Z.eqb_spec (sid s) 0); (split; [reflexivity|split; [reflexivity|left; reflexivity]]).
Qed.

(* ------------------------------------------------------------------ code_size of the relocated holder *)
Lemma map_sizes_same (G : section -> section) l :
  (forall x, In x l -> real_size (G x) = real_size x /\ salign (G x) = salign x) ->
  Forall2 (fun a b => real_size b = real_size a /\ salign b = salign a) l (map G l).
Proof. intros H. apply Forall2_map_in. assumption. Qed.

(* JitRuntime::_add's ASSERT `estimated_code_size - code_size_reduction == code->code_size()` for the REAL relocated holder (all
   four site kinds, table last / not last / absent): the address table has no buffer before relocation (only a reservation) *)
Theorem relocated_code_size h0 h tab calls base h2 red :
  wf_holder h0 -> flatten h0 = (EOk, h) -> NoDup (map sid h) -> (forall s, In s h -> 0 <= sid s) ->
  (forall s, In s h -> Some (sid s) = tab -> sbsize s = 0) ->
  relocate_holder h tab calls base = inl (h2, red) ->
  0 <= red /\ code_size h2 = code_size h - red /\ code_size h2 <= code_size h.
Proof.
  intros Hwf Ef Hnd Hpos Hbuf E.
  destruct (flatten_final h0 h Hwf Ef) as [Hwf' Hlne _ Htight _ _ _ _ _].
  unfold relocate_holder in E.
  destruct (by_id h 0) as [text|] eqn:Et; [|discriminate].
  destruct (forallb (site_in_bounds text) calls) eqn:Eb; cbn [negb] in E; [|discriminate].
  set (es := map (site_entry h (soff text)) calls) in *.
  assert (Hsel : exists t atoff reserved last,
            (match tab with
             | Some t0 => match by_id h t0 with Some ts => (t0, soff ts, svsize ts, is_last h t0) | None => (-1, 0, 0, false) end
             | None => (-1, 0, 0, false) end) = (t, atoff, reserved, last) /\
            ((t = -1 /\ last = false) \/ (tab = Some t /\ exists ts, by_id h t = Some ts /\ reserved = svsize ts /\ last = is_last h t))).
  { destruct tab as [t0|]; [destruct (by_id h t0) as [ts|] eqn:Ets|]; do 4 eexists; (split; [reflexivity|]); eauto 10. }
  destruct Hsel as [t [atoff [reserved [last [Esel Hres]]]]]. rewrite Esel in E.
  destruct (relocate base REG_SIZE atoff reserved last es) as [r|x] eqn:Er; [|discriminate].
  destruct (Z.ltb_spec reserved (rr_table_size r)) as [|Hfit]; [discriminate|]. inversion E; subst h2 red; clear E.
  destruct (relocate_table _ _ _ _ _ _ _ Er) as [_ [Esize [Ered _]]]. unfold Labels.LabelsModel.zlen, REG_SIZE in Esize.
  assert (Hsize0 : 0 <= rr_table_size r) by lia.
  set (G := fun s : section => if sid s =? t then set_sizes s (rr_table_size r) (if last then rr_table_size r else svsize s) (table_bytes (rr_table r))
                               else if sid s =? 0 then set_data s (patch_all (sdata s) es (rr_outs r)) else s).
  (* a section that is not the table keeps size and alignment *)
  assert (Hother : forall x, In x h -> sid x <> t -> real_size (G x) = real_size x /\ salign (G x) = salign x).
  { intros x Hx Hn. unfold G. destruct (Z.eqb_spec (sid x) t); [contradiction|]. destruct (sid x =? 0); split; reflexivity. }
  (* the table, when it keeps its reservation *)
  assert (Htab_keep : last = false -> forall x, In x h -> sid x = t -> real_size (G x) = real_size x /\ salign (G x) = salign x).
  { intros Hl x Hx Ex. unfold G. rewrite Ex, Z.eqb_refl, Hl.
    destruct Hres as [[Tm _]|[Etab [ts [Bts [Rts _]]]]]; [specialize (Hpos x Hx); lia|].
    assert (ts = x). { rewrite <- Ex in Bts. rewrite (by_id_unique h x Hnd Hx) in Bts. congruence. } subst ts.
    assert (sbsize x = 0) by (apply Hbuf; [assumption|rewrite Etab, Ex; reflexivity]).
    rewrite Forall_forall in Hwf'. destruct (Hwf' x Hx) as [Hv _].
    split; [unfold real_size, set_sizes; cbn [svsize sbsize]; lia|reflexivity]. }
  fold G. destruct last eqn:El.
  - (* the table is the last section: it gives the unused reservation back *)
    rewrite Ered. destruct Hres as [[_ Hf]|[Etab [ts [Bts [Rts Lts]]]]]; [discriminate|].
    symmetry in Lts. destruct (is_last_spec h t Lts) as [l1 [s' [Eh Es']]].
    assert (Hin' : In s' h) by (rewrite Eh; apply in_or_app; right; left; reflexivity).
    assert (ts = s').
    { pose proof (by_id_unique h s' Hnd Hin') as B1. rewrite Es' in B1. congruence. } subst s'.
    assert (Hb0 : sbsize ts = 0) by (apply Hbuf; [assumption|rewrite Etab, Es'; reflexivity]).
    assert (Hids : forall x, In x l1 -> sid x <> sid ts).
    { intros x Hx Ex. rewrite Eh in Hnd. rewrite map_app in Hnd. cbn [map] in Hnd.
      apply NoDup_remove_2 in Hnd. apply Hnd. rewrite app_nil_r. rewrite <- Ex. apply in_map. assumption. }
    subst h.
    destruct (estimate_generic l1 ts (rr_table_size r) Hwf' Hlne Htight Hids Hsize0 ltac:(lia)) as [h'' [r' [Esh [Er' [Hr0 [Hcs Hle]]]]]].
    rewrite (shrink_last_app l1 ts (sid ts) (rr_table_size r) eq_refl Hids) in Esh. inversion Esh; subst h'' r'; clear Esh.
    assert (Hsame : code_size (map G (l1 ++ [ts])) = code_size (l1 ++ [set_sizes ts (rr_table_size r) (rr_table_size r) (firstn (Z.to_nat (rr_table_size r)) (sdata ts))])).
    { unfold code_size. rewrite (cs_walk_same_sizes true (l1 ++ [set_sizes ts (rr_table_size r) (rr_table_size r) (firstn (Z.to_nat (rr_table_size r)) (sdata ts))]) (map G (l1 ++ [ts]))); [reflexivity|].
      rewrite map_app. cbn [map]. apply Forall2_app.
      - apply map_sizes_same. intros x Hx. apply Hother; [apply in_or_app; left; assumption|]. rewrite <- Es'. apply Hids. assumption.
      - constructor; [|constructor]. unfold G. rewrite Es', Z.eqb_refl. split; reflexivity. }
    rewrite Hsame, Hcs, <- Rts. split; [lia|]. split; lia.
  - (* the table is not last (or there is none): nothing moves *)
    rewrite Ered. split; [lia|]. rewrite Z.sub_0_r.
    assert (Hsame : code_size (map G h) = code_size h).
    { unfold code_size. rewrite (cs_walk_same_sizes true h (map G h)); [reflexivity|]. apply map_sizes_same. intros x Hx.
      destruct (Z.eq_dec (sid x) t) as [Ex|Nx]; [apply Htab_keep; auto|apply Hother; assumption]. }
    rewrite Hsame. split; [reflexivity|lia].
Qed.

(* ------------------------------------------------------------------ hypotheses discharged for holders the API can produce *)
Lemma flattened_reachable_ready h0 h : reachable h0 -> data_len_ok h0 -> flatten h0 = (EOk, h) ->
  wf_holder h0 /\ NoDup (map sid h) /\ (forall s, In s h -> 0 <= sid s) /\ Forall data_ok h /\ disjoint_layout h.
Proof.
  intros R Hdl Ef. destruct (reachable_inv h0 R) as [_ [_ Hwf]]. destruct (reachable_ids_unique h (r_flatten h0 h R Ef)) as [Hnd Hpos].
  destruct (final_copy_ready h0 h Hwf Hdl Ef) as [Hd Hdis]. auto.
Qed.

(* relocation of a flattened holder the API can produce, all in one: nothing but reachability, well-sized buffers and "the address
   table has no buffer yet" is assumed *)
Theorem relocated_reachable h0 h tab calls base h2 red :
  reachable h0 -> data_len_ok h0 -> flatten h0 = (EOk, h) ->
  (forall s, In s h -> Some (sid s) = tab -> sbsize s = 0) ->
  relocate_holder h tab calls base = inl (h2, red) ->
  (* layout: offsets, ids untouched; still collision-free; buffers well-sized; only .text and the table change *)
  map soff h2 = map soff h /\ map sid h2 = map sid h /\ Forall data_ok h2 /\ disjoint_layout h2 /\
  (forall s s2, In s h -> In s2 h2 -> sid s2 = sid s -> sid s <> 0 -> Some (sid s) <> tab -> s2 = s) /\
  (* sizes: the reduction is what code_size loses *)
  0 <= red /\ code_size h2 = code_size h - red /\
  (* totality: every cell below the final size belongs to a section of the relocated holder *)
  (forall c, 0 <= c < code_size h2 -> exists s2, In s2 h2 /\ soff s2 <= c < soff s2 + real_size s2).
Proof.
  intros R Hdl Ef Hbuf Er. destruct (flattened_reachable_ready h0 h R Hdl Ef) as [Hwf [Hnd [Hpos [Hd Hdis]]]].
  destruct (relocate_holder_ok h tab calls base h2 red Hnd Hpos Hd Hdis Er) as [D2 [Dis2 [_ [Off [Ids Hsame]]]]].
  destruct (relocated_code_size h0 h tab calls base h2 red Hwf Ef Hnd Hpos Hbuf Er) as [Hr0 [Hcs _]].
  repeat (split; [assumption|]). rewrite Hcs.
  apply (relocated_image_total h0 h tab calls base h2 red Hwf Ef Hnd Hpos); [|assumption].
  intros s Hs Ht. rewrite (Hbuf s Hs Ht). rewrite Forall_forall in Hd. destruct (Hd s Hs) as [_ [_ Hv]]. lia.
Qed.

(* JitRuntime::_add with relocations on a holder the API can produce: the id premise of jit_add_reloc_image is discharged *)
Theorem jit_add_reloc_image_reachable st calls base fill final img h2 :
  reachable (jh st) -> data_len_ok (jh st) ->
  jit_add_reloc st calls base fill = (JOk, final, img, h2) ->
  exists h1 red, flatten (jh st) = (EOk, h1) /\ relocate_holder h1 (jtab st) calls base = inl (h2, red) /\
    final = code_size h1 - red /\ map soff h2 = map soff h1 /\
    (forall s, In s h2 -> forall k, 0 <= k < sbsize s -> soff s + k < final -> cell (flat img) (soff s + k) = cell (sdata s) k) /\
    (forall s, In s h2 -> forall c, soff s + sbsize s <= c < wend true (code_size h1) s -> c < final -> cell (flat img) c = 0).
Proof.
  intros R Hdl E. destruct (reachable_inv (jh st) R) as [_ [_ Hwf]].
  apply (jit_add_reloc_image st calls base fill final img h2 Hwf Hdl); [|assumption].
  intros h1 Ef. apply (reachable_ids_unique h1 (r_flatten (jh st) h1 R Ef)).
Qed.

(* non-vacuity of relocated_reachable: a holder built through the API steps (new_section for the table, size updates), one far call *)
Definition ex_rr : holder :=
  update_id (update_id (snd (new_section init_holder addrtab_name 8 INT_MAX)) 0 (fun s => set_sizes s 6 0 CALL_BYTES))
            1 (fun s => set_sizes s 0 8 []).

Example relocated_reachable_example : exists h h2,
  reachable ex_rr /\ data_len_ok ex_rr /\ flatten ex_rr = (EOk, h) /\
  (forall s, In s h -> Some (sid s) = Some 1 -> sbsize s = 0) /\
  relocate_holder h (Some 1) [SCall 0 1311768467463790320] 4194304 = inl (h2, 0) /\ code_size h2 = 16 /\
  map sdata h2 = [[255; 21; 2; 0; 0; 0]; [240; 222; 188; 154; 120; 86; 52; 18]].
Proof.
  eexists. eexists. split; [|split; [|split; [vm_compute; reflexivity|]]].
  - unfold ex_rr. apply r_update; [apply r_update|].
    + apply (r_new init_holder addrtab_name 8 INT_MAX); [apply r_init|lia|unfold INT_MIN, INT_MAX; lia|vm_compute; reflexivity].
    + intros s. cbn. pose proof W64_pos. repeat split; try lia; try (vm_compute; reflexivity).
    + intros s. cbn. pose proof W64_pos. repeat split; try lia; try (vm_compute; reflexivity).
  - unfold data_len_ok. vm_compute. repeat constructor.
  - split; [|split; [vm_compute; reflexivity|split; vm_compute; reflexivity]].
    intros s Hin Hs. cbn in Hin. destruct Hin as [<-|[<-|[]]]; [vm_compute in Hs; discriminate|reflexivity].
Qed.

(* relocated_copy_exact with its side conditions discharged from reachability *)
Theorem relocated_copy_exact_reachable h0 h tab calls base h2 red mem dst ps pt mem' :
  reachable h0 -> data_len_ok h0 -> flatten h0 = (EOk, h) ->
  relocate_holder h tab calls base = inl (h2, red) -> 0 <= dst <= Z.of_nat (length mem) ->
  copy_flat h2 mem dst ps pt = (EOk, mem') ->
  map soff h2 = map soff h /\ length mem' = length mem /\
  (forall c, dst <= c -> cell mem' c = cell mem c) /\
  (forall s, In s h2 -> forall k, 0 <= k < sbsize s -> cell mem' (soff s + k) = cell (sdata s) k) /\
  (forall s, In s h2 -> forall c, soff s + sbsize s <= c < wend ps dst s -> cell mem' c = 0) /\
  (pt = true -> forall c, ends ps dst h2 0 <= c < dst -> cell mem' c = 0) /\
  (forall c, 0 <= c -> (forall s, In s h2 -> ~ (soff s <= c < wend ps dst s)) -> (pt = false \/ c < ends ps dst h2 0) ->
             cell mem' c = cell mem c).
Proof.
  intros R Hdl Ef. destruct (flattened_reachable_ready h0 h R Hdl Ef) as [_ [Hnd [Hpos [Hd Hdis]]]].
  apply relocated_copy_exact; assumption.
Qed.

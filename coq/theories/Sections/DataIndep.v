(* C10 — the layout depends only on sizes, alignments, orders and ids: the bytes held in the section buffers are irrelevant to
   flatten() and code_size() (round 8; the analogue of layout_independent_of_names for CodeBuffer contents). *)
From Coq Require Import ZArith List Bool Lia.
From Verif Require Import Sections.SectionModel Sections.SectionProofs Sections.SectionTable.
Import ListNotations.
Local Open Scope Z_scope.

(* replace the buffer bytes, keeping CodeBuffer::_size *)
Definition redata (g : list Z -> list Z) (s : section) : section :=
  mkSection (sid s) (sorder s) (salign s) (soff s) (svsize s) (sbsize s) (g (sdata s)) (sname s).

Lemma pass1_redata g l : forall off, pass1 off (map (redata g) l) = pass1 off l.
Proof. induction l as [|s t IH]; intros off; cbn [map pass1]; [reflexivity|]. change (real_size (redata g s)) with (real_size s).
  change (salign (redata g s)) with (salign s). rewrite !IH. reflexivity. Qed.

Lemma assign_redata g l : forall off, assign off (map (redata g) l) = map (redata g) (assign off l).
Proof. induction l as [|s t IH]; intros off; cbn [map assign]; [reflexivity|]. change (real_size (redata g s)) with (real_size s).
  change (salign (redata g s)) with (salign s). rewrite IH. reflexivity. Qed.

Lemma extend_redata g l : extend (map (redata g) l) = (map (redata g) (fst (extend l)), snd (extend l)).
Proof.
  induction l as [|s t IH]; cbn [map extend]; [reflexivity|]. rewrite IH. destruct (extend t) as [t' tgt]. cbn [fst snd].
  change (real_size (redata g s)) with (real_size s). destruct (real_size s =? 0); reflexivity.
Qed.

Lemma cs_walk_redata g c l : forall off ovf, cs_walk c off ovf (map (redata g) l) = cs_walk c off ovf l.
Proof. induction l as [|s t IH]; intros off ovf; cbn [map cs_walk]; [reflexivity|]. change (real_size (redata g s)) with (real_size s).
  change (salign (redata g s)) with (salign s). rewrite !IH. reflexivity. Qed.

Lemma run_end_redata g l : forall off, run_end off (map (redata g) l) = run_end off l.
Proof. induction l as [|s t IH]; intros off; cbn [map run_end]; [reflexivity|]. apply IH. Qed.

Lemma settle_redata g l e : settle (map (redata g) l) e = (map (redata g) (fst (settle l e)), snd (settle l e)).
Proof.
  induction l as [|s t IH]; cbn [map settle]; [reflexivity|]. rewrite IH. destruct (settle t e) as [t' nxt]. cbn [fst snd].
  change (real_size (redata g s)) with (real_size s). destruct (real_size s =? 0); reflexivity.
Qed.

Lemma layout_independent_of_data g h :
  flatten (map (redata g) h) = (fst (flatten h), map (redata g) (snd (flatten h))) /\
  code_size (map (redata g) h) = code_size h.
Proof.
  split.
  - unfold flatten. rewrite pass1_redata. destruct (pass1 0 h); cbn [fst snd]; [|reflexivity].
    rewrite assign_redata, extend_redata, run_end_redata. cbn [fst]. rewrite settle_redata. reflexivity.
  - unfold code_size. rewrite cs_walk_redata. reflexivity.
Qed.

Example layout_independent_of_data_example :
  let h := [mkSection 0 0 0 0 0 3 [1; 2; 3] []; mkSection 1 0 16 0 0 2 [9; 9] []] in
  map soff (snd (flatten h)) = [0; 16] /\ map soff (snd (flatten (map (redata (map (fun _ => 0))) h))) = [0; 16].
Proof. vm_compute. split; reflexivity. Qed.

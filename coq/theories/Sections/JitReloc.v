(* C10 x C04 — relocation applied to the section holder: the x86-64 `call <absolute>` sites the correspondence scenarios emit
   into .text are relocated by C04's model (Verif.Reloc.RelocModel.relocate), the patches are written into the section
   bytes, the used slots become the address table's buffer, and the result is copied / installed by the C10 functions.
   No proofs in this file. *)
From Coq Require Import ZArith List Bool.
From Verif Require Import Codec.OffsetModel Reloc.RelocModel Sections.SectionModel Sections.ChunkModel.
Import ListNotations.
Local Open Scope Z_scope.

Fixpoint le_bytes (n : nat) (w : Z) : list Z :=
  match n with O => [] | S k => (w mod 256) :: le_bytes k (w / 256) end.

(* a `call abs` emitted by the x86-64 assembler at .text offset pos: 40 E8 00 00 00 00 + RelocType::kX64AddressEntry *)
Definition CALL_BYTES : list Z := [64; 232; 0; 0; 0; 0].
Definition CALL_LEN : Z := 6.

(* the relocation sites the scenarios create in .text *)
Inductive site :=
| SCall (pos addr : Z)            (* `call abs` at .text offset pos: RelocType::kX64AddressEntry, payload = the absolute target *)
| SAbs (pos target loff : Z)      (* embed_label: 8 bytes at pos, RelocType::kRelToAbs, payload = the label's offset loff inside section `target` *)
| SExpr (pos t1 o1 t2 o2 size : Z)
| SRel (pos addr : Z).            (* `jz abs` (0F 84 rel32) at pos: RelocType::kAbsToRel, rel32 = target - (base + next); no address-table fallback *)   (* embed_label_delta across sections: RelocType::kExpression, (section t1 + o1) - (section t2 + o2) as a size-byte value *)

Definition ABS_LEN : Z := 8.
Definition site_pos (c : site) : Z := match c with SCall p _ => p | SAbs p _ _ => p | SExpr p _ _ _ _ _ => p | SRel p _ => p end.
Definition site_len (c : site) : Z := match c with SCall _ _ => CALL_LEN | SAbs _ _ _ => ABS_LEN | SExpr _ _ _ _ _ n => n | SRel _ _ => CALL_LEN end.

Definition site_entry (h : holder) (text_off : Z) (c : site) : rentry :=
  match c with
  | SCall pos addr =>
    {| e_kind := RAddrEntry 232; e_secoff := text_off; e_off := pos; e_lead := 2; e_region := CALL_LEN;
       e_fmt := sfmt 4; e_payload := addr; e_old := 0 |}
  | SAbs pos target loff =>
    {| e_kind := RRelToAbs (match by_id h target with Some ts => Some (soff ts) | None => None end);
       e_secoff := text_off; e_off := pos; e_lead := 0; e_region := ABS_LEN;
       e_fmt := ufmt 8; e_payload := loff; e_old := 0 |}
  | SExpr pos t1 o1 t2 o2 n =>
    let lp t o := match by_id h t with Some ts => Some (soff ts + o) | None => None end in
    {| e_kind := RExpr (lp t1 o1) (lp t2 o2); e_secoff := text_off; e_off := pos; e_lead := 0; e_region := n;
       e_fmt := sfmt n; e_payload := 0; e_old := 0 |}
  | SRel pos addr =>
    {| e_kind := RAbsToRel; e_secoff := text_off; e_off := pos; e_lead := 2; e_region := CALL_LEN;
       e_fmt := sfmt 4; e_payload := addr; e_old := 0 |}
  end.

(* what relocate_to_base writes for one entry: the value word (little endian) and, for an address-table call, the two
   bytes in front of it (such an entry is refused unless two bytes exist in front of the value) *)
Definition patch_site (data : list Z) (e : rentry) (o : rout) : list Z :=
  let d1 := write_at data (e_off e + e_lead e) (le_bytes (Z.to_nat (vsize (e_fmt e))) (o_word o)) in
  match o_rewrite o with
  | Some (b0, b1) => if 2 <=? e_off e + e_lead e then write_at d1 (e_off e + e_lead e - 2) [b0; b1] else d1
  | None => d1
  end.

Fixpoint patch_all (data : list Z) (es : list rentry) (os : list rout) : list Z :=
  match es, os with
  | e :: et, o :: ot => patch_all (patch_site data e o) et ot
  | _, _ => data
  end.

Definition table_bytes (slots : list Z) : list Z := flat_map (le_bytes 8) slots.

Definition set_data (s : section) (d : list Z) : section := set_sizes s (sbsize s) (svsize s) d.

Definition is_last (h : holder) (id : Z) : bool :=
  match rev h with l :: _ => sid l =? id | [] => false end.

(* `RelocEntry` bounds check of relocate_to_base: source_offset < buffer_size and buffer_size - source_offset >= region_size *)
Definition site_in_bounds (text : section) (c : site) : bool :=
  (0 <=? site_pos c) && (site_pos c <? sbsize text) && (site_len c <=? sbsize text - site_pos c) && (0 <=? site_len c).

(* relocate_to_base(base) on a flattened holder whose relocations are the call sites `calls` = [(pos, target)] of .text
   (section 0); tab = id of the address table if one was created.  Effect on the sections: the bytes of .text are patched,
   the table's buffer becomes the used slots (little-endian 8-byte targets), its virtual size shrinks to the same value iff it is
   the last section in order; nothing else changes.  Answers the holder and RelocationSummary::code_size_reduction.
   Guards: an out-of-bounds site is kInvalidRelocEntry (as in the code); more used slots than reserved ones is the code's
   ASMJIT_ASSERT(reserved_size >= address_table_size), modelled as a refusal. *)
Definition relocate_holder (h : holder) (tab : option Z) (calls : list site) (base : Z) : (holder * Z) + rerr :=
  match by_id h 0 with
  | None => inr RInvalidEntry
  | Some text =>
    if negb (forallb (site_in_bounds text) calls) then inr RInvalidEntry else
    let es := map (site_entry h (soff text)) calls in
    let '(t, atoff, reserved, last) :=
      match tab with
      | Some t => match by_id h t with Some ts => (t, soff ts, svsize ts, is_last h t) | None => (-1, 0, 0, false) end
      | None => (-1, 0, 0, false)
      end in
    match relocate base REG_SIZE atoff reserved last es with
    | inr x => inr x
    | inl r =>
      if reserved <? rr_table_size r then inr RInvalidEntry else
      inl (map (fun s =>
                  if sid s =? t then set_sizes s (rr_table_size r) (if last then rr_table_size r else svsize s) (table_bytes (rr_table r))
                  else if sid s =? 0 then set_data s (patch_all (sdata s) es (rr_outs r))
                  else s) h,
           rr_reduction r)
    end
  end.

(* the emitter side with bytes: `call abs` appended to .text, one table slot reserved per distinct target *)
Definition emit_call_bytes (st : jstate) (a : Z) : jstate :=
  let st1 := add_address st a in
  mkJ (update_id (jh st1) 0 (fun s => set_sizes s (sbsize s + CALL_LEN) (svsize s) (sdata s ++ CALL_BYTES))) (jtab st1) (jaddrs st1).

(* embed_label into .text: 8 zero bytes, patched by relocation *)
Definition JZ_BYTES : list Z := [15; 132; 0; 0; 0; 0].
Definition emit_code_bytes (st : jstate) (bytes : list Z) : jstate :=
  mkJ (update_id (jh st) 0 (fun s => set_sizes s (sbsize s + Z.of_nat (length bytes)) (svsize s) (sdata s ++ bytes))) (jtab st) (jaddrs st).
Definition emit_zero_bytes (st : jstate) (n : Z) : jstate :=
  mkJ (update_id (jh st) 0 (fun s => set_sizes s (sbsize s + n) (svsize s) (sdata s ++ zeros n))) (jtab st) (jaddrs st).
Definition emit_abs_bytes (st : jstate) : jstate := emit_zero_bytes st ABS_LEN.

(* JitRuntime::_add with these relocations: flatten, estimate, relocate to `base`, copy every section and zero-fill to its
   virtual size into the (estimate-sized) span, shrink to estimate - reduction. Answers: error, final size, image. *)
Inductive jerr := JOk | JLayout (e : err) | JReloc (e : rerr).

Definition jit_add_reloc (st : jstate) (calls : list site) (base fill : Z) : jerr * Z * cmem * holder :=
  match flatten (jh st) with
  | (EOk, h1) =>
    let est := code_size h1 in
    if est =? 0 then (JLayout ENoCodeGenerated, 0, [], h1)
    else match relocate_holder h1 (jtab st) calls base with
         | inr x => (JReloc x, 0, [], h1)
         | inl (h2, red) =>
           let final := est - red in
           (JOk, final, ctake final (snd (copy_flat_c h2 [Fill fill est] est true false)), h2)
         end
  | (e, h1) => (JLayout e, 0, [], h1)
  end.

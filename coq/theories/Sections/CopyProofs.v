(* C10 — proofs about copy_flattened_data / copy_section_data (model: copy_flat / copy_section). *)
From Coq Require Import ZArith List Bool Lia.
From Verif Require Import Sections.SectionModel Sections.SectionProofs.
Import ListNotations.
Local Open Scope Z_scope.

(* ------------------------------------------------------------------ memory cells *)
Definition cell (mem : list Z) (c : Z) : Z := nth (Z.to_nat c) mem 0.

Lemma nth_firstn_lt {A} (l : list A) : forall n i d, (i < n)%nat -> nth i (firstn n l) d = nth i l d.
Proof.
  induction l as [|a t IH]; intros n i d H; destruct n; try lia; cbn [firstn]; [destruct i; reflexivity|].
  destruct i; cbn [nth]; [reflexivity|]. apply IH. lia.
Qed.

Lemma nth_skipn_add {A} (l : list A) : forall n i d, nth i (skipn n l) d = nth (n + i) l d.
Proof.
  induction l as [|a t IH]; intros n i d; destruct n; cbn [skipn Nat.add]; try reflexivity.
  - destruct i; reflexivity.
  - cbn [nth]. apply IH.
Qed.

Lemma write_at_length mem off data : 0 <= off -> off + Z.of_nat (length data) <= Z.of_nat (length mem) ->
  length (write_at mem off data) = length mem.
Proof.
  intros H0 H1. unfold write_at. rewrite !app_length, firstn_length, skipn_length. lia.
Qed.

Lemma write_at_cell mem off data c : 0 <= off -> off + Z.of_nat (length data) <= Z.of_nat (length mem) -> 0 <= c ->
  cell (write_at mem off data) c =
  if (off <=? c) && (c <? off + Z.of_nat (length data)) then cell data (c - off) else cell mem c.
Proof.
  intros H0 H1 Hc. unfold cell, write_at.
  assert (Hf : length (firstn (Z.to_nat off) mem) = Z.to_nat off) by (rewrite firstn_length; lia).
  destruct (Z.leb_spec off c) as [Hle|Hlt]; cbn [andb].
  - rewrite app_nth2 by lia. rewrite Hf.
    destruct (Z.ltb_spec c (off + Z.of_nat (length data))) as [Hin|Hout].
    + rewrite app_nth1 by lia. f_equal. lia.
    + rewrite app_nth2 by lia. rewrite nth_skipn_add. f_equal. lia.
  - rewrite app_nth1 by lia. apply nth_firstn_lt. lia.
Qed.

Lemma zeros_length n : 0 <= n -> Z.of_nat (length (zeros n)) = n.
Proof. intros H. unfold zeros. rewrite repeat_length. lia. Qed.

Lemma zeros_cell n k : cell (zeros n) k = 0.
Proof.
  unfold cell, zeros. destruct (Nat.lt_ge_cases (Z.to_nat k) (Z.to_nat n)).
  - apply nth_repeat.
  - apply nth_overflow. rewrite repeat_length. lia.
Qed.

(* ------------------------------------------------------------------ refusal *)
Definition too_small (dst : Z) (s : section) : bool := (dst <? soff s) || (dst - soff s <? sbsize s).

Lemma copy_loop_err l : forall mem dst ps e,
  fst (fst (copy_loop l mem dst ps e)) = if existsb (too_small dst) l then EInvalidArgument else EOk.
Proof.
  induction l as [|s t IH]; intros mem dst ps e; cbn [copy_loop existsb]; [reflexivity|]. unfold too_small at 1.
  destruct (dst <? soff s); cbn [orb]; [reflexivity|]. destruct (dst - soff s <? sbsize s); cbn [orb]; [reflexivity|]. apply IH.
Qed.

Lemma copy_flat_err l mem dst ps pt :
  fst (copy_flat l mem dst ps pt) = if existsb (too_small dst) l then EInvalidArgument else EOk.
Proof.
  unfold copy_flat. pose proof (copy_loop_err l mem dst ps 0) as H.
  destruct (copy_loop l mem dst ps 0) as [[er m] e]. cbn [fst] in H. subst er.
  destruct (existsb (too_small dst) l); [reflexivity|]. destruct ((e <? dst) && pt); reflexivity.
Qed.

(* ------------------------------------------------------------------ what one section writes *)
Definition pad_len (ps : bool) (dst : Z) (s : section) : Z :=
  if ps && (sbsize s <? svsize s) then Z.min (dst - soff s) (svsize s) - sbsize s else 0.

(* end of the region written for s: [soff s, wend s) *)
Definition wend (ps : bool) (dst : Z) (s : section) : Z := soff s + sbsize s + pad_len ps dst s.

Definition data_ok (s : section) : Prop :=
  Z.of_nat (length (sdata s)) = sbsize s /\ 0 <= soff s /\ 0 <= svsize s.

Lemma pad_len_range ps dst s : dst - soff s >= sbsize s -> 0 <= sbsize s -> 0 <= pad_len ps dst s /\ wend ps dst s <= dst /\
  wend ps dst s <= soff s + real_size s.
Proof.
  intros H Hb. unfold wend, pad_len, real_size. destruct ps; cbn [andb]; [|lia].
  destruct (Z.ltb_spec (sbsize s) (svsize s)); lia.
Qed.

Definition ends (ps : bool) (dst : Z) (l : list section) (e : Z) : Z := fold_left (fun a s => Z.max a (wend ps dst s)) l e.

Lemma ends_ge ps dst l : forall e, e <= ends ps dst l e /\ (forall s, In s l -> wend ps dst s <= ends ps dst l e).
Proof.
  induction l as [|a t IH]; intros e; cbn [ends fold_left]; [split; [lia|contradiction]|].
  destruct (IH (Z.max e (wend ps dst a))) as [I1 I2]. fold (ends ps dst t (Z.max e (wend ps dst a))) in *.
  split; [lia|]. intros x [<- | Hin]; [lia|auto].
Qed.

Lemma ends_le ps dst l : forall e b, e <= b -> (forall s, In s l -> wend ps dst s <= b) -> ends ps dst l e <= b.
Proof.
  induction l as [|a t IH]; intros e b He Hall; cbn [ends fold_left]; [assumption|].
  apply IH; [|intros; apply Hall; right; assumption]. pose proof (Hall a (or_introl eq_refl)). lia.
Qed.

(* two sections in by-order sequence do not collide: the later one is empty or starts behind the earlier one's real size *)
Definition apart (a b : section) : Prop := real_size b = 0 \/ soff a + real_size a <= soff b.
Definition disjoint_layout (l : list section) : Prop := ForallOrdPairs apart l.

(* the loop, cell by cell *)
Lemma copy_loop_cells l : forall mem dst ps e mem' e',
  Forall data_ok l -> 0 <= e <= dst -> dst <= Z.of_nat (length mem) ->
  copy_loop l mem dst ps e = (EOk, mem', e') ->
  length mem' = length mem /\ e' = ends ps dst l e /\ e' <= dst /\
  (forall c, 0 <= c -> (forall s, In s l -> ~ (soff s <= c < wend ps dst s)) -> cell mem' c = cell mem c) /\
  (disjoint_layout l -> forall s, In s l ->
     (forall k, 0 <= k < sbsize s -> cell mem' (soff s + k) = cell (sdata s) k) /\
     (forall c, soff s + sbsize s <= c < wend ps dst s -> cell mem' c = 0)).
Proof.
  induction l as [|s t IH]; intros mem dst ps e mem' e' Hd He Hm E; cbn [copy_loop] in E.
  - inversion E; subst. cbn [ends fold_left]. split; [reflexivity|]. split; [reflexivity|]. split; [lia|].
    split; [intros; reflexivity|]. intros _ x [].
  - inversion Hd as [|? ? [Hlen [Hoff Hv]] Hdt]; subst.
    destruct (Z.ltb_spec dst (soff s)) as [|Hs1]; [discriminate|].
    destruct (Z.ltb_spec (dst - soff s) (sbsize s)) as [|Hs2]; [discriminate|].
    assert (Hb : 0 <= sbsize s) by lia.
    destruct (pad_len_range ps dst s ltac:(lia) Hb) as [Hp0 [Hwd Hwr]].
    fold (pad_len ps dst s) in E.
    set (mem1 := write_at mem (soff s) (sdata s)) in *.
    set (mem2 := write_at mem1 (soff s + sbsize s) (zeros (pad_len ps dst s))) in *.
    assert (L1 : length mem1 = length mem) by (apply write_at_length; lia).
    assert (L2 : length mem2 = length mem).
    { unfold mem2. rewrite write_at_length; [assumption|lia|]. rewrite zeros_length by lia. unfold wend in Hwd. lia. }
    assert (C1 : forall c, 0 <= c -> cell mem1 c = if (soff s <=? c) && (c <? soff s + sbsize s) then cell (sdata s) (c - soff s) else cell mem c).
    { intros c Hc. unfold mem1. rewrite write_at_cell by lia. rewrite Hlen. reflexivity. }
    assert (C2 : forall c, 0 <= c -> cell mem2 c =
              if (soff s + sbsize s <=? c) && (c <? wend ps dst s) then 0 else cell mem1 c).
    { intros c Hc. unfold mem2. rewrite write_at_cell; [|lia| |lia].
      - rewrite zeros_length by lia. unfold wend. rewrite zeros_cell. reflexivity.
      - rewrite zeros_length by lia. unfold wend in Hwd. lia. }
    replace (soff s + sbsize s + pad_len ps dst s) with (wend ps dst s) in E by reflexivity.
    specialize (IH mem2 dst ps (Z.max e (wend ps dst s)) mem' e' Hdt ltac:(lia) ltac:(lia) E).
    destruct IH as [IL [IE [IB [IU ID]]]].
    split; [lia|]. split; [exact IE|]. split; [assumption|]. split.
    + intros c Hc Hout. rewrite IU; [|assumption|intros x Hx; apply Hout; right; assumption].
      pose proof (Hout s (or_introl eq_refl)) as Hs. unfold wend in Hs.
      rewrite C2, C1 by assumption. unfold wend.
      destruct (Z.leb_spec (soff s + sbsize s) c); destruct (Z.ltb_spec c (soff s + sbsize s + pad_len ps dst s));
        destruct (Z.leb_spec (soff s) c); destruct (Z.ltb_spec c (soff s + sbsize s)); cbn [andb]; try reflexivity; lia.
    + intros Hdis x [<- | Hx].
      * (* the head section: nothing later touches its region *)
        inversion Hdis as [|? ? Hap Hdt']; subst.
        assert (Hlater : forall c, soff s <= c < wend ps dst s -> forall y, In y t -> ~ (soff y <= c < wend ps dst y)).
        { intros c Hc y Hy. rewrite Forall_forall in Hap. destruct (Hap y Hy) as [Hz | Hfar].
          - rewrite Forall_forall in Hdt. destruct (Hdt y Hy) as [Hly [Hoy Hvy]].
            unfold wend, pad_len, real_size in *. destruct ps; cbn [andb]; [destruct (Z.ltb_spec (sbsize y) (svsize y))|]; lia.
          - lia. }
        split.
        -- intros k Hk. rewrite IU; [|lia|apply Hlater; unfold wend; lia].
           rewrite C2, C1 by lia.
           destruct (Z.leb_spec (soff s + sbsize s) (soff s + k)); cbn [andb]; [lia|].
           destruct (Z.leb_spec (soff s) (soff s + k)); [|lia]. destruct (Z.ltb_spec (soff s + k) (soff s + sbsize s)); [|lia].
           cbn [andb]. f_equal. lia.
        -- intros c Hc. rewrite IU; [|lia|apply Hlater; unfold wend in *; lia].
           rewrite C2 by lia. destruct (Z.leb_spec (soff s + sbsize s) c); [|lia]. destruct (Z.ltb_spec c (wend ps dst s)); [|lia].
           reflexivity.
      * inversion Hdis; subst. apply ID; assumption.
Qed.

(* whatever happens (success or refusal half way), nothing outside [0, dst_size) is written *)
Lemma copy_loop_bounds l : forall mem dst ps e,
  Forall data_ok l -> 0 <= e <= dst -> dst <= Z.of_nat (length mem) ->
  length (snd (fst (copy_loop l mem dst ps e))) = length mem /\
  e <= snd (copy_loop l mem dst ps e) <= dst /\
  (forall c, dst <= c -> cell (snd (fst (copy_loop l mem dst ps e))) c = cell mem c).
Proof.
  induction l as [|s t IH]; intros mem dst ps e Hd He Hm; cbn [copy_loop].
  - cbn [fst snd]. repeat split; try lia.
  - inversion Hd as [|? ? [Hlen [Hoff Hv]] Hdt]; subst.
    destruct (Z.ltb_spec dst (soff s)) as [|Hs1]; [cbn [fst snd]; repeat split; lia|].
    destruct (Z.ltb_spec (dst - soff s) (sbsize s)) as [|Hs2]; [cbn [fst snd]; repeat split; lia|].
    assert (Hb : 0 <= sbsize s) by lia.
    destruct (pad_len_range ps dst s ltac:(lia) Hb) as [Hp0 [Hwd Hwr]].
    fold (pad_len ps dst s).
    set (mem1 := write_at mem (soff s) (sdata s)).
    set (mem2 := write_at mem1 (soff s + sbsize s) (zeros (pad_len ps dst s))).
    assert (L1 : length mem1 = length mem) by (apply write_at_length; lia).
    assert (L2 : length mem2 = length mem).
    { unfold mem2. rewrite write_at_length; [assumption|lia|]. rewrite zeros_length by lia. unfold wend in Hwd. lia. }
    replace (soff s + sbsize s + pad_len ps dst s) with (wend ps dst s) by reflexivity.
    destruct (IH mem2 dst ps (Z.max e (wend ps dst s)) Hdt ltac:(lia) ltac:(lia)) as [IL [IE IC]].
    split; [lia|]. split; [lia|]. intros c Hc. rewrite IC by assumption.
    unfold mem2. rewrite write_at_cell; [|lia| |lia].
    + rewrite zeros_length by lia. unfold wend in Hwd.
      destruct (Z.leb_spec (soff s + sbsize s) c); destruct (Z.ltb_spec c (soff s + sbsize s + pad_len ps dst s)); cbn [andb]; try lia.
      all: unfold mem1; rewrite write_at_cell by lia; rewrite Hlen;
        destruct (Z.leb_spec (soff s) c); destruct (Z.ltb_spec c (soff s + sbsize s)); cbn [andb]; try lia; reflexivity.
    + rewrite zeros_length by lia. unfold wend in Hwd. lia.
Qed.

Lemma copy_flat_in_bounds l mem dst ps pt : Forall data_ok l -> 0 <= dst <= Z.of_nat (length mem) ->
  length (snd (copy_flat l mem dst ps pt)) = length mem /\
  (forall c, dst <= c -> cell (snd (copy_flat l mem dst ps pt)) c = cell mem c).
Proof.
  intros Hd Hdst. unfold copy_flat.
  destruct (copy_loop_bounds l mem dst ps 0 Hd ltac:(lia) ltac:(lia)) as [HL [HE HC]].
  destruct (copy_loop l mem dst ps 0) as [[er m] e]. cbn [fst snd] in *.
  destruct er; cbn [snd]; try (split; assumption).
  destruct (Z.ltb_spec e dst); cbn [andb]; [|split; assumption]. destruct pt; cbn [snd]; [|split; assumption].
  split.
  - rewrite write_at_length; [assumption|lia|]. rewrite zeros_length by lia. lia.
  - intros c Hc. rewrite write_at_cell; [|lia| |lia].
    + rewrite zeros_length by lia. destruct (Z.leb_spec e c); destruct (Z.ltb_spec c (e + (dst - e))); cbn [andb]; try lia; auto.
    + rewrite zeros_length by lia. lia.
Qed.

(* the exact image on success, for a layout whose sections do not collide *)
Lemma copy_flat_exact l mem dst ps pt mem' :
  Forall data_ok l -> disjoint_layout l -> 0 <= dst <= Z.of_nat (length mem) ->
  copy_flat l mem dst ps pt = (EOk, mem') ->
  length mem' = length mem /\
  (forall c, dst <= c -> cell mem' c = cell mem c) /\
  (forall s, In s l -> forall k, 0 <= k < sbsize s -> cell mem' (soff s + k) = cell (sdata s) k) /\
  (forall s, In s l -> forall c, soff s + sbsize s <= c < wend ps dst s -> cell mem' c = 0) /\
  (pt = true -> forall c, ends ps dst l 0 <= c < dst -> cell mem' c = 0) /\
  (forall c, 0 <= c -> (forall s, In s l -> ~ (soff s <= c < wend ps dst s)) -> (pt = false \/ c < ends ps dst l 0) ->
             cell mem' c = cell mem c).
Proof.
  intros Hd Hdis Hdst E.
  pose proof (copy_flat_in_bounds l mem dst ps pt Hd Hdst) as [HL HC]. rewrite E in HL, HC. cbn [snd] in HL, HC.
  split; [assumption|]. split; [assumption|].
  unfold copy_flat in E. destruct (copy_loop l mem dst ps 0) as [[er m] e] eqn:EL.
  destruct er; try discriminate.
  destruct (copy_loop_cells l mem dst ps 0 m e Hd ltac:(lia) ltac:(lia) EL) as [ML [ME [MB [MU MD]]]].
  specialize (MD Hdis). subst e.
  assert (Hw : forall s, In s l -> wend ps dst s <= ends ps dst l 0) by (apply ends_ge).
  assert (He0 : 0 <= ends ps dst l 0) by (apply ends_ge).
  assert (Hin : forall s, In s l -> 0 <= soff s /\ 0 <= sbsize s).
  { intros s Hs. rewrite Forall_forall in Hd. destruct (Hd s Hs) as [? [? ?]]. lia. }
  assert (Hfit : forall s, In s l -> soff s <= dst /\ sbsize s <= dst - soff s).
  { intros s Hs. pose proof (copy_loop_err l mem dst ps 0) as Her. rewrite EL in Her. cbn [fst] in Her.
    destruct (existsb (too_small dst) l) eqn:Ex; [discriminate|].
    assert (T : too_small dst s = false).
    { destruct (too_small dst s) eqn:T; [|reflexivity]. assert (existsb (too_small dst) l = true) by (apply existsb_exists; eauto). congruence. }
    unfold too_small in T. apply orb_false_iff in T. destruct T as [T1 T2]. apply Z.ltb_ge in T1, T2. lia. }
  destruct ((ends ps dst l 0 <? dst) && pt) eqn:Efin.
  - apply andb_true_iff in Efin. destruct Efin as [Elt ->]. apply Z.ltb_lt in Elt.
    inversion E; subst mem'; clear E.
    assert (CW : forall c, 0 <= c -> cell (write_at m (ends ps dst l 0) (zeros (dst - ends ps dst l 0))) c =
                                   if (ends ps dst l 0 <=? c) && (c <? dst) then 0 else cell m c).
    { intros c Hc. rewrite write_at_cell; [|lia| |lia].
      - rewrite zeros_length by lia. rewrite zeros_cell. replace (ends ps dst l 0 + (dst - ends ps dst l 0)) with dst by ring. reflexivity.
      - rewrite zeros_length by lia. lia. }
    split; [|split; [|split]].
    + intros s Hs k Hk. destruct (Hin s Hs). rewrite CW by lia. destruct (MD s Hs) as [D1 _].
      pose proof (Hw s Hs). unfold wend in H1.
      destruct (Hfit s Hs) as [F1 F2]. destruct (pad_len_range ps dst s ltac:(lia) ltac:(lia)) as [Hp0 _].
      destruct (Z.leb_spec (ends ps dst l 0) (soff s + k)); [lia|]. cbn [andb]. apply D1. assumption.
    + intros s Hs c Hc. destruct (Hin s Hs). rewrite CW by lia. destruct (MD s Hs) as [_ D2].
      pose proof (Hw s Hs). destruct (Z.leb_spec (ends ps dst l 0) c); [lia|]. cbn [andb]. apply D2. assumption.
    + intros _ c Hc. rewrite CW by lia. destruct (Z.leb_spec (ends ps dst l 0) c); [|lia]. destruct (Z.ltb_spec c dst); [|lia]. reflexivity.
    + intros c Hc Hout [Hf | Hlt]; [discriminate|]. rewrite CW by lia.
      destruct (Z.leb_spec (ends ps dst l 0) c); [lia|]. cbn [andb]. apply MU; assumption.
  - inversion E; subst mem'; clear E. split; [|split; [|split]].
    + intros s Hs. apply (MD s Hs).
    + intros s Hs. apply (MD s Hs).
    + intros -> c Hc. rewrite andb_true_r in Efin. apply Z.ltb_ge in Efin. lia.
    + intros c Hc Hout _. apply MU; assumption.
Qed.

(* ------------------------------------------------------------------ copy_section_data *)
Lemma copy_section_spec h mem dst id ps :
  0 <= dst <= Z.of_nat (length mem) ->
  match by_id h id with
  | None => copy_section h mem dst id ps = (EInvalidSection, mem)
  | Some s =>
    Z.of_nat (length (sdata s)) = sbsize s ->
    if dst <? sbsize s then copy_section h mem dst id ps = (EInvalidArgument, mem)
    else exists mem', copy_section h mem dst id ps = (EOk, mem') /\ length mem' = length mem /\
         (forall k, 0 <= k < sbsize s -> cell mem' k = cell (sdata s) k) /\
         (forall c, sbsize s <= c < dst -> cell mem' c = if ps then 0 else cell mem c) /\
         (forall c, dst <= c -> cell mem' c = cell mem c)
  end.
Proof.
  intros Hdst. unfold copy_section. destruct (by_id h id) as [s|]; [|reflexivity].
  intros Hlen. destruct (Z.ltb_spec dst (sbsize s)) as [|Hfit]; [reflexivity|].
  assert (Hb : 0 <= sbsize s) by lia.
  set (mem1 := write_at mem 0 (sdata s)).
  assert (L1 : length mem1 = length mem) by (apply write_at_length; lia).
  assert (C1 : forall c, 0 <= c -> cell mem1 c = if c <? sbsize s then cell (sdata s) c else cell mem c).
  { intros c Hc. unfold mem1. rewrite write_at_cell by lia. rewrite Hlen. destruct (Z.leb_spec 0 c); [|lia]. cbn [andb].
    rewrite Z.add_0_l, Z.sub_0_r. reflexivity. }
  destruct ((sbsize s <? dst) && ps) eqn:Ep.
  - apply andb_true_iff in Ep. destruct Ep as [Elt ->]. apply Z.ltb_lt in Elt.
    eexists. split; [reflexivity|].
    assert (CW : forall c, 0 <= c -> cell (write_at mem1 (sbsize s) (zeros (dst - sbsize s))) c =
                                   if (sbsize s <=? c) && (c <? dst) then 0 else cell mem1 c).
    { intros c Hc. rewrite write_at_cell; [|lia| |lia].
      - rewrite zeros_length by lia. rewrite zeros_cell. replace (sbsize s + (dst - sbsize s)) with dst by ring. reflexivity.
      - rewrite zeros_length by lia. lia. }
    split; [rewrite write_at_length; [assumption|lia|rewrite zeros_length by lia; lia]|].
    split; [|split].
    + intros k Hk. rewrite CW, C1 by lia. destruct (Z.leb_spec (sbsize s) k); [lia|]. cbn [andb]. destruct (Z.ltb_spec k (sbsize s)); [reflexivity|lia].
    + intros c Hc. rewrite CW by lia. destruct (Z.leb_spec (sbsize s) c); [|lia]. destruct (Z.ltb_spec c dst); [reflexivity|lia].
    + intros c Hc. rewrite CW, C1 by lia. destruct (Z.leb_spec (sbsize s) c); destruct (Z.ltb_spec c dst); cbn [andb]; try lia.
      destruct (Z.ltb_spec c (sbsize s)); [lia|reflexivity].
  - eexists. split; [reflexivity|]. split; [assumption|]. split; [|split].
    + intros k Hk. rewrite C1 by lia. destruct (Z.ltb_spec k (sbsize s)); [reflexivity|lia].
    + intros c Hc. rewrite C1 by lia. destruct (Z.ltb_spec c (sbsize s)); [lia|].
      destruct ps; [|reflexivity]. rewrite andb_true_r in Ep. apply Z.ltb_ge in Ep. lia.
    + intros c Hc. rewrite C1 by lia. destruct (Z.ltb_spec c (sbsize s)); [lia|reflexivity].
Qed.

(* ------------------------------------------------------------------ a flattened holder is ready to be copied *)
Definition data_len_ok (h : holder) : Prop := Forall (fun s => Z.of_nat (length (sdata s)) = sbsize s) h.

Lemma pairs_to_fop {A} (R : A -> A -> Prop) (l : list A) :
  (forall l1 a l2 b, l = l1 ++ a :: l2 -> In b l2 -> R a b) -> ForallOrdPairs R l.
Proof.
  intros H. assert (G : forall suf pre, l = pre ++ suf -> ForallOrdPairs R suf).
  { induction suf as [|a t IH]; intros pre E; [constructor|]. constructor.
    - rewrite Forall_forall. intros b Hb. apply (H pre a t b); assumption.
    - apply (IH (pre ++ [a])). rewrite <- app_assoc. assumption. }
  apply (G l []). reflexivity.
Qed.

Lemma flatten_copy_ready h h' : wf_holder h -> data_len_ok h -> flatten_mid h = (EOk, h') ->
  Forall data_ok h' /\ disjoint_layout h'.
Proof.
  intros Hwf Hdl E. destruct (flatten_flattened h h' Hwf E) as [_ _ Hwf' _ _ _ _ Hrel]. split.
  - rewrite Forall_forall. intros s' Hin.
    destruct (Forall2_in_r _ _ _ _ Hrel Hin) as [s [Hs [C _]]].
    unfold data_len_ok in Hdl. rewrite Forall_forall in Hdl. pose proof (Hdl s Hs) as Hl.
    assert (Eb : sbsize s' = sbsize s) by (unfold core in C; inversion C; reflexivity).
    assert (Ed : sdata s' = sdata s) by (unfold core in C; inversion C; reflexivity).
    destruct (code_size_bounds_all h h' Hwf E s' Hin) as [Ho _].
    rewrite Forall_forall in Hwf'. destruct (Hwf' s' Hin) as [Hv _].
    unfold data_ok. rewrite Eb, Ed. repeat split; try assumption; lia.
  - apply pairs_to_fop. intros l1 a l2 b El Hb.
    destruct (flatten_no_overlap h h' Hwf E l1 a l2 b El Hb) as [Hmono [_ Hne]].
    unfold apart. destruct (Z.eq_dec (real_size b) 0) as [|Hnb]; [left; assumption|right].
    destruct (Z.eq_dec (real_size a) 0) as [Ea|Hna]; [rewrite Ea; lia|]. apply Hne; assumption.
Qed.

(* a destination of code_size bytes (or more) is never refused *)
Lemma copy_accepts_code_size h h' dst : wf_holder h -> flatten_mid h = (EOk, h') -> code_size h' <= dst ->
  existsb (too_small dst) h' = false.
Proof.
  intros Hwf E Hd. destruct (existsb (too_small dst) h') eqn:Ex; [|reflexivity].
  apply existsb_exists in Ex. destruct Ex as [s [Hin T]].
  destruct (code_size_bounds_all h h' Hwf E s Hin) as [H0 [H1 _]].
  destruct (flatten_flattened h h' Hwf E) as [_ _ Hwf' _ _ _ _ _]. rewrite Forall_forall in Hwf'. destruct (Hwf' s Hin) as [_ [Hb _]].
  unfold too_small in T. apply orb_true_iff in T. unfold real_size in H1. destruct T as [T|T]; apply Z.ltb_lt in T; lia.
Qed.

Lemma flatten_copy_exact h h' mem dst ps pt mem' :
  wf_holder h -> data_len_ok h -> flatten_mid h = (EOk, h') -> 0 <= dst <= Z.of_nat (length mem) ->
  copy_flat h' mem dst ps pt = (EOk, mem') ->
  length mem' = length mem /\
  (forall c, dst <= c -> cell mem' c = cell mem c) /\
  (forall s, In s h' -> forall k, 0 <= k < sbsize s -> cell mem' (soff s + k) = cell (sdata s) k) /\
  (forall s, In s h' -> forall c, soff s + sbsize s <= c < wend ps dst s -> cell mem' c = 0) /\
  (pt = true -> forall c, ends ps dst h' 0 <= c < dst -> cell mem' c = 0) /\
  (forall c, 0 <= c -> (forall s, In s h' -> ~ (soff s <= c < wend ps dst s)) -> (pt = false \/ c < ends ps dst h' 0) ->
             cell mem' c = cell mem c).
Proof.
  intros Hwf Hdl E Hdst Ec. destruct (flatten_copy_ready h h' Hwf Hdl E) as [Hd Hdis].
  apply copy_flat_exact; assumption.
Qed.

(* ------------------------------------------------------------------ what a refused copy leaves behind *)
(* copy_flattened_data checks section by section: when the first section that does not fit is reached, everything in front of it
   has been copied (and padded) exactly as a successful copy of that prefix would have done, and nothing else was touched *)
Lemma copy_loop_refused l1 s l2 : forall mem dst ps e,
  existsb (too_small dst) l1 = false -> too_small dst s = true ->
  copy_loop (l1 ++ s :: l2) mem dst ps e =
  (EInvalidArgument, snd (fst (copy_loop l1 mem dst ps e)), snd (copy_loop l1 mem dst ps e)).
Proof.
  induction l1 as [|a t IH]; intros mem dst ps e H1 Hs; cbn [app copy_loop].
  - unfold too_small in Hs. apply orb_true_iff in Hs. cbn [fst snd].
    destruct (dst <? soff s); [reflexivity|]. destruct Hs as [Hs|Hs]; [discriminate|]. rewrite Hs. reflexivity.
  - cbn [existsb] in H1. apply orb_false_iff in H1. destruct H1 as [Ha Ht]. unfold too_small in Ha. apply orb_false_iff in Ha.
    destruct Ha as [A1 A2]. rewrite A1, A2. apply IH; assumption.
Qed.

Theorem copy_flat_refused l1 s l2 mem dst ps pt :
  existsb (too_small dst) l1 = false -> too_small dst s = true ->
  copy_flat (l1 ++ s :: l2) mem dst ps pt = (EInvalidArgument, snd (fst (copy_loop l1 mem dst ps 0))) /\
  fst (fst (copy_loop l1 mem dst ps 0)) = EOk.
Proof.
  intros H1 Hs. unfold copy_flat. rewrite (copy_loop_refused l1 s l2 mem dst ps 0 H1 Hs). split; [reflexivity|].
  rewrite copy_loop_err, H1. reflexivity.
Qed.

(* non-vacuity: two sections, the second does not fit into 12 cells: the first one's 4 bytes are there, the rest is untouched *)
Example copy_flat_refused_example :
  copy_flat [mkSection 0 0 1 0 8 4 [1; 2; 3; 4] []; mkSection 1 0 8 8 0 8 [9; 9; 9; 9; 9; 9; 9; 9] []] (repeat 205 14) 12 true true
  = (EInvalidArgument, [1; 2; 3; 4; 0; 0; 0; 0; 205; 205; 205; 205; 205; 205]).
Proof. vm_compute. reflexivity. Qed.

(* C10 — the 32-bit size_t variant: code_size saturates at 2^32-1, and the copy functions are exactly those of the 64-bit
   model as long as every virtual size fits size_t (in particular for every flattened holder whose code size does);
   a virtual size of 4 GiB or more makes the padding computation of copy_flattened_data wrap on such a target. *)
From Coq Require Import ZArith List Bool Lia.
From Verif Require Import Sections.SectionModel Sections.SectionProofs Sections.CopyProofs Sections.SettleProofs Sections.WidthModel.
Import ListNotations.
Local Open Scope Z_scope.

Lemma W64_pow : W64 = 2 ^ 64. Proof. exact W64_eq. Qed.

Lemma cs_walk_range c l : forall off ovf, 0 <= off < W64 -> 0 <= fst (cs_walk c off ovf l) < W64.
Proof.
  induction l as [|s t IH]; intros off ovf H; cbn [cs_walk]; [assumption|]. destruct (real_size s =? 0); [apply IH; assumption|].
  apply IH. pose proof W64_pos. apply Z.mod_pos_bound. lia.
Qed.

(* code_size on a target with sz-bit size_t: the 64-bit answer, saturated *)
Theorem code_size_w_min sz h : 0 < sz <= 64 -> code_size_w sz h = Z.min (code_size h) (smax sz).
Proof.
  intros Hsz. unfold code_size_w, code_size, SIZE_MAX. pose proof W64_pos.
  pose proof (cs_walk_range true h 0 false ltac:(lia)) as Hr. destruct (cs_walk true 0 false h) as [off ovf]. cbn [fst] in Hr.
  assert (Hs : smax sz <= W64 - 1).
  { unfold smax. rewrite W64_pow. assert (2 ^ sz <= 2 ^ 64) by (apply Z.pow_le_mono_r; lia). lia. }
  destruct ovf; cbn [orb]; [lia|]. destruct (Z.ltb_spec (smax sz) off); lia.
Qed.

Theorem code_size_w_64 h : code_size_w 64 h = code_size h.
Proof.
  rewrite code_size_w_min by lia. unfold smax. unfold code_size, SIZE_MAX. pose proof W64_pos.
  pose proof (cs_walk_range true h 0 false ltac:(lia)) as Hr. destruct (cs_walk true 0 false h) as [off ovf]. cbn [fst] in Hr.
  rewrite <- W64_pow. destruct ovf; lia.
Qed.

(* the padding computation agrees with the width-free one whenever the virtual size fits size_t *)
Lemma pad_w_pad sz ps dst s : 0 < sz -> 0 <= svsize s < 2 ^ sz -> 0 <= sbsize s -> sbsize s <= dst - soff s -> dst - soff s < 2 ^ sz ->
  pad_w sz ps dst s = pad_len ps dst s.
Proof.
  intros Hsz Hv Hb Hfit Hd. unfold pad_w, pad_len. destruct (ps && (sbsize s <? svsize s)) eqn:E; [|reflexivity].
  apply andb_true_iff in E. destruct E as [_ E]. apply Z.ltb_lt in E.
  rewrite (Z.mod_small (svsize s)) by lia. apply Z.mod_small. lia.
Qed.

Theorem copy_loop_w_eq sz l : forall mem dst ps e, 0 < sz -> 0 <= dst < 2 ^ sz ->
  Forall (fun s => 0 <= svsize s < 2 ^ sz /\ 0 <= sbsize s /\ 0 <= soff s) l ->
  copy_loop_w sz l mem dst ps e = copy_loop l mem dst ps e.
Proof.
  induction l as [|s t IH]; intros mem dst ps e Hsz Hd Hl; cbn [copy_loop_w copy_loop]; [reflexivity|].
  inversion Hl as [|? ? [Hv [Hb Ho]] Ht]; subst.
  destruct (Z.ltb_spec dst (soff s)); [reflexivity|]. destruct (Z.ltb_spec (dst - soff s) (sbsize s)); [reflexivity|].
  rewrite (pad_w_pad sz ps dst s) by lia. unfold pad_len. apply IH; assumption.
Qed.

(* on a 32-bit target copy_flattened_data behaves exactly like the 64-bit model — hence every copy theorem holds there too —
   whenever the virtual sizes fit 32 bits *)
Theorem copy_flat_w_eq sz h mem dst ps pt : 0 < sz -> 0 <= dst < 2 ^ sz ->
  Forall (fun s => 0 <= svsize s < 2 ^ sz /\ 0 <= sbsize s /\ 0 <= soff s) h ->
  copy_flat_w sz h mem dst ps pt = copy_flat h mem dst ps pt.
Proof. intros Hsz Hd Hl. unfold copy_flat_w, copy_flat. rewrite copy_loop_w_eq by assumption. reflexivity. Qed.

(* every flattened holder whose code size fits size_t qualifies *)
Theorem flattened_fits_width sz h h' : wf_holder h -> flatten h = (EOk, h') -> 0 < sz -> code_size h' < 2 ^ sz ->
  Forall (fun s => 0 <= svsize s < 2 ^ sz /\ 0 <= sbsize s /\ 0 <= soff s) h'.
Proof.
  intros Hwf E Hsz Hc. destruct (flatten_final h h' Hwf E) as [Hwf' _ _ _ _ _ _ _ _].
  destruct (final_code_size_is_end h h' Hwf E) as [_ [Hb _]].
  rewrite Forall_forall in *. intros s Hs. destruct (Hwf' s Hs) as [Hv [Hbs _]]. destruct (Hb s Hs) as [Ho [Hr _]].
  unfold real_size in Hr. lia.
Qed.

(* ... but a virtual size of 4 GiB or more (a uint64_t on every target) makes the size_t padding computation wrap on a 32-bit
   target: 10 bytes of buffer, virtual size 2^32+1, a 100-byte destination: the zero-fill length becomes 2^32 - 9 *)
Theorem pad_w32_refuted : exists s, sbsize s = 10 /\ svsize s = 4294967297 /\ soff s = 0 /\
  pad_w 32 true 100 s = 4294967287 /\ pad_w 64 true 100 s = 90.
Proof. exists (mkSection 0 0 1 0 4294967297 10 [] []). repeat split; vm_compute; reflexivity. Qed.

(* C10 — the same for emitter states WITH `call abs` sites: the address table is created on demand by new_section (always accepted:
   8-byte name, alignment 8) and gets one reserved slot per distinct target; it never has a buffer before relocation. *)
From Coq Require Import ZArith List Bool Lia.
From Verif Require Import Codec.OffsetModel Reloc.RelocModel Sections.SectionModel Sections.SectionProofs Sections.SectionTable Sections.CopyProofs
  Sections.SettleProofs Sections.ChunkModel Sections.JitReloc Sections.JitRelocProofs Sections.BuiltProofs Sections.BuiltJit.
Import ListNotations.
Local Open Scope Z_scope.

Lemma by_id_update_ne h id f k : k <> id -> (forall s, sid (f s) = sid s) -> by_id (update_id h id f) k = by_id h k.
Proof.
  intros Hk Hf. induction h as [|a t IH]; cbn [by_id update_id]; [reflexivity|].
  destruct (Z.eqb_spec (sid a) id) as [E|N]; cbn [by_id].
  - rewrite Hf. destruct (Z.eqb_spec (sid a) k); [lia|reflexivity].
  - destruct (sid a =? k); [reflexivity|exact IH].
Qed.

Lemma by_id_insert_ne s h k : sid s <> k -> by_id (insert_sorted s h) k = by_id h k.
Proof.
  intros Hk. induction h as [|a t IH]; cbn [insert_sorted by_id].
  - destruct (Z.eqb_spec (sid s) k); [contradiction|reflexivity].
  - destruct (key_lt a s); cbn [by_id].
    + destruct (sid a =? k); [reflexivity|exact IH].
    + destruct (Z.eqb_spec (sid s) k); [contradiction|reflexivity].
Qed.

Lemma by_id_insert_new s h : (forall x, In x h -> sid x <> sid s) -> by_id (insert_sorted s h) (sid s) = Some s.
Proof.
  intros Hf. induction h as [|a t IH]; cbn [insert_sorted by_id]; [rewrite Z.eqb_refl; reflexivity|].
  destruct (key_lt a s); cbn [by_id].
  - destruct (Z.eqb_spec (sid a) (sid s)) as [E|N]; [exfalso; apply (Hf a (or_introl eq_refl) E)|].
    apply IH. intros x Hx. apply Hf. right. assumption.
  - rewrite Z.eqb_refl. reflexivity.
Qed.

Lemma reachable_length_pos h : reachable h -> (0 < length h)%nat.
Proof.
  intros R. induction R as [|h name al ord h' R IH Hal Hord E|h id f R IH Hf|h h' R IH E].
  - cbn. lia.
  - unfold new_section in E. destruct (is_zero_or_pow2 al); cbn [negb] in E; [|discriminate].
    destruct (MAX_NAME <? Z.of_nat (length name)); [discriminate|]. inversion E. rewrite insert_sorted_length. lia.
  - destruct (same_keys_ids _ _ (update_id_keys h id f Hf)) as [_ El]. lia.
  - destruct (reachable_inv h R) as [_ [_ Hw]]. destruct (flatten_final_rel h h' Hw E) as [_ Hrel].
    destruct (same_keys_ids _ _ (flat_rel_keys _ _ Hrel)) as [_ El]. lia.
Qed.

Lemma jinv_addrs h tab a1 a2 : jinv (mkJ h tab a1) -> jinv (mkJ h tab a2).
Proof. unfold jinv. cbn [jh jtab]. auto. Qed.

(* the table is created on demand: new_section(".addrtab", 8, INT_MAX) is always accepted *)
Lemma addrtab_section_ok h : new_section h addrtab_name REG_SIZE INT_MAX =
  (EOk, insert_sorted (mkSection (Z.of_nat (length h)) INT_MAX REG_SIZE NO_OFFSET 0 0 [] (pad_name addrtab_name)) h).
Proof. reflexivity. Qed.

Lemma jinv_add_address st a : jinv st ->
  (forall t ts, jtab st = Some t -> by_id (jh st) t = Some ts -> svsize ts + REG_SIZE < W64) ->
  jinv (add_address st a) /\ by_id (jh (add_address st a)) 0 = by_id (jh st) 0.
Proof.
  intros Hi Hb. unfold add_address. destruct (existsb (Z.eqb a) (jaddrs st)); [split; [assumption|reflexivity]|].
  pose proof Hi as [R [Hdl [Ht Hp]]]. pose proof W64_pos.
  unfold ensure_table. destruct (jtab st) as [t|] eqn:Etab.
  - cbn [jh jtab jaddrs]. destruct (by_id (jh st) t) as [ts|] eqn:B.
    + rewrite (update_id_ext (jh st) t (fun s => set_vsize s (svsize s + REG_SIZE))
                             (fun s => set_sizes s (sbsize ts) (svsize ts + REG_SIZE) (sdata ts)) ts B ltac:(destruct ts; reflexivity)).
      destruct (by_id_in _ _ _ B) as [Es Hin].
      destruct (reachable_inv _ R) as [_ [_ Hwf]]. unfold wf_holder in Hwf. rewrite Forall_forall in Hwf. destruct (Hwf ts Hin) as [Hv [Hbs _]].
      unfold data_len_ok in Hdl. rewrite Forall_forall in Hdl. pose proof (Hdl ts Hin) as Hl.
      split.
      * apply (jinv_addrs _ _ (jaddrs st)).
        apply (jinv_set st t ts); try assumption; try lia; [specialize (Hb t ts eq_refl B); unfold REG_SIZE in *; lia|].
        intros _. rewrite Forall_forall in Ht. apply (Ht ts Hin). rewrite Es. reflexivity.
      * apply by_id_update_ne; [specialize (Hp t eq_refl); lia|intros s; reflexivity].
    + rewrite update_id_none by assumption. split; [|reflexivity]. apply (jinv_addrs _ _ (jaddrs st)). destruct st. exact Hi.
  - (* the table is created now *)
    rewrite addrtab_section_ok. cbn [jh jtab jaddrs].
    set (snew := mkSection (Z.of_nat (length (jh st))) INT_MAX REG_SIZE NO_OFFSET 0 0 [] (pad_name addrtab_name)).
    set (h' := insert_sorted snew (jh st)).
    assert (Hlen : (0 < length (jh st))%nat) by (apply reachable_length_pos; assumption).
    assert (Hfresh : forall x, In x (jh st) -> sid x <> sid snew).
    { intros x Hx. destruct (reachable_inv _ R) as [_ [Hi' _]].
      assert (In (sid x) (ids_upto (length (jh st)))) by (eapply Permutation.Permutation_in; [exact Hi'|apply in_map; assumption]).
      apply in_ids_upto in H0. cbn [sid snew]. lia. }
    assert (Hi1 : jinv (mkJ h' (Some (Z.of_nat (length (jh st)))) (jaddrs st))).
    { unfold jinv. cbn [jh jtab]. split; [apply (r_new (jh st) addrtab_name REG_SIZE INT_MAX); [assumption|unfold REG_SIZE; lia|unfold INT_MIN, INT_MAX; lia|apply addrtab_section_ok]|].
      split; [apply insert_sorted_data_len; [assumption|reflexivity]|]. split.
      - rewrite Forall_forall. intros x Hx. apply insert_sorted_in in Hx. destruct Hx as [->|Hx]; [intros _; reflexivity|].
        intros E. inversion E as [E1]. exfalso. apply (Hfresh x Hx). cbn [sid snew]. assumption.
      - intros t E. inversion E. lia. }
    assert (B : by_id h' (Z.of_nat (length (jh st))) = Some snew) by (apply (by_id_insert_new snew (jh st) Hfresh)).
    rewrite (update_id_ext h' (Z.of_nat (length (jh st))) (fun s => set_vsize s (svsize s + REG_SIZE))
                           (fun s => set_sizes s 0 (0 + REG_SIZE) []) snew B eq_refl).
    split.
    + apply (jinv_addrs _ _ (jaddrs st)).
      apply (jinv_set (mkJ h' (Some (Z.of_nat (length (jh st)))) (jaddrs st)) (Z.of_nat (length (jh st))) snew 0 (0 + REG_SIZE) [] Hi1 B); unfold REG_SIZE; try lia; try reflexivity; try (intros _; reflexivity).
      assert (8 < W64) by (rewrite W64_eq; reflexivity). lia.
    + rewrite by_id_update_ne; [|lia|intros s; reflexivity]. apply by_id_insert_ne. cbn [sid snew]. lia.
Qed.

(* built emitter states with call sites *)
Inductive builtc : jstate -> Prop :=
| bc_base st : builtj st -> builtc st
| bc_new st name al ord h' : builtc st -> 0 <= al < 4294967296 -> INT_MIN <= ord <= INT_MAX ->
    new_section (jh st) name al ord = (EOk, h') -> builtc (mkJ h' (jtab st) (jaddrs st))
| bc_set st id d v : builtc st -> Some id <> jtab st -> Z.of_nat (length d) < W64 -> 0 <= v < W64 ->
    builtc (mkJ (update_id (jh st) id (fun s => set_sizes s (Z.of_nat (length d)) v d)) (jtab st) (jaddrs st))
| bc_code st bytes : builtc st -> (forall t0, by_id (jh st) 0 = Some t0 -> sbsize t0 + Z.of_nat (length bytes) < W64) -> builtc (emit_code_bytes st bytes)
| bc_zero st n : builtc st -> 0 <= n -> (forall t0, by_id (jh st) 0 = Some t0 -> sbsize t0 + n < W64) -> builtc (emit_zero_bytes st n)
| bc_call st a : builtc st ->
    (forall t0, by_id (jh st) 0 = Some t0 -> sbsize t0 + CALL_LEN < W64) ->
    (forall t ts, jtab st = Some t -> by_id (jh st) t = Some ts -> svsize ts + REG_SIZE < W64) -> builtc (emit_call_bytes st a).

Theorem builtc_inv st : builtc st -> jinv st.
Proof.
  intros B. induction B as [st B|st name al ord h' B IH Hal Hord E|st id d v B IH Hid Hd Hv|st bytes B IH Hb|st n B IH Hn Hb|st a B IH Hb Hv].
  - apply builtj_inv. assumption.
  - destruct IH as [R [Hdl [Ht Hp]]]. unfold jinv. cbn [jh jtab].
    split; [eapply r_new; eassumption|]. unfold new_section in E.
    destruct (is_zero_or_pow2 al); cbn [negb] in E; [|discriminate].
    destruct (MAX_NAME <? Z.of_nat (length name)); [discriminate|]. inversion E; subst h'.
    split; [apply insert_sorted_data_len; [assumption|reflexivity]|]. split; [|assumption].
    rewrite Forall_forall in *. intros x Hx. apply insert_sorted_in in Hx. destruct Hx as [->|Hx]; [intros _; reflexivity|auto].
  - destruct (by_id (jh st) id) as [s0|] eqn:Bid.
    + apply (jinv_set st id s0); try assumption; try lia. intros E. contradiction.
    + rewrite update_id_none by assumption. destruct st. exact IH.
  - unfold emit_code_bytes. apply jinv_text_append; assumption.
  - unfold emit_zero_bytes. pose proof (jinv_text_append st (zeros n) IH) as H. rewrite (zeros_length n Hn) in H. apply H. assumption.
  - destruct (jinv_add_address st a IH Hv) as [Hi1 Hb0]. unfold emit_call_bytes.
    change CALL_LEN with (Z.of_nat (length CALL_BYTES)). apply jinv_text_append; [assumption|].
    intros t0 E. rewrite Hb0 in E. apply (Hb t0 E).
Qed.

(* JitRuntime::_add with relocations on a built state with call / embed / jz sites: no premise besides `builtc` *)
Theorem builtc_jit_add_reloc st calls base fill final img h2 : builtc st ->
  jit_add_reloc st calls base fill = (JOk, final, img, h2) ->
  exists h1 red, flatten (jh st) = (EOk, h1) /\ relocate_holder h1 (jtab st) calls base = inl (h2, red) /\
    0 <= red /\ final = code_size h1 - red /\ code_size h2 = final /\ map soff h2 = map soff h1 /\
    (forall s, In s h2 -> forall k, 0 <= k < sbsize s -> soff s + k < final -> cell (flat img) (soff s + k) = cell (sdata s) k) /\
    (forall s, In s h2 -> forall c, soff s + sbsize s <= c < wend true (code_size h1) s -> c < final -> cell (flat img) c = 0) /\
    (forall c, 0 <= c < final -> exists s2, In s2 h2 /\ soff s2 <= c < soff s2 + real_size s2).
Proof.
  intros B E. destruct (builtc_inv st B) as [R [Hdl [Ht _]]].
  destruct (jit_add_reloc_image_reachable st calls base fill final img h2 R Hdl E) as [h1 [red [Ef [Er [Efin [Hoff [Hc1 Hc2]]]]]]].
  assert (Hbuf : forall s, In s h1 -> Some (sid s) = jtab st -> sbsize s = 0).
  { intros s' Hs' Hst. destruct (reachable_inv _ R) as [_ [_ Hwf]]. destruct (flatten_final_rel (jh st) h1 Hwf Ef) as [_ Hrel].
    destruct (Forall2_in_r _ _ _ _ Hrel Hs') as [s [Hs [C _]]].
    assert (Ei : sid s' = sid s) by (unfold core in C; inversion C; reflexivity).
    assert (Eb : sbsize s' = sbsize s) by (unfold core in C; inversion C; reflexivity).
    rewrite Forall_forall in Ht. rewrite Eb. apply (Ht s Hs). rewrite <- Ei. assumption. }
  destruct (relocated_reachable (jh st) h1 (jtab st) calls base h2 red R Hdl Ef Hbuf Er) as [_ [_ [_ [_ [_ [Hr0 [Hcs Htot]]]]]]].
  exists h1, red. repeat (split; [assumption|]). split; [lia|]. repeat (split; [assumption|]). rewrite <- Efin in Hcs. rewrite <- Hcs. assumption.
Qed.

(* non-vacuity: two calls to one far target and one near target from a fresh holder, installed at 0x400000: one slot used of two reserved *)
Definition exc : jstate := emit_call_bytes (emit_call_bytes (mkJ init_holder None []) 1311768467463790320) 4198400.

Example builtc_example : builtc exc /\
  exists img h2, jit_add_reloc exc [SCall 0 1311768467463790320; SCall 6 4198400] 4194304 205 = (JOk, 24, img, h2) /\
                 flat img = [255; 21; 10; 0; 0; 0; 64; 232; 244; 15; 0; 0; 0; 0; 0; 0; 240; 222; 188; 154; 120; 86; 52; 18].
Proof.
  split.
  - unfold exc. apply bc_call; [apply bc_call; [apply bc_base; apply bj_init| |]| |].
    + intros t0 E. vm_compute in E. inversion E. vm_compute. reflexivity.
    + intros t ts E. discriminate.
    + intros t0 E. vm_compute in E. inversion E. vm_compute. reflexivity.
    + intros t ts E B. vm_compute in E. inversion E; subst t. vm_compute in B. inversion B. vm_compute. reflexivity.
  - eexists. eexists. split; vm_compute; reflexivity.
Qed.

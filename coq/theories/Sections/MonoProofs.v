(* C10 — the layout is monotone: if no section's real size grows (alignments and order unchanged) and the larger layout fits 64 bits,
   the smaller one fits too and its code size is not larger.  This generalises "the size estimated before relocation is never
   smaller than the size after it" from the address-table shrink to ANY shrinking of ANY sections. *)
From Coq Require Import ZArith List Bool Lia.
From Verif Require Import Sections.SectionModel Sections.SectionProofs.
Import ListNotations.
Local Open Scope Z_scope.

Lemma align_up_mono a x y : align_ok a -> 0 <= x <= y -> y + (a - 1) < W64 -> align_up x a <= align_up y a.
Proof.
  intros Hok Hxy Hw. destruct (Z.eq_dec a 0) as [->|Hn]; [rewrite !align_up_zero; lia|].
  destruct (align_ok_pos_divides a Hok Hn) as [Ha _].
  rewrite !align_up_nowrap by lia.
  apply Z.mul_le_mono_nonneg_r; [lia|]. apply Z.div_le_mono; lia.
Qed.

(* no section of l' is larger than its counterpart in l; alignments agree *)
Definition not_larger (a b : section) : Prop :=
  0 <= real_size b <= real_size a /\ salign b = salign a /\ align_ok (salign a) /\ real_size a < W64.

Lemma layout_mono l l' : Forall2 not_larger l l' -> forall off off', 0 <= off' <= off -> off < W64 -> pass1 off l = true ->
  pass1 off' l' = true /\ lend off' (assign off' l') <= lend off (assign off l).
Proof.
  intros H. induction H as [|a b la lb [[Hb0 Hba] [Eal [Hok Hra]]] _ IH]; intros off off' Ho Hlt Hp; cbn [pass1 assign lend] in *; [split; [reflexivity|lia]|].
  rewrite !real_size_set_off. cbn [soff set_off]. rewrite Eal.
  destruct (Z.eqb_spec (real_size a) 0) as [Za|Na].
  - assert (Zb : real_size b = 0) by lia. rewrite Zb. rewrite Za in *. cbn [Z.eqb] in *. rewrite !Z.add_0_r. apply IH; assumption.
  - destruct (Z.ltb_spec (align_up off (salign a)) off) as [|Hge]; [discriminate|].
    destruct (Z.leb_spec W64 (align_up off (salign a) + real_size a)) as [|Hfit]; [discriminate|].
    (* aligning off did not wrap *)
    assert (Hnw : salign a = 0 \/ off + (salign a - 1) < W64).
    { destruct (Z.eq_dec (salign a) 0) as [|Hn]; [left; assumption|right].
      destruct (align_ok_pos_divides _ Hok Hn) as [Ha [Hb _]]. destruct (Z_lt_le_dec (off + (salign a - 1)) W64); [assumption|].
      pose proof (align_up_wrap off (salign a) Ha ltac:(lia) Hb ltac:(lia)). lia. }
    assert (Hmono : align_up off' (salign a) <= align_up off (salign a)).
    { destruct Hnw as [E0|Hnw]; [rewrite E0, !align_up_zero; lia|]. apply align_up_mono; [assumption|lia|assumption]. }
    assert (Hge' : off' <= align_up off' (salign a) \/ real_size b = 0).
    { destruct Hnw as [E0|Hnw].
      - (* alignment 0: only the first section, at offset 0 *)
        rewrite E0, align_up_zero in *. assert (off = 0) by lia. left. lia.
      - left. destruct (Z.eq_dec (salign a) 0) as [E0|Hn]; [rewrite E0, align_up_zero in *; lia|].
        destruct (align_ok_pos_divides _ Hok Hn) as [Ha _]. rewrite align_up_nowrap by lia.
        pose proof (Z.div_mod (off' + (salign a - 1)) (salign a) ltac:(lia)) as Hdm.
        pose proof (Z.mod_pos_bound (off' + (salign a - 1)) (salign a) Ha) as Hmb. nia. }
    destruct (Z.eqb_spec (real_size b) 0) as [Zb|Nb].
    + rewrite Zb, Z.add_0_r. apply IH; [|lia|assumption]. pose proof (align_up_range off (salign a) Hok ltac:(lia)). lia.
    + destruct Hge' as [Hge'|]; [|contradiction].
      pose proof (align_up_range off' (salign a) Hok ltac:(lia)) as Hr'.
      destruct (Z.ltb_spec (align_up off' (salign a)) off'); [lia|].
      destruct (Z.leb_spec W64 (align_up off' (salign a) + real_size b)); [lia|].
      apply IH; [lia|lia|assumption].
Qed.

Theorem code_size_monotone h h' : wf_holder h -> wf_holder h' -> Forall2 not_larger h h' -> pass1 0 h = true ->
  pass1 0 h' = true /\ code_size h' <= code_size h /\ code_size h < W64.
Proof.
  intros Hwf Hwf' HF Hp. pose proof W64_pos. destruct (layout_mono h h' HF 0 0 ltac:(lia) ltac:(lia) Hp) as [Hp' Hle].
  rewrite (code_size_before h Hwf Hp), (code_size_before h' Hwf' Hp'). split; [assumption|]. split; [assumption|].
  apply lend_lt; [lia|]. apply assign_laid; [assumption|lia|assumption].
Qed.

(* non-vacuity: shrinking the middle section of three removes padding as well: 104 -> 24 *)
Example code_size_monotone_example :
  code_size [mkSection 0 0 1 0 0 10 [] []; mkSection 1 0 64 0 0 30 [] []; mkSection 2 0 16 0 0 8 [] []] = 104 /\
  code_size [mkSection 0 0 1 0 0 10 [] []; mkSection 1 0 64 0 0 0 [] []; mkSection 2 0 16 0 0 8 [] []] = 24.
Proof. split; vm_compute; reflexivity. Qed.

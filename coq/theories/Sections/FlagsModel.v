(* C10 (adjacent) — Section flags: assign_flags / add_flags / clear_flags / has_flag on the 16-bit flag word
   (asmjit/core/codeholder.h).  clear_flags is the REPAIRED one (AND with the complement); `clear_flags_pinned` is the tree
   before fixes/C10-section-clear-flags (OR with the complement, DESIGN 7.8).  No proofs in this file. *)
From Coq Require Import ZArith Bool.
Local Open Scope Z_scope.

Definition u16 (x : Z) : Z := x mod 65536.
Definition add_flags (f x : Z) : Z := u16 (Z.lor f x).
Definition clear_flags (f x : Z) : Z := u16 (Z.land f (Z.lnot x)).
Definition clear_flags_pinned (f x : Z) : Z := u16 (Z.lor f (Z.lnot x)).
Definition has_flag (f x : Z) : bool := negb (Z.land f x =? 0).

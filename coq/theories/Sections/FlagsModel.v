(* C10 (adjacent) — Section flags: assign_flags / add_flags / clear_flags / has_flag on the 16-bit flag word
   (asmjit/core/codeholder.h).  clear_flags is the REPAIRED one (AND with the complement); `clear_flags_pinned` is the tree
   before fixes/C10-section-clear-flags (OR with the complement, DESIGN 7.8).  No proofs in this file. *)
From Coq Require Import ZArith Bool.
Local Open Scope Z_scope.

Definition u16 (x : Z) : Z := x mod 65536.
Definition add_flags (f x : Z) : Z := u16 (Z.lor f x).
Definition clear_flags (f x : Z) : Z := u16 (Z.land f (Z.lnot x)).
Definition clear_flags_pinned (f x : Z) : Z := u16 (Z.lor f (Z.lnot x)).
Definition has_flag (f x : Z) : bool := negb (Z.land f x =? 0).

(* the flag values (SectionFlags, CopySectionFlags) and the built-in .text section's flag word; compared with /repo's headers on
   every run (coq/gen/C10Consts.v, Properties_C10.C10_constants_match) *)
Definition F_EXECUTABLE : Z := 1.
Definition F_READONLY : Z := 2.
Definition F_ZEROINIT : Z := 4.
Definition F_COMMENT : Z := 8.
Definition F_BUILTIN : Z := 16384.
Definition F_IMPLICIT : Z := 32768.
Definition TEXT_FLAGS : Z := Z.lor F_EXECUTABLE (Z.lor F_READONLY F_BUILTIN).
Definition COPY_PAD_SECTION : Z := 1.
Definition COPY_PAD_TARGET : Z := 2.
Definition copy_flag (fl bit : Z) : bool := negb (Z.land fl bit =? 0).

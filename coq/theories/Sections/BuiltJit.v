(* C10 — emitter states built the way the scenarios (and real emitters) build them: sections created through new_section, bytes
   appended together with the size, `call abs` / embed_label / jz sites appended to .text, the address table created on demand
   with one reserved slot per distinct target.  Every such state satisfies the premises of the relocation / JitRuntime theorems
   (reachable, well-sized buffers, the table has a reservation but no buffer), so those theorems hold for it unconditionally. *)
From Coq Require Import ZArith List Bool Lia.
From Verif Require Import Codec.OffsetModel Reloc.RelocModel Sections.SectionModel Sections.SectionProofs Sections.SectionTable Sections.CopyProofs
  Sections.SettleProofs Sections.ChunkModel Sections.JitReloc Sections.JitRelocProofs Sections.BuiltProofs.
Import ListNotations.
Local Open Scope Z_scope.

Lemma update_id_ext h id f g s0 : by_id h id = Some s0 -> f s0 = g s0 -> update_id h id f = update_id h id g.
Proof.
  induction h as [|a t IH]; cbn [by_id update_id]; [discriminate|]. destruct (sid a =? id); intros E Hfg.
  - inversion E; subst. rewrite Hfg. reflexivity.
  - rewrite (IH E Hfg). reflexivity.
Qed.

Lemma update_id_forall (P : section -> Prop) h id f : Forall P h -> (forall s, In s h -> sid s = id -> P (f s)) -> Forall P (update_id h id f).
Proof.
  intros H Hf. induction H as [|a t Ha Ht IH]; cbn [update_id]; [constructor|].
  destruct (Z.eqb_spec (sid a) id) as [E|N]; constructor; auto.
  - apply Hf; [left; reflexivity|assumption].
  - apply IH. intros s Hs. apply Hf. right. assumption.
Qed.

Lemma by_id_update_other h id f k : k <> id -> (forall s, sid (f s) = sid s) -> 
  match by_id h k with Some _ => exists s', by_id (update_id h id f) k = Some s' | None => True end.
Proof.
  intros Hk Hf. induction h as [|a t IH]; cbn [by_id update_id]; [exact I|].
  destruct (Z.eqb_spec (sid a) id) as [E|N].
  - cbn [by_id]. rewrite Hf. destruct (Z.eqb_spec (sid a) k); [lia|]. destruct (by_id t k); [eauto|exact I].
  - cbn [by_id]. destruct (Z.eqb_spec (sid a) k); [eauto|]. exact IH.
Qed.

(* the invariant *)
Definition jinv (st : jstate) : Prop :=
  reachable (jh st) /\ data_len_ok (jh st) /\
  Forall (fun s => Some (sid s) = jtab st -> sbsize s = 0) (jh st) /\
  (forall t, jtab st = Some t -> 0 < t).

(* one step: a section's buffer and sizes are replaced by well-sized ones (constant function form, equal to the model's update on
   the section it is applied to) *)
Lemma jinv_set st id s0 b v d : jinv st -> by_id (jh st) id = Some s0 ->
  0 <= b < W64 -> 0 <= v < W64 -> Z.of_nat (length d) = b -> (Some id = jtab st -> b = 0) ->
  jinv (mkJ (update_id (jh st) id (fun s => set_sizes s b v d)) (jtab st) (jaddrs st)).
Proof.
  intros [R [Hdl [Ht Hp]]] B Hb Hv Hd Htab. unfold jinv. cbn [jh jtab].
  split; [apply r_update; [assumption|]; intros s; cbn; repeat split; lia|].
  split; [apply update_id_data_len; [assumption|intros s; cbn; assumption]|].
  split; [|assumption].
  apply update_id_forall; [assumption|]. intros s Hs Es Hst. cbn. apply Htab. rewrite <- Es. assumption.
Qed.

Inductive builtj : jstate -> Prop :=
| bj_init : builtj (mkJ init_holder None [])
| bj_new st name al ord h' : builtj st -> 0 <= al < 4294967296 -> INT_MIN <= ord <= INT_MAX ->
    new_section (jh st) name al ord = (EOk, h') -> builtj (mkJ h' (jtab st) (jaddrs st))
| bj_set st id d v : builtj st -> Some id <> jtab st -> Z.of_nat (length d) < W64 -> 0 <= v < W64 ->
    builtj (mkJ (update_id (jh st) id (fun s => set_sizes s (Z.of_nat (length d)) v d)) (jtab st) (jaddrs st))
| bj_code st bytes : builtj st ->                                 (* jz abs and the like: bytes appended to .text *)
    (forall t0, by_id (jh st) 0 = Some t0 -> sbsize t0 + Z.of_nat (length bytes) < W64) -> builtj (emit_code_bytes st bytes)
| bj_zero st n : builtj st -> 0 <= n ->                           (* embed_label / embed_label_delta placeholders *)
    (forall t0, by_id (jh st) 0 = Some t0 -> sbsize t0 + n < W64) -> builtj (emit_zero_bytes st n).

Lemma update_id_none h id f : by_id h id = None -> update_id h id f = h.
Proof.
  induction h as [|a t IH]; cbn [by_id update_id]; [reflexivity|]. destruct (sid a =? id); [discriminate|]. intros E. rewrite (IH E). reflexivity.
Qed.

Lemma jinv_text_append st bytes : jinv st -> (forall t0, by_id (jh st) 0 = Some t0 -> sbsize t0 + Z.of_nat (length bytes) < W64) ->
  jinv (mkJ (update_id (jh st) 0 (fun s => set_sizes s (sbsize s + Z.of_nat (length bytes)) (svsize s) (sdata s ++ bytes))) (jtab st) (jaddrs st)).
Proof.
  intros Hi Hb. destruct (by_id (jh st) 0) as [t0|] eqn:B.
  - rewrite (update_id_ext (jh st) 0 (fun s => set_sizes s (sbsize s + Z.of_nat (length bytes)) (svsize s) (sdata s ++ bytes))
                           (fun s => set_sizes s (sbsize t0 + Z.of_nat (length bytes)) (svsize t0) (sdata t0 ++ bytes)) t0 B eq_refl).
    pose proof Hi as [R [Hdl [Ht Hp]]]. destruct (by_id_in _ _ _ B) as [_ Hin].
    destruct (reachable_inv _ R) as [_ [_ Hwf]]. unfold wf_holder in Hwf. rewrite Forall_forall in Hwf. destruct (Hwf t0 Hin) as [Hv [Hbs _]].
    unfold data_len_ok in Hdl. rewrite Forall_forall in Hdl. pose proof (Hdl t0 Hin) as Hl.
    apply (jinv_set st 0 t0); try assumption; try (specialize (Hb t0 eq_refl); lia).
    + rewrite app_length. lia.
    + intros E. symmetry in E. specialize (Hp 0 E). lia.
  - rewrite update_id_none by assumption. destruct st. exact Hi.
Qed.

Theorem builtj_inv st : builtj st -> jinv st.
Proof.
  intros B. induction B as [|st name al ord h' B IH Hal Hord E|st id d v B IH Hid Hd Hv|st bytes B IH Hb|st n B IH Hn Hb].
  - unfold jinv. cbn [jh jtab]. split; [apply r_init|]. split; [unfold data_len_ok; repeat constructor|]. split; [|intros t E; discriminate].
    repeat constructor; intros E; discriminate.
  - destruct IH as [R [Hdl [Ht Hp]]]. unfold jinv. cbn [jh jtab].
    split; [eapply r_new; eassumption|]. pose proof E as E0. unfold new_section in E.
    destruct (is_zero_or_pow2 al); cbn [negb] in E; [|discriminate].
    destruct (MAX_NAME <? Z.of_nat (length name)); [discriminate|]. inversion E; subst h'.
    split; [apply insert_sorted_data_len; [assumption|reflexivity]|]. split; [|assumption].
    rewrite Forall_forall in *. intros x Hx. apply insert_sorted_in in Hx. destruct Hx as [->|Hx]; [intros _; reflexivity|auto].
  - destruct (by_id (jh st) id) as [s0|] eqn:Bid.
    + apply (jinv_set st id s0); try assumption; try lia. intros E. contradiction.
    + rewrite update_id_none by assumption. destruct st. exact IH.
  - unfold emit_code_bytes. apply jinv_text_append; assumption.
  - unfold emit_zero_bytes. pose proof (jinv_text_append st (zeros n) IH) as H. rewrite (zeros_length n Hn) in H. apply H. assumption.
Qed.

(* JitRuntime::_add with relocations on a built state: NO premise besides `builtj` (and that the call succeeded) *)
Theorem builtj_jit_add_reloc st calls base fill final img h2 : builtj st ->
  jit_add_reloc st calls base fill = (JOk, final, img, h2) ->
  exists h1 red, flatten (jh st) = (EOk, h1) /\ relocate_holder h1 (jtab st) calls base = inl (h2, red) /\
    0 <= red /\ final = code_size h1 - red /\ code_size h2 = final /\ map soff h2 = map soff h1 /\
    (forall s, In s h2 -> forall k, 0 <= k < sbsize s -> soff s + k < final -> cell (flat img) (soff s + k) = cell (sdata s) k) /\
    (forall s, In s h2 -> forall c, soff s + sbsize s <= c < wend true (code_size h1) s -> c < final -> cell (flat img) c = 0) /\
    (forall c, 0 <= c < final -> exists s2, In s2 h2 /\ soff s2 <= c < soff s2 + real_size s2).
Proof.
  intros B E. destruct (builtj_inv st B) as [R [Hdl [Ht _]]].
  destruct (jit_add_reloc_image_reachable st calls base fill final img h2 R Hdl E) as [h1 [red [Ef [Er [Efin [Hoff [Hc1 Hc2]]]]]]].
  assert (Hbuf : forall s, In s h1 -> Some (sid s) = jtab st -> sbsize s = 0).
  { intros s' Hs' Hst. destruct (reachable_inv _ R) as [_ [_ Hwf]]. destruct (flatten_final_rel (jh st) h1 Hwf Ef) as [_ Hrel].
    destruct (Forall2_in_r _ _ _ _ Hrel Hs') as [s [Hs [C _]]].
    assert (Ei : sid s' = sid s) by (unfold core in C; inversion C; reflexivity).
    assert (Eb : sbsize s' = sbsize s) by (unfold core in C; inversion C; reflexivity).
    rewrite Forall_forall in Ht. rewrite Eb. apply (Ht s Hs). rewrite <- Ei. assumption. }
  destruct (relocated_reachable (jh st) h1 (jtab st) calls base h2 red R Hdl Ef Hbuf Er) as [_ [_ [_ [_ [_ [Hr0 [Hcs Htot]]]]]]].
  exists h1, red. repeat (split; [assumption|]). split; [lia|]. repeat (split; [assumption|]). rewrite <- Efin in Hcs. rewrite <- Hcs. assumption.
Qed.

(* non-vacuity: .text gets 8 placeholder bytes for the address of a label at offset 5 of a 16-aligned data section; installed at base 0x400000 *)
Definition exj : jstate :=
  emit_zero_bytes (mkJ (update_id (snd (new_section init_holder [46; 100] 16 0)) 1
                                  (fun s => set_sizes s (Z.of_nat (length [1; 2; 3; 4; 5])) 0 [1; 2; 3; 4; 5])) None []) 8.

Example builtj_example : builtj exj /\
  exists img h2, jit_add_reloc exj [SAbs 0 1 5] 4194304 205 = (JOk, 21, img, h2) /\
                 flat img = [21; 0; 64; 0; 0; 0; 0; 0; 0; 0; 0; 0; 0; 0; 0; 0; 1; 2; 3; 4; 5].
Proof.
  split.
  - unfold exj. apply bj_zero; [|lia|].
    + apply (bj_set (mkJ (snd (new_section init_holder [46; 100] 16 0)) None []) 1 [1; 2; 3; 4; 5] 0); [|discriminate|vm_compute; reflexivity|vm_compute; split; [discriminate|reflexivity]].
      apply (bj_new (mkJ init_holder None []) [46; 100] 16 0); [apply bj_init|lia|unfold INT_MIN, INT_MAX; lia|vm_compute; reflexivity].
    + intros t0 E. vm_compute in E. inversion E. vm_compute. reflexivity.
  - eexists. eexists. split; vm_compute; reflexivity.
Qed.

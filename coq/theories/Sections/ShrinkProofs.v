(* C10 — the extension step leaves no gap between non-empty sections, and the address-table shrink at the end of
   relocate_to_base never enlarges the code size (estimate before relocation >= size after). *)
From Coq Require Import ZArith List Bool Lia.
From Verif Require Import Sections.SectionModel Sections.SectionProofs.
Import ListNotations.
Local Open Scope Z_scope.

(* offset of the first non-empty section *)
Fixpoint fne_off (l : list section) : option Z :=
  match l with
  | [] => None
  | s :: t => if real_size s =? 0 then fne_off t else Some (soff s)
  end.

(* every non-empty section ends exactly where the next non-empty one starts: the padding belongs to its predecessor *)
Fixpoint tight (l : list section) : Prop :=
  match l with
  | [] => True
  | s :: t => (real_size s <> 0 -> match fne_off t with Some o => soff s + real_size s = o | None => True end) /\ tight t
  end.

Lemma extend_nil_iff l : fst (extend l) = [] <-> l = [].
Proof.
  destruct l as [|s t]; [cbn; tauto|]. cbn [extend]. destruct (extend t). destruct (real_size s =? 0); cbn [fst]; split; discriminate.
Qed.

Lemma extend_tight l : forall off, Forall wf_sec l -> 0 <= off < W64 -> laid off l ->
  tight (fst (extend l)) /\
  (forall x y, snd (extend l) = Some x -> fne_off (fst (extend l)) = Some y -> x = y).
Proof.
  induction l as [|s t IH]; intros off Hwf Hoff Hl.
  - cbn. split; [exact I|]. intros x y H; discriminate.
  - inversion Hwf as [|? ? Hws Hwt]; subst. pose proof (real_size_range s Hws) as Hrs.
    pose proof Hl as [Hs [Hb Hlt]].
    assert (He : 0 <= soff s + real_size s < W64).
    { destruct (laid_head_ge off s t Hwf ltac:(lia) Hl). lia. }
    destruct (IH (soff s + real_size s) Hwt He Hlt) as [IT IX].
    destruct (extend_main t (soff s + real_size s) Hwt He Hlt) as [_ [_ [_ [_ Htgt]]]].
    pose proof (extend_nil_iff t) as Hnil.
    cbn [extend]. destruct (extend t) as [t' tgt] eqn:Et. cbn [fst snd] in *.
    destruct (Z.eqb_spec (real_size s) 0) as [E0|Hne]; cbn [fst snd].
    + cbn [tight fne_off]. rewrite E0. cbn [Z.eqb]. split; [split; [intros; contradiction|assumption]|].
      intros x y Hx Hy. destruct tgt as [o|].
      * inversion Hx; subst. apply IX; [reflexivity|assumption].
      * subst t. destruct Hnil as [_ Hn]. rewrite (Hn eq_refl) in Hy. discriminate.
    + destruct tgt as [o|].
      * destruct Htgt as [Ho _].
        set (s' := set_vsize s (o - soff s)).
        assert (Hrs' : real_size s' = o - soff s).
        { unfold s', real_size, set_vsize. cbn [svsize sbsize]. unfold real_size in *. lia. }
        cbn [tight fne_off]. rewrite Hrs'. destruct (Z.eqb_spec (o - soff s) 0); [lia|].
        split; [split; [|assumption]|].
        -- intros _. destruct (fne_off t') as [y|] eqn:Ey; [|exact I].
           change (soff s') with (soff s). rewrite <- (IX o y eq_refl eq_refl). ring.
        -- intros x y Hx Hy. inversion Hx; inversion Hy; subst. reflexivity.
      * subst t. destruct Hnil as [_ Hn]. rewrite (Hn eq_refl) in *. rewrite set_vsize_same.
        cbn [tight fne_off]. destruct (Z.eqb_spec (real_size s) 0); [contradiction|].
        split; [split; [intros; exact I|exact I]|]. intros x y Hx Hy. inversion Hx; inversion Hy; subst. reflexivity.
Qed.

Definition all_empty (l : list section) : Prop := Forall (fun s => real_size s = 0) l.

Lemma fne_off_all_empty l1 s l2 : all_empty l1 -> real_size s <> 0 -> fne_off (l1 ++ s :: l2) = Some (soff s).
Proof.
  intros H Hne. induction H as [|a t Ha Ht IH]; cbn [app fne_off].
  - destruct (Z.eqb_spec (real_size s) 0); [contradiction|reflexivity].
  - rewrite Ha. cbn [Z.eqb]. assumption.
Qed.

Lemma tight_prefix_end l1 s l2 : forall off, tight (l1 ++ s :: l2) -> real_size s <> 0 ->
  (all_empty l1 /\ lend_ne off l1 = off) \/ lend_ne off l1 = soff s.
Proof.
  induction l1 as [|p t IH]; intros off Ht Hne; cbn [app lend_ne].
  - left. split; [constructor|reflexivity].
  - cbn [app tight] in Ht. destruct Ht as [Hp Ht]. destruct (Z.eqb_spec (real_size p) 0) as [E0|Hnp].
    + destruct (IH off Ht Hne) as [[Ha El]|Er]; [left; split; [constructor; assumption|assumption]|right; assumption].
    + destruct (IH (soff p + real_size p) Ht Hne) as [[Ha El]|Er]; [|right; assumption].
      right. specialize (Hp Hnp). rewrite (fne_off_all_empty t s l2 Ha Hne) in Hp. lia.
Qed.

Lemma align_up_0 a : align_ok a -> align_up 0 a = 0.
Proof.
  intros Hok. unfold align_up. destruct (Z.eqb_spec a 0); [reflexivity|].
  destruct (align_ok_pos_divides a Hok n) as [Ha [Hb _]]. pose proof W64_pos.
  rewrite Z.add_0_l. rewrite Z.mod_small; [|split; [lia|]].
  - rewrite Z.div_small by lia. reflexivity.
  - assert (2147483648 < W64) by (rewrite W64_eq; reflexivity). lia.
Qed.

(* in a tight layout the sections in front of a non-empty one end exactly at its offset *)
Lemma prefix_end_generic l1 s l2 : Forall wf_sec (l1 ++ s :: l2) -> laid_ne 0 (l1 ++ s :: l2) -> tight (l1 ++ s :: l2) ->
  real_size s <> 0 -> lend_ne 0 l1 = soff s.
Proof.
  intros Hwf' Hlne Ht Hne.
  destruct (tight_prefix_end l1 s l2 0 Ht Hne) as [[Ha E0]|Er]; [|assumption].
  rewrite E0. apply laid_ne_app in Hlne. destruct Hlne as [_ Hs]. rewrite E0 in Hs. cbn [laid_ne] in Hs.
  destruct (Z.eqb_spec (real_size s) 0); [contradiction|]. destruct Hs as [Eo _].
  apply Forall_app in Hwf'. destruct Hwf' as [_ Hw2]. inversion Hw2 as [|? ? [_ [_ Hok]] _]; subst.
  rewrite Eo. symmetry. apply align_up_0. assumption.
Qed.

Lemma flatten_mid_tight h h' : wf_holder h -> flatten_mid h = (EOk, h') -> tight h'.
Proof.
  intros Hwf E. destruct (flatten_flattened h h' Hwf E) as [Hp Eh Hwf' Hl Hlne _ _ _]. pose proof W64_pos.
  destruct (extend_tight (assign 0 h) 0 (assign_wf h 0 Hwf) ltac:(lia) Hl) as [Ht _]. rewrite <- Eh in Ht. assumption.
Qed.

Lemma flatten_prefix_end h h' : wf_holder h -> flatten_mid h = (EOk, h') ->
  forall l1 s l2, h' = l1 ++ s :: l2 -> real_size s <> 0 -> lend_ne 0 l1 = soff s.
Proof.
  intros Hwf E l1 s l2 El Hne. destruct (flatten_flattened h h' Hwf E) as [_ _ Hwf' _ Hlne _ _ _].
  pose proof (flatten_mid_tight h h' Hwf E) as Ht. subst h'. apply (prefix_end_generic l1 s l2); assumption.
Qed.

(* ------------------------------------------------------------------ the address-table shrink *)
Lemma shrink_last_app l1 t tab used : sid t = tab -> (forall x, In x l1 -> sid x <> tab) ->
  shrink_last (l1 ++ [t]) tab used =
  (l1 ++ [set_sizes t used used (firstn (Z.to_nat used) (sdata t))], svsize t - used).
Proof.
  intros Et Hu. induction l1 as [|a r IH].
  - cbn [app shrink_last]. rewrite Et, Z.eqb_refl. reflexivity.
  - cbn [app]. destruct (r ++ [t]) as [|b r'] eqn:Er; [destruct r; discriminate|].
    cbn [shrink_last]. cbn [shrink_last] in IH. rewrite IH by (intros x Hx; apply Hu; right; assumption).
    destruct (Z.eqb_spec (sid a) tab) as [E|N]; [exfalso; apply (Hu a); [left; reflexivity|assumption]|reflexivity].
Qed.

(* the table somewhere else (or absent): only its buffer size changes (to at most the reservation), nothing is reported *)
Definition tab_buffer_set (tab used : Z) (s s' : section) : Prop :=
  s' = s \/ (sid s = tab /\ s' = set_sizes s used (svsize s) (firstn (Z.to_nat used) (sdata s))).

Lemma shrink_last_other l1 t tab used : sid t <> tab ->
  exists l1', shrink_last (l1 ++ [t]) tab used = (l1' ++ [t], 0) /\ Forall2 (tab_buffer_set tab used) l1 l1'.
Proof.
  intros Et. induction l1 as [|a r IH].
  - exists []. cbn [app shrink_last]. destruct (Z.eqb_spec (sid t) tab); [contradiction|]. split; [reflexivity|constructor].
  - destruct IH as [r1 [E F]]. cbn [app]. destruct (r ++ [t]) as [|b r'] eqn:Er; [destruct r; discriminate|].
    cbn [shrink_last]. cbn [shrink_last] in E. rewrite E.
    eexists (_ :: r1). split; [reflexivity|]. constructor; [|assumption].
    destruct (Z.eqb_spec (sid a) tab); [right; split; [assumption|reflexivity]|left; reflexivity].
Qed.

(* code_size only looks at real sizes and alignments *)
Lemma cs_walk_same_sizes c l l' : Forall2 (fun a b => real_size b = real_size a /\ salign b = salign a) l l' ->
  forall off ovf, cs_walk c off ovf l' = cs_walk c off ovf l.
Proof.
  intros H. induction H as [|a b la lb [Er Ea] _ IH]; intros off ovf; cbn [cs_walk]; [reflexivity|].
  rewrite Er, Ea, !IH. reflexivity.
Qed.

Lemma not_last_code_size l1 t tab used : sid t <> tab -> 0 <= used ->
  (forall x, In x l1 -> sid x = tab -> sbsize x <= used <= svsize x) ->
  exists h'', shrink_last (l1 ++ [t]) tab used = (h'', 0) /\ code_size h'' = code_size (l1 ++ [t]) /\
              map soff h'' = map soff (l1 ++ [t]) /\ map svsize h'' = map svsize (l1 ++ [t]).
Proof.
  intros Et Hu Hb. destruct (shrink_last_other l1 t tab used Et) as [l1' [E F]].
  exists (l1' ++ [t]). split; [assumption|].
  assert (G : Forall2 (fun a b => real_size b = real_size a /\ salign b = salign a /\ soff b = soff a /\ svsize b = svsize a) l1 l1').
  { clear E. induction F as [|a b la lb Hab Hl IH]; [constructor|]. constructor; [|apply IH; intros x Hx; apply Hb; right; assumption].
    destruct Hab as [->|[Ea ->]]; [auto|]. specialize (Hb a (or_introl eq_refl) Ea).
    unfold real_size, set_sizes. cbn [svsize sbsize salign soff]. repeat split; lia. }
  split; [|split].
  - unfold code_size. rewrite (cs_walk_same_sizes true (l1 ++ [t]) (l1' ++ [t])); [reflexivity|].
    apply Forall2_app; [|constructor; [auto|constructor]].
    clear -G. induction G as [|a b la lb [? [? _]] _ IH]; constructor; auto.
  - rewrite !map_app. f_equal. clear -G. induction G as [|a b la lb [_ [_ [? _]]] _ IH]; cbn [map]; [reflexivity|]. congruence.
  - rewrite !map_app. f_equal. clear -G. induction G as [|a b la lb [_ [_ [_ ?]]] _ IH]; cbn [map]; [reflexivity|]. congruence.
Qed.

(* JitRuntime::_add: estimate = code_size() after flatten_mid; relocate_to_base shrinks the address table (the last section)
   from its reserved virtual size to the used slots; the final size is estimate - reduction and never exceeds the estimate *)
Lemma estimate_generic l1 t used : Forall wf_sec (l1 ++ [t]) -> laid_ne 0 (l1 ++ [t]) -> tight (l1 ++ [t]) ->
  (forall x, In x l1 -> sid x <> sid t) -> 0 <= used -> sbsize t <= used <= svsize t ->
  exists h'' r, shrink_last (l1 ++ [t]) (sid t) used = (h'', r) /\ r = svsize t - used /\ 0 <= r /\
                code_size h'' = code_size (l1 ++ [t]) - r /\ code_size h'' <= code_size (l1 ++ [t]).
Proof.
  intros Hwf' Hlne Htight Hid Hu0 Hu. rewrite (shrink_last_app l1 t (sid t) used eq_refl Hid).
  set (t' := set_sizes t used used (firstn (Z.to_nat used) (sdata t))).
  exists (l1 ++ [t']), (svsize t - used). split; [reflexivity|]. split; [reflexivity|]. split; [lia|].
  pose proof W64_pos.
  assert (Hcs : code_size (l1 ++ [t]) = lend_ne 0 (l1 ++ [t])).
  { unfold code_size. rewrite (cs_walk_laid_ne _ 0 Hwf' ltac:(lia) Hlne). reflexivity. }
  pose proof Hwf' as Hwf0. apply Forall_app in Hwf'. destruct Hwf' as [Hw1 Hw2]. inversion Hw2 as [|? ? Hwt _]; subst.
  destruct Hwt as [Hv [Hb Hok]].
  assert (Hwf'' : Forall wf_sec (l1 ++ [t'])).
  { apply Forall_app. split; [assumption|]. constructor; [|constructor]. unfold wf_sec. cbn.
    split; [lia|]. split; [lia|assumption]. }
  assert (Hrt' : real_size t' = used) by (unfold t', real_size, set_sizes; cbn [svsize sbsize]; lia).
  pose proof Hlne as Hlne0. apply laid_ne_app in Hlne. destruct Hlne as [Hl1 Hlt].
  assert (Hlne' : laid_ne 0 (l1 ++ [t'])).
  { apply laid_ne_app. split; [assumption|]. cbn [laid_ne] in *. rewrite Hrt'. change (soff t') with (soff t). change (salign t') with (salign t).
    destruct (Z.eqb_spec used 0); [exact I|]. destruct (Z.eqb_spec (real_size t) 0) as [Z0|Zn]; [unfold real_size in Z0; lia|].
    destruct Hlt as [Eo [Hle [Hbd _]]]. unfold real_size in Hbd. split; [assumption|]. split; [assumption|]. split; [lia|exact I]. }
  assert (Hcs' : code_size (l1 ++ [t']) = lend_ne 0 (l1 ++ [t'])).
  { unfold code_size. rewrite (cs_walk_laid_ne _ 0 Hwf'' ltac:(lia) Hlne'). reflexivity. }
  rewrite Hcs, Hcs', !lend_ne_app. cbn [lend_ne]. rewrite Hrt'. change (soff t') with (soff t).
  destruct (Z.eqb_spec (real_size t) 0) as [Z0|Zn].
  - assert (U : used = 0) by (unfold real_size in Z0; lia). destruct (Z.eqb_spec used 0); [|contradiction]. unfold real_size in Z0. lia.
  - assert (Hrt : real_size t = svsize t) by (unfold real_size; lia).
    destruct (Z.eqb_spec used 0) as [U0|Un].
    + rewrite (prefix_end_generic l1 t [] Hwf0 Hlne0 Htight Zn). lia.
    + lia.
Qed.

Lemma estimate_monotone h h' l1 t used : wf_holder h -> flatten_mid h = (EOk, h') -> h' = l1 ++ [t] ->
  (forall x, In x l1 -> sid x <> sid t) -> 0 <= used -> sbsize t <= used <= svsize t ->
  exists h'' r, shrink_last h' (sid t) used = (h'', r) /\ r = svsize t - used /\ 0 <= r /\
                code_size h'' = code_size h' - r /\ code_size h'' <= code_size h'.
Proof.
  intros Hwf E El. destruct (flatten_flattened h h' Hwf E) as [_ _ Hwf' _ Hlne _ _ _].
  pose proof (flatten_mid_tight h h' Hwf E) as Ht. subst h'. apply estimate_generic; assumption.
Qed.


(* C10 — round 7 additions: (1) section names never influence what is copied (frame condition for the image);
   (2) JitRuntime::_add's own copy loop on the relocated holder of a BUILT emitter state installs what
   copy_flattened_data(kPadSectionBuffer) installs — no premise besides `builtc`. *)
From Coq Require Import ZArith List Bool Lia.
From Verif Require Import Codec.OffsetModel Reloc.RelocModel Sections.SectionModel Sections.SectionProofs Sections.SectionTable Sections.CopyProofs
  Sections.SettleProofs Sections.ChunkModel Sections.JitReloc Sections.JitRelocProofs Sections.JitCopyModel Sections.JitCopyProofs
  Sections.BuiltProofs Sections.BuiltJit Sections.BuiltJitCalls Sections.SectionExamples.
Import ListNotations.
Local Open Scope Z_scope.

(* ---- (1) names are irrelevant to the image ---- *)
Lemma copy_loop_rename g l : forall mem dst ps e, copy_loop (map (rename g) l) mem dst ps e = copy_loop l mem dst ps e.
Proof.
  induction l as [|s t IH]; intros mem dst ps e; cbn [map copy_loop]; [reflexivity|].
  change (soff (rename g s)) with (soff s). change (sbsize (rename g s)) with (sbsize s).
  change (svsize (rename g s)) with (svsize s). change (sdata (rename g s)) with (sdata s).
  destruct (dst <? soff s); [reflexivity|]. destruct (dst - soff s <? sbsize s); [reflexivity|]. apply IH.
Qed.

Theorem copy_independent_of_names g h mem dst ps pt : copy_flat (map (rename g) h) mem dst ps pt = copy_flat h mem dst ps pt.
Proof. unfold copy_flat. rewrite copy_loop_rename. reflexivity. Qed.

Lemma by_id_rename g h id : by_id (map (rename g) h) id = option_map (rename g) (by_id h id).
Proof. induction h as [|a t IH]; cbn [map by_id option_map]; [reflexivity|]. change (sid (rename g a)) with (sid a). destruct (sid a =? id); [reflexivity|exact IH]. Qed.

Theorem copy_section_independent_of_names g h mem dst id ps : copy_section (map (rename g) h) mem dst id ps = copy_section h mem dst id ps.
Proof. unfold copy_section. rewrite by_id_rename. destruct (by_id h id) as [s|]; reflexivity. Qed.

(* the whole pipeline: flatten then copy gives the same error and the same image whatever the sections are called *)
Theorem image_independent_of_names g h mem dst ps pt :
  fst (flatten (map (rename g) h)) = fst (flatten h) /\
  copy_flat (snd (flatten (map (rename g) h))) mem dst ps pt = copy_flat (snd (flatten h)) mem dst ps pt.
Proof.
  destruct (layout_independent_of_names g h) as [E _]. rewrite E. cbn [fst snd]. split; [reflexivity|apply copy_independent_of_names].
Qed.

Example image_independent_of_names_example :
  copy_flat (snd (flatten (map (rename (fun _ => [1; 2; 3])) ex_h3))) (repeat 205 110) 110 true true
  = copy_flat (snd (flatten ex_h3)) (repeat 205 110) 110 true true /\
  fst (copy_flat (snd (flatten ex_h3)) (repeat 205 110) 110 true true) = EOk.
Proof. split; [apply image_independent_of_names|vm_compute; reflexivity]. Qed.

(* ---- (2) the real JitRuntime loop on the relocated holder of a built state ---- *)
Theorem builtc_jit_loop st calls base h1 h2 red mem m1 : builtc st ->
  flatten (jh st) = (EOk, h1) -> relocate_holder h1 (jtab st) calls base = inl (h2, red) ->
  code_size h1 <= Z.of_nat (length mem) ->
  copy_flat h2 mem (Z.of_nat (length mem)) true false = (EOk, m1) ->
  length (jit_copy h2 mem) = length m1 /\ forall c, 0 <= c -> cell (jit_copy h2 mem) c = cell m1 c.
Proof.
  intros B Ef Er Hest Ec. destruct (builtc_inv st B) as [R [Hdl _]].
  apply (relocated_jit_copy_agrees (jh st) h1 (jtab st) calls base h2 red mem m1); assumption.
Qed.

Example builtc_jit_loop_example : exists h1 h2 m1,
  builtc exc /\ flatten (jh exc) = (EOk, h1) /\
  relocate_holder h1 (jtab exc) [SCall 0 1311768467463790320; SCall 6 4198400] 4194304 = inl (h2, 8) /\
  copy_flat h2 (repeat 205 32) 32 true false = (EOk, m1) /\ jit_copy h2 (repeat 205 32) = m1.
Proof.
  eexists. eexists. eexists. split; [exact (proj1 builtc_example)|]. split; [vm_compute; reflexivity|].
  split; [vm_compute; reflexivity|]. split; vm_compute; reflexivity.
Qed.

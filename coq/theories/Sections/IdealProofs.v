(* C10 — flatten's overflow check is exact: pass 1 succeeds if and only if the layout computed with UNBOUNDED integers (no 64-bit
   wrap anywhere) ends below 2^64, and then code_size is that mathematical end.  This removes the model's own predicate `pass1` from
   the meaning of "flatten fails": it fails exactly when the sections do not fit a 64-bit address space. *)
From Coq Require Import ZArith List Bool Lia.
From Verif Require Import Sections.SectionModel Sections.SectionProofs.
Import ListNotations.
Local Open Scope Z_scope.

(* the least multiple of a that is >= x, on unbounded integers *)
Definition ceil_align (x a : Z) : Z := if a =? 0 then x else (x + (a - 1)) / a * a.

Fixpoint ideal_end (off : Z) (l : list section) : Z :=
  match l with
  | [] => off
  | s :: t => if real_size s =? 0 then ideal_end off t else ideal_end (ceil_align off (salign s) + real_size s) t
  end.

Lemma ceil_align_ge x a : 0 <= a -> x <= ceil_align x a.
Proof.
  intros Ha. unfold ceil_align. destruct (Z.eqb_spec a 0); [lia|].
  pose proof (Z.div_mod (x + (a - 1)) a ltac:(lia)). pose proof (Z.mod_pos_bound (x + (a - 1)) a ltac:(lia)). nia.
Qed.

Lemma ideal_end_ge l : forall off, Forall wf_sec l -> off <= ideal_end off l.
Proof.
  induction l as [|s t IH]; intros off Hwf; cbn [ideal_end]; [lia|]. inversion Hwf as [|? ? Hws Hwt]; subst.
  pose proof (real_size_range s Hws). destruct (real_size s =? 0); [apply IH; assumption|].
  destruct Hws as [_ [_ Hok]]. assert (0 <= salign s) by (destruct Hok as [->|[k [Hk ->]]]; [lia|apply Z.pow_nonneg; lia]).
  pose proof (ceil_align_ge off (salign s) H0). specialize (IH (ceil_align off (salign s) + real_size s) Hwt). lia.
Qed.

(* on a section with a positive alignment: align_up agrees with ceil_align unless it wraps, and it wraps exactly when ceil_align leaves 64 bits *)
Lemma align_up_vs_ceil x a : align_ok a -> 0 < a -> 0 <= x < W64 ->
  (ceil_align x a < W64 -> align_up x a = ceil_align x a /\ x <= align_up x a) /\
  (W64 <= ceil_align x a -> align_up x a < x).
Proof.
  intros Hok Ha Hx. assert (Hn : a <> 0) by lia. destruct (align_ok_pos_divides a Hok Hn) as [_ [Hb [m [Hm HW]]]].
  unfold ceil_align. destruct (Z.eqb_spec a 0); [lia|].
  pose proof (Z.div_mod (x + (a - 1)) a ltac:(lia)) as Hdm. pose proof (Z.mod_pos_bound (x + (a - 1)) a ltac:(lia)) as Hmb.
  destruct (Z_lt_le_dec (x + (a - 1)) W64) as [Hnw|Hw].
  - split.
    + intros _. rewrite align_up_nowrap by lia. split; [reflexivity|nia].
    + intros Hbig. exfalso. nia.
  - split.
    + intros Hsmall. exfalso.
      (* the quotient is at least m because x + a - 1 >= a*m, so the ceiling is at least W64 *)
      assert (m <= (x + (a - 1)) / a) by (apply Z.div_le_lower_bound; lia). nia.
    + intros _. apply align_up_wrap; lia.
Qed.

Lemma pass1_ideal l : forall off, Forall wf_sec l -> Forall (fun s => 0 < salign s) l -> 0 <= off < W64 ->
  (pass1 off l = true <-> ideal_end off l < W64) /\ (pass1 off l = true -> lend off (assign off l) = ideal_end off l).
Proof.
  induction l as [|s t IH]; intros off Hwf Hal Hoff; cbn [pass1 ideal_end assign lend]; [split; [split; [lia|reflexivity]|reflexivity]|].
  inversion Hwf as [|? ? Hws Hwt]; subst. inversion Hal as [|? ? Has Halt]; subst.
  pose proof (real_size_range s Hws) as Hrs. rewrite real_size_set_off. cbn [soff set_off].
  destruct (Z.eqb_spec (real_size s) 0) as [Z0|Nz].
  - rewrite Z0, Z.add_0_r. apply IH; assumption.
  - pose proof Hws as [_ [_ Hok]]. destruct (align_up_vs_ceil off (salign s) Hok Has Hoff) as [Hsmall Hbig].
    pose proof (ideal_end_ge t (ceil_align off (salign s) + real_size s) Hwt) as Hmono.
    destruct (Z_lt_le_dec (ceil_align off (salign s)) W64) as [Hc|Hc].
    + destruct (Hsmall Hc) as [Ea Hge]. rewrite Ea. destruct (Z.ltb_spec (ceil_align off (salign s)) off); [lia|].
      destruct (Z.leb_spec W64 (ceil_align off (salign s) + real_size s)) as [Hov|Hfit].
      * split; [split; [discriminate|lia]|discriminate].
      * apply IH; try assumption. lia.
    + specialize (Hbig Hc). destruct (Z.ltb_spec (align_up off (salign s)) off); [|lia].
      split; [split; [discriminate|lia]|discriminate].
Qed.

(* holders whose only alignment-0 section is the first one (the built-in .text): every reachable holder *)
Theorem flatten_succeeds_iff_fits h : wf_holder h -> Forall (fun s => 0 < salign s) (tl h) ->
  (pass1 0 h = true <-> ideal_end 0 h < W64) /\ (pass1 0 h = true -> code_size h = ideal_end 0 h).
Proof.
  intros Hwf Hal. pose proof W64_pos. destruct h as [|s t]; [cbn; split; [split; [lia|reflexivity]|intros _; reflexivity]|].
  cbn [tl] in Hal. inversion Hwf as [|? ? Hws Hwt]; subst. pose proof Hws as [_ [_ Hok]].
  destruct (Z.eq_dec (salign s) 0) as [E0|Hn].
  - (* .text: alignment 0 at offset 0 *)
    assert (Hcs : pass1 0 (s :: t) = true -> code_size (s :: t) = lend 0 (assign 0 (s :: t))) by (apply code_size_before; assumption).
    cbn [pass1 ideal_end assign lend] in *. rewrite real_size_set_off in *. cbn [soff set_off] in *. rewrite E0 in *. rewrite align_up_zero in *.
    unfold ceil_align. cbn [Z.eqb]. pose proof (real_size_range s Hws) as Hrs.
    destruct (Z.eqb_spec (real_size s) 0) as [Z0|Nz].
    + rewrite Z0, Z.add_0_r in *. destruct (pass1_ideal t 0 Hwt Hal ltac:(lia)) as [I1 I2]. split; [assumption|]. intros Hp. rewrite (Hcs Hp). apply I2. assumption.
    + cbn [Z.ltb]. destruct (Z.leb_spec W64 (0 + real_size s)); [lia|].
      destruct (pass1_ideal t (0 + real_size s) Hwt Hal ltac:(lia)) as [I1 I2]. split; [assumption|]. intros Hp. rewrite (Hcs Hp). apply I2. assumption.
  - assert (Has : 0 < salign s) by (destruct (align_ok_pos_divides _ Hok Hn); assumption).
    destruct (pass1_ideal (s :: t) 0 Hwf ltac:(constructor; assumption) ltac:(lia)) as [I1 I2]. split; [assumption|].
    intros Hp. rewrite (code_size_before (s :: t) Hwf Hp). apply I2. assumption.
Qed.

(* non-vacuity both ways: a layout that fits, one that ends exactly at 2^64 - 1 (the last legal one), one that needs 2^64 *)
Example ideal_examples :
  ideal_end 0 [mkSection 0 INT_MIN 0 0 0 10 [] []; mkSection 1 0 64 0 5 0 [] []] = 69 /\
  pass1 0 [mkSection 0 INT_MIN 0 0 (W64 - 2) 0 [] []; mkSection 1 0 1 0 1 0 [] []] = true /\
  ideal_end 0 [mkSection 0 INT_MIN 0 0 (W64 - 2) 0 [] []; mkSection 1 0 1 0 2 0 [] []] = W64 /\
  pass1 0 [mkSection 0 INT_MIN 0 0 (W64 - 2) 0 [] []; mkSection 1 0 1 0 2 0 [] []] = false.
Proof. repeat split; vm_compute; reflexivity. Qed.

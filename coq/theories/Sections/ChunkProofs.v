(* C10 — the chunked copy functions compute exactly the flat ones. *)
From Coq Require Import ZArith List Bool Lia.
From Verif Require Import Sections.SectionModel Sections.ChunkModel.
Import ListNotations.
Local Open Scope Z_scope.

Lemma flat1_length c : Z.of_nat (length (flat1 c)) = clen c.
Proof. destruct c as [v n|l]; cbn [flat1 clen]; [rewrite repeat_length; lia|reflexivity]. Qed.

Lemma flat_app a b : flat (a ++ b) = flat a ++ flat b.
Proof. induction a as [|c t IH]; cbn [app flat]; [reflexivity|]. rewrite IH, app_assoc. reflexivity. Qed.

Lemma firstn_repeat {A} (x : A) n k : (n <= k)%nat -> firstn n (repeat x k) = repeat x n.
Proof. revert k. induction n as [|n IH]; intros k H; [reflexivity|]. destruct k; [lia|]. cbn. f_equal. apply IH. lia. Qed.

Lemma skipn_repeat {A} (x : A) n k : skipn n (repeat x k) = repeat x (k - n).
Proof. revert k. induction n as [|n IH]; intros k; [rewrite Nat.sub_0_r; reflexivity|]. destruct k; [reflexivity|]. cbn. apply IH. Qed.

Lemma flat_ctake m : forall n, flat (ctake n m) = firstn (Z.to_nat n) (flat m).
Proof.
  induction m as [|c t IH]; intros n; cbn [ctake flat]; [rewrite firstn_nil; reflexivity|].
  destruct (Z.leb_spec n 0) as [Hn|Hn]; [replace (Z.to_nat n) with 0%nat by lia; reflexivity|].
  pose proof (flat1_length c) as HL.
  destruct (Z.leb_spec (clen c) n) as [Hk|Hk].
  - cbn [flat]. rewrite IH, firstn_app. rewrite (firstn_all2 (flat1 c)) by lia.
    f_equal. f_equal. lia.
  - cbn [flat]. rewrite app_nil_r, firstn_app.
    replace (Z.to_nat n - length (flat1 c))%nat with 0%nat by lia. rewrite firstn_O, app_nil_r.
    destruct c as [v k|l]; cbn [flat1 clen] in *; [|reflexivity].
    symmetry. apply firstn_repeat. lia.
Qed.

Lemma flat_cdrop m : forall n, flat (cdrop n m) = skipn (Z.to_nat n) (flat m).
Proof.
  induction m as [|c t IH]; intros n; cbn [cdrop]; [rewrite skipn_nil; reflexivity|].
  destruct (Z.leb_spec n 0) as [Hn|Hn]; [replace (Z.to_nat n) with 0%nat by lia; reflexivity|].
  pose proof (flat1_length c) as HL.
  destruct (Z.leb_spec (clen c) n) as [Hk|Hk]; cbn [flat].
  - rewrite IH, skipn_app. rewrite (skipn_all2 (flat1 c)) by lia. cbn [app]. f_equal. lia.
  - rewrite skipn_app. replace (Z.to_nat n - length (flat1 c))%nat with 0%nat by lia. cbn [skipn]. f_equal.
    destruct c as [v k|l]; cbn [flat1 clen] in *; [|reflexivity].
    rewrite skipn_repeat. f_equal. lia.
Qed.

Lemma flat_cwrite m off c : 0 <= off -> flat (cwrite m off c) = write_at (flat m) off (flat1 c).
Proof.
  intros H. unfold cwrite, write_at. rewrite flat_app. cbn [flat]. rewrite flat_ctake, flat_cdrop.
  pose proof (flat1_length c). do 3 f_equal. lia.
Qed.

Definition nonneg (s : section) : Prop := 0 <= soff s /\ 0 <= sbsize s.

Lemma copy_loop_c_flat l : forall m dst ps e, Forall nonneg l ->
  let '(er, m', e') := copy_loop_c l m dst ps e in copy_loop l (flat m) dst ps e = (er, flat m', e').
Proof.
  induction l as [|s t IH]; intros m dst ps e Hn; cbn [copy_loop_c copy_loop]; [reflexivity|].
  inversion Hn as [|? ? [Ho Hb] Ht]; subst.
  destruct (dst <? soff s); [reflexivity|]. destruct (dst - soff s <? sbsize s); [reflexivity|].
  set (pad := if ps && (sbsize s <? svsize s) then Z.min (dst - soff s) (svsize s) - sbsize s else 0).
  specialize (IH (cwrite (cwrite m (soff s) (Bytes (sdata s))) (soff s + sbsize s) (Fill 0 pad)) dst ps
                 (Z.max e (soff s + sbsize s + pad)) Ht).
  rewrite !flat_cwrite in IH by lia. cbn [flat1] in IH. exact IH.
Qed.

Lemma copy_loop_e_nonneg l : forall mem dst ps e, 0 <= e -> 0 <= snd (copy_loop l mem dst ps e).
Proof.
  induction l as [|s t IH]; intros mem dst ps e He; cbn [copy_loop]; [assumption|].
  destruct (dst <? soff s); [assumption|]. destruct (dst - soff s <? sbsize s); [assumption|]. apply IH. lia.
Qed.

Theorem copy_flat_c_flat h m dst ps pt : Forall nonneg h ->
  copy_flat h (flat m) dst ps pt = (fst (copy_flat_c h m dst ps pt), flat (snd (copy_flat_c h m dst ps pt))).
Proof.
  intros Hn. unfold copy_flat, copy_flat_c. pose proof (copy_loop_c_flat h m dst ps 0 Hn) as H.
  pose proof (copy_loop_e_nonneg h (flat m) dst ps 0 ltac:(lia)) as He.
  destruct (copy_loop_c h m dst ps 0) as [[er m'] e']. rewrite H in *. cbn [snd] in He.
  destruct er; try reflexivity. destruct ((e' <? dst) && pt); [|reflexivity].
  cbn [fst snd]. rewrite flat_cwrite by assumption. reflexivity.
Qed.

Theorem copy_section_c_flat h m dst id ps : (forall s, by_id h id = Some s -> 0 <= sbsize s) ->
  copy_section h (flat m) dst id ps = (fst (copy_section_c h m dst id ps), flat (snd (copy_section_c h m dst id ps))).
Proof.
  intros Hb. unfold copy_section, copy_section_c. destruct (by_id h id) as [s|]; [|reflexivity].
  specialize (Hb s eq_refl). destruct (dst <? sbsize s); [reflexivity|].
  destruct ((sbsize s <? dst) && ps); cbn [fst snd]; rewrite !flat_cwrite by lia; reflexivity.
Qed.

Theorem jit_add_c_flat h fill : (forall h1, flatten h = (EOk, h1) -> Forall nonneg h1) ->
  let '(e, n, img, h1) := jit_add_c h fill in jit_add h fill = (e, n, flat img, h1).
Proof.
  intros Hn. unfold jit_add, jit_add_c. destruct (flatten h) as [er h1] eqn:Ef.
  destruct er; try reflexivity. destruct (code_size h1 =? 0); [reflexivity|].
  specialize (Hn h1 eq_refl).
  pose proof (copy_flat_c_flat h1 [Fill fill (code_size h1)] (code_size h1) true false Hn) as H.
  cbn [flat flat1] in H. rewrite app_nil_r in H. rewrite H. reflexivity.
Qed.

(* C10 — with kPadSectionBuffer and a destination of at least code_size bytes, EVERY cell below code_size is determined:
   it lies in exactly the written region of some non-empty section (no stale byte survives inside the image); the same
   for the image JitRuntime::_add installs. *)
From Coq Require Import ZArith List Bool Lia.
From Verif Require Import Sections.SectionModel Sections.SectionProofs Sections.CopyProofs Sections.ShrinkProofs.
Import ListNotations.
Local Open Scope Z_scope.

Lemma cover_chain l : forall off, Forall wf_sec l -> laid_ne off l -> tight l -> (fne_off l = Some off \/ fne_off l = None) ->
  forall c, off <= c < lend_ne off l -> exists s, In s l /\ real_size s <> 0 /\ soff s <= c < soff s + real_size s.
Proof.
  induction l as [|s t IH]; intros off Hwf Hl Ht Hf c Hc; cbn [lend_ne] in Hc; [lia|].
  inversion Hwf as [|? ? Hws Hwt]; subst. cbn [laid_ne fne_off tight] in *. destruct Ht as [Hts Htt].
  destruct (Z.eqb_spec (real_size s) 0) as [E0|Hne].
  - destruct (IH off Hwt Hl Htt Hf c Hc) as [x [Hx Hr]]. exists x. split; [right; assumption|assumption].
  - destruct Hf as [Hf|Hf]; [|discriminate]. inversion Hf as [Eo]. destruct Hl as [_ [_ [_ Hl]]].
    destruct (Z_lt_le_dec c (soff s + real_size s)) as [Hin|Hout].
    + exists s. split; [left; reflexivity|]. split; [assumption|lia].
    + specialize (Hts Hne).
      assert (Hf' : fne_off t = Some (soff s + real_size s) \/ fne_off t = None).
      { destruct (fne_off t) as [o|]; [left; f_equal; lia|right; reflexivity]. }
      destruct (IH (soff s + real_size s) Hwt Hl Htt Hf' c ltac:(lia)) as [x [Hx Hr]].
      exists x. split; [right; assumption|assumption].
Qed.

Lemma fne_off_first_zero l : Forall wf_sec l -> laid_ne 0 l -> fne_off l = Some 0 \/ fne_off l = None.
Proof.
  induction l as [|s t IH]; intros Hwf Hl; [right; reflexivity|]. inversion Hwf as [|? ? [_ [_ Hok]] Hwt]; subst.
  cbn [laid_ne fne_off] in *. destruct (Z.eqb_spec (real_size s) 0); [apply IH; assumption|].
  destruct Hl as [Eo _]. left. rewrite Eo, (align_up_0 _ Hok). reflexivity.
Qed.

Lemma image_total_generic l dst : Forall wf_sec l -> laid_ne 0 l -> tight l -> code_size l <= dst ->
  forall c, 0 <= c < code_size l -> exists s, In s l /\ soff s <= c < wend true dst s /\ wend true dst s = soff s + real_size s.
Proof.
  intros Hwf' Hlne Ht Hd c Hc. pose proof W64_pos.
  assert (Hcs : code_size l = lend_ne 0 l).
  { unfold code_size. rewrite (cs_walk_laid_ne l 0 Hwf' ltac:(lia) Hlne). reflexivity. }
  destruct (cover_chain l 0 Hwf' Hlne Ht (fne_off_first_zero l Hwf' Hlne) c ltac:(lia)) as [s [Hin [Hne Hr]]].
  exists s. split; [assumption|].
  destruct (laid_ne_in_ge 0 l s Hwf' Hlne Hin Hne) as [H0 H1].
  rewrite Forall_forall in Hwf'. destruct (Hwf' s Hin) as [Hv [Hb _]].
  assert (Ew : wend true dst s = soff s + real_size s).
  { unfold wend, pad_len, real_size in *. cbn [andb]. destruct (Z.ltb_spec (sbsize s) (svsize s)); lia. }
  rewrite Ew. split; [assumption|reflexivity].
Qed.

Lemma flatten_image_total h h' dst : wf_holder h -> flatten_mid h = (EOk, h') -> code_size h' <= dst ->
  forall c, 0 <= c < code_size h' -> exists s, In s h' /\ soff s <= c < wend true dst s /\ wend true dst s = soff s + real_size s.
Proof.
  intros Hwf E. destruct (flatten_flattened h h' Hwf E) as [_ _ Hwf' _ Hlne _ _ _].
  apply image_total_generic; [assumption|assumption|apply (flatten_mid_tight h h' Hwf E)].
Qed.


(* C10 — with kPadSectionBuffer and a destination of at least code_size bytes, EVERY cell below code_size is determined:
   it lies in exactly the written region of some non-empty section (no stale byte survives inside the image); the same
   for the image JitRuntime::_add installs. *)
From Coq Require Import ZArith List Bool Lia.
From Verif Require Import Sections.SectionModel Sections.SectionProofs Sections.CopyProofs Sections.ShrinkProofs.
Import ListNotations.
Local Open Scope Z_scope.

Lemma cover_chain l : forall off, Forall wf_sec l -> laid_ne off l -> tight l -> (fne_off l = Some off \/ fne_off l = None) ->
  forall c, off <= c < lend_ne off l -> exists s, In s l /\ real_size s <> 0 /\ soff s <= c < soff s + real_size s.
Proof.
  induction l as [|s t IH]; intros off Hwf Hl Ht Hf c Hc; cbn [lend_ne] in Hc; [lia|].
  inversion Hwf as [|? ? Hws Hwt]; subst. cbn [laid_ne fne_off tight] in *. destruct Ht as [Hts Htt].
  destruct (Z.eqb_spec (real_size s) 0) as [E0|Hne].
  - destruct (IH off Hwt Hl Htt Hf c Hc) as [x [Hx Hr]]. exists x. split; [right; assumption|assumption].
  - destruct Hf as [Hf|Hf]; [|discriminate]. inversion Hf as [Eo]. destruct Hl as [_ [_ [_ Hl]]].
    destruct (Z_lt_le_dec c (soff s + real_size s)) as [Hin|Hout].
    + exists s. split; [left; reflexivity|]. split; [assumption|lia].
    + specialize (Hts Hne).
      assert (Hf' : fne_off t = Some (soff s + real_size s) \/ fne_off t = None).
      { destruct (fne_off t) as [o|]; [left; f_equal; lia|right; reflexivity]. }
      destruct (IH (soff s + real_size s) Hwt Hl Htt Hf' c ltac:(lia)) as [x [Hx Hr]].
      exists x. split; [right; assumption|assumption].
Qed.

Lemma fne_off_first_zero l : Forall wf_sec l -> laid_ne 0 l -> fne_off l = Some 0 \/ fne_off l = None.
Proof.
  induction l as [|s t IH]; intros Hwf Hl; [right; reflexivity|]. inversion Hwf as [|? ? [_ [_ Hok]] Hwt]; subst.
  cbn [laid_ne fne_off] in *. destruct (Z.eqb_spec (real_size s) 0); [apply IH; assumption|].
  destruct Hl as [Eo _]. left. rewrite Eo, (align_up_0 _ Hok). reflexivity.
Qed.

Lemma flatten_image_total h h' dst : wf_holder h -> flatten h = (EOk, h') -> code_size h' <= dst ->
  forall c, 0 <= c < code_size h' -> exists s, In s h' /\ soff s <= c < wend true dst s /\ wend true dst s = soff s + real_size s.
Proof.
  intros Hwf E Hd c Hc. destruct (flatten_flattened h h' Hwf E) as [_ Eh Hwf' Hl Hlne Hend _ _]. pose proof W64_pos.
  destruct (extend_tight (assign 0 h) 0 (assign_wf h 0 Hwf) ltac:(lia) Hl) as [Ht _]. rewrite <- Eh in Ht.
  assert (Hcs : code_size h' = lend_ne 0 h').
  { unfold code_size. rewrite (cs_walk_laid_ne h' 0 Hwf' ltac:(lia) Hlne). reflexivity. }
  destruct (cover_chain h' 0 Hwf' Hlne Ht (fne_off_first_zero h' Hwf' Hlne) c ltac:(lia)) as [s [Hin [Hne Hr]]].
  exists s. split; [assumption|].
  destruct (code_size_bounds_all h h' Hwf E s Hin) as [H0 [H1 _]].
  rewrite Forall_forall in Hwf'. destruct (Hwf' s Hin) as [Hv [Hb _]].
  assert (Ew : wend true dst s = soff s + real_size s).
  { unfold wend, pad_len, real_size in *. cbn [andb]. destruct (Z.ltb_spec (sbsize s) (svsize s)); lia. }
  rewrite Ew. split; [assumption|reflexivity].
Qed.

(* JitRuntime::_add (model jit_add): the installed image is completely determined by the sections — every cell below the
   final size is a section's byte or a zero of its virtual tail, whatever the memory held before *)
Lemma jit_image_determined h fill e n img h1 : wf_holder h -> data_len_ok h -> jit_add h fill = (e, n, img, h1) ->
  (e = EOk \/ e = ENoCodeGenerated \/ e = ETooLarge) /\
  (e = ETooLarge <-> pass1 0 h = false) /\
  (e = ENoCodeGenerated -> flatten h = (EOk, h1) /\ code_size h1 = 0) /\
  (e = EOk -> flatten h = (EOk, h1) /\ n = code_size h1 /\ 0 < n /\ Z.of_nat (length img) = n /\
     forall c, 0 <= c < n -> exists s, In s h1 /\
       ((soff s <= c < soff s + sbsize s /\ cell img c = cell (sdata s) (c - soff s)) \/
        (soff s + sbsize s <= c < soff s + real_size s /\ cell img c = 0))).
Proof.
  intros Hwf Hdl E. unfold jit_add in E. unfold flatten in *. destruct (pass1 0 h) eqn:Hp.
  - set (hf := fst (extend (assign 0 h))) in *.
    assert (Ef : flatten h = (EOk, hf)) by (unfold flatten; rewrite Hp; reflexivity).
    destruct (Z.eqb_spec (code_size hf) 0) as [Z0|Zn].
    + inversion E; subst. split; [auto|]. split; [split; intros; discriminate|]. split; [intros _; split; [reflexivity|assumption]|]. intros; discriminate.
    + inversion E; subst e n img h1; clear E. split; [auto|]. split; [split; intros; discriminate|]. split; [intros; discriminate|].
      intros _. split; [reflexivity|]. split; [reflexivity|].
      destruct (flatten_flattened h hf Hwf Ef) as [_ _ Hwf' _ Hlne _ _ _]. pose proof W64_pos.
      assert (Hcs0 : 0 <= code_size hf).
      { unfold code_size. rewrite (cs_walk_laid_ne hf 0 Hwf' ltac:(lia) Hlne). apply lend_ne_ge; assumption. }
      split; [lia|].
      set (n := code_size hf) in *. set (mem := repeat fill (Z.to_nat n)).
      assert (Hlen : Z.of_nat (length mem) = n) by (unfold mem; rewrite repeat_length; lia).
      pose proof (copy_flat_err hf mem n true false) as Herr.
      rewrite (copy_accepts_code_size h hf n Hwf Ef ltac:(lia)) in Herr.
      destruct (copy_flat hf mem n true false) as [er img] eqn:Ec. cbn [fst snd] in *. subst er.
      destruct (flatten_copy_exact h hf mem n true false img Hwf Hdl Ef ltac:(lia) Ec) as [HL [_ [HD [HZ _]]]].
      split; [lia|]. intros c Hc.
      destruct (flatten_image_total h hf n Hwf Ef ltac:(lia) c Hc) as [s [Hin [Hr Ew]]].
      exists s. split; [assumption|]. rewrite Ew in Hr.
      destruct (Z_lt_le_dec c (soff s + sbsize s)) as [Hd|Hz].
      * left. split; [lia|]. replace c with (soff s + (c - soff s)) at 1 by ring. apply HD; [assumption|lia].
      * right. split; [lia|]. apply (HZ s Hin). rewrite Ew. lia.
  - inversion E; subst. split; [auto|]. split; [split; reflexivity|]. split; intros; discriminate.
Qed.

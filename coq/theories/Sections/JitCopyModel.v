(* C10 — JitRuntime::_add's own copy loop (asmjit/core/jitruntime.cpp), as it is written: it walks code->_sections (by id, not
   by order), copies every buffer and zero-fills up to the virtual size WITHOUT clipping.  JitCopyProofs.v proves that on a
   flattened holder and a span of at least code_size bytes it produces, cell by cell, what copy_flattened_data with
   kPadSectionBuffer produces.  No proofs in this file. *)
From Coq Require Import ZArith List Bool.
From Verif Require Import Sections.SectionModel.
Import ListNotations.
Local Open Scope Z_scope.

Fixpoint jit_copy_loop (l : list section) (mem : list Z) : list Z :=
  match l with
  | [] => mem
  | s :: t =>
    let mem1 := write_at mem (soff s) (sdata s) in                     (* memcpy(rw + offset, section->data(), buffer_size) *)
    let mem2 := if sbsize s <? svsize s                                  (* if (virtual_size > buffer_size) memset(..., 0, virtual_size - buffer_size) *)
                then write_at mem1 (soff s + sbsize s) (zeros (svsize s - sbsize s)) else mem1 in
    jit_copy_loop t mem2
  end.

(* code->_sections: the sections in id order *)
Definition sections_by_id (h : holder) : list section :=
  flat_map (fun i => match by_id h (Z.of_nat i) with Some s => [s] | None => [] end) (seq 0 (length h)).

Definition jit_copy (h : holder) (mem : list Z) : list Z := jit_copy_loop (sections_by_id h) mem.

(* C10 — flatten_mid is stable: a second flatten_mid leaves every non-empty section (offset, sizes) and code_size unchanged; only
   an EMPTY section's offset may follow the end of its extended predecessor, and from then on flatten_mid is the identity. *)
From Coq Require Import ZArith List Bool Lia.
From Verif Require Import Sections.SectionModel Sections.SectionProofs Sections.ShrinkProofs.
Import ListNotations.
Local Open Scope Z_scope.

(* every non-empty section that has a successor carries its whole real size as virtual size *)
Fixpoint vfull (l : list section) : Prop :=
  match l with
  | [] => True
  | s :: t => (real_size s <> 0 -> t <> [] -> svsize s = real_size s) /\ vfull t
  end.

Lemma extend_vfull l : forall off, Forall wf_sec l -> 0 <= off < W64 -> laid off l -> vfull (fst (extend l)).
Proof.
  induction l as [|s t IH]; intros off Hwf Hoff Hl; [exact I|].
  inversion Hwf as [|? ? Hws Hwt]; subst. pose proof (real_size_range s Hws) as Hrs.
  pose proof Hl as [Hs [Hb Hlt]].
  assert (He : 0 <= soff s + real_size s < W64).
  { destruct (laid_head_ge off s t Hwf ltac:(lia) Hl). lia. }
  pose proof (IH (soff s + real_size s) Hwt He Hlt) as IV.
  destruct (extend_main t (soff s + real_size s) Hwt He Hlt) as [_ [_ [_ [_ Htgt]]]].
  pose proof (extend_nil_iff t) as Hnil.
  cbn [extend]. destruct (extend t) as [t' tgt] eqn:Et. cbn [fst snd] in *.
  destruct (Z.eqb_spec (real_size s) 0) as [E0|Hne]; cbn [fst vfull].
  - split; [intros; contradiction|assumption].
  - split; [|assumption]. destruct tgt as [o|].
    + destruct Htgt as [Ho _]. intros _ _. unfold real_size, set_vsize in *. cbn [svsize sbsize]. lia.
    + subst t. destruct Hnil as [_ Hn]. rewrite (Hn eq_refl). intros _ Hc. contradiction.
Qed.

(* what a second offset assignment may change: nothing in a non-empty section, the offset of an empty one *)
Definition same_ne (s s2 : section) : Prop :=
  (real_size s <> 0 -> s2 = s) /\ (real_size s = 0 -> exists o, s2 = set_off s o).

Lemma same_ne_rs s s2 : same_ne s s2 -> real_size s2 = real_size s.
Proof.
  intros [H1 H2]. destruct (Z.eq_dec (real_size s) 0) as [E|N].
  - destruct (H2 E) as [o ->]. reflexivity.
  - rewrite (H1 N). reflexivity.
Qed.

Lemma set_off_same s : set_off s (soff s) = s.
Proof. destruct s; reflexivity. Qed.

Lemma assign_same_ne l : forall off, laid_ne off l -> Forall2 same_ne l (assign off l).
Proof.
  induction l as [|s t IH]; intros off Hl; cbn [assign]; [constructor|]. cbn [laid_ne] in Hl.
  destruct (Z.eqb_spec (real_size s) 0) as [E0|Hne].
  - constructor.
    + split; [intros; contradiction|]. intros _. eexists. reflexivity.
    + rewrite E0, Z.add_0_r. apply IH. assumption.
  - destruct Hl as [Eo [_ [_ Hl]]]. rewrite <- Eo. constructor.
    + split; [intros _; apply set_off_same|intros; contradiction].
    + apply IH. assumption.
Qed.

Lemma pass1_laid_ne l : forall off, laid_ne off l -> pass1 off l = true.
Proof.
  induction l as [|s t IH]; intros off Hl; cbn [pass1]; [reflexivity|]. cbn [laid_ne] in Hl.
  destruct (Z.eqb_spec (real_size s) 0); [apply IH; assumption|].
  destruct Hl as [Eo [Hle [Hb Hl]]]. rewrite <- Eo.
  destruct (Z.ltb_spec (soff s) off); [lia|]. destruct (Z.leb_spec W64 (soff s + real_size s)); [lia|]. apply IH. assumption.
Qed.

Lemma assign_laid_id l : forall off, laid off l -> assign off l = l.
Proof.
  induction l as [|s t IH]; intros off Hl; cbn [assign]; [reflexivity|]. destruct Hl as [Hs [_ Hl]].
  destruct (Z.eqb_spec (real_size s) 0) as [E0|Hne].
  - subst off. rewrite set_off_same. f_equal. apply IH. assumption.
  - destruct Hs as [Eo _]. rewrite <- Eo, set_off_same. f_equal. apply IH. assumption.
Qed.

Lemma same_ne_fne l l2 : Forall2 same_ne l l2 -> fne_off l2 = fne_off l.
Proof.
  intros H. induction H as [|a b la lb Hab _ IH]; cbn [fne_off]; [reflexivity|].
  rewrite (same_ne_rs a b Hab). destruct (Z.eqb_spec (real_size a) 0) as [E|N]; [assumption|].
  destruct Hab as [H1 _]. rewrite (H1 N). reflexivity.
Qed.

Lemma same_ne_tight l l2 : Forall2 same_ne l l2 -> tight l -> tight l2.
Proof.
  intros H. induction H as [|a b la lb Hab Hl IH]; intros Ht; [exact I|]. cbn [tight] in *. destruct Ht as [Ha Ht].
  split; [|apply IH; assumption]. rewrite (same_ne_rs a b Hab), (same_ne_fne la lb Hl). intros N.
  destruct Hab as [H1 _]. rewrite (H1 N). apply Ha. assumption.
Qed.

Lemma same_ne_vfull l l2 : Forall2 same_ne l l2 -> vfull l -> vfull l2.
Proof.
  intros H. induction H as [|a b la lb Hab Hl IH]; intros Hv; [exact I|]. cbn [vfull] in *. destruct Hv as [Ha Hv].
  split; [|apply IH; assumption]. rewrite (same_ne_rs a b Hab). intros N Hnn.
  destruct Hab as [H1 _]. rewrite (H1 N). apply Ha; [assumption|]. intros ->. inversion Hl. subst. contradiction.
Qed.

Lemma same_ne_wf l l2 : Forall2 same_ne l l2 -> Forall wf_sec l -> Forall wf_sec l2.
Proof.
  intros H. induction H as [|a b la lb Hab Hl IH]; intros Hw; [constructor|]. inversion Hw; subst.
  constructor; [|apply IH; assumption]. destruct Hab as [Q1 Q2]. destruct (Z.eq_dec (real_size a) 0) as [E|N].
  - destruct (Q2 E) as [o ->]. assumption.
  - rewrite (Q1 N). assumption.
Qed.

Lemma lend_no_ne l : forall off, laid off l -> fne_off l = None -> lend off l = off.
Proof.
  induction l as [|s t IH]; intros off Hl Hn; cbn [lend]; [reflexivity|]. cbn [fne_off] in Hn. destruct Hl as [Hs [_ Hl]].
  destruct (Z.eqb_spec (real_size s) 0) as [E0|]; [|discriminate]. subst off. rewrite E0, Z.add_0_r in *. apply IH; assumption.
Qed.

(* on a laid, tight, full list the extension step changes nothing *)
Lemma extend_fix l : forall off, Forall wf_sec l -> 0 <= off < W64 -> laid off l -> tight l -> vfull l -> fst (extend l) = l.
Proof.
  induction l as [|s t IH]; intros off Hwf Hoff Hl Ht Hv; [reflexivity|].
  inversion Hwf as [|? ? Hws Hwt]; subst. pose proof (real_size_range s Hws) as Hrs.
  pose proof Hl as [Hs [Hb Hlt]]. destruct Ht as [Hts Htt]. destruct Hv as [Hvs Hvt].
  assert (He : 0 <= soff s + real_size s < W64).
  { destruct (laid_head_ge off s t Hwf ltac:(lia) Hl). lia. }
  pose proof (IH (soff s + real_size s) Hwt He Hlt Htt Hvt) as IF.
  destruct (extend_main t (soff s + real_size s) Hwt He Hlt) as [_ [_ [_ [_ Htgt]]]].
  destruct (extend_tight t (soff s + real_size s) Hwt He Hlt) as [_ HX].
  cbn [extend]. destruct (extend t) as [t' tgt] eqn:Et. cbn [fst snd] in *. subst t'.
  destruct (Z.eqb_spec (real_size s) 0) as [E0|Hne]; cbn [fst]; [reflexivity|].
  destruct tgt as [o|]; [|rewrite set_vsize_same; reflexivity].
  destruct Htgt as [Ho _].
  assert (Htn : t <> []) by (intros ->; cbn in Et; discriminate).
  assert (Eo : o = soff s + real_size s).
  { destruct (fne_off t) as [y|] eqn:Ey.
    - specialize (Hts Hne). cbn beta iota in Hts. rewrite (HX o y eq_refl eq_refl). lia.
    - rewrite (lend_no_ne t _ Hlt Ey) in Ho. lia. }
  rewrite Eo. replace (soff s + real_size s - soff s) with (real_size s) by ring.
  rewrite <- (Hvs Hne Htn). rewrite set_vsize_same. reflexivity.
Qed.

Lemma flatten_stable h h' : wf_holder h -> flatten_mid h = (EOk, h') ->
  exists h'', flatten_mid h' = (EOk, h'') /\ Forall2 same_ne h' h'' /\ code_size h'' = code_size h' /\ flatten_mid h'' = (EOk, h'').
Proof.
  intros Hwf E. destruct (flatten_flattened h h' Hwf E) as [Hp Eh Hwf' Hl Hlne _ _ _]. pose proof W64_pos.
  destruct (extend_tight (assign 0 h) 0 (assign_wf h 0 Hwf) ltac:(lia) Hl) as [Ht _].
  pose proof (extend_vfull (assign 0 h) 0 (assign_wf h 0 Hwf) ltac:(lia) Hl) as Hv. rewrite <- Eh in Ht, Hv.
  pose proof (pass1_laid_ne h' 0 Hlne) as Hp'.
  pose proof (assign_same_ne h' 0 Hlne) as Hsn.
  set (l2 := assign 0 h') in *.
  pose proof (assign_laid h' 0 Hwf' ltac:(lia) Hp') as Hl2. fold l2 in Hl2.
  pose proof (same_ne_wf _ _ Hsn Hwf') as Hw2.
  pose proof (extend_fix l2 0 Hw2 ltac:(lia) Hl2 (same_ne_tight _ _ Hsn Ht) (same_ne_vfull _ _ Hsn Hv)) as Hfix.
  assert (E2 : flatten_mid h' = (EOk, l2)).
  { unfold flatten_mid. rewrite Hp'. fold l2. rewrite Hfix. reflexivity. }
  exists l2. split; [assumption|]. split; [assumption|]. split; [apply (code_size_stable h' l2 Hwf' E2)|].
  unfold flatten_mid. destruct (laid_laid_ne 0 l2 Hl2) as [Hlne2 _]. rewrite (pass1_laid_ne l2 0 Hlne2).
  rewrite (assign_laid_id l2 0 Hl2), Hfix. reflexivity.
Qed.

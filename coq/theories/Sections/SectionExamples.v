(* C10 — witnesses: the defects of the unrepaired tree (on the `*_pinned` model) and satisfiability of the theorems' hypotheses. *)
From Coq Require Import ZArith List Bool Lia.
From Verif Require Import Sections.SectionModel Sections.SectionProofs Sections.SectionTable Sections.CopyProofs Sections.ShrinkProofs Sections.JitReloc Reloc.RelocModel.
Import ListNotations.
Local Open Scope Z_scope.

Ltac rng := vm_compute; split; [discriminate|reflexivity].
Ltac wf_tac :=
  unfold wf_holder;
  repeat (apply Forall_cons;
          [unfold wf_sec; cbn [svsize sbsize salign]; split; [rng|split; [rng|
             first [left; reflexivity | right; exists 6; split; [lia|reflexivity]]]]|]);
  apply Forall_nil.

(* DESIGN 7.26: .text 10 bytes, an empty section aligned to 64, a 5-byte section aligned to 64 *)
Definition witness726 : holder :=
  [ mkSection 0 INT_MIN 0 0 0 10 [] []; mkSection 1 0 64 NO_OFFSET 0 0 [] []; mkSection 2 0 64 NO_OFFSET 0 5 [] [] ].

Lemma pinned_code_size_refuted : exists h h',
  wf_holder h /\ flatten_pinned h = (EOk, h') /\ code_size_pinned h = 69 /\ code_size_pinned h' = 133.
Proof.
  exists witness726. eexists. split.
  - wf_tac.
  - split; [vm_compute; reflexivity|]. split; vm_compute; reflexivity.
Qed.

Lemma pinned_flatten_not_idempotent_refuted : exists h h' h'',
  flatten_pinned h = (EOk, h') /\ flatten_pinned h' = (EOk, h'') /\ map soff h' = [0; 10; 64] /\ map soff h'' = [0; 64; 128].
Proof.
  exists witness726. eexists. eexists. split; [vm_compute; reflexivity|]. split; [vm_compute; reflexivity|].
  split; vm_compute; reflexivity.
Qed.

(* the repaired model on the same input: the layout ends at 69, the empty section sits where the next non-empty one starts,
   and a second flatten changes nothing *)
Lemma repaired_726 : exists h',
  flatten witness726 = (EOk, h') /\ code_size witness726 = 69 /\ code_size h' = 69 /\ map soff h' = [0; 64; 64] /\
  flatten h' = (EOk, h').
Proof. eexists. split; [vm_compute; reflexivity|]. repeat split; vm_compute; reflexivity. Qed.

(* the residual defect after the first repair (found by the C03/C04 builder): .text 66 bytes, an EMPTY section aligned to 8, an
   8-byte section aligned to 8.  Forward loop only (flatten_mid = the tree before fixes/C10-flatten-empty-section-offset): the empty
   section sits at 66 after the first call and at 72 after the second *)
Definition witness_empty : holder :=
  [ mkSection 0 INT_MIN 0 0 0 66 [] []; mkSection 1 0 8 NO_OFFSET 0 0 [] []; mkSection 2 0 8 NO_OFFSET 0 8 [] [] ].

Lemma mid_flatten_not_idempotent_refuted : exists h h' h'',
  flatten_mid h = (EOk, h') /\ flatten_mid h' = (EOk, h'') /\ map soff h' = [0; 66; 72] /\ map soff h'' = [0; 72; 72] /\
  exists hf, flatten h = (EOk, hf) /\ map soff hf = [0; 72; 72] /\ flatten hf = (EOk, hf).
Proof.
  exists witness_empty. eexists. eexists. split; [vm_compute; reflexivity|]. split; [vm_compute; reflexivity|].
  split; [vm_compute; reflexivity|]. split; [vm_compute; reflexivity|]. eexists. split; [vm_compute; reflexivity|].
  split; vm_compute; reflexivity.
Qed.

(* code_size of the unrepaired tree misses the wrap of align_up: a virtual section of 2^64-10 bytes, then 5 bytes aligned to 64 *)
Definition witness_wrap : holder :=
  [ mkSection 0 INT_MIN 0 0 (W64 - 10) 0 [] []; mkSection 1 0 64 NO_OFFSET 5 0 [] [] ].

Lemma pinned_code_size_wrap_refuted : exists h,
  wf_holder h /\ flatten h = (ETooLarge, h) /\ code_size_pinned h = 5 /\ code_size h = SIZE_MAX.
Proof.
  exists witness_wrap. split.
  - wf_tac.
  - repeat split; vm_compute; reflexivity.
Qed.

(* satisfiability: a reachable holder with three sections (two of them created through new_section, negative and
   equal orders), contents, a successful flatten *)
Definition ex_h1 : holder := snd (new_section init_holder [46; 100] 64 0).
Definition ex_h2 : holder := snd (new_section ex_h1 [46; 98] 16 (-5)).
Definition ex_h3 : holder :=
  update_id (update_id ex_h2 0 (fun s => set_sizes s 10 0 (repeat 7 10))) 1 (fun s => set_sizes s 3 40 [1; 2; 3]).

Lemma ex_reachable : reachable ex_h3.
Proof.
  unfold ex_h3. apply r_update; [apply r_update|].
  - apply (r_new ex_h1 [46; 98] 16 (-5)); [|lia|unfold INT_MIN, INT_MAX; lia|vm_compute; reflexivity].
    apply (r_new init_holder [46; 100] 64 0); [apply r_init|lia|unfold INT_MIN, INT_MAX; lia|vm_compute; reflexivity].
  - intros s. cbn. pose proof W64_pos. repeat split; try lia; try (vm_compute; reflexivity).
  - intros s. cbn. pose proof W64_pos. repeat split; try lia; try (vm_compute; reflexivity).
Qed.

Lemma ex_flatten : exists h', flatten ex_h3 = (EOk, h') /\ map sid h' = [0; 2; 1] /\ map soff h' = [0; 64; 64] /\ code_size h' = 104.
Proof. eexists. split; [vm_compute; reflexivity|]. repeat split; vm_compute; reflexivity. Qed.

Lemma ex_overflow : exists h, wf_holder h /\ pass1 0 h = false.
Proof.
  exists witness_wrap. split; [wf_tac|vm_compute; reflexivity].
Qed.

(* satisfiability of the copy theorem's hypotheses: the example holder, a 110-cell destination inside 114 cells of memory, both flags *)
Lemma ex_copy : exists h' mem',
  wf_holder ex_h3 /\ data_len_ok ex_h3 /\ flatten ex_h3 = (EOk, h') /\
  copy_flat h' (repeat 205 110 ++ repeat 238 4) 110 true true = (EOk, mem') /\
  firstn 14 mem' = [7; 7; 7; 7; 7; 7; 7; 7; 7; 7; 0; 0; 0; 0] /\ firstn 5 (skipn 62 mem') = [0; 0; 1; 2; 3] /\
  skipn 104 mem' = [0; 0; 0; 0; 0; 0; 238; 238; 238; 238].
Proof.
  eexists. eexists. split; [exact (proj2 (proj2 (reachable_inv _ ex_reachable)))|].
  split; [repeat constructor|]. split; [vm_compute; reflexivity|]. split; [vm_compute; reflexivity|].
  repeat split; vm_compute; reflexivity.
Qed.

(* ... and of the estimate theorem's: .text of 6 bytes, an address table (8-aligned, two reserved slots) as the last section *)
Definition ex_tab : holder :=
  [ mkSection 0 INT_MIN 0 0 0 6 [] []; mkSection 1 INT_MAX 8 NO_OFFSET 16 0 [] [] ].

Lemma ex_estimate : exists h' l1 t,
  wf_holder ex_tab /\ flatten ex_tab = (EOk, h') /\ h' = l1 ++ [t] /\ sbsize t <= 0 <= svsize t /\ code_size h' = 24 /\
  code_size (fst (shrink_last h' (sid t) 0)) = 8 /\ code_size (fst (shrink_last h' (sid t) 8)) = 16.
Proof.
  eexists. exists [mkSection 0 INT_MIN 0 0 8 6 [] []]. eexists. split; [|split; [vm_compute; reflexivity|]].
  - unfold wf_holder, ex_tab. apply Forall_cons; [|apply Forall_cons; [|apply Forall_nil]]; unfold wf_sec; cbn [svsize sbsize salign].
    + split; [rng|]. split; [rng|]. left; reflexivity.
    + split; [rng|]. split; [rng|]. right. exists 3. split; [lia|reflexivity].
  - split; [reflexivity|]. cbn [sbsize svsize]. split; [lia|]. repeat split; vm_compute; reflexivity.
Qed.

(* relocation on a concrete flattened holder: .text = two `call abs` (one target out of rel32 reach, one near), the address
   table behind it; base 0x400000.  The bytes are those the real relocate_to_base + copy_flattened_data produce (corpus line). *)
Definition ex_rel : holder :=
  [ mkSection 0 INT_MIN 0 0 16 12 (CALL_BYTES ++ CALL_BYTES) []; mkSection 1 INT_MAX 8 16 16 0 [] [] ].

Lemma ex_relocate : exists h2,
  relocate_holder ex_rel (Some 1) [SCall 0 1311768467463790320; SCall 6 4198400] 4194304 = inl (h2, 8) /\
  map sdata h2 = [ [255; 21; 10; 0; 0; 0; 64; 232; 244; 15; 0; 0]; [240; 222; 188; 154; 120; 86; 52; 18] ] /\
  map sbsize h2 = [12; 8] /\ map svsize h2 = [16; 8] /\ code_size h2 = 24.
Proof. eexists. split; [vm_compute; reflexivity|]. repeat split; vm_compute; reflexivity. Qed.

(* a second relocation kind (embed_label, RelocType::kRelToAbs): .text holds 8 bytes for the address of a label bound at offset 5 of
   the 16-aligned section 1, then 8 bytes for a label at the start of the EMPTY section 2 (placed where the table starts) *)
Definition ex_abs : holder :=
  [ mkSection 0 INT_MIN 0 0 16 16 (zeros 16) []; mkSection 1 0 16 16 8 5 [1; 2; 3; 4; 5] []; mkSection 2 0 8 24 0 0 [] [];
    mkSection 3 INT_MAX 8 24 8 0 [] [] ].

Lemma ex_relocate_abs : exists h2,
  relocate_holder ex_abs (Some 3) [SAbs 0 1 5; SAbs 8 2 0] 4194304 = inl (h2, 8) /\
  map sdata h2 = [ [21; 0; 64; 0; 0; 0; 0; 0; 24; 0; 64; 0; 0; 0; 0; 0]; [1; 2; 3; 4; 5]; []; [] ].
Proof. eexists. split; [vm_compute; reflexivity|]. vm_compute. reflexivity. Qed.

(* the other two site kinds on the same holder as ex_abs (text 16 bytes at 0, section 1 at 16 with 5 bytes, empty section 2 at 24, table at 24):
   embed_label_delta (section 2 + 0) - (section 1 + 5) = 24 - 21 = 3 as 4 bytes at 0; jz 0x401000 at 4 from base 0x400000:
   0F 84 rel32 with rel32 = 0x401000 - (0x400000 + 10) = 0xFF6; and a jz that cannot reach its target is refused *)
Lemma ex_relocate_expr_rel : exists h2,
  relocate_holder ex_abs (Some 3) [SExpr 0 2 0 1 5 4; SRel 4 4198400] 4194304 = inl (h2, 8) /\
  firstn 10 (hd [] (map sdata h2)) = [3; 0; 0; 0; 0; 0; 246; 15; 0; 0] /\
  relocate_holder ex_abs (Some 3) [SRel 4 1311768467463790320] 4194304 = inr ROutOfRange /\
  relocate_holder ex_abs (Some 3) [SRel 12 4198400] 4194304 = inr RInvalidEntry.
Proof. eexists. split; [vm_compute; reflexivity|]. repeat split; vm_compute; reflexivity. Qed.

(* lookups on the reachable example holder: found (the first of that name), not found, key too long *)
Lemma ex_by_name : reachable ex_h3 /\ section_by_name ex_h3 [46; 100] = Some 1 /\ section_by_name ex_h3 [46; 98] = Some 2 /\
  section_by_name ex_h3 [120] = None /\ section_by_name ex_h3 (repeat 65 36) = None.
Proof. split; [exact ex_reachable|]. repeat split; vm_compute; reflexivity. Qed.
